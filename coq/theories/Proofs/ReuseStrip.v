(** The ownership certificate for ALL FOUR option combinations of SimOps (c_reuse x strip_forks).
    Section [BuildG] redoes the decomposition of [build] of Proofs/EndToEnd.v / Proofs/ReuseProofs.v for an arbitrary stem
    table: operands are read through [stemmed stems], reference counts are kept per stem, fan-out branches and PPO slots
    receive the stem's location after the level loop.  It is parametric in four facts about the op list ([HD1] [HD2] [HA]
    [HB]) that are then discharged for strip_forks=False (from Proofs/SemProofs.v) and strip_forks=True (Proofs/SemCompose.v).
    The allocation loop itself is [ReuseProofs.events_main] (generic in the stem table and in c_reuse). *)
From Coq Require Import List NArith ZArith Bool Arith Lia String Sorted Permutation.
From KV Require Import Model.Prims Model.Netlist Model.NetlistWf Model.Heap Model.HeapInv Model.SimOps Model.AllocCheck Model.SimOpsCert
     Model.NetlistSem Gen.SimTables Proofs.HeapProofs Proofs.AllocProofs Proofs.TopoProofs Proofs.SemProofs Proofs.SemCompose
     Proofs.EndToEnd Proofs.ReuseProofs Proofs.StripInvariance.
Import List.
Import ListNotations.
Local Open Scope list_scope.

Lemma locZ_alloc_slot cmin st idx cap x :
  locZ (alloc_slot cmin st idx cap) x =
  if Nat.eqb x idx && Nat.ltb idx (length (a_locs st)) then Z.of_N (fst (alloc (a_heap st) cap)) else locZ st x.
Proof. rewrite alloc_slot_eq. unfold locZ. cbn [a_locs]. apply nth_setZ. Qed.

Lemma ald_alloc_slot_mono cmin st idx cap x : ald st x -> ald (alloc_slot cmin st idx cap) x.
Proof. unfold ald. rewrite locZ_alloc_slot. destruct (Nat.eqb x idx && _); lia. Qed.

Lemma ald_alloc_slot_new cmin st idx cap : idx < length (a_locs st) -> ald (alloc_slot cmin st idx cap) idx.
Proof.
  intros H. unfold ald. rewrite locZ_alloc_slot, Nat.eqb_refl. apply Nat.ltb_lt in H. rewrite H. cbn [andb]. lia.
Qed.

Section BuildG.
  Variable c : netlist.
  Variable caps : list N.
  Variable cmin : N.
  Variable reuse strip : bool.
  Hypothesis WF : wf_netlist c.
  Hypothesis Hcmin : (0 < cmin)%N.
  Notation nl := (length (c_lines c)).
  Notation sn := (s_nodes c).
  Notation slen := (length (s_nodes c)).
  Notation ppi := (nl + 3).
  Notation ppo := (nl + 3 + slen).
  Notation len := (nl + 3 + slen + slen).
  Notation all_ip := (combine (seq 0 slen) sn).
  Notation tmp := (nl + 1).
  Notation ops := (build_ops c strip).
  Variable stems : list Z.
  Hypothesis Hst : build_stems c strip len = Some stems.
  Notation al := (stemmed stems).

  (** the four facts about the op list and the stem table *)
  Hypothesis HD1 : forall x, nl <= x -> al x = x.
  Hypothesis HD2 : forall x, x < nl -> al x < nl /\ al (al x) = al x.
  Hypothesis HA : forall pre o post, ops = pre ++ o :: post -> forall x, In x (opnds o) ->
    x < ppo /\ (al x = nl \/ (exists n p, iface_pos c n = Some p /\ al x = ppi + p /\ 0 < length (n_outs (get_node c n))) \/
                (al x < nl /\ In (al x) (map s_out pre))).
  Hypothesis HB : forall pre o post, ops = pre ++ o :: post ->
    s_out o = tmp \/ (s_out o < nl /\ al (s_out o) = s_out o /\ ~ In (s_out o) (map s_out pre)).

  Lemma al_idem x : al (al x) = al x.
  Proof. destruct (Nat.lt_ge_cases x nl) as [H|H]; [apply HD2; exact H|]. rewrite (HD1 x H). apply HD1. exact H. Qed.

  Lemma al_lt_ppo x : x < ppo -> al x < ppo.
  Proof. intros Hx. destruct (Nat.lt_ge_cases x nl) as [H|H]; [destruct (HD2 x H); lia|rewrite (HD1 x H); exact Hx]. Qed.

  Lemma rd_lt o k : In o ops -> In k (rd stems o) -> k < ppo.
  Proof.
    intros Ho Hk. unfold rd in Hk. apply in_map_iff in Hk. destruct Hk as (x & <- & Hx).
    apply in_split in Ho. destruct Ho as (pre & post & E). apply al_lt_ppo. apply (HA pre o post E x Hx).
  Qed.

  Lemma out_lt_g o : In o ops -> s_out o < ppo.
  Proof. intros Ho. apply in_split in Ho. destruct Ho as (pre & post & E). destruct (HB pre o post E) as [H|(H & _)]; lia. Qed.

  (** ** the stages of [build] *)
  Definition ls0g := levelize stems ops len.
  Definition starts0g := rev (ls_starts ls0g).
  Definition st0g : alloc_state :=
    {| a_heap := hinit; a_locs := repeat (-1)%Z len; a_caps := repeat 0%N len; a_ref := ls_ref ls0g; a_ok := true |}.
  Definition st3g : alloc_state :=
    alloc_slot cmin (alloc_slot cmin (alloc_slot cmin st0g nl cmin) (nl + 1) cmin) (nl + 2) cmin.
  Definition st4g : alloc_state := pinref (pinref (pinref st3g nl) (nl + 1)) (nl + 2).
  Definition st5g : alloc_state := fold_left (iface_step c cmin stems ppi) all_ip st4g.
  Definition lvsg : list (list sop) := split_levels starts0g ops 0.
  Definition st6g : alloc_state := fold_left (level_alloc tmp stems caps cmin reuse) lvsg st5g.
  Definition lc7g : list Z * list N := fold_left (stem_copy stems) (seq 0 len) (a_locs st6g, a_caps st6g).

  Lemma build_eq_g : build c caps cmin reuse strip =
    let '(locs8, caps8, ok8) := fold_left (ppo_step c ppo) all_ip (fst lc7g, snd lc7g, true) in
    if a_ok st6g && ok8 then
      Some {| so_ops := ops; so_level_starts := starts0g; so_locs := locs8; so_caps := caps8;
              so_len := mx (a_heap st6g); so_stems := stems; so_nlines := nl; so_slen := slen |}
    else None.
  Proof.
    unfold build. cbv zeta. rewrite Hst.
    change (fold_left _ (seq 0 len) (a_locs _, a_caps _)) with lc7g.
    destruct lc7g as [l7 c7]. reflexivity.
  Qed.

  Definition locs8g : list Z := fst (fst (fold_left (ppo_step c ppo) all_ip (fst lc7g, snd lc7g, true))).

  Lemma build_inv_g so : build c caps cmin reuse strip = Some so ->
    a_ok st6g = true /\ so_ops so = ops /\ so_stems so = stems /\ so_nlines so = nl /\ so_slen so = slen /\
    so_locs so = locs8g /\ so_level_starts so = starts0g.
  Proof.
    rewrite build_eq_g. unfold locs8g.
    destruct (fold_left (ppo_step c ppo) all_ip (fst lc7g, snd lc7g, true)) as [[l8 c8] ok8].
    cbn [fst]. destruct (a_ok st6g); [|discriminate]. destruct ok8; [|discriminate]. cbn [andb].
    intros H. injection H as <-. cbn [so_ops so_stems so_nlines so_slen so_locs so_level_starts]. repeat split; reflexivity.
  Qed.

  (** ** reference counts up to the start of the level loop *)
  Lemma ref0g : length (a_ref st0g) = len /\ forall x, refZ st0g x = cntR stems x ops.
  Proof.
    unfold st0g, refZ. cbn [a_ref]. unfold ls0g, levelize. rewrite ls_ref_fold. cbn [ls_ref].
    destruct (nth_ref_fold stems ops (repeat 0%Z len)) as [L N].
    - intros o k Ho Hk. rewrite repeat_length. pose proof (rd_lt o k Ho Hk). lia.
    - split; [rewrite L; apply repeat_length|]. intros x. rewrite N, nth_repeat. lia.
  Qed.

  Lemma ref3g : length (a_ref st3g) = len /\ forall x, refZ st3g x = cntR stems x ops.
  Proof.
    destruct ref0g as [L N]. unfold st3g. split; [rewrite !lenref_alloc_slot; exact L|].
    intros x. rewrite !refZ_alloc_slot. apply N.
  Qed.

  Lemma ref4g : length (a_ref st4g) = len /\ (forall x, (cntR stems x ops <= refZ st4g x)%Z) /\
    (cntR stems tmp ops + 1 <= refZ st4g tmp)%Z.
  Proof.
    destruct ref3g as [L N]. unfold st4g. split; [rewrite !lenref_pinref; exact L|]. split.
    - intros x. rewrite !refZ_pinref, N.
      repeat match goal with |- context [if ?b then _ else _] => destruct b end; lia.
    - rewrite !refZ_pinref, N, !lenref_pinref, L.
      replace (Nat.eqb tmp tmp) with true by (symmetry; apply Nat.eqb_refl).
      replace (Nat.ltb tmp len) with true by (symmetry; apply Nat.ltb_lt; lia). cbn [andb].
      repeat match goal with |- context [if ?b then _ else _] => destruct b end; lia.
  Qed.

  Lemma iface_step_ref_g st i n :
    length (a_ref (iface_step c cmin stems ppi st (i, n))) = length (a_ref st) /\
    (forall x, (refZ st x <= refZ (iface_step c cmin stems ppi st (i, n)) x)%Z) /\
    (forall l0 t, n_ins (get_node c n) = Some l0 :: t -> al l0 < length (a_ref st) ->
       (refZ st (al l0) + 1 <= refZ (iface_step c cmin stems ppi st (i, n)) (al l0))%Z).
  Proof.
    unfold iface_step. cbv zeta.
    set (sta := if Nat.ltb 0 (length (n_outs (get_node c n))) then pinref (alloc_slot cmin st (ppi + i) cmin) (ppi + i) else st).
    assert (A : length (a_ref sta) = length (a_ref st) /\ forall x, (refZ st x <= refZ sta x)%Z).
    { unfold sta. destruct (Nat.ltb 0 (length (n_outs (get_node c n)))).
      - split; [rewrite lenref_pinref, lenref_alloc_slot; reflexivity|]. intros x. rewrite refZ_pinref, refZ_alloc_slot.
        destruct (Nat.eqb x (ppi + i) && _); lia.
      - split; [reflexivity|]. intros x. lia. }
    destruct A as [A1 A2]. destruct (n_ins (get_node c n)) as [|[l0|] t].
    - split; [exact A1|]. split; [exact A2|]. intros l0 t E. discriminate.
    - split; [rewrite lenref_pinref; exact A1|]. split.
      + intros x. rewrite refZ_pinref. pose proof (A2 x). destruct (Nat.eqb x (al l0) && _); lia.
      + intros l0' t' E Hl. injection E as <- <-. rewrite refZ_pinref, Nat.eqb_refl, A1.
        apply Nat.ltb_lt in Hl. rewrite Hl. cbn [andb]. pose proof (A2 (al l0)). lia.
    - split; [exact A1|]. split; [exact A2|]. intros l0 t' E. discriminate.
  Qed.

  Lemma iface_fold_ref_g : forall l st,
    length (a_ref (fold_left (iface_step c cmin stems ppi) l st)) = length (a_ref st) /\
    (forall x, (refZ st x <= refZ (fold_left (iface_step c cmin stems ppi) l st) x)%Z) /\
    (forall i n l0 t, In (i, n) l -> n_ins (get_node c n) = Some l0 :: t -> al l0 < length (a_ref st) ->
       (refZ st (al l0) + 1 <= refZ (fold_left (iface_step c cmin stems ppi) l st) (al l0))%Z).
  Proof.
    induction l as [|[i n] r IH]; intros st.
    - cbn [fold_left]. split; [reflexivity|]. split; [intros x; lia|intros i n l0 t []].
    - cbn [fold_left]. destruct (iface_step_ref_g st i n) as (S1 & S2 & S3).
      destruct (IH (iface_step c cmin stems ppi st (i, n))) as (I1 & I2 & I3).
      split; [rewrite I1; exact S1|]. split; [intros x; pose proof (S2 x); pose proof (I2 x); lia|].
      intros i' n' l0 t [E|Hin] En Hl.
      + injection E as <- <-. pose proof (S3 l0 t En Hl). pose proof (I2 (al l0)). lia.
      + rewrite <- S1 in Hl. pose proof (I3 i' n' l0 t Hin En Hl). pose proof (S2 (al l0)). lia.
  Qed.

  (** the pins *)
  Definition Pg (x : nat) : Z := (refZ st5g x - cntR stems x ops)%Z.

  Lemma ref5g : length (a_ref st5g) = len /\ (forall x, (0 <= Pg x)%Z) /\ (0 < Pg tmp)%Z /\
    (forall i l0 t, i < slen -> n_ins (get_node c (nth i sn 0)) = Some l0 :: t -> (0 < Pg (al l0))%Z).
  Proof.
    destruct ref4g as (L & N & T). unfold Pg, st5g. destruct (iface_fold_ref_g all_ip st4g) as (I1 & I2 & I3).
    split; [rewrite I1; exact L|]. split; [intros x; pose proof (N x); pose proof (I2 x); lia|].
    split; [pose proof (I2 tmp); lia|].
    intros i l0 t Hi En. pose proof (ip_ins_lt c WF _ _ _ En) as Hl0. destruct (HD2 l0 Hl0) as [Hal _].
    assert (Hin : In (i, nth i sn 0) all_ip) by (apply (combine_seq_in 0 sn 0 i); exact Hi).
    pose proof (I3 i _ l0 t Hin En) as X. rewrite L in X. pose proof (N (al l0)). lia.
  Qed.

  (** ** chunks up to the start of the level loop *)
  Lemma GI0g : GI nl ppo st0g.
  Proof.
    unfold GI, ald, locZ, st0g. cbn [a_heap a_locs]. split; [apply hinit_inv|].
    split; [|split]; intros x; rewrite nth_repeat; lia.
  Qed.

  Lemma len0g : length (a_locs st0g) = len.
  Proof. cbn. apply repeat_length. Qed.

  Lemma len3g : length (a_locs st3g) = len.
  Proof. unfold st3g. rewrite !len_alloc_slot. apply len0g. Qed.

  Lemma GI3g : GI nl ppo st3g.
  Proof.
    unfold st3g. pose proof len0g as L0.
    apply GI_alloc; [exact Hcmin| |exact Hcmin|rewrite !len_alloc_slot, L0; lia|lia].
    apply GI_alloc; [exact Hcmin| |exact Hcmin|rewrite !len_alloc_slot, L0; lia|lia].
    apply GI_alloc; [exact Hcmin|apply GI0g|exact Hcmin|rewrite L0; lia|lia].
  Qed.

  Lemma iface_step_GI_g st i n : i < slen -> length (a_locs st) = len -> GI nl ppo st ->
    GI nl ppo (iface_step c cmin stems ppi st (i, n)) /\ length (a_locs (iface_step c cmin stems ppi st (i, n))) = len /\
    (forall x, ald st x -> ald (iface_step c cmin stems ppi st (i, n)) x) /\
    (0 < length (n_outs (get_node c n)) -> ald (iface_step c cmin stems ppi st (i, n)) (ppi + i)).
  Proof.
    intros Hi L G. unfold iface_step. cbv zeta.
    set (sta := if Nat.ltb 0 (length (n_outs (get_node c n))) then pinref (alloc_slot cmin st (ppi + i) cmin) (ppi + i) else st).
    assert (A : GI nl ppo sta /\ length (a_locs sta) = len /\ (forall x, ald st x -> ald sta x) /\
                (0 < length (n_outs (get_node c n)) -> ald sta (ppi + i))).
    { unfold sta. destruct (Nat.ltb 0 (length (n_outs (get_node c n)))) eqn:E.
      - split; [|split; [|split]].
        + apply (GI_same _ _ (alloc_slot cmin st (ppi + i) cmin)); [reflexivity|reflexivity|].
          apply GI_alloc; [exact Hcmin|exact G|exact Hcmin|lia|lia].
        + cbn [pinref a_locs]. rewrite len_alloc_slot. exact L.
        + intros x Hx. apply (ald_alloc_slot_mono cmin st (ppi + i) cmin x Hx).
        + intros _. apply (ald_alloc_slot_new cmin st (ppi + i) cmin). lia.
      - split; [exact G|]. split; [exact L|]. split; [auto|]. apply Nat.ltb_ge in E. lia. }
    destruct A as (A1 & A2 & A3 & A4). destruct (n_ins (get_node c n)) as [|[l0|] t]; [auto| |auto].
    split; [apply (GI_same _ _ sta); [reflexivity|reflexivity|exact A1]|]. auto.
  Qed.

  Lemma iface_fold_GI_g : forall l st, (forall ip, In ip l -> fst ip < slen) -> length (a_locs st) = len -> GI nl ppo st ->
    GI nl ppo (fold_left (iface_step c cmin stems ppi) l st) /\ length (a_locs (fold_left (iface_step c cmin stems ppi) l st)) = len /\
    (forall x, ald st x -> ald (fold_left (iface_step c cmin stems ppi) l st) x) /\
    (forall i n, In (i, n) l -> 0 < length (n_outs (get_node c n)) -> ald (fold_left (iface_step c cmin stems ppi) l st) (ppi + i)).
  Proof.
    induction l as [|[i n] r IH]; intros st Hl L G.
    - cbn [fold_left]. split; [exact G|]. split; [exact L|]. split; [auto|intros i n []].
    - cbn [fold_left]. destruct (iface_step_GI_g st i n (Hl (i, n) (or_introl eq_refl)) L G) as (G1 & L1 & M1 & N1).
      destruct (IH _ (fun ip Hip => Hl ip (or_intror Hip)) L1 G1) as (G2 & L2 & M2 & N2).
      split; [exact G2|]. split; [exact L2|]. split; [intros x Hx; apply M2, M1, Hx|].
      intros i' n' [E|Hin] Ho; [injection E as <- <-; apply M2, N1, Ho|apply (N2 i' n' Hin Ho)].
  Qed.

  Lemma fold5g : GI nl ppo st5g /\ length (a_locs st5g) = len /\ (forall x, ald st4g x -> ald st5g x) /\
    (forall i n, In (i, n) all_ip -> 0 < length (n_outs (get_node c n)) -> ald st5g (ppi + i)).
  Proof.
    unfold st5g. apply iface_fold_GI_g.
    - apply (in_comb_lt c cmin Hcmin).
    - change (a_locs st4g) with (a_locs st3g). apply len3g.
    - apply (GI_same _ _ st3g); [reflexivity|reflexivity|apply GI3g].
  Qed.

  Lemma ald5g_zero : ald st5g nl.
  Proof.
    apply fold5g. change (ald st3g nl). unfold st3g. do 2 apply ald_alloc_slot_mono. apply ald_alloc_slot_new.
    rewrite len0g. lia.
  Qed.

  Lemma ald5g_tmp : ald st5g tmp.
  Proof.
    apply fold5g. change (ald st3g tmp). unfold st3g. apply ald_alloc_slot_mono. apply ald_alloc_slot_new.
    rewrite len_alloc_slot, len0g. lia.
  Qed.

  Lemma ald5g_ppi n p : iface_pos c n = Some p -> 0 < length (n_outs (get_node c n)) -> ald st5g (ppi + p).
  Proof. intros Hi Ho. apply (proj2 (proj2 (proj2 fold5g)) p n (iface_in_ip c cmin Hcmin n p Hi) Ho). Qed.

  Lemma J5g : J tmp stems Pg len (refZ st5g) st5g [] ops.
  Proof.
    destruct fold5g as ((G1 & G2 & G3 & G4) & L5 & _). destruct ref5g as (R1 & R2 & R3 & R4).
    constructor.
    - exact G1.
    - exact L5.
    - exact R1.
    - intros x. unfold Pg. lia.
    - intros x. lia.
    - intros x Hx _. apply G2. exact Hx.
    - intros x y Hx Hy _ _. apply G3; assumption.
    - intros l [].
    - constructor.
    - split; [apply ald5g_tmp|exact R3].
  Qed.

  Lemma W5g : (forall o, In o ops -> s_out o <> tmp -> capok caps o) -> W tmp stems caps len (ald st5g) ops.
  Proof.
    intros CAP. destruct fold5g as ((_ & _ & _ & G4) & _).
    apply (W_ext tmp stems caps len ops (fun x => ald st5g x \/ outs' tmp [] x)).
    { intros x. split; [intros [H|[_ []]]; exact H|intros H; left; exact H]. }
    apply W_of_splits. intros pre o post E. cbn [app].
    assert (Ho : In o ops) by (rewrite E; apply in_or_app; right; left; reflexivity).
    split.
    - intros k Hk. split; [pose proof (rd_lt o k Ho Hk); lia|].
      unfold rd in Hk. apply in_map_iff in Hk. destruct Hk as (x & <- & Hx).
      destruct (HA pre o post E x Hx) as (_ & [->|[(n & p & Hi & -> & Hout)|(Hl & Hw)]]).
      + left. apply ald5g_zero.
      + left. apply (ald5g_ppi n p Hi Hout).
      + right. split; [lia|exact Hw].
    - destruct (HB pre o post E) as [Ht|(Hl & _ & Hn)]; [left; exact Ht|right].
      split; [lia|]. split; [intros H; specialize (G4 _ H); lia|]. split; [exact Hn|apply CAP; [exact Ho|lia]].
  Qed.

  (** ** the level loop *)
  Lemma starts0g_ne : starts0g <> [].
  Proof.
    unfold starts0g, ls0g, levelize. rewrite starts_bumps. cbn [ls_starts].
    rewrite rev_app_distr. cbn [rev app]. discriminate.
  Qed.

  Lemma concat_lvsg : concat lvsg = ops.
  Proof. apply concat_split_levels. apply starts0g_ne. Qed.

  Lemma st6g_events : st6g = fst (fold_left (ev_step tmp stems caps cmin reuse) (events lvsg) (st5g, [])).
  Proof. apply fold_levels_events. Qed.

  Lemma ops_events_g : ops_of (events lvsg) = ops.
  Proof. rewrite ops_of_events. apply concat_lvsg. Qed.

  Lemma ok5g : a_ok st5g = true.
  Proof.
    unfold st5g. assert (G : forall l st, a_ok (fold_left (iface_step c cmin stems ppi) l st) = a_ok st).
    { induction l as [|[i n] r IH]; intros st; [reflexivity|]. cbn [fold_left]. rewrite IH.
      unfold iface_step. cbv zeta. destruct (Nat.ltb 0 (length (n_outs (get_node c n))));
        destruct (n_ins (get_node c n)) as [|[l0|] t]; cbn [pinref a_ok]; rewrite ?ok_alloc_slot; reflexivity. }
    rewrite G. unfold st4g. cbn [pinref a_ok]. unfold st3g. rewrite !ok_alloc_slot. reflexivity.
  Qed.

  Lemma main6g_cap : (forall o, In o ops -> s_out o <> tmp -> capok caps o) ->
    (forall x, ald st5g x -> locZ st6g x = locZ st5g x) /\
    (forall o, In o ops -> s_out o <> tmp -> ald st6g (s_out o)) /\
    (forall x, ald st6g x -> ald st5g x \/ outs' tmp ops x) /\
    (forall pre o post, ops = pre ++ o :: post -> forall x, x <> s_out o ->
        (ald st5g x \/ outs' tmp pre x) -> ((0 < Pg x)%Z \/ In x (flat_map (rd stems) (o :: post))) ->
        locZ st6g x <> locZ st6g (s_out o)) /\
    length (a_locs st6g) = len /\ HInv (a_heap st6g) /\ a_ok st6g = true.
  Proof.
    intros CAP. rewrite st6g_events in *.
    destruct ref5g as (_ & Ppos & _).
    pose proof (events_main tmp stems caps cmin reuse Hcmin Pg Ppos len (events lvsg) st5g [] (refZ st5g)) as M.
    rewrite ops_events_g in M. specialize (M J5g (W5g CAP)). cbv zeta in M.
    destruct M as (K1 & K2 & K3 & K4 & K5 & K6 & K7).
    split; [exact K1|]. split; [exact K2|]. split; [exact K3|].
    split; [|split; [exact K6|split; [exact K7|rewrite K5; apply ok5g]]].
    intros pre o post E x Nx Hd Hn. rewrite <- ops_events_g in E.
    destruct (ops_of_split _ _ _ _ E) as (pe & qe & Ee & <- & <-).
    apply (K4 pe o qe Ee x Nx Hd Hn).
  Qed.

  Lemma main6g : a_ok st6g = true ->
    (forall x, ald st5g x -> locZ st6g x = locZ st5g x) /\
    (forall o, In o ops -> s_out o <> tmp -> ald st6g (s_out o)) /\
    (forall x, ald st6g x -> ald st5g x \/ outs' tmp ops x) /\
    (forall pre o post, ops = pre ++ o :: post -> forall x, x <> s_out o ->
        (ald st5g x \/ outs' tmp pre x) -> ((0 < Pg x)%Z \/ In x (flat_map (rd stems) (o :: post))) ->
        locZ st6g x <> locZ st6g (s_out o)) /\
    length (a_locs st6g) = len /\ HInv (a_heap st6g).
  Proof.
    intros Hok. assert (CAP : forall o, In o ops -> s_out o <> tmp -> capok caps o).
    { rewrite st6g_events in Hok. destruct (events_ok tmp stems caps cmin reuse _ _ Hok) as [_ CAP].
      rewrite ops_events_g in CAP. exact CAP. }
    destruct (main6g_cap CAP) as (K1 & K2 & K3 & K4 & K5 & K6 & _).
    exact (conj K1 (conj K2 (conj K3 (conj K4 (conj K5 K6))))).
  Qed.

  (** ** the published map: branches take the stem's location, PPO slots the location of the (stem of the) line feeding the s_node *)
  Lemma stem_copy_fold (L6 : list Z) : forall n s L C,
    s + n = len -> length L = len ->
    (forall x, x < s -> nth x L (-1)%Z = nth (al x) L6 (-1)%Z) -> (forall x, s <= x -> nth x L (-1)%Z = nth x L6 (-1)%Z) ->
    length (fst (fold_left (stem_copy stems) (seq s n) (L, C))) = len /\
    forall x, x < len -> nth x (fst (fold_left (stem_copy stems) (seq s n) (L, C))) (-1)%Z = nth (al x) L6 (-1)%Z.
  Proof.
    induction n as [|n IH]; intros s L C Hs HL Hlo Hhi.
    - cbn [seq fold_left fst]. split; [exact HL|]. intros x Hx. apply Hlo. lia.
    - cbn [seq fold_left].
      assert (Es : stem_copy stems (L, C) s =
                   if (0 <=? nth s stems (-1))%Z then (setZ L s (nth (al s) L (-1)%Z), setN C s (nth (al s) C 0%N)) else (L, C)).
      { unfold stem_copy, stemmed. cbv zeta. cbn [fst snd]. destruct (0 <=? nth s stems (-1))%Z; reflexivity. }
      rewrite Es. destruct (0 <=? nth s stems (-1))%Z eqn:E.
      + apply IH; [lia|rewrite setZ_length; exact HL| |].
        * intros x Hx. destruct (Nat.eq_dec x s) as [->|N].
          -- rewrite nth_setZ_eq by lia.
             destruct (Nat.lt_ge_cases (al s) s) as [H|H]; [rewrite (Hlo _ H), al_idem; reflexivity|apply Hhi; exact H].
          -- rewrite nth_setZ_neq by exact N. apply Hlo. lia.
        * intros x Hx. rewrite nth_setZ_neq by lia. apply Hhi. lia.
      + assert (Eal : al s = s) by (unfold stemmed; rewrite E; reflexivity).
        apply IH; [lia|exact HL| |].
        * intros x Hx. destruct (Nat.eq_dec x s) as [->|N]; [|apply Hlo; lia].
          rewrite Eal. apply Hhi. lia.
        * intros x Hx. apply Hhi. lia.
  Qed.

  Lemma locF_ald0 st x : locF st x <> None <-> ald st x.
  Proof.
    unfold locF, ald. destruct (0 <=? locZ st x)%Z eqn:E.
    - apply Z.leb_le in E. split; [auto|discriminate].
    - apply Z.leb_gt in E. split; [congruence|lia].
  Qed.

  Lemma locF_eq0 st x y l : locF st x = Some l -> locF st y = Some l -> locZ st x = locZ st y.
  Proof.
    unfold locF. destruct (0 <=? locZ st x)%Z eqn:Ex; [|discriminate]. destruct (0 <=? locZ st y)%Z eqn:Ey; [|discriminate].
    apply Z.leb_le in Ex, Ey. intros H1 H2. injection H1 as <-. injection H2 as H2. apply Z2Nat.inj; auto.
  Qed.

  Section CertG.
    Variable so : simops.
    Hypothesis Hb : build c caps cmin reuse strip = Some so.

    Let Hok : a_ok st6g = true. Proof. apply (build_inv_g so Hb). Qed.
    Let Eops : so_ops so = ops. Proof. apply (build_inv_g so Hb). Qed.
    Let Estems : so_stems so = stems. Proof. apply (build_inv_g so Hb). Qed.
    Let Enl : so_nlines so = nl. Proof. apply (build_inv_g so Hb). Qed.
    Let Eslen : so_slen so = slen. Proof. apply (build_inv_g so Hb). Qed.
    Let Elocs : so_locs so = locs8g. Proof. apply (build_inv_g so Hb). Qed.

    Lemma so_ops_eq_g : so_ops so = ops. Proof. exact Eops. Qed.
    Lemma so_stems_eq_g : so_stems so = stems. Proof. exact Estems. Qed.

    Lemma len6g : length (a_locs st6g) = len.
    Proof. apply (main6g Hok). Qed.

    Lemma only6g x : ald st6g x -> x < ppo.
    Proof.
      intros H. destruct (main6g Hok) as (_ & _ & K3 & _). destruct (K3 x H) as [H5|[_ Ho]].
      - destruct fold5g as ((_ & _ & _ & G4) & _). apply G4 in H5. lia.
      - apply in_map_iff in Ho. destruct Ho as (o & <- & Ho). apply out_lt_g. exact Ho.
    Qed.

    Lemma ald56g x : ald st5g x -> ald st6g x.
    Proof. intros H. destruct (main6g Hok) as (K1 & _). unfold ald. rewrite (K1 x H). exact H. Qed.

    Lemma ald6g_out o : In o ops -> ald st6g (s_out o).
    Proof.
      intros Ho. destruct (Nat.eq_dec (s_out o) tmp) as [E|E]; [rewrite E; apply ald56g, ald5g_tmp|].
      destruct (main6g Hok) as (_ & K2 & _). apply K2; assumption.
    Qed.

    Lemma L7_spec : length (fst lc7g) = len /\ forall x, x < len -> nth x (fst lc7g) (-1)%Z = locZ st6g (al x).
    Proof.
      unfold lc7g. apply (stem_copy_fold (a_locs st6g) len 0); [lia|apply len6g|intros x Hx; lia|intros x _; reflexivity].
    Qed.

    Let PFg := ppo_fold_exact c cmin WF Hcmin all_ip (fst lc7g) (snd lc7g) true
                (fun i n H => in_comb_lt c cmin Hcmin (i, n) H)
                (eq_ind_r (fun l => NoDup l) (seq_NoDup slen 0) (fst_combine_seq sn 0)) (proj1 L7_spec).

    Lemma pubg_lt x : x < ppo -> nth x (so_locs so) (-1)%Z = locZ st6g (al x).
    Proof.
      intros Hx. rewrite Elocs. unfold locs8g. destruct PFg as (_ & I2 & _). rewrite I2 by (intros i n _; lia).
      apply L7_spec. lia.
    Qed.

    Lemma pubg_ppo i : i < slen -> nth (ppo + i) (so_locs so) (-1)%Z =
      match n_ins (get_node c (nth i sn 0)) with Some l0 :: _ => locZ st6g (al l0) | _ => locZ st6g (ppo + i) end.
    Proof.
      intros Hi. rewrite Elocs. unfold locs8g. destruct PFg as (_ & _ & I3).
      rewrite (I3 i (nth i sn 0)) by (apply (combine_seq_in 0 sn 0 i); exact Hi).
      destruct (n_ins (get_node c (nth i sn 0))) as [|[l0|] t] eqn:En.
      - rewrite (proj2 L7_spec) by lia. rewrite HD1 by lia. reflexivity.
      - pose proof (ip_ins_lt c WF _ _ _ En). apply L7_spec. lia.
      - rewrite (proj2 L7_spec) by lia. rewrite HD1 by lia. reflexivity.
    Qed.

    Lemma so_loc_g x : x < ppo -> so_loc so x = locF st6g (al x).
    Proof. intros Hx. unfold so_loc, locF. cbv zeta. rewrite (pubg_lt x Hx). reflexivity. Qed.

    Lemma so_loc_ppo_g i l0 t : i < slen -> n_ins (get_node c (nth i sn 0)) = Some l0 :: t -> so_loc so (ppo + i) = locF st6g (al l0).
    Proof. intros Hi En. unfold so_loc, locF. cbv zeta. rewrite (pubg_ppo i Hi), En. reflexivity. Qed.

    Lemma so_loc_ppo_none_g i : i < slen ->
      (forall l0 t, n_ins (get_node c (nth i sn 0)) <> Some l0 :: t) -> so_loc so (ppo + i) = None.
    Proof.
      intros Hi En. unfold so_loc. cbv zeta. rewrite (pubg_ppo i Hi).
      assert (E : (0 <=? locZ st6g (ppo + i))%Z = false).
      { apply Z.leb_gt. destruct (Z_lt_le_dec (locZ st6g (ppo + i)) 0) as [H|H]; [exact H|]. apply only6g in H. lia. }
      destruct (n_ins (get_node c (nth i sn 0))) as [|[l0|] t]; [rewrite E; reflexivity| |rewrite E; reflexivity].
      exfalso. apply (En l0 t). reflexivity.
    Qed.

    Lemma alias_g x : x < ppo -> so_alias c so x = al x.
    Proof.
      intros Hx. unfold so_alias, so_ppo. rewrite Enl, Eslen, Estems.
      destruct (Nat.leb ppo x) eqn:E; [apply Nat.leb_le in E; lia|]. reflexivity.
    Qed.

    Lemma alias_ppo_g i l0 t : n_ins (get_node c (nth i sn 0)) = Some l0 :: t -> so_alias c so (ppo + i) = al l0.
    Proof.
      intros En. unfold so_alias, so_ppo. rewrite Enl, Eslen, Estems.
      destruct (Nat.leb ppo (ppo + i)) eqn:E; [|apply Nat.leb_gt in E; lia].
      replace (ppo + i - ppo) with i by lia. rewrite En. reflexivity.
    Qed.

    Lemma final_char_g p : In p (so_final so) <->
      exists i l0 t, i < slen /\ p = ppo + i /\ n_ins (get_node c (nth i sn 0)) = Some l0 :: t /\ ald st6g (al l0).
    Proof.
      unfold so_final, so_ppo. rewrite Enl, Eslen, filter_In, in_map_iff. split.
      - intros [(i & <- & Hi) Hf]. apply in_seq in Hi. assert (Hi' : i < slen) by lia.
        destruct (n_ins (get_node c (nth i sn 0))) as [|[l0|] t] eqn:En.
        + rewrite so_loc_ppo_none_g in Hf; [discriminate|exact Hi'|]. intros l0 t. rewrite En. discriminate.
        + exists i, l0, t. split; [exact Hi'|]. split; [reflexivity|]. split; [exact En|].
          rewrite (so_loc_ppo_g i l0 t Hi' En) in Hf. apply locF_ald0. destruct (locF st6g (al l0)); [discriminate|discriminate].
        + rewrite so_loc_ppo_none_g in Hf; [discriminate|exact Hi'|]. intros l0 t'. rewrite En. discriminate.
      - intros (i & l0 & t & Hi & -> & En & Ha). split.
        + exists i. split; [reflexivity|]. apply in_seq. lia.
        + rewrite (so_loc_ppo_g i l0 t Hi En). apply locF_ald0 in Ha. destruct (locF st6g (al l0)); [reflexivity|congruence].
    Qed.

    Lemma init_char_g x : In x (so_init so) <-> x = nl \/ exists i, i < slen /\ x = ppi + i /\ ald st6g (ppi + i).
    Proof.
      unfold so_init, so_ppi. rewrite Enl, Eslen. cbn [In]. rewrite filter_In, in_map_iff. split.
      - intros [H|[(i & <- & Hi) Hf]]; [left; symmetry; exact H|right]. apply in_seq in Hi. exists i.
        split; [lia|]. split; [reflexivity|]. rewrite so_loc_g in Hf by lia. rewrite HD1 in Hf by lia. apply locF_ald0.
        destruct (locF st6g (ppi + i)); [discriminate|discriminate].
      - intros [->|(i & Hi & -> & Ha)]; [left; reflexivity|right]. split.
        + exists i. split; [reflexivity|]. apply in_seq. lia.
        + rewrite so_loc_g by lia. rewrite HD1 by lia. apply locF_ald0 in Ha. destruct (locF st6g (ppi + i)); [reflexivity|congruence].
    Qed.

    Lemma init_nodup_g : NoDup (so_init so).
    Proof.
      unfold so_init, so_ppi. rewrite Enl, Eslen. constructor.
      - intros H. apply filter_In in H. destruct H as [H _]. apply in_map_iff in H. destruct H as (i & E & _). lia.
      - apply NoDup_filter. apply NoDup_map_add.
    Qed.

    Lemma loc_some_g x : x < ppo -> ald st6g (al x) -> so_loc so x <> None.
    Proof. intros Hx Ha. rewrite (so_loc_g x Hx). apply locF_ald0. exact Ha. Qed.

    Lemma init_g x : In x (so_init so) -> x < ppo /\ nl <= x /\ ald st5g x.
    Proof.
      intros H. apply init_char_g in H. destruct H as [->|(i & Hi & -> & Ha)].
      - split; [lia|]. split; [lia|apply ald5g_zero].
      - split; [lia|]. split; [lia|]. destruct (main6g Hok) as (_ & _ & K3 & _). destruct (K3 _ Ha) as [H5|[Nt Ho]]; [exact H5|].
        apply in_map_iff in Ho. destruct Ho as (o & E & Ho). apply in_split in Ho. destruct Ho as (pre & post & Eo).
        destruct (HB pre o post Eo) as [H|(H & _)]; lia.
    Qed.

    Lemma out_al o : In o ops -> al (s_out o) = s_out o.
    Proof.
      intros Ho. apply in_split in Ho. destruct Ho as (pre & post & E).
      destruct (HB pre o post E) as [H|(_ & H & _)]; [rewrite H; apply HD1; lia|exact H].
    Qed.

    Theorem build_map_check_g :
      map_check (so_loc so) (so_alias c so) (so_init so) (so_final so) (so_ops so) = true.
    Proof.
      destruct (main6g Hok) as (K1 & K2 & K3 & K4 & _). rewrite Eops.
      apply (map_check_intro_nc (so_loc so) (so_alias c so) (fun x => (0 < Pg x)%Z)).
      - apply init_nodup_g.
      - intros x Hx. destruct (init_g x Hx) as (H1 & H2 & H3). split; [rewrite (alias_g x H1); apply HD1; exact H2|].
        apply loc_some_g; [exact H1|]. rewrite (HD1 x H2). apply ald56g. exact H3.
      - intros x y l Hx Hy Lx Ly. destruct (init_g x Hx) as (X1 & X2 & X3). destruct (init_g y Hy) as (Y1 & Y2 & Y3).
        rewrite so_loc_g in Lx, Ly by assumption. rewrite HD1 in Lx, Ly by assumption.
        pose proof (locF_eq0 st6g x y l Lx Ly) as E.
        rewrite (K1 x X3), (K1 y Y3) in E. destruct fold5g as ((_ & _ & G3 & _) & _). apply G3; assumption.
      - intros o Ho. pose proof (out_lt_g o Ho) as Hlt. split; [rewrite (alias_g _ Hlt); apply out_al; exact Ho|].
        apply loc_some_g; [exact Hlt|]. rewrite (out_al o Ho). apply ald6g_out. exact Ho.
      - intros pre o post E x Hx.
        assert (Ho : In o ops) by (rewrite E; apply in_or_app; right; left; reflexivity).
        destruct (HA pre o post E x Hx) as (Hlt & Hcl).
        pose proof (al_lt_ppo x Hlt) as Halt.
        rewrite (alias_g x Hlt).
        assert (Eloc : so_loc so x = so_loc so (al x)) by (rewrite (so_loc_g x Hlt), (so_loc_g _ Halt), al_idem; reflexivity).
        destruct Hcl as [Ez|[(n & p & Hi & Ep & Hout)|(Hl & Hw)]].
        + split; [apply loc_some_g; [exact Hlt|rewrite Ez; apply ald56g, ald5g_zero]|]. split; [exact Eloc|].
          left. rewrite Ez. apply init_char_g. left. reflexivity.
        + split; [apply loc_some_g; [exact Hlt|rewrite Ep; apply ald56g, (ald5g_ppi n p Hi Hout)]|]. split; [exact Eloc|].
          left. rewrite Ep. apply init_char_g. right. exists p. split; [apply (iface_pos_lt c n p Hi)|]. split; [reflexivity|].
          apply ald56g, (ald5g_ppi n p Hi Hout).
        + split; [|split; [exact Eloc|right; exact Hw]].
          apply loc_some_g; [exact Hlt|]. apply in_map_iff in Hw. destruct Hw as (o' & <- & Ho').
          apply ald6g_out. rewrite E. apply in_or_app. left. exact Ho'.
      - intros pre o post E y Ny Hd Hn.
        assert (Ho : In o ops) by (rewrite E; apply in_or_app; right; left; reflexivity).
        assert (Hy : y < ppo /\ al y = y).
        { destruct Hd as [Hd|Hd]; [destruct (init_g y Hd) as (A & B & _); split; [exact A|apply HD1; exact B]|].
          apply in_map_iff in Hd. destruct Hd as (o' & <- & Ho').
          assert (Ho'' : In o' ops) by (rewrite E; apply in_or_app; left; exact Ho').
          split; [apply out_lt_g; exact Ho''|apply out_al; exact Ho'']. }
        destruct Hy as [Hy Hay]. pose proof (out_lt_g o Ho) as Hol. pose proof (out_al o Ho) as Hoa.
        rewrite (so_loc_g y Hy), (so_loc_g _ Hol), Hay, Hoa. intros Eq.
        pose proof (ald6g_out o Ho) as Hao. apply locF_ald0 in Hao. destruct (locF st6g (s_out o)) as [l|] eqn:El; [|congruence].
        apply (K4 pre o post E y Ny).
        + destruct Hd as [Hd|Hd]; [left; apply (init_g y Hd)|].
          destruct (Nat.eq_dec y tmp) as [->|Nt]; [left; apply ald5g_tmp|right; split; assumption].
        + destruct Hn as [Hn|Hn]; [left; exact Hn|right]. apply in_flat_map in Hn. destruct Hn as (o' & Ho' & Hy').
          apply in_flat_map. exists o'. split; [exact Ho'|]. unfold ards in Hy'. apply in_map_iff in Hy'.
          destruct Hy' as (x & <- & Hx). unfold rd. apply in_map_iff. exists x. split; [|exact Hx].
          symmetry. apply alias_g.
          assert (Ho'' : In o' ops) by (rewrite E; apply in_or_app; right; exact Ho').
          apply in_split in Ho''. destruct Ho'' as (p1 & p2 & E2). apply (HA p1 o' p2 E2 x Hx).
        + apply (locF_eq0 st6g y (s_out o) l Eq El).
      - intros p Hp. apply final_char_g in Hp. destruct Hp as (i & l0 & t & Hi & -> & En & Ha).
        pose proof (ip_ins_lt c WF _ _ _ En) as Hl0. destruct (HD2 l0 Hl0) as [Hal _].
        pose proof Ha as Ha'. apply locF_ald0 in Ha'. destruct (locF st6g (al l0)) as [l|] eqn:El; [|congruence].
        exists l. rewrite (alias_ppo_g i l0 t En). split; [rewrite (so_loc_ppo_g i l0 t Hi En); exact El|].
        split; [rewrite so_loc_g by lia; rewrite al_idem; exact El|]. split; [apply (proj2 (proj2 (proj2 ref5g)) i l0 t Hi En)|].
        right. destruct (K3 _ Ha) as [H5|[_ Ho]]; [|exact Ho].
        destruct fold5g as ((_ & _ & _ & G4) & _). apply G4 in H5. lia.
    Qed.

    (** what the published result looks like, collected *)
    Lemma publish_g : so_ops so = ops /\ so_stems so = stems /\ (forall x, x < ppo -> so_alias c so x = al x) /\
      (forall o x, In o ops -> In x (opnds o) -> x < ppo) /\
      (forall p, In p (so_final so) -> exists i l0 t, i < slen /\ p = ppo + i /\
          n_ins (get_node c (nth i sn 0)) = Some l0 :: t /\ l0 < nl /\ so_alias c so p = al l0).
    Proof.
      split; [exact Eops|]. split; [exact Estems|]. split; [exact alias_g|]. split.
      - intros o x Ho Hx. apply in_split in Ho. destruct Ho as (pre & post & E). apply (HA pre o post E x Hx).
      - intros p Hp. apply final_char_g in Hp. destruct Hp as (i & l0 & t & Hi & -> & En & _).
        exists i, l0, t. split; [exact Hi|]. split; [reflexivity|]. split; [exact En|].
        split; [apply (ip_ins_lt c WF _ _ _ En)|apply (alias_ppo_g i l0 t En)].
    Qed.
  End CertG.

  (** existence *)
  Theorem build_total_g : nl <= length caps -> exists so, build c caps cmin reuse strip = Some so.
  Proof.
    intros Hcaps. rewrite build_eq_g.
    pose proof (ppo_fold_snd c all_ip (fst lc7g, snd lc7g, true)) as E8.
    destruct (fold_left (ppo_step c ppo) all_ip (fst lc7g, snd lc7g, true)) as [[l8 c8] ok8].
    cbn [snd] in E8. subst ok8.
    assert (E6 : a_ok st6g = true).
    { apply main6g_cap. intros o Ho Hn. unfold capok. intros F. apply nth_error_None in F.
      apply in_split in Ho. destruct Ho as (pre & post & E). destruct (HB pre o post E) as [H|(H & _)]; lia. }
    rewrite E6. cbn [andb]. eexists. reflexivity.
  Qed.
End BuildG.

(* ------------------------------------------------------------------------------------------------ *)
(** * strip_forks = False: the stem table is constant -1 *)

Section NoStrip.
  Variable c : netlist.
  Hypothesis WF : wf_netlist c.
  Notation nl := (length (c_lines c)).
  Notation slen := (length (s_nodes c)).
  Notation len := (nl + 3 + slen + slen).
  Notation stems := (repeat (-1)%Z len).

  Lemma ns_Hst : build_stems c false len = Some stems.
  Proof. reflexivity. Qed.

  Lemma ns_HD1 x : nl <= x -> stemmed stems x = x.
  Proof. intros _. apply stemmed_repeat. Qed.

  Lemma ns_HD2 x : x < nl -> stemmed stems x < nl /\ stemmed stems (stemmed stems x) = stemmed stems x.
  Proof. intros H. rewrite !stemmed_repeat. auto. Qed.

  Lemma ns_HB pre o post : build_ops c false = pre ++ o :: post ->
    s_out o = nl + 1 \/ (s_out o < nl /\ stemmed stems (s_out o) = s_out o /\ ~ In (s_out o) (map s_out pre)).
  Proof.
    intros E. assert (Ho : In o (build_ops c false)) by (rewrite E; apply in_or_app; right; left; reflexivity).
    destruct (all_outs c WF o Ho) as [Hl|Ht]; [right|left; exact Ht].
    split; [exact Hl|]. split; [apply stemmed_repeat|]. apply (out_not_before c WF pre o post E). lia.
  Qed.

  Variable cmin : N.
  Hypothesis Hcmin : (0 < cmin)%N.
  Hypothesis RD : reads_defined c.

  Lemma ns_HA pre o post : build_ops c false = pre ++ o :: post -> forall x, In x (opnds o) ->
    x < nl + 3 + slen /\
    (stemmed stems x = nl \/
     (exists n p, iface_pos c n = Some p /\ stemmed stems x = nl + 3 + p /\ 0 < length (n_outs (get_node c n))) \/
     (stemmed stems x < nl /\ In (stemmed stems x) (map s_out pre))).
  Proof.
    intros E x Hx. rewrite stemmed_repeat.
    assert (Ho : In o (build_ops c false)) by (rewrite E; apply in_or_app; right; left; reflexivity).
    split; [apply (opnd_lt c cmin WF Hcmin o x Ho Hx)|].
    destruct (opnd_class c cmin WF Hcmin o x Ho Hx) as [->|[Hl|(n & p & Hi & -> & Hout)]].
    - left. reflexivity.
    - right. right. split; [exact Hl|]. apply (written_before c WF pre o post x E Hx). apply (RD o x Ho Hx Hl).
    - right. left. exists n, p. auto.
  Qed.

End NoStrip.

(* ------------------------------------------------------------------------------------------------ *)
(** * strip_forks = True *)

Section WithStrip.
  Variable c : netlist.
  Hypothesis WF : wf_netlist c.
  Hypothesis AC : comb_acyclic c.
  Notation nl := (length (c_lines c)).
  Notation NN := (length (c_nodes c)).
  Notation slen := (length (s_nodes c)).
  Notation len := (nl + 3 + slen + slen).
  Notation drv l := (l_drv (get_line c l)).
  Notation fk n := (String.eqb (n_kind (get_node c n)) "__fork__").
  Variable stems : list Z.
  Hypothesis Hst : build_stems c true len = Some stems.
  Notation al := (stemmed stems).
  Notation opsT := (build_ops c true).

  Let Hlen : nl <= len. Proof. lia. Qed.

  (** every line operand, seen through the stem table, is written by an op of the stripped schedule *)
  Definition reads_defined_t : Prop :=
    forall o x, In o opsT -> In x (opnds o) -> x < nl -> In (al x) (map s_out opsT).
  Hypothesis RDt : reads_defined_t.

  Lemma stem_not_fork : forall f l s, stem_walk f c l = Some s ->
    ~ (fk (drv s) = true /\ pin (n_ins (get_node c (drv s))) 0 <> None).
  Proof.
    induction f as [|f IH]; intros l s H; [discriminate|].
    rewrite stem_walk_S in H. destruct (fk (drv l)) eqn:Ek.
    - destruct (pin (n_ins (get_node c (drv l))) 0) as [l'|] eqn:Ep.
      + apply (IH l' s H).
      + injection H as <-. intros [_ X]. congruence.
    - injection H as <-. intros [X _]. congruence.
  Qed.

  Lemma al_not_fork x : x < nl ->
    ~ (fk (drv (al x)) = true /\ pin (n_ins (get_node c (drv (al x)))) 0 <> None).
  Proof.
    intros Hx. destruct (fk (drv x)) eqn:Ek.
    - destruct (pin (n_ins (get_node c (drv x))) 0) as [l0|] eqn:Ep.
      + destruct (alias_stem c WF len stems Hlen Hst x l0 Hx Ek Ep) as (s & Hs & ->). apply (stem_not_fork _ _ _ Hs).
      + rewrite (alias_plain c WF len stems Hlen Hst x); [|intros (_ & _ & H); congruence]. intros [_ X]. congruence.
    - rewrite (alias_plain c WF len stems Hlen Hst x); [|intros (_ & H & _); congruence]. intros [X _]. congruence.
  Qed.

  Lemma ws_HD1 x : nl <= x -> al x = x.
  Proof. apply (alias_ge c WF len stems Hlen Hst). Qed.

  Lemma ws_HD2 x : x < nl -> al x < nl /\ al (al x) = al x.
  Proof.
    intros Hx. destruct (alias_lt c WF AC len stems Hlen Hst x Hx) as [H _]. split; [exact H|].
    apply (alias_plain c WF len stems Hlen Hst). intros (_ & H1 & H2). apply (al_not_fork x Hx). auto.
  Qed.

  Lemma ws_out_notfork o : In o opsT -> s_out o < nl -> al (s_out o) = s_out o.
  Proof.
    intros Ho Hl. destruct (in_build_t_inv c WF o Ho) as (m & Hm & Hom & Hns).
    destruct (fops_out c WF m o Hm Hom) as [[_ Hd]|Ht]; [|lia].
    apply (alias_plain c WF len stems Hlen Hst). intros (_ & H1 & H2). rewrite Hd in H1, H2. apply Hns. split.
    - unfold iface_pos, port_wire. rewrite H1. destruct (pin (n_ins (get_node c m)) 0); [reflexivity|congruence].
    - apply lower_fork_kind. exact H1.
  Qed.

  Lemma ws_out_not_before pre o post : opsT = pre ++ o :: post -> s_out o <> nl + 1 -> ~ In (s_out o) (map s_out pre).
  Proof.
    intros E Ht Hin. apply in_map_iff in Hin. destruct Hin as (o' & Eo & Ho'). apply in_split in Ho'.
    destruct Ho' as (p1 & p2 & ->). rewrite <- app_assoc in E. cbn [app] in E.
    destruct (core_t c WF AC len stems Hlen Hst p1 o' (p2 ++ o :: post) E) as [[H|H] _]; [congruence|].
    apply H. rewrite map_app. apply in_or_app. right. left. symmetry. exact Eo.
  Qed.

  Lemma ws_HB pre o post : opsT = pre ++ o :: post ->
    s_out o = nl + 1 \/ (s_out o < nl /\ al (s_out o) = s_out o /\ ~ In (s_out o) (map s_out pre)).
  Proof.
    intros E. assert (Ho : In o opsT) by (rewrite E; apply in_or_app; right; left; reflexivity).
    destruct (outs_t c WF o Ho) as [Hl|Ht]; [right|left; exact Ht].
    split; [exact Hl|]. split; [apply (ws_out_notfork o Ho Hl)|]. apply (ws_out_not_before pre o post E). lia.
  Qed.

  Lemma in_T_false o : In o opsT -> In o (build_ops c false).
  Proof.
    intros Ho. rewrite build_ops_t_eq in Ho. apply in_flat_map in Ho. destruct Ho as (m & Hm & Ho).
    rewrite build_ops_eq. apply in_flat_map. exists m. split; [exact Hm|].
    destruct (fops_t_cases c m) as [H|(H & _)]; rewrite H in Ho; [exact Ho|destruct Ho].
  Qed.

  Variable cmin : N.
  Hypothesis Hcmin : (0 < cmin)%N.

  Lemma ws_HA pre o post : opsT = pre ++ o :: post -> forall x, In x (opnds o) ->
    x < nl + 3 + slen /\
    (al x = nl \/
     (exists n p, iface_pos c n = Some p /\ al x = nl + 3 + p /\ 0 < length (n_outs (get_node c n))) \/
     (al x < nl /\ In (al x) (map s_out pre))).
  Proof.
    intros E x Hx.
    assert (Ho : In o opsT) by (rewrite E; apply in_or_app; right; left; reflexivity).
    pose proof (in_T_false o Ho) as Hof.
    split; [apply (opnd_lt c cmin WF Hcmin o x Hof Hx)|].
    destruct (opnd_class c cmin WF Hcmin o x Hof Hx) as [->|[Hl|(n & p & Hi & -> & Hout)]].
    - left. apply ws_HD1. lia.
    - right. right. destruct (ws_HD2 x Hl) as [Hal _]. split; [exact Hal|].
      pose proof (RDt o x Ho Hx Hl) as Hw. rewrite E, map_app in Hw. cbn [map] in Hw.
      destruct (core_t c WF AC len stems Hlen Hst pre o post E) as [_ Hc]. destruct (Hc x Hx) as (_ & N1 & N2).
      apply in_app_or in Hw. destruct Hw as [Hw|[Hw|Hw]]; [exact Hw|congruence|contradiction].
    - right. left. exists n, p. split; [exact Hi|]. split; [apply ws_HD1; lia|exact Hout].
  Qed.
End WithStrip.

(** [reads_defined_t] from the netlist: known gates, and every stripped fork is spelled "__fork__" and has its input connected *)
Definition forks_ok (c : netlist) : Prop :=
  forall n, n < length (c_nodes c) -> iface_pos c n = None -> is_fork (get_node c n) = true ->
    n_kind (get_node c n) = "__fork__"%string /\ pin (n_ins (get_node c n)) 0 <> None.

Lemma gates_known_reads_defined_t c stems :
  wf_netlist c -> comb_acyclic c -> gates_known c -> forks_ok c ->
  build_stems c true (length (c_lines c) + 3 + length (s_nodes c) + length (s_nodes c)) = Some stems ->
  reads_defined_t c stems.
Proof.
  intros WF AC GK FK Hst o x Ho Hx Hl.
  destruct (ws_HD2 c WF AC stems Hst x Hl) as [Hal _].
  pose proof (all_lines_driven c WF AC GK _ Hal) as Hd. rewrite build_ops_eq in Hd.
  apply in_outs_flat in Hd. destruct Hd as (m & o' & Hm & Ho' & Eo).
  destruct (topo_nodup c WF) as [_ Hlt]. pose proof (Hlt m Hm) as HmN.
  destruct (fops_out c WF m o' HmN Ho') as [[_ Hdrv]|Ht]; [|lia]. rewrite Eo in Hdrv.
  apply in_map_iff. exists o'. split; [exact Eo|]. rewrite build_ops_t_eq. apply in_flat_map. exists m. split; [exact Hm|].
  destruct (fops_t_cases c m) as [H|(_ & Hi & Hf)]; [rewrite H; exact Ho'|]. exfalso.
  destruct (FK m HmN Hi Hf) as [Hk Hp].
  apply (al_not_fork c WF stems Hst x Hl). rewrite Hdrv. split; [rewrite Hk; reflexivity|exact Hp].
Qed.

(* ------------------------------------------------------------------------------------------------ *)
(** * The theorems: all four option combinations *)

Theorem build_map_check_all c caps cmin reuse strip so :
  wf_netlist c -> comb_acyclic c -> (0 < cmin)%N -> gates_known c -> (strip = true -> forks_ok c) ->
  build c caps cmin reuse strip = Some so ->
  map_check (so_loc so) (so_alias c so) (so_init so) (so_final so) (so_ops so) = true.
Proof.
  intros WF AC Hc GK FK Hb. destruct strip.
  - destruct (build_stems c true (length (c_lines c) + 3 + length (s_nodes c) + length (s_nodes c))) as [stems|] eqn:Hst.
    + pose proof (gates_known_reads_defined_t c stems WF AC GK (FK eq_refl) Hst) as RDt.
      apply (build_map_check_g c caps cmin reuse true WF Hc stems Hst (ws_HD1 c WF stems Hst) (ws_HD2 c WF AC stems Hst)
               (ws_HA c WF AC stems Hst RDt cmin Hc) (ws_HB c WF AC stems Hst) so Hb).
    + exfalso. unfold build in Hb. cbv zeta in Hb. rewrite Hst in Hb. discriminate.
  - pose proof (gates_known_reads_defined c WF AC GK) as RD.
    apply (build_map_check_g c caps cmin reuse false WF Hc _ (ns_Hst c) (ns_HD1 c) (ns_HD2 c)
             (ns_HA c WF cmin Hc RD) (ns_HB c WF) so Hb).
Qed.

Theorem build_total_all c caps cmin reuse strip :
  wf_netlist c -> comb_acyclic c -> (0 < cmin)%N -> gates_known c -> (strip = true -> forks_ok c) ->
  length (c_lines c) <= length caps ->
  build_stems c strip (length (c_lines c) + 3 + length (s_nodes c) + length (s_nodes c)) <> None ->
  exists so, build c caps cmin reuse strip = Some so.
Proof.
  intros WF AC Hc GK FK Hl Hs. destruct strip.
  - destruct (build_stems c true (length (c_lines c) + 3 + length (s_nodes c) + length (s_nodes c))) as [stems|] eqn:Hst; [|congruence].
    pose proof (gates_known_reads_defined_t c stems WF AC GK (FK eq_refl) Hst) as RDt.
    apply (build_total_g c caps cmin reuse true WF Hc stems Hst (ws_HD1 c WF stems Hst) (ws_HD2 c WF AC stems Hst)
             (ws_HA c WF AC stems Hst RDt cmin Hc) (ws_HB c WF AC stems Hst) Hl).
  - pose proof (gates_known_reads_defined c WF AC GK) as RD.
    apply (build_total_g c caps cmin reuse false WF Hc _ (ns_Hst c) (ns_HD1 c) (ns_HD2 c)
             (ns_HA c WF cmin Hc RD) (ns_HB c WF) Hl).
Qed.

Lemma publish_all c caps cmin reuse strip so :
  wf_netlist c -> comb_acyclic c -> (0 < cmin)%N -> gates_known c -> (strip = true -> forks_ok c) ->
  build c caps cmin reuse strip = Some so ->
  let nl := length (c_lines c) in let slen := length (s_nodes c) in let ppo := nl + 3 + slen in
  exists stems, build_stems c strip (ppo + slen) = Some stems /\
    so_ops so = build_ops c strip /\ so_stems so = stems /\ (forall x, x < ppo -> so_alias c so x = stemmed stems x) /\
    (forall o x, In o (build_ops c strip) -> In x (opnds o) -> x < ppo) /\
    (forall p, In p (so_final so) -> exists i l0 t, i < slen /\ p = ppo + i /\
        n_ins (get_node c (nth i (s_nodes c) 0)) = Some l0 :: t /\ l0 < nl /\ so_alias c so p = stemmed stems l0).
Proof.
  intros WF AC Hc GK FK Hb. cbv zeta. destruct strip.
  - destruct (build_stems c true (length (c_lines c) + 3 + length (s_nodes c) + length (s_nodes c))) as [stems|] eqn:Hst.
    + pose proof (gates_known_reads_defined_t c stems WF AC GK (FK eq_refl) Hst) as RDt.
      exists stems. split; [reflexivity|].
      apply (publish_g c caps cmin reuse true WF Hc stems Hst (ws_HD1 c WF stems Hst) (ws_HD2 c WF AC stems Hst)
               (ws_HA c WF AC stems Hst RDt cmin Hc) (ws_HB c WF AC stems Hst) so Hb).
    + exfalso. unfold build in Hb. cbv zeta in Hb. rewrite Hst in Hb. discriminate.
  - pose proof (gates_known_reads_defined c WF AC GK) as RD.
    exists (repeat (-1)%Z (length (c_lines c) + 3 + length (s_nodes c) + length (s_nodes c))). split; [reflexivity|].
    apply (publish_g c caps cmin reuse false WF Hc _ (ns_Hst c) (ns_HD1 c) (ns_HD2 c)
             (ns_HA c WF cmin Hc RD) (ns_HB c WF) so Hb).
Qed.

Lemma iexec_alias_ops {V} (sem : N -> V -> V -> V -> V -> V) a1 a2 : forall ops (e : @ienv V),
  (forall o x, In o ops -> In x (opnds o) -> a1 x = a2 x) -> iexec sem a1 ops e = iexec sem a2 ops e.
Proof.
  induction ops as [|o r IH]; intros e H; [reflexivity|]. unfold iexec in *. cbn [fold_left].
  assert (E : istep sem a1 e o = istep sem a2 e o).
  { assert (Ho : In o (o :: r)) by (left; reflexivity).
    unfold istep. rewrite (H o (s_i0 o) Ho), (H o (s_i1 o) Ho), (H o (s_i2 o) Ho), (H o (s_i3 o) Ho)
      by (unfold opnds; cbn [In]; tauto). reflexivity. }
  rewrite E. apply IH. intros o' x Ho'. apply H. right. exact Ho'.
Qed.

(** C06 at memory level, all options at once: whatever c_reuse and strip_forks are, the flat memory after the scheduled ops
    holds at the PPO slot of every observed s_node the value that the UNSTRIPPED line-level execution gives the line feeding
    that s_node -- a value that does not depend on the options.  (With strip_forks the op BUF1 must be a plain copy.) *)
Theorem end_to_end_all {V} (sem : N -> V -> V -> V -> V -> V) (zero : V) c caps cmin reuse strip so stim (m0 : @fmem V) :
  wf_netlist c -> comb_acyclic c -> (0 < cmin)%N -> gates_known c ->
  (strip = true -> forks_ok c /\ forall x b cc d, sem (lutv "BUF1") x b cc d = x) ->
  build c caps cmin reuse strip = Some so ->
  (forall x l, In x (so_init so) -> so_loc so x = Some l -> m0 l = init_env zero c stim x) ->
  forall p, In p (so_final so) ->
    exists i l0 t, p = length (c_lines c) + 3 + length (s_nodes c) + i /\ i < length (s_nodes c) /\
      n_ins (get_node c (nth i (s_nodes c) 0)) = Some l0 :: t /\
      mread zero (so_loc so) (mexec sem zero (so_loc so) (so_ops so) m0) p
      = iexec sem (fun x => x) (build_ops c false) (init_env zero c stim) l0.
Proof.
  intros WF AC Hc GK FK Hb Hm p Hp.
  assert (FK' : strip = true -> forks_ok c) by (intros E; apply (FK E)).
  pose proof (build_map_check_all c caps cmin reuse strip so WF AC Hc GK FK' Hb) as K.
  rewrite (map_check_sound sem zero _ _ _ _ _ K (init_env zero c stim) m0 Hm p Hp).
  destruct (publish_all c caps cmin reuse strip so WF AC Hc GK FK' Hb) as (stems & Hst & Eo & _ & Ea & Hlt & Hf).
  destruct (Hf p Hp) as (i & l0 & t & Hi & Ep & En & Hl0 & Eap).
  exists i, l0, t. split; [exact Ep|]. split; [exact Hi|]. split; [exact En|].
  rewrite Eo, Eap, (iexec_alias_ops sem (so_alias c so) (stemmed stems)) by (intros o x Ho Hx; apply Ea; apply (Hlt o x Ho Hx)).
  destruct strip.
  - destruct (FK eq_refl) as [FO Hbuf]. destruct GK as (G1 & G2 & G3).
    apply (strip_forks_irrelevant sem zero c stim (length (c_lines c) + 3 + length (s_nodes c) + length (s_nodes c)) stems WF AC);
      try assumption; [lia|].
    intros n Hn Hin Hf'. apply (FO n Hn Hin Hf').
  - injection Hst as <-. rewrite stemmed_repeat.
    rewrite (iexec_alias_ops sem _ (fun x => x)) by (intros o x _ _; apply stemmed_repeat). reflexivity.
Qed.

(** pairwise form: any two option combinations agree at every slot both observe *)
Theorem options_irrelevant {V} (sem : N -> V -> V -> V -> V -> V) (zero : V) c caps cmin r1 s1 r2 s2 so1 so2 stim (m1 m2 : @fmem V) :
  wf_netlist c -> comb_acyclic c -> (0 < cmin)%N -> gates_known c ->
  (s1 = true \/ s2 = true -> forks_ok c /\ forall x b cc d, sem (lutv "BUF1") x b cc d = x) ->
  build c caps cmin r1 s1 = Some so1 -> build c caps cmin r2 s2 = Some so2 ->
  (forall x l, In x (so_init so1) -> so_loc so1 x = Some l -> m1 l = init_env zero c stim x) ->
  (forall x l, In x (so_init so2) -> so_loc so2 x = Some l -> m2 l = init_env zero c stim x) ->
  forall p, In p (so_final so1) -> In p (so_final so2) ->
    mread zero (so_loc so1) (mexec sem zero (so_loc so1) (so_ops so1) m1) p
    = mread zero (so_loc so2) (mexec sem zero (so_loc so2) (so_ops so2) m2) p.
Proof.
  intros WF AC Hc GK FK Hb1 Hb2 Hm1 Hm2 p Hp1 Hp2.
  destruct (end_to_end_all sem zero c caps cmin r1 s1 so1 stim m1 WF AC Hc GK (fun E => FK (or_introl E)) Hb1 Hm1 p Hp1)
    as (i1 & l1 & t1 & E1 & _ & N1 & R1).
  destruct (end_to_end_all sem zero c caps cmin r2 s2 so2 stim m2 WF AC Hc GK (fun E => FK (or_intror E)) Hb2 Hm2 p Hp2)
    as (i2 & l2 & t2 & E2 & _ & N2 & R2).
  assert (i1 = i2) by lia. subst i2. rewrite N1 in N2. injection N2 as <- _. rewrite R1, R2. reflexivity.
Qed.

(* ------------------------------------------------------------------------------------------------ *)
(** * Example: the netlist of ReuseProofs.ReuseExample under all four option combinations *)
Module AllOptionsExample.
  Import ReuseExample.

  Lemma exR_forks_ok : forks_ok exR.
  Proof.
    intros n Hn Hi Hf. simpl in Hn.
    do 7 (destruct n as [|n]; [vm_compute in Hi, Hf |- *; first [discriminate|split; [reflexivity|discriminate]]|]). lia.
  Qed.

  (** with strip_forks the branches 1, 2 take the location of their stem 0; with both options the stem 0 (with its branches) and line 5 share location 5 *)
  Example exR_build_all :
    map (fun rs => option_map (fun so => (so_locs so, so_len so)) (build exR (repeat 1%N 7) 1%N (fst rs) (snd rs)))
        [(false, false); (true, false); (false, true); (true, true)]
    = [ Some ([5; 7; 8; 9; 10; 11; 6; 0; 1; 2; 3; -1; 4; -1; 6; 11]%Z, 12%N);
        Some ([5; 7; 8; 5; 7; 5; 6; 0; 1; 2; 3; -1; 4; -1; 6; 5]%Z, 9%N);
        Some ([5; 5; 5; 7; 8; 9; 6; 0; 1; 2; 3; -1; 4; -1; 6; 9]%Z, 10%N);
        Some ([5; 5; 5; 7; 8; 5; 6; 0; 1; 2; 3; -1; 4; -1; 6; 5]%Z, 9%N) ].
  Proof. vm_compute. reflexivity. Qed.

  Example exR_cert_all reuse strip so : build exR (repeat 1%N 7) 1%N reuse strip = Some so ->
    map_check (so_loc so) (so_alias exR so) (so_init so) (so_final so) (so_ops so) = true.
  Proof.
    apply build_map_check_all; [exact exR_wf|exact exR_acyclic|reflexivity|exact exR_gates_known|intros _; exact exR_forks_ok].
  Qed.

  Theorem all_options_nonvacuous : exists c caps cmin,
    wf_netlist c /\ comb_acyclic c /\ (0 < cmin)%N /\ gates_known c /\ forks_ok c /\
    forall reuse strip, exists so, build c caps cmin reuse strip = Some so.
  Proof.
    exists exR, (repeat 1%N 7), 1%N.
    split; [exact exR_wf|]. split; [exact exR_acyclic|]. split; [reflexivity|]. split; [exact exR_gates_known|].
    split; [exact exR_forks_ok|]. intros [|] [|]; vm_compute; eexists; reflexivity.
  Qed.
End AllOptionsExample.

Print Assumptions build_map_check_all.
Print Assumptions build_total_all.
Print Assumptions end_to_end_all.
Print Assumptions options_irrelevant.
Print Assumptions AllOptionsExample.exR_cert_all.
Print Assumptions AllOptionsExample.all_options_nonvacuous.
