(** C03 / C05 / C13 / C06 at MEMORY level for all four c_reuse x strip_forks combinations: the correspondence-checked timing
    simulator model [wsim_case] (Model/WaveSimModel.v: flat waveform memory addressed through c_locs / c_caps) computes, for every
    well-formed acyclic netlist of known primitives, at every s_node with a data line the capture of the LINE-LEVEL waveform of
    that line, and its abuf is the line-level accumulated activity.
      A  [flat_gen_nc]            the flat memory refines the alias execution [wexec_alias] / [wacc_alias] whenever the output
                                  region of every op is disjoint from the region of every index that is pinned or still read
                                  (the dynamic counterpart of WaveFlat.regions_ok: regions may be shared over time);
      B  [start_env]              the memory after s_to_c and the direct writes holds the input waveforms at the PI/PPI slots and
                                  the constant 0 at the zero slot;
      C  [wavesim_model_alias]    A + B + Proofs/WaveRegion.v (region certificate derived from the allocator invariant of
                                  EVERY build result) + totality;
      D  [wavesim_model_correct]  in terms of the UNSTRIPPED line-level run [wexec] over [build_ops c false]. *)
From Coq Require Import List ZArith NArith Bool Arith Lia String.
From KV Require Import Model.Prims Model.Netlist Model.NetlistWf Model.Heap Model.SimOps Model.AllocCheck Model.SimOpsCert Model.NetlistSem
     Model.CycleSem Model.Time Model.WaveEval Model.WaveSpec Model.WaveOps Model.CaptureSpec Model.WaveAcc Model.WaveStripModel
     Model.WaveGlue Model.Corr Gen.SimTables
     Proofs.WaveCore Proofs.WaveEquiv Proofs.WaveCircuit Proofs.WaveCircuit2 Proofs.WaveAccProofs Proofs.WaveFlat Proofs.WaveStrip
     Proofs.SemProofs Proofs.SemCompose Proofs.EndToEnd Proofs.ReuseProofs Proofs.ReuseStrip Proofs.WfCheck Proofs.CycleProofs Proofs.OptionsCheck Proofs.LogicSimGlue Proofs.WaveRegion.
From KV Require Import Model.WaveSimModel.
Import List.
Import ListNotations.
Local Open Scope list_scope.

Notation wlocZ := WaveSimModel.locZ.

Lemma wlocZ_so_loc so x : wlocZ so x = so_loc so x.
Proof. reflexivity. Qed.
Lemma capN_so_cap so x : capN so x = so_cap so x.
Proof. reflexivity. Qed.

(* ------------------------------------------------------------------------------------------------ *)
(** * A: the flat memory refines the alias execution under region no-clobber *)

Section FlatNC.
  Variable so : simops.
  Variable delays : list dtab.
  Variable actrl : list (Z * Z * Z).
  Variable al : nat -> nat.
  Variable pinned : nat -> Prop.
  Variable init : list nat.

  Let dl := dl_of delays.
  Let cp := capN so.

  Definition rdal (o : sop) : list nat := map al (idxs o).

  (** [y] is not touched by a write to the region of [z] *)
  Definition frame_ok (y z : nat) : Prop :=
    match wlocZ so y, wlocZ so z with
    | Some ly, Some lz => ndisj ly (capN so y) lz (capN so z)
    | _, _ => True
    end.

  Lemma flat_step_nc (e : wenv) m o m2 nr nf zl :
    wlocZ so (s_out o) = Some zl -> zl + capN so (s_out o) <= length m ->
    (forall k, In k (idxs o) -> env_of so m k = e (al k)) ->
    wprop1 so delays m o = Some (m2, (nr, nf)) ->
    length m2 = length m /\
    env_of so m2 (s_out o) = wop_alias dl cp al e o /\
    (nr, nf) = wop_alias_counts dl cp al e o /\
    (forall y, frame_ok y (s_out o) -> y <> s_out o -> env_of so m2 y = env_of so m y).
  Proof.
    intros Hzl Hin Hops H.
    unfold wprop1 in H. rewrite Hzl in H.
    destruct (wave_eval _ _ _ _) as [r|] eqn:Hev; [|discriminate].
    inversion H; subst m2 nr nf; clear H.
    assert (Hzlen : length (region m zl (capN so (s_out o))) = capN so (s_out o)) by (apply region_length; exact Hin).
    destruct (eval_upto (s_lut o) (map (operand so m) [s_i0 o; s_i1 o; s_i2 o; s_i3 o])
                [e (al (s_i0 o)); e (al (s_i1 o)); e (al (s_i2 o)); e (al (s_i3 o))]
                (map (fun k => nth k delays dzero) [s_i0 o; s_i1 o; s_i2 o; s_i3 o])
                (region m zl (capN so (s_out o))) (repeat MaxInf (cp (s_out o))) r)
      as (r' & Hr' & Hz & Hrise & Hfall & _); [reflexivity|reflexivity|reflexivity| | |exact Hev|].
    { assert (Hup : forall k, In k (idxs o) -> upto_end (operand so m k) = upto_end (e (al k))).
      { intros k Hk. rewrite <- (Hops k Hk). unfold env_of. symmetry. apply WaveFlat.upto_end_idem. }
      cbn [map]. unfold idxs in Hup. repeat constructor; apply Hup; cbn [In]; tauto. }
    { rewrite repeat_length. symmetry. exact Hzlen. }
    assert (Hlen : length (r_z r) = capN so (s_out o)).
    { rewrite (wave_eval_length _ _ _ _ _ Hev). exact Hzlen. }
    split; [apply write_at_length|]. split; [|split].
    - unfold env_of. rewrite (operand_write_same so m zl (s_out o) (r_z r) Hzl Hlen Hin).
      unfold wop_alias, wsem.
      change (map dl [s_i0 o; s_i1 o; s_i2 o; s_i3 o]) with (map (fun k => nth k delays dzero) [s_i0 o; s_i1 o; s_i2 o; s_i3 o]).
      rewrite Hr'. symmetry. exact Hz.
    - unfold wop_alias_counts.
      change (map dl [s_i0 o; s_i1 o; s_i2 o; s_i3 o]) with (map (fun k => nth k delays dzero) [s_i0 o; s_i1 o; s_i2 o; s_i3 o]).
      rewrite Hr', Hrise, Hfall. reflexivity.
    - intros y Hf Ny. unfold env_of, operand. unfold frame_ok in Hf. rewrite Hzl in Hf.
      destruct (wlocZ so y) as [l|]; [|reflexivity].
      rewrite region_write_other; [reflexivity|]. rewrite Hlen. exact Hf.
  Qed.

  Lemma wprop1_total m o zl : wlocZ so (s_out o) = Some zl -> exists m2 nr nf, wprop1 so delays m o = Some (m2, (nr, nf)).
  Proof.
    intros Hzl. unfold wprop1. rewrite Hzl.
    destruct (WaveEquiv.wave_eval_some (s_lut o) (map (operand so m) [s_i0 o; s_i1 o; s_i2 o; s_i3 o])
                (map (fun k => nth k delays dzero) [s_i0 o; s_i1 o; s_i2 o; s_i3 o])
                (region m zl (capN so (s_out o))) eq_refl) as (r & Hr).
    rewrite Hr. eauto.
  Qed.

  Lemma env_of_alias m k k' : wlocZ so k' = wlocZ so k -> capN so k' = capN so k -> env_of so m k' = env_of so m k.
  Proof. intros Hl Hc. unfold env_of. rewrite (operand_alias so m k k' Hl Hc). reflexivity. Qed.

  Lemma flat_gen_nc : forall todo dn i (e : wenv) (m : wmem) (ab : list Z),
    (forall o, In o todo -> exists zl, wlocZ so (s_out o) = Some zl /\ zl + capN so (s_out o) <= length m) ->
    (forall pre o post, todo = pre ++ o :: post -> forall x, In x (idxs o) ->
        wlocZ so x = wlocZ so (al x) /\ capN so x = capN so (al x) /\ (In (al x) init \/ In (al x) (map s_out (dn ++ pre)))) ->
    (forall pre o post, todo = pre ++ o :: post -> forall y, y <> s_out o ->
        (In y init \/ In y (map s_out (dn ++ pre))) -> (pinned y \/ In y (flat_map rdal (o :: post))) -> frame_ok y (s_out o)) ->
    (forall y, (In y init \/ In y (map s_out dn)) -> (pinned y \/ In y (flat_map rdal todo)) -> env_of so m y = e y) ->
    exists m' ab', fold_left (wcp_step so delays actrl) (combine (seq i (length todo)) todo) (Some (m, ab)) = Some (m', ab') /\
      length m' = length m /\
      (forall y, (In y init \/ In y (map s_out (dn ++ todo))) -> pinned y -> env_of so m' y = wexec_alias dl cp al todo e y) /\
      ab' = snd (wacc_alias_from dl cp actrl al i todo e ab).
  Proof.
    induction todo as [|o r IH]; intros dn i e m ab Hout Hdef Hnc Hinv.
    - exists m, ab. split; [reflexivity|]. split; [reflexivity|]. split; [|reflexivity].
      intros y Hy Hp. rewrite app_nil_r in Hy. apply Hinv; auto.
    - destruct (Hout o (or_introl eq_refl)) as (zl & Hzl & Hin).
      destruct (wprop1_total m o zl Hzl) as (m2 & nr & nf & Hp).
      assert (Hops : forall k, In k (idxs o) -> env_of so m k = e (al k)).
      { intros k Hk. destruct (Hdef [] o r eq_refl k Hk) as (L1 & L2 & L3). rewrite app_nil_r in L3.
        rewrite (env_of_alias m (al k) k L1 L2). apply Hinv; [exact L3|].
        right. cbn [flat_map]. apply in_or_app. left. unfold rdal. apply in_map. exact Hk. }
      destruct (flat_step_nc e m o m2 nr nf zl Hzl Hin Hops Hp) as (Hlen & Hnew & Hcnt & Hframe).
      destruct (IH (dn ++ [o]) (S i) (wstep_alias dl cp al e o) m2 (acc_add actrl ab i (wop_alias_counts dl cp al e o)))
        as (m' & ab' & Hr & L & E & A).
      + intros o' Ho'. rewrite Hlen. apply Hout. right. exact Ho'.
      + intros pre o' post Eq x Hx. rewrite <- app_assoc. cbn [app]. apply (Hdef (o :: pre) o' post); [rewrite Eq; reflexivity|exact Hx].
      + intros pre o' post Eq y Hy Hd Hn. rewrite <- app_assoc in Hd. cbn [app] in Hd.
        apply (Hnc (o :: pre) o' post); [rewrite Eq; reflexivity|exact Hy|exact Hd|exact Hn].
      + intros y Hd Hn. unfold wstep_alias, wupd. destruct (Nat.eqb y (s_out o)) eqn:Ey.
        * apply Nat.eqb_eq in Ey. subst y. exact Hnew.
        * apply Nat.eqb_neq in Ey.
          assert (Hd' : In y init \/ In y (map s_out dn)).
          { destruct Hd as [Hd|Hd]; [left; exact Hd|]. rewrite map_app in Hd. apply in_app_or in Hd.
            destruct Hd as [Hd|[Hd|[]]]; [right; exact Hd|congruence]. }
          assert (Hn' : pinned y \/ In y (flat_map rdal (o :: r))).
          { destruct Hn as [Hn|Hn]; [left; exact Hn|]. right. cbn [flat_map]. apply in_or_app. right. exact Hn. }
          rewrite (Hframe y); [apply Hinv; assumption| |exact Ey].
          apply (Hnc [] o r eq_refl y Ey); [rewrite app_nil_r; exact Hd'|exact Hn'].
      + exists m', ab'. split.
        { change (combine (seq i (length (o :: r))) (o :: r)) with ((i, o) :: combine (seq (S i) (length r)) r).
          change (fold_left (wcp_step so delays actrl) ((i, o) :: combine (seq (S i) (length r)) r) (Some (m, ab)))
            with (fold_left (wcp_step so delays actrl) (combine (seq (S i) (length r)) r)
                            (wcp_step so delays actrl (Some (m, ab)) (i, o))).
          rewrite (wcp_step_some so delays actrl m ab i o m2 nr nf Hp), Hcnt. exact Hr. }
        split; [congruence|]. split; [|exact A].
        intros y Hy Hpn. apply E; [|exact Hpn]. rewrite <- app_assoc. exact Hy.
  Qed.
End FlatNC.

(* ------------------------------------------------------------------------------------------------ *)
(** * B: the memory c_prop starts from *)

Lemma region_write_at_start (m : wmem) l n vs : l + n <= length m -> length vs <= n ->
  region (write_at m l vs) l n = write_at (region m l n) 0 vs.
Proof.
  intros H Hv. apply (nth_ext _ _ MaxInf MaxInf).
  - rewrite write_at_length. apply region_length_eq, write_at_length.
  - intros i Hi. rewrite region_length in Hi by (rewrite write_at_length; exact H).
    rewrite nth_region, !nth_write_at, nth_region, region_length by exact H.
    destruct (Nat.ltb_spec i n); [|lia].
    destruct (Nat.leb_spec l (l + i)); [|lia]. destruct (Nat.leb_spec 0 i); [|lia]. cbn [andb].
    destruct (Nat.ltb_spec (l + i) (length m)); [|lia]. rewrite andb_true_r. rewrite Nat.add_0_l.
    destruct (Nat.ltb_spec (l + i) (l + length vs)); destruct (Nat.ltb_spec i (length vs)); try lia; cbn [andb].
    + f_equal. lia.
    + reflexivity.
Qed.

Definition wr_step (so : simops) (m : wmem) (e : nat * list time) : wmem :=
  match wlocZ so (so_nlines so + 3 + fst e) with Some l => write_at m l (snd e) | None => m end.
Definition apply_writes (so : simops) (m : wmem) (ws : list (nat * list time)) : wmem := fold_left (wr_step so) ws m.
Definition s_writes (n : nat) (s : list (bool * time * bool)) : list (nat * list time) :=
  map (fun iv : nat * (bool * time * bool) => (fst iv, let '(i, t, f) := snd iv in assign_wave i t f)) (combine (seq 0 n) s).
Definition upd_slot (p : nat) (r : list time) (e : nat * list time) : list time :=
  if Nat.eqb (fst e) p then write_at r 0 (snd e) else r.

Lemma w_s_to_c_writes so s m : w_s_to_c so s m = apply_writes so m (s_writes (so_slen so) s).
Proof.
  unfold w_s_to_c, apply_writes, s_writes. generalize (combine (seq 0 (so_slen so)) s). intros L. revert m.
  induction L as [|[j [[i t] f]] L IH]; intros m; [reflexivity|]. cbn [map fold_left]. rewrite <- IH. unfold wr_step. cbn [fst snd].
  reflexivity.
Qed.

Lemma wsim_start_writes so s extra :
  wsim_start so s extra = apply_writes so (repeat MaxInf (N.to_nat (so_len so))) (s_writes (so_slen so) s ++ extra).
Proof. unfold wsim_start. cbv zeta. rewrite w_s_to_c_writes. unfold apply_writes. rewrite fold_left_app. reflexivity. Qed.

Lemma apply_writes_length so : forall ws m, length (apply_writes so m ws) = length m.
Proof.
  induction ws as [|e ws IH]; intros m; [reflexivity|]. unfold apply_writes in *. cbn [fold_left]. rewrite IH. unfold wr_step.
  destruct (wlocZ so _); [apply write_at_length|reflexivity].
Qed.

Section Start.
  Variable so : simops.
  Variable memlen : nat.
  Notation ppi := (so_nlines so + 3).
  Hypothesis HR : forall p l, p < so_slen so -> wlocZ so (ppi + p) = Some l -> l + 4 <= memlen.
  Hypothesis HD : forall p q l l', p < so_slen so -> q < so_slen so -> p <> q ->
    wlocZ so (ppi + p) = Some l -> wlocZ so (ppi + q) = Some l' -> ndisj l 4 l' 4.

  Lemma writes_region : forall ws (m : wmem), length m = memlen ->
    (forall e, In e ws -> fst e < so_slen so /\ length (snd e) <= 4) ->
    forall p l, p < so_slen so -> wlocZ so (ppi + p) = Some l ->
      region (apply_writes so m ws) l 4 = fold_left (upd_slot p) ws (region m l 4).
  Proof.
    induction ws as [|[q vs] ws IH]; intros m Hm Hws p l Hp Hl; [reflexivity|].
    unfold apply_writes in *. cbn [fold_left]. destruct (Hws (q, vs) (or_introl eq_refl)) as [Hq Hv]. cbn [fst snd] in Hq, Hv.
    assert (Hws' : forall e, In e ws -> fst e < so_slen so /\ length (snd e) <= 4) by (intros e He; apply Hws; right; exact He).
    unfold wr_step at 2. cbn [fst snd]. unfold upd_slot at 2. cbn [fst snd].
    destruct (wlocZ so (ppi + q)) as [lq|] eqn:Elq.
    - rewrite (IH (write_at m lq vs)) with (p := p) (l := l); [|rewrite write_at_length; exact Hm|exact Hws'|exact Hp|exact Hl].
      f_equal. destruct (Nat.eqb q p) eqn:E.
      + apply Nat.eqb_eq in E. subst q. rewrite Hl in Elq. injection Elq as <-.
        apply region_write_at_start; [rewrite Hm; apply (HR p l Hp Hl)|exact Hv].
      + apply Nat.eqb_neq in E. apply region_write_other.
        pose proof (HD p q l lq Hp Hq (fun H => E (eq_sym H)) Hl Elq) as D. unfold ndisj in D. lia.
    - rewrite (IH m Hm Hws' p l Hp Hl). f_equal.
      destruct (Nat.eqb q p) eqn:E; [|reflexivity]. apply Nat.eqb_eq in E. subst q. congruence.
  Qed.

  Lemma writes_other : forall ws (m : wmem) lz cz,
    (forall e, In e ws -> fst e < so_slen so /\ length (snd e) <= 4) ->
    (forall q l', q < so_slen so -> wlocZ so (ppi + q) = Some l' -> ndisj lz cz l' 4) ->
    region (apply_writes so m ws) lz cz = region m lz cz.
  Proof.
    induction ws as [|[q vs] ws IH]; intros m lz cz Hws Hz; [reflexivity|].
    unfold apply_writes in *. cbn [fold_left]. destruct (Hws (q, vs) (or_introl eq_refl)) as [Hq Hv]. cbn [fst snd] in Hq, Hv.
    rewrite IH; [|intros e He; apply Hws; right; exact He|exact Hz].
    unfold wr_step. cbn [fst snd]. destruct (wlocZ so (ppi + q)) as [lq|] eqn:Elq; [|reflexivity].
    apply region_write_other. pose proof (Hz q lq Hq Elq) as D. unfold ndisj in D. lia.
  Qed.
End Start.

(** the slot updates of the s_to_c writes: position p receives its assign_wave, once *)
Lemma fold_s_writes_gt p : forall s a n r, p < a ->
  fold_left (upd_slot p) (map (fun iv : nat * (bool * time * bool) => (fst iv, let '(i, t, f) := snd iv in assign_wave i t f)) (combine (seq a n) s)) r = r.
Proof.
  induction s as [|x s IH]; intros a n r Hp; [destruct n; reflexivity|]. destruct n as [|n]; [reflexivity|].
  cbn [seq combine map fold_left]. unfold upd_slot at 2. cbn [fst].
  destruct (Nat.eqb a p) eqn:E; [apply Nat.eqb_eq in E; lia|]. apply IH. lia.
Qed.

Lemma fold_s_writes p : forall s a n r, a <= p ->
  fold_left (upd_slot p) (map (fun iv : nat * (bool * time * bool) => (fst iv, let '(i, t, f) := snd iv in assign_wave i t f)) (combine (seq a n) s)) r
  = match (if Nat.ltb (p - a) n then nth_error s (p - a) else None) with
    | Some (i, t, f) => write_at r 0 (assign_wave i t f)
    | None => r
    end.
Proof.
  induction s as [|x s IH]; intros a n r Hp.
  - assert (E : forall k, nth_error (@nil (bool * time * bool)) k = None) by (intros [|k]; reflexivity).
    rewrite E. destruct n; cbn [seq combine map fold_left]; destruct (Nat.ltb (p - a) _); reflexivity.
  - destruct n as [|n]; [reflexivity|]. cbn [seq combine map fold_left]. unfold upd_slot at 2. cbn [fst snd].
    destruct (Nat.eqb a p) eqn:E.
    + apply Nat.eqb_eq in E. subst a. rewrite fold_s_writes_gt by lia. rewrite Nat.sub_diag. cbn [Nat.ltb Nat.leb nth_error].
      destruct x as [[i t] f]. reflexivity.
    + apply Nat.eqb_neq in E. rewrite IH by lia. replace (p - a) with (S (p - S a)) by lia. cbn [nth_error].
      replace (Nat.ltb (S (p - S a)) (S n)) with (Nat.ltb (p - S a) n) by reflexivity. reflexivity.
Qed.

Lemma stim_region_fold s extra n p : p < n ->
  fold_left (upd_slot p) (s_writes n s ++ extra) (repeat MaxInf 4) = stim_region s extra p.
Proof.
  intros Hp. rewrite fold_left_app. unfold s_writes. rewrite fold_s_writes by lia. rewrite Nat.sub_0_r.
  apply Nat.ltb_lt in Hp. rewrite Hp. unfold stim_region. reflexivity.
Qed.

(* ------------------------------------------------------------------------------------------------ *)
(** * C: every build result *)

Lemma wexec_alias_cap_ext dl cap cap' al : forall ops e, (forall o, In o ops -> cap (s_out o) = cap' (s_out o)) ->
  wexec_alias dl cap al ops e = wexec_alias dl cap' al ops e.
Proof.
  induction ops as [|o r IH]; intros e H; [reflexivity|]. unfold wexec_alias in *. cbn [fold_left].
  assert (E : wstep_alias dl cap al e o = wstep_alias dl cap' al e o).
  { unfold wstep_alias, wop_alias, wsem. rewrite (H o (or_introl eq_refl)). reflexivity. }
  rewrite E. apply IH. intros o' Ho'. apply H. right. exact Ho'.
Qed.

Lemma wacc_alias_cap_ext dl cap cap' actrl al : forall ops i e ab, (forall o, In o ops -> cap (s_out o) = cap' (s_out o)) ->
  wacc_alias_from dl cap actrl al i ops e ab = wacc_alias_from dl cap' actrl al i ops e ab.
Proof.
  induction ops as [|o r IH]; intros i e ab H; [reflexivity|]. cbn [wacc_alias_from].
  assert (E : wstep_alias dl cap al e o = wstep_alias dl cap' al e o).
  { unfold wstep_alias, wop_alias, wsem. rewrite (H o (or_introl eq_refl)). reflexivity. }
  assert (E2 : wop_alias_counts dl cap al e o = wop_alias_counts dl cap' al e o).
  { unfold wop_alias_counts. rewrite (H o (or_introl eq_refl)). reflexivity. }
  rewrite E, E2. apply IH. intros o' Ho'. apply H. right. exact Ho'.
Qed.

Lemma region_repeat n l k : l + k <= n -> region (repeat MaxInf n) l k = repeat MaxInf k.
Proof.
  intros H. apply (nth_ext _ _ MaxInf MaxInf).
  - rewrite region_length by (rewrite repeat_length; exact H). rewrite repeat_length. reflexivity.
  - intros i Hi. rewrite region_length in Hi by (rewrite repeat_length; exact H).
    rewrite nth_region. destruct (Nat.ltb_spec i k); [|lia]. rewrite !nth_repeat_any. reflexivity.
Qed.

Lemma lines_driven_all c strip stems :
  wf_netlist c -> comb_acyclic c -> gates_known c -> (strip = true -> forks_ok c) ->
  build_stems c strip (std_len c) = Some stems ->
  forall l, l < length (c_lines c) -> In (stemmed stems l) (map s_out (build_ops c strip)).
Proof.
  intros WF AC GK FK Hst l Hl. destruct strip.
  - apply (lines_driven_t c stems WF AC GK (FK eq_refl) Hst l Hl).
  - unfold build_stems in Hst. cbn in Hst. injection Hst as <-. rewrite stemmed_repeat. apply (all_lines_driven c WF AC GK l Hl).
Qed.

Lemma s_writes_ok n s e : In e (s_writes n s) -> fst e < n /\ length (snd e) <= 4.
Proof.
  unfold s_writes. intros H. apply in_map_iff in H. destruct H as ([j [[i t] f]] & <- & Hin). cbn [fst snd].
  destruct (in_combine_seq_gen (false, MaxInf, false) s 0 n j (i, t, f) Hin) as (H1 & _).
  split; [lia|]. destruct i, f; cbn; lia.
Qed.

Section Main.
  Variable c : netlist.
  Variable caps : list N.
  Variable reuse strip : bool.
  Variable delays : list dtab.
  Variable actrl : list (Z * Z * Z).
  Variable abuf_len : nat.
  Variable s : list (bool * time * bool).
  Variable extra : list (nat * list time).
  Variable tcap : time.
  Hypothesis WF : wf_netlist c.
  Hypothesis AC : comb_acyclic c.
  Hypothesis GK : gates_known c.
  Hypothesis FK : strip = true -> forks_ok c.
  Hypothesis Hextra : forall e, In e extra -> fst e < length (s_nodes c) /\ length (snd e) <= 4.
  Notation nl := (length (c_lines c)).
  Notation slen := (length (s_nodes c)).
  Notation ppi := (nl + 3).
  Notation ppo := (nl + 3 + slen).
  Variable so : simops.
  Variable stems : list Z.
  Hypothesis Hb : build c caps 4%N reuse strip = Some so.
  Hypothesis Hst : build_stems c strip (std_len c) = Some stems.
  Hypothesis RS : regions_spec c caps 4%N strip stems so.

  Notation al := (stemmed stems).
  Notation ops := (build_ops c strip).
  Let dl := dl_of delays.
  Let e0 := wenv0 c s extra.
  Let m2 := wsim_start so s extra.
  Let memlen := N.to_nat (so_len so).
  Let G := build_glue c caps 4%N reuse strip so WF AC eq_refl GK FK Hb.

  Let Enl : so_nlines so = nl. Proof. apply G. Qed.
  Let Eslen : so_slen so = slen. Proof. apply G. Qed.
  Let Eops : so_ops so = ops. Proof. apply G. Qed.

  Lemma m2_length : length m2 = memlen.
  Proof. unfold m2. rewrite wsim_start_writes, apply_writes_length, repeat_length. reflexivity. Qed.

  Lemma ppi_slot p l : p < slen -> wlocZ so (ppi + p) = Some l ->
    In (ppi + p) (so_init so) /\ capN so (ppi + p) = 4 /\ l + 4 <= memlen.
  Proof.
    intros Hp Hl. destruct RS as (_ & _ & R3 & R4 & _).
    assert (Hin : In (ppi + p) (so_init so)).
    { pose proof (ppi_in_init so p l) as X. unfold so_ppi in X. rewrite Enl, Eslen in X. apply X; [exact Hp|exact Hl]. }
    destruct (R4 _ Hin) as (X1 & _ & _ & _ & X5). split; [exact Hin|]. split; [exact X5|].
    pose proof (R3 _ l X1 Hl) as B. rewrite X5 in B. exact B.
  Qed.

  Lemma writes_all_ok e : In e (s_writes (so_slen so) s ++ extra) -> fst e < so_slen so /\ length (snd e) <= 4.
  Proof.
    intros H. apply in_app_or in H. destruct H as [H|H]; [apply (s_writes_ok _ _ _ H)|]. rewrite Eslen. apply Hextra. exact H.
  Qed.

  (** B for this map: the start memory holds the line-level start environment at every index of [so_init] *)
  Lemma start_env y : In y (so_init so) -> env_of so m2 y = e0 y.
  Proof.
    intros Hy. destruct RS as (_ & _ & R3 & R4 & _ & R6 & _).
    assert (HR : forall p l, p < so_slen so -> wlocZ so (so_nlines so + 3 + p) = Some l -> l + 4 <= memlen).
    { intros p l Hp Hl. rewrite Enl in Hl. rewrite Eslen in Hp. apply (ppi_slot p l Hp Hl). }
    assert (HD : forall p q l l', p < so_slen so -> q < so_slen so -> p <> q ->
              wlocZ so (so_nlines so + 3 + p) = Some l -> wlocZ so (so_nlines so + 3 + q) = Some l' -> ndisj l 4 l' 4).
    { intros p q l l' Hp Hq Npq Hl Hl'. rewrite Enl in Hl, Hl'. rewrite Eslen in Hp, Hq.
      destruct (ppi_slot p l Hp Hl) as (I1 & C1 & _). destruct (ppi_slot q l' Hq Hl') as (I2 & C2 & _).
      pose proof (R6 _ _ l l' I1 I2 ltac:(lia) Hl Hl') as D. change (so_cap so) with (capN so) in D. rewrite C1, C2 in D. exact D. }
    destruct (R4 y Hy) as (Y1 & Y2 & _ & Y4 & Y5).
    destruct (init_cases so y Hy) as [->|(p & Hp & ->)].
    - (* the zero slot *)
      destruct (so_loc so (so_nlines so)) as [lz|] eqn:Elz; [|congruence].
      unfold env_of, operand. change (wlocZ so (so_nlines so)) with (so_loc so (so_nlines so)). rewrite Elz.
      change (capN so (so_nlines so)) with (so_cap so (so_nlines so)). rewrite Y5. change (N.to_nat 4) with 4.
      unfold m2. rewrite wsim_start_writes.
      rewrite (writes_other so (s_writes (so_slen so) s ++ extra) _ lz 4 writes_all_ok).
      + pose proof (R3 _ lz Y1 Elz) as B. rewrite Y5 in B. rewrite region_repeat by exact B.
        unfold e0, wenv0, init_env. cbv zeta. rewrite Enl.
        destruct (Nat.leb (nl + 3) nl) eqn:E; [apply Nat.leb_le in E; lia|reflexivity].
      + intros q l' Hq Hl'. rewrite Enl in Hl'. rewrite Eslen in Hq. destruct (ppi_slot q l' Hq Hl') as (I2 & C2 & _).
        pose proof (R6 _ _ lz l' Hy I2 ltac:(rewrite Enl; lia) Elz Hl') as D. rewrite Y5 in D.
        change (so_cap so) with (capN so) in D. rewrite C2 in D. exact D.
    - (* a PI / PPI slot *)
      unfold so_ppi in *. destruct (so_loc so (so_nlines so + 3 + p)) as [l|] eqn:El; [|congruence].
      unfold env_of, operand. change (wlocZ so (so_nlines so + 3 + p)) with (so_loc so (so_nlines so + 3 + p)). rewrite El.
      change (capN so (so_nlines so + 3 + p)) with (so_cap so (so_nlines so + 3 + p)). rewrite Y5. change (N.to_nat 4) with 4.
      unfold m2. rewrite wsim_start_writes.
      rewrite (writes_region so memlen HR HD (s_writes (so_slen so) s ++ extra) _ (repeat_length _ _) writes_all_ok p l Hp El).
      rewrite region_repeat by (apply (HR p l Hp El)).
      rewrite (stim_region_fold s extra (so_slen so) p Hp).
      unfold e0, wenv0, init_env. cbv zeta. rewrite Enl.
      destruct (Nat.leb (nl + 3) (nl + 3 + p)) eqn:E; [|apply Nat.leb_gt in E; lia].
      replace (nl + 3 + p - (nl + 3)) with p by lia. reflexivity.
  Qed.

  (** A instantiated: c_prop from the start memory *)
  Lemma c_prop_alias :
    exists m3 ab3, w_c_prop so delays actrl m2 (repeat 0%Z abuf_len) = Some (m3, ab3) /\ length m3 = memlen /\
      (forall y, (In y (so_init so) \/ In y (map s_out ops)) -> (0 < Pg c 4%N strip stems y)%Z ->
         env_of so m3 y = wexec_alias dl (capN so) al ops e0 y) /\
      ab3 = wacc_alias dl (capN so) actrl al ops e0 (repeat 0%Z abuf_len).
  Proof.
    destruct RS as (R1 & _ & R3 & _ & R5 & _ & R7 & R8).
    rewrite w_c_prop_eq, Eops.
    destruct (flat_gen_nc so delays actrl al (fun y => (0 < Pg c 4%N strip stems y)%Z) (so_init so) ops [] 0 e0 m2 (repeat 0%Z abuf_len))
      as (m3 & ab3 & H & L & E & A).
    - intros o Ho. destruct (R5 o Ho) as (_ & X1 & _ & X3 & _).
      destruct (so_loc so (s_out o)) as [zl|] eqn:Ez; [|congruence]. exists zl. split; [exact Ez|].
      rewrite m2_length. apply (R3 _ zl X1 Ez).
    - intros pre o post Eq x Hx. cbn [app]. destruct (R7 pre o post Eq x Hx) as (X1 & _ & X3).
      destruct (R1 x X1) as [L1 L2]. split; [exact L1|]. split; [exact L2|exact X3].
    - intros pre o post Eq y Ny Hd Hn. cbn [app] in Hd. unfold frame_ok.
      destruct (wlocZ so y) as [ly|] eqn:Ly; [|exact I]. destruct (wlocZ so (s_out o)) as [lo|] eqn:Lo; [|exact I].
      apply (R8 pre o post Eq y Ny Hd Hn ly lo Ly Lo).
    - intros y Hd _. cbn [map In] in Hd. destruct Hd as [Hd|[]]. apply start_env. exact Hd.
    - exists m3, ab3. split; [exact H|]. split; [rewrite L; apply m2_length|]. split; [exact E|exact A].
  Qed.

  Let cp := lcap nl caps.

  Lemma cap_lcap o : In o ops -> capN so (s_out o) = cp (s_out o).
  Proof.
    intros Ho. destruct RS as (_ & _ & _ & _ & R5 & _). destruct (R5 o Ho) as (Hcl & _ & _ & _ & X).
    change (capN so (s_out o)) with (so_cap so (s_out o)). rewrite X. unfold cp, lcap.
    destruct Hcl as [Ht|Hl].
    - rewrite Ht, Nat.eqb_refl. destruct (Nat.ltb (nl + 1) nl) eqn:E; [apply Nat.ltb_lt in E; lia|reflexivity].
    - destruct (Nat.eqb (s_out o) (nl + 1)) eqn:E; [apply Nat.eqb_eq in E; lia|].
      apply Nat.ltb_lt in Hl. rewrite Hl. reflexivity.
  Qed.

  Theorem wavesim_so :
    exists r, wsim_case c caps reuse strip delays actrl abuf_len s extra tcap = Some r /\
      w_capt r = wglue_pred c (fun l => wexec_alias dl cp al ops e0 (al l)) tcap /\
      w_abuf r = wacc_alias dl cp actrl al ops e0 (repeat 0%Z abuf_len).
  Proof.
    destruct c_prop_alias as (m3 & ab3 & H & L & E & A).
    unfold wsim_case. rewrite Hb. fold (wsim_start so s extra). fold m2. rewrite H.
    eexists. split; [reflexivity|]. cbn [w_capt w_abuf].
    assert (CE : wexec_alias dl (capN so) al ops e0 = wexec_alias dl cp al ops e0) by (apply wexec_alias_cap_ext; exact cap_lcap).
    split.
    - destruct RS as (_ & R2 & _).
      destruct G as (_ & _ & _ & _ & _ & _ & _ & Hppo). cbv zeta in Hppo.
      unfold w_c_to_s, wglue_pred. rewrite Enl, Eslen. apply map_ext_in. intros p Hp. apply in_seq in Hp.
      assert (Hp' : p < slen) by lia. pose proof (Hppo p Hp') as X.
      destruct (snode_in c p) as [l0|] eqn:Es.
      + unfold snode_in in Es. apply Nat.ltb_lt in Hp'. rewrite Hp' in Es. apply Nat.ltb_lt in Hp'.
        destruct (n_ins (get_node c (nth p (s_nodes c) 0))) as [|[x|] t] eqn:En; try discriminate. injection Es as ->.
        destruct (R2 p l0 t Hp' En) as (L1 & L2 & L3 & L4).
        unfold so_final in X. apply filter_In in X. destruct X as [_ X].
        change (wlocZ so (nl + 3 + slen + p)) with (so_loc so (nl + 3 + slen + p)).
        destruct (so_loc so (nl + 3 + slen + p)) as [l|] eqn:El; [|discriminate].
        change (capN so (nl + 3 + slen + p)) with (so_cap so (nl + 3 + slen + p)). rewrite L2.
        assert (Ew : env_of so m3 (al l0) = wexec_alias dl cp al ops e0 (al l0)).
        { rewrite <- CE. apply E; [|exact L4]. right.
          apply (lines_driven_all c strip stems WF AC GK FK Hst l0 (ip_ins_lt c WF _ _ _ En)). }
        rewrite <- Ew. unfold env_of, operand. change (wlocZ so (al l0)) with (so_loc so (al l0)). rewrite <- L1.
        rewrite capture_upto_end. change (capN so (al l0)) with (so_cap so (al l0)).
        unfold six. destruct (capture _ tcap) as (ini, a). reflexivity.
      + change (wlocZ so (nl + 3 + slen + p)) with (so_loc so (nl + 3 + slen + p)). rewrite X. reflexivity.
    - rewrite A. unfold wacc_alias. rewrite (wacc_alias_cap_ext dl (capN so) cp actrl al ops 0 e0 _ cap_lcap). reflexivity.
  Qed.
End Main.

(* ------------------------------------------------------------------------------------------------ *)
(** * D: the theorems in closed form *)

Definition extra_ok (c : netlist) (extra : list (nat * list time)) : Prop :=
  forall e, In e extra -> fst e < length (s_nodes c) /\ length (snd e) <= 4.

Lemma good_caps_lcap nl caps : good_caps (lcap nl caps).
Proof. intros k. unfold lcap. destruct (Nat.ltb k nl); lia. Qed.

(** all four option combinations: the model never fails where SimOps builds, captures the waveform the ALIAS execution of the
    scheduled op list leaves at the stem of the line feeding each s_node, and accumulates the activity of that execution *)
Theorem wavesim_model_alias c caps reuse strip delays actrl abuf_len s extra tcap :
  wf_netlist c -> comb_acyclic c -> gates_known c -> (strip = true -> forks_ok c) ->
  length (c_lines c) <= length caps -> extra_ok c extra ->
  let dl := dl_of delays in let cp := lcap (length (c_lines c)) caps in let e0 := wenv0 c s extra in
  match build_stems c strip (std_len c) with
  | Some stems =>
      exists r, wsim_case c caps reuse strip delays actrl abuf_len s extra tcap = Some r /\
        w_capt r = wglue_pred c (fun l => wexec_alias dl cp (stemmed stems) (build_ops c strip) e0 (stemmed stems l)) tcap /\
        w_abuf r = wacc_alias dl cp actrl (stemmed stems) (build_ops c strip) e0 (repeat 0%Z abuf_len)
  | None => wsim_case c caps reuse strip delays actrl abuf_len s extra tcap = None
  end.
Proof.
  intros WF AC GK FK Hcaps Hex. cbv zeta.
  destruct (build_stems c strip (std_len c)) as [stems|] eqn:Hst.
  - destruct (build_total_all c caps 4%N reuse strip WF AC eq_refl GK FK Hcaps) as (so & Hb).
    { unfold std_len in Hst. rewrite Hst. discriminate. }
    destruct (build_regions_all c caps 4%N reuse strip so WF AC eq_refl GK FK Hb) as (stems' & Hst' & RS).
    unfold std_len in Hst. rewrite Hst in Hst'. injection Hst' as <-.
    apply (wavesim_so c caps reuse strip delays actrl abuf_len s extra tcap WF AC GK FK Hex so stems Hb Hst RS).
  - unfold wsim_case, build. cbv zeta. unfold std_len in Hst. rewrite Hst. reflexivity.
Qed.

(** strip_forks off: the alias execution is the line-level semantics [wexec] / [wacc] of C03 / C04 / C05 / C13 *)
Lemma wacc_alias_nostrip dl cp actrl len : forall ops i e ab,
  wacc_alias_from dl cp actrl (stemmed (repeat (-1)%Z len)) i ops e ab = wacc_from dl cp actrl i ops e ab.
Proof.
  induction ops as [|o r IH]; intros i e ab; [reflexivity|]. cbn [wacc_alias_from wacc_from]. rewrite <- IH.
  assert (E1 : wstep_alias dl cp (stemmed (repeat (-1)%Z len)) e o = wstep dl cp e o).
  { unfold wstep_alias, wstep, wop_alias, wsem, wop. rewrite !stemmed_repeat. reflexivity. }
  assert (E2 : wop_alias_counts dl cp (stemmed (repeat (-1)%Z len)) e o = wop_counts dl cp e o).
  { unfold wop_alias_counts, wop_counts, wop_res. rewrite !stemmed_repeat. reflexivity. }
  rewrite E1, E2. reflexivity.
Qed.

Theorem wavesim_model_nostrip c caps reuse delays actrl abuf_len s extra tcap :
  wf_netlist c -> comb_acyclic c -> gates_known c -> length (c_lines c) <= length caps -> extra_ok c extra ->
  let dl := dl_of delays in let cp := lcap (length (c_lines c)) caps in let e0 := wenv0 c s extra in
  exists r, wsim_case c caps reuse false delays actrl abuf_len s extra tcap = Some r /\
    w_capt r = wglue_pred c (wexec dl cp (build_ops c false) e0) tcap /\
    w_abuf r = wacc dl cp actrl (build_ops c false) e0 (repeat 0%Z abuf_len).
Proof.
  intros WF AC GK Hcaps Hex. cbv zeta.
  pose proof (wavesim_model_alias c caps reuse false delays actrl abuf_len s extra tcap WF AC GK (fun E => False_ind _ (Bool.diff_false_true E)) Hcaps Hex) as X.
  cbv zeta in X. change (build_stems c false (std_len c)) with (Some (repeat (-1)%Z (std_len c))) in X.
  destruct X as (r & H1 & H2 & H3). exists r. split; [exact H1|]. split.
  - rewrite H2. unfold wglue_pred. apply map_ext. intros p. destruct (snode_in c p) as [l0|]; [|reflexivity].
    rewrite stemmed_repeat. rewrite (wexec_alias_nostrip _ _ c (std_len c) _ _ _ eq_refl). reflexivity.
  - rewrite H3. unfold wacc_alias, wacc. rewrite wacc_alias_nostrip. reflexivity.
Qed.

(** strip_forks on: side conditions of Proofs/WaveStrip.v (C06; outside them: known finding D26) *)
Definition forks_single (c : netlist) : Prop :=
  forall n, n < length (c_nodes c) -> iface_pos c n = None -> is_fork (get_node c n) = true ->
    forall k, 1 <= k <= 3 -> pin (n_ins (get_node c n)) k = None.
Definition strip_side (c : netlist) (dl : nat -> dtab) (cp : nat -> nat) (eu : wenv) : Prop :=
  forall n l0, n < length (c_nodes c) -> iface_pos c n = None -> is_fork (get_node c n) = true ->
    pin (n_ins (get_node c n)) 0 = Some l0 ->
    dl l0 = dzero /\ strictly_increasing (eu l0) /\ forall k o, pin (n_outs (get_node c n)) k = Some o -> ntrans (eu l0) < cp o.
Definition wave_inputs_ok (c : netlist) (dl : nat -> dtab) (stim : nat -> list time) : Prop :=
  good_delays dl /\ dl (length (c_lines c)) = dzero /\ forall p, wf_wave (stim p).

Lemma stim_wave_normal s extra p : upto_end (stim_wave s extra p) = stim_wave s extra p.
Proof. unfold stim_wave. apply WaveFlat.upto_end_idem. Qed.

(** THE end-to-end statement: whatever c_reuse and strip_forks are, the compared memory-level model is total and captures, at
    every s_node with a data line, the waveform that the UNSTRIPPED line-level run assigns to that line *)
Theorem wavesim_model_correct c caps reuse strip delays actrl abuf_len s extra tcap :
  wf_netlist c -> comb_acyclic c -> gates_known c -> length (c_lines c) <= length caps -> extra_ok c extra ->
  let dl := dl_of delays in let cp := lcap (length (c_lines c)) caps in let e0 := wenv0 c s extra in
  (strip = true -> build_stems c true (std_len c) <> None /\ forks_ok c /\ forks_single c /\
                   wave_inputs_ok c dl (stim_wave s extra) /\ strip_side c dl cp (wexec dl cp (build_ops c false) e0)) ->
  exists r, wsim_case c caps reuse strip delays actrl abuf_len s extra tcap = Some r /\
    w_capt r = wglue_pred c (wexec dl cp (build_ops c false) e0) tcap.
Proof.
  intros WF AC GK Hcaps Hex dl cp e0 HS. destruct strip.
  - destruct (HS eq_refl) as (Hne & FO & FS & (Hd & Hdz & Hwf) & SS).
    pose proof (wavesim_model_alias c caps reuse true delays actrl abuf_len s extra tcap WF AC GK (fun _ => FO) Hcaps Hex) as X.
    cbv zeta in X. destruct (build_stems c true (std_len c)) as [stems|] eqn:Hst; [|congruence].
    destruct X as (r & H1 & H2 & _). exists r. split; [exact H1|]. rewrite H2.
    unfold wglue_pred. apply map_ext. intros p. destruct (snode_in c p) as [l0|] eqn:Es; [|reflexivity].
    assert (Hl0 : l0 < length (c_lines c)).
    { unfold snode_in in Es. destruct (Nat.ltb p (length (s_nodes c))); [|discriminate].
      destruct (n_ins (get_node c (nth p (s_nodes c) 0))) as [|[x|] t] eqn:En; try discriminate. injection Es as <-.
      apply (ip_ins_lt c WF _ _ _ En). }
    destruct GK as (G1 & G2 & G3). unfold e0, dl, cp, wenv0.
    rewrite (wave_strip_forks_irrelevant (dl_of delays) (lcap (length (c_lines c)) caps) c (stim_wave s extra) (std_len c) stems
               Hd (good_caps_lcap _ _) Hwf (stim_wave_normal s extra) Hdz WF AC ltac:(unfold std_len; lia) Hst
               (fun n Hn Hi Hf => proj1 (FO n Hn Hi Hf)) G1 G2 G3 FS SS l0 Hl0).
    reflexivity.
  - destruct (wavesim_model_nostrip c caps reuse delays actrl abuf_len s extra tcap WF AC GK Hcaps Hex) as (r & H1 & H2 & _).
    exists r. split; [exact H1|exact H2].
Qed.

(** hence any two option combinations capture the same (C06, timing level, memory level) *)
Theorem wavesim_options_irrelevant c caps r1 s1 r2 s2 delays actrl1 actrl2 abuf_len s extra tcap :
  wf_netlist c -> comb_acyclic c -> gates_known c -> length (c_lines c) <= length caps -> extra_ok c extra ->
  let dl := dl_of delays in let cp := lcap (length (c_lines c)) caps in let e0 := wenv0 c s extra in
  (s1 = true \/ s2 = true -> build_stems c true (std_len c) <> None /\ forks_ok c /\ forks_single c /\
                   wave_inputs_ok c dl (stim_wave s extra) /\ strip_side c dl cp (wexec dl cp (build_ops c false) e0)) ->
  exists ra rb, wsim_case c caps r1 s1 delays actrl1 abuf_len s extra tcap = Some ra /\
                wsim_case c caps r2 s2 delays actrl2 abuf_len s extra tcap = Some rb /\ w_capt ra = w_capt rb.
Proof.
  intros WF AC GK Hcaps Hex dl cp e0 HS.
  destruct (wavesim_model_correct c caps r1 s1 delays actrl1 abuf_len s extra tcap WF AC GK Hcaps Hex (fun E => HS (or_introl E))) as (ra & A1 & A2).
  destruct (wavesim_model_correct c caps r2 s2 delays actrl2 abuf_len s extra tcap WF AC GK Hcaps Hex (fun E => HS (or_intror E))) as (rb & B1 & B2).
  exists ra, rb. split; [exact A1|]. split; [exact B1|]. rewrite A2, B2. reflexivity.
Qed.

(* ------------------------------------------------------------------------------------------------ *)
(** * E: executable tests for the hypotheses (evaluated on every generated case of the C03 / C05 / C13 / C06 campaigns) *)

Definition extra_ok_b (c : netlist) (extra : list (nat * list time)) : bool :=
  forallb (fun e : nat * list time => Nat.ltb (fst e) (length (s_nodes c)) && Nat.leb (length (snd e)) 4) extra.
Definition forks_single_b (c : netlist) : bool :=
  forallb (fun n => match iface_pos c n with
                    | Some _ => true
                    | None => negb (is_fork (get_node c n)) ||
                              forallb (fun k => negb (is_some (pin (n_ins (get_node c n)) k))) [1; 2; 3]
                    end) (seq 0 (length (c_nodes c))).
Definition wf_wave_b (w : list time) : bool :=
  Nat.ltb (ntrans w) (length w) && forallb (fun i => negb (teqb (wget w i) MinInf)) (seq 1 (ntrans w - 1)).
Definition si_b (w : list time) : bool :=
  forallb (fun j => forallb (fun i => tltb (wget w i) (wget w j)) (seq 0 j)) (seq 0 (ntrans w)).
Definition dtab_zero_b (d : dtab) : bool := (d00 d =? 0)%Z && (d01 d =? 0)%Z && (d10 d =? 0)%Z && (d11 d =? 0)%Z.
Definition dtab_nonneg_b (d : dtab) : bool := (0 <=? d00 d)%Z && (0 <=? d01 d)%Z && (0 <=? d10 d)%Z && (0 <=? d11 d)%Z.
Definition strip_side_b (c : netlist) (dl : nat -> dtab) (cp : nat -> nat) (eu : wenv) : bool :=
  forallb (fun n => match iface_pos c n with
                    | Some _ => true
                    | None => negb (is_fork (get_node c n)) ||
                              match pin (n_ins (get_node c n)) 0 with
                              | None => true
                              | Some l0 => dtab_zero_b (dl l0) && si_b (eu l0) &&
                                           forallb (fun o => Nat.ltb (ntrans (eu l0)) (cp o)) (somes (n_outs (get_node c n)))
                              end
                    end) (seq 0 (length (c_nodes c))).
Definition wave_inputs_ok_b (c : netlist) (delays : list dtab) (s : list (bool * time * bool)) (extra : list (nat * list time)) : bool :=
  forallb dtab_nonneg_b delays && dtab_zero_b (nth (length (c_lines c)) delays dzero) &&
  forallb (fun p => wf_wave_b (stim_wave s extra p)) (seq 0 (Nat.max (length (s_nodes c)) (length s))).

(** every hypothesis of [wavesim_model_correct] *)
Definition wglue_hyps_b (c : netlist) (caps : list N) (strip : bool) (delays : list dtab)
           (s : list (bool * time * bool)) (extra : list (nat * list time)) : bool :=
  wf_netlist_b c && acyclic_b c && gates_known_b c && Nat.leb (length (c_lines c)) (length caps) && extra_ok_b c extra &&
  (negb strip ||
   (is_some (build_stems c true (std_len c)) && forks_ok_b c && forks_single_b c && wave_inputs_ok_b c delays s extra &&
    strip_side_b c (dl_of delays) (lcap (length (c_lines c)) caps)
                 (wexec (dl_of delays) (lcap (length (c_lines c)) caps) (build_ops c false) (wenv0 c s extra)))).

Lemma extra_ok_b_sound c extra : extra_ok_b c extra = true -> extra_ok c extra.
Proof.
  unfold extra_ok_b, extra_ok. rewrite forallb_forall. intros H e He. specialize (H e He).
  apply andb_true_iff in H. destruct H as [H1 H2]. apply Nat.ltb_lt in H1. apply Nat.leb_le in H2. auto.
Qed.

Lemma forks_single_b_sound c : forks_single_b c = true -> forks_single c.
Proof.
  unfold forks_single_b, forks_single. rewrite forallb_forall. intros H n Hn Hi Hf k Hk.
  specialize (H n). rewrite in_seq in H. specialize (H ltac:(lia)). rewrite Hi, Hf in H. cbn [negb orb] in H.
  rewrite forallb_forall in H. specialize (H k). assert (Hin : In k [1; 2; 3]) by (cbn; lia). specialize (H Hin).
  destruct (pin (n_ins (get_node c n)) k); [discriminate H|reflexivity].
Qed.

Lemma wf_wave_b_sound w : wf_wave_b w = true -> wf_wave w.
Proof.
  unfold wf_wave_b, wf_wave. intros H. apply andb_true_iff in H. destruct H as [H1 H2]. apply Nat.ltb_lt in H1.
  split; [exact H1|]. intros i H0 Hi. rewrite forallb_forall in H2. specialize (H2 i). rewrite in_seq in H2. specialize (H2 ltac:(lia)).
  intros E. rewrite E in H2. discriminate H2.
Qed.

Lemma si_b_sound w : si_b w = true -> strictly_increasing w.
Proof.
  unfold si_b, strictly_increasing. rewrite forallb_forall. intros H i j Hij Hj.
  specialize (H j). rewrite in_seq in H. specialize (H ltac:(lia)). rewrite forallb_forall in H. apply H. apply in_seq. lia.
Qed.

Lemma dtab_zero_b_sound d : dtab_zero_b d = true -> d = dzero.
Proof.
  unfold dtab_zero_b. rewrite !andb_true_iff, !Z.eqb_eq. intros (((H1 & H2) & H3) & H4). destruct d. cbn in *. subst. reflexivity.
Qed.

Lemma dtab_nonneg_b_sound d : dtab_nonneg_b d = true -> dtab_nonneg d.
Proof. unfold dtab_nonneg_b, dtab_nonneg. rewrite !andb_true_iff, !Z.leb_le. tauto. Qed.

Lemma strip_side_b_sound c dl cp eu : strip_side_b c dl cp eu = true -> strip_side c dl cp eu.
Proof.
  unfold strip_side_b, strip_side. rewrite forallb_forall. intros H n l0 Hn Hi Hf Hp.
  specialize (H n). rewrite in_seq in H. specialize (H ltac:(lia)). rewrite Hi, Hf, Hp in H. cbn [negb orb] in H.
  rewrite !andb_true_iff in H. destruct H as ((H1 & H2) & H3).
  split; [apply dtab_zero_b_sound; exact H1|]. split; [apply si_b_sound; exact H2|].
  intros k o Ho. rewrite forallb_forall in H3. apply Nat.ltb_lt. apply H3. apply (pin_somes _ _ _ Ho).
Qed.

Lemma stim_wave_outside s extra p : length s <= p -> (forall e, In e extra -> fst e <> p) -> stim_wave s extra p = wzero.
Proof.
  intros Hs He. unfold stim_wave, stim_region. apply nth_error_None in Hs. rewrite Hs.
  assert (E : forall r, fold_left (fun (r : list time) (e : nat * list time) => if Nat.eqb (fst e) p then write_at r 0 (snd e) else r) extra r = r).
  { induction extra as [|e ex IH]; intros r; [reflexivity|]. cbn [fold_left].
    destruct (Nat.eqb (fst e) p) eqn:E; [apply Nat.eqb_eq in E; exfalso; apply (He e (or_introl eq_refl) E)|].
    apply IH. intros e' He'. apply He. right. exact He'. }
  rewrite E. reflexivity.
Qed.

Lemma wave_inputs_ok_b_sound c delays s extra : extra_ok c extra -> wave_inputs_ok_b c delays s extra = true ->
  wave_inputs_ok c (dl_of delays) (stim_wave s extra).
Proof.
  intros Hex H. unfold wave_inputs_ok_b in H. rewrite !andb_true_iff in H. destruct H as ((H1 & H2) & H3).
  split; [|split].
  - intros k. unfold dl_of. destruct (Nat.lt_ge_cases k (length delays)) as [Hk|Hk].
    + apply dtab_nonneg_b_sound. rewrite forallb_forall in H1. apply H1. apply nth_In. exact Hk.
    + rewrite nth_overflow by exact Hk. cbv. repeat split; discriminate.
  - apply dtab_zero_b_sound. exact H2.
  - intros p. destruct (Nat.lt_ge_cases p (Nat.max (length (s_nodes c)) (length s))) as [Hp|Hp].
    + apply wf_wave_b_sound. rewrite forallb_forall in H3. apply H3. apply in_seq. lia.
    + rewrite stim_wave_outside; [apply wzero_wf|lia|]. intros e He E. destruct (Hex e He) as [X _]. lia.
Qed.

Theorem wglue_hyps_b_sound c caps strip delays s extra : wglue_hyps_b c caps strip delays s extra = true ->
  wf_netlist c /\ comb_acyclic c /\ gates_known c /\ length (c_lines c) <= length caps /\ extra_ok c extra /\
  (strip = true -> build_stems c true (std_len c) <> None /\ forks_ok c /\ forks_single c /\
     wave_inputs_ok c (dl_of delays) (stim_wave s extra) /\
     strip_side c (dl_of delays) (lcap (length (c_lines c)) caps)
                (wexec (dl_of delays) (lcap (length (c_lines c)) caps) (build_ops c false) (wenv0 c s extra))).
Proof.
  unfold wglue_hyps_b. rewrite !andb_true_iff. intros (((((H1 & H2) & H3) & H4) & H5) & H6).
  pose proof (wf_netlist_b_sound c H1) as WF. pose proof (extra_ok_b_sound c extra H5) as Hex.
  split; [exact WF|]. split; [apply (acyclic_b_sound c WF H2)|]. split; [apply (gates_known_b_sound c H3)|].
  split; [apply Nat.leb_le; exact H4|]. split; [exact Hex|].
  intros ->. cbn [negb orb] in H6. rewrite !andb_true_iff in H6. destruct H6 as ((((K1 & K2) & K3) & K4) & K5).
  split; [destruct (build_stems c true (std_len c)); [discriminate|discriminate K1]|].
  split; [apply forks_ok_b_sound; exact K2|]. split; [apply forks_single_b_sound; exact K3|].
  split; [apply (wave_inputs_ok_b_sound c delays s extra Hex K4)|apply strip_side_b_sound; exact K5].
Qed.

(** the end-to-end statement with its hypotheses discharged by evaluation *)
Theorem wavesim_model_correct_b c caps reuse strip delays actrl abuf_len s extra tcap :
  wglue_hyps_b c caps strip delays s extra = true ->
  let dl := dl_of delays in let cp := lcap (length (c_lines c)) caps in let e0 := wenv0 c s extra in
  exists r, wsim_case c caps reuse strip delays actrl abuf_len s extra tcap = Some r /\
    w_capt r = wglue_pred c (wexec dl cp (build_ops c false) e0) tcap.
Proof.
  intros H. destruct (wglue_hyps_b_sound c caps strip delays s extra H) as (WF & AC & GK & Hc & Hex & HS).
  apply (wavesim_model_correct c caps reuse strip delays actrl abuf_len s extra tcap WF AC GK Hc Hex HS).
Qed.

(** what a cases file evaluates per case (Model/WaveGlue.v vocabulary against the implementation's results):
    0: [wglue_hyps_b] (false = the case is outside the proved domain; the comparisons below are then excused)
    1: the theorem's prediction (capture of the UNSTRIPPED line-level waveforms) = what the implementation captured
    2: (strip_forks off) line-level [wacc] = the implementation's abuf *)
Definition wglue_case (c : netlist) (caps : list N) (strip : bool) (delays : list dtab) (actrl : list (Z * Z * Z)) (abuf_len : nat)
           (s : list (bool * time * bool)) (extra : list (nat * list time)) (tcap : time)
           (exp_capt : list (option (bool * time * time * bool * bool * bool))) (exp_abuf : list Z) : list bool :=
  let hy := wglue_hyps_b c caps strip delays s extra in
  let dl := dl_of delays in let cp := lcap (length (c_lines c)) caps in let e0 := wenv0 c s extra in
  [ hy;
    negb hy || list_eqb (Corr.opt_eqb capt_eqb) (wglue_pred c (wexec dl cp (build_ops c false) e0) tcap) exp_capt;
    negb hy || strip || list_eqb Z.eqb (wacc dl cp actrl (build_ops c false) e0 (repeat 0%Z abuf_len)) exp_abuf ].

(* ------------------------------------------------------------------------------------------------ *)
(** * F: the circuit-level theorems of C03 / C05 / C13 restated for the compared memory-level model, every option combination *)

Lemma capt_nth c ef tcap p l0 : snode_in c p = Some l0 -> nth p (wglue_pred c ef tcap) None = Some (six (capture (ef l0) tcap)).
Proof.
  intros Es. assert (Hp : p < length (s_nodes c)).
  { unfold snode_in in Es. destruct (Nat.ltb p (length (s_nodes c))) eqn:E; [apply Nat.ltb_lt; exact E|discriminate]. }
  unfold wglue_pred.
  rewrite (nth_indep _ None ((fun p => match snode_in c p with Some l0 => Some (six (capture (ef l0) tcap)) | None => None end) 0))
    by (rewrite map_length, seq_length; exact Hp).
  rewrite (map_nth (fun p => match snode_in c p with Some l0 => Some (six (capture (ef l0) tcap)) | None => None end)), seq_nth by exact Hp.
  cbn [plus]. rewrite Es. reflexivity.
Qed.

Lemma wenv0_wf c s extra : (forall p, wf_wave (stim_wave s extra p)) -> forall j, wf_wave (wenv0 c s extra j).
Proof.
  intros H j. unfold wenv0. destruct (init_env_cases wzero c (stim_wave s extra) j) as [E|(p & E)]; rewrite E; [apply wzero_wf|apply H].
Qed.

Section Restated.
  Variable c : netlist.
  Variable caps : list N.
  Variable reuse strip : bool.
  Variable delays : list dtab.
  Variable actrl : list (Z * Z * Z).
  Variable abuf_len : nat.
  Variable s : list (bool * time * bool).
  Variable extra : list (nat * list time).
  Variable tcap : time.
  Let dl := dl_of delays.
  Let cp := lcap (length (c_lines c)) caps.
  Let e0 := wenv0 c s extra.
  Let opsU := build_ops c false.
  Hypothesis WF : wf_netlist c.
  Hypothesis AC : comb_acyclic c.
  Hypothesis GK : gates_known c.
  Hypothesis Hcaps : length (c_lines c) <= length caps.
  Hypothesis Hex : extra_ok c extra.
  Hypothesis HI : wave_inputs_ok c dl (stim_wave s extra).
  Hypothesis HS : strip = true -> build_stems c true (std_len c) <> None /\ forks_ok c /\ forks_single c /\
                                  strip_side c dl cp (wexec dl cp opsU e0).

  Let HS' : strip = true -> build_stems c true (std_len c) <> None /\ forks_ok c /\ forks_single c /\
                            wave_inputs_ok c dl (stim_wave s extra) /\ strip_side c dl cp (wexec dl cp opsU e0).
  Proof. intros E. destruct (HS E) as (A & B & C & D). auto. Qed.

  Let Hd : good_delays dl. Proof. apply HI. Qed.
  Let Hc : good_caps cp. Proof. apply good_caps_lcap. Qed.
  Let Hw : forall j, wf_wave (e0 j). Proof. apply wenv0_wf. apply HI. Qed.

  (** C03 (settles) and C13 (capture): the six captured entries of every s_node with a data line summarise the line-level
      waveform: Boolean evaluation of the initial / final input values, earliest arrival, latest stabilisation, value just
      before the capture time, overflow indicator = overflow reachability *)
  Theorem wavesim_model_capture :
    exists r, wsim_case c caps reuse strip delays actrl abuf_len s extra tcap = Some r /\
      forall p l0, snode_in c p = Some l0 ->
        let w := wexec dl cp opsU e0 l0 in
        let '(ini, a) := capture w tcap in
        nth p (w_capt r) None = Some (ini, k_eat a, k_lst a, k_fin a, k_val a, k_ovl a) /\
        ini = bexec opsU (fun j => init_val (e0 j)) l0 /\ k_fin a = bexec opsU (fun j => final_val (e0 j)) l0 /\
        k_eat a = earliest w /\ k_lst a = latest w /\ k_val a = value_before w tcap /\
        (k_ovl a = true <-> ovf_reach dl cp opsU e0 (ovf0 e0) l0 = true).
  Proof.
    destruct (wavesim_model_correct c caps reuse strip delays actrl abuf_len s extra tcap WF AC GK Hcaps Hex HS') as (r & H1 & H2).
    exists r. split; [exact H1|]. intros p l0 Es. cbv zeta.
    pose proof (circuit_capture dl cp Hd Hc opsU e0 l0 tcap Hw) as X. cbv zeta in X.
    assert (Y : nth p (w_capt r) None = Some (six (capture (wexec dl cp opsU e0 l0) tcap))).
    { rewrite H2. apply (capt_nth c (wexec dl cp opsU e0) tcap p l0 Es). }
    unfold six in Y. destruct (capture (wexec dl cp opsU e0 l0) tcap) as (ini, a). split; [exact Y|exact X].
  Qed.

  Theorem wavesim_model_settles :
    exists r, wsim_case c caps reuse strip delays actrl abuf_len s extra tcap = Some r /\
      forall p l0, snode_in c p = Some l0 ->
        exists ini eat lst fin val ovl, nth p (w_capt r) None = Some (ini, eat, lst, fin, val, ovl) /\
          ini = bexec opsU (fun j => init_val (e0 j)) l0 /\ fin = bexec opsU (fun j => final_val (e0 j)) l0.
  Proof.
    destruct wavesim_model_capture as (r & H1 & H2). exists r. split; [exact H1|]. intros p l0 Es.
    specialize (H2 p l0 Es). cbv zeta in H2. destruct (capture (wexec dl cp opsU e0 l0) tcap) as (ini, a).
    destruct H2 as (A & B & C & _). exists ini, (k_eat a), (k_lst a), (k_fin a), (k_val a), (k_ovl a). auto.
  Qed.

  (** C05: what the 8-valued logic simulation of the netlist predicts holds for the waveform behind every captured entry *)
  Theorem wavesim_model_predicted (e8 : nat -> Logic.code) :
    (forall k, predicts (e0 k) (e8 k)) ->
    exists r, wsim_case c caps reuse strip delays actrl abuf_len s extra tcap = Some r /\
      forall p l0, snode_in c p = Some l0 ->
        exists w, nth p (w_capt r) None = Some (six (capture w tcap)) /\ predicts w (cexec opsU e8 l0).
  Proof.
    intros Hp.
    destruct (wavesim_model_correct c caps reuse strip delays actrl abuf_len s extra tcap WF AC GK Hcaps Hex HS') as (r & H1 & H2).
    exists r. split; [exact H1|]. intros p l0 Es. exists (wexec dl cp opsU e0 l0). split.
    - rewrite H2. apply (capt_nth c (wexec dl cp opsU e0) tcap p l0 Es).
    - apply (logic8_predicts_wave dl cp opsU e0 e8 Hd Hc); [|exact Hp].
      intros o Ho. exact (build_ops_known c false o Ho).
  Qed.
End Restated.

(** C13, accumulated activity with strip_forks off (with it on: [wavesim_model_alias], the alias run of the stripped schedule):
    abuf is the line-level accumulation; if no accumulating op is overwritten later, accumulator a holds the weighted
    rising / falling transitions of the final line-level waveforms *)
Theorem wavesim_model_activity c caps reuse delays actrl abuf_len s extra tcap :
  wf_netlist c -> comb_acyclic c -> gates_known c -> length (c_lines c) <= length caps -> extra_ok c extra ->
  let dl := dl_of delays in let cp := lcap (length (c_lines c)) caps in let e0 := wenv0 c s extra in
  exists r, wsim_case c caps reuse false delays actrl abuf_len s extra tcap = Some r /\
    w_abuf r = wacc dl cp actrl (build_ops c false) e0 (repeat 0%Z abuf_len) /\
    (wave_inputs_ok c dl (stim_wave s extra) -> acc_once actrl 0 (build_ops c false) ->
     forall a, a < abuf_len -> nth a (w_abuf r) 0%Z = wsa_final actrl 0 (build_ops c false) (wexec dl cp (build_ops c false) e0) a).
Proof.
  intros WF AC GK Hcaps Hex. cbv zeta.
  destruct (wavesim_model_nostrip c caps reuse delays actrl abuf_len s extra tcap WF AC GK Hcaps Hex) as (r & H1 & _ & H3).
  exists r. split; [exact H1|]. split; [exact H3|]. intros (Hd & _ & Hwf) Ho a Ha. rewrite H3.
  rewrite (wacc_final _ _ actrl Hd (good_caps_lcap _ _) (build_ops c false) (wenv0 c s extra) (repeat 0%Z abuf_len) a
             (wenv0_wf c s extra Hwf) Ho) by (rewrite repeat_length; exact Ha).
  rewrite nth_repeat_any. reflexivity.
Qed.

(* ------------------------------------------------------------------------------------------------ *)
(** * Example: the netlist of WaveStrip.StripWaveExample (fork with three branches, two of them reconverging), a multi-transition
      input waveform, polarity-free delays that vanish on the fork input: every hypothesis holds for all four option combinations *)
Module WaveGlueExample.
  Import StripWaveExample.
  Definition dls : list dtab := map dlw (seq 0 6).
  Definition ss : list (bool * time * bool) := [(false, Fin 10, true); (false, MaxInf, false); (false, MaxInf, false)].
  Definition ex : list (nat * list time) := [(0, [Fin 10; Fin 20; Fin 31; MaxInf])].

  Example cxw_hyps strip : wglue_hyps_b cxw (repeat 8%N 6) strip dls ss ex = true.
  Proof. destruct strip; vm_compute; reflexivity. Qed.

  Example cxw_by_theorem reuse strip actrl n tcap :
    exists r, wsim_case cxw (repeat 8%N 6) reuse strip dls actrl n ss ex tcap = Some r /\
      w_capt r = wglue_pred cxw (wexec (dl_of dls) (lcap 6 (repeat 8%N 6)) (build_ops cxw false) (wenv0 cxw ss ex)) tcap.
  Proof. apply (wavesim_model_correct_b cxw (repeat 8%N 6) reuse strip dls actrl n ss ex tcap (cxw_hyps strip)). Qed.

  (** the and-gate output (position 1) rises at 18 after a pulse, the third branch (position 2) carries the input delayed by 3 *)
  Example cxw_runs :
    map (fun rs => option_map w_capt (wsim_case cxw (repeat 8%N 6) (fst rs) (snd rs) dls [] 0 ss ex (Fin 30)))
        [(false, false); (true, false); (false, true); (true, true)]
    = repeat (Some [None; Some (false, Fin 18, Fin 39, true, false, false); Some (false, Fin 13, Fin 34, true, false, false)]) 4.
  Proof. vm_compute. reflexivity. Qed.
End WaveGlueExample.

Print Assumptions wavesim_model_alias.
Print Assumptions wavesim_model_nostrip.
Print Assumptions wavesim_model_correct.
Print Assumptions wavesim_options_irrelevant.
Print Assumptions wglue_hyps_b_sound.
Print Assumptions wavesim_model_correct_b.
Print Assumptions wavesim_model_capture.
Print Assumptions wavesim_model_settles.
Print Assumptions wavesim_model_predicted.
Print Assumptions wavesim_model_activity.
Print Assumptions WaveGlueExample.cxw_by_theorem.
