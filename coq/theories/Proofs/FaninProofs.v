(** Circuit.fanin (circuit.py:550-564; Model/Netlist.v [fanin]) for ALL well-formed netlists:
      F1 [fanin_restricts_rtopo]  the yielded sequence is the restriction of [rtopo_order] to the yielded set
                                  (so: reversed topological order, every node at most once: [fanin_nodup]);
      F2 [fanin_unfold]           EXACT characterisation: n is yielded iff it is traversed and (it is an origin, or one of
                                  its readers is an origin, or one of its readers was traversed EARLIER and yielded);
      F3 [fanin_sound]            every yielded node is an origin or has a path of lines to an origin;
      F4 [fanin_complete_comb]    every node with a path to an origin whose nodes (the end point excepted) are all
                                  combinational is yielded;
      F5 [fanin_exact_comb]       in a netlist without state elements: yielded = transitive fan-in of the origins;
      F6 [fanin_comb_node], [fanin_seq_node]  what F2 means at a combinational node (all readers count) and at a state
                                  element (only readers that are origins, or state elements/sinks with a SMALLER node index
                                  that are themselves yielded, count: reversed_topological_order starts with all sinks and
                                  state elements in index order).
    State elements: a flip-flop that drives an origin directly is yielded, and with it the logic behind it; a
    flip-flop that drives an origin through a gate is not.  See [FaninExample]. *)
From Coq Require Import List Arith Bool Lia Permutation.
From KV Require Import Model.Prims Model.Netlist Model.NetlistWf Model.Reach Proofs.TopoProofs Proofs.WfCheck.
Import ListNotations.
Local Open Scope list_scope.

(* ------------------------------------------------------------------------------------------------ *)
(** * List facts *)

Lemma existsb_ext' {A} (f g : A -> bool) l : (forall x, In x l -> f x = g x) -> existsb f l = existsb g l.
Proof.
  induction l as [|a l IH]; intros H; [reflexivity|]. cbn [existsb].
  rewrite (H a (or_introl eq_refl)), IH; [reflexivity|]. intros x Hx. apply H. right. exact Hx.
Qed.

Lemma setm_nth n m : forall (l : list bool) s k,
  nth k (map (fun im : nat * bool => if Nat.eqb (fst im) n then m else snd im) (combine (seq s (length l)) l)) false =
  if Nat.eqb (s + k) n && Nat.ltb k (length l) then m else nth k l false.
Proof.
  induction l as [|x r IH]; intros s k.
  - cbn [length seq combine map]. rewrite andb_false_r. reflexivity.
  - cbn [length seq combine map]. destruct k as [|k].
    + cbn [nth fst snd]. rewrite Nat.add_0_r. replace (Nat.ltb 0 (S (length r))) with true by reflexivity.
      rewrite andb_true_r. reflexivity.
    + cbn [nth]. rewrite IH. replace (S s + k) with (s + S k) by lia.
      replace (Nat.ltb (S k) (S (length r))) with (Nat.ltb k (length r)) by reflexivity. reflexivity.
Qed.

Lemma setm_length n m (l : list bool) :
  length (map (fun im : nat * bool => if Nat.eqb (fst im) n then m else snd im) (combine (seq 0 (length l)) l)) = length l.
Proof. rewrite map_length, combine_length, seq_length. lia. Qed.

Lemma index_of_lt_app_in d : forall l1 l2 j, index_of d (l1 ++ l2) = Some j -> j < length l1 -> In d l1.
Proof.
  induction l1 as [|y l1 IH]; intros l2 j H Hj; [simpl in Hj; lia|].
  simpl in H. destruct (Nat.eqb d y) eqn:E.
  - apply Nat.eqb_eq in E. left. auto.
  - destruct (index_of d (l1 ++ l2)) as [j'|] eqn:E2; [|discriminate]. injection H as <-.
    right. apply (IH l2 j' E2). simpl in Hj. lia.
Qed.

(** in a duplicate-free sequence "before" is "in the part preceding" *)
Lemma before_split l pre b rest a : NoDup l -> l = pre ++ b :: rest -> (before l a b <-> In a pre).
Proof.
  intros Hnd E. subst l.
  assert (Hb : ~ In b pre).
  { intros H. apply NoDup_remove_2 in Hnd. apply Hnd. apply in_or_app. left. exact H. }
  assert (Ib : index_of b (pre ++ b :: rest) = Some (length pre)).
  { rewrite index_of_app_r by exact Hb. cbn [index_of]. rewrite Nat.eqb_refl. cbn. f_equal. lia. }
  split.
  - intros (j & i & Hj & Hi & Hji). rewrite Ib in Hi. injection Hi as <-.
    apply (index_of_lt_app_in _ _ _ _ Hj Hji).
  - intros Ha. destruct (index_of_In _ _ Ha) as (j & Hj & Hl). exists j, (length pre).
    rewrite index_of_app_l by exact Ha. auto.
Qed.

Lemma filter_memb_self (F : nat -> bool) l : NoDup l ->
  filter F l = filter (fun n => memb n (filter F l)) l.
Proof.
  intros _. apply filter_ext_in. intros n Hn.
  destruct (F n) eqn:E.
  - symmetry. apply memb_In. apply filter_In. auto.
  - symmetry. destruct (memb n (filter F l)) eqn:E2; [|reflexivity].
    apply memb_In in E2. apply filter_In in E2. destruct E2 as [_ E2]. congruence.
Qed.

(* ------------------------------------------------------------------------------------------------ *)
(** * The loop of [fanin] *)

Lemma fanin_eq c origins :
  fanin c origins = rev (snd (fold_left (fanin_step c) (rtopo_order c) (fanin_marks0 c origins, []))).
Proof. reflexivity. Qed.

Section Fanin.
  Variable c : netlist.
  Variable origins : list nat.
  Hypothesis WF : wf_netlist c.
  Notation NN := (length (c_nodes c)).
  Notation nl := (length (c_lines c)).
  Notation drv l := (l_drv (get_line c l)).
  Notation rdr l := (l_rdr (get_line c l)).
  Notation outs n := (somes (n_outs (get_node c n))).
  Notation R := (rtopo_order c).

  Definition orig (k : nat) : bool := Nat.ltb k NN && memb k origins.

  Lemma marks0_nth k : nth k (fanin_marks0 c origins) false = orig k.
  Proof.
    unfold fanin_marks0, orig. destruct (Nat.ltb k NN) eqn:E.
    - apply Nat.ltb_lt in E.
      rewrite (nth_indep _ false (existsb (Nat.eqb 0) origins)) by (rewrite map_length, seq_length; exact E).
      rewrite (map_nth (fun i => existsb (Nat.eqb i) origins) (seq 0 NN) 0 k). rewrite seq_nth by exact E. reflexivity.
    - apply Nat.ltb_ge in E. apply nth_overflow. rewrite map_length, seq_length. exact E.
  Qed.

  (** the equation a mark satisfies when node n is processed after the nodes of p *)
  Definition eqn (F : nat -> bool) (p : list nat) (n : nat) : bool :=
    orig n || existsb (fun l => orig (rdr l) || (memb (rdr l) p && F (rdr l))) (outs n).
  (** p: processed nodes, newest first *)
  Fixpoint Hist (F : nat -> bool) (p : list nat) : Prop :=
    match p with [] => True | n :: p' => F n = eqn F p' n /\ Hist F p' end.

  Lemma eqn_ext F F' p n : (forall k, In k p -> F k = F' k) -> eqn F p n = eqn F' p n.
  Proof.
    intros H. unfold eqn. f_equal. apply existsb_ext'. intros l _. f_equal.
    destruct (memb (rdr l) p) eqn:E; [|reflexivity]. apply memb_In in E. rewrite (H _ E). reflexivity.
  Qed.

  Lemma Hist_ext F F' : forall p, (forall k, In k p -> F k = F' k) -> Hist F p -> Hist F' p.
  Proof.
    induction p as [|n p IH]; intros H Hh; [exact I|]. cbn [Hist] in *. destruct Hh as [H1 H2]. split.
    - rewrite <- (H n (or_introl eq_refl)), H1. apply eqn_ext. intros k Hk. apply H. right. exact Hk.
    - apply IH; [|exact H2]. intros k Hk. apply H. right. exact Hk.
  Qed.

  Lemma Hist_app F a : forall b, Hist F (a ++ b) -> Hist F b.
  Proof. induction a as [|x a IH]; intros b H; [exact H|]. cbn [app Hist] in H. apply IH, H. Qed.

  Record FInv (p : list nat) (marks : list bool) (acc : list nat) : Prop := {
    FI_len : length marks = NN;
    FI_out : forall k, ~ In k p -> nth k marks false = orig k;
    FI_hist : Hist (fun k => nth k marks false) p;
    FI_mono : forall k, orig k = true -> nth k marks false = true;
    FI_acc : rev acc = filter (fun k => nth k marks false) (rev p) }.

  Lemma finv_init : FInv [] (fanin_marks0 c origins) [].
  Proof.
    constructor.
    - unfold fanin_marks0. rewrite map_length, seq_length. reflexivity.
    - intros k _. apply marks0_nth.
    - exact I.
    - intros k H. rewrite marks0_nth. exact H.
    - reflexivity.
  Qed.

  Lemma finv_step p marks acc n : FInv p marks acc -> ~ In n p -> n < NN ->
    FInv (n :: p) (fst (fanin_step c (marks, acc) n)) (snd (fanin_step c (marks, acc) n)).
  Proof.
    intros [Hlen Hout Hh Hmono Hacc] Hn HnN.
    set (F := fun k => nth k marks false) in *.
    set (m := F n || existsb (fun ln => F (rdr ln)) (outs n)).
    assert (E : fanin_step c (marks, acc) n =
                (map (fun im : nat * bool => if Nat.eqb (fst im) n then m else snd im) (combine (seq 0 (length marks)) marks),
                 if m then n :: acc else acc)) by reflexivity.
    rewrite E. cbn [fst snd]. clear E.
    set (marks' := map (fun im : nat * bool => if Nat.eqb (fst im) n then m else snd im) (combine (seq 0 (length marks)) marks)).
    assert (F' : forall k, nth k marks' false = if Nat.eqb k n then m else F k).
    { intros k. unfold marks'. rewrite setm_nth. cbn [Nat.add]. destruct (Nat.eqb k n) eqn:Ek; [|reflexivity].
      apply Nat.eqb_eq in Ek. subst k. rewrite Hlen, (proj2 (Nat.ltb_lt _ _) HnN). reflexivity. }
    assert (Fp : forall k, In k p -> nth k marks' false = F k).
    { intros k Hk. rewrite F'. destruct (Nat.eqb k n) eqn:Ek; [|reflexivity].
      apply Nat.eqb_eq in Ek. subst k. contradiction. }
    assert (Em : m = eqn (fun k => nth k marks' false) p n).
    { unfold m, eqn. unfold F at 1. rewrite (Hout n Hn). f_equal. apply existsb_ext'. intros l _.
      destruct (memb (rdr l) p) eqn:Er.
      - apply memb_In in Er. rewrite (Fp _ Er). cbn [andb].
        destruct (orig (rdr l)) eqn:Eo; [|reflexivity]. cbn [orb]. apply Hmono. exact Eo.
      - rewrite andb_false_l, orb_false_r. apply Hout. intros H. apply memb_In in H. congruence. }
    constructor.
    - unfold marks'. rewrite setm_length. exact Hlen.
    - intros k Hk. rewrite F'. destruct (Nat.eqb k n) eqn:Ek.
      + apply Nat.eqb_eq in Ek. exfalso. apply Hk. left. auto.
      + apply Hout. intros H. apply Hk. right. exact H.
    - cbn [Hist]. split.
      + rewrite F', Nat.eqb_refl. exact Em.
      + apply (Hist_ext F); [|exact Hh]. intros k Hk. symmetry. apply Fp. exact Hk.
    - intros k Hk. rewrite F'. destruct (Nat.eqb k n) eqn:Ek; [|apply Hmono; exact Hk].
      apply Nat.eqb_eq in Ek. subst k. unfold m. unfold F at 1. rewrite (Hmono n Hk). reflexivity.
    - cbn [rev]. rewrite filter_app. cbn [filter]. rewrite F', Nat.eqb_refl.
      rewrite (filter_ext_in (fun k => nth k marks' false) F (rev p)).
      2:{ intros k Hk. apply Fp. apply in_rev. exact Hk. }
      rewrite <- Hacc. destruct m; cbn [rev]; [reflexivity|rewrite app_nil_r; reflexivity].
  Qed.

  Lemma finv_fold : forall rest p marks acc, FInv p marks acc -> NoDup (rev p ++ rest) ->
    (forall n, In n rest -> n < NN) ->
    FInv (rev rest ++ p) (fst (fold_left (fanin_step c) rest (marks, acc))) (snd (fold_left (fanin_step c) rest (marks, acc))).
  Proof.
    induction rest as [|n rest IH]; intros p marks acc Hi Hnd Hlt; [exact Hi|].
    cbn [fold_left rev]. rewrite <- app_assoc. cbn [app].
    assert (Hn : ~ In n p).
    { apply NoDup_remove_2 in Hnd. intros H. apply Hnd. apply in_or_app. left. apply in_rev in H. exact H. }
    pose proof (finv_step p marks acc n Hi Hn (Hlt n (or_introl eq_refl))) as Hs.
    destruct (fanin_step c (marks, acc) n) as [marks1 acc1] eqn:Es. cbn [fst snd] in Hs.
    apply IH; [exact Hs| |intros k Hk; apply Hlt; right; exact Hk].
    cbn [rev]. rewrite <- app_assoc. exact Hnd.
  Qed.

  Lemma rtopo_nodup : NoDup R /\ forall n, In n R -> n < NN.
  Proof.
    rewrite rtopo_is_mirror. destruct (topo_nodup (rev_netlist c) (rev_wf c WF)) as [H1 H2].
    split; [exact H1|]. intros n Hn. rewrite <- rev_nodes_length. apply H2. exact Hn.
  Qed.

  (** the final marks *)
  Definition fmark (k : nat) : bool :=
    nth k (fst (fold_left (fanin_step c) R (fanin_marks0 c origins, []))) false.

  Lemma final_inv : FInv (rev R) (fst (fold_left (fanin_step c) R (fanin_marks0 c origins, [])))
                              (snd (fold_left (fanin_step c) R (fanin_marks0 c origins, []))).
  Proof.
    destruct rtopo_nodup as [Hnd Hlt].
    pose proof (finv_fold R [] _ _ finv_init Hnd Hlt) as H. rewrite app_nil_r in H. exact H.
  Qed.

  Lemma fanin_filter : fanin c origins = filter fmark R.
  Proof. rewrite fanin_eq. rewrite (FI_acc _ _ _ final_inv), rev_involutive. reflexivity. Qed.

  Lemma in_fanin n : In n (fanin c origins) <-> In n R /\ fmark n = true.
  Proof. rewrite fanin_filter. apply filter_In. Qed.

  Lemma fmark_orig k : orig k = true -> fmark k = true.
  Proof. apply (FI_mono _ _ _ final_inv). Qed.

  Lemma fmark_eqn pre n rest : R = pre ++ n :: rest -> fmark n = eqn fmark (rev pre) n.
  Proof.
    intros E. pose proof (FI_hist _ _ _ final_inv) as H. fold fmark in H.
    rewrite E, rev_app_distr in H. cbn [rev] in H. rewrite <- app_assoc in H. apply Hist_app in H.
    cbn [app Hist] in H. apply H.
  Qed.

  (** F1 *)
  Lemma fanin_restricts : fanin c origins = filter (fun n => memb n (fanin c origins)) R.
  Proof. rewrite fanin_filter. apply filter_memb_self. apply rtopo_nodup. Qed.

  Lemma fanin_nodup_ : NoDup (fanin c origins).
  Proof. rewrite fanin_filter. apply NoDup_filter. apply rtopo_nodup. Qed.

  Lemma out_line n l : n < NN -> In l (outs n) -> l < nl /\ drv l = n /\ rdr l < NN.
  Proof.
    intros Hn Hl. apply (wf_in_outs c WF n l Hn) in Hl. destruct Hl as [Hl Hd].
    split; [exact Hl|]. split; [exact Hd|]. apply (wf_rdr_lt c WF l Hl).
  Qed.

  Lemma orig_in k : k < NN -> (orig k = true <-> In k origins).
  Proof.
    intros Hk. unfold orig. rewrite (proj2 (Nat.ltb_lt _ _) Hk). cbn [andb]. apply memb_In.
  Qed.

  (** F2 *)
  Lemma fanin_unfold_ n :
    In n (fanin c origins) <->
    In n R /\ (In n origins \/
               exists l, In l (outs n) /\
                 (In (rdr l) origins \/ (before R (rdr l) n /\ In (rdr l) (fanin c origins)))).
  Proof.
    destruct rtopo_nodup as [Hnd Hlt]. rewrite in_fanin. split.
    - intros [Hn Hm]. split; [exact Hn|]. pose proof (Hlt n Hn) as HnN.
      destruct (in_split _ _ Hn) as (pre & rest & E).
      rewrite (fmark_eqn pre n rest E) in Hm. unfold eqn in Hm. apply orb_true_iff in Hm.
      destruct Hm as [Hm|Hm]; [left; apply (orig_in n HnN); exact Hm|right].
      apply existsb_exists in Hm. destruct Hm as (l & Hl & Hm). exists l. split; [exact Hl|].
      destruct (out_line n l HnN Hl) as (_ & _ & Hr).
      apply orb_true_iff in Hm. destruct Hm as [Hm|Hm]; [left; apply (orig_in _ Hr); exact Hm|right].
      apply andb_true_iff in Hm. destruct Hm as [H1 H2]. apply memb_In in H1. apply in_rev in H1. split.
      + apply (before_split R pre n rest _ Hnd E). exact H1.
      + apply in_fanin. split; [rewrite E; apply in_or_app; left; exact H1|exact H2].
    - intros [Hn H]. split; [exact Hn|]. pose proof (Hlt n Hn) as HnN.
      destruct (in_split _ _ Hn) as (pre & rest & E).
      rewrite (fmark_eqn pre n rest E). unfold eqn. apply orb_true_iff.
      destruct H as [H|(l & Hl & H)]; [left; apply (orig_in n HnN); exact H|right].
      apply existsb_exists. exists l. split; [exact Hl|].
      destruct (out_line n l HnN Hl) as (_ & _ & Hr). apply orb_true_iff.
      destruct H as [H|[Hb Hf]]; [left; apply (orig_in _ Hr); exact H|right].
      apply andb_true_iff. split.
      + apply memb_In. apply in_rev. rewrite rev_involutive. apply (before_split R pre n rest _ Hnd E). exact Hb.
      + apply in_fanin in Hf. apply Hf.
  Qed.

  (** F3 *)
  Lemma hist_sound : forall p, Hist fmark p -> (forall k, In k p -> k < NN) ->
    forall n, In n p -> fmark n = true -> exists o, In o origins /\ reaches c n o.
  Proof.
    induction p as [|a p IH]; intros Hh Hlt n Hn Hm; [destruct Hn|].
    cbn [Hist] in Hh. destruct Hh as [Ha Hp].
    assert (Hlt' : forall k, In k p -> k < NN) by (intros k Hk; apply Hlt; right; exact Hk).
    destruct (in_dec Nat.eq_dec n p) as [Hin|Hnin]; [apply (IH Hp Hlt' n Hin Hm)|].
    destruct Hn as [<-|Hn]; [|contradiction].
    pose proof (Hlt a (or_introl eq_refl)) as HaN.
    rewrite Ha in Hm. unfold eqn in Hm. apply orb_true_iff in Hm. destruct Hm as [Hm|Hm].
    - exists a. split; [apply (orig_in a HaN); exact Hm|apply reaches_refl].
    - apply existsb_exists in Hm. destruct Hm as (l & Hl & Hm).
      destruct (out_line a l HaN Hl) as (Hll & Hd & Hr). apply orb_true_iff in Hm. destruct Hm as [Hm|Hm].
      + exists (rdr l). split; [apply (orig_in _ Hr); exact Hm|].
        rewrite <- Hd. apply (reaches_step c l _ Hll). apply reaches_refl.
      + apply andb_true_iff in Hm. destruct Hm as [H1 H2]. apply memb_In in H1.
        destruct (IH Hp Hlt' (rdr l) H1 H2) as (o & Ho & Hre). exists o. split; [exact Ho|].
        rewrite <- Hd. apply (reaches_step c l _ Hll Hre).
  Qed.

  Lemma fanin_sound_ n : In n (fanin c origins) -> exists o, In o origins /\ reaches c n o.
  Proof.
    intros H. apply in_fanin in H. destruct H as [Hn Hm]. destruct rtopo_nodup as [_ Hlt].
    apply (hist_sound (rev R)).
    - apply (FI_hist _ _ _ final_inv).
    - intros k Hk. apply Hlt. apply in_rev. exact Hk.
    - apply in_rev. rewrite rev_involutive. exact Hn.
    - exact Hm.
  Qed.

  (** at a node that is neither state element nor sink every reader is traversed earlier *)
  Lemma readers_before n l : In n R -> is_seq (get_node c n) = false -> In l (outs n) -> before R (rdr l) n.
  Proof.
    intros Hn Hs Hl. destruct (index_of_In _ _ Hn) as (i & Hi & _).
    destruct (rtopo_readers_first c WF n i Hi) with (r := rdr l) as (j & Hj & Hji).
    - rewrite Hs, orb_false_r. apply Nat.eqb_neq. rewrite connected_somes.
      destruct (outs n); [destruct Hl|discriminate].
    - unfold readers. apply (in_map (fun l0 => l_rdr (get_line c l0))). exact Hl.
    - exists j, i. auto.
  Qed.

  (** F6a *)
  Lemma fanin_comb_node_ n : In n R -> is_seq (get_node c n) = false ->
    (In n (fanin c origins) <-> In n origins \/ exists l, In l (outs n) /\ In (rdr l) (fanin c origins)).
  Proof.
    intros Hn Hs. destruct rtopo_nodup as [Hnd Hlt]. pose proof (Hlt n Hn) as HnN. rewrite fanin_unfold_. split.
    - intros [_ [H|(l & Hl & H)]]; [left; exact H|right]. exists l. split; [exact Hl|].
      destruct H as [H|[_ H]]; [|exact H].
      destruct (out_line n l HnN Hl) as (_ & _ & Hr).
      apply in_fanin. split; [|apply fmark_orig; apply (orig_in _ Hr); exact H].
      destruct (readers_before n l Hn Hs Hl) as (j & _ & Hj & _). eapply index_of_Some_In. exact Hj.
    - intros H. split; [exact Hn|]. destruct H as [H|(l & Hl & H)]; [left; exact H|right].
      exists l. split; [exact Hl|]. right. split; [apply (readers_before n l Hn Hs Hl)|exact H].
  Qed.

  Hypothesis ACR : comb_acyclic_rev c.

  Lemma in_rtopo n : n < NN -> In n R.
  Proof. intros Hn. apply (Permutation_in _ (Permutation_sym (rtopo_complete c WF ACR))). apply in_seq. lia. Qed.

  (** F4 *)
  Lemma fanin_complete_ n o : In o origins -> o < NN -> comb_reaches c n o -> In n (fanin c origins).
  Proof.
    intros Ho HoN H. induction H as [n|l o Hl Hs Hre IH].
    - apply in_fanin. split; [apply in_rtopo; exact HoN|]. apply fmark_orig. apply (orig_in n HoN). exact Ho.
    - pose proof (wf_drv_lt c WF l Hl) as Hd. pose proof (in_rtopo _ Hd) as HdR.
      apply (fanin_comb_node_ _ HdR Hs). right. exists l. split; [|apply IH; assumption].
      apply (wf_in_outs c WF _ l Hd). auto.
  Qed.
End Fanin.

(* ------------------------------------------------------------------------------------------------ *)
(** * State elements: the head of the reversed order is the list of sinks and state elements in index order *)

Lemma find_idx_sorted {A} (f : A -> bool) : forall l i pre n post,
  find_idx f l i = pre ++ n :: post -> (forall a, In a pre -> a < n) /\ i <= n.
Proof.
  induction l as [|x r IH]; intros i pre n post E; [destruct pre; discriminate|].
  cbn [find_idx] in E. destruct (f x).
  - destruct pre as [|p pre].
    + cbn [app] in E. injection E as <- _. split; [intros a []|lia].
    + cbn [app] in E. injection E as <- E. destruct (IH _ _ _ _ E) as [H1 H2]. split; [|lia].
      intros a [<-|Ha]; [lia|apply H1; exact Ha].
  - destruct (IH _ _ _ _ E) as [H1 H2]. split; [exact H1|lia].
Qed.

Lemma find_idx_sorted_post {A} (f : A -> bool) : forall l i pre n post,
  find_idx f l i = pre ++ n :: post -> forall a, In a post -> n < a.
Proof.
  intros l i pre n post E a Ha. apply in_split in Ha. destruct Ha as (p1 & p2 & ->).
  assert (E' : find_idx f l i = (pre ++ n :: p1) ++ a :: p2) by (rewrite <- app_assoc; exact E).
  destruct (find_idx_sorted f _ _ _ _ _ E') as [H _]. apply H. apply in_or_app. right. left. reflexivity.
Qed.

Definition rsource (c : netlist) (n : nat) : bool :=
  Nat.eqb (connected (n_outs (get_node c n))) 0 || is_seq (get_node c n).

Lemma in_rtopo_init c m : In m (rtopo_init c) <-> m < length (c_nodes c) /\ rsource c m = true.
Proof.
  unfold rtopo_init. rewrite (in_find_idx _ dnode). unfold rsource, get_node. split.
  - intros (j & -> & Hj & Hf). simpl. auto.
  - intros [Hm Hf]. exists m. auto.
Qed.

Lemma rtopo_sources_first c : wf_netlist c -> exists rest, rtopo_order c = rtopo_init c ++ rest.
Proof.
  intros WF. rewrite rtopo_is_mirror. destruct (topo_sources_first (rev_netlist c) (rev_wf c WF)) as [rest E].
  exists rest. rewrite E. f_equal. unfold rtopo_init, topo_init. simpl. rewrite find_idx_map. reflexivity.
Qed.

(** before a sink / state element n exactly the sinks / state elements with a smaller index are traversed *)
Lemma before_rsource c n a : wf_netlist c -> n < length (c_nodes c) -> rsource c n = true ->
  (before (rtopo_order c) a n <-> a < n /\ rsource c a = true).
Proof.
  intros WF Hn Hs. destruct (rtopo_sources_first c WF) as [rest E].
  destruct (rtopo_nodup c WF) as [Hnd Hlt].
  assert (Hin : In n (rtopo_init c)) by (apply in_rtopo_init; auto).
  destruct (in_split _ _ Hin) as (pre & post & Ei).
  assert (E2 : rtopo_order c = pre ++ n :: (post ++ rest)).
  { rewrite E, Ei, <- app_assoc. reflexivity. }
  rewrite (before_split _ pre n (post ++ rest) a Hnd E2).
  unfold rtopo_init in Ei. split.
  - intros Ha. split; [apply (proj1 (find_idx_sorted _ _ _ _ _ _ Ei)); exact Ha|].
    apply (in_rtopo_init c a). unfold rtopo_init. rewrite Ei. apply in_or_app. left. exact Ha.
  - intros [Hlt' Hsa]. assert (Ha : In a (rtopo_init c)) by (apply in_rtopo_init; split; [lia|exact Hsa]).
    unfold rtopo_init in Ha. rewrite Ei in Ha. apply in_app_or in Ha. destruct Ha as [Ha|[Ha|Ha]]; [exact Ha|lia|].
    pose proof (find_idx_sorted_post _ _ _ _ _ _ Ei a Ha). lia.
Qed.

(* ------------------------------------------------------------------------------------------------ *)
(** * Theorems *)

Theorem fanin_restricts_rtopo c origins : wf_netlist c ->
  fanin c origins = filter (fun n => memb n (fanin c origins)) (rtopo_order c).
Proof. intros WF. apply fanin_restricts. exact WF. Qed.

Theorem fanin_nodup c origins : wf_netlist c -> NoDup (fanin c origins).
Proof. intros WF. apply fanin_nodup_. exact WF. Qed.

Theorem fanin_unfold c origins : wf_netlist c -> forall n,
  In n (fanin c origins) <->
  In n (rtopo_order c) /\
  (In n origins \/
   exists l, In l (somes (n_outs (get_node c n))) /\
     (In (l_rdr (get_line c l)) origins \/
      (before (rtopo_order c) (l_rdr (get_line c l)) n /\ In (l_rdr (get_line c l)) (fanin c origins)))).
Proof. intros WF n. apply fanin_unfold_. exact WF. Qed.

Theorem fanin_sound c origins : wf_netlist c -> forall n,
  In n (fanin c origins) -> exists o, In o origins /\ reaches c n o.
Proof. intros WF n. apply fanin_sound_. exact WF. Qed.

Theorem fanin_complete_comb c origins : wf_netlist c -> comb_acyclic_rev c -> forall n o,
  In o origins -> o < length (c_nodes c) -> comb_reaches c n o -> In n (fanin c origins).
Proof. intros WF ACR n o. apply fanin_complete_; assumption. Qed.

Lemma reaches_comb c : (forall n, n < length (c_nodes c) -> is_seq (get_node c n) = false) -> wf_netlist c ->
  forall n o, reaches c n o -> comb_reaches c n o.
Proof.
  intros Hns WF n o H. induction H as [n|l o Hl Hre IH]; [apply comb_reaches_refl|].
  apply comb_reaches_step; [exact Hl|apply Hns; apply (wf_drv_lt c WF l Hl)|exact IH].
Qed.

Theorem fanin_exact_comb c origins : wf_netlist c -> comb_acyclic_rev c ->
  (forall n, n < length (c_nodes c) -> is_seq (get_node c n) = false) ->
  (forall o, In o origins -> o < length (c_nodes c)) ->
  forall n, In n (fanin c origins) <-> exists o, In o origins /\ reaches c n o.
Proof.
  intros WF ACR Hns Hor n. split; [apply fanin_sound; exact WF|].
  intros (o & Ho & Hre). apply (fanin_complete_comb c origins WF ACR n o Ho (Hor o Ho)).
  apply reaches_comb; assumption.
Qed.

Theorem fanin_comb_node c origins : wf_netlist c -> comb_acyclic_rev c -> forall n,
  n < length (c_nodes c) -> is_seq (get_node c n) = false ->
  (In n (fanin c origins) <->
   In n origins \/ exists l, In l (somes (n_outs (get_node c n))) /\ In (l_rdr (get_line c l)) (fanin c origins)).
Proof.
  intros WF ACR n Hn Hs. apply fanin_comb_node_; [exact WF|apply in_rtopo; assumption|exact Hs].
Qed.

Theorem fanin_seq_node c origins : wf_netlist c -> comb_acyclic_rev c -> forall n,
  n < length (c_nodes c) -> is_seq (get_node c n) = true ->
  (In n (fanin c origins) <->
   In n origins \/
   exists l, In l (somes (n_outs (get_node c n))) /\
     (In (l_rdr (get_line c l)) origins \/
      (l_rdr (get_line c l) < n /\ is_seq (get_node c (l_rdr (get_line c l))) = true /\
       In (l_rdr (get_line c l)) (fanin c origins)))).
Proof.
  intros WF ACR n Hn Hs. rewrite (fanin_unfold c origins WF).
  assert (Hrs : rsource c n = true) by (unfold rsource; rewrite Hs; apply orb_true_r).
  pose proof (in_rtopo c WF ACR n Hn) as HnR. split.
  - intros [_ [H|(l & Hl & H)]]; [left; exact H|right]. exists l. split; [exact Hl|].
    destruct H as [H|[Hb Hf]]; [left; exact H|].
    apply (before_rsource c n _ WF Hn Hrs) in Hb. destruct Hb as [Hlt Hra].
    destruct (is_seq (get_node c (l_rdr (get_line c l)))) eqn:Esr; [right; auto|left].
    (* a sink is yielded only as an origin *)
    unfold rsource in Hra. rewrite Esr, orb_false_r in Hra. apply Nat.eqb_eq in Hra.
    apply (proj1 (fanin_unfold c origins WF _)) in Hf. destruct Hf as [_ [Hf|(l2 & Hl2 & _)]]; [exact Hf|].
    rewrite connected_somes in Hra. destruct (somes (n_outs (get_node c (l_rdr (get_line c l))))); [destruct Hl2|discriminate].
  - intros H. split; [exact HnR|]. destruct H as [H|(l & Hl & H)]; [left; exact H|right].
    exists l. split; [exact Hl|]. destruct H as [H|(Hlt & Hsr & Hf)]; [left; exact H|right].
    split; [|exact Hf]. apply (before_rsource c n _ WF Hn Hrs). split; [exact Hlt|].
    unfold rsource. rewrite Hsr. apply orb_true_r.
Qed.

(** executable test of [comb_acyclic_rev]: Kahn's algorithm on the reversed graph reaches every node *)
Definition acyclic_rev_b (c : netlist) : bool := acyclic_b (rev_netlist c).
Theorem acyclic_rev_b_sound c : wf_netlist c -> acyclic_rev_b c = true -> comb_acyclic_rev c.
Proof.
  intros WF H. destruct (acyclic_b_sound (rev_netlist c) (rev_wf c WF) H) as [rank Hr].
  exists rank. intros l Hl Hs. specialize (Hr l). rewrite rev_lines_length in Hr. specialize (Hr Hl).
  rewrite get_line_rev, get_node_rev in Hr. simpl in Hr. apply Hr. exact Hs.
Qed.

(* ------------------------------------------------------------------------------------------------ *)
(** * Examples (the three experiments run on the real Circuit.fanin, see the report) *)
From Coq Require String.
Module FaninExample.
  Import String.
  Local Open Scope string_scope.
  (** i(0) -> g(3) -> FFa(1) -> FFb(2) -> o(4) *)
  Definition chain_ab : netlist :=
    {| c_nodes := [ {| n_kind := "input";  n_ins := [];       n_outs := [Some 0] |};
                    {| n_kind := "DFF";    n_ins := [Some 1]; n_outs := [Some 2] |};
                    {| n_kind := "DFF";    n_ins := [Some 2]; n_outs := [Some 3] |};
                    {| n_kind := "BUF";    n_ins := [Some 0]; n_outs := [Some 1] |};
                    {| n_kind := "output"; n_ins := [Some 3]; n_outs := [] |} ];
       c_lines := [ {| l_drv := 0; l_dpin := 0; l_rdr := 3; l_rpin := 0 |};
                    {| l_drv := 3; l_dpin := 0; l_rdr := 1; l_rpin := 0 |};
                    {| l_drv := 1; l_dpin := 0; l_rdr := 2; l_rpin := 0 |};
                    {| l_drv := 2; l_dpin := 0; l_rdr := 4; l_rpin := 0 |} ];
       c_io := [0; 4] |}.
  (** the same circuit with the two flip-flops created in the other order: i(0) -> g(3) -> FFa(2) -> FFb(1) -> o(4) *)
  Definition chain_ba : netlist :=
    {| c_nodes := [ {| n_kind := "input";  n_ins := [];       n_outs := [Some 0] |};
                    {| n_kind := "DFF";    n_ins := [Some 2]; n_outs := [Some 3] |};
                    {| n_kind := "DFF";    n_ins := [Some 1]; n_outs := [Some 2] |};
                    {| n_kind := "BUF";    n_ins := [Some 0]; n_outs := [Some 1] |};
                    {| n_kind := "output"; n_ins := [Some 3]; n_outs := [] |} ];
       c_lines := [ {| l_drv := 0; l_dpin := 0; l_rdr := 3; l_rpin := 0 |};
                    {| l_drv := 3; l_dpin := 0; l_rdr := 2; l_rpin := 0 |};
                    {| l_drv := 2; l_dpin := 0; l_rdr := 1; l_rpin := 0 |};
                    {| l_drv := 1; l_dpin := 0; l_rdr := 4; l_rpin := 0 |} ];
       c_io := [0; 4] |}.
  (** i(0) -> h(1) -> FF(2) -> g(3) -> o(4) *)
  Definition ff_gate : netlist :=
    {| c_nodes := [ {| n_kind := "input";  n_ins := [];       n_outs := [Some 0] |};
                    {| n_kind := "BUF";    n_ins := [Some 0]; n_outs := [Some 1] |};
                    {| n_kind := "DFF";    n_ins := [Some 1]; n_outs := [Some 2] |};
                    {| n_kind := "INV";    n_ins := [Some 2]; n_outs := [Some 3] |};
                    {| n_kind := "output"; n_ins := [Some 3]; n_outs := [] |} ];
       c_lines := [ {| l_drv := 0; l_dpin := 0; l_rdr := 1; l_rpin := 0 |};
                    {| l_drv := 1; l_dpin := 0; l_rdr := 2; l_rpin := 0 |};
                    {| l_drv := 2; l_dpin := 0; l_rdr := 3; l_rpin := 0 |};
                    {| l_drv := 3; l_dpin := 0; l_rdr := 4; l_rpin := 0 |} ];
       c_io := [0; 4] |}.

  Lemma chain_ab_wf : wf_netlist chain_ab. Proof. apply wf_netlist_b_sound. vm_compute. reflexivity. Qed.
  Lemma chain_ab_acr : comb_acyclic_rev chain_ab. Proof. apply (acyclic_rev_b_sound _ chain_ab_wf). vm_compute. reflexivity. Qed.
  Lemma chain_ba_wf : wf_netlist chain_ba. Proof. apply wf_netlist_b_sound. vm_compute. reflexivity. Qed.
  Lemma chain_ba_acr : comb_acyclic_rev chain_ba. Proof. apply (acyclic_rev_b_sound _ chain_ba_wf). vm_compute. reflexivity. Qed.
  Lemma ff_gate_wf : wf_netlist ff_gate. Proof. apply wf_netlist_b_sound. vm_compute. reflexivity. Qed.
  Lemma ff_gate_acr : comb_acyclic_rev ff_gate. Proof. apply (acyclic_rev_b_sound _ ff_gate_wf). vm_compute. reflexivity. Qed.

  (** what Circuit.fanin really yields (node indices; identical to the Python runs) *)
  Example runs :
    ((rtopo_order chain_ab, fanin chain_ab [4], fanin chain_ab [2]) = ([1; 2; 4; 3; 0], [2; 4], [1; 2; 3; 0])) /\
    ((rtopo_order chain_ba, fanin chain_ba [4]) = ([1; 2; 4; 3; 0], [1; 2; 4; 3; 0])) /\
    ((rtopo_order ff_gate, fanin ff_gate [4], fanin ff_gate [3]) = ([2; 4; 1; 3; 0], [4; 3], [2; 1; 3; 0])).
  Proof. vm_compute. auto. Qed.

  (** the theorems instantiated.  A flip-flop that feeds the origin directly is yielded, and so is the logic behind it *)
  Example ff_direct_yielded : In 2 (fanin chain_ab [4]) /\ In 0 (fanin chain_ab [2]).
  Proof.
    split.
    - apply (fanin_seq_node chain_ab [4] chain_ab_wf chain_ab_acr 2); [simpl; lia|reflexivity|].
      right. exists 3. split; [simpl; auto|]. left. simpl. auto.
    - (* i -> g -> FFa -> FFb: i reaches the origin FFb through the gate and the flip-flop FFa, which is yielded because
         it feeds the origin directly; from FFa backwards the path is combinational *)
      apply (fanin_comb_node chain_ab [2] chain_ab_wf chain_ab_acr 0); [simpl; lia|reflexivity|].
      right. exists 0. split; [simpl; auto|]. change (l_rdr (get_line chain_ab 0)) with 3.
      apply (fanin_comb_node chain_ab [2] chain_ab_wf chain_ab_acr 3); [simpl; lia|reflexivity|].
      right. exists 1. split; [simpl; auto|]. change (l_rdr (get_line chain_ab 1)) with 1.
      apply (fanin_seq_node chain_ab [2] chain_ab_wf chain_ab_acr 1); [simpl; lia|reflexivity|].
      right. exists 2. split; [simpl; auto|]. left. simpl. auto.
  Qed.

  (** a flip-flop that reaches the origin only through another flip-flop with a LARGER index is not yielded ... *)
  Example ff_behind_larger_not_yielded : ~ In 1 (fanin chain_ab [4]).
  Proof.
    intros H. apply (fanin_seq_node chain_ab [4] chain_ab_wf chain_ab_acr 1) in H; [|simpl; lia|reflexivity].
    destruct H as [[H|[]]|(l & Hl & H)]; [discriminate|]. simpl in Hl. destruct Hl as [<-|[]].
    change (l_rdr (get_line chain_ab 2)) with 2 in H. destruct H as [[H|[]]|(H & _)]; [discriminate|lia].
  Qed.
  (** ... but is yielded when it happens to have the larger index *)
  Example ff_behind_smaller_yielded : In 2 (fanin chain_ba [4]).
  Proof.
    apply (fanin_seq_node chain_ba [4] chain_ba_wf chain_ba_acr 2); [simpl; lia|reflexivity|].
    right. exists 2. split; [simpl; auto|]. right. change (l_rdr (get_line chain_ba 2)) with 1.
    split; [lia|]. split; [reflexivity|].
    apply (fanin_seq_node chain_ba [4] chain_ba_wf chain_ba_acr 1); [simpl; lia|reflexivity|].
    right. exists 3. split; [simpl; auto|]. left. simpl. auto.
  Qed.
  (** a flip-flop that feeds the origin through a gate is not yielded although a path exists (the sandwich is strict) *)
  Example ff_through_gate_not_yielded : ~ In 2 (fanin ff_gate [4]) /\ reaches ff_gate 2 4.
  Proof.
    split.
    - intros H. apply (fanin_seq_node ff_gate [4] ff_gate_wf ff_gate_acr 2) in H; [|simpl; lia|reflexivity].
      destruct H as [[H|[]]|(l & Hl & H)]; [discriminate|]. simpl in Hl. destruct Hl as [<-|[]].
      change (l_rdr (get_line ff_gate 2)) with 3 in H. destruct H as [[H|[]]|(H & _)]; [discriminate|lia].
    - apply (reaches_step ff_gate 2 4); [simpl; lia|]. apply (reaches_step ff_gate 3 4); [simpl; lia|]. apply reaches_refl.
  Qed.

  Example sandwich_chain_ab n : In n (fanin chain_ab [4]) -> exists o, In o [4] /\ reaches chain_ab n o.
  Proof. apply (fanin_sound chain_ab [4] chain_ab_wf). Qed.
End FaninExample.

Print Assumptions fanin_restricts_rtopo.
Print Assumptions fanin_unfold.
Print Assumptions fanin_sound.
Print Assumptions fanin_complete_comb.
Print Assumptions fanin_exact_comb.
Print Assumptions fanin_seq_node.
Print Assumptions acyclic_rev_b_sound.
