(** Running kernel instances on the whole simulator state (one lane per simulation, Model/WaveDrvPrelude.v [run_insts]):
    an instance touches its own lane only, so the final column of lane l is the lane's own instances applied in their order to
    its initial column -- for ANY instance sequence; and for lane l the thread sequence of a launch (Model/Launch.v [threads] =
    the translated MockCuda launcher) and the CPU loop nest enumerate the same positions in the same order. *)
From Coq Require Import List Arith Bool Lia.
From KV Require Import Model.WaveSrcPrelude Model.WaveDrvPrelude Model.Launch.
From KV Require Proofs.LaunchProofs.
Import ListNotations.
Local Open Scope list_scope.

Definition ys_of (l : nat) (ts : list (nat * nat)) : list nat := map snd (filter (fun p => Nat.eqb (fst p) l) ts).

Lemma upd_nth_length {A} (st : list A) x v : List.length (upd_nth st x v) = List.length st.
Proof. revert x. induction st as [|a st IH]; intros [|x]; cbn; auto. Qed.

Lemma nth_error_upd_nth {A} (st : list A) x v l :
  nth_error (upd_nth st x v) l = if Nat.eqb x l then (match nth_error st l with Some _ => Some v | None => None end) else nth_error st l.
Proof.
  revert x l. induction st as [|a st IH]; intros [|x] [|l]; cbn [upd_nth nth_error Nat.eqb]; try reflexivity.
  - destruct (Nat.eqb x l); reflexivity.
  - apply IH.
Qed.

Lemma run_insts_length {A} (f : nat -> nat -> A -> A) ts : forall st, List.length (run_insts f ts st) = List.length st.
Proof.
  induction ts as [|[x y] ts IH]; intros st; [reflexivity|]. unfold run_insts in *. cbn [fold_left fst snd].
  rewrite IH. destruct (nth_error st x); [apply upd_nth_length|reflexivity].
Qed.

(** lane l after ANY instance sequence: its own instances, in order, applied to its own initial column *)
Theorem run_insts_lane {A} (f : nat -> nat -> A -> A) ts : forall st l,
  nth_error (run_insts f ts st) l = option_map (fun a => fold_left (fun a' y => f l y a') (ys_of l ts) a) (nth_error st l).
Proof.
  induction ts as [|[x y] ts IH]; intros st l.
  - cbn. destruct (nth_error st l); reflexivity.
  - unfold run_insts in *. cbn [fold_left fst snd]. rewrite IH. unfold ys_of. cbn [filter fst].
    destruct (nth_error st x) as [a|] eqn:Ex.
    + rewrite nth_error_upd_nth. destruct (Nat.eqb_spec x l) as [->|Hne].
      * rewrite Ex. cbn [option_map map snd fold_left]. reflexivity.
      * reflexivity.
    + destruct (Nat.eqb_spec x l) as [->|Hne]; [|reflexivity]. rewrite Ex. reflexivity.
Qed.

(** ... hence two states that agree on lane l still agree on lane l afterwards, whatever the other lanes hold *)
Theorem run_insts_lane_local {A} (f : nat -> nat -> A -> A) ts st1 st2 l :
  nth_error st1 l = nth_error st2 l -> nth_error (run_insts f ts st1) l = nth_error (run_insts f ts st2) l.
Proof. intros H. rewrite !run_insts_lane, H. reflexivity. Qed.

Lemma nth_error_ext_eq {A} (l1 l2 : list A) : (forall n, nth_error l1 n = nth_error l2 n) -> l1 = l2.
Proof.
  revert l2. induction l1 as [|a l1 IH]; intros [|b l2] H; try reflexivity.
  - specialize (H 0). discriminate.
  - specialize (H 0). discriminate.
  - pose proof (H 0) as H0. cbn in H0. inversion H0. f_equal. apply IH. intros n. apply (H (S n)).
Qed.

(** two instance sequences with the same per-lane subsequences give the same state *)
Theorem run_insts_same_lanes {A} (f : nat -> nat -> A -> A) ts1 ts2 st :
  (forall l, l < List.length st -> ys_of l ts1 = ys_of l ts2) -> run_insts f ts1 st = run_insts f ts2 st.
Proof.
  intros H. apply nth_error_ext_eq. intros l. rewrite !run_insts_lane.
  destruct (nth_error st l) eqn:E; [|reflexivity]. rewrite H; [reflexivity|]. apply nth_error_Some. congruence.
Qed.

(* ------------------------------------------------------------------ *)
(** * the per-lane order of the CPU loop nest and of a launch *)

Lemma ys_of_app l a b : ys_of l (a ++ b) = ys_of l a ++ ys_of l b.
Proof. unfold ys_of. rewrite filter_app, map_app. reflexivity. Qed.

Lemma ys_of_flat_map {A} l (g : A -> list (nat * nat)) xs : ys_of l (flat_map g xs) = flat_map (fun a => ys_of l (g a)) xs.
Proof. induction xs as [|a xs IH]; [reflexivity|]. cbn [flat_map]. rewrite ys_of_app, IH. reflexivity. Qed.

Lemma ys_of_row l (fx : nat) (gy : nat -> nat) bs :
  ys_of l (map (fun b => (fx, gy b)) bs) = if Nat.eqb fx l then map gy bs else [].
Proof.
  unfold ys_of. induction bs as [|b bs IH]; cbn [map filter fst]; [destruct (Nat.eqb fx l); reflexivity|].
  destruct (Nat.eqb fx l); cbn [map snd] in *; [rewrite IH; reflexivity|exact IH].
Qed.

Lemma flat_map_nil {A B} (xs : list A) : flat_map (fun _ => @nil B) xs = [].
Proof. induction xs; auto. Qed.

(** exactly one element of a range hits *)
Lemma flat_map_hit {B} (blk : list B) l k a n :
  flat_map (fun i => if Nat.eqb (k + i) l then blk else []) (seq a n) = if Nat.leb (k + a) l && Nat.ltb l (k + a + n) then blk else [].
Proof.
  revert a. induction n as [|n IH]; intros a.
  - cbn [seq flat_map]. destruct (Nat.leb_spec (k + a) l); destruct (Nat.ltb_spec l (k + a + 0)); cbn [andb]; try reflexivity; lia.
  - cbn [seq flat_map]. rewrite IH. destruct (Nat.eqb_spec (k + a) l) as [E|Hne].
    + destruct (Nat.leb_spec (k + S a) l); [lia|]. cbn [andb]. rewrite app_nil_r.
      destruct (Nat.leb_spec (k + a) l); [|lia]. destruct (Nat.ltb_spec l (k + a + S n)); [reflexivity|lia].
    + cbn [app]. destruct (Nat.leb_spec (k + S a) l); destruct (Nat.leb_spec (k + a) l); destruct (Nat.ltb_spec l (k + S a + n));
        destruct (Nat.ltb_spec l (k + a + S n)); cbn [andb]; try reflexivity; lia.
Qed.

(** CPU loop nest  for y in ys: for l in range(X)  -- lane l sees ys *)
Theorem ys_of_cpu_order l ys X : l < X -> ys_of l (cpu_order ys X) = ys.
Proof.
  intros Hl. unfold cpu_order. rewrite ys_of_flat_map.
  induction ys as [|y ys IH]; [reflexivity|]. cbn [flat_map]. rewrite IH. 
  assert (E : ys_of l (map (fun l0 => (l0, y)) (seq 0 X)) = [y]).
  { unfold ys_of. assert (G : forall a n, map snd (filter (fun p : nat * nat => Nat.eqb (fst p) l) (map (fun l0 => (l0, y)) (seq a n)))
                                    = if Nat.leb a l && Nat.ltb l (a + n) then [y] else []).
    { intros a n. revert a. induction n as [|n IHn]; intros a.
      - cbn [seq map filter]. destruct (Nat.leb_spec a l); destruct (Nat.ltb_spec l (a + 0)); cbn [andb]; try reflexivity; lia.
      - cbn [seq map filter fst]. destruct (Nat.eqb_spec a l) as [->|Hne]; cbn [map snd]; rewrite IHn.
        + destruct (Nat.leb_spec (S l) l); [lia|]. cbn [andb]. destruct (Nat.leb_spec l l); [|lia].
          destruct (Nat.ltb_spec l (l + S n)); [reflexivity|lia].
        + destruct (Nat.leb_spec (S a) l); destruct (Nat.leb_spec a l); destruct (Nat.ltb_spec l (S a + n));
            destruct (Nat.ltb_spec l (a + S n)); cbn; try reflexivity; lia. }
    rewrite G. destruct (Nat.leb_spec 0 l); [|lia]. destruct (Nat.ltb_spec l (0 + X)); [reflexivity|lia]. }
  rewrite E. reflexivity.
Qed.

Lemma map_add_seq k a b : map (fun t => k + t) (seq a b) = seq (k + a) b.
Proof. revert a. induction b as [|b IH]; intros a; [reflexivity|]. cbn [seq map]. rewrite IH. f_equal. f_equal. lia. Qed.

Lemma seq_blocks g b : flat_map (fun gy => map (fun t => gy * b + t) (seq 0 b)) (seq 0 g) = seq 0 (g * b).
Proof.
  induction g as [|g IH]; [reflexivity|].
  rewrite seq_S, flat_map_app, IH. cbn [flat_map]. rewrite app_nil_r. cbn [Nat.add].
  replace (S g * b) with (g * b + b) by lia. rewrite seq_app. f_equal.
  rewrite map_add_seq. f_equal. lia.
Qed.

(** lane l of the raw launch sees the positions 0 .. gy*by-1 in order (if it is launched at all) *)
Theorem ys_of_launch l gx gy bx by_ : 0 < bx ->
  ys_of l (launch gx gy bx by_) = if Nat.ltb l (gx * bx) then seq 0 (gy * by_) else [].
Proof.
  intros Hbx. unfold launch. rewrite ys_of_flat_map.
  assert (Inner : forall g_x, (fun g_x => ys_of l (flat_map (fun g_y => flat_map (fun b_x =>
              map (fun b_y => (g_x * bx + b_x, g_y * by_ + b_y)) (seq 0 by_)) (seq 0 bx)) (seq 0 gy))) g_x
            = if Nat.leb (g_x * bx) l && Nat.ltb l (g_x * bx + bx) then seq 0 (gy * by_) else []).
  { intros g_x. cbv beta. rewrite ys_of_flat_map.
    rewrite (flat_map_ext _ (fun g_y => if Nat.leb (g_x * bx) l && Nat.ltb l (g_x * bx + bx)
                                        then map (fun t => g_y * by_ + t) (seq 0 by_) else [])).
    - destruct (Nat.leb (g_x * bx) l && Nat.ltb l (g_x * bx + bx)); [apply seq_blocks|apply flat_map_nil].
    - intros g_y. rewrite ys_of_flat_map.
      rewrite (flat_map_ext _ (fun b_x => if Nat.eqb (g_x * bx + b_x) l then map (fun t => g_y * by_ + t) (seq 0 by_) else [])).
      + rewrite (flat_map_hit (map (fun t => g_y * by_ + t) (seq 0 by_)) l (g_x * bx) 0 bx). rewrite !Nat.add_0_r. reflexivity.
      + intros b_x. apply (ys_of_row l (g_x * bx + b_x) (fun b_y => g_y * by_ + b_y)). }
  rewrite (flat_map_ext _ _ Inner). clear Inner.
  induction gx as [|gx IH]; [reflexivity|].
  rewrite seq_S, flat_map_app, IH. cbn [flat_map Nat.add]. rewrite app_nil_r.
  destruct (Nat.ltb_spec l (gx * bx)); destruct (Nat.leb_spec (gx * bx) l); destruct (Nat.ltb_spec l (gx * bx + bx));
    destruct (Nat.ltb_spec l (S gx * bx)); cbn [andb app]; try rewrite app_nil_r; try reflexivity; lia.
Qed.

Lemma filter_ltb_seq n m : n <= m -> filter (fun y => Nat.ltb y n) (seq 0 m) = seq 0 n.
Proof.
  intros H. replace m with (n + (m - n)) by lia. rewrite seq_app, filter_app.
  assert (A : forall a k, a + k <= n -> filter (fun y => Nat.ltb y n) (seq a k) = seq a k).
  { intros a k. revert a. induction k as [|k IH]; intros a Hk; [reflexivity|]. cbn [seq filter].
    destruct (Nat.ltb_spec a n); [|lia]. rewrite IH by lia. reflexivity. }
  assert (B : forall a k, n <= a -> filter (fun y => Nat.ltb y n) (seq a k) = []).
  { intros a k. revert a. induction k as [|k IH]; intros a Hk; [reflexivity|]. cbn [seq filter].
    destruct (Nat.ltb_spec a n); [lia|]. apply IH. lia. }
  rewrite A by lia. rewrite B by lia. apply app_nil_r.
Qed.

Lemma le_cdiv_mul Y b : 0 < b -> Y <= cdiv Y b * b.
Proof.
  intros Hb. unfold cdiv. pose proof (Nat.div_mod (Y + b - 1) b ltac:(lia)) as D.
  pose proof (Nat.mod_upper_bound (Y + b - 1) b ltac:(lia)). nia.
Qed.

(** lane l < X of a kernel launch over X x Y (out-of-range threads return at once) sees the positions 0 .. Y-1 in order *)
Theorem ys_of_threads l X Y bx by_ : 0 < bx -> 0 < by_ -> l < X -> ys_of l (threads X Y bx by_) = seq 0 Y.
Proof.
  intros Hbx Hby Hl. unfold threads.
  assert (F : forall ts, ys_of l (filter (fun p => Nat.ltb (fst p) X && Nat.ltb (snd p) Y) ts) = filter (fun y => Nat.ltb y Y) (ys_of l ts)).
  { unfold ys_of. induction ts as [|[x y] ts IH]; [reflexivity|]. cbn [filter fst snd].
    destruct (Nat.eqb_spec x l) as [->|Hne].
    - destruct (Nat.ltb_spec l X); [|lia]. cbn [andb map snd filter]. destruct (Nat.ltb y Y); cbn [filter fst map snd].
      + rewrite Nat.eqb_refl. cbn [map snd]. rewrite IH. reflexivity.
      + exact IH.
    - destruct (Nat.ltb x X && Nat.ltb y Y); cbn [filter fst]; [destruct (Nat.eqb_spec x l); [contradiction|]|]; exact IH. }
  rewrite F, ys_of_launch by exact Hbx.
  pose proof (le_cdiv_mul X bx Hbx). pose proof (le_cdiv_mul Y by_ Hby).
  destruct (Nat.ltb_spec l (cdiv X bx * bx)); [|lia]. apply filter_ltb_seq. lia.
Qed.

(** composition: a launch over X x Y and the CPU loop nest `for y in range(Y): for l in range(X)` give the same state, for
    every instance function and every state of at most X lanes (lanes >= X are not touched by either) *)
Theorem launch_is_cpu_loop {A} (f : nat -> nat -> A -> A) X Y bx by_ st : 0 < bx -> 0 < by_ -> List.length st <= X ->
  run_insts f (threads X Y bx by_) st = run_insts f (cpu_order (seq 0 Y) X) st.
Proof.
  intros Hbx Hby Hlen. apply run_insts_same_lanes. intros l Hl.
  rewrite ys_of_threads, ys_of_cpu_order by lia. reflexivity.
Qed.

(* ------------------------------------------------------------------ *)
(** * store sequences: stores to pairwise different places may be executed in any order *)
From Coq Require Import Permutation.
Section Writes.
  Context {S W K : Type} (act : W -> S -> S) (key : W -> K).
  Hypothesis comm : forall w1 w2 s, key w1 <> key w2 -> act w1 (act w2 s) = act w2 (act w1 s).
  Definition apply_writes (ws : list W) (s : S) : S := fold_left (fun s w => act w s) ws s.

  Lemma apply_writes_app a b s : apply_writes (a ++ b) s = apply_writes b (apply_writes a s).
  Proof. apply fold_left_app. Qed.

  Lemma apply_writes_perm ws1 ws2 : Permutation ws1 ws2 -> NoDup (map key ws1) -> forall s, apply_writes ws1 s = apply_writes ws2 s.
  Proof.
    induction 1 as [|x l l' HP IH|x y l|l l' l'' HP1 IH1 HP2 IH2]; intros Hnd s.
    - reflexivity.
    - cbn [map] in Hnd. inversion Hnd. cbn. apply IH. assumption.
    - cbn [map] in Hnd. inversion Hnd as [|? ? Hn1 Hn2]. cbn. unfold apply_writes. f_equal. apply comm.
      intros E. apply Hn1. rewrite E. left. reflexivity.
    - rewrite IH1 by exact Hnd. apply IH2. apply (Permutation_NoDup (Permutation_map key HP1) Hnd).
  Qed.
End Writes.

Lemma three_pass_perm {A B} (f0 f1 f2 : A -> B) ys :
  Permutation (map f0 ys ++ map f1 ys ++ map f2 ys) (flat_map (fun y => [f0 y; f1 y; f2 y]) ys).
Proof.
  induction ys as [|y ys IH]; [constructor|].
  cbn [map flat_map app]. apply perm_skip.
  etransitivity; [apply Permutation_sym, Permutation_middle|]. apply perm_skip.
  rewrite app_assoc. etransitivity; [apply Permutation_sym, Permutation_middle|]. apply perm_skip.
  rewrite <- app_assoc. exact IH.
Qed.

(** instances that do nothing (a kernel's range guards) may be dropped from the sequence *)
Theorem run_insts_filter {A} (f : nat -> nat -> A -> A) (P : nat * nat -> bool) ts :
  (forall p a, P p = false -> f (fst p) (snd p) a = a) -> forall st, run_insts f ts st = run_insts f (filter P ts) st.
Proof.
  intros H. induction ts as [|p ts IH]; intros st; [reflexivity|]. cbn [filter]. destruct (P p) eqn:E.
  - unfold run_insts in *. cbn [fold_left]. apply IH.
  - unfold run_insts in *. cbn [fold_left]. rewrite <- IH. f_equal.
    destruct (nth_error st (fst p)) as [a|] eqn:Ea; [|reflexivity]. rewrite H by exact E.
    apply nth_error_ext_eq. intros n. rewrite nth_error_upd_nth. destruct (Nat.eqb_spec (fst p) n) as [<-|]; [rewrite Ea|]; reflexivity.
Qed.
