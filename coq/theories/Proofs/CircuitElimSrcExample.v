(** Corollary (the translated eliminate_1to1_forks keeps the graph invariant) and a concrete instance for the source tie of
    eliminate_1to1_forks: nodes [a, f, s, g, z, r]; a -> f -> g.0, s -> g.1, g -> z -> r.  a and z are PORT forks (z has one
    driver and one reader: only `if n in ios: continue` protects it), f is an internal 1:1 fork (removed), s is a fork with one
    reader and no driver (kept: the guard added for D38). *)
From Coq Require Import List Arith Bool String ZArith Lia.
From KV Require Import Model.Circuit Model.CircuitInv Model.CircuitPrimsSrcLib Model.CircuitElimSrcLib
  Gen.CircuitPrimsSrc Gen.CircuitElimSrc Proofs.CircuitCeq Proofs.CircuitPrimsSrcProofs Proofs.CircuitElimSrcProofs
  Proofs.CircuitProofs Proofs.CircuitElim Proofs.CircuitBool Proofs.CircuitHistory.
Import ListNotations.
Local Open Scope list_scope.

Theorem eliminate_source_inv : forall c, CInv c -> elim_ok_b c = true ->
  exists c', Circuit_eliminate_1to1_forks_src c = Some c' /\ CInv c' /\ (IoLive c -> IoLive c') /\
             exists m, eliminate_1to1 c = Some m /\ ceq c' m.
Proof.
  intros c Hc Hok. destruct (eliminate_inv c Hc Hok) as (m & Hm & Hcm & Hio).
  pose proof (eliminate_source_is_model c) as H. rewrite Hm in H.
  destruct (Circuit_eliminate_1to1_forks_src c) as [c'|]; simpl in H; [|contradiction].
  exists c'. split; [reflexivity|]. split; [exact (CInv_ceq m c' (ceq_sym _ _ H) Hcm)|].
  split; [intros Hl; exact (IoLive_ceq m c' (ceq_sym _ _ H) (Hio Hl))|].
  exists m. split; [exact Hm | exact H].
Qed.

Definition ex_history : list op :=
  [AddNode "a" FORK; AddNode "f" FORK; AddNode "s" FORK; AddNode "g" "AND2"; AddNode "z" FORK; AddNode "r" "BUF1";
   AddLine 0 None 1 None; AddLine 1 None 3 (Some 0); AddLine 2 None 3 (Some 1); AddLine 3 None 4 None; AddLine 4 None 5 None;
   SetIO 0 0; SetIO 1 4].
Definition ex_c : circ := match run_hist ex_history with Some c => c | None => empty end.
Definition summary (c : circ) :=
  (map (name_of c) (nodes c), map (fun l => (l_drv (lst c l), l_dpin (lst c l), l_rdr (lst c l), l_rpin (lst c l))) (lines c),
   map fst (forks c), io c).

Theorem eliminate_source_example :
  run_hist ex_history = Some ex_c /\ CInv ex_c /\ elim_ok_b ex_c = true /\
  (* z: a port fork with one driver and one reader; f: internal 1:1 fork; s: one reader, no driver *)
  in_ios ex_c 4 = true /\ List.length (outs_of ex_c 4) = 1 /\ ins_of ex_c 4 = [Some 3] /\
  in_ios ex_c 1 = false /\ List.length (outs_of ex_c 1) = 1 /\ ins_of ex_c 1 = [Some 0] /\
  in_ios ex_c 2 = false /\ List.length (outs_of ex_c 2) = 1 /\ ins_of ex_c 2 = [] /\
  option_map summary (Circuit_eliminate_1to1_forks_src ex_c) = option_map summary (eliminate_1to1 ex_c) /\
  option_map summary (Circuit_eliminate_1to1_forks_src ex_c) =
    Some (["a"; "r"; "s"; "g"; "z"]%string,
          [(Some 0, 0, Some 3, 0); (Some 4, 0, Some 5, 0); (Some 2, 0, Some 3, 1); (Some 3, 0, Some 4, 0)],
          ["a"; "s"; "z"]%string, [Some 0; Some 4]) /\
  (exists c', Circuit_eliminate_1to1_forks_src ex_c = Some c' /\ CInv c').
Proof.
  assert (Hc : CInv ex_c) by (apply cinv_b_sound; vm_compute; reflexivity).
  assert (Hok : elim_ok_b ex_c = true) by (vm_compute; reflexivity).
  split. { vm_compute. reflexivity. }
  split; [exact Hc|]. split; [exact Hok|].
  do 9 (split; [vm_compute; reflexivity|]).
  split. { vm_compute. reflexivity. }
  split. { vm_compute. reflexivity. }
  destruct (eliminate_source_inv ex_c Hc Hok) as (c' & E & Hc' & _). exists c'. split; assumption.
Qed.
