(** Non-vacuity of the full source tie of the logic simulator's drivers: the exR instance (fork, reconvergence, flip-flop; c_reuse and
    strip_forks on), a concrete simulator state as LogicSim.__init__ leaves it plus an assignment, two cycles of the source-level model
    (pinned s_to_c / c_to_s / s_ppo_to_ppi / cycle around the TRANSLATED _prop_cpu loop) evaluated, and the theorem's conclusion. *)
From Coq Require Import List ZArith NArith Bool Arith Lia String.
From KV Require Import Model.Prims Model.Netlist Model.NetlistWf Model.NetlistSem Model.CycleSem Model.SimOps Model.SimOpsCert Model.LogicSimModel
     Model.LogicSimDrvPrelude Gen.LogicSimDriversSrc Proofs.ReuseProofs Proofs.LogicSimGlue Proofs.LogicSimDriversProofs Proofs.LogicSimDriversFull.
Import ListNotations.
Local Open Scope list_scope.
Import ReuseExample GlueExample.

Definition exL : lsim :=
  mk_lsim (repeat [false] 9) [[true; false; true]; [true; true; false]; [false; true; true]]
          [[false; false; false]; [false; true; false]; [false; false; true]].

Example drivers_full_example : exists so,
  build exR (repeat 1%N (List.length (c_lines exR) + 3)) 1%N true true = Some so /\ lsim_init so exL /\
  let n_io := List.length (c_io exR) in
  let L' := cycle_src 2 (stc_of so n_io) (cts_of so n_io) (p2p_of so n_io) (prop_of so) exL in
  p0 (ls_s0 exL) = [true; true; false] /\ p0 (ls_s0 L') = [true; true; true] /\ p0 (ls_s1 L') = [false; true; true] /\
  sim_case2 exR true true 2 (p0 (ls_s0 exL)) (p0 (ls_s1 exL)) = Some (p0 (ls_s0 L'), p0 (ls_s1 L')) /\
  iter_sem sem_lut false exR 2 (p0 (ls_s0 exL)) (p0 (ls_s1 exL)) (p0 (ls_s0 L')) (p0 (ls_s1 L')).
Proof.
  destruct (build exR (repeat 1%N (List.length (c_lines exR) + 3)) 1%N true true) as [so|] eqn:Hb; [|vm_compute in Hb; discriminate Hb].
  exists so. split; [reflexivity|]. destruct exR_hyps as (WF & AC & GK & FO).
  assert (HI : lsim_init so exL).
  { vm_compute in Hb. injection Hb as <-. unfold lsim_init. repeat split; try reflexivity; repeat constructor. }
  split; [exact HI|]. cbv zeta.
  destruct (sim_case2_is_source exR true true so 2 exL WF AC GK (fun _ => FO) Hb HI) as (E & _ & I). cbv zeta in E, I.
  split; [reflexivity|]. split; [|split; [|split; [exact E|exact I]]].
  - vm_compute in Hb. injection Hb as <-. vm_compute. reflexivity.
  - vm_compute in Hb. injection Hb as <-. vm_compute. reflexivity.
Qed.
