(** The three scheduler theorems of Proofs/SemProofs.v / Proofs/SemCompose.v for op-dependent gate semantics
    (Model/NetlistSemGen.v), reusing their structural core ([core], [core_t], the alias lemmas):
    G1 [gexec_solution]        executing [build_ops c false] yields a [gsolution] with forks as BUF1 gates;
    G2 [gexec_strip_solution]  executing [build_ops c true] through the stem alias yields a [gsolution] with forks as wires
                               (no condition on the value domain at all);
    G3 [gsolution_mixed_unique] a forks-as-wires solution and a forks-as-gates solution agree on every line, provided
                               that IN THE SECOND ONE every fork gate reproduces its input;
    G  [gstrip_forks_irrelevant] the combination. *)
From Coq Require Import List NArith ZArith Bool Arith Lia String Permutation.
From KV Require Import Model.Prims Model.Netlist Model.NetlistWf Model.Heap Model.SimOps Model.AllocCheck Model.NetlistSem
     Model.NetlistSemGen Gen.SimTables Proofs.TopoProofs Proofs.AllocProofs Proofs.SemProofs Proofs.SemCompose.
Import List.
Import ListNotations.
Local Open Scope list_scope.

Lemma mksop_mkop l o a b cc d : mksop l o a b cc d = mkop l o a b cc d.
Proof. reflexivity. Qed.

Section GExecLemmas.
  Context {V : Type} (gsem : sop -> V -> V -> V -> V -> V) (al : nat -> nat).
  Notation ex := (gexec gsem al).

  Lemma gexec_cons o r (e : nat -> V) : ex (o :: r) e = ex r (gstep gsem al e o).
  Proof. reflexivity. Qed.

  Lemma gexec_app l1 l2 (e : nat -> V) : ex (l1 ++ l2) e = ex l2 (ex l1 e).
  Proof. unfold gexec. apply fold_left_app. Qed.

  Lemma gexec_notin : forall ops (e : nat -> V) k, ~ In k (map s_out ops) -> ex ops e k = e k.
  Proof.
    induction ops as [|o r IH]; intros e k H; [reflexivity|].
    rewrite gexec_cons, IH.
    - unfold gstep. destruct (Nat.eqb k (s_out o)) eqn:E; [|reflexivity].
      apply Nat.eqb_eq in E. exfalso. apply H. left. auto.
    - intros Hin. apply H. right. exact Hin.
  Qed.

  Lemma gexec_final pre o post (e : nat -> V) :
    ~ In (s_out o) (map s_out post) ->
    (forall x, In x [s_i0 o; s_i1 o; s_i2 o; s_i3 o] -> al x <> s_out o /\ ~ In (al x) (map s_out post)) ->
    ex (pre ++ o :: post) e (s_out o) =
    gsem o (ex (pre ++ o :: post) e (al (s_i0 o))) (ex (pre ++ o :: post) e (al (s_i1 o)))
           (ex (pre ++ o :: post) e (al (s_i2 o))) (ex (pre ++ o :: post) e (al (s_i3 o))).
  Proof.
    intros Ho Hr. rewrite (gexec_app pre (o :: post) e).
    set (e1 := ex pre e). rewrite gexec_cons.
    assert (R : forall x, In x [s_i0 o; s_i1 o; s_i2 o; s_i3 o] ->
              ex post (gstep gsem al e1 o) (al x) = e1 (al x)).
    { intros x Hx. destruct (Hr x Hx) as [N1 N2]. rewrite gexec_notin by exact N2.
      unfold gstep. apply Nat.eqb_neq in N1. rewrite N1. reflexivity. }
    rewrite (R (s_i0 o)), (R (s_i1 o)), (R (s_i2 o)), (R (s_i3 o)) by (cbn [In]; tauto).
    rewrite gexec_notin by exact Ho. unfold gstep. rewrite Nat.eqb_refl. reflexivity.
  Qed.
End GExecLemmas.

(** with an opcode-only semantics the generalised execution IS [iexec] *)
Lemma gexec_iexec {V} (sem : N -> V -> V -> V -> V -> V) al ops : forall (e : nat -> V) k,
  gexec (fun o => sem (s_lut o)) al ops e k = iexec sem al ops e k.
Proof.
  induction ops as [|o r IH]; intros e k; [reflexivity|].
  rewrite gexec_cons. unfold iexec. cbn [fold_left]. fold (iexec sem al r (istep sem al e o)). rewrite <- IH.
  reflexivity.
Qed.

(* ------------------------------------------------------------------------------------------------ *)
(** * G1: the unstripped schedule *)

Section GSol.
  Context {V : Type} (gsem : sop -> V -> V -> V -> V -> V) (zero : V).
  Variable c : netlist.
  Variable stim : nat -> V.
  Hypothesis WF : wf_netlist c.
  Hypothesis AC : comb_acyclic c.
  Notation nl := (length (c_lines c)).
  Notation NN := (length (c_nodes c)).
  Let v := gexec gsem (fun x => x) (build_ops c false) (init_env zero c stim).

  Lemma gv_unwritten k : nl <= k -> k <> nl + 1 -> v k = init_env zero c stim k.
  Proof.
    intros H1 H2. unfold v. apply gexec_notin. intros Hin. apply in_map_iff in Hin.
    destruct Hin as (o & E & Ho). destruct (all_outs c WF o Ho); lia.
  Qed.

  Lemma gv_zero : v nl = zero.
  Proof.
    rewrite gv_unwritten by lia. unfold init_env.
    destruct (Nat.leb (nl + 3) nl) eqn:E; [apply Nat.leb_le in E; lia|reflexivity].
  Qed.

  Lemma gv_ppi p : v (nl + 3 + p) = stim p.
  Proof.
    rewrite gv_unwritten by lia. unfold init_env.
    destruct (Nat.leb (nl + 3) (nl + 3 + p)) eqn:E; [|apply Nat.leb_gt in E; lia].
    f_equal. lia.
  Qed.

  Lemma gv_pin l k : v (pin_or l k nl) = pinv zero v l k.
  Proof. unfold pin_or, pinv. destruct (pin l k); [reflexivity|apply gv_zero]. Qed.

  Lemma gop_final o : In o (build_ops c false) -> s_out o <> nl + 1 ->
    v (s_out o) = gsem o (v (s_i0 o)) (v (s_i1 o)) (v (s_i2 o)) (v (s_i3 o)).
  Proof.
    intros Ho Hs. apply in_split in Ho. destruct Ho as (pre & post & E).
    destruct (core c WF pre o post E) as [[H1|H1] H2]; [contradiction|].
    unfold v. rewrite E. apply (gexec_final gsem (fun x => x)); [exact H1|].
    intros x Hx. destruct (H2 x Hx) as (_ & A & B). auto.
  Qed.

  Lemma gnode_ok_exec n : n < NN -> gnode_ok gsem zero c stim false v n.
  Proof.
    intros Hn. unfold gnode_ok. cbv zeta. pose proof (fops_eq c n) as Ef.
    set (nd := get_node c n) in *.
    assert (Fin : forall o, In o (fops c n) -> s_out o < nl ->
              v (s_out o) = gsem o (v (s_i0 o)) (v (s_i1 o)) (v (s_i2 o)) (v (s_i3 o))).
    { intros o Ho Hl. apply gop_final; [apply (in_build c WF AC n o Hn Ho)|lia]. }
    destruct (iface_pos c n) as [p|] eqn:Ei.
    - assert (G : forall l o, In (mkop l o (nl + 3 + p) nl nl nl) (fops c n) -> o < nl ->
                v o = gsem (mksop l o (nl + 3 + p) nl nl nl) (stim p) zero zero zero).
      { intros l o Ho Hl. pose proof (Fin _ Ho Hl) as F. cbn [mkop s_out s_lut s_i0 s_i1 s_i2 s_i3] in F.
        rewrite gv_ppi, gv_zero in F. exact F. }
      split.
      + intros o Ho. apply G; [|apply (out_lt c WF n 0 o Hn Ho)].
        rewrite Ef. unfold iface_ops. cbv zeta. fold nd in Ho. rewrite Ho.
        apply in_or_app. left. left. reflexivity.
      + destruct (is_dff nd) eqn:Ed.
        * intros o Ho. apply G; [|apply (out_lt c WF n 1 o Hn Ho)].
          rewrite Ef. unfold iface_ops. cbv zeta. rewrite Ed. fold nd in Ho. rewrite Ho.
          apply in_or_app. right. left. reflexivity.
        * intros k o Hk Ho. apply G; [|apply (out_lt c WF n k o Hn Ho)].
          rewrite Ef. unfold iface_ops. cbv zeta. rewrite Ed.
          apply in_or_app. right.
          apply (in_map (fun o0 => mkop (lutv "BUF1") o0 (nl + 3 + p) nl nl nl)).
          destruct k as [|k]; [lia|]. fold nd in Ho. destruct (n_outs nd) as [|a t].
          -- unfold pin in Ho. destruct k; discriminate.
          -- rewrite pin_S in Ho. cbn [tl]. eapply pin_somes. exact Ho.
    - assert (G : forall l o, In (mkop l o (pin_or (n_ins nd) 0 nl) (pin_or (n_ins nd) 1 nl)
                                       (pin_or (n_ins nd) 2 nl) (pin_or (n_ins nd) 3 nl)) (fops c n) -> o < nl ->
                v o = gsem (mksop l o (pin_or (n_ins nd) 0 nl) (pin_or (n_ins nd) 1 nl)
                                      (pin_or (n_ins nd) 2 nl) (pin_or (n_ins nd) 3 nl))
                           (pinv zero v (n_ins nd) 0) (pinv zero v (n_ins nd) 1)
                           (pinv zero v (n_ins nd) 2) (pinv zero v (n_ins nd) 3)).
      { intros l o Ho Hl. pose proof (Fin _ Ho Hl) as F. cbn [mkop s_out s_lut s_i0 s_i1 s_i2 s_i3] in F.
        rewrite !gv_pin in F. exact F. }
      destruct (is_fork nd) eqn:Ek.
      + intros k o Ho. apply G; [|apply (out_lt c WF n k o Hn Ho)].
        rewrite Ef. unfold gate_ops. cbv zeta. rewrite Ek.
        apply (in_map (fun o0 => mkop (lutv "BUF1") o0 _ _ _ _)). eapply pin_somes. exact Ho.
      + pose proof (unconn_eqb c WF n 2 Hn) as U2. pose proof (unconn_eqb c WF n 3 Hn) as U3. fold nd in U2, U3.
        destruct (select_lut kind_prefixes (n_kind nd) (negb (is_some (pin (n_ins nd) 2)))
                             (negb (is_some (pin (n_ins nd) 3)))) as [sp|] eqn:Es; [|exact I].
        intros o Ho. apply G; [|apply (out_lt c WF n 0 o Hn Ho)].
        rewrite Ef. unfold gate_ops. cbv zeta. rewrite Ek, U2, U3, Es.
        fold nd in Ho. assert (Eo : pin_or (n_outs nd) 0 (nl + 1) = o) by (unfold pin_or; rewrite Ho; reflexivity).
        rewrite Eo. left. reflexivity.
  Qed.
End GSol.

Theorem gexec_solution {V} (gsem : sop -> V -> V -> V -> V -> V) (zero : V) c stim :
  wf_netlist c -> comb_acyclic c ->
  gsolution gsem zero c stim false (gexec gsem (fun x => x) (build_ops c false) (init_env zero c stim)).
Proof. intros WF AC n Hn. apply gnode_ok_exec; assumption. Qed.

(* ------------------------------------------------------------------------------------------------ *)
(** * G2: the stripped schedule, read through the stem alias *)

Section GStripSol.
  Context {V : Type} (gsem : sop -> V -> V -> V -> V -> V) (zero : V).
  Variable c : netlist.
  Variable stim : nat -> V.
  Variable len : nat.
  Variable stems : list Z.
  Hypothesis WF : wf_netlist c.
  Hypothesis AC : comb_acyclic c.
  Hypothesis Hlen : length (c_lines c) <= len.
  Hypothesis Hst : build_stems c true len = Some stems.
  Notation nl := (length (c_lines c)).
  Notation NN := (length (c_nodes c)).
  Notation drv l := (l_drv (get_line c l)).
  Notation al := (stemmed stems).
  Notation fk n := (String.eqb (n_kind (get_node c n)) "__fork__").
  Hypothesis Hkind : forall n, n < NN -> iface_pos c n = None -> is_fork (get_node c n) = true ->
    n_kind (get_node c n) = "__fork__"%string.

  Let E := gexec gsem al (build_ops c true) (init_env zero c stim).
  Let v := fun l => E (al l).

  Lemma gE_unwritten k : (forall o, In o (build_ops c true) -> s_out o <> k) -> E k = init_env zero c stim k.
  Proof.
    intros H. unfold E. apply gexec_notin. intros Hin. apply in_map_iff in Hin.
    destruct Hin as (o & Eo & Ho). apply (H o Ho Eo).
  Qed.

  Lemma gouts_t o : In o (build_ops c true) -> s_out o < nl \/ s_out o = nl + 1.
  Proof.
    intros H. destruct (in_build_t_inv c WF o H) as (m & Hm & Ho & _).
    destruct (fops_out c WF m o Hm Ho) as [[H1 _]|H1]; auto.
  Qed.

  Lemma gE_zero : E nl = zero.
  Proof.
    rewrite gE_unwritten by (intros o Ho; destruct (gouts_t o Ho); lia). unfold init_env.
    destruct (Nat.leb (nl + 3) nl) eqn:Eq; [apply Nat.leb_le in Eq; lia|reflexivity].
  Qed.

  Lemma gE_ppi p : E (nl + 3 + p) = stim p.
  Proof.
    rewrite gE_unwritten by (intros o Ho; destruct (gouts_t o Ho); lia). unfold init_env.
    destruct (Nat.leb (nl + 3) (nl + 3 + p)) eqn:Eq; [|apply Nat.leb_gt in Eq; lia]. f_equal. lia.
  Qed.

  Lemma gE_stripped n ol : n < NN -> iface_pos c n = None -> is_fork (get_node c n) = true ->
    In ol (somes (n_outs (get_node c n))) -> E ol = zero.
  Proof.
    intros Hn Hi Hf Hol. apply (wf_in_outs c WF n ol Hn) in Hol. destruct Hol as [Hl Hd].
    rewrite gE_unwritten.
    - unfold init_env. destruct (Nat.leb (nl + 3) ol) eqn:Eq; [apply Nat.leb_le in Eq; lia|reflexivity].
    - intros o Ho Eo. destruct (in_build_t_inv c WF o Ho) as (m & Hm & Hom & Hns).
      destruct (fops_out c WF m o Hm Hom) as [[_ H2]|H2]; [|lia].
      rewrite Eo, Hd in H2. subst m. apply Hns. auto.
  Qed.

  Lemma gop_final_t o : In o (build_ops c true) -> s_out o <> nl + 1 ->
    E (s_out o) = gsem o (E (al (s_i0 o))) (E (al (s_i1 o))) (E (al (s_i2 o))) (E (al (s_i3 o))).
  Proof.
    intros Ho Hs. apply in_split in Ho. destruct Ho as (pre & post & Eq).
    destruct (core_t c WF AC len stems Hlen Hst pre o post Eq) as [[H1|H1] H2]; [contradiction|].
    unfold E. rewrite Eq. apply gexec_final; [exact H1|].
    intros x Hx. destruct (H2 x Hx) as (_ & A & B). auto.
  Qed.

  Lemma gE_pin l k : E (al (pin_or l k nl)) = pinv zero v l k.
  Proof.
    unfold pin_or, pinv. destruct (pin l k); [reflexivity|].
    rewrite (alias_ge c WF len stems Hlen Hst) by lia. apply gE_zero.
  Qed.

  Lemma gnode_ok_strip n : n < NN -> gnode_ok gsem zero c stim true v n.
  Proof.
    intros Hn. unfold gnode_ok. cbv zeta. pose proof (fops_t_eq c n) as Et. pose proof (fops_eq c n) as Ef.
    set (nd := get_node c n) in *.
    assert (Hout : forall k o, pin (n_outs nd) k = Some o -> o < nl /\ drv o = n).
    { intros k o Ho. apply pin_somes in Ho. apply (wf_in_outs c WF n o Hn). exact Ho. }
    assert (Fin : forall o, In o (fops_t c n) -> s_out o < nl -> al (s_out o) = s_out o ->
              v (s_out o) = gsem o (E (al (s_i0 o))) (E (al (s_i1 o))) (E (al (s_i2 o))) (E (al (s_i3 o)))).
    { intros o Ho Hl Ha. unfold v. rewrite Ha. apply gop_final_t; [apply (in_build_t c len WF AC Hlen n o Hn Ho)|lia]. }
    destruct (iface_pos c n) as [p|] eqn:Ei.
    - assert (Hplain : forall k o, pin (n_outs nd) k = Some o -> al o = o).
      { intros k o Ho. destruct (Hout k o Ho) as [Hl Hd]. apply (alias_plain c WF len stems Hlen Hst).
        intros (_ & H1 & H2). rewrite Hd in H1, H2. unfold iface_pos in Ei. fold nd in H1, H2.
        assert (Pw : port_wire (get_node c n) = true).
        { unfold port_wire. fold nd. rewrite H1. destruct (pin (n_ins nd) 0); [reflexivity|congruence]. }
        rewrite Pw in Ei. discriminate. }
      assert (G : forall l k o, pin (n_outs nd) k = Some o -> In (mkop l o (nl + 3 + p) nl nl nl) (fops c n) ->
                v o = gsem (mksop l o (nl + 3 + p) nl nl nl) (stim p) zero zero zero).
      { intros l k o Hk Ho. rewrite <- Et in Ho.
        pose proof (Fin _ Ho) as F. cbn [mkop s_out s_lut s_i0 s_i1 s_i2 s_i3] in F.
        rewrite F; [|apply (Hout k o Hk)|apply (Hplain k o Hk)].
        rewrite !(alias_ge c WF len stems Hlen Hst) by lia. rewrite gE_ppi, gE_zero. reflexivity. }
      split.
      + intros o Ho. apply (G _ 0 o Ho).
        rewrite Ef. unfold iface_ops. cbv zeta. rewrite Ho. apply in_or_app. left. left. reflexivity.
      + destruct (is_dff nd) eqn:Ed.
        * intros o Ho. apply (G _ 1 o Ho).
          rewrite Ef. unfold iface_ops. cbv zeta. rewrite Ed, Ho. apply in_or_app. right. left. reflexivity.
        * intros k o Hk Ho. apply (G _ k o Ho).
          rewrite Ef. unfold iface_ops. cbv zeta. rewrite Ed. apply in_or_app. right.
          apply (in_map (fun o0 => mkop (lutv "BUF1") o0 (nl + 3 + p) nl nl nl)).
          destruct k as [|k]; [lia|]. destruct (n_outs nd) as [|a t].
          -- unfold pin in Ho. destruct k; discriminate.
          -- rewrite pin_S in Ho. cbn [tl]. eapply pin_somes. exact Ho.
    - destruct (is_fork nd) eqn:Ek.
      + intros k o Ho.
        destruct (Hout k o Ho) as [Hl Hd]. pose proof (Hkind n Hn Ei Ek) as Hk. fold nd in Hk.
        assert (Hfk : fk (drv o) = true) by (rewrite Hd; fold nd; rewrite Hk; reflexivity).
        unfold pinv. destruct (pin (n_ins nd) 0) as [l0|] eqn:Ep.
        * unfold v. f_equal. apply (alias_fork c WF len stems Hlen Hst o l0 Hl Hfk). rewrite Hd. exact Ep.
        * unfold v. rewrite (alias_plain c WF len stems Hlen Hst).
          -- apply (gE_stripped n o Hn Ei Ek). eapply pin_somes. exact Ho.
          -- intros (_ & _ & H). rewrite Hd in H. fold nd in H. congruence.
      + pose proof (unconn_eqb c WF n 2 Hn) as U2. pose proof (unconn_eqb c WF n 3 Hn) as U3. fold nd in U2, U3.
        destruct (select_lut kind_prefixes (n_kind nd) (negb (is_some (pin (n_ins nd) 2)))
                             (negb (is_some (pin (n_ins nd) 3)))) as [sp|] eqn:Es; [|exact I].
        intros o Ho. destruct (Hout 0 o Ho) as [Hl Hd].
        assert (Hin : In (mkop sp o (pin_or (n_ins nd) 0 nl) (pin_or (n_ins nd) 1 nl)
                               (pin_or (n_ins nd) 2 nl) (pin_or (n_ins nd) 3 nl)) (fops_t c n)).
        { rewrite Et, Ef. unfold gate_ops. cbv zeta. rewrite Ek, U2, U3, Es.
          assert (Eo : pin_or (n_outs nd) 0 (nl + 1) = o) by (unfold pin_or; rewrite Ho; reflexivity).
          rewrite Eo. left. reflexivity. }
        pose proof (Fin _ Hin) as F. cbn [mkop s_out s_lut s_i0 s_i1 s_i2 s_i3] in F.
        rewrite F; [rewrite !gE_pin; reflexivity|exact Hl|].
        apply (alias_plain c WF len stems Hlen Hst). intros (_ & H & _). rewrite Hd in H. fold nd in H.
        apply lower_fork_kind in H. congruence.
  Qed.
End GStripSol.

Theorem gexec_strip_solution {V} (gsem : sop -> V -> V -> V -> V -> V) (zero : V) c stim len stems :
  wf_netlist c -> comb_acyclic c -> length (c_lines c) <= len -> build_stems c true len = Some stems ->
  (forall n, n < length (c_nodes c) -> iface_pos c n = None -> is_fork (get_node c n) = true ->
     n_kind (get_node c n) = "__fork__"%string) ->
  gsolution gsem zero c stim true
    (fun l => gexec gsem (stemmed stems) (build_ops c true) (init_env zero c stim) (stemmed stems l)).
Proof.
  intros WF AC Hlen Hst Hkind n Hn.
  apply (gnode_ok_strip gsem zero c stim len stems WF AC Hlen Hst Hkind n Hn).
Qed.

(* ------------------------------------------------------------------------------------------------ *)
(** * G3: a forks-as-wires solution equals a forks-as-gates solution in which the fork gates copy *)

Theorem gsolution_mixed_unique {V} (gsem : sop -> V -> V -> V -> V -> V) (zero : V) c stim v1 v2 :
  wf_netlist c -> comb_acyclic c ->
  (forall n, n < length (c_nodes c) -> iface_pos c n = None -> is_fork (get_node c n) = false ->
     select_lut kind_prefixes (n_kind (get_node c n)) (negb (is_some (pin (n_ins (get_node c n)) 2)))
                (negb (is_some (pin (n_ins (get_node c n)) 3))) <> None) ->
  (forall n, n < length (c_nodes c) -> is_dff (get_node c n) = true -> forall k o, 2 <= k -> pin (n_outs (get_node c n)) k = Some o -> False) ->
  (forall n, n < length (c_nodes c) -> iface_pos c n = None -> is_fork (get_node c n) = false ->
     forall k o, 1 <= k -> pin (n_outs (get_node c n)) k = Some o -> False) ->
  gsolution gsem zero c stim true v1 -> gsolution gsem zero c stim false v2 ->
  (* in the forks-as-gates valuation every fork output equals the fork's input *)
  (forall n k o, n < length (c_nodes c) -> iface_pos c n = None -> is_fork (get_node c n) = true ->
     pin (n_outs (get_node c n)) k = Some o -> v2 o = pinv zero v2 (n_ins (get_node c n)) 0) ->
  forall l, l < length (c_lines c) -> v1 l = v2 l.
Proof.
  intros WF [rank Hr] Hsel Hdff Hgate1 S1 S2 Hcopy.
  assert (H : forall k l, l < length (c_lines c) -> rank (l_drv (get_line c l)) < k -> v1 l = v2 l).
  { induction k as [|k IH]; intros l Hl Hk; [lia|].
    pose proof (wf_drv_lt c WF l Hl) as Hd.
    assert (Hp : pin (n_outs (get_node c (l_drv (get_line c l)))) (l_dpin (get_line c l)) = Some l).
    { apply pin_nth. destruct WF as (W1 & _). pose proof (W1 l Hl) as W. cbv zeta in W. tauto. }
    set (d := l_drv (get_line c l)) in *. set (dp := l_dpin (get_line c l)) in *.
    pose proof (S1 d Hd) as N1. pose proof (S2 d Hd) as N2. unfold gnode_ok in N1, N2. cbv zeta in N1, N2.
    destruct (iface_pos c d) as [p|] eqn:Ei.
    - destruct N1 as [A1 B1], N2 as [A2 B2]. destruct dp as [|dp].
      + rewrite (A1 l Hp), (A2 l Hp). reflexivity.
      + destruct (is_dff (get_node c d)) eqn:Ed.
        * destruct dp as [|dp].
          -- rewrite (B1 l Hp), (B2 l Hp). reflexivity.
          -- exfalso. apply (Hdff d Hd Ed (S (S dp)) l); [lia|exact Hp].
        * rewrite (B1 (S dp) l), (B2 (S dp) l) by (try lia; exact Hp). reflexivity.
    - assert (Pv : forall j, pinv zero v1 (n_ins (get_node c d)) j = pinv zero v2 (n_ins (get_node c d)) j).
      { intros j. unfold pinv. destruct (pin (n_ins (get_node c d)) j) as [x|] eqn:Ex; [|reflexivity].
        apply pin_somes in Ex. apply (wf_in_ins c WF d x Hd) in Ex. destruct Ex as [Hx Er].
        apply IH; [exact Hx|]. pose proof (Hr x Hx) as R. rewrite Er in R.
        specialize (R (iface_none_not_seq c d Hd Ei)). lia. }
      destruct (is_fork (get_node c d)) eqn:Ek.
      + rewrite (N1 dp l Hp), (Hcopy d dp l Hd Ei Ek Hp). apply Pv.
      + pose proof (Hsel d Hd Ei Ek) as Hs.
        destruct (select_lut kind_prefixes (n_kind (get_node c d)) _ _) as [sp|]; [|congruence].
        destruct dp as [|dp].
        * rewrite (N1 l Hp), (N2 l Hp), !Pv. reflexivity.
        * exfalso. apply (Hgate1 d Hd Ei Ek (S dp) l); [lia|exact Hp]. }
  intros l Hl. apply (H (S (rank (l_drv (get_line c l)))) l Hl). lia.
Qed.

(* ------------------------------------------------------------------------------------------------ *)
(** * G: fork stripping is irrelevant wherever the UNSTRIPPED run's fork gates act as copies *)

Theorem gstrip_forks_irrelevant {V} (gsem : sop -> V -> V -> V -> V -> V) (zero : V) c stim len stems :
  wf_netlist c -> comb_acyclic c -> length (c_lines c) <= len -> build_stems c true len = Some stems ->
  (forall n, n < length (c_nodes c) -> iface_pos c n = None -> is_fork (get_node c n) = true ->
     n_kind (get_node c n) = "__fork__"%string) ->
  (forall n, n < length (c_nodes c) -> iface_pos c n = None -> is_fork (get_node c n) = false ->
     select_lut kind_prefixes (n_kind (get_node c n)) (negb (is_some (pin (n_ins (get_node c n)) 2)))
                (negb (is_some (pin (n_ins (get_node c n)) 3))) <> None) ->
  (forall n, n < length (c_nodes c) -> is_dff (get_node c n) = true -> forall k o, 2 <= k -> pin (n_outs (get_node c n)) k = Some o -> False) ->
  (forall n, n < length (c_nodes c) -> iface_pos c n = None -> is_fork (get_node c n) = false ->
     forall k o, 1 <= k -> pin (n_outs (get_node c n)) k = Some o -> False) ->
  let vu := gexec gsem (fun x => x) (build_ops c false) (init_env zero c stim) in
  (forall n k o, n < length (c_nodes c) -> iface_pos c n = None -> is_fork (get_node c n) = true ->
     pin (n_outs (get_node c n)) k = Some o -> vu o = pinv zero vu (n_ins (get_node c n)) 0) ->
  forall l, l < length (c_lines c) ->
    gexec gsem (stemmed stems) (build_ops c true) (init_env zero c stim) (stemmed stems l) = vu l.
Proof.
  intros WF AC Hlen Hst Hk Hsel Hdff Hg1 vu Hcopy l Hl.
  apply (gsolution_mixed_unique gsem zero c stim
           (fun l0 => gexec gsem (stemmed stems) (build_ops c true) (init_env zero c stim) (stemmed stems l0))
           vu WF AC Hsel Hdff Hg1).
  - apply (gexec_strip_solution gsem zero c stim len stems); assumption.
  - apply gexec_solution; assumption.
  - exact Hcopy.
  - exact Hl.
Qed.

Print Assumptions gstrip_forks_irrelevant.
