(** The range side conditions of the source-tie theorems (Proofs/SimOpsSrcLevels.v) follow from wf_netlist: for every well-formed
    netlist, every op of build_ops and the stem table of build_stems keep all array accesses of the level pass in range. *)
From Coq Require Import List NArith ZArith Bool Arith String Lia.
From KV Require Import Model.Prims Model.Netlist Model.NetlistWf Model.SimOps Model.SimOpsSrcLib
  Gen.SimOpsSrc Proofs.SemProofs Proofs.SemCompose Proofs.StripSchedule Proofs.TopoProofs Proofs.SimOpsSrcProofs Proofs.SimOpsSrcLevels.
Import ListNotations.
Local Open Scope list_scope.

Section Domain.
  Variable c : netlist.
  Hypothesis WF : wf_netlist c.
  Let nl := List.length (c_lines c).
  Let NN := List.length (c_nodes c).

  Lemma out_bound strip o : In o (build_ops c strip) -> s_out o < nl \/ s_out o = nl + 1.
  Proof.
    intros Ho. destruct strip.
    - destruct (in_build_t_inv c WF o Ho) as (m & Hm & Hom & _). destruct (fops_out c WF m o Hm Hom) as [[H _]|H]; auto.
    - rewrite build_ops_eq in Ho. apply in_flat_map in Ho. destruct Ho as (m & Hm & Hom).
      destruct (topo_nodup c WF) as [_ Hlt]. destruct (fops_out c WF m o (Hlt m Hm) Hom) as [[H _]|H]; auto.
  Qed.

  Lemma pin_in_lt n k l : n < NN -> pin (n_ins (get_node c n)) k = Some l -> l < nl.
  Proof.
    intros Hn. rewrite pin_nth. destruct (nth_error (n_ins (get_node c n)) k) as [[x|]|] eqn:E; intros H; try discriminate.
    inversion H; subst x. destruct WF as (_ & _ & W3). destruct (W3 n k l Hn E) as [Hl _]. exact Hl.
  Qed.

  Lemma stem_walk_lt : forall fuel l s, l < nl -> stem_walk fuel c l = Some s -> s < nl.
  Proof.
    induction fuel as [|fuel IH]; intros l s Hl; cbn [stem_walk]; [discriminate|].
    destruct WF as (W1 & _ & _). destruct (W1 l Hl) as (Hd & _).
    destruct (String.eqb (n_kind (get_node c (l_drv (get_line c l)))) "__fork__").
    - destruct (pin (n_ins (get_node c (l_drv (get_line c l)))) 0) as [l'|] eqn:E.
      + apply IH. eapply pin_in_lt; eauto.
      + intros H. inversion H; subst. exact Hl.
    - intros H. inversion H; subst. exact Hl.
  Qed.

  Definition stems_bounded (st : list Z) : Prop := forall i, (nth i st (-1) < Z.of_nat nl)%Z.

  Lemma setZ_bounded st : forall i v, stems_bounded st -> (v < Z.of_nat nl)%Z -> stems_bounded (setZ st i v).
  Proof.
    unfold stems_bounded. induction st as [|x r IH]; intros i v Hb Hv j.
    - destruct i; exact (Hb j).
    - destruct i as [|i]; destruct j as [|j]; cbn [setZ nth].
      + exact Hv.
      + exact (Hb (S j)).
      + exact (Hb 0).
      + apply IH; [intros k; exact (Hb (S k)) | exact Hv].
  Qed.

  Lemma build_stems_bounded strip len stems : build_stems c strip len = Some stems -> stems_bounded stems.
  Proof.
    unfold build_stems. destruct (negb strip).
    - intros H. inversion H; subst. intros i. destruct (Nat.lt_ge_cases i len) as [Hi|Hi].
      + rewrite nth_repeat. lia.
      + rewrite nth_overflow by (rewrite repeat_length; exact Hi). lia.
    - assert (G : forall l acc, (forall f, In f l -> In f (c_nodes c)) ->
                 (forall st, acc = Some st -> stems_bounded st) ->
                 forall st', fold_left (fun acc f => match acc with None => None | Some st =>
                     if String.eqb (n_kind f) "__fork__" then
                       match pin (n_ins f) 0 with
                       | None => Some st
                       | Some l0 => match stem_walk (S (List.length (c_nodes c))) c l0 with
                                    | None => None
                                    | Some stem => Some (fold_left (fun s ol => setZ s ol (Z.of_nat stem)) (somes (n_outs f)) st)
                                    end
                       end else Some st end) l acc = Some st' -> stems_bounded st').
      { induction l as [|f r IH]; intros acc Hin Hacc st'; cbn [fold_left]; [apply Hacc|].
        apply IH; [intros g Hg; apply Hin; now right|].
        intros st1. destruct acc as [st|]; [|discriminate]. specialize (Hacc st eq_refl).
        destruct (String.eqb (n_kind f) "__fork__"); [|intros H; inversion H; subst; exact Hacc].
        destruct (pin (n_ins f) 0) as [l0|] eqn:E; [|intros H; inversion H; subst; exact Hacc].
        destruct (stem_walk (S (List.length (c_nodes c))) c l0) as [stem|] eqn:Es; [|discriminate].
        intros H. inversion H; subst st1. clear H.
        assert (Hf : In f (c_nodes c)) by (apply Hin; now left).
        apply In_nth with (d := dnode) in Hf. destruct Hf as (k & Hk & Hf).
        assert (Hl0 : l0 < nl) by (apply (pin_in_lt k 0); [exact Hk | unfold get_node; rewrite Hf; exact E]).
        assert (Hs : stem < nl) by (eapply stem_walk_lt; eauto).
        generalize st Hacc. induction (somes (n_outs f)) as [|o ro IHo]; intros st0 Hb0; cbn [fold_left]; [exact Hb0|].
        apply IHo. apply setZ_bounded; [exact Hb0 | lia]. }
      intros H. eapply G; [| |exact H]; [auto|].
      intros st Hst. inversion Hst; subst. intros i. destruct (Nat.lt_ge_cases i len) as [Hi|Hi].
      + rewrite nth_repeat. lia.
      + rewrite nth_overflow by (rewrite repeat_length; exact Hi). lia.
  Qed.

  Theorem build_ops_ok strip stems : build_stems c strip (src_len c) = Some stems ->
    Forall (op_ok (src_len c) stems) (build_ops c strip).
  Proof.
    intros Hs. pose proof (build_stems_bounded strip _ stems Hs) as Hb.
    apply Forall_forall. intros o Ho. unfold op_ok, src_len. fold nl. split.
    - destruct (out_bound strip o Ho); lia.
    - intros x Hx. pose proof (in_opnd_lt_ppo c strip o x WF Ho Hx) as Hlt. fold nl in Hlt. split; [lia|].
      unfold stemmed. specialize (Hb x). destruct (Z.leb 0 (nth x stems (-1)%Z)) eqn:E; [|lia].
      apply Z.leb_le in E. lia.
  Qed.

  Lemma build_stems_length strip len stems : build_stems c strip len = Some stems -> List.length stems = len.
  Proof.
    unfold build_stems. destruct (negb strip); [intros H; injection H as <-; apply repeat_length|].
    assert (G : forall l acc, (forall st, acc = Some st -> List.length st = len) ->
                 forall st', fold_left (fun acc f => match acc with None => None | Some st =>
                     if String.eqb (n_kind f) "__fork__" then
                       match pin (n_ins f) 0 with
                       | None => Some st
                       | Some l0 => match stem_walk (S (List.length (c_nodes c))) c l0 with
                                    | None => None
                                    | Some stem => Some (fold_left (fun s ol => setZ s ol (Z.of_nat stem)) (somes (n_outs f)) st)
                                    end
                       end else Some st end) l acc = Some st' -> List.length st' = len).
    { induction l as [|f r IH]; intros acc Hacc st'; cbn [fold_left]; [apply Hacc|].
      apply IH. intros st1. destruct acc as [st|]; [|discriminate]. specialize (Hacc st eq_refl).
      destruct (String.eqb (n_kind f) "__fork__"); [|intros H; injection H as <-; exact Hacc].
      destruct (pin (n_ins f) 0) as [l0|]; [|intros H; injection H as <-; exact Hacc].
      destruct (stem_walk (S (List.length (c_nodes c))) c l0) as [stem|]; [|discriminate].
      intros H. injection H as <-.
      generalize st Hacc. induction (somes (n_outs f)) as [|o ro IHo]; intros st0 Hb0; cbn [fold_left]; [exact Hb0|].
      apply IHo. rewrite setZ_length. exact Hb0. }
    intros H. eapply G; [|exact H]. intros st Hst. injection Hst as <-. apply repeat_length.
  Qed.
End Domain.

Lemma wf_outs_lt c : wf_netlist c -> forall n l, In (Some l) (n_outs (get_node c n)) -> l < List.length (c_lines c).
Proof.
  intros (_ & Hw & _) n l Hin.
  destruct (Nat.lt_ge_cases n (List.length (c_nodes c))) as [Hn|Hn].
  - apply In_nth_error in Hin. destruct Hin as [k Hk]. destruct (Hw n k l Hn Hk) as [Hl _]. exact Hl.
  - unfold get_node in Hin. rewrite nth_overflow in Hin by exact Hn. destruct Hin.
Qed.

Lemma a_ctrl_norm_length given n : n <= List.length (a_ctrl_norm given n).
Proof. unfold a_ctrl_norm. destruct given as [a|]; [rewrite app_length|]; rewrite repeat_length; lia. Qed.

(** the three source-tie theorems for EVERY well-formed netlist, without range side conditions *)
Theorem stems_source_is_model_wf c strip : wf_netlist c ->
  bind (idx_src c) (fun '(sl, z, t, t2, ppi, ppo, len) =>
        stems_src c sl z t t2 ppi ppo len strip (S (List.length (c_nodes c))))
  = build_stems c strip (src_len c).
Proof.
  intros WF. apply stems_source_is_model. intros n l Hin. pose proof (wf_outs_lt c WF n l Hin). unfold src_len. lia.
Qed.

Theorem levels_source_is_model_wf c given strip stems : wf_netlist c ->
  build_stems c strip (src_len c) = Some stems ->
  let ops := build_ops c strip in
  let rows := map (row_of_sop (a_ctrl_norm given (List.length (c_lines c) + 3))) ops in
  let ls := levelize stems ops (src_len c) in
  bind (idx_src c) (fun '(sl, z, t, t2, ppi, ppo, len) => levels_src c sl z t t2 ppi ppo len rows stems)
  = Some (ls_ref ls, rev (ls_starts ls), tl (rev (ls_starts ls)) ++ [List.length ops]).
Proof.
  intros WF Hs ops rows ls.
  assert (Hrows : map sop_of_row rows = ops).
  { unfold rows. rewrite map_map. erewrite map_ext; [apply map_id | intros o; apply sop_row_inv]. }
  pose proof (levels_source_is_model c rows stems (build_stems_length c strip _ stems Hs)) as H.
  rewrite Hrows in H. specialize (H (build_ops_ok c WF strip stems Hs)). cbv zeta in H. rewrite H.
  unfold rows. rewrite map_length. reflexivity.
Qed.

Theorem simops_source_prefix_wf c given caps cmin reuse strip stems : wf_netlist c ->
  build_stems c strip (src_len c) = Some stems ->
  let nl := List.length (c_lines c) in let sl := List.length (s_nodes c) in
  let actrl := a_ctrl_norm given (nl + 3) in
  let ops := build_ops c strip in let rows := map (row_of_sop actrl) ops in
  let ls := levelize stems ops (src_len c) in
  let starts := rev (ls_starts ls) in let stops := tl starts ++ [List.length ops] in
  simops_src c actrl caps cmin reuse strip (S (List.length (c_nodes c)))
  = bind (alloc_src_ c sl nl (nl + 1) (nl + 2) (nl + 3) (nl + 3 + sl) (src_len c) rows stems (ls_ref ls) starts stops caps cmin reuse)
      (fun '(locs, cps, clen) => Some (rows, starts, stops, locs, cps, clen, stems)).
Proof.
  intros WF Hs nl sl actrl ops rows ls starts stops.
  pose proof (a_ctrl_norm_length given (nl + 3)) as Hlen. fold actrl in Hlen.
  apply simops_source_prefix.
  - intros n l Hin. pose proof (wf_outs_lt c WF n l Hin). unfold src_len. fold nl in H |- *. lia.
  - fold nl. lia.
  - exact Hs.
  - exact (build_stems_length c strip _ stems Hs).
  - exact (build_ops_ok c WF strip stems Hs).
Qed.
