(** C09: pickling (__getstate__ / __setstate__) and copy() rebuild a consistent circuit with the same canonical form. *)
From Coq Require Import List Arith Bool String Lia.
From KV Require Import Model.Circuit Model.CircuitInv Proofs.CircuitBase Proofs.CircuitProofs.
Import ListNotations.
Local Open Scope list_scope.
Arguments add_line : simpl never.
Arguments add_node : simpl never.

Definition nds (s : pstate) : list (string * string) := fst (fst s).
Definition lrs (s : pstate) : list (nat * nat * nat * nat) := snd (fst s).
Definition ios (s : pstate) : list nat := snd s.

(** a pickled state that describes a consistent circuit *)
Record WFS (s : pstate) : Prop := mkWFS {
  wf_names : forall i j a b, nth_error (nds s) i = Some a -> nth_error (nds s) j = Some b ->
             fst a = fst b -> is_fork (snd a) = is_fork (snd b) -> i = j;
  wf_ends : forall k d dp r rp, nth_error (lrs s) k = Some (d, dp, r, rp) ->
            d < List.length (nds s) /\ r < List.length (nds s);
  wf_dinj : forall k1 k2 d dp r1 rp1 r2 rp2, nth_error (lrs s) k1 = Some (d, dp, r1, rp1) ->
            nth_error (lrs s) k2 = Some (d, dp, r2, rp2) -> k1 = k2;
  wf_rinj : forall k1 k2 d1 dp1 d2 dp2 r rp, nth_error (lrs s) k1 = Some (d1, dp1, r, rp) ->
            nth_error (lrs s) k2 = Some (d2, dp2, r, rp) -> k1 = k2;
  wf_dense : forall k f dp r rp a, nth_error (lrs s) k = Some (f, dp, r, rp) -> nth_error (nds s) f = Some a ->
             is_fork (snd a) = true -> forall p, p < dp -> exists k' r' rp', nth_error (lrs s) k' = Some (f, p, r', rp');
  wf_io : forall i, In i (ios s) -> i < List.length (nds s)
}.

(** ** generic facts *)
Lemma fold_opt_app : forall {A B} (f : A -> B -> option A) l1 l2 a,
  fold_opt f (l1 ++ l2) a = match fold_opt f l1 a with Some a' => fold_opt f l2 a' | None => None end.
Proof.
  induction l1 as [|x r IH]; intros l2 a; simpl; auto. destruct (f a x); auto.
Qed.

Lemma all_somes_map : forall {A B} (f : A -> option B) (g : A -> B) l,
  (forall x, In x l -> f x = Some (g x)) -> all_somes (map f l) = Some (map g l).
Proof.
  induction l as [|x r IH]; intros H; simpl; auto.
  rewrite (H x) by (left; auto). rewrite IH. reflexivity. intros y Hy. apply H. right; auto.
Qed.

Lemma map_seq_nth_error : forall {A B} (l : list A) (f : nat -> B) (g : A -> B),
  (forall i a, nth_error l i = Some a -> f i = g a) -> map f (seq 0 (List.length l)) = map g l.
Proof.
  intros A B l f g. revert f. induction l as [|x r IH]; intros f H; simpl; auto.
  f_equal. apply (H 0 x); auto. rewrite <- seq_shift. rewrite map_map. apply IH.
  intros i a Hi. apply (H (S i) a). auto.
Qed.

Lemma nth_error_seq : forall n i, i < n -> nth_error (seq 0 n) i = Some i.
Proof.
  intros n i Hi. rewrite nth_error_nth' with (d := 0) by (rewrite seq_length; auto). rewrite seq_nth; auto.
Qed.
Lemma nth_error_seq_inv : forall n i x, nth_error (seq 0 n) i = Some x -> x = i /\ i < n.
Proof.
  intros n i x H. assert (i < n). { rewrite <- (seq_length n 0). apply nth_error_Some. congruence. }
  rewrite nth_error_seq in H by auto. inv H. auto.
Qed.
Lemma seq_snoc : forall n, seq 0 (S n) = seq 0 n ++ [n].
Proof. intros n. rewrite seq_S. reflexivity. Qed.

Lemma pstate_eta : forall s : pstate, s = (nds s, lrs s, ios s).
Proof. intros [[a b] c]. reflexivity. Qed.

(** ** phase 1: the nodes *)
Section Rebuild.
Variable s : pstate.
Hypothesis WF : WFS s.
Let N := List.length (nds s).

Definition P1 (np : list (string * string)) (c : circ) : Prop :=
  CInv c /\ nnext c = List.length np /\ nodes c = seq 0 (List.length np) /\ lines c = [] /\ lnext c = 0 /\ io c = [] /\
  (forall i a, nth_error np i = Some a -> n_name (nst c i) = fst a /\ n_kind (nst c i) = snd a) /\
  (forall i, outs_of c i = [] /\ ins_of c i = []).

Lemma P1_empty : P1 [] empty.
Proof.
  unfold P1. split. apply cinv_empty. simpl. repeat split; auto; destruct i; discriminate.
Qed.

Lemma phase1 : forall rest np c, nds s = np ++ rest -> P1 np c ->
  exists c', fold_opt set_node rest c = Some c' /\ P1 (np ++ rest) c'.
Proof.
  induction rest as [|x rest IH]; intros np c Hs HP; simpl.
  - exists c. rewrite app_nil_r. auto.
  - destruct HP as [HI [Hnn [Hnodes [Hlines [Hln [Hio [Hnk Hpins]]]]]]].
    destruct x as [name kind]. unfold set_node. simpl.
    assert (Hfree : name_free c name kind).
    { unfold name_free. destruct HI as [HC _].
      assert (Hx : nth_error (nds s) (List.length np) = Some (name, kind)).
      { rewrite Hs. rewrite nth_error_app2 by lia. rewrite Nat.sub_diag. reflexivity. }
      destruct (is_fork kind) eqn:Hfk.
      - destruct (dget name (forks c)) as [m|] eqn:E; auto. exfalso.
        apply dget_in in E; [|apply (cc_forks_nd [] c HC)]. apply (cc_forks [] c HC) in E. destruct E as [Hm [Hk Hn]].
        rewrite Hnodes in Hm. apply in_seq in Hm. simpl in Hm.
        assert (Hm' : nth_error np m = Some (nth m np (name, kind))) by (apply nth_error_nth'; lia).
        destruct (Hnk m _ Hm') as [A1 A2]. unf.
        assert (m = List.length np).
        { apply (wf_names s WF m (List.length np) (nth m np (name, kind)) (name, kind)); auto.
          rewrite Hs. rewrite nth_error_app1 by lia. auto. simpl. congruence. simpl. congruence. }
        lia.
      - destruct (dget name (cells c)) as [m|] eqn:E; auto. exfalso.
        apply dget_in in E; [|apply (cc_cells_nd [] c HC)]. apply (cc_cells [] c HC) in E. destruct E as [Hm [Hk Hn]].
        rewrite Hnodes in Hm. apply in_seq in Hm. simpl in Hm.
        assert (Hm' : nth_error np m = Some (nth m np (name, kind))) by (apply nth_error_nth'; lia).
        destruct (Hnk m _ Hm') as [A1 A2]. unf.
        assert (m = List.length np).
        { apply (wf_names s WF m (List.length np) (nth m np (name, kind)) (name, kind)); auto.
          rewrite Hs. rewrite nth_error_app1 by lia. auto. simpl. congruence. simpl. congruence. }
        lia. }
    destruct (add_node_some c name kind Hfree) as [c1 Hadd]. rewrite Hadd. simpl.
    destruct HI as [HC HD].
    destruct (add_node_core [] c name kind c1 (nnext c) HC Hfree Hadd) as [HC1 [_ [G1 [G2 [G3 [G4 [G5 [G6 [G7 G8]]]]]]]]].
    pose proof (add_node_dense [] c name kind c1 (nnext c) HC HD Hfree Hadd) as HD1.
    replace (np ++ (name, kind) :: rest) with ((np ++ [(name, kind)]) ++ rest) by (rewrite <- app_assoc; reflexivity).
    apply IH. { rewrite <- app_assoc. simpl. auto. }
    unfold P1. rewrite app_length. change (List.length [(name, kind)]) with 1. replace (List.length np + 1) with (S (List.length np)) by lia.
    split. { split; auto. }
    split. { rewrite G6, Hnn. auto. }
    split. { rewrite G1, Hnodes, Hnn. rewrite seq_snoc. reflexivity. }
    split. { rewrite G2. auto. }
    split. { rewrite G5. auto. }
    split. { rewrite G3. auto. }
    split.
    + intros i a Hi. destruct (Nat.eq_dec i (List.length np)) as [->|Hne].
      * rewrite nth_error_app2 in Hi by lia. rewrite Nat.sub_diag in Hi. simpl in Hi. inv Hi.
        rewrite <- Hnn. rewrite G8. simpl. auto.
      * assert (i < List.length np).
        { assert (i < List.length (np ++ [(name, kind)])) by (apply nth_error_Some; congruence).
          rewrite app_length in H. simpl in H. lia. }
        rewrite nth_error_app1 in Hi by lia. rewrite G7 by lia. apply Hnk; auto.
    + intros i. unf. destruct (Nat.eq_dec i (nnext c)) as [->|Hne].
      * rewrite G8. simpl. auto.
      * rewrite G7 by auto. apply Hpins.
Qed.

(** ** phase 2: the lines *)
Definition P2 (lp : list (nat * nat * nat * nat)) (c : circ) : Prop :=
  CCoreX [] c /\ nnext c = N /\ nodes c = seq 0 N /\ lines c = seq 0 (List.length lp) /\ lnext c = List.length lp /\ io c = [] /\
  (forall i a, nth_error (nds s) i = Some a -> n_name (nst c i) = fst a /\ n_kind (nst c i) = snd a) /\
  (forall k d dp r rp, nth_error lp k = Some (d, dp, r, rp) -> lst c k = mkL k (Some d) dp (Some r) rp true) /\
  (forall f p, p < List.length (outs_of c f) -> exists k dp r rp, nth_error lp k = Some (f, dp, r, rp) /\ p <= dp).

Lemma phase2 : forall rest lp c tail, lrs s = lp ++ rest ++ tail -> P2 lp c ->
  exists c', fold_opt set_line rest c = Some c' /\ P2 (lp ++ rest) c'.
Proof.
  induction rest as [|x rest IH]; intros lp c tail Hs HP; simpl.
  - exists c. rewrite app_nil_r. auto.
  - destruct HP as [HC [Hnn [Hnodes [Hlines [Hln [Hio [Hnk [Hrec Hlen]]]]]]]].
    destruct x as [[[d dp] r] rp]. unfold set_line.
    assert (Hx : nth_error (lrs s) (List.length lp) = Some (d, dp, r, rp)).
    { rewrite Hs. rewrite nth_error_app2 by lia. rewrite Nat.sub_diag. reflexivity. }
    destruct (wf_ends s WF _ _ _ _ _ Hx) as [Hd Hr]. fold N in Hd, Hr.
    rewrite Hnodes. rewrite !nth_error_seq by auto.
    assert (Hdn : NX [] c d). { left. rewrite Hnodes. apply in_seq. lia. }
    assert (Hrn : NX [] c r). { left. rewrite Hnodes. apply in_seq. lia. }
    assert (Hfd : out_at c d dp = None).
    { destruct (out_at c d dp) as [k|] eqn:E; auto. exfalso.
      destruct (cc_outs [] c HC d dp k Hdn E) as [Hk [Hkd Hkp]].
      rewrite Hlines in Hk. apply in_seq in Hk. simpl in Hk.
      destruct (nth_error lp k) as [[[[d' dp'] r'] rp']|] eqn:Ek. 2:{ apply nth_error_None in Ek. lia. }
      rewrite (Hrec k _ _ _ _ Ek) in Hkd, Hkp. simpl in *. inv Hkd.
      assert (k = List.length lp).
      { apply (wf_dinj s WF k (List.length lp) d dp r' rp' r rp); auto. rewrite Hs. rewrite nth_error_app1 by lia. auto. }
      lia. }
    assert (Hfr : in_at c r rp = None).
    { destruct (in_at c r rp) as [k|] eqn:E; auto. exfalso.
      destruct (cc_ins [] c HC r rp k Hrn E) as [Hk [Hkd Hkp]].
      rewrite Hlines in Hk. apply in_seq in Hk. simpl in Hk.
      destruct (nth_error lp k) as [[[[d' dp'] r'] rp']|] eqn:Ek. 2:{ apply nth_error_None in Ek. lia. }
      rewrite (Hrec k _ _ _ _ Ek) in Hkd, Hkp. simpl in *. inv Hkd.
      assert (k = List.length lp).
      { apply (wf_rinj s WF k (List.length lp) d' dp' d dp r rp); auto. rewrite Hs. rewrite nth_error_app1 by lia. auto. }
      lia. }
    pose proof (add_line_facts c d (Some dp) r (Some rp)) as F. cbv zeta in F. simpl pin_of in F.
    destruct F as [_ [F1 [F2 [F3 [F4 [F5 [F6 [F6' [F7 [F8 [F9 [F10 [F11 [F12 [F13 F14]]]]]]]]]]]]]]].
    assert (HC1 : CCoreX [] (fst (add_line c d (Some dp) r (Some rp)))).
    { apply add_line_core; auto. intros p E. inv E. auto. intros p E. inv E. auto. }
    replace (lp ++ (d, dp, r, rp) :: rest) with ((lp ++ [(d, dp, r, rp)]) ++ rest) by (rewrite <- app_assoc; reflexivity).
    apply (IH _ _ tail). { rewrite <- app_assoc. simpl. auto. }
    unfold P2. rewrite app_length. change (List.length [(d, dp, r, rp)]) with 1. replace (List.length lp + 1) with (S (List.length lp)) by lia.
    split; auto.
    split. { rewrite F1. auto. }
    split. { rewrite F3. auto. }
    split. { rewrite F4, Hlines, Hln. rewrite seq_snoc. reflexivity. }
    split. { rewrite F2, Hln. auto. }
    split. { rewrite F6'. auto. }
    split. { intros i a Hi. rewrite F7, F8. apply Hnk; auto. }
    split.
    + intros k d0 dp0 r0 rp0 Hk. destruct (Nat.eq_dec k (List.length lp)) as [->|Hne].
      * rewrite nth_error_app2 in Hk by lia. rewrite Nat.sub_diag in Hk. simpl in Hk. inv Hk.
        rewrite <- Hln. rewrite F14. rewrite Hlines, seq_length. rewrite Hln. reflexivity.
      * assert (k < List.length lp).
        { assert (k < List.length (lp ++ [(d, dp, r, rp)])) by (apply nth_error_Some; congruence).
          rewrite app_length in H. simpl in H. lia. }
        rewrite nth_error_app1 in Hk by lia. rewrite F13 by lia. apply Hrec; auto.
    + intros f p Hp. unf. rewrite F11 in Hp. destruct (Nat.eqb_spec f d).
      * subst f. rewrite length_gset in Hp.
        destruct (Nat.lt_ge_cases p (List.length (n_outs (nst c d)))).
        { destruct (Hlen d p H) as [k [dp0 [r0 [rp0 [Hk Hle]]]]]. exists k, dp0, r0, rp0. split; auto.
          rewrite nth_error_app1; auto. apply nth_error_Some. congruence. }
        { exists (List.length lp), dp, r, rp. split. rewrite nth_error_app2 by lia. rewrite Nat.sub_diag. reflexivity. lia. }
      * destruct (Hlen f p Hp) as [k [dp0 [r0 [rp0 [Hk Hle]]]]]. exists k, dp0, r0, rp0. split; auto.
        rewrite nth_error_app1; auto. apply nth_error_Some. congruence.
Qed.

(** ** phase 3: the interface list *)
Lemma phase3 : forall rest ip c, nodes c = seq 0 N -> io c = map Some ip -> (forall i, In i rest -> i < N) ->
  exists c', fold_opt set_ionode rest c = Some c' /\ c' = with_io c (map Some (ip ++ rest)).
Proof.
  induction rest as [|x rest IH]; intros ip c Hnodes Hio Hlt; simpl.
  - exists c. split; auto. rewrite app_nil_r. rewrite <- Hio. destruct c; reflexivity.
  - unfold set_ionode. rewrite Hnodes. rewrite nth_error_seq by (apply Hlt; left; auto).
    destruct (IH (ip ++ [x]) (with_io c (io c ++ [Some x]))) as [c' [Hf Hc']]; auto.
    { simpl. rewrite Hio. rewrite map_app. reflexivity. }
    { intros i Hi. apply Hlt. right; auto. }
    exists c'. split; auto. rewrite Hc'. rewrite <- app_assoc. simpl. reflexivity.
Qed.

(** ** the rebuilt circuit is consistent and pickles to the same state *)
Theorem setstate_ok : exists c', setstate s = Some c' /\ CInv c' /\ getstate c' = Some s /\
  nodes c' = seq 0 N /\ io c' = map Some (ios s).
Proof.
  pose proof (pstate_eta s) as Es.
  assert (Hnds : nds s = nds s) by reflexivity.
  assert (Hlrs : lrs s = lrs s) by reflexivity.
  assert (Hios : ios s = ios s) by reflexivity.
  assert (Hset : setstate s = setstate (nds s, lrs s, ios s)) by (rewrite <- Es; reflexivity).
  rewrite Hset. unfold setstate.
  destruct (phase1 (nds s) [] empty) as [c1 [H1 HP1]]. { reflexivity. } { apply P1_empty. }
  rewrite H1. simpl in HP1.
  destruct HP1 as [[HC1 HD1] [A1 [A2 [A3 [A4 [A5 [A6 A7]]]]]]].
  assert (HP2 : P2 [] c1).
  { unfold P2. unfold N. simpl. split; [exact HC1|]. do 5 (split; [auto|]). split; [|split].
    - intros i a Hi. apply A6; auto.
    - intros k d dp r rp H. destruct k; discriminate.
    - intros f p Hp. destruct (A7 f) as [E _]. rewrite E in Hp. simpl in Hp. lia. }
  destruct (phase2 (lrs s) [] c1 []) as [c2 [H2 HP2']]; auto. { rewrite app_nil_r. reflexivity. }
  rewrite H2. simpl in HP2'.
  destruct HP2' as [HC2 [B1 [B2 [B3 [B4 [B5 [B6 [B7 B8]]]]]]]].
  destruct (phase3 (ios s) [] c2) as [c3 [H3 Hc3]]; auto.
  { intros i Hi. apply (wf_io s WF). auto. }
  rewrite H3. simpl in Hc3. exists c3. split; auto.
  assert (HC3 : CCoreX [] c3). { rewrite Hc3. apply ccore_with_io. auto. }
  assert (Hidx : forall i, i < N -> n_index (nst c2 i) = i).
  { intros i Hi. apply (cc_nidx [] c2 HC2). rewrite B2. apply nth_error_seq; auto. }
  split; [split; auto|].
  - (* gap-free fork outputs *)
    rewrite Hc3. apply dense_with_io.
    intros f [Hf|[]] Hfk p Hp.
    destruct (B8 f p Hp) as [k [dp [r [rp [Hk Hle]]]]].
    rewrite B2 in Hf. apply in_seq in Hf. simpl in Hf.
    assert (Hfa : nth_error (nds s) f = Some (nth f (nds s) (EmptyString, EmptyString))) by (apply nth_error_nth'; auto; lia).
    destruct (B6 f _ Hfa) as [_ Hkd]. unf. rewrite Hkd in Hfk.
    assert (Hex : exists k' r' rp', nth_error (lrs s) k' = Some (f, p, r', rp')).
    { destruct (Nat.eq_dec p dp) as [->|Hne]. exists k, r, rp; auto.
      eapply (wf_dense s WF k f dp r rp); eauto. auto. lia. }
    destruct Hex as [k' [r' [rp' Hk']]].
    assert (Hin : In k' (lines c2)). { rewrite B3. apply in_seq. simpl. split. lia. apply nth_error_Some. congruence. }
    destruct (cc_line [] c2 HC2 k' Hin) as [d0 [r0 [E1 [E2 [_ [_ [E5 _]]]]]]].
    rewrite (B7 k' _ _ _ _ Hk') in E1, E5. simpl in *. inv E1. unfold out_at, outs_of in E5. rewrite E5. discriminate.
  - (* getstate *)
    split; [|split].
    + rewrite Es. unfold getstate. rewrite Hc3. simpl.
      unfold name_of, kind_of. simpl. rewrite B2, B3.
      assert (E1 : map (fun n => (n_name (nst c2 n), n_kind (nst c2 n))) (seq 0 N) = (nds s)).
      { unfold N. rewrite <- (map_id (nds s)) at 2. apply map_seq_nth_error.
        intros i a Hi. destruct (B6 i a Hi) as [X1 X2]. unf. rewrite X1, X2. destruct a; reflexivity. }
      assert (E2 : all_somes (map (fun l => match l_drv (lst c2 l), l_rdr (lst c2 l) with
                       | Some d, Some r => Some (n_index (nst c2 d), l_dpin (lst c2 l), n_index (nst c2 r), l_rpin (lst c2 l))
                       | _, _ => None end) (seq 0 (List.length (lrs s)))) = Some (lrs s)).
      { rewrite all_somes_map with (g := fun k => nth k (lrs s) (0, 0, 0, 0)).
        - f_equal. rewrite <- (map_id (lrs s)) at 2. apply map_seq_nth_error. intros i a Hi.
          rewrite nth_error_nth with (x := a); auto.
        - intros k Hk. apply in_seq in Hk. simpl in Hk.
          assert (Hka : nth_error (lrs s) k = Some (nth k (lrs s) (0, 0, 0, 0))) by (apply nth_error_nth'; lia).
          destruct (nth k (lrs s) (0, 0, 0, 0)) as [[[d dp] r] rp] eqn:Ek.
          rewrite (B7 k _ _ _ _ Hka). simpl.
          assert (Hx : nth_error (lrs s) k = Some (d, dp, r, rp)) by auto.
          destruct (wf_ends s WF _ _ _ _ _ Hx) as [Hd Hr]. rewrite !Hidx by auto. reflexivity. }
      rewrite E1, E2.
      rewrite map_map.
      rewrite all_somes_map with (g := fun i => i).
      * rewrite map_id. reflexivity.
      * intros x Hx. simpl. rewrite Hidx. reflexivity. apply (wf_io s WF). auto.
    + rewrite Hc3. simpl. auto.
    + rewrite Hc3. simpl. reflexivity.
Qed.
End Rebuild.

(** ** the pickled state of a consistent circuit is well-formed *)
Lemma idx_nth : forall c n, CCoreX [] c -> In n (nodes c) -> nth_error (nodes c) (n_index (nst c n)) = Some n.
Proof.
  intros c n HC Hn. destruct (In_nth_error _ _ Hn) as [i Hi].
  destruct (cc_nidx [] c HC i n Hi) as [_ ->]. auto.
Qed.
Lemma idx_lt : forall c n, CCoreX [] c -> In n (nodes c) -> n_index (nst c n) < List.length (nodes c).
Proof. intros c n HC Hn. apply nth_error_Some. rewrite idx_nth; auto. discriminate. Qed.
Lemma idx_inj : forall c n m, CCoreX [] c -> In n (nodes c) -> In m (nodes c) ->
  n_index (nst c n) = n_index (nst c m) -> n = m.
Proof.
  intros c n m HC Hn Hm E. pose proof (idx_nth c n HC Hn) as A. pose proof (idx_nth c m HC Hm) as B.
  rewrite E in A. congruence.
Qed.
Lemma lidx_nth : forall c l, CCoreX [] c -> In l (lines c) -> nth_error (lines c) (l_index (lst c l)) = Some l.
Proof.
  intros c l HC Hl. destruct (In_nth_error _ _ Hl) as [i Hi].
  destruct (cc_lidx [] c HC i l Hi) as [_ ->]. auto.
Qed.

Definition line_row (c : circ) (l : nat) : nat * nat * nat * nat :=
  match l_drv (lst c l), l_rdr (lst c l) with
  | Some d, Some r => (n_index (nst c d), l_dpin (lst c l), n_index (nst c r), l_rpin (lst c l))
  | _, _ => (0, 0, 0, 0)
  end.
Definition io_row (c : circ) (e : option nat) : nat := match e with Some n => n_index (nst c n) | None => 0 end.
Definition state_of (c : circ) : pstate :=
  (map (fun n => (name_of c n, kind_of c n)) (nodes c), map (line_row c) (lines c), map (io_row c) (io c)).

Lemma getstate_state_of : forall c, CCoreX [] c -> io_ok_b c = true -> getstate c = Some (state_of c).
Proof.
  intros c HC Hio. unfold getstate, state_of.
  rewrite all_somes_map with (g := line_row c).
  2:{ intros l Hl. unfold line_row. destruct (cc_line [] c HC l Hl) as [d [r [H1 [H2 _]]]]. rewrite H1, H2. reflexivity. }
  rewrite all_somes_map with (g := io_row c). reflexivity.
  intros e He. unfold io_ok_b in Hio. rewrite forallb_forall in Hio. specialize (Hio e He).
  destruct e; [reflexivity|discriminate].
Qed.

Lemma state_of_wf : forall c, CInv c -> io_ok_b c = true -> WFS (state_of c).
Proof.
  intros c [HC HD] Hio.
  assert (Hrow : forall k d dp r rp, nth_error (lrs (state_of c)) k = Some (d, dp, r, rp) ->
            exists l d0 r0, nth_error (lines c) k = Some l /\ In l (lines c) /\ l_drv (lst c l) = Some d0 /\ l_rdr (lst c l) = Some r0 /\
                            In d0 (nodes c) /\ In r0 (nodes c) /\
                            d = n_index (nst c d0) /\ dp = l_dpin (lst c l) /\ r = n_index (nst c r0) /\ rp = l_rpin (lst c l) /\
                            out_at c d0 dp = Some l /\ in_at c r0 rp = Some l).
  { intros k d dp r rp Hk. unfold state_of, lrs in Hk. simpl in Hk. rewrite nth_error_map in Hk.
    destruct (nth_error (lines c) k) as [l|] eqn:El; [|discriminate]. simpl in Hk.
    assert (Hl : In l (lines c)) by (eapply nth_error_In; eauto).
    destruct (cc_line [] c HC l Hl) as [d0 [r0 [H1 [H2 [[H3|[]] [[H4|[]] [H5 H6]]]]]]].
    unfold line_row in Hk. rewrite H1, H2 in Hk. inv Hk.
    exists l, d0, r0. repeat split; auto. }
  assert (Hnd : forall i a, nth_error (nds (state_of c)) i = Some a ->
            exists n, nth_error (nodes c) i = Some n /\ In n (nodes c) /\ a = (name_of c n, kind_of c n)).
  { intros i a Hi. unfold state_of, nds in Hi. simpl in Hi. rewrite nth_error_map in Hi.
    destruct (nth_error (nodes c) i) as [n|] eqn:En; [|discriminate]. simpl in Hi. inv Hi.
    exists n. repeat split; auto. eapply nth_error_In; eauto. }
  assert (HN : List.length (nds (state_of c)) = List.length (nodes c)).
  { unfold state_of, nds. simpl. rewrite map_length. reflexivity. }
  constructor.
  - intros i j a b Hi Hj Hname Hfk.
    destruct (Hnd i a Hi) as [n [En [Hn ->]]]. destruct (Hnd j b Hj) as [m [Em [Hm ->]]]. simpl in *.
    assert (n = m).
    { destruct (is_fork (kind_of c n)) eqn:Hk.
      - assert (A : In (name_of c n, n) (forks c)) by (apply (cc_forks [] c HC); auto).
        assert (B : In (name_of c n, m) (forks c)) by (apply (cc_forks [] c HC); auto).
        apply (dict_functional (forks c) _ n m (cc_forks_nd [] c HC) A B).
      - assert (A : In (name_of c n, n) (cells c)) by (apply (cc_cells [] c HC); auto).
        assert (B : In (name_of c n, m) (cells c)) by (apply (cc_cells [] c HC); auto).
        apply (dict_functional (cells c) _ n m (cc_cells_nd [] c HC) A B). }
    subst m. eapply NoDup_nth_error_inj; eauto. apply (nidx_nodup [] c HC).
  - intros k d dp r rp Hk. rewrite HN.
    destruct (Hrow _ _ _ _ _ Hk) as [l [d0 [r0 [_ [_ [_ [_ [Hd [Hr [-> [_ [-> _]]]]]]]]]]]].
    split; apply idx_lt; auto.
  - intros k1 k2 d dp r1 rp1 r2 rp2 H1 H2.
    destruct (Hrow _ _ _ _ _ H1) as [l1 [d1 [x1 [E1 [_ [_ [_ [Hd1 [_ [A1 [A2 [_ [_ [A3 _]]]]]]]]]]]]]].
    destruct (Hrow _ _ _ _ _ H2) as [l2 [d2 [x2 [E2 [_ [_ [_ [Hd2 [_ [B1 [B2 [_ [_ [B3 _]]]]]]]]]]]]]].
    assert (d1 = d2) by (apply (idx_inj c); auto; congruence). subst d2.
    assert (l1 = l2) by congruence. subst l2.
    eapply NoDup_nth_error_inj; eauto. apply (lidx_nodup [] c HC).
  - intros k1 k2 d1 dp1 d2 dp2 r rp H1 H2.
    destruct (Hrow _ _ _ _ _ H1) as [l1 [y1 [x1 [E1 [_ [_ [_ [_ [Hr1 [_ [_ [A1 [A2 [_ A3]]]]]]]]]]]]]].
    destruct (Hrow _ _ _ _ _ H2) as [l2 [y2 [x2 [E2 [_ [_ [_ [_ [Hr2 [_ [_ [B1 [B2 [_ B3]]]]]]]]]]]]]].
    assert (x1 = x2) by (apply (idx_inj c); auto; congruence). subst x2.
    assert (l1 = l2) by congruence. subst l2.
    eapply NoDup_nth_error_inj; eauto. apply (lidx_nodup [] c HC).
  - intros k f dp r rp a Hk Hf Hfk p Hp.
    destruct (Hrow _ _ _ _ _ Hk) as [l [d0 [r0 [E1 [Hl [Hdrv [_ [Hd [_ [A1 [A2 [_ [_ [A3 _]]]]]]]]]]]]]].
    destruct (Hnd f a Hf) as [n [En [Hn ->]]]. simpl in Hfk.
    assert (n = d0). { pose proof (idx_nth c d0 HC Hd) as X. rewrite <- A1 in X. congruence. } subst n.
    assert (Hlen : dp < List.length (outs_of c d0)) by (eapply nth_some_lt; eauto).
    destruct (out_at c d0 p) as [l'|] eqn:El'. 2:{ exfalso. apply (HD d0 (or_introl Hd) Hfk p); auto. lia. }
    destruct (cc_outs [] c HC d0 p l' (or_introl Hd) El') as [Hl' [Hd' Hp']].
    destruct (cc_line [] c HC l' Hl') as [d1 [r1 [H1 [H2 _]]]].
    exists (l_index (lst c l')), (n_index (nst c r1)), (l_rpin (lst c l')).
    unfold state_of, lrs. simpl. rewrite nth_error_map. rewrite lidx_nth by auto. simpl.
    unfold line_row. rewrite H1, H2. rewrite Hd' in H1. inv H1. reflexivity.
  - intros i Hi. rewrite HN. unfold state_of, ios in Hi. simpl in Hi. apply in_map_iff in Hi.
    destruct Hi as [e [<- He]]. unfold io_ok_b in Hio. rewrite forallb_forall in Hio. specialize (Hio e He).
    destruct e as [n|]; [|discriminate]. apply mem_In in Hio. simpl. apply idx_lt; auto.
Qed.

(** ** pickle round trip *)
Theorem pickle_inv : forall c, CInv c -> io_ok_b c = true ->
  exists c', pickle_roundtrip c = Some c' /\ CInv c' /\ canon c' = canon c /\ IoLive c'.
Proof.
  intros c HI Hio. destruct HI as [HC HD].
  pose proof (getstate_state_of c HC Hio) as Hg.
  pose proof (state_of_wf c (conj HC HD) Hio) as HW.
  destruct (setstate_ok (state_of c) HW) as [c' [Hs [HI' [Hg' [Hn' Hio']]]]].
  exists c'. unfold pickle_roundtrip, canon. rewrite Hg. split; [exact Hs|]. split; [exact HI'|]. split. congruence.
  intros e He. rewrite Hio' in He. apply in_map_iff in He. destruct He as [i [<- Hi]]. exists i. split; auto.
  rewrite Hn'. apply in_seq. pose proof (wf_io _ HW i Hi). lia.
Qed.

(** ** copy() performs the same construction as the pickle round trip *)
Section Copy.
Variable src : circ.
Hypothesis HI : CInv src.
Hypothesis Hio : io_ok_b src = true.
Let s := state_of src.
Let HC : CCoreX [] src := proj1 HI.
Let WF : WFS s := state_of_wf src HI Hio.
Let N := List.length (nds s).

Definition Good (c : circ) : Prop :=
  CCoreX [] c /\ nodes c = seq 0 N /\
  (forall i a, nth_error (nds s) i = Some a -> n_name (nst c i) = fst a /\ n_kind (nst c i) = snd a).

Lemma good_lookup : forall c n, Good c -> In n (nodes src) ->
  lookup_by_kind c (name_of src n) (kind_of src n) = Some (n_index (nst src n)) /\
  nth_error (nodes c) (n_index (nst src n)) = Some (n_index (nst src n)).
Proof.
  intros c n [HCc [Hnodes Hnk]] Hn.
  assert (Hlt : n_index (nst src n) < N).
  { unfold N, s, state_of, nds. simpl. rewrite map_length. apply idx_lt; auto. }
  assert (Ha : nth_error (nds s) (n_index (nst src n)) = Some (name_of src n, kind_of src n)).
  { unfold s, state_of, nds. simpl. rewrite nth_error_map. rewrite idx_nth; auto. }
  destruct (Hnk _ _ Ha) as [A1 A2]. simpl in A1, A2.
  split.
  - unfold lookup_by_kind. destruct (is_fork (kind_of src n)) eqn:Hfk.
    + apply dget_in. apply (cc_forks_nd [] c HCc). apply (cc_forks [] c HCc). unf. rewrite A1, A2.
      repeat split; auto. rewrite Hnodes. apply in_seq. lia.
    + apply dget_in. apply (cc_cells_nd [] c HCc). apply (cc_cells [] c HCc). unf. rewrite A1, A2.
      repeat split; auto. rewrite Hnodes. apply in_seq. lia.
  - rewrite Hnodes. apply nth_error_seq; auto.
Qed.

Lemma copy_phase1 : forall l a,
  fold_opt (copy_node src) l a = fold_opt set_node (map (fun n => (name_of src n, kind_of src n)) l) a.
Proof.
  induction l as [|x r IH]; intros a; simpl; auto.
  unfold copy_node at 1. unfold set_node at 1. simpl. destruct (add_node a (name_of src x) (kind_of src x)) as [[c' id]|]; simpl; auto.
Qed.

Lemma P2_good : forall lp c, P2 s lp c -> Good c.
Proof. intros lp c [A [_ [B [_ [_ [_ [C _]]]]]]]. split; auto. Qed.

Lemma copy_phase2 : forall rest lp c, lrs s = lp ++ map (line_row src) rest -> (forall l, In l rest -> In l (lines src)) ->
  P2 s lp c -> fold_opt (copy_line src) rest c = fold_opt set_line (map (line_row src) rest) c.
Proof.
  induction rest as [|x rest IH]; intros lp c Hs Hin HP; simpl; auto.
  assert (Hx : In x (lines src)) by (apply Hin; left; auto).
  destruct (cc_line [] src HC x Hx) as [d [r [H1 [H2 [[H3|[]] [[H4|[]] _]]]]]].
  destruct (good_lookup c d (P2_good lp c HP) H3) as [L1 L2].
  destruct (good_lookup c r (P2_good lp c HP) H4) as [L3 L4].
  assert (E : copy_line src c x = set_line c (line_row src x)).
  { unfold copy_line, set_line, line_row. rewrite H1, H2, L1, L2, L3, L4. reflexivity. }
  rewrite E.
  destruct (phase2 s WF [line_row src x] lp c (map (line_row src) rest)) as [c1 [Hc1 HP1]]; auto.
  simpl in Hc1. destruct (set_line c (line_row src x)) as [c1'|]; [|discriminate]. inv Hc1.
  apply (IH (lp ++ [line_row src x])); auto.
  - rewrite <- app_assoc. simpl. auto.
  - intros l Hl. apply Hin. right; auto.
Qed.

Lemma good_with_io : forall c v, Good c -> Good (with_io c v).
Proof. intros c v [A [B C]]. split; [|split]; auto. apply ccore_with_io; auto. Qed.

Lemma copy_phase3 : forall rest c, Good c -> (forall e, In e rest -> exists n, e = Some n /\ In n (nodes src)) ->
  fold_opt (copy_io src) rest c = fold_opt set_ionode (map (io_row src) rest) c.
Proof.
  induction rest as [|x rest IH]; intros c HG Hin; simpl; auto.
  destruct (Hin x (or_introl eq_refl)) as [n [-> Hn]].
  destruct (good_lookup c n HG Hn) as [L1 L2].
  unfold copy_io at 1. unfold set_ionode at 1. simpl. rewrite L1, L2.
  apply IH. apply good_with_io; auto. intros e He. apply Hin. right; auto.
Qed.

Theorem copy_eq_pickle : copy src = pickle_roundtrip src.
Proof.
  unfold pickle_roundtrip. rewrite (getstate_state_of src HC Hio).
  unfold copy, setstate, state_of. rewrite copy_phase1.
  destruct (phase1 s WF (nds s) [] empty) as [c1 [Hc1 HP1]]. { reflexivity. } { apply P1_empty. }
  unfold s, state_of, nds in Hc1. simpl in Hc1. rewrite Hc1.
  simpl in HP1. destruct HP1 as [[HC1 HD1] [A1 [A2 [A3 [A4 [A5 [A6 A7]]]]]]].
  assert (HP2 : P2 s [] c1).
  { unfold P2. simpl. split; [exact HC1|]. do 5 (split; [auto|]). split; [|split].
    - intros i a Hi. apply A6; auto.
    - intros k d dp r rp H. destruct k; discriminate.
    - intros f p Hp. destruct (A7 f) as [E _]. rewrite E in Hp. simpl in Hp. lia. }
  rewrite (copy_phase2 (lines src) [] c1); auto.
  destruct (phase2 s WF (lrs s) [] c1 []) as [c2 [Hc2 HP2']]; auto. { rewrite app_nil_r. reflexivity. }
  unfold s, state_of, lrs in Hc2. simpl in Hc2. rewrite Hc2.
  apply copy_phase3. eapply P2_good; eauto.
  intros e He. pose proof Hio as Hio'. unfold io_ok_b in Hio'. rewrite forallb_forall in Hio'. specialize (Hio' e He).
  destruct e as [n|]; [|discriminate]. exists n. split; auto. apply mem_In; auto.
Qed.
End Copy.

Theorem copy_inv : forall c, CInv c -> io_ok_b c = true ->
  exists c', copy c = Some c' /\ CInv c' /\ canon c' = canon c /\ IoLive c'.
Proof. intros c HI Hio. rewrite (copy_eq_pickle c HI Hio). apply pickle_inv; auto. Qed.
