(** Lifting lemma (lane independence) and soundness of the bit-parallel exhaustive sweep. *)
From Coq Require Import List NArith Bool Arith Lia.
From KV Require Import Model.Bits.
Import ListNotations.

Section Lift.
  Variable w : N.
  Variable k : N.
  Hypothesis Hk : (k < w)%N.
  Let tb (x : N) := N.testbit x k.

  Lemma get_lift env n : tb (get 0%N env n) = get false (map tb env) n.
  Proof.
    unfold get. assert (H0 : false = tb 0%N) by (unfold tb; symmetry; apply N.bits_0).
    rewrite H0. symmetry. apply map_nth.
  Qed.

  Lemma exec_lift env i :
    tb (exec_instr 0%N (N.ones w) (fun x => N.lxor (N.ones w) x) N.land N.lor N.lxor env i)
    = exec_instr false true negb andb orb xorb (map tb env) i.
  Proof.
    destruct i as [b|a|a b|a b|a b]; cbn [exec_instr]; rewrite <- ?get_lift; unfold tb.
    - destruct b; [apply N.ones_spec_low; exact Hk | apply N.bits_0].
    - rewrite N.lxor_spec, N.ones_spec_low by exact Hk. reflexivity.
    - apply N.land_spec.
    - apply N.lor_spec.
    - apply N.lxor_spec.
  Qed.

  Lemma run_code_lift code : forall env,
    map tb (run_code 0%N (N.ones w) (fun x => N.lxor (N.ones w) x) N.land N.lor N.lxor code env)
    = run_code false true negb andb orb xorb code (map tb env).
  Proof.
    unfold run_code. induction code as [|i code IH]; intro env; cbn [fold_left]; [reflexivity|].
    rewrite IH. unfold step. rewrite map_app. cbn [map]. rewrite exec_lift. reflexivity.
  Qed.

  (** lane [k] of the bit-vector run is the boolean run on lane [k] of the inputs *)
  Theorem run_lift p ins : map tb (run_N w p ins) = run_bool p (map tb ins).
  Proof.
    unfold run_N, run_bool, run. cbv zeta. rewrite map_map.
    rewrite <- run_code_lift.
    apply map_ext. intro o. apply get_lift.
  Qed.
End Lift.

Lemma Ncons_spec b x : Ncons b x = (2 * x + N.b2n b)%N.
Proof. unfold Ncons. destruct b; cbn [N.b2n]; [rewrite N.succ_double_spec | rewrite N.double_spec]; lia. Qed.

Lemma N_of_bits_spec l : forall i, N.testbit (N_of_bits l) (N.of_nat i) = nth i l false.
Proof.
  induction l as [|b l IH]; intro i; cbn [N_of_bits].
  - rewrite N.bits_0. destruct i; reflexivity.
  - rewrite Ncons_spec.
    destruct i as [|i].
    + cbn [N.of_nat nth]. apply N.testbit_0_r.
    + rewrite Nat2N.inj_succ. rewrite N.testbit_succ_r. cbn [nth]. apply IH.
Qed.

Lemma N_of_bits_lt l : (N_of_bits l < 2 ^ N.of_nat (length l))%N.
Proof.
  induction l as [|b l IH]; cbn [N_of_bits length].
  - cbn. lia.
  - rewrite Ncons_spec, Nat2N.inj_succ, N.pow_succ_r'. destruct b; cbn [N.b2n]; lia.
Qed.

Lemma to_bits_spec n : forall x i, i < n -> nth i (to_bits n x) false = N.testbit x (N.of_nat i).
Proof.
  induction n as [|n IH]; intros x i Hi; [lia|].
  cbn [to_bits]. destruct i as [|i].
  - cbn [nth N.of_nat]. symmetry. apply N.bit0_odd.
  - cbn [nth]. rewrite IH by lia. rewrite Nat2N.inj_succ. symmetry. apply N.testbit_succ_r_div2. lia.
Qed.

Lemma sweep_rows_spec chk nvars n : forall k0 outs,
  sweep_rows chk nvars k0 outs n = true ->
  forall i, i < n -> chk (bits_of (k0 + N.of_nat i) nvars) (map (fun l => nth i l false) outs) = true.
Proof.
  induction n as [|n IH]; intros k0 outs H i Hi; [lia|].
  cbn [sweep_rows] in H. apply andb_true_iff in H. destruct H as [H0 Hr].
  destruct i as [|i].
  - cbn [N.of_nat]. rewrite N.add_0_r.
    replace (map (fun l => nth 0 l false) outs) with (map (hd false) outs); [exact H0|].
    apply map_ext. intros [|? ?]; reflexivity.
  - specialize (IH _ _ Hr i (proj2 (Nat.succ_lt_mono _ _) Hi)).
    rewrite map_map in IH.
    replace (k0 + N.of_nat (S i))%N with (N.succ k0 + N.of_nat i)%N by lia.
    replace (map (fun l => nth (S i) l false) outs) with (map (fun x => nth i (tl x) false) outs); [exact IH|].
    apply map_ext. intros [|? ?]; [destruct i; reflexivity | reflexivity].
Qed.

Lemma nth_map_seq {A} (f : nat -> A) n i d : i < n -> nth i (map f (seq 0 n)) d = f i.
Proof.
  intro H. rewrite (nth_indep _ d (f 0)) by (rewrite map_length, seq_length; exact H).
  rewrite map_nth. rewrite seq_nth by exact H. reflexivity.
Qed.

Lemma bits_of_N_of_bits l : bits_of (N_of_bits l) (length l) = l.
Proof.
  unfold bits_of. apply nth_ext with (d := false) (d' := false).
  - rewrite map_length, seq_length. reflexivity.
  - intros n Hn. rewrite map_length, seq_length in Hn.
    rewrite nth_map_seq by exact Hn. apply N_of_bits_spec.
Qed.

Lemma pow2_nat n : N.of_nat (2 ^ n) = (2 ^ N.of_nat n)%N.
Proof. rewrite Nat2N.inj_pow. reflexivity. Qed.

Lemma Nseq_nth len : forall start i d, i < len -> nth i (Nseq start len) d = (start + N.of_nat i)%N.
Proof.
  induction len as [|len IH]; intros start i d Hi; [lia|].
  cbn [Nseq]. destruct i as [|i]; cbn [nth].
  - cbn [N.of_nat]. lia.
  - rewrite IH by lia. lia.
Qed.

Lemma Nseq_length len : forall start, length (Nseq start len) = len.
Proof. induction len as [|len IH]; intro start; cbn [Nseq length]; [reflexivity | rewrite IH; reflexivity]. Qed.

Lemma col_spec nvars v k : k < 2 ^ nvars ->
  N.testbit (col nvars v) (N.of_nat k) = N.testbit (N.of_nat k) (N.of_nat v).
Proof.
  intro Hk. unfold col. rewrite N_of_bits_spec.
  rewrite (nth_indep _ false ((fun k0 => N.testbit k0 (N.of_nat v)) 0%N)) by (rewrite map_length, Nseq_length; exact Hk).
  rewrite (map_nth (fun k0 => N.testbit k0 (N.of_nat v))).
  rewrite Nseq_nth by exact Hk. rewrite N.add_0_l. reflexivity.
Qed.

Lemma cols_lane nvars k : k < 2 ^ nvars ->
  map (fun x => N.testbit x (N.of_nat k)) (cols nvars) = bits_of (N.of_nat k) nvars.
Proof.
  intro Hk. unfold cols, bits_of. rewrite map_map. apply map_ext. intro v. apply col_spec. exact Hk.
Qed.

(** a successful sweep decides the checked relation for every boolean input row *)
Theorem sweep_sound p nvars chk :
  sweep p nvars chk = true ->
  forall rho, length rho = nvars -> chk rho (run_bool p rho) = true.
Proof.
  unfold sweep. intros Hs rho Hlen. cbv zeta in Hs.
  pose (kN := N_of_bits rho). pose (k := N.to_nat kN).
  assert (HkN : (kN < 2 ^ N.of_nat nvars)%N) by (subst kN; rewrite <- Hlen; apply N_of_bits_lt).
  assert (Hkk : N.of_nat k = kN) by (subst k; apply N2Nat.id).
  assert (Hk : k < 2 ^ nvars).
  { assert (H2 : (N.of_nat k < N.of_nat (2 ^ nvars))%N) by (rewrite Hkk, pow2_nat; exact HkN). lia. }
  pose proof (sweep_rows_spec _ _ _ _ _ Hs k Hk) as H. rewrite N.add_0_l in H.
  rewrite map_map in H.
  erewrite map_ext in H; [| intro x; apply to_bits_spec; exact Hk].
  rewrite (run_lift (N.of_nat (2 ^ nvars)) (N.of_nat k)) in H
    by (rewrite Hkk, pow2_nat; exact HkN).
  rewrite cols_lane in H by exact Hk.
  rewrite Hkk in H. subst kN. rewrite <- Hlen in H. rewrite bits_of_N_of_bits in H. exact H.
Qed.
