(** C09: every history of supported public edits that respects "well-formed use" keeps the graph consistent. *)
From Coq Require Import List Arith Bool String Lia.
From KV Require Import Model.Circuit Model.CircuitInv Proofs.CircuitBase Proofs.CircuitProofs Proofs.CircuitCopy Proofs.CircuitElim Proofs.CircuitDangling
     Proofs.CircuitResolve.
Import ListNotations.
Local Open Scope list_scope.

(* the edits whose step theorem is proved for all inputs: all twelve *)
Definition supported (o : op) : bool :=
  primitive o || match o with Copy | PickleRoundTrip | Eliminate1to1 | RemoveDangling _ | Substitute _ _ | ResolveTlib _ => true | _ => false end.
Lemma supported_all : forall o, supported o = true.
Proof. destruct o; reflexivity. Qed.

Lemma io_ok_of_live : forall c, IoLive c -> io_ok_b c = true.
Proof.
  intros c HL. unfold io_ok_b. apply forallb_forall. intros e He. destruct (HL e He) as [n [-> Hn]]. apply mem_In; auto.
Qed.

Lemma in_gset_le : forall {A} (l : list (option A)) p v e, p <= List.length l -> In e (gset l p v) -> e = v \/ In e l.
Proof.
  induction l as [|y r IH]; intros p v e Hp He.
  - simpl in Hp. assert (p = 0) by lia. subst. simpl in He. destruct He as [<-|[]]. auto.
  - destruct p as [|p]; simpl in *.
    + destruct He as [<-|He]; auto.
    + destruct He as [<-|He]; auto. destruct (IH p v e) as [E|E]; auto. lia.
Qed.

(* one step: the graph invariant, and with it "every io_nodes entry is a listed node" *)
Theorem step_inv_io : forall c o, CInv c -> IoLive c -> supported o = true -> pre c o = true ->
  exists c', step c o = Some c' /\ CInv c' /\ IoLive c'.
Proof.
  intros c o HI HL Hs Hp. pose proof HI as [HC HD]. destruct o; try discriminate; cbn [step pre] in *.
  - (* AddNode *)
    apply is_none_true in Hp.
    destruct (add_node_some c name kind Hp) as [c' Hadd]. rewrite Hadd. simpl. exists c'. split; auto.
    destruct (add_node_core [] c name kind c' (nnext c) HC Hp Hadd) as [HC' [_ [G1 [_ [G3 _]]]]].
    split. { split; auto. apply (add_node_dense [] c name kind c' (nnext c) HC HD Hp Hadd). }
    intros e He. rewrite G3 in He. destruct (HL e He) as [n [-> Hn]]. exists n. split; auto. rewrite G1. apply in_or_app; auto.
  - (* AddLine *)
    destruct (step_inv_primitive c (AddLine d dp r rp) HI eq_refl Hp) as [c' [Hc' HI']]. cbn [step] in Hc'. inv Hc'.
    eexists. split; [reflexivity|]. split; auto.
  - (* RemoveLine *)
    apply mem_In in Hp.
    destruct (line_remove_core [] c l HC Hp) as [c' [d [r [Hrm [_ [_ [HC' [F1 [F2 [F3 [F4 [F5 [F6 [F7 [F8 [F9 _]]]]]]]]]]]]]]]].
    { intros d Hd Hfk. apply (HD d); auto. destruct (cc_line [] c HC l Hp) as [d0 [r0 [H1 [_ [H3 _]]]]]. congruence. }
    destruct (line_remove_inv c l HI Hp) as [c'' [Hrm' HI']]. rewrite Hrm in Hrm'. inv Hrm'.
    exists c''. split; auto. split; auto.
    intros e He. rewrite F6 in He. destruct (HL e He) as [n [-> Hn]]. exists n. rewrite F3. auto.
  - (* RemoveNode *)
    rewrite !andb_true_iff in Hp. destruct Hp as [[[Hn Hi] Ho] Hport]. apply mem_In in Hn.
    destruct (node_remove_inv c n HI Hn) as [c' [Hrm HI']].
    { intros p. apply all_none_nth; auto. } { intros p. apply all_none_nth; auto. }
    destruct (node_remove_core [] c n HC Hn) as [c'' [Hrm' [_ [_ [_ [_ [_ [N5 [N6 _]]]]]]]]].
    rewrite Hrm in Hrm'. inv Hrm'. exists c''. split; auto. split; auto.
    intros e He. rewrite N5 in He. destruct (HL e He) as [m [-> Hm]]. exists m. split; auto. apply N6. split; auto.
    intros ->. apply negb_true_iff in Hport.
    assert (io_mem c n = true); [|congruence]. unfold io_mem. apply existsb_exists. exists (Some n). split; auto. apply Nat.eqb_refl.
  - (* SetIO *)
    apply andb_true_iff in Hp. destruct Hp as [Hpos Hn]. apply Nat.leb_le in Hpos. apply mem_In in Hn.
    eexists. split; [reflexivity|]. split. { split. apply ccore_with_io; auto. apply dense_with_io; auto. }
    intros e He. simpl in He. apply in_gset_le in He; auto. destruct He as [->|He]. exists n; auto. apply HL; auto.
  - (* GetOrAddFork *)
    unfold get_or_add_fork. destruct (dget name (forks c)) eqn:E.
    + exists c. auto.
    + assert (Hfree : name_free c name FORK) by (unfold name_free; simpl; auto).
      destruct (add_node_some c name FORK Hfree) as [c' Hadd]. rewrite Hadd. simpl. exists c'. split; auto.
      destruct (add_node_core [] c name FORK c' (nnext c) HC Hfree Hadd) as [HC' [_ [G1 [_ [G3 _]]]]].
      split. { split; auto. apply (add_node_dense [] c name FORK c' (nnext c) HC HD Hfree Hadd). }
      intros e He. rewrite G3 in He. destruct (HL e He) as [n [-> Hn]]. exists n. split; auto. rewrite G1. apply in_or_app; auto.
  - (* RemoveDangling *)
    apply mem_In in Hp. destruct (remove_dangling_step c n HI Hp) as [c' [A [B C]]]. exists c'. auto.
  - (* Eliminate1to1 *)
    destruct (eliminate_inv c HI Hp) as [c' [A [B C]]]. exists c'. auto.
  - (* Substitute *)
    apply substitute_inv; auto.
  - (* ResolveTlib *)
    apply resolve_inv; auto.
  - (* Copy *)
    destruct (copy_inv c HI Hp) as [c' [A [B [_ C]]]]. exists c'. auto.
  - (* PickleRoundTrip *)
    destruct (pickle_inv c HI Hp) as [c' [A [B [_ C]]]]. exists c'. auto.
Qed.

Theorem step_inv : forall c o, CInv c -> supported o = true -> pre c o = true ->
  exists c', step c o = Some c' /\ CInv c'.
Proof.
  intros c o HI Hs Hp. destruct (primitive o) eqn:Hprim.
  - apply step_inv_primitive; auto.
  - destruct o; try discriminate; cbn [step pre] in *.
    + apply mem_In in Hp. destruct (remove_dangling_step c n HI Hp) as [c' [A [B _]]]. exists c'. auto.
    + destruct (eliminate_inv c HI Hp) as [c' [A [B _]]]. exists c'. auto.
    + destruct (substitute_inv_gen c n impl HI Hp) as [c' [A [B _]]]. exists c'. auto.
    + destruct (resolve_inv_gen c t HI Hp) as [c' [A [B _]]]. exists c'. auto.
    + destruct (copy_inv c HI Hp) as [c' [A [B _]]]. exists c'. auto.
    + destruct (pickle_inv c HI Hp) as [c' [A [B _]]]. exists c'. auto.
Qed.

Theorem history_inv : forall ops, forallb supported ops = true -> hist_pre empty ops = true ->
  exists c, run_hist ops = Some c /\ CInv c.
Proof. intros ops Hs Hp. apply (history_lift supported step_inv ops empty cinv_empty Hs Hp). Qed.

(* ... and every io_nodes entry stays a listed node; so copy()/pickle never meet a removed port: their own
   precondition [io_ok_b] follows from the history *)
Theorem history_inv_io : forall ops c, CInv c -> IoLive c -> forallb supported ops = true -> hist_pre c ops = true ->
  exists c', run_from c ops = Some c' /\ CInv c' /\ IoLive c' /\ io_ok_b c' = true.
Proof.
  induction ops as [|o ops IH]; intros c HI HL Hs Hp; simpl in *.
  - exists c. split; [reflexivity|]. split; [exact HI|]. split; [exact HL|]. apply io_ok_of_live; auto.
  - apply andb_true_iff in Hs. destruct Hs as [Hs1 Hs2].
    apply andb_true_iff in Hp. destruct Hp as [Hp1 Hp2].
    destruct (step_inv_io c o HI HL Hs1 Hp1) as [c' [Hc' [HI' HL']]]. rewrite Hc' in *. apply IH; auto.
Qed.
Lemma io_live_empty : IoLive empty.
Proof. intros e []. Qed.

(* all twelve operations are covered: no side condition on the kind of operation is left *)
Theorem history_inv_all : forall ops, hist_pre empty ops = true ->
  exists c, run_hist ops = Some c /\ CInv c /\ IoLive c /\ io_ok_b c = true.
Proof.
  intros ops Hp. apply (history_inv_io ops empty cinv_empty io_live_empty); auto.
  apply forallb_forall. intros o _. apply supported_all.
Qed.

(** non-vacuity: the 12-step history continued by a 1:1 fork, its elimination, a copy and a pickle round trip *)
Definition example_history2 : list op :=
  example_history ++
  [ AddNode "w" FORK; AddNode "k" "INV1"; AddLine 3 None 4 None; AddLine 4 None 5 None; SetIO 1 2;
    Eliminate1to1; Copy; PickleRoundTrip; AddNode "z" FORK; RemoveDangling 3 ]%string.

Lemma example_history2_pre : hist_pre empty example_history2 = true.
Proof. vm_compute. reflexivity. Qed.
Example example_history2_inv : exists c, run_hist example_history2 = Some c /\ CInv c.
Proof. apply history_inv. reflexivity. exact example_history2_pre. Qed.
(* the fork "w" is eliminated, copy/pickle renumber the ids to the indices, and remove_dangling_nodes of the output-less
   cell "k" takes its fan-in cone away (k, h and their lines) but stops at the port "a" *)
Example example_history2_effect :
  option_map (fun c => (map (fun n => n_name (nst c n)) (nodes c), getstate c)) (run_hist example_history2)
  = Some (["a"; "z"; "b"],
          Some ([("a", FORK); ("z", FORK); ("b", FORK)], [], [0; 2]))%string.
Proof. vm_compute. reflexivity. Qed.

(** non-vacuity with substitute / resolve_tlib_cells: the instance "u" of CircuitResolve.host_two is built by the history, its output Z
    stays unconnected; substitute copies AND2/INV1 in and the deferred clean-up removes the inverter again; then resolve_tlib_cells
    replaces the BUF1 reader by the library buffer *)
Definition example_history3 : list op :=
  [ AddNode "u" "CELLA"; AddNode "a" FORK; AddNode "b" FORK; AddLine 1 None 0 (Some 0); AddLine 2 None 0 (Some 1);
    AddNode "y" FORK; AddLine 0 (Some 0) 3 None; AddNode "r" "BUF1"; AddLine 3 None 4 None; SetIO 0 1; SetIO 1 2;
    Substitute 0 impl_two; ResolveTlib [("BUF1", impl_buf)]; Eliminate1to1; Copy ]%string.
Lemma example_history3_pre : hist_pre empty example_history3 = true.
Proof. vm_compute. reflexivity. Qed.
Example example_history3_inv : exists c, run_hist example_history3 = Some c /\ CInv c /\ IoLive c /\ io_ok_b c = true.
Proof. apply history_inv_all. exact example_history3_pre. Qed.
