(** Executable well-formedness test of a netlist and its soundness: lets the hypotheses [wf_netlist] / [comb_acyclic] of the
    traversal and scheduler theorems be DISCHARGED by vm_compute on every generated circuit. *)
From Coq Require Import List Arith Bool Lia.
From KV Require Import Model.Prims Model.Netlist Model.NetlistWf Proofs.TopoProofs.
Import ListNotations.
Local Open Scope list_scope.

Definition opt_nat_eqb (a : option (option nat)) (l : nat) : bool :=
  match a with Some (Some x) => Nat.eqb x l | _ => false end.

Definition line_ok_b (c : netlist) (l : nat) : bool :=
  let ln := get_line c l in
  Nat.ltb (l_drv ln) (List.length (c_nodes c)) && Nat.ltb (l_rdr ln) (List.length (c_nodes c)) &&
  opt_nat_eqb (nth_error (n_outs (get_node c (l_drv ln))) (l_dpin ln)) l &&
  opt_nat_eqb (nth_error (n_ins (get_node c (l_rdr ln))) (l_rpin ln)) l.

Definition pins_ok_b (c : netlist) (n : nat) : bool :=
  let nd := get_node c n in
  forallb (fun kp => match snd kp with
                     | None => true
                     | Some l => Nat.ltb l (List.length (c_lines c)) && Nat.eqb (l_drv (get_line c l)) n && Nat.eqb (l_dpin (get_line c l)) (fst kp)
                     end) (combine (seq 0 (List.length (n_outs nd))) (n_outs nd)) &&
  forallb (fun kp => match snd kp with
                     | None => true
                     | Some l => Nat.ltb l (List.length (c_lines c)) && Nat.eqb (l_rdr (get_line c l)) n && Nat.eqb (l_rpin (get_line c l)) (fst kp)
                     end) (combine (seq 0 (List.length (n_ins nd))) (n_ins nd)).

Definition wf_netlist_b (c : netlist) : bool :=
  forallb (line_ok_b c) (seq 0 (List.length (c_lines c))) && forallb (pins_ok_b c) (seq 0 (List.length (c_nodes c))).

Lemma opt_nat_eqb_true a l : opt_nat_eqb a l = true -> a = Some (Some l).
Proof. destruct a as [[x|]|]; cbn; intro H; try discriminate. apply Nat.eqb_eq in H. subst. reflexivity. Qed.

Lemma combine_seq_nth {A} (l : list A) k x : nth_error l k = Some x -> In (k, x) (combine (seq 0 (List.length l)) l).
Proof.
  intro H. assert (Hk : k < List.length l) by (apply nth_error_Some; congruence).
  assert (G : forall (l0 : list A) s k0, nth_error l0 k0 = Some x -> In (s + k0, x) (combine (seq s (List.length l0)) l0)).
  { clear. induction l0 as [|y r IH]; intros s [|k0] H0; cbn in *; try discriminate.
    - inversion H0; subst. left. f_equal. lia.
    - right. replace (s + S k0) with (S s + k0) by lia. apply IH. exact H0. }
  specialize (G l 0 k H). exact G.
Qed.

Theorem wf_netlist_b_sound c : wf_netlist_b c = true -> wf_netlist c.
Proof.
  unfold wf_netlist_b. intro H. apply andb_true_iff in H. destruct H as [HL HN].
  rewrite forallb_forall in HL, HN.
  repeat split.
  - specialize (HL l (proj2 (in_seq _ _ _) (conj (Nat.le_0_l _) H))). unfold line_ok_b in HL.
    repeat (apply andb_true_iff in HL; destruct HL as [HL ?]). apply Nat.ltb_lt in HL. exact HL.
  - specialize (HL l (proj2 (in_seq _ _ _) (conj (Nat.le_0_l _) H))). unfold line_ok_b in HL.
    repeat (apply andb_true_iff in HL; destruct HL as [HL ?]).
    match goal with Hx : Nat.ltb (l_rdr _) _ = true |- _ => apply Nat.ltb_lt in Hx; exact Hx end.
  - specialize (HL l (proj2 (in_seq _ _ _) (conj (Nat.le_0_l _) H))). unfold line_ok_b in HL.
    repeat (apply andb_true_iff in HL; destruct HL as [HL ?]).
    match goal with Hx : opt_nat_eqb (nth_error (n_outs _) _) l = true |- _ => apply opt_nat_eqb_true in Hx; exact Hx end.
  - specialize (HL l (proj2 (in_seq _ _ _) (conj (Nat.le_0_l _) H))). unfold line_ok_b in HL.
    repeat (apply andb_true_iff in HL; destruct HL as [HL ?]).
    match goal with Hx : opt_nat_eqb (nth_error (n_ins _) _) l = true |- _ => apply opt_nat_eqb_true in Hx; exact Hx end.
  - specialize (HN n (proj2 (in_seq _ _ _) (conj (Nat.le_0_l _) H))). unfold pins_ok_b in HN.
    apply andb_true_iff in HN. destruct HN as [HO _]. rewrite forallb_forall in HO.
    specialize (HO _ (combine_seq_nth _ _ _ H0)). cbn [fst snd] in HO.
    repeat (apply andb_true_iff in HO; destruct HO as [HO ?]). apply Nat.ltb_lt in HO. exact HO.
  - specialize (HN n (proj2 (in_seq _ _ _) (conj (Nat.le_0_l _) H))). unfold pins_ok_b in HN.
    apply andb_true_iff in HN. destruct HN as [HO _]. rewrite forallb_forall in HO.
    specialize (HO _ (combine_seq_nth _ _ _ H0)). cbn [fst snd] in HO.
    repeat (apply andb_true_iff in HO; destruct HO as [HO ?]).
    match goal with Hx : Nat.eqb (l_drv _) n = true |- _ => apply Nat.eqb_eq in Hx; exact Hx end.
  - specialize (HN n (proj2 (in_seq _ _ _) (conj (Nat.le_0_l _) H))). unfold pins_ok_b in HN.
    apply andb_true_iff in HN. destruct HN as [HO _]. rewrite forallb_forall in HO.
    specialize (HO _ (combine_seq_nth _ _ _ H0)). cbn [fst snd] in HO.
    repeat (apply andb_true_iff in HO; destruct HO as [HO ?]).
    match goal with Hx : Nat.eqb (l_dpin _) k = true |- _ => apply Nat.eqb_eq in Hx; exact Hx end.
  - specialize (HN n (proj2 (in_seq _ _ _) (conj (Nat.le_0_l _) H))). unfold pins_ok_b in HN.
    apply andb_true_iff in HN. destruct HN as [_ HI]. rewrite forallb_forall in HI.
    specialize (HI _ (combine_seq_nth _ _ _ H0)). cbn [fst snd] in HI.
    repeat (apply andb_true_iff in HI; destruct HI as [HI ?]). apply Nat.ltb_lt in HI. exact HI.
  - specialize (HN n (proj2 (in_seq _ _ _) (conj (Nat.le_0_l _) H))). unfold pins_ok_b in HN.
    apply andb_true_iff in HN. destruct HN as [_ HI]. rewrite forallb_forall in HI.
    specialize (HI _ (combine_seq_nth _ _ _ H0)). cbn [fst snd] in HI.
    repeat (apply andb_true_iff in HI; destruct HI as [HI ?]).
    match goal with Hx : Nat.eqb (l_rdr _) n = true |- _ => apply Nat.eqb_eq in Hx; exact Hx end.
  - specialize (HN n (proj2 (in_seq _ _ _) (conj (Nat.le_0_l _) H))). unfold pins_ok_b in HN.
    apply andb_true_iff in HN. destruct HN as [_ HI]. rewrite forallb_forall in HI.
    specialize (HI _ (combine_seq_nth _ _ _ H0)). cbn [fst snd] in HI.
    repeat (apply andb_true_iff in HI; destruct HI as [HI ?]).
    match goal with Hx : Nat.eqb (l_rpin _) k = true |- _ => apply Nat.eqb_eq in Hx; exact Hx end.
Qed.

(** acyclicity certificate: Kahn's algorithm reached every node *)
Definition acyclic_b (c : netlist) : bool := Nat.eqb (List.length (topo_order c)) (List.length (c_nodes c)).

Lemma index_of_Some_in x l : In x l -> exists i, index_of x l = Some i.
Proof.
  induction l as [|y r IH]; intro H; [destruct H|]. cbn [index_of].
  destruct (Nat.eqb x y) eqn:E; [eexists; reflexivity|].
  destruct H as [H|H]; [subst; rewrite Nat.eqb_refl in E; discriminate|].
  destruct (IH H) as [i Hi]. rewrite Hi. eexists; reflexivity.
Qed.

Lemma somes_in {A} (l : list (option A)) k x : nth_error l k = Some (Some x) -> In x (somes l).
Proof.
  revert k. induction l as [|y r IH]; intros [|k] H; cbn in *; try discriminate.
  - inversion H; subst. cbn. left. reflexivity.
  - unfold somes. cbn [flat_map]. apply in_or_app. right. apply (IH k). exact H.
Qed.

Lemma connected_pos {A} (l : list (option A)) k x : nth_error l k = Some (Some x) -> 0 < connected l.
Proof.
  revert k. unfold connected. induction l as [|y r IH]; intros [|k] H; cbn in *; try discriminate.
  - inversion H; subst. cbn. lia.
  - destruct y; cbn; [lia | apply (IH k); exact H].
Qed.

Theorem acyclic_b_sound c : wf_netlist c -> acyclic_b c = true -> comb_acyclic c.
Proof.
  intros WF HA. apply Nat.eqb_eq in HA.
  destruct (topo_nodup c WF) as [ND Hlt].
  assert (Hall : forall n, n < List.length (c_nodes c) -> In n (topo_order c)).
  { intros n Hn.
    assert (I : incl (seq 0 (List.length (c_nodes c))) (topo_order c)).
    { apply NoDup_length_incl; [exact ND | rewrite seq_length; lia |].
      intros x Hx. apply in_seq. split; [lia|]. cbn. apply Hlt. exact Hx. }
    apply I. apply in_seq. lia. }
  exists (fun n => match index_of n (topo_order c) with Some i => i | None => 0 end).
  intros l Hl Hseq.
  destruct WF as [WL [WO WI]]. destruct (WL l Hl) as [Hd [Hr [Ho Hi]]].
  set (r := l_rdr (get_line c l)) in *. set (d := l_drv (get_line c l)) in *.
  destruct (index_of_Some_in r _ (Hall r Hr)) as [i Hri].
  assert (Hsrc : is_source c r = false).
  { unfold is_source. rewrite Hseq. rewrite orb_false_r. apply Nat.eqb_neq.
    pose proof (connected_pos _ _ _ Hi). lia. }
  assert (Hin : In d (drivers c r)).
  { unfold drivers. apply in_map_iff. exists l. split; [reflexivity|]. eapply somes_in. exact Hi. }
  destruct (topo_drivers_first c (conj WL (conj WO WI)) r i Hri Hsrc d Hin) as [j [Hdj Hji]].
  rewrite Hri, Hdj. exact Hji.
Qed.
