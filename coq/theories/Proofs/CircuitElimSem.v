(** C10: eliminate_1to1_forks -- exact frame of one iteration, names / set of the state elements, order of s_nodes
    (ports fixed, state elements permuted), and preservation of the gate-by-gate function (id-based semantics). *)
From Coq Require Import List Arith Bool String NArith Lia Permutation.
From KV Require Model.Prims Model.Netlist Model.NetlistWf Model.SimOps Model.NetlistSem.
From KV Require Import Model.Circuit Model.CircuitInv Model.CircuitView Model.CircuitSem
     Proofs.CircuitBase Proofs.CircuitProofs Proofs.CircuitCopy Proofs.CircuitElim Proofs.CircuitHistory Proofs.CircuitBool Proofs.CircuitViewProofs.
Import ListNotations.
Local Open Scope list_scope.

(** ** s_nodes as ids: ports in io order, then the flip-flops, then the latches in node-list order *)
Lemma find_idx_map_nth : forall (g : nat -> Netlist.node) (f : Netlist.node -> bool) (l pre : list nat),
  map (fun i => nth i (pre ++ l) 0) (Netlist.find_idx f (map g l) (List.length pre)) = filter (fun x => f (g x)) l.
Proof.
  intros g f l. induction l as [|x r IH]; intros pre; simpl; auto.
  assert (E : pre ++ x :: r = (pre ++ [x]) ++ r) by (rewrite <- app_assoc; reflexivity).
  assert (L : S (List.length pre) = List.length (pre ++ [x])) by (rewrite app_length; simpl; lia).
  destruct (f (g x)).
  - simpl. rewrite app_nth2 by lia. rewrite Nat.sub_diag. simpl. f_equal.
    rewrite E, L. apply IH.
  - rewrite E, L. apply IH.
Qed.

Lemma s_node_ids_spec : forall c, CCoreX [] c -> IoLive c ->
  s_node_ids c = io_ids c ++ filter (node_is_dff c) (nodes c) ++ filter (node_is_latch c) (nodes c).
Proof.
  intros c HC HL. unfold s_node_ids, Netlist.s_nodes. rewrite !map_app. f_equal; [|f_equal].
  - unfold view, io_ids. simpl. rewrite map_map. apply map_ext_in. intros e He.
    destruct (HL e He) as [n [-> Hn]]. simpl. apply nth_node_idx; auto.
  - unfold view. simpl. exact (find_idx_map_nth (view_node c) Netlist.is_dff (nodes c) []).
  - unfold view. simpl. exact (find_idx_map_nth (view_node c) Netlist.is_latch (nodes c) []).
Qed.

Lemma s_names_spec : forall c, CCoreX [] c -> IoLive c ->
  s_names c = map (name_of c) (io_ids c) ++ map (name_of c) (filter (node_is_dff c) (nodes c) ++ filter (node_is_latch c) (nodes c)).
Proof. intros c HC HL. unfold s_names. rewrite (s_node_ids_spec c HC HL). rewrite map_app. reflexivity. Qed.

Lemma io_ids_in : forall c n, IoLive c -> (In n (io_ids c) <-> In (Some n) (io c)).
Proof.
  intros c n HL. unfold io_ids. rewrite in_map_iff. split.
  - intros [e [E He]]. destruct (HL e He) as [m [-> _]]. subst. auto.
  - intros H. exists (Some n). auto.
Qed.

Lemma fork_kind : forall k, is_fork k = true -> k = FORK.
Proof. intros k H. unfold is_fork in H. apply String.eqb_eq in H. exact H. Qed.
Lemma fork_not_dff : forall c n, is_fork (kind_of c n) = true -> node_is_dff c n = false /\ node_is_latch c n = false.
Proof. intros c n H. unfold node_is_dff, node_is_latch. rewrite (fork_kind _ H). split; vm_compute; reflexivity. Qed.

Lemma in_ios_of_io : forall c n, In (Some n) (io c) -> in_ios c n = true.
Proof.
  intros c n H. unfold in_ios. apply existsb_exists. exists (Some n). split; auto.
  unfold node_eqb. rewrite !String.eqb_refl. reflexivity.
Qed.

(** ** exact effect of one iteration that removes the fork [n] *)
Lemma gset_gset : forall {A} (l : list (option A)) p a b, gset (gset l p a) p b = gset l p b.
Proof.
  intros A l. induction l as [|y r IH]; intros p a b.
  - induction p as [|p IHp]; simpl; auto. rewrite IHp. reflexivity.
  - destruct p as [|p]; simpl; auto. rewrite IH. reflexivity.
Qed.

Definition ElimFrame (c c' : circ) (n : nat) : Prop :=
  exists out inl tl R p,
    outs_of c n = [Some out] /\ ins_of c n = Some inl :: tl /\ all_none tl = true /\
    In out (lines c) /\ In inl (lines c) /\ In R (nodes c) /\
    l_rdr (lst c out) = Some R /\ l_rpin (lst c out) = p /\ in_at c R p = Some out /\
    in_ios c n = false /\
    io c' = io c /\
    (forall y, In y (nodes c') <-> In y (nodes c) /\ y <> n) /\
    (forall y, In y (lines c') <-> In y (lines c) /\ y <> out) /\
    (forall x, n_name (nst c' x) = n_name (nst c x) /\ n_kind (nst c' x) = n_kind (nst c x)) /\
    (forall x, x <> n -> n_outs (nst c' x) = n_outs (nst c x)) /\
    (forall x, x <> n -> n_ins (nst c' x) = if Nat.eqb x R then gset (ins_of c R) p (Some inl) else n_ins (nst c x)).

Lemma elim_one_frame : forall c n c', CInv c -> ElimOK c -> In n (nodes c) -> is_fork (kind_of c n) = true ->
  elim_one c n = Some c' -> c' = c \/ ElimFrame c c' n.
Proof.
  intros c n c' [HC HD] HOK Hn Hfk. unfold elim_one.
  destruct (in_ios c n) eqn:Hio. { intros E; injection E as <-; left; reflexivity. }
  destruct (outs_of c n) as [|oo [|oo2 orest]] eqn:Ho; try (intros E; injection E as <-; left; reflexivity).
  destruct (ins_of c n) as [|[inl|] tl] eqn:Hins; try (intros E; injection E as <-; left; reflexivity).
  assert (Htl : all_none tl = true). { apply (HOK n Hn Hfk Hio) with (l := inl); auto. rewrite Ho. reflexivity. }
  assert (Hoo : exists out, oo = Some out).
  { destruct oo as [out|]. exists out; auto. exfalso. apply (HD n (or_introl Hn) Hfk 0). rewrite Ho. simpl. lia.
    unfold out_at. rewrite Ho. reflexivity. }
  destruct Hoo as [out ->].
  assert (Hout0 : out_at c n 0 = Some out) by (unfold out_at; rewrite Ho; reflexivity).
  assert (Hinl0 : in_at c n 0 = Some inl) by (unfold in_at; rewrite Hins; reflexivity).
  destruct (cc_outs [] c HC n 0 out (or_introl Hn) Hout0) as [Hout_in [Hout_d Hout_p]].
  destruct (cc_line [] c HC out Hout_in) as [d0 [R [E1 [E2 [_ [[HR|[]] [_ E6]]]]]]].
  destruct (cc_ins [] c HC n 0 inl (or_introl Hn) Hinl0) as [Hinl_in [Hinl_r Hinl_p]].
  (* step 1: n.remove() *)
  destruct (node_remove_core [] c n HC Hn) as [c1 [Hrm1 [HC1 [N1 [N2 [N3 [N4 [N5 [N6 [N7 N8]]]]]]]]]].
  rewrite Hrm1.
  assert (Ho1 : outs_of c1 n = [Some out]). { unf. destruct (N7 n) as [_ [_ [_ A]]]. rewrite A. auto. }
  assert (Hk1 : forall x, kind_of c1 x = kind_of c x). { intros x. unf. apply N7. }
  (* step 2: out_line.remove() *)
  destruct (line_remove_core [n] c1 out HC1) as [c2 [d [r [Hrm2 [Hd2 [Hr2 [HC2 [M1 [M2 [M3 [M4 [M5 [M6 [M7 [M8 [M9 [M10 [M11 M12]]]]]]]]]]]]]]]]]].
  { rewrite N3. auto. }
  { intros d' Hd Hfk' p Hp. rewrite N4 in Hd. rewrite Hout_d in Hd. injection Hd as Hd. subst d'. rewrite Ho1 in Hp. simpl in Hp.
    assert (p = 0) by lia. subst p. unfold out_at. rewrite Ho1. discriminate. }
  rewrite Hrm2. rewrite E2.
  rewrite N4 in Hd2, Hr2. rewrite Hout_d in Hd2. injection Hd2 as Hd2. subst d. rewrite E2 in Hr2. injection Hr2 as Hr2. subst r.
  assert (Houts2 : forall x, n_outs (nst c2 x) = if Nat.eqb x n then [] else n_outs (nst c x)).
  { intros x. rewrite M9. destruct (Nat.eqb_spec x n); auto.
    - subst. unfold outs_after_remove. rewrite Hk1, Hfk. rewrite Ho1. rewrite N4, Hout_p. reflexivity.
    - apply N7. }
  assert (Hins2 : forall x, n_ins (nst c2 x) = if Nat.eqb x R then gset (ins_of c R) (l_rpin (lst c out)) None else n_ins (nst c x)).
  { intros x. rewrite M10. rewrite N4. destruct (Nat.eqb_spec x R). unf. destruct (N7 R) as [_ [_ [A _]]]. rewrite A. auto. apply N7. }
  assert (Hnk2 : forall x, n_name (nst c2 x) = n_name (nst c x) /\ n_kind (nst c2 x) = n_kind (nst c x)).
  { intros x. destruct (M8 x) as [A [B _]]. destruct (N7 x) as [C [D _]]. rewrite A, B, C, D. auto. }
  set (p := l_rpin (lst c out)) in *.
  intros E. injection E as <-.
  set (c4 := upd_node _ R _).
  assert (Hnk4 : forall x, n_name (nst c4 x) = n_name (nst c x) /\ n_kind (nst c4 x) = n_kind (nst c x)).
  { intros x. destruct (Hnk2 x) as [A B]. destruct (Hnk2 R) as [A' B']. unfold c4. unf; simpl.
    destruct (Nat.eqb_spec x R); subst; simpl; auto. }
  assert (Houts4 : forall x, n_outs (nst c4 x) = n_outs (nst c2 x)).
  { intros x. unfold c4. unf; simpl. destruct (Nat.eqb_spec x R); subst; simpl; auto. }
  assert (Hins4 : forall x, n_ins (nst c4 x) = if Nat.eqb x R then gset (n_ins (nst c2 R)) p (Some inl) else n_ins (nst c2 x)).
  { intros x. unfold c4. unf; simpl. destruct (Nat.eqb_spec x R); subst; simpl; auto. }
  assert (Hio4 : io c4 = io c). { unfold c4. simpl. rewrite M6. auto. }
  assert (Hnodes4 : nodes c4 = nodes c2) by reflexivity.
  assert (Hlines4 : lines c4 = lines c2) by reflexivity.
  right. exists out, inl, tl, R, p.
  split; [exact Ho|]. split; [exact Hins|]. split; [exact Htl|]. split; [exact Hout_in|]. split; [exact Hinl_in|].
  split; [exact HR|]. split; [exact E2|]. split; [reflexivity|]. split; [exact E6|]. split; [exact Hio|]. split; [exact Hio4|].
  split. { intros y. rewrite Hnodes4, M3. apply N6. }
  split. { intros y. rewrite Hlines4. rewrite (M7 y). rewrite N3. tauto. }
  split; [exact Hnk4|]. split.
  - intros x Hx. rewrite Houts4, Houts2. destruct (Nat.eqb_spec x n); [contradiction|reflexivity].
  - intros x Hx. rewrite Hins4, !Hins2. rewrite Nat.eqb_refl. destruct (Nat.eqb_spec x R); auto.
    apply gset_gset.
Qed.

(** ** the relation between a state and a later state of the elimination loop that the loop maintains *)
Record ElimKeep (c c' : circ) : Prop := mkEK {
  ek_io : io c' = io c;
  ek_nk : forall x, name_of c' x = name_of c x /\ kind_of c' x = kind_of c x;
  ek_sub : forall y, In y (nodes c') -> In y (nodes c);
  ek_gone : forall y, In y (nodes c) -> In y (nodes c') \/ (is_fork (kind_of c y) = true /\ ~ In (Some y) (io c));
  ek_lines : forall l, In l (lines c') -> In l (lines c)
}.

Lemma elim_keep_refl : forall c, ElimKeep c c.
Proof. intros c. constructor; auto. Qed.
Lemma elim_keep_trans : forall a b c, ElimKeep a b -> ElimKeep b c -> ElimKeep a c.
Proof.
  intros a b c [A1 A2 A3 A4 A5] [B1 B2 B3 B4 B5]. constructor.
  - congruence.
  - intros x. destruct (A2 x) as [P Q]. destruct (B2 x) as [P' Q']. split; congruence.
  - auto.
  - intros y Hy. destruct (A4 y Hy) as [H|H]; auto. destruct (B4 y H) as [H'|[H1 H2]]; auto.
    right. destruct (A2 y) as [_ Q]. rewrite Q in H1. rewrite A1 in H2. auto.
  - auto.
Qed.
Lemma elim_frame_keep : forall c c' n, is_fork (kind_of c n) = true -> ElimFrame c c' n -> ElimKeep c c'.
Proof.
  intros c c' n Hfk [out [inl [tl [R [p [F1 [F2 [F3 [F4 [F5 [F6 [F7 [F8 [F9 [F10 [F11 [F12 [F13 [F14 [F15 F16]]]]]]]]]]]]]]]]]]]].
  constructor.
  - exact F11.
  - intros x. unfold name_of, kind_of. apply F14.
  - intros y Hy. apply F12 in Hy. tauto.
  - intros y Hy. destruct (Nat.eq_dec y n) as [->|Hne].
    + right. split; auto. intros Hin. apply in_ios_of_io in Hin. congruence.
    + left. apply F12. auto.
  - intros l Hl. apply F13 in Hl. tauto.
Qed.

(** names, ports and the SET of state elements are kept; their ORDER may change *)
Lemma elim_keep_s_names : forall c c', CInv c -> IoLive c -> CInv c' -> IoLive c' -> ElimKeep c c' ->
  exists ports st st', s_names c = ports ++ st /\ s_names c' = ports ++ st' /\ Permutation st' st /\
                       List.length ports = List.length (io c) /\ ports = map (name_of c) (io_ids c).
Proof.
  intros c c' [HC _] HL [HC' _] HL' [K1 K2 K3 K4 K5].
  rewrite (s_names_spec c HC HL), (s_names_spec c' HC' HL').
  assert (Hnm : forall l, map (name_of c') l = map (name_of c) l).
  { intros l. apply map_ext. intros x. apply K2. }
  assert (Hioids : io_ids c' = io_ids c) by (unfold io_ids; rewrite K1; reflexivity).
  eexists _, _, _. split; [reflexivity|]. rewrite Hioids, !Hnm. split; [reflexivity|].
  split; [|split; [unfold io_ids; rewrite !map_length; reflexivity|reflexivity]].
  apply Permutation_map. apply Permutation_app.
  - apply NoDup_Permutation; try (apply NoDup_filter; eapply nidx_nodup; eauto).
    intros x. rewrite !filter_In. unfold node_is_dff. destruct (K2 x) as [_ ->]. split; intros [A B]; split; auto.
    destruct (K4 x A) as [H|[H _]]; auto. apply fork_not_dff in H. unfold node_is_dff in H. destruct H; congruence.
  - apply NoDup_Permutation; try (apply NoDup_filter; eapply nidx_nodup; eauto).
    intros x. rewrite !filter_In. unfold node_is_latch. destruct (K2 x) as [_ ->]. split; intros [A B]; split; auto.
    destruct (K4 x A) as [H|[H _]]; auto. apply fork_not_dff in H. unfold node_is_latch in H. destruct H; congruence.
Qed.

(** ** id-based semantics: generic facts about [gate_ok] *)
Lemma pin_gset : forall l p e k, SimOps.pin (gset l p e) k = if Nat.eqb k p then e else SimOps.pin l k.
Proof. intros l p e k. rewrite !pin_nth. apply nth_gset. Qed.
Lemma pin_in_at : forall c n k, SimOps.pin (ins_of c n) k = in_at c n k.
Proof. intros. apply pin_nth. Qed.
Lemma pin_out_at : forall c n k, SimOps.pin (outs_of c n) k = out_at c n k.
Proof. intros. apply pin_nth. Qed.
Lemma mem_iff : forall a l l', (In a l <-> In a l') -> mem a l = mem a l'.
Proof.
  intros a l l' H. destruct (mem a l) eqn:E1, (mem a l') eqn:E2; auto.
  - apply mem_In in E1. apply H in E1. apply mem_In in E1. congruence.
  - apply mem_In in E2. apply H in E2. apply mem_In in E2. congruence.
Qed.
Lemma mem_false : forall a l, ~ In a l -> mem a l = false.
Proof. intros a l H. destruct (mem a l) eqn:E; auto. apply mem_In in E. contradiction. Qed.

Section GateFacts.
Context {V : Type} (sem : N -> V -> V -> V -> V -> V) (zero : V).

Lemma gate_ok_ext : forall kind ins ins' outs ifc (v v' : nat -> V),
  (forall k, NetlistSem.pinv zero v ins k = NetlistSem.pinv zero v' ins' k) ->
  (forall k, Netlist.is_some (SimOps.pin ins k) = Netlist.is_some (SimOps.pin ins' k)) ->
  (forall k o, SimOps.pin outs k = Some o -> v o = v' o) ->
  gate_ok sem zero kind ins outs ifc v -> gate_ok sem zero kind ins' outs ifc v'.
Proof.
  intros kind ins ins' outs ifc v v' Hp Hs Ho. unfold gate_ok. rewrite <- !Hp. rewrite <- !Hs.
  destruct ifc as [s|].
  - intros [A B]. split. { intros o Hq. rewrite <- (Ho 0 o Hq). apply A; auto. }
    destruct (kind_is_dff kind).
    + intros o Hq. rewrite <- (Ho 1 o Hq). apply B; auto.
    + intros k o Hk Hq. rewrite <- (Ho k o Hq). apply (B k o); auto.
  - destruct (kind_is_fork kind).
    + intros A k o Hq. rewrite <- (Ho k o Hq). apply (A k o Hq).
    + destruct (Prims.select_lut _ _ _ _); auto. intros A o Hq. rewrite <- (Ho 0 o Hq). apply A; auto.
Qed.

Lemma gate_ok_map : forall (f : nat -> nat) kind ins outs ifc (w : nat -> V),
  gate_ok sem zero kind (map (option_map f) ins) (map (option_map f) outs) ifc w <->
  gate_ok sem zero kind ins outs ifc (fun l => w (f l)).
Proof.
  intros f kind ins outs ifc w.
  assert (Hp : forall k, NetlistSem.pinv zero w (map (option_map f) ins) k = NetlistSem.pinv zero (fun l => w (f l)) ins k).
  { intros k. unfold NetlistSem.pinv. rewrite pin_map. destruct (SimOps.pin ins k); reflexivity. }
  assert (Hs : forall k, Netlist.is_some (SimOps.pin (map (option_map f) ins) k) = Netlist.is_some (SimOps.pin ins k)).
  { intros k. rewrite pin_map. destruct (SimOps.pin ins k); reflexivity. }
  assert (Hfw : forall k o, SimOps.pin outs k = Some o -> SimOps.pin (map (option_map f) outs) k = Some (f o)).
  { intros k o H. rewrite pin_map, H. reflexivity. }
  assert (Hbw : forall k o', SimOps.pin (map (option_map f) outs) k = Some o' -> exists o, SimOps.pin outs k = Some o /\ o' = f o).
  { intros k o' H. rewrite pin_map in H. destruct (SimOps.pin outs k) as [o|]; simpl in H; [|discriminate].
    injection H as <-. exists o. auto. }
  unfold gate_ok. rewrite !Hp, !Hs.
  destruct ifc as [s|].
  - split; intros [A B]; split.
    + intros o Hq. apply (A (f o)). apply Hfw; auto.
    + destruct (kind_is_dff kind).
      * intros o Hq. apply (B (f o)). apply Hfw; auto.
      * intros k o Hk Hq. apply (B k (f o) Hk). apply Hfw; auto.
    + intros o' Hq. destruct (Hbw _ _ Hq) as [o [Hq' ->]]. apply A; auto.
    + destruct (kind_is_dff kind).
      * intros o' Hq. destruct (Hbw _ _ Hq) as [o [Hq' ->]]. apply B; auto.
      * intros k o' Hk Hq. destruct (Hbw _ _ Hq) as [o [Hq' ->]]. apply (B k o Hk); auto.
  - destruct (kind_is_fork kind).
    + split.
      * intros A k o Hq. apply (A k (f o)). apply Hfw; auto.
      * intros A k o' Hq. destruct (Hbw _ _ Hq) as [o [Hq' ->]]. apply (A k o); auto.
    + destruct (Prims.select_lut _ _ _ _); [|tauto]. split.
      * intros A o Hq. apply (A (f o)). apply Hfw; auto.
      * intros A o' Hq. destruct (Hbw _ _ Hq) as [o [Hq' ->]]. apply A; auto.
Qed.
End GateFacts.

(** ** (a) the id-based semantics IS the netlist semantics of the view *)
Lemma last_pos_some_in : forall x l i acc p, SimOps.last_pos x l i acc = Some p -> acc = Some p \/ In x l.
Proof.
  intros x l. induction l as [|y r IH]; intros i acc p H; simpl in H; auto.
  apply IH in H. destruct H as [H|H]; [|right; right; auto].
  destruct (Nat.eqb_spec x y); [right; left; auto|left; auto].
Qed.
Lemma last_pos_none_notin : forall x l i acc, SimOps.last_pos x l i acc = None -> acc = None /\ ~ In x l.
Proof.
  intros x l. induction l as [|y r IH]; intros i acc H; simpl in H; auto.
  apply IH in H. destruct H as [H1 H2]. destruct (Nat.eqb_spec x y); [discriminate|].
  split; auto. intros [E|E]; auto.
Qed.
Lemma last_pos_nth' : forall x d l i acc p, SimOps.last_pos x l i acc = Some p ->
  acc = Some p \/ (i <= p /\ p < i + List.length l /\ nth (p - i) l d = x).
Proof.
  intros x d l. induction l as [|y r IH]; intros i acc p H; simpl in H; [auto|].
  apply IH in H. destruct H as [H|(H1 & H2 & H3)].
  - destruct (Nat.eqb_spec x y); [|auto]. injection H as <-. right. subst.
    rewrite Nat.sub_diag. simpl. split; [lia|]. split; [lia|auto].
  - right. split; [lia|]. split; [simpl; lia|]. replace (p - i) with (S (p - S i)) by lia. exact H3.
Qed.

Section ViewSem.
Context {V : Type} (sem : N -> V -> V -> V -> V -> V) (zero : V).
Variable c : circ.
Hypothesis HI : CInv c.
Hypothesis HL : IoLive c.
Let HC : CCoreX [] c := proj1 HI.

Lemma in_s_node_ids : forall n, In n (nodes c) -> (In n (s_node_ids c) <-> In (node_idx c n) (Netlist.s_nodes (view c))).
Proof.
  intros n Hn. unfold s_node_ids. rewrite in_map_iff. split.
  - intros [j [E Hj]]. pose proof (s_nodes_lt c HC HL j Hj) as Hlt.
    assert (Hnth : nth_error (nodes c) j = Some n) by (rewrite (nth_error_nth' (nodes c) 0 Hlt), E; reflexivity).
    destruct (cc_nidx [] c HC j n Hnth) as [_ Hidx]. unfold node_idx. rewrite Hidx. exact Hj.
  - intros H. exists (node_idx c n). split; auto. apply nth_node_idx; auto.
Qed.

Lemma port_wire_view : forall n, NetlistSem.port_wire (view_node c n) = kind_port_wire (kind_of c n) (ins_of c n).
Proof.
  intros n. unfold NetlistSem.port_wire, kind_port_wire, view_node. simpl. rewrite pin_map.
  destruct (SimOps.pin (ins_of c n) 0); reflexivity.
Qed.

Lemma iface_corr : forall n, In n (nodes c) ->
  match NetlistSem.iface_pos (view c) (node_idx c n) with
  | Some p => ciface c n = true /\ nth p (s_node_ids c) 0 = n
  | None => ciface c n = false
  end.
Proof.
  intros n Hn. unfold NetlistSem.iface_pos, ciface. rewrite (view_get_node_idx c HC n Hn), port_wire_view.
  destruct (kind_port_wire (kind_of c n) (ins_of c n)); simpl; auto.
  destruct (SimOps.last_pos (node_idx c n) (Netlist.s_nodes (view c)) 0 None) as [p|] eqn:E.
  - split.
    + apply mem_In. apply in_s_node_ids; auto. apply last_pos_some_in in E. destruct E as [E|E]; [discriminate|auto].
    + apply (last_pos_nth' _ 0) in E. destruct E as [E|(_ & E2 & E3)]; [discriminate|].
      rewrite Nat.sub_0_r in E3. simpl in E2. unfold s_node_ids.
      rewrite (nth_indep _ 0 (nth 0 (nodes c) 0)) by (rewrite map_length; auto).
      rewrite (map_nth (fun i => nth i (nodes c) 0)). rewrite E3. apply nth_node_idx; auto.
  - apply last_pos_none_notin in E. destruct E as [_ E]. apply mem_false. intros H. apply E. apply in_s_node_ids; auto.
Qed.

Lemma csol_view : forall (stimid stimpos v w : nat -> V),
  (forall n p, In n (nodes c) -> NetlistSem.iface_pos (view c) (node_idx c n) = Some p -> stimpos p = stimid n) ->
  (forall l, In l (lines c) -> v l = w (line_idx c l)) ->
  (csol sem zero c stimid v <-> NetlistSem.solution sem zero (view c) stimpos w).
Proof.
  intros stimid stimpos v w Hst Hv.
  assert (Hnode : forall n, In n (nodes c) ->
            (cnode_ok sem zero c stimid v n <-> NetlistSem.node_ok sem zero (view c) stimpos w (node_idx c n))).
  { intros n Hn. rewrite node_ok_gate. rewrite (view_get_node_idx c HC n Hn). unfold view_node at 1 2 3. simpl.
    rewrite gate_ok_map. unfold cnode_ok.
    assert (Hif : option_map stimpos (NetlistSem.iface_pos (view c) (node_idx c n)) = (if ciface c n then Some (stimid n) else None)).
    { pose proof (iface_corr n Hn) as H. destruct (NetlistSem.iface_pos (view c) (node_idx c n)) as [p|] eqn:E.
      - destruct H as [H1 H2]. unfold ciface in *. rewrite H1. simpl. rewrite (Hst n p Hn E). reflexivity.
      - unfold ciface in *. rewrite H. reflexivity. }
    rewrite Hif.
    assert (Hpv : forall k, NetlistSem.pinv zero v (ins_of c n) k = NetlistSem.pinv zero (fun l => w (line_idx c l)) (ins_of c n) k).
    { intros k. unfold NetlistSem.pinv. destruct (SimOps.pin (ins_of c n) k) as [x|] eqn:E; auto.
      rewrite pin_in_at in E. destruct (cc_ins [] c HC n k x (or_introl Hn) E) as [Hx _]. apply Hv; auto. }
    assert (Hov : forall k o, SimOps.pin (outs_of c n) k = Some o -> v o = w (line_idx c o)).
    { intros k o E. rewrite pin_out_at in E. destruct (cc_outs [] c HC n k o (or_introl Hn) E) as [Hx _]. apply Hv; auto. }
    split; apply gate_ok_ext; auto.
    intros k o E. symmetry. eapply Hov; eauto. }
  split.
  - intros Hs i Hi. rewrite (view_nodes_len c) in Hi.
    destruct (nth_error (nodes c) i) as [n|] eqn:E. 2:{ apply nth_error_None in E. lia. }
    pose proof (nth_error_In _ _ E) as Hn. destruct (cc_nidx [] c HC i n E) as [_ Hidx].
    rewrite <- Hidx. apply Hnode; auto.
  - intros Hs n Hn. apply Hnode; auto. apply Hs. rewrite (view_nodes_len c). apply idx_lt; auto.
Qed.

(* (a1) from ids to positions *)
Theorem csol_iff_solution : forall (stim v : nat -> V),
  csol sem zero c stim v <-> NetlistSem.solution sem zero (view c) (stim_by_pos c stim) (val_by_idx c v).
Proof.
  intros stim v. apply csol_view.
  - intros n p Hn E. pose proof (iface_corr n Hn) as H. rewrite E in H. destruct H as [_ H]. unfold stim_by_pos. rewrite H. reflexivity.
  - intros l Hl. unfold val_by_idx. rewrite (nth_line_idx c HC l Hl). reflexivity.
Qed.
(* (a2) from positions to ids *)
Theorem solution_iff_csol : forall (stim w : nat -> V),
  NetlistSem.solution sem zero (view c) stim w <-> csol sem zero c (stim_by_id zero c stim) (val_by_id c w).
Proof.
  intros stim w. symmetry. apply csol_view.
  - intros n p Hn E. unfold stim_by_id. rewrite E. reflexivity.
  - intros l Hl. reflexivity.
Qed.
End ViewSem.

(** ** (b) fork elimination preserves the function *)
Lemma elim_keep_snode_in : forall c c', CInv c -> IoLive c -> CInv c' -> IoLive c' -> ElimKeep c c' ->
  forall m, In m (nodes c') -> (In m (s_node_ids c') <-> In m (s_node_ids c)).
Proof.
  intros c c' [HC _] HL [HC' _] HL' [K1 K2 K3 K4 K5] m Hm.
  rewrite (s_node_ids_spec c HC HL), (s_node_ids_spec c' HC' HL'). rewrite !in_app_iff, !filter_In.
  unfold io_ids, node_is_dff, node_is_latch. rewrite K1. destruct (K2 m) as [_ ->].
  pose proof (K3 m Hm). tauto.
Qed.

Section ElimSemantics.
Context {V : Type} (sem : N -> V -> V -> V -> V -> V) (zero : V).
(* the only assumption on the value domain: a buffer copies its first operand *)
Hypothesis Hbuf : forall x a b d, sem (SimOps.lutv "BUF1") x a b d = x.

Record ElimSem (c c' : circ) : Prop := mkES {
  es_fwd : forall stim v, csol sem zero c stim v ->
             csol sem zero c' stim v /\ forall m k, In m (nodes c') -> obs zero c v m k = obs zero c' v m k;
  es_bwd : forall stim v', csol sem zero c' stim v' ->
             exists v, csol sem zero c stim v /\ (forall l, In l (lines c') -> v l = v' l) /\
                       forall m k, In m (nodes c') -> obs zero c v m k = obs zero c' v' m k;
  es_if : forall m, In m (nodes c') -> ciface c' m = ciface c m;
  es_ifgone : forall m, In m (nodes c) -> ~ In m (nodes c') -> ciface c m = false
}.

Lemma elim_sem_refl : forall c, ElimSem c c.
Proof.
  intros c. constructor; auto.
  - intros stim v' H. exists v'. auto.
  - intros m A B. contradiction.
Qed.
Lemma elim_sem_trans : forall a b c, ElimKeep b c -> ElimSem a b -> ElimSem b c -> ElimSem a c.
Proof.
  intros a b c [K1 K2 K3 K4 K5] [A1 A2 A3 A4] [B1 B2 B3 B4]. constructor.
  - intros stim v H. destruct (A1 stim v H) as [H1 H2]. destruct (B1 stim v H1) as [H3 H4]. split; auto.
    intros m k Hm. rewrite H2 by auto. apply H4; auto.
  - intros stim v'' H. destruct (B2 stim v'' H) as [v' [H1 [H2 H3]]]. destruct (A2 stim v' H1) as [v [H4 [H5 H6]]].
    exists v. split; auto. split.
    + intros l Hl. rewrite H5 by auto. apply H2; auto.
    + intros m k Hm. rewrite H6 by auto. apply H3; auto.
  - intros m Hm. rewrite B3 by auto. apply A3; auto.
  - intros m Hm Hn. destruct (in_dec Nat.eq_dec m (nodes b)) as [Hb|Hb].
    + rewrite <- A3 by auto. apply B4; auto.
    + apply A4; auto.
Qed.

Lemma elim_frame_sem : forall c c' n, CInv c -> IoLive c -> CInv c' -> IoLive c' ->
  In n (nodes c) -> is_fork (kind_of c n) = true -> ElimFrame c c' n -> ElimSem c c'.
Proof.
  intros c c' n HI HL HI' HL' Hn Hfk HF.
  pose proof (elim_frame_keep c c' n Hfk HF) as HK.
  pose proof (elim_keep_snode_in c c' HI HL HI' HL' HK) as Hsn.
  destruct HF as [out [inl [tl [R [p [F1 [F2 [F3 [F4 [F5 [F6 [F7 [F8 [F9 [F10 [F11 [F12 [F13 [F14 [F15 F16]]]]]]]]]]]]]]]]]]]].
  pose proof HI as [HC _].
  assert (Hout0 : out_at c n 0 = Some out) by (unfold out_at; rewrite F1; reflexivity).
  destruct (cc_outs [] c HC n 0 out (or_introl Hn) Hout0) as [_ [Hout_d _]].
  assert (Hkind : forall x, kind_of c' x = kind_of c x) by (intros x; apply (ek_nk _ _ HK)).
  (* the removed fork is not an interface node, and it is a fork for the simulator as well *)
  assert (Hifn : ciface c n = false).
  { unfold ciface. replace (mem n (s_node_ids c)) with false. apply andb_false_r.
    symmetry. apply mem_false. rewrite (s_node_ids_spec c HC HL). rewrite !in_app_iff, !filter_In.
    destruct (fork_not_dff c n Hfk) as [A B]. intros [H|[[_ H]|[_ H]]]; try congruence.
    apply (io_ids_in c n HL) in H. apply in_ios_of_io in H. congruence. }
  assert (Hkf : kind_is_fork (kind_of c n) = true) by (rewrite (fork_kind _ Hfk); vm_compute; reflexivity).
  (* pins of the surviving nodes *)
  assert (Houts : forall m, m <> n -> outs_of c' m = outs_of c m) by (intros m Hm; unfold outs_of; auto).
  assert (HpinR : SimOps.pin (ins_of c R) p = Some out) by (rewrite pin_in_at; exact F9).
  assert (Hpin : forall m k, m <> n -> SimOps.pin (ins_of c' m) k =
            if Nat.eqb m R && Nat.eqb k p then Some inl else SimOps.pin (ins_of c m) k).
  { intros m k Hm. unfold ins_of at 1. rewrite (F16 m Hm). destruct (Nat.eqb_spec m R); simpl; auto.
    subst m. rewrite pin_gset. reflexivity. }
  assert (Hsome : forall m k, m <> n -> Netlist.is_some (SimOps.pin (ins_of c m) k) = Netlist.is_some (SimOps.pin (ins_of c' m) k)).
  { intros m k Hm. rewrite (Hpin m k Hm). destruct (Nat.eqb_spec m R); simpl; auto. destruct (Nat.eqb_spec k p); simpl; auto.
    subst. rewrite HpinR. reflexivity. }
  assert (Hif : forall m, In m (nodes c') -> ciface c' m = ciface c m).
  { intros m Hm. pose proof (proj1 (F12 m) Hm) as [Hmc Hmn]. unfold ciface, kind_port_wire.
    rewrite Hkind. rewrite <- (Hsome m 0 Hmn). f_equal. apply mem_iff. apply Hsn; auto. }
  (* reading through the re-connected pin *)
  assert (Hpv : forall (v v' : nat -> V) m k, m <> n -> In m (nodes c) -> v out = v' inl ->
            (forall x, x <> out -> v x = v' x) ->
            NetlistSem.pinv zero v (ins_of c m) k = NetlistSem.pinv zero v' (ins_of c' m) k).
  { intros v v' m k Hmn Hm Hvo Hvx. unfold NetlistSem.pinv. rewrite (Hpin m k Hmn).
    destruct (Nat.eqb_spec m R); simpl; [destruct (Nat.eqb_spec k p); simpl|].
    - subst. rewrite HpinR. exact Hvo.
    - destruct (SimOps.pin (ins_of c m) k) as [x|] eqn:E; auto. apply Hvx. intros ->.
      rewrite pin_in_at in E. destruct (cc_ins [] c HC m k out (or_introl Hm) E) as [_ [_ E3]]. congruence.
    - destruct (SimOps.pin (ins_of c m) k) as [x|] eqn:E; auto. apply Hvx. intros ->.
      rewrite pin_in_at in E. destruct (cc_ins [] c HC m k out (or_introl Hm) E) as [_ [E2 _]]. congruence. }
  assert (Hodrv : forall m k o, m <> n -> In m (nodes c) -> SimOps.pin (outs_of c m) k = Some o -> o <> out).
  { intros m k o Hmn Hm E ->. rewrite pin_out_at in E. destruct (cc_outs [] c HC m k out (or_introl Hm) E) as [_ [E2 _]]. congruence. }
  constructor.
  - (* every solution of c is a solution of c' *)
    intros stim v Hs.
    assert (Hvo : v out = v inl).
    { pose proof (Hs n Hn) as H. unfold cnode_ok in H. rewrite Hifn in H. unfold gate_ok in H. rewrite Hkf in H.
      rewrite (H 0 out) by (rewrite F1; reflexivity). rewrite Hbuf. unfold NetlistSem.pinv. rewrite F2. reflexivity. }
    assert (Hobs : forall m k, In m (nodes c') -> obs zero c v m k = obs zero c' v m k).
    { intros m k Hm. pose proof (proj1 (F12 m) Hm) as [Hmc Hmn]. unfold obs. apply Hpv; auto. }
    split; auto.
    intros m Hm. pose proof (proj1 (F12 m) Hm) as [Hmc Hmn]. unfold cnode_ok. rewrite (Hif m Hm), Hkind, (Houts m Hmn).
    apply (gate_ok_ext sem zero _ (ins_of c m) _ _ _ v v).
    + intros k. apply Hpv; auto.
    + intros k. apply Hsome; auto.
    + reflexivity.
    + exact (Hs m Hmc).
  - (* every solution of c' extends to one of c *)
    intros stim v' Hs.
    set (v := fun l => if Nat.eqb l out then v' inl else v' l).
    assert (Hvo : v out = v' inl) by (unfold v; rewrite Nat.eqb_refl; reflexivity).
    assert (Hvx : forall x, x <> out -> v x = v' x).
    { intros x Hx. unfold v. destruct (Nat.eqb_spec x out); congruence. }
    assert (Hvi : v inl = v' inl). { unfold v. destruct (Nat.eqb_spec inl out); reflexivity. }
    exists v. split; [|split].
    + intros m Hm. destruct (Nat.eq_dec m n) as [->|Hmn].
      * unfold cnode_ok. rewrite Hifn. unfold gate_ok. rewrite Hkf. intros k o Hq. rewrite Hbuf.
        unfold NetlistSem.pinv at 1. rewrite F2. change (SimOps.pin (Some inl :: tl) 0) with (Some inl). cbv iota. rewrite Hvi.
        rewrite F1 in Hq. destruct k as [|k]; simpl in Hq.
        -- injection Hq as <-. exact Hvo.
        -- unfold SimOps.pin in Hq. simpl in Hq. destruct k; discriminate.
      * assert (Hm' : In m (nodes c')) by (apply F12; auto).
        pose proof (Hs m Hm') as H. unfold cnode_ok in *. rewrite (Hif m Hm'), Hkind, (Houts m Hmn) in H.
        apply (gate_ok_ext sem zero _ (ins_of c' m) _ _ _ v' v).
        -- intros k. symmetry. apply Hpv; auto.
        -- intros k. symmetry. apply Hsome; auto.
        -- intros k o Hq. symmetry. apply Hvx. eapply Hodrv; eauto.
        -- exact H.
    + intros l Hl. apply Hvx. apply F13 in Hl. tauto.
    + intros m k Hm. pose proof (proj1 (F12 m) Hm) as [Hmc Hmn]. unfold obs. apply Hpv; auto.
  - exact Hif.
  - intros m Hm Hm'. destruct (Nat.eq_dec m n) as [->|Hmn]; auto. exfalso. apply Hm'. apply F12. auto.
Qed.

Lemma elim_fold_sem : forall rest c c', CInv c -> IoLive c -> ElimOK c -> NoDup rest ->
  (forall m, In m rest -> In m (nodes c) /\ is_fork (kind_of c m) = true) ->
  fold_opt elim_one rest c = Some c' -> CInv c' /\ IoLive c' /\ ElimKeep c c' /\ ElimSem c c'.
Proof.
  induction rest as [|n rest IH]; intros c c' HI HL HOK Hnd Hall Hf; simpl in Hf.
  - injection Hf as <-. split; auto. split; auto. split. apply elim_keep_refl. apply elim_sem_refl.
  - inversion Hnd as [|? ? Hnin Hnd']; subst. destruct (Hall n (or_introl eq_refl)) as [Hn Hfk].
    destruct (elim_one_inv c n HI HOK Hn Hfk) as [c1 [Hc1 [HI1 [HOK1 [Hkeep Hio1]]]]].
    rewrite Hc1 in Hf. pose proof (Hio1 HL) as HL1.
    assert (Hstep : ElimKeep c c1 /\ ElimSem c c1).
    { destruct (elim_one_frame c n c1 HI HOK Hn Hfk Hc1) as [->|HF].
      - split. apply elim_keep_refl. apply elim_sem_refl.
      - split. eapply elim_frame_keep; eauto. eapply elim_frame_sem; eauto. }
    destruct Hstep as [HK1 HS1].
    destruct (IH c1 c' HI1 HL1 HOK1 Hnd') as [A [B [C D]]]; auto.
    + intros m Hm. destruct (Hall m (or_intror Hm)) as [A B].
      assert (Hmn : m <> n) by (intros ->; auto).
      destruct (Hkeep m Hmn A) as [C D]. rewrite D. auto.
    + split; auto. split; auto. split. eapply elim_keep_trans; eauto. eapply elim_sem_trans; eauto.
Qed.

Theorem eliminate_sem : forall c c', CInv c -> IoLive c -> elim_ok_b c = true -> eliminate_1to1 c = Some c' ->
  CInv c' /\ IoLive c' /\ ElimKeep c c' /\ ElimSem c c'.
Proof.
  intros c c' HI HL Hok He. pose proof HI as [HC HD]. unfold eliminate_1to1 in He.
  assert (Hvals : forall m, In m (map snd (forks c)) -> In m (nodes c) /\ is_fork (kind_of c m) = true).
  { intros m Hm. apply in_map_iff in Hm. destruct Hm as [[s m'] [E Hin]]. simpl in E. subst m'.
    apply (cc_forks [] c HC) in Hin. tauto. }
  apply (elim_fold_sem (map snd (forks c)) c c'); auto.
  - intros m Hm Hfk Hio Hlen.
    unfold elim_ok_b in Hok. rewrite forallb_forall in Hok.
    assert (Hin : In m (map snd (forks c))).
    { apply in_map_iff. exists (name_of c m, m). split; auto. apply (cc_forks [] c HC). auto. }
    specialize (Hok m Hin). rewrite Hio, Hlen in Hok. simpl in Hok.
    intros l tl Hl. rewrite Hl in Hok. exact Hok.
  - apply (dict_values_nodup (forks c) (name_of c)). apply (cc_forks_nd [] c HC).
    intros s m H. apply (cc_forks [] c HC) in H. tauto.
Qed.
End ElimSemantics.

(** ** the statements of Properties/C10.v *)
Theorem eliminate_function : forall V (sem : N -> V -> V -> V -> V -> V) (zero : V),
  (forall x a b d, sem (SimOps.lutv "BUF1") x a b d = x) ->
  forall c c', CInv c -> IoLive c -> elim_ok_b c = true -> eliminate_1to1 c = Some c' ->
  CInv c' /\ IoLive c' /\
  io c' = io c /\ (forall x, name_of c' x = name_of c x /\ kind_of c' x = kind_of c x) /\
  (forall m, In m (nodes c') -> In m (nodes c)) /\ (forall l, In l (lines c') -> In l (lines c)) /\
  (forall m, In m (nodes c) -> In m (nodes c') \/ (is_fork (kind_of c m) = true /\ ciface c m = false)) /\
  (forall m, (In m (nodes c') /\ ciface c' m = true) <-> (In m (nodes c) /\ ciface c m = true)) /\
  (forall stim v, csol sem zero c stim v ->
     csol sem zero c' stim v /\ forall m k, In m (nodes c') -> obs zero c v m k = obs zero c' v m k) /\
  (forall stim v', csol sem zero c' stim v' ->
     exists v, csol sem zero c stim v /\ (forall l, In l (lines c') -> v l = v' l) /\
               forall m k, In m (nodes c') -> obs zero c v m k = obs zero c' v' m k).
Proof.
  intros V sem zero Hbuf c c' HI HL Hok He.
  destruct (eliminate_sem sem zero Hbuf c c' HI HL Hok He) as [HI' [HL' [[K1 K2 K3 K4 K5] [S1 S2 S3 S4]]]].
  split; auto. split; auto. split; auto. split; auto. split; auto. split; auto. split; [|split; [|split; auto]].
  - intros m Hm. destruct (in_dec Nat.eq_dec m (nodes c')) as [H|H]; [left; auto|right].
    destruct (K4 m Hm) as [H'|[H' _]]; [contradiction|]. split; auto.
  - intros m. split.
    + intros [A B]. split; auto. rewrite <- S3; auto.
    + intros [A B]. destruct (in_dec Nat.eq_dec m (nodes c')) as [H|H].
      * split; auto. rewrite S3; auto.
      * rewrite (S4 m A H) in B. discriminate.
Qed.

(* the same at the level of the netlist views (what the simulators are built from): transported along ids *)
Theorem eliminate_solution_view : forall V (sem : N -> V -> V -> V -> V -> V) (zero : V),
  (forall x a b d, sem (SimOps.lutv "BUF1") x a b d = x) ->
  forall c c', CInv c -> IoLive c -> elim_ok_b c = true -> eliminate_1to1 c = Some c' ->
  (forall stim v, NetlistSem.solution sem zero (view c) (stim_by_pos c stim) (val_by_idx c v) ->
                  NetlistSem.solution sem zero (view c') (stim_by_pos c' stim) (val_by_idx c' v)) /\
  (forall stim v', NetlistSem.solution sem zero (view c') (stim_by_pos c' stim) (val_by_idx c' v') ->
     exists v, NetlistSem.solution sem zero (view c) (stim_by_pos c stim) (val_by_idx c v) /\
               forall l, In l (lines c') -> v l = v' l).
Proof.
  intros V sem zero Hbuf c c' HI HL Hok He.
  destruct (eliminate_sem sem zero Hbuf c c' HI HL Hok He) as [HI' [HL' [_ [S1 S2 _ _]]]].
  split.
  - intros stim v H. apply (csol_iff_solution sem zero c' HI' HL'). apply S1. apply (csol_iff_solution sem zero c HI HL). exact H.
  - intros stim v' H. apply (csol_iff_solution sem zero c' HI' HL') in H. destruct (S2 stim v' H) as [v [A [B _]]].
    exists v. split; auto. apply (csol_iff_solution sem zero c HI HL). exact A.
Qed.

Theorem eliminate_s_names : forall c c', CInv c -> IoLive c -> elim_ok_b c = true -> eliminate_1to1 c = Some c' ->
  exists ports st st', s_names c = ports ++ st /\ s_names c' = ports ++ st' /\ Permutation st' st /\
                       List.length ports = List.length (io c) /\ ports = map (name_of c) (io_ids c).
Proof.
  intros c c' HI HL Hok He.
  destruct (eliminate_sem (fun (_ : N) (x _ _ _ : bool) => x) false (fun x _ _ _ => eq_refl) c c' HI HL Hok He) as [HI' [HL' [HK _]]].
  apply elim_keep_s_names; auto.
Qed.
Corollary eliminate_s_names_perm : forall c c', CInv c -> IoLive c -> elim_ok_b c = true -> eliminate_1to1 c = Some c' ->
  Permutation (s_names c') (s_names c).
Proof.
  intros c c' HI HL Hok He. destruct (eliminate_s_names c c' HI HL Hok He) as [p [st [st' [A [B [C _]]]]]].
  rewrite A, B. apply Permutation_app_head. exact C.
Qed.

(* the hypothesis on the value domain holds for the 2-valued LUT interpretation *)
Lemma sem_lut_buf : forall x a b d, NetlistSem.sem_lut (SimOps.lutv "BUF1") x a b d = x.
Proof. intros [|] [|] [|] [|]; vm_compute; reflexivity. Qed.

(** ** known finding D29: the ORDER of the state elements is not preserved *)
Definition order_history : list op :=
  [AddNode "i" "input"; AddNode "f" FORK; AddNode "d1" "DFF"; AddNode "o" "output"; AddNode "f2" FORK; AddNode "d2" "DFF";
   AddLine 0 None 1 None; AddLine 1 None 2 None; AddLine 2 None 4 None; AddLine 4 None 5 None; AddLine 5 None 3 None;
   SetIO 0 0; SetIO 1 3].
Definition order_c : circ := match run_hist order_history with Some c => c | None => empty end.
Definition order_c' : circ := match eliminate_1to1 order_c with Some c => c | None => empty end.

Lemma order_c_run : run_hist order_history = Some order_c /\ hist_pre empty order_history = true.
Proof.
  split; [|vm_compute; reflexivity].
  unfold order_c. destruct (run_hist order_history) eqn:E; [reflexivity|vm_compute in E; discriminate].
Qed.
Lemma order_c_inv : CInv order_c /\ IoLive order_c /\ elim_ok_b order_c = true.
Proof.
  split. { apply cinv_b_sound. vm_compute. reflexivity. }
  split. { apply io_live_of_ok. vm_compute. reflexivity. }
  vm_compute. reflexivity.
Qed.
Lemma order_c_elim : eliminate_1to1 order_c = Some order_c'.
Proof. unfold order_c'. destruct (eliminate_1to1 order_c) eqn:E; [reflexivity|vm_compute in E; discriminate]. Qed.
Lemma order_names : s_names order_c = ["i"; "o"; "d1"; "d2"]%string /\ s_names order_c' = ["i"; "o"; "d2"; "d1"]%string.
Proof. split; vm_compute; reflexivity. Qed.

Theorem eliminate_state_order_refuted :
  exists c c', run_hist order_history = Some c /\ hist_pre empty order_history = true /\
               CInv c /\ IoLive c /\ elim_ok_b c = true /\ eliminate_1to1 c = Some c' /\
               s_names c = ["i"; "o"; "d1"; "d2"]%string /\ s_names c' = ["i"; "o"; "d2"; "d1"]%string /\
               s_names c' <> s_names c /\ Permutation (s_names c') (s_names c).
Proof.
  exists order_c, order_c'. destruct order_c_run as [A B]. destruct order_c_inv as [C [D E]]. destruct order_names as [F G].
  split; [exact A|]. split; [exact B|]. split; [exact C|]. split; [exact D|]. split; [exact E|]. split; [exact order_c_elim|].
  split; [exact F|]. split; [exact G|]. split.
  - rewrite F, G. discriminate.
  - exact (eliminate_s_names_perm order_c order_c' C D E order_c_elim).
Qed.
