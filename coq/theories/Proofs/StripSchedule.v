(** C07 with fork stripping: the op list SimOps builds with strip_forks=True, read through the stems that
    [build_stems] computes, is in single-assignment topological form, for EVERY well-formed combinationally acyclic
    netlist -- hence its greedy levelisation is a checked schedule ([levels_valid]).
      P1 [stemmed_spec]          what [stemmed stems l] is: the line from which the chain of "__fork__" nodes
                                 driving [l] starts ([stem_walk]); lines not driven by such a fork stand for themselves;
      P2 [build_ops_ssa_strip]   ssa_topo stems (nl+1) (build_ops c true) = true;
      P3 [build_ops_strip_bounds] every op index (through the stems) is inside the signal table;
      P4 [build_levels_valid_strip] the published level partition passes [sched_check] through the stems.
    No side condition beyond [build_stems ... = Some stems] is needed: in particular NOT the spelling condition
    of C06_strip_forks_irrelevant (a node "__FORK__" is stripped but not aliased: the VALUES are wrong -- see
    SemCompose.StripCounter -- but the schedule is still a valid one, [Upper] below).
    [build_stems] = None happens only if a stem walk runs out of fuel, which is impossible for well-formed acyclic
    netlists ([build_stems_total]). *)
From Coq Require Import List NArith ZArith Bool Arith Lia String Permutation.
From KV Require Import Model.Prims Model.Netlist Model.NetlistWf Model.Heap Model.SimOps Model.AllocCheck Model.SimOpsCert Model.NetlistSem
     Gen.SimTables Proofs.TopoProofs Proofs.AllocProofs Proofs.SemProofs Proofs.SemCompose Proofs.WfCheck.
Import List.
Import ListNotations.
Local Open Scope list_scope.

(* ------------------------------------------------------------------------------------------------ *)
(** * Single-assignment topological form through an alias map *)

Fixpoint ssa_pa (al : nat -> nat) (scratch : nat) (ops : list sop) : Prop :=
  match ops with
  | [] => True
  | o :: r =>
      (s_out o = scratch \/ ~ In (s_out o) (map s_out r)) /\
      (forall x, In x [s_i0 o; s_i1 o; s_i2 o; s_i3 o] -> al x <> scratch /\ ~ In (al x) (map s_out r)) /\
      ssa_pa al scratch r
  end.

Lemma ssa_pa_of_splits al scratch : forall ops,
  (forall pre o post, ops = pre ++ o :: post ->
     (s_out o = scratch \/ ~ In (s_out o) (map s_out post)) /\
     (forall x, In x [s_i0 o; s_i1 o; s_i2 o; s_i3 o] -> al x <> scratch /\ ~ In (al x) (map s_out post))) ->
  ssa_pa al scratch ops.
Proof.
  induction ops as [|o r IH]; intros H; [exact I|].
  destruct (H [] o r eq_refl) as [H1 H2]. cbn [ssa_pa]. split; [exact H1|]. split; [exact H2|].
  apply IH. intros pre o' post E. apply (H (o :: pre) o' post). rewrite E. reflexivity.
Qed.

Lemma ssa_pa_topo stems scratch : forall ops, ssa_pa (stemmed stems) scratch ops -> ssa_topo stems scratch ops = true.
Proof.
  induction ops as [|o r IH]; intros H; [reflexivity|].
  cbn [ssa_pa] in H. destruct H as (H1 & H2 & H3). cbn [ssa_topo].
  rewrite (IH H3), andb_true_r. apply andb_true_iff. split.
  - destruct H1 as [H1|H1].
    + apply Nat.eqb_eq in H1. rewrite H1. reflexivity.
    + rewrite (not_in_existsb _ _ H1). apply orb_true_r.
  - apply forallb_forall. intros y Hy. unfold reads in Hy. apply in_map_iff in Hy. destruct Hy as (x & <- & Hx).
    destruct (H2 x Hx) as (N1 & N3).
    apply Nat.eqb_neq in N1. rewrite N1, (not_in_existsb _ _ N3). reflexivity.
Qed.

(* ------------------------------------------------------------------------------------------------ *)
(** * P1: what the stems are *)

(** [is_stem_of c s l]: going from line [l] towards the drivers through nodes of kind "__fork__" (input pin 0)
    one arrives at line [s], whose driver is not such a fork (or is a fork without input line) *)
Inductive is_stem_of (c : netlist) : nat -> nat -> Prop :=
| stem_here l :
    (String.eqb (n_kind (get_node c (l_drv (get_line c l)))) "__fork__" = false \/
     pin (n_ins (get_node c (l_drv (get_line c l)))) 0 = None) -> is_stem_of c l l
| stem_up l l' s :
    String.eqb (n_kind (get_node c (l_drv (get_line c l)))) "__fork__" = true ->
    pin (n_ins (get_node c (l_drv (get_line c l)))) 0 = Some l' -> is_stem_of c s l' -> is_stem_of c s l.

Lemma stem_walk_is_stem c : forall f l s, stem_walk f c l = Some s -> is_stem_of c s l.
Proof.
  induction f as [|f IH]; intros l s H; [discriminate|].
  rewrite stem_walk_S in H.
  destruct (String.eqb (n_kind (get_node c (l_drv (get_line c l)))) "__fork__") eqn:Ek.
  - destruct (pin (n_ins (get_node c (l_drv (get_line c l)))) 0) as [l'|] eqn:Ep.
    + apply (stem_up c l l' s Ek Ep). apply IH. exact H.
    + injection H as <-. apply stem_here. right. exact Ep.
  - injection H as <-. apply stem_here. left. exact Ek.
Qed.

Lemma is_stem_unique c s l : is_stem_of c s l -> forall s', is_stem_of c s' l -> s = s'.
Proof.
  induction 1 as [l Hl|l l' s Hk Hp Hs IH]; intros s' H'.
  - inversion H' as [l0 Hl0|l0 l0' s0 Hk0 Hp0 Hs0]; subst; [reflexivity|].
    destruct Hl as [Hl|Hl]; congruence.
  - inversion H' as [l0 Hl0|l0 l0' s0 Hk0 Hp0 Hs0]; subst.
    + destruct Hl0 as [Hl0|Hl0]; congruence.
    + rewrite Hp in Hp0. injection Hp0 as <-. apply IH. exact Hs0.
Qed.

Section StripSched.
  Variable c : netlist.
  Hypothesis WF : wf_netlist c.
  Hypothesis AC : comb_acyclic c.
  Variable len : nat.
  Variable stems : list Z.
  Hypothesis Hlen : length (c_lines c) <= len.
  Hypothesis Hst : build_stems c true len = Some stems.
  Notation nl := (length (c_lines c)).
  Notation NN := (length (c_nodes c)).
  Notation drv l := (l_drv (get_line c l)).
  Notation al := (stemmed stems).

  (** every signal index stands for THE stem of its fork chain (indices that are not lines stand for themselves);
      the stem is a line, and its driver comes strictly earlier in the topological order than the driver of
      any other line it stands for *)
  Lemma stemmed_spec x :
    (x < nl -> is_stem_of c (al x) x /\ al x < nl /\ (al x = x \/ posLt c (drv (al x)) (drv x))) /\
    (nl <= x -> al x = x).
  Proof.
    split; [|apply (alias_ge c WF len stems Hlen Hst)].
    intros Hx. split; [|apply (alias_lt c WF AC len stems Hlen Hst x Hx)].
    destruct (String.eqb (n_kind (get_node c (drv x))) "__fork__") eqn:Ek.
    - destruct (pin (n_ins (get_node c (drv x))) 0) as [l0|] eqn:Ep.
      + destruct (alias_stem c WF len stems Hlen Hst x l0 Hx Ek Ep) as (s & Hs & ->).
        apply (stem_up c x l0 s Ek Ep). apply (stem_walk_is_stem c _ _ _ Hs).
      + rewrite (alias_plain c WF len stems Hlen Hst); [apply stem_here; right; exact Ep|].
        intros (_ & _ & H). congruence.
    - rewrite (alias_plain c WF len stems Hlen Hst); [apply stem_here; left; exact Ek|].
      intros (_ & H & _). congruence.
  Qed.

  (** a stem stands for itself *)
  Lemma stemmed_idem x : al (al x) = al x.
  Proof.
    destruct (Nat.lt_ge_cases x nl) as [Hx|Hx].
    - destruct (proj1 (stemmed_spec x) Hx) as (Hs & Hl & _).
      assert (G : forall s l, is_stem_of c s l -> is_stem_of c s s).
      { induction 1 as [l Hl'|l l' s Hk Hp Hs' IH]; [apply stem_here; exact Hl'|exact IH]. }
      destruct (proj1 (stemmed_spec (al x)) Hl) as (Hs2 & _).
      apply (is_stem_unique c _ _ Hs2 _ (G _ _ Hs)).
    - rewrite (proj2 (stemmed_spec x) Hx). apply (proj2 (stemmed_spec x) Hx).
  Qed.

  Lemma build_ops_ssa_pa_strip : ssa_pa al (nl + 1) (build_ops c true).
  Proof.
    apply ssa_pa_of_splits. intros pre o post E.
    destruct (core_t c WF AC len stems Hlen Hst pre o post E) as [H1 H2]. split; [exact H1|].
    intros x Hx. destruct (H2 x Hx) as (A & _ & B). auto.
  Qed.

  Lemma build_ops_strip_bounds_gen o : In o (build_ops c true) ->
    s_out o < nl + 3 + 2 * length (s_nodes c) /\
    Forall (fun x => x < nl + 3 + 2 * length (s_nodes c)) (map al [s_i0 o; s_i1 o; s_i2 o; s_i3 o]).
  Proof.
    intros Ho. destruct (in_build_t_inv c WF o Ho) as (m & Hm & Hom & _).
    pose proof (in_build c WF AC m o Hm Hom) as Hof.
    destruct (build_ops_bounds c WF o Hof) as [B1 B2]. cbv zeta in B1, B2. split; [exact B1|].
    apply Forall_forall. intros y Hy. apply in_map_iff in Hy. destruct Hy as (x & <- & Hx).
    rewrite Forall_forall in B2. specialize (B2 x Hx).
    destruct (Nat.lt_ge_cases x nl) as [Hl|Hl].
    - destruct (proj1 (stemmed_spec x) Hl) as (_ & H & _). lia.
    - rewrite (proj2 (stemmed_spec x) Hl). exact B2.
  Qed.
End StripSched.

(** the stem walk never runs out of fuel on a well-formed acyclic netlist: build_stems is total *)
Section Total.
  Variable c : netlist.
  Hypothesis WF : wf_netlist c.
  Hypothesis AC : comb_acyclic c.
  Notation nl := (length (c_lines c)).
  Notation NN := (length (c_nodes c)).
  Notation drv l := (l_drv (get_line c l)).
  Notation T := (topo_order c).

  Definition tpos (n : nat) : nat := match index_of n T with Some i => i | None => 0 end.

  Lemma tpos_lt n : n < NN -> tpos n < NN.
  Proof.
    intros Hn. unfold tpos.
    assert (Hin : In n T).
    { apply (Permutation_in _ (Permutation_sym (topo_complete c WF AC))). apply in_seq. lia. }
    destruct (index_of_In _ _ Hin) as (i & Hi & Hl). rewrite Hi.
    rewrite (Permutation_length (topo_complete c WF AC)), seq_length in Hl. exact Hl.
  Qed.

  Lemma walk_fuel : forall f l, l < nl -> tpos (drv l) < f -> exists s, stem_walk f c l = Some s.
  Proof.
    induction f as [|f IH]; intros l Hl Hf; [lia|].
    rewrite stem_walk_S. destruct (String.eqb (n_kind (get_node c (drv l))) "__fork__") eqn:Ek; [|eauto].
    destruct (pin (n_ins (get_node c (drv l))) 0) as [l'|] eqn:Ep; [|eauto].
    pose proof (wf_drv_lt c WF l Hl) as Hd. pose proof (pin_somes _ _ _ Ep) as Hin.
    apply (wf_in_ins c WF _ l' Hd) in Hin. destruct Hin as [Hl' Hr].
    apply IH; [exact Hl'|].
    assert (Hs : is_source c (drv l) = false).
    { unfold is_source. rewrite (fork_not_seq _ Ek), orb_false_r. apply Nat.eqb_neq.
      rewrite connected_somes. apply pin_somes in Ep. destruct (somes _); [destruct Ep|discriminate]. }
    assert (Hin : In (drv l) T).
    { apply (Permutation_in _ (Permutation_sym (topo_complete c WF AC))). apply in_seq. lia. }
    destruct (index_of_In _ _ Hin) as (i & Hi & _).
    destruct (topo_drivers_first c WF (drv l) i Hi Hs (drv l')) as (j & Hj & Hji).
    { unfold drivers. apply (in_map (fun l0 => l_drv (get_line c l0))). apply (wf_in_ins c WF _ l' Hd). auto. }
    unfold tpos in *. rewrite Hi in Hf. rewrite Hj. lia.
  Qed.

  Lemma fold_stems_total len : forall rest st, (forall f, In f rest -> In f (c_nodes c)) ->
    exists stems, fold_left (stem_step c len) rest (Some st) = Some stems.
  Proof.
    induction rest as [|f rest IH]; intros st Hsub; [eexists; reflexivity|].
    cbn [fold_left]. unfold stem_step at 2.
    assert (Hsub' : forall f', In f' rest -> In f' (c_nodes c)) by (intros f' H'; apply Hsub; right; exact H').
    destruct (String.eqb (n_kind f) "__fork__") eqn:Ek; [|apply IH; exact Hsub'].
    destruct (pin (n_ins f) 0) as [l0|] eqn:Ep; [|apply IH; exact Hsub'].
    assert (Hf : In f (c_nodes c)) by (apply Hsub; left; reflexivity).
    apply (In_nth _ _ dnode) in Hf. destruct Hf as (n & Hn & Ef). change (get_node c n = f) in Ef.
    pose proof (pin_somes _ _ _ Ep) as Hin. rewrite <- Ef in Hin.
    apply (wf_in_ins c WF n l0 Hn) in Hin. destruct Hin as [Hl0 _].
    destruct (walk_fuel (S NN) l0 Hl0) as [s Hs].
    { pose proof (tpos_lt _ (wf_drv_lt c WF l0 Hl0)). lia. }
    rewrite Hs. apply IH. exact Hsub'.
  Qed.

  Lemma build_stems_total len : exists stems, build_stems c true len = Some stems.
  Proof. rewrite build_stems_eq. apply fold_stems_total. auto. Qed.
End Total.

Theorem build_ops_ssa_strip c stems : wf_netlist c -> comb_acyclic c ->
  build_stems c true (length (c_lines c) + 3 + 2 * length (s_nodes c)) = Some stems ->
  ssa_topo stems (length (c_lines c) + 1) (build_ops c true) = true.
Proof.
  intros WF AC Hst. apply ssa_pa_topo.
  assert (Hlen : length (c_lines c) <= length (c_lines c) + 3 + 2 * length (s_nodes c)) by lia.
  apply (build_ops_ssa_pa_strip c WF AC _ stems Hlen Hst).
Qed.

Theorem build_ops_strip_bounds c stems : wf_netlist c -> comb_acyclic c ->
  let len := length (c_lines c) + 3 + 2 * length (s_nodes c) in
  build_stems c true len = Some stems ->
  forall o, In o (build_ops c true) ->
    s_out o < len /\ Forall (fun x => x < len) (map (stemmed stems) [s_i0 o; s_i1 o; s_i2 o; s_i3 o]).
Proof.
  intros WF AC len Hst o Ho. unfold len in *.
  assert (Hlen : length (c_lines c) <= length (c_lines c) + 3 + 2 * length (s_nodes c)) by lia.
  apply (build_ops_strip_bounds_gen c WF AC _ stems Hlen Hst o Ho).
Qed.

Theorem build_levels_valid_strip c stems : wf_netlist c -> comb_acyclic c ->
  let nl := length (c_lines c) in let len := nl + 3 + 2 * length (s_nodes c) in
  build_stems c true len = Some stems ->
  sched_check (stemmed stems) (nl + 1)
    (split_levels (rev (ls_starts (levelize stems (build_ops c true) len))) (build_ops c true) 0) = true.
Proof.
  intros WF AC nl len Hst. unfold nl, len in *. apply levels_valid.
  - apply build_ops_ssa_strip; assumption.
  - apply (build_ops_strip_bounds c stems WF AC Hst).
Qed.

(** the stems exist: [build_stems] does not fail on a well-formed acyclic netlist *)
Theorem build_stems_defined c len : wf_netlist c -> comb_acyclic c -> exists stems, build_stems c true len = Some stems.
Proof. intros WF AC. apply build_stems_total; assumption. Qed.

(* ------------------------------------------------------------------------------------------------ *)
(** * The level partition [build] publishes, for EVERY option setting *)

Lemma build_fields c caps cmin reuse strip so : build c caps cmin reuse strip = Some so ->
  exists stems, build_stems c strip (length (c_lines c) + 3 + 2 * length (s_nodes c)) = Some stems /\
    so_ops so = build_ops c strip /\ so_stems so = stems /\
    so_level_starts so = rev (ls_starts (levelize stems (build_ops c strip) (length (c_lines c) + 3 + 2 * length (s_nodes c)))) /\
    so_nlines so = length (c_lines c) /\ so_slen so = length (s_nodes c).
Proof.
  replace (length (c_lines c) + 3 + 2 * length (s_nodes c))
    with (length (c_lines c) + 3 + length (s_nodes c) + length (s_nodes c)) by lia.
  unfold build. cbv zeta.
  destruct (build_stems c strip (length (c_lines c) + 3 + length (s_nodes c) + length (s_nodes c))) as [stems|]; [|discriminate].
  match goal with |- context [match ?X with pair _ _ => _ end] => destruct X as [locs7 caps7] end.
  match goal with |- context [match ?X with pair _ _ => _ end] => destruct X as [[locs8 caps8] ok8] end.
  match goal with |- (if ?B then _ else _) = _ -> _ => destruct B end; [|discriminate].
  intros H. injection H as <-. exists stems. cbn [so_ops so_stems so_level_starts so_nlines so_slen]. repeat split; reflexivity.
Qed.

Lemma build_stems_off c len : build_stems c false len = Some (repeat (-1)%Z len).
Proof. reflexivity. Qed.

Lemma existsb_ext_in {A} (f g : A -> bool) l : (forall x, In x l -> f x = g x) -> existsb f l = existsb g l.
Proof.
  induction l as [|a l IH]; intros H; [reflexivity|]. cbn [existsb].
  rewrite (H a (or_introl eq_refl)), IH; [reflexivity|]. intros x Hx. apply H. right. exact Hx.
Qed.

Lemma forallb_ext_in' {A} (f g : A -> bool) l : (forall x, In x l -> f x = g x) -> forallb f l = forallb g l.
Proof.
  induction l as [|a l IH]; intros H; [reflexivity|]. cbn [forallb].
  rewrite (H a (or_introl eq_refl)), IH; [reflexivity|]. intros x Hx. apply H. right. exact Hx.
Qed.

(** operands of every op lie below the PPO area *)
Lemma fops_opnd_lt_ppo c m o x : wf_netlist c -> m < length (c_nodes c) -> In o (fops c m) ->
  In x [s_i0 o; s_i1 o; s_i2 o; s_i3 o] -> x < length (c_lines c) + 3 + length (s_nodes c).
Proof.
  intros WF Hm Ho Hx. rewrite fops_eq in Ho. destruct (iface_pos c m) as [p|] eqn:Ei.
  - apply iface_pos_lt in Ei. apply in_iface_ops in Ho. destruct Ho as (_ & E0 & E1 & E2 & E3).
    rewrite E0, E1, E2, E3 in Hx. cbn [In] in Hx. lia.
  - apply in_gate_ops in Ho. destruct Ho as [_ Ho]. destruct (Ho x Hx) as [->|E]; [lia|].
    apply (wf_in_ins c WF m x Hm) in E. lia.
Qed.

Lemma in_opnd_lt_ppo c strip o x : wf_netlist c -> In o (build_ops c strip) ->
  In x [s_i0 o; s_i1 o; s_i2 o; s_i3 o] -> x < length (c_lines c) + 3 + length (s_nodes c).
Proof.
  intros WF Ho Hx. destruct strip.
  - destruct (in_build_t_inv c WF o Ho) as (m & Hm & Hom & _). apply (fops_opnd_lt_ppo c m o x WF Hm Hom Hx).
  - rewrite build_ops_eq in Ho. apply in_flat_map in Ho. destruct Ho as (m & Hm & Hom).
    destruct (topo_nodup c WF) as [_ Hlt]. apply (fops_opnd_lt_ppo c m o x WF (Hlt m Hm) Hom Hx).
Qed.

(** [sched_check] looks at the alias map only at the operands of the ops *)
Lemma reads_ext al al' o : (forall x, In x [s_i0 o; s_i1 o; s_i2 o; s_i3 o] -> al x = al' x) -> reads al o = reads al' o.
Proof. intros H. unfold reads. apply map_ext_in. exact H. Qed.

Lemma level_ok_ext al al' scratch : forall lv,
  (forall o x, In o lv -> In x [s_i0 o; s_i1 o; s_i2 o; s_i3 o] -> al x = al' x) ->
  level_ok al scratch lv = level_ok al' scratch lv.
Proof.
  induction lv as [|o r IH]; intros H; [reflexivity|]. cbn [level_ok]. f_equal.
  - apply forallb_ext_in'.
    intros b Hb. unfold indep.
    rewrite (reads_ext al al' o) by (intros x Hx; apply (H o x (or_introl eq_refl) Hx)).
    rewrite (reads_ext al al' b) by (intros x Hx; apply (H b x (or_intror Hb) Hx)). reflexivity.
  - apply IH. intros o' x Ho'. apply H. right. exact Ho'.
Qed.

Lemma sched_check_ext al al' scratch levels :
  (forall o x, In o (concat levels) -> In x [s_i0 o; s_i1 o; s_i2 o; s_i3 o] -> al x = al' x) ->
  sched_check al scratch levels = sched_check al' scratch levels.
Proof.
  intros H. unfold sched_check. f_equal.
  - apply forallb_ext_in'. intros lv Hlv. apply level_ok_ext. intros o x Ho. apply H.
    apply in_concat. exists lv. auto.
  - apply forallb_ext_in'. intros o Ho. rewrite (reads_ext al al' o); [reflexivity|]. intros x Hx. apply (H o x Ho Hx).
Qed.

(** the schedule half of [simops_cert] holds for every result of [build] on a well-formed acyclic netlist -- any
    capacities, c_reuse on or off, strip_forks on or off *)
Theorem build_sched_cert c caps cmin reuse strip so : wf_netlist c -> comb_acyclic c ->
  build c caps cmin reuse strip = Some so ->
  sched_check (stemmed (so_stems so)) (so_nlines so + 1) (split_levels (so_level_starts so) (so_ops so) 0) = true /\
  sched_check (so_alias c so) (so_nlines so + 1) (split_levels (so_level_starts so) (so_ops so) 0) = true.
Proof.
  intros WF AC Hb. destruct (build_fields c caps cmin reuse strip so Hb) as (stems & Hst & Eo & Es & El & En & Esl).
  assert (H1 : sched_check (stemmed (so_stems so)) (so_nlines so + 1) (split_levels (so_level_starts so) (so_ops so) 0) = true).
  { rewrite Es, En, El, Eo. destruct strip.
    - apply (build_levels_valid_strip c stems WF AC Hst).
    - rewrite build_stems_off in Hst. injection Hst as <-. apply (build_levels_valid c WF AC). }
  split; [exact H1|]. rewrite <- H1. apply sched_check_ext.
  intros o x Ho Hx. apply split_levels_in in Ho. rewrite Eo in Ho.
  (* operands lie below the PPO area, where so_alias is the stem map *)
  unfold so_alias, so_ppo. rewrite En, Esl.
  pose proof (in_opnd_lt_ppo c strip o x WF Ho Hx) as Hlt.
  destruct (Nat.leb (length (c_lines c) + 3 + length (s_nodes c)) x) eqn:E; [apply Nat.leb_le in E; lia|reflexivity].
Qed.

(* ------------------------------------------------------------------------------------------------ *)
(** * Example: a chain of two forks, reconvergence, an output-port fork that is driven from inside and read inside
      (port wire), a flip-flop.
        input 0 -l0-> fork 1 -l1-> fork 2 -l3-> AND 3 (pin 1)           AND 3 -l7-> DFF 7 -l8-> output 8
                      fork 1 -l2-> AND 3 (pin 0)
                                   fork 2 -l4-> port fork 4 ("z", in io) -l5-> INV 5 -l6-> output 6 *)
Module StripSchedExample.
  Definition exs : netlist :=
    {| c_nodes :=
         [ {| n_kind := "input";    n_ins := [];               n_outs := [Some 0] |};
           {| n_kind := "__fork__"; n_ins := [Some 0];         n_outs := [Some 1; Some 2] |};
           {| n_kind := "__fork__"; n_ins := [Some 1];         n_outs := [Some 3; Some 4] |};
           {| n_kind := "AND2";     n_ins := [Some 2; Some 3]; n_outs := [Some 7] |};
           {| n_kind := "__fork__"; n_ins := [Some 4];         n_outs := [Some 5] |};
           {| n_kind := "INV";      n_ins := [Some 5];         n_outs := [Some 6] |};
           {| n_kind := "output";   n_ins := [Some 6];         n_outs := [] |};
           {| n_kind := "DFF";      n_ins := [Some 7];         n_outs := [Some 8] |};
           {| n_kind := "output";   n_ins := [Some 8];         n_outs := [] |} ];
       c_lines :=
         [ {| l_drv := 0; l_dpin := 0; l_rdr := 1; l_rpin := 0 |};
           {| l_drv := 1; l_dpin := 0; l_rdr := 2; l_rpin := 0 |};
           {| l_drv := 1; l_dpin := 1; l_rdr := 3; l_rpin := 0 |};
           {| l_drv := 2; l_dpin := 0; l_rdr := 3; l_rpin := 1 |};
           {| l_drv := 2; l_dpin := 1; l_rdr := 4; l_rpin := 0 |};
           {| l_drv := 4; l_dpin := 0; l_rdr := 5; l_rpin := 0 |};
           {| l_drv := 5; l_dpin := 0; l_rdr := 6; l_rpin := 0 |};
           {| l_drv := 3; l_dpin := 0; l_rdr := 7; l_rpin := 0 |};
           {| l_drv := 7; l_dpin := 0; l_rdr := 8; l_rpin := 0 |} ];
       c_io := [0; 4; 6; 8] |}.

  Lemma exs_wf : wf_netlist exs.
  Proof. apply wf_netlist_b_sound. vm_compute. reflexivity. Qed.
  Lemma exs_acyclic : comb_acyclic exs.
  Proof. apply (acyclic_b_sound exs exs_wf). vm_compute. reflexivity. Qed.

  (** 9 lines, s_nodes = [0; 4; 6; 8; 7]: len = 9 + 3 + 10 = 22.  Every fan-out branch, including the output of the
      port fork (line 5), stands for line 0 *)
  Definition exs_stems : list Z :=
    [-1; 0; 0; 0; 0; 0; -1; -1; -1; -1; -1; -1; -1; -1; -1; -1; -1; -1; -1; -1; -1; -1]%Z.
  Example exs_stems_ok : build_stems exs true 22 = Some exs_stems.
  Proof. vm_compute. reflexivity. Qed.

  (** no fork ops (the port fork 4 has an input line: a wire, not an interface node) *)
  Example exs_ops : map (fun o => (s_lut o, s_out o, [s_i0 o; s_i1 o; s_i2 o; s_i3 o])) (build_ops exs true) =
    [ (lutv "BUF1", 0, [12; 9; 9; 9]); (lutv "BUF1", 8, [16; 9; 9; 9]);
      (lutv "AND2", 7, [2; 3; 9; 9]); (lutv "INV1", 6, [5; 9; 9; 9]) ].
  Proof. vm_compute. reflexivity. Qed.

  Example exs_ssa : ssa_topo exs_stems 10 (build_ops exs true) = true.
  Proof. exact (build_ops_ssa_strip exs exs_stems exs_wf exs_acyclic exs_stems_ok). Qed.

  Example exs_levels_valid :
    sched_check (stemmed exs_stems) 10
      (split_levels (rev (ls_starts (levelize exs_stems (build_ops exs true) 22))) (build_ops exs true) 0) = true.
  Proof. exact (build_levels_valid_strip exs exs_stems exs_wf exs_acyclic exs_stems_ok). Qed.

  Example exs_levels_shape :
    map (map s_out) (split_levels (rev (ls_starts (levelize exs_stems (build_ops exs true) 22))) (build_ops exs true) 0)
    = [[0; 8]; [7; 6]].
  Proof. vm_compute. reflexivity. Qed.

  (** the published partition of [build], c_reuse and strip_forks on: schedule half of the certificate, by theorem *)
  Example exs_build_sched so : build exs (repeat 1%N 12) 1%N true true = Some so ->
    sched_check (so_alias exs so) (so_nlines so + 1) (split_levels (so_level_starts so) (so_ops so) 0) = true.
  Proof. intros H. apply (build_sched_cert exs _ _ true true so exs_wf exs_acyclic H). Qed.
  Example exs_build_some : exists so, build exs (repeat 1%N 12) 1%N true true = Some so.
  Proof. vm_compute. eexists. reflexivity. Qed.

  (** the hypothesis [build_stems = Some stems] cannot be replaced by an arbitrary alias table: if line 2 (an operand
      of the AND) stood for line 6, which the INV writes later, the form is violated *)
  Definition bad_stems : list Z :=
    [-1; 0; 6; 0; 0; 0; -1; -1; -1; -1; -1; -1; -1; -1; -1; -1; -1; -1; -1; -1; -1; -1]%Z.
  Example exs_bad_stems : ssa_topo bad_stems 10 (build_ops exs true) = false.
  Proof. vm_compute. reflexivity. Qed.
End StripSchedExample.

(** The spelling condition of C06_strip_forks_irrelevant is NOT needed for the schedule: the netlist of
    SemCompose.StripCounter (a stripped, un-aliased "__FORK__") has a valid schedule, although its values are wrong *)
Module Upper.
  Import StripCounter.
  Example cxf_sched_valid : forall stems, build_stems cxf true 9 = Some stems ->
    ssa_topo stems 3 (build_ops cxf true) = true /\
    sched_check (stemmed stems) 3 (split_levels (rev (ls_starts (levelize stems (build_ops cxf true) 9))) (build_ops cxf true) 0) = true.
  Proof.
    intros stems H. split.
    - exact (build_ops_ssa_strip cxf stems cxf_wf cxf_acyclic H).
    - exact (build_levels_valid_strip cxf stems cxf_wf cxf_acyclic H).
  Qed.
End Upper.

Print Assumptions build_ops_ssa_strip.
Print Assumptions build_levels_valid_strip.
Print Assumptions build_stems_defined.
Print Assumptions build_sched_cert.
