(** C13: what wave_capture computes, in terms of the waveform vocabulary. *)
From Coq Require Import List ZArith NArith Bool Arith Lia Sorted.
From KV Require Import Model.Time Model.WaveEval Model.WaveSpec Model.CaptureSpec.
Import ListNotations.
Local Open Scope list_scope.

(** * Small facts *)
Lemma odd_S n : Nat.odd (S n) = negb (Nat.odd n).
Proof. rewrite Nat.odd_succ, <- Nat.negb_odd. reflexivity. Qed.

Lemma body_cons t r : body (t :: r) = if is_end t then [] else t :: body r.
Proof. unfold body; simpl. destruct (is_end t); reflexivity. Qed.

Lemma body_length w : length (body w) <= ntrans w.
Proof. unfold body. apply firstn_le_length. Qed.

Lemma terminator_cons t r : terminator (t :: r) = if is_end t then t else terminator r.
Proof. unfold terminator; simpl. destruct (is_end t); reflexivity. Qed.

Lemma finite_entries_cons t r :
  finite_entries (t :: r) = if is_end t then [] else if is_fin t then t :: finite_entries r else finite_entries r.
Proof. unfold finite_entries. rewrite body_cons. destruct (is_end t); reflexivity. Qed.

Lemma tltb_trans a b c : tltb a b = true -> tltb b c = true -> tltb a c = true.
Proof.
  destruct a, b, c; cbn; intros H1 H2; try reflexivity; try discriminate.
  rewrite Z.ltb_lt in *. lia.
Qed.

Lemma tltb_asym a b : tltb a b = true -> tltb b a = false.
Proof.
  destruct a, b; cbn; intros H; try reflexivity; try discriminate.
  rewrite Z.ltb_lt in H. apply Z.ltb_ge. lia.
Qed.

(** * The loop invariant: capture_loop from any accumulator over any suffix *)
Lemma capture_loop_spec r T : forall a,
  let a' := capture_loop r T a in
  k_fin a' = xorb (k_fin a) (Nat.odd (ntrans r)) /\
  k_eat a' = fold_left tmin (finite_entries r) (k_eat a) /\
  k_lst a' = fold_left tmax (finite_entries r) (k_lst a) /\
  k_val a' = xorb (k_val a) (Nat.odd (length (filter (fun t => tltb t T) (body r)))) /\
  (k_ovl a = false -> (k_ovl a' = true <-> terminator r = MaxOvl)).
Proof.
  induction r as [|t r IH]; intros a.
  - cbn. rewrite !xorb_false_r. repeat split; try reflexivity.
    + intros H1; congruence.
    + intros H1; discriminate.
  - cbv zeta. rewrite finite_entries_cons, body_cons, terminator_cons.
    destruct t as [| z | |].
    + (* MinInf: skipped for eat/lst but toggles fin/val *)
      cbn [capture_loop is_end is_fin ntrans].
      match goal with |- context [capture_loop r T ?a1] => specialize (IH a1) end.
      cbv zeta in IH. destruct IH as (F & E & L & V & O). cbn [k_fin k_eat k_lst k_val k_ovl] in *.
      rewrite F, E, L, V, odd_S. cbn [filter length].
      split; [destruct (k_fin a), (Nat.odd (ntrans r)); reflexivity|].
      split; [reflexivity|]. split; [reflexivity|]. split; [|exact O].
      destruct (tltb MinInf T); cbn [length]; rewrite ?odd_S;
          destruct (k_val a); destruct (Nat.odd (length (filter _ (body r)))); reflexivity.
    + (* Fin z *)
      cbn [capture_loop is_end is_fin ntrans].
      match goal with |- context [capture_loop r T ?a1] => specialize (IH a1) end.
      cbv zeta in IH. destruct IH as (F & E & L & V & O). cbn [k_fin k_eat k_lst k_val k_ovl] in *.
      rewrite F, E, L, V, odd_S. cbn [filter length fold_left].
      split; [destruct (k_fin a), (Nat.odd (ntrans r)); reflexivity|].
      split; [reflexivity|]. split; [reflexivity|]. split; [|exact O].
      destruct (tltb (Fin z) T); cbn [length]; rewrite ?odd_S;
          destruct (k_val a); destruct (Nat.odd (length (filter _ (body r)))); reflexivity.
    + (* MaxInf terminator *)
      cbn. rewrite !xorb_false_r. repeat split; try reflexivity; intros; discriminate.
    + (* MaxOvl terminator *)
      cbn. rewrite !xorb_false_r. repeat split; reflexivity.
Qed.

(** * Deliverable: the capture summary.  (wf_wave is not actually needed: see capture_summary_any.) *)
Theorem capture_summary_any w T :
  let '(ini, a) := capture w T in
  ini = init_val w /\
  k_fin a = final_val w /\
  k_eat a = earliest w /\
  k_lst a = latest w /\
  k_val a = value_before w T /\
  (k_ovl a = true <-> terminator w = MaxOvl).
Proof.
  unfold capture.
  pose proof (capture_loop_spec w T
    {| k_eat := MaxInf; k_lst := MinInf; k_fin := false; k_val := false; k_ovl := false |}) as H.
  cbv zeta in H. destruct H as (F & E & L & V & O). cbn [k_fin k_eat k_lst k_val k_ovl] in *.
  rewrite !xorb_false_l in *.
  split; [reflexivity|]. split; [exact F|]. split; [exact E|]. split; [exact L|].
  split; [exact V|]. apply O; reflexivity.
Qed.

Theorem capture_summary w T : wf_wave w ->
  let '(ini, a) := capture w T in
  ini = init_val w /\                              (* initial value *)
  k_fin a = final_val w /\                         (* final value = transition parity *)
  k_eat a = earliest w /\                          (* earliest arrival = minimum finite entry, TMAX if none *)
  k_lst a = latest w /\                            (* latest stabilisation = maximum finite entry, TMIN if none *)
  k_val a = value_before w T /\                    (* value captured at T = parity of the entries strictly before T *)
  (k_ovl a = true <-> terminator w = MaxOvl).      (* overflow indicator <-> terminator is the overflow mark *)
Proof. intros _. apply capture_summary_any. Qed.

(** * Sortedness of the body of a strictly increasing waveform *)
Definition lt_t (a b : time) : Prop := tltb a b = true.

Lemma In_body x r : In x (body r) -> exists j, j < ntrans r /\ wget r j = x.
Proof.
  induction r as [|t r IH]; [intros []|].
  rewrite body_cons. cbn [ntrans]. destruct (is_end t); [intros []|].
  intros [<- | H].
  - exists 0; split; [lia | reflexivity].
  - destruct (IH H) as [j [Hj E]]. exists (S j); split; [lia | exact E].
Qed.

Lemma strictly_increasing_tail t r :
  is_end t = false -> strictly_increasing (t :: r) -> strictly_increasing r.
Proof.
  intros E H i j Hij Hj. specialize (H (S i) (S j)). cbn [ntrans] in H. rewrite E in H.
  apply H; lia.
Qed.

Lemma body_sorted w : strictly_increasing w -> StronglySorted lt_t (body w).
Proof.
  induction w as [|t r IH]; intros H; [constructor|].
  rewrite body_cons. destruct (is_end t) eqn:E; [constructor|].
  constructor.
  - apply IH. eapply strictly_increasing_tail; eauto.
  - apply Forall_forall. intros x Hx. apply In_body in Hx. destruct Hx as [j [Hj <-]].
    specialize (H 0 (S j)). cbn [ntrans] in H. rewrite E in H. apply H; lia.
Qed.

Lemma StronglySorted_filter {A} (R : A -> A -> Prop) f l :
  StronglySorted R l -> StronglySorted R (filter f l).
Proof.
  induction 1 as [|a l Hs IH Hf]; cbn; [constructor|].
  destruct (f a); [|exact IH]. constructor; [exact IH|].
  apply Forall_forall. intros x Hx. apply filter_In in Hx.
  rewrite Forall_forall in Hf. apply Hf, Hx.
Qed.

Lemma fold_tmin_lb l a : Forall (lt_t a) l -> fold_left tmin l a = a.
Proof.
  induction 1 as [|b l Hb Hl IH]; cbn; [reflexivity|].
  unfold tmin at 2. rewrite (tltb_asym _ _ Hb). exact IH.
Qed.

Lemma last_cons {A} (l : list A) : forall x d, last (x :: l) d = last l x.
Proof.
  induction l as [|a l IH]; intros x d; [reflexivity|].
  change (last (x :: a :: l) d) with (last (a :: l) d). rewrite !IH. reflexivity.
Qed.

Lemma fold_tmax_sorted l : forall a, StronglySorted lt_t (a :: l) -> fold_left tmax l a = last l a.
Proof.
  induction l as [|b l IH]; intros a H; [reflexivity|].
  apply StronglySorted_inv in H. destruct H as [Hs Hf].
  inversion Hf as [|? ? Hab _]; subst.
  cbn [fold_left]. unfold tmax at 2. rewrite Hab. rewrite (IH b Hs).
  symmetry. apply last_cons.
Qed.

Theorem earliest_latest_increasing_any w : strictly_increasing w -> finite_entries w <> [] ->
  earliest w = hd MaxInf (finite_entries w) /\ latest w = last (finite_entries w) MinInf.
Proof.
  intros Hinc Hne. unfold earliest, latest.
  assert (Hs : StronglySorted lt_t (finite_entries w))
    by (apply StronglySorted_filter, body_sorted, Hinc).
  assert (Hfin : Forall (fun t => is_fin t = true) (finite_entries w)).
  { apply Forall_forall. intros x Hx. apply filter_In in Hx. apply Hx. }
  destruct (finite_entries w) as [|x l]; [congruence|].
  inversion Hfin as [|? ? Hx _]; subst.
  destruct x as [| z | |]; try discriminate.
  pose proof (StronglySorted_inv Hs) as [_ Hlb].
  split.
  - cbn [fold_left hd]. change (tmin MaxInf (Fin z)) with (Fin z). apply fold_tmin_lb, Hlb.
  - cbn [fold_left]. change (tmax MinInf (Fin z)) with (Fin z).
    rewrite (fold_tmax_sorted _ _ Hs). symmetry. apply last_cons.
Qed.

Theorem earliest_latest_increasing w : wf_wave w -> strictly_increasing w -> finite_entries w <> [] ->
  earliest w = hd MaxInf (finite_entries w) /\ latest w = last (finite_entries w) MinInf.
Proof. intros _. apply earliest_latest_increasing_any. Qed.

(** * Entries before T form a prefix *)
Lemma filter_none {A} (f : A -> bool) l : (forall x, In x l -> f x = false) -> filter f l = [].
Proof.
  induction l as [|a l IH]; intros H; cbn; [reflexivity|].
  rewrite (H a) by (left; reflexivity). apply IH. intros; apply H; right; assumption.
Qed.

Lemma filter_before_prefix T l : StronglySorted lt_t l ->
  exists n, n <= length l /\ filter (fun t => tltb t T) l = firstn n l.
Proof.
  induction 1 as [|a l Hs IH Hf].
  - exists 0; split; [cbn; lia | reflexivity].
  - cbn [filter]. destruct (tltb a T) eqn:E.
    + destruct IH as [n [Hn En]]. exists (S n). split; [cbn; lia|]. cbn [firstn]. rewrite En. reflexivity.
    + exists 0. split; [lia|]. cbn [firstn]. apply filter_none.
      intros x Hx. rewrite Forall_forall in Hf. specialize (Hf x Hx). unfold lt_t in Hf.
      destruct (tltb x T) eqn:E2; [|reflexivity].
      rewrite (tltb_trans _ _ _ Hf E2) in E. discriminate.
Qed.

Theorem value_before_prefix_any w T : strictly_increasing w ->
  exists n, n <= ntrans w /\ filter (fun t => tltb t T) (body w) = firstn n (body w).
Proof.
  intros Hinc. destruct (filter_before_prefix T (body w) (body_sorted w Hinc)) as [n [Hn E]].
  exists n. split; [|exact E]. pose proof (body_length w). lia.
Qed.

Theorem value_before_prefix w T : wf_wave w -> strictly_increasing w ->
  exists n, n <= ntrans w /\ filter (fun t => tltb t T) (body w) = firstn n (body w).
Proof. intros _. apply value_before_prefix_any. Qed.

(** consequently the captured value is the parity of that prefix length *)
Corollary capture_val_prefix w T : strictly_increasing w ->
  exists n, n <= ntrans w /\ filter (fun t => tltb t T) (body w) = firstn n (body w) /\
            k_val (snd (capture w T)) = Nat.odd n.
Proof.
  intros Hinc. destruct (filter_before_prefix T (body w) (body_sorted w Hinc)) as [n [Hn E]].
  exists n. split; [pose proof (body_length w); lia|]. split; [exact E|].
  pose proof (capture_summary_any w T) as H. destruct (capture w T) as [ini a].
  destruct H as (_ & _ & _ & _ & V & _). cbn [snd]. rewrite V. unfold value_before. rewrite E.
  rewrite firstn_length_le; [reflexivity | exact Hn].
Qed.

(** * Concrete instance: stale garbage after the overflow terminator is ignored *)
Example capture_example :
  let w := [MinInf; Fin 3; Fin 7; MaxOvl; Fin 99] in
  capture w (Fin 7) =
    (true, {| k_eat := Fin 3; k_lst := Fin 7; k_fin := true; k_val := false; k_ovl := true |})
  /\ wf_wave w /\ strictly_increasing w
  /\ init_val w = true /\ final_val w = true /\ earliest w = Fin 3 /\ latest w = Fin 7
  /\ value_before w (Fin 7) = false /\ terminator w = MaxOvl
  /\ filter (fun t => tltb t (Fin 7)) (body w) = firstn 2 (body w).
Proof.
  cbv zeta. split; [vm_compute; reflexivity|].
  split.
  { split; [cbn; lia|]. intros i Hi Hlt. cbn in Hlt.
    destruct i as [|[|[|i]]]; try lia; cbn; discriminate. }
  split.
  { intros i j Hij Hj. cbn in Hj.
    destruct j as [|[|[|j]]]; try lia; destruct i as [|[|[|i]]]; try lia; reflexivity. }
  repeat split; vm_compute; reflexivity.
Qed.

Print Assumptions capture_summary.
Print Assumptions earliest_latest_increasing.
Print Assumptions value_before_prefix.
