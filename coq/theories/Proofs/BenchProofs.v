(** C11 -- structural correctness of the ISCAS-bench elaborator model of Model/VerilogElab.v
    ([elab_bench]): every assignment [z = KIND(a_0 .. a_{n-1})] of a successfully elaborated
    description yields a cell named z whose k-th input pin is fed by the fork named a_k and whose
    output pin 0 feeds the fork named z ([bench_wiring]); node names are unique per namespace
    (forks / non-forks) ([bench_node_unique], [bench_cell_unique]).

    All statements are proved by induction over arbitrary statement lists, starting from an
    arbitrary circuit where possible. *)
From Coq Require Import List ZArith NArith Bool String Ascii Lia Arith.
From KV Require Import Model.VerilogElab.
Import ListNotations.
Local Open Scope list_scope.

(** * Generic list facts *)

Lemma nth_error_app_l : forall {A} (l l' : list A) i x,
  nth_error l i = Some x -> nth_error (l ++ l') i = Some x.
Proof.
  intros A l l' i x H. rewrite nth_error_app1; auto.
  apply nth_error_Some. rewrite H. discriminate.
Qed.

Lemma nth_error_snoc : forall {A} (l : list A) x, nth_error (l ++ [x]) (List.length l) = Some x.
Proof. intros. rewrite nth_error_app2 by lia. rewrite Nat.sub_diag. reflexivity. Qed.

Lemma nth_error_lt : forall {A} (l : list A) i x, nth_error l i = Some x -> i < List.length l.
Proof. intros A l i x H. apply nth_error_Some. rewrite H. discriminate. Qed.

Lemma NoDup_snoc : forall {A} (l : list A) x, NoDup l -> ~ In x l -> NoDup (l ++ [x]).
Proof.
  induction l as [|a l IH]; intros x Hn Hi; simpl.
  - constructor; auto.
  - inversion Hn; subst. constructor.
    + intro Hin. apply in_app_or in Hin. destruct Hin as [Hin|[Hin|[]]]; auto.
      subst. apply Hi. left. reflexivity.
    + apply IH; auto. intro; apply Hi; right; auto.
Qed.

Lemma Forall2_imp : forall {A B} (R1 R2 : A -> B -> Prop) l1 l2,
  (forall a b, R1 a b -> R2 a b) -> Forall2 R1 l1 l2 -> Forall2 R2 l1 l2.
Proof. intros A B R1 R2 l1 l2 H F. induction F; constructor; auto. Qed.

Lemma Forall2_len : forall {A B} (R : A -> B -> Prop) l1 l2, Forall2 R l1 l2 -> List.length l1 = List.length l2.
Proof. intros A B R l1 l2 F. induction F; simpl; auto. Qed.

Lemma Forall2_Forall_l : forall {A B} (R : A -> B -> Prop) (P : A -> Prop) l1 l2,
  (forall a b, R a b -> P a) -> Forall2 R l1 l2 -> Forall P l1.
Proof. intros A B R P l1 l2 H F. induction F; constructor; eauto. Qed.

(** * GrowingList facts *)

Lemma free_index_somes : forall {A} (l : list A), free_index (map Some l) = List.length l.
Proof. induction l; simpl; auto. Qed.

Lemma set_nth_somes : forall {A} (l : list A) v, set_nth (map Some l) (List.length l) v = map Some (l ++ [v]).
Proof. induction l as [|a l IH]; intros v; simpl; [reflexivity|]. rewrite IH. reflexivity. Qed.

Lemma nth_error_upd_node : forall l i f j,
  nth_error (upd_node l i f) j = if Nat.eqb j i then option_map f (nth_error l j) else nth_error l j.
Proof.
  induction l as [|n r IH]; intros i f j.
  - simpl. destruct (Nat.eqb j i); destruct j; reflexivity.
  - destruct i, j; simpl; try reflexivity. apply IH.
Qed.

Lemma map_upd_node : forall {B} (g : bnode -> B) f l i,
  (forall n, g (f n) = g n) -> map g (upd_node l i f) = map g l.
Proof.
  intros B g f l. induction l as [|n r IH]; intros i H; simpl; [reflexivity|].
  destruct i; simpl; [rewrite H; reflexivity|]. rewrite IH; auto.
Qed.

(** * add_line *)

Definition line_of (c : bcirc) (d r : nat) : bline :=
  {| bl_drv := d; bl_dpin := free_index (bn_outs (nth d (bc_nodes c) dnode));
     bl_rdr := r; bl_rpin := free_index (bn_ins (nth r (bc_nodes c) dnode)) |}.

Lemma add_line_lines : forall c d r, bc_lines (add_line c d r) = bc_lines c ++ [line_of c d r].
Proof. reflexivity. Qed.

Lemma add_line_node : forall c d r i n,
  nth_error (bc_nodes c) i = Some n ->
  nth_error (bc_nodes (add_line c d r)) i =
  Some {| bn_name := bn_name n; bn_kind := bn_kind n;
          bn_ins := if Nat.eqb i r then set_nth (bn_ins n) (free_index (bn_ins n)) (List.length (bc_lines c))
                    else bn_ins n;
          bn_outs := if Nat.eqb i d then set_nth (bn_outs n) (free_index (bn_outs n)) (List.length (bc_lines c))
                     else bn_outs n |}.
Proof.
  intros c d r i n H.
  assert (Hn : nth i (bc_nodes c) dnode = n) by (apply nth_error_nth; exact H).
  unfold add_line. cbn [bc_nodes]. rewrite !nth_error_upd_node, H.
  destruct (Nat.eqb_spec i r) as [Er|Er]; destruct (Nat.eqb_spec i d) as [Ed|Ed];
    try subst r; try subst d; try rewrite Hn; cbn; try reflexivity.
  destruct n; reflexivity.
Qed.

(** * Extension relations *)

Definition fork_at (c : bcirc) (i : nat) (a : string) : Prop :=
  exists f, nth_error (bc_nodes c) i = Some f /\ bn_kind f = fork_kind /\ bn_name f = a.

Definition isfork_idx (c : bcirc) (i : nat) : Prop :=
  exists f, nth_error (bc_nodes c) i = Some f /\ bn_kind f = fork_kind.

(** [extP Q c c']: nodes and lines are append-only, name and kind of a node never change, and
    the non-fork nodes at indices satisfying [Q] are completely unchanged. *)
Definition extP (Q : nat -> Prop) (c c' : bcirc) : Prop :=
  (forall i n, nth_error (bc_nodes c) i = Some n ->
     exists n', nth_error (bc_nodes c') i = Some n' /\ bn_name n' = bn_name n /\ bn_kind n' = bn_kind n /\
                (bn_kind n <> fork_kind -> Q i -> n' = n)) /\
  (forall i l, nth_error (bc_lines c) i = Some l -> nth_error (bc_lines c') i = Some l).

Definition ext := extP (fun _ => True).

Lemma extP_refl : forall Q c, extP Q c c.
Proof. intros Q c. split; [|auto]. intros i n H. exists n. auto. Qed.

Lemma extP_trans : forall Q c1 c2 c3, extP Q c1 c2 -> extP Q c2 c3 -> extP Q c1 c3.
Proof.
  intros Q c1 c2 c3 [N1 L1] [N2 L2]. split; [|auto].
  intros i n H. destruct (N1 _ _ H) as [n' [H' [Hn [Hk Hq]]]].
  destruct (N2 _ _ H') as [n'' [H'' [Hn' [Hk' Hq']]]].
  exists n''. repeat split; try congruence.
  intros Hf HQ. rewrite Hq' by (auto; congruence). auto.
Qed.

Lemma extP_weaken : forall (Q Q' : nat -> Prop) c c',
  (forall i, i < List.length (bc_nodes c) -> Q' i -> Q i) -> extP Q c c' -> extP Q' c c'.
Proof.
  intros Q Q' c c' HQ [N L]. split; [|auto].
  intros i n H. destruct (N _ _ H) as [n' [H' [Hn [Hk Hq]]]].
  exists n'. repeat split; auto. intros Hf Hq'. apply Hq; auto.
  apply HQ; auto. eapply nth_error_lt; eauto.
Qed.

Lemma extP_same : forall Q c c1 c2,
  bc_nodes c2 = bc_nodes c1 -> bc_lines c2 = bc_lines c1 -> extP Q c c1 -> extP Q c c2.
Proof. intros Q c c1 c2 Hn Hl H. unfold extP. rewrite Hn, Hl. exact H. Qed.

Lemma fork_at_ext : forall Q c c' i a, extP Q c c' -> fork_at c i a -> fork_at c' i a.
Proof.
  intros Q c c' i a [N _] [f [H [Hk Hn]]]. destruct (N _ _ H) as [n' [H' [Hn' [Hk' _]]]].
  exists n'. repeat split; congruence.
Qed.

Lemma isfork_idx_ext : forall Q c c' i, extP Q c c' -> isfork_idx c i -> isfork_idx c' i.
Proof.
  intros Q c c' i [N _] [f [H Hk]]. destruct (N _ _ H) as [n' [H' [Hn' [Hk' _]]]].
  exists n'. split; congruence.
Qed.

Lemma fork_at_isfork : forall c i a, fork_at c i a -> isfork_idx c i.
Proof. intros c i a [f [H [Hk _]]]. exists f; auto. Qed.

(** [grow c c']: only new nodes were appended. *)
Definition grow (c c' : bcirc) : Prop :=
  exists extra, bc_nodes c' = bc_nodes c ++ extra /\ bc_lines c' = bc_lines c.

Lemma grow_refl : forall c, grow c c.
Proof. intros c. exists []. rewrite app_nil_r. auto. Qed.

Lemma grow_trans : forall c1 c2 c3, grow c1 c2 -> grow c2 c3 -> grow c1 c3.
Proof.
  intros c1 c2 c3 [e1 [N1 L1]] [e2 [N2 L2]]. exists (e1 ++ e2).
  rewrite N2, N1, L2, L1, app_assoc. auto.
Qed.

Lemma grow_nth : forall c c' i n, grow c c' -> nth_error (bc_nodes c) i = Some n -> nth_error (bc_nodes c') i = Some n.
Proof. intros c c' i n [e [N _]] H. rewrite N. apply nth_error_app_l; auto. Qed.

Lemma grow_length : forall c c', grow c c' -> List.length (bc_nodes c) <= List.length (bc_nodes c').
Proof. intros c c' [e [N _]]. rewrite N, app_length. lia. Qed.

Lemma grow_extP : forall Q c c', grow c c' -> extP Q c c'.
Proof.
  intros Q c c' G. split.
  - intros i n H. exists n. repeat split; auto. eapply grow_nth; eauto.
  - destruct G as [e [_ L]]. rewrite L. auto.
Qed.

(** * find_node, add_node, get_or_add_fork *)

Lemma is_fork_true : forall n, is_fork n = true <-> bn_kind n = fork_kind.
Proof. intros n. unfold is_fork. apply String.eqb_eq. Qed.

Lemma find_node_from_some : forall l k fork name i,
  find_node_from k fork name l = Some i ->
  exists n, k <= i /\ nth_error l (i - k) = Some n /\ is_fork n = fork /\ bn_name n = name.
Proof.
  induction l as [|n r IH]; intros k fork name i H; simpl in H; [discriminate|].
  destruct (Bool.eqb (is_fork n) fork && String.eqb (bn_name n) name) eqn:E.
  - inversion H; subst. apply andb_true_iff in E. destruct E as [E1 E2].
    apply Bool.eqb_prop in E1. apply String.eqb_eq in E2.
    exists n. rewrite Nat.sub_diag. simpl. auto.
  - apply IH in H. destruct H as [m [Hk [Hm [Hf Hn]]]].
    exists m. split; [lia|]. split; [|auto].
    replace (i - k) with (S (i - S k)) by lia. simpl. exact Hm.
Qed.

Lemma find_node_from_none : forall l k fork name,
  find_node_from k fork name l = None ->
  forall n, In n l -> ~ (bn_name n = name /\ is_fork n = fork).
Proof.
  induction l as [|n r IH]; intros k fork name H m Hin; simpl in *; [contradiction|].
  destruct (Bool.eqb (is_fork n) fork && String.eqb (bn_name n) name) eqn:E; [discriminate|].
  destruct Hin as [<-|Hin]; [|eapply IH; eauto].
  intros [Hn Hf]. apply andb_false_iff in E. destruct E as [E|E].
  - apply -> Bool.eqb_false_iff in E. auto.
  - apply String.eqb_neq in E. auto.
Qed.

Lemma find_node_some : forall c fork name i,
  find_node c fork name = Some i ->
  exists n, nth_error (bc_nodes c) i = Some n /\ is_fork n = fork /\ bn_name n = name.
Proof.
  intros c fork name i H. apply find_node_from_some in H.
  destruct H as [n [_ [Hn H]]]. rewrite Nat.sub_0_r in Hn. exists n. auto.
Qed.

Definition mknode (name kind : string) : bnode :=
  {| bn_name := name; bn_kind := kind; bn_ins := []; bn_outs := [] |}.

Lemma get_or_add_fork_spec : forall c name c' i,
  get_or_add_fork c name = (c', i) -> grow c c' /\ fork_at c' i name.
Proof.
  intros c name c' i H. unfold get_or_add_fork in H.
  destruct (find_node c true name) as [k|] eqn:E.
  - inversion H; subst. split; [apply grow_refl|].
    apply find_node_some in E. destruct E as [n [Hn [Hf Hname]]].
    exists n. repeat split; auto. apply is_fork_true; auto.
  - inversion H; subst. split.
    + eexists. cbn. split; reflexivity.
    + eexists. cbn. split; [apply nth_error_snoc|]. cbn. auto.
Qed.

Lemma add_node_spec : forall c name kind c' i,
  add_node c name kind = Some (c', i) ->
  i = List.length (bc_nodes c) /\ bc_nodes c' = bc_nodes c ++ [mknode name kind] /\
  bc_lines c' = bc_lines c /\ find_node c (String.eqb kind fork_kind) name = None.
Proof.
  intros c name kind c' i H. unfold add_node in H.
  destruct (find_node c (String.eqb kind fork_kind) name) eqn:E; [discriminate|].
  inversion H; subst. cbn. auto.
Qed.

Lemma add_node_grow : forall c name kind c' i, add_node c name kind = Some (c', i) -> grow c c'.
Proof.
  intros c name kind c' i H. apply add_node_spec in H. destruct H as [_ [N [L _]]].
  eexists; eauto.
Qed.

(** * forks_of *)

Lemma forks_step_eq : forall c acc a,
  forks_step (c, acc) a = (fst (get_or_add_fork c a), acc ++ [snd (get_or_add_fork c a)]).
Proof. intros. unfold forks_step. cbn [fst snd]. destruct (get_or_add_fork c a); reflexivity. Qed.

Lemma forks_fold : forall names c acc c1 ds,
  fold_left forks_step names (c, acc) = (c1, ds) ->
  grow c c1 /\ exists ds', ds = acc ++ ds' /\ Forall2 (fork_at c1) ds' names.
Proof.
  induction names as [|a names IH]; intros c acc c1 ds H; simpl in H.
  - inversion H; subst. split; [apply grow_refl|]. exists []. rewrite app_nil_r. auto.
  - rewrite forks_step_eq in H. destruct (get_or_add_fork c a) as [c' i] eqn:E. cbn [fst snd] in H.
    apply IH in H. destruct H as [G [ds' [Hd HF]]].
    destruct (get_or_add_fork_spec _ _ _ _ E) as [G1 Hf].
    split; [eapply grow_trans; eauto|].
    exists (i :: ds'). split.
    + rewrite Hd, <- app_assoc. reflexivity.
    + constructor; auto. eapply fork_at_ext; [apply grow_extP with (Q := fun _ => True); eauto|auto].
Qed.

Lemma forks_of_spec : forall c names c1 ds,
  forks_of c names = (c1, ds) -> grow c c1 /\ Forall2 (fork_at c1) ds names.
Proof.
  intros c names c1 ds H. apply forks_fold in H. destruct H as [G [ds' [Hd HF]]].
  simpl in Hd. subst. auto.
Qed.

(** * add_line as an extension *)

Lemma add_line_ext : forall c d r x,
  (d = x \/ isfork_idx c d) -> (r = x \/ isfork_idx c r) -> extP (fun i => i <> x) c (add_line c d r).
Proof.
  intros c d r x Hd Hr. split.
  - intros i n H. eexists. split; [apply add_line_node; exact H|]. cbn.
    repeat split. intros Hk Hi.
    assert (Er : Nat.eqb i r = false).
    { apply Nat.eqb_neq. intro; subst i. destruct Hr as [Hr|[f [Hf Hfk]]]; [auto|congruence]. }
    assert (Ed : Nat.eqb i d = false).
    { apply Nat.eqb_neq. intro; subst i. destruct Hd as [Hd|[f [Hf Hfk]]]; [auto|congruence]. }
    rewrite Er, Ed. destruct n; reflexivity.
  - intros i l H. rewrite add_line_lines. apply nth_error_app_l; auto.
Qed.

Definition add_lines (cell : nat) (ds : list nat) (c : bcirc) : bcirc :=
  fold_left (fun c d => add_line c d cell) ds c.

Lemma add_lines_ext : forall cell ds c,
  Forall (fun d => d = cell \/ isfork_idx c d) ds -> extP (fun i => i <> cell) c (add_lines cell ds c).
Proof.
  intros cell ds. induction ds as [|d ds IH]; intros c F; unfold add_lines; simpl.
  - apply extP_refl.
  - inversion F; subst.
    assert (E : extP (fun i => i <> cell) c (add_line c d cell)) by (apply add_line_ext; auto).
    eapply extP_trans; [exact E|]. apply IH.
    eapply Forall_impl; [|eassumption]. cbn. intros a [Ha|Ha]; [auto|right].
    eapply isfork_idx_ext; eauto.
Qed.

(** the precise effect on the fresh (non-fork) cell *)
Lemma add_lines_cell : forall cell nm kd outs ds args c pre,
  kd <> fork_kind ->
  nth_error (bc_nodes c) cell = Some {| bn_name := nm; bn_kind := kd; bn_ins := map Some pre; bn_outs := outs |} ->
  Forall2 (fork_at c) ds args ->
  exists post,
    List.length post = List.length args /\
    nth_error (bc_nodes (add_lines cell ds c)) cell =
      Some {| bn_name := nm; bn_kind := kd; bn_ins := map Some (pre ++ post); bn_outs := outs |} /\
    forall k a, nth_error args k = Some a ->
      exists li l, nth_error post k = Some li /\ nth_error (bc_lines (add_lines cell ds c)) li = Some l /\
                   bl_rdr l = cell /\ bl_rpin l = List.length pre + k /\ fork_at (add_lines cell ds c) (bl_drv l) a.
Proof.
  intros cell nm kd outs ds. induction ds as [|d ds IH]; intros args c pre Hkd Hcell F.
  - inversion F; subst. exists []. rewrite app_nil_r. unfold add_lines. simpl.
    repeat split; auto. intros k a H. destruct k; discriminate.
  - inversion F as [|d' a0 ds' args' Hf F']; subst.
    assert (Hne : cell <> d).
    { intro; subst d. destruct Hf as [f [Hf [Hfk _]]]. rewrite Hcell in Hf. inversion Hf; subst f.
      cbn in Hfk. auto. }
    set (c2 := add_line c d cell).
    assert (E : extP (fun i => i <> cell) c c2).
    { apply add_line_ext; [right; eapply fork_at_isfork; eauto|left; reflexivity]. }
    assert (Hcell2 : nth_error (bc_nodes c2) cell =
              Some {| bn_name := nm; bn_kind := kd; bn_ins := map Some (pre ++ [List.length (bc_lines c)]); bn_outs := outs |}).
    { unfold c2. rewrite (add_line_node _ _ _ _ _ Hcell). cbn.
      rewrite Nat.eqb_refl. destruct (Nat.eqb_spec cell d) as [?|_]; [contradiction|].
      rewrite free_index_somes, set_nth_somes. reflexivity. }
    assert (F2 : Forall2 (fork_at c2) ds args').
    { eapply Forall2_imp; [|exact F']. intros; eapply fork_at_ext; eauto. }
    destruct (IH args' c2 (pre ++ [List.length (bc_lines c)]) Hkd Hcell2 F2) as [post [Hlen [Hc Hk]]].
    assert (E2 : extP (fun i => i <> cell) c2 (add_lines cell ds c2)).
    { apply add_lines_ext. eapply Forall2_Forall_l; [|exact F2]. cbn. intros; right; eapply fork_at_isfork; eauto. }
    change (add_lines cell (d :: ds) c) with (add_lines cell ds c2).
    exists (List.length (bc_lines c) :: post). split; [simpl; auto|]. split.
    { rewrite Hc, <- app_assoc. reflexivity. }
    intros k a Ha. destruct k as [|k]; simpl in Ha.
    + inversion Ha; subst a0.
      exists (List.length (bc_lines c)), (line_of c d cell). split; [reflexivity|]. split.
      { apply (proj2 E2). unfold c2. rewrite add_line_lines. apply nth_error_snoc. }
      cbn. split; [reflexivity|]. split.
      { rewrite (nth_error_nth _ _ dnode Hcell). cbn. rewrite free_index_somes. lia. }
      eapply fork_at_ext; [exact E2|]. eapply fork_at_ext; [exact E|]. exact Hf.
    + destruct (Hk _ _ Ha) as [li [l [H1 [H2 [H3 [H4 H5]]]]]].
      exists li, l. repeat split; auto. rewrite H4, app_length. simpl. lia.
Qed.

(** * Decomposition of an assignment statement *)

Lemma assign_inv : forall c0 z kind args c',
  elab_stmt c0 (BAssign z kind args) = Some c' ->
  exists c1 ds c2 cell c3 f,
    forks_of c0 args = (c1, ds) /\ add_node c1 z kind = Some (c2, cell) /\
    get_or_add_fork c2 z = (c3, f) /\ c' = add_lines cell ds (add_line c3 cell f).
Proof.
  intros c0 z kind args c' H. cbn [elab_stmt] in H.
  destruct (forks_of c0 args) as [c1 ds] eqn:E1.
  destruct (add_node c1 z kind) as [[c2 cell]|] eqn:E2; [|discriminate].
  destruct (get_or_add_fork c2 z) as [c3 f] eqn:E3.
  inversion H; subst. exists c1, ds, c2, cell, c3, f. auto.
Qed.

Lemma elab_stmt_ext : forall c s c', elab_stmt c s = Some c' -> ext c c'.
Proof.
  intros c s c' H. destruct s as [names|z kind args].
  - cbn [elab_stmt] in H. destruct (forks_of c names) as [c1 idx] eqn:E. inversion H; subst.
    apply forks_of_spec in E. destruct E as [G _].
    eapply extP_same with (c1 := c1); [reflexivity|reflexivity|]. apply grow_extP; auto.
  - apply assign_inv in H. destruct H as [c1 [ds [c2 [cell [c3 [f [E1 [E2 [E3 ->]]]]]]]]].
    apply forks_of_spec in E1. destruct E1 as [G1 F1].
    pose proof (add_node_grow _ _ _ _ _ E2) as G2.
    apply add_node_spec in E2. destruct E2 as [Hcell _].
    apply get_or_add_fork_spec in E3. destruct E3 as [G3 Hf].
    set (Q := fun i => i <> cell).
    assert (G : grow c c3) by (eapply grow_trans; [|exact G3]; eapply grow_trans; eauto).
    assert (E4 : extP Q c3 (add_line c3 cell f)).
    { apply add_line_ext; [left; reflexivity|right; eapply fork_at_isfork; eauto]. }
    assert (E5 : extP Q (add_line c3 cell f) (add_lines cell ds (add_line c3 cell f))).
    { apply add_lines_ext. eapply Forall2_Forall_l; [|exact F1]. cbn. intros a b Hab. right.
      eapply isfork_idx_ext; [exact E4|]. eapply isfork_idx_ext; [apply (grow_extP Q); exact G3|].
      eapply isfork_idx_ext; [apply (grow_extP Q); exact G2|]. eapply fork_at_isfork; eauto. }
    assert (E : extP Q c (add_lines cell ds (add_line c3 cell f))).
    { eapply extP_trans; [apply grow_extP; exact G|]. eapply extP_trans; eauto. }
    unfold ext. eapply extP_weaken; [|exact E]. cbn. intros i Hi _. unfold Q.
    pose proof (grow_length _ _ G1). lia.
Qed.

Lemma elab_bench_from_ext : forall l c0 c, elab_bench_from c0 l = Some c -> ext c0 c.
Proof.
  induction l as [|s r IH]; intros c0 c H; simpl in H.
  - inversion H; subst. apply extP_refl.
  - destruct (elab_stmt c0 s) as [c1|] eqn:E; [|discriminate].
    eapply extP_trans; [eapply elab_stmt_ext; eauto|]. apply IH; auto.
Qed.

(** * The wiring property *)

Definition wired (c : bcirc) (z kind : string) (args : list string) : Prop :=
  exists ci cell,
    nth_error (bc_nodes c) ci = Some cell /\ bn_name cell = z /\ bn_kind cell = kind /\
    List.length (bn_ins cell) = List.length args /\
    (forall k a, nth_error args k = Some a ->
       exists li l f, nth_error (bn_ins cell) k = Some (Some li) /\ nth_error (bc_lines c) li = Some l /\
                      bl_rdr l = ci /\ bl_rpin l = k /\
                      nth_error (bc_nodes c) (bl_drv l) = Some f /\ bn_kind f = fork_kind /\ bn_name f = a) /\
    (exists lo l f, nth_error (bn_outs cell) 0 = Some (Some lo) /\ nth_error (bc_lines c) lo = Some l /\
                    bl_drv l = ci /\ bl_dpin l = 0 /\
                    nth_error (bc_nodes c) (bl_rdr l) = Some f /\ bn_kind f = fork_kind /\ bn_name f = z).

Lemma wired_ext : forall c c' z kind args,
  kind <> fork_kind -> ext c c' -> wired c z kind args -> wired c' z kind args.
Proof.
  intros c c' z kind args Hk E [ci [cell [Hc [Hn [Hkd [Hlen [Hin Hout]]]]]]].
  pose proof E as [N L].
  destruct (N _ _ Hc) as [cell' [Hc' [_ [_ Heq]]]].
  rewrite Heq in Hc' by (auto; congruence). clear Heq cell'.
  exists ci, cell. repeat split; auto.
  - intros k a Ha. destruct (Hin _ _ Ha) as [li [l [f [H1 [H2 [H3 [H4 [H5 [H6 H7]]]]]]]]].
    destruct (fork_at_ext _ _ _ _ _ E (ex_intro _ f (conj H5 (conj H6 H7)))) as [f' [H5' [H6' H7']]].
    exists li, l, f'. repeat split; auto.
  - destruct Hout as [lo [l [f [H1 [H2 [H3 [H4 [H5 [H6 H7]]]]]]]]].
    destruct (fork_at_ext _ _ _ _ _ E (ex_intro _ f (conj H5 (conj H6 H7)))) as [f' [H5' [H6' H7']]].
    exists lo, l, f'. repeat split; auto.
Qed.

Lemma assign_wired : forall c0 z kind args c',
  elab_stmt c0 (BAssign z kind args) = Some c' -> kind <> fork_kind -> wired c' z kind args.
Proof.
  intros c0 z kind args c' H Hk.
  apply assign_inv in H. destruct H as [c1 [ds [c2 [cell [c3 [f [E1 [E2 [E3 ->]]]]]]]]].
  apply forks_of_spec in E1. destruct E1 as [G1 F1].
  pose proof (add_node_grow _ _ _ _ _ E2) as G2.
  apply add_node_spec in E2. destruct E2 as [Hcell [N2 _]].
  apply get_or_add_fork_spec in E3. destruct E3 as [G3 Hf].
  assert (Hc3 : nth_error (bc_nodes c3) cell = Some (mknode z kind)).
  { eapply grow_nth; [exact G3|]. rewrite N2, Hcell. apply nth_error_snoc. }
  assert (Hne : cell <> f).
  { intro; subst f. destruct Hf as [n [Hn [Hnk _]]]. rewrite Hc3 in Hn. inversion Hn; subst n. cbn in Hnk. auto. }
  set (Q := fun i => i <> cell).
  set (c4 := add_line c3 cell f).
  set (lo := List.length (bc_lines c3)).
  assert (E4 : extP Q c3 c4).
  { apply add_line_ext; [left; reflexivity|right; eapply fork_at_isfork; eauto]. }
  assert (Hc4 : nth_error (bc_nodes c4) cell =
            Some {| bn_name := z; bn_kind := kind; bn_ins := map Some []; bn_outs := [Some lo] |}).
  { unfold c4. rewrite (add_line_node _ _ _ _ _ Hc3). cbn.
    rewrite Nat.eqb_refl. destruct (Nat.eqb_spec cell f) as [?|_]; [contradiction|]. reflexivity. }
  assert (F4 : Forall2 (fork_at c4) ds args).
  { eapply Forall2_imp; [|exact F1]. intros a b Hab.
    eapply fork_at_ext; [exact E4|]. eapply fork_at_ext; [apply (grow_extP Q); exact G3|].
    eapply fork_at_ext; [apply (grow_extP Q); exact G2|]. exact Hab. }
  destruct (add_lines_cell cell z kind [Some lo] ds args c4 [] Hk Hc4 F4) as [post [Hlen [Hc5 Hpins]]].
  assert (E5 : extP Q c4 (add_lines cell ds c4)).
  { apply add_lines_ext. eapply Forall2_Forall_l; [|exact F4]. cbn. intros; right; eapply fork_at_isfork; eauto. }
  cbn [app] in Hc5.
  exists cell. eexists. split; [exact Hc5|]. cbn [bn_name bn_kind bn_ins bn_outs].
  split; [reflexivity|]. split; [reflexivity|]. split; [rewrite map_length; exact Hlen|]. split.
  - intros k a Ha. destruct (Hpins _ _ Ha) as [li [l [H1 [H2 [H3 [H4 [f' [H5 [H6 H7]]]]]]]]].
    exists li, l, f'. repeat split; auto. apply map_nth_error; auto.
  - destruct (fork_at_ext _ _ _ _ _ E5 (fork_at_ext _ _ _ _ _ E4 Hf)) as [f' [H5 [H6 H7]]].
    exists lo, (line_of c3 cell f), f'. split; [reflexivity|]. split.
    { apply (proj2 E5). unfold c4. rewrite add_line_lines. apply nth_error_snoc. }
    cbn. repeat split; auto.
    rewrite (nth_error_nth _ _ dnode Hc3). reflexivity.
Qed.

Lemma elab_bench_from_wiring : forall l c0 c z kind args,
  elab_bench_from c0 l = Some c -> In (BAssign z kind args) l -> kind <> fork_kind -> wired c z kind args.
Proof.
  induction l as [|s r IH]; intros c0 c z kind args H Hin Hk; simpl in *; [contradiction|].
  destruct (elab_stmt c0 s) as [c1|] eqn:E; [|discriminate].
  destruct Hin as [->|Hin].
  - eapply wired_ext; [exact Hk|eapply elab_bench_from_ext; exact H|]. eapply assign_wired; eauto.
  - eapply IH; eauto.
Qed.

Theorem bench_wiring : forall stmts c z kind args,
  elab_bench stmts = Some c -> In (BAssign z kind args) stmts -> kind <> fork_kind ->
  exists ci cell,
    nth_error (bc_nodes c) ci = Some cell /\ bn_name cell = z /\ bn_kind cell = kind /\
    List.length (bn_ins cell) = List.length args /\
    (forall k a, nth_error args k = Some a ->
       exists li l f, nth_error (bn_ins cell) k = Some (Some li) /\ nth_error (bc_lines c) li = Some l /\
                      bl_rdr l = ci /\ bl_rpin l = k /\
                      nth_error (bc_nodes c) (bl_drv l) = Some f /\ bn_kind f = fork_kind /\ bn_name f = a) /\
    (exists lo l f, nth_error (bn_outs cell) 0 = Some (Some lo) /\ nth_error (bc_lines c) lo = Some l /\
                    bl_drv l = ci /\ bl_dpin l = 0 /\
                    nth_error (bc_nodes c) (bl_rdr l) = Some f /\ bn_kind f = fork_kind /\ bn_name f = z).
Proof.
  intros stmts c z kind args H Hin Hk. exact (elab_bench_from_wiring _ _ _ _ _ _ H Hin Hk).
Qed.

Definition ex_stmts : list bstmt :=
  [BInterface ["a"; "b"]%string; BInterface ["z"%string];
   BAssign "z"%string "AND2"%string ["a"; "w"]%string; BAssign "w"%string "not"%string ["b"%string]].

(** non-vacuity: the description elaborates, and the theorem yields the wiring of both cells
    (the cell z reads fork w, which is only driven by a later statement) *)
Example bench_wiring_ex :
  exists c, elab_bench ex_stmts = Some c /\
    wired c "z"%string "AND2"%string ["a"; "w"]%string /\ wired c "w"%string "not"%string ["b"%string].
Proof.
  eexists. split; [vm_compute; reflexivity|]. split.
  - apply (bench_wiring ex_stmts); [vm_compute; reflexivity|simpl; auto|discriminate].
  - apply (bench_wiring ex_stmts); [vm_compute; reflexivity|simpl; auto|discriminate].
Qed.

(** * Uniqueness of names per namespace *)

Definition key (n : bnode) : string * bool := (bn_name n, is_fork n).
Definition keys (c : bcirc) : list (string * bool) := map key (bc_nodes c).

Lemma find_node_none_keys : forall c fork name, find_node c fork name = None -> ~ In (name, fork) (keys c).
Proof.
  intros c fork name H Hin. unfold keys in Hin. apply in_map_iff in Hin.
  destruct Hin as [n [Hk Hn]]. unfold key in Hk. inversion Hk.
  eapply find_node_from_none; eauto.
Qed.

Lemma add_line_keys : forall c d r, keys (add_line c d r) = keys c.
Proof.
  intros c d r. unfold keys, add_line. cbn [bc_nodes].
  rewrite !map_upd_node; auto.
Qed.

Lemma add_lines_keys : forall cell ds c, keys (add_lines cell ds c) = keys c.
Proof.
  intros cell ds. induction ds as [|d ds IH]; intros c; unfold add_lines; simpl; [reflexivity|].
  change (keys (add_lines cell ds (add_line c d cell)) = keys c). rewrite IH. apply add_line_keys.
Qed.

Lemma get_or_add_fork_keys : forall c name c' i,
  get_or_add_fork c name = (c', i) -> NoDup (keys c) -> NoDup (keys c').
Proof.
  intros c name c' i H Hnd. unfold get_or_add_fork in H.
  destruct (find_node c true name) eqn:E; inversion H; subst; [auto|].
  unfold keys. cbn [bc_nodes]. rewrite map_app. cbn [map]. apply NoDup_snoc; [exact Hnd|].
  unfold key at 1. cbn. apply find_node_none_keys. exact E.
Qed.

Lemma add_node_keys : forall c name kind c' i,
  add_node c name kind = Some (c', i) -> NoDup (keys c) -> NoDup (keys c').
Proof.
  intros c name kind c' i H Hnd. apply add_node_spec in H. destruct H as [_ [N [_ Hf]]].
  unfold keys. rewrite N, map_app. cbn [map]. apply NoDup_snoc; [exact Hnd|].
  unfold key at 1, mknode, is_fork. cbn. apply find_node_none_keys. exact Hf.
Qed.

Lemma forks_fold_keys : forall names c acc c1 ds,
  fold_left forks_step names (c, acc) = (c1, ds) -> NoDup (keys c) -> NoDup (keys c1).
Proof.
  induction names as [|a names IH]; intros c acc c1 ds H Hnd; simpl in H.
  - inversion H; subst; auto.
  - rewrite forks_step_eq in H. destruct (get_or_add_fork c a) as [c' i] eqn:E. cbn [fst snd] in H.
    eapply IH; [exact H|]. eapply get_or_add_fork_keys; eauto.
Qed.

Lemma elab_stmt_keys : forall c s c', elab_stmt c s = Some c' -> NoDup (keys c) -> NoDup (keys c').
Proof.
  intros c s c' H Hnd. destruct s as [names|z kind args].
  - cbn [elab_stmt] in H. destruct (forks_of c names) as [c1 idx] eqn:E. inversion H; subst.
    unfold keys. cbn [bc_nodes]. eapply forks_fold_keys; eauto.
  - apply assign_inv in H. destruct H as [c1 [ds [c2 [cell [c3 [f [E1 [E2 [E3 ->]]]]]]]]].
    rewrite add_lines_keys, add_line_keys.
    eapply get_or_add_fork_keys; [exact E3|]. eapply add_node_keys; [exact E2|].
    eapply forks_fold_keys; eauto.
Qed.

Lemma elab_bench_from_keys : forall l c0 c, elab_bench_from c0 l = Some c -> NoDup (keys c0) -> NoDup (keys c).
Proof.
  induction l as [|s r IH]; intros c0 c H Hnd; simpl in H.
  - inversion H; subst; auto.
  - destruct (elab_stmt c0 s) as [c1|] eqn:E; [|discriminate].
    eapply IH; [exact H|]. eapply elab_stmt_keys; eauto.
Qed.

(** strongest form: the namespaces are "fork" and "not a fork"; cells of different (non-fork)
    kinds share one namespace *)
Theorem bench_node_unique : forall stmts c i j n m,
  elab_bench stmts = Some c -> nth_error (bc_nodes c) i = Some n -> nth_error (bc_nodes c) j = Some m ->
  bn_name n = bn_name m -> is_fork n = is_fork m -> i = j.
Proof.
  intros stmts c i j n m H Hi Hj Hn Hf.
  assert (Hnd : NoDup (keys c)) by (eapply elab_bench_from_keys; [exact H|constructor]).
  rewrite NoDup_nth_error in Hnd. apply Hnd.
  - unfold keys. rewrite map_length. eapply nth_error_lt; eauto.
  - unfold keys. rewrite (map_nth_error key _ _ Hi), (map_nth_error key _ _ Hj).
    unfold key. rewrite Hn, Hf. reflexivity.
Qed.

Theorem bench_cell_unique : forall stmts c i j n m,
  elab_bench stmts = Some c -> nth_error (bc_nodes c) i = Some n -> nth_error (bc_nodes c) j = Some m ->
  bn_name n = bn_name m -> bn_kind n = bn_kind m -> i = j.
Proof.
  intros stmts c i j n m H Hi Hj Hn Hk. eapply bench_node_unique; eauto.
  unfold is_fork. rewrite Hk. reflexivity.
Qed.

(** non-vacuity: the example has a fork z (index 2) and a cell z (index 4), likewise for w; the
    theorem separates them by kind and identifies equal (name, kind) pairs *)
Example bench_cell_unique_ex :
  exists c, elab_bench ex_stmts = Some c /\ List.length (bc_nodes c) = 6 /\
    (exists n m, nth_error (bc_nodes c) 2 = Some n /\ nth_error (bc_nodes c) 4 = Some m /\
                 bn_name n = bn_name m /\ bn_kind n <> bn_kind m) /\
    forall i j n m, nth_error (bc_nodes c) i = Some n -> nth_error (bc_nodes c) j = Some m ->
                    bn_name n = bn_name m -> bn_kind n = bn_kind m -> i = j.
Proof.
  eexists. split; [vm_compute; reflexivity|]. split; [reflexivity|]. split.
  - eexists. eexists. split; [reflexivity|]. split; [reflexivity|]. split; [reflexivity|]. cbn. discriminate.
  - intros i j n m. apply (bench_cell_unique ex_stmts _ i j n m). vm_compute; reflexivity.
Qed.

(** corner cases covered by [bench_wiring] as stated: a driver mentioned twice and a driver equal
    to the assigned name itself *)
Example bench_wiring_corner :
  exists c, elab_bench [BAssign "z"%string "AND3"%string ["a"; "a"; "z"]%string] = Some c /\
    wired c "z"%string "AND3"%string ["a"; "a"; "z"]%string.
Proof.
  eexists. split; [vm_compute; reflexivity|].
  apply (bench_wiring [BAssign "z"%string "AND3"%string ["a"; "a"; "z"]%string]);
    [vm_compute; reflexivity|simpl; auto|discriminate].
Qed.

(** cells of different non-fork kinds share one namespace: the second assignment is rejected *)
Example bench_same_name_rejected :
  elab_bench [BAssign "z"%string "AND2"%string ["a"%string]; BAssign "z"%string "OR2"%string ["a"%string]] = None.
Proof. vm_compute. reflexivity. Qed.
