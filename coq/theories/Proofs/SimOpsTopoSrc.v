(** Gen/SimOpsSrc.v (the translated SimOps.__init__) iterates over `circuit.topological_order()`, which its translator takes from the model
    ([topo_order c], vocabulary Model/SimOpsSrcLib.v).  Gen/TraversalsSrc.v translates that generator itself; here the two meet: the list
    the translated op-building loop runs over IS the list the translated generator returns. *)
From Coq Require Import List NArith ZArith Bool Arith String Lia.
From KV Require Import Model.Prims Model.Netlist Model.NetlistWf Model.SimOps Model.SimOpsSrcLib Model.TraversalsSrcLib
  Gen.SimOpsSrc Gen.TraversalsSrc Proofs.SimOpsSrcProofs Proofs.TraversalsSrcProofs.
Import ListNotations.
Local Open Scope list_scope.

Theorem simops_ops_source_uses_translated_order : forall c given strip fuel,
  wf_netlist c -> u32_ok c -> List.length (c_nodes c) < fuel ->
  let actrl := a_ctrl_norm given (List.length (c_lines c) + 3) in
  exists order, topological_order_src c fuel = Some order /\ order = topo_order c /\
    simops_ops_src c actrl strip = Some (map (row_of_sop actrl) (build_ops c strip)) /\
    s_nodes_src c = Some (s_nodes c).
Proof.
  intros c given strip fuel WF Hu Hf actrl. exists (topo_order c).
  split; [now apply topological_order_source_is_model|]. split; [reflexivity|].
  split; [apply (ops_source_is_model_wf c given strip WF) | apply s_nodes_source_is_model].
Qed.
Print Assumptions simops_ops_source_uses_translated_order.
