(** Equivariance / exactness / provenance / monotonicity theorems for the wave_eval model. *)
From Coq Require Import List ZArith NArith Bool Arith Lia.
From KV Require Import Model.Time Model.WaveEval Model.WaveSpec.
Import ListNotations.
Local Open Scope list_scope.

(* ------------------------------------------------------------------ *)
(** * Time basics *)

Lemma teqb_eq a b : teqb a b = true <-> a = b.
Proof.
  destruct a, b; simpl; split; intro H; try discriminate; try reflexivity.
  - apply Z.eqb_eq in H; now subst.
  - inversion H; apply Z.eqb_refl.
Qed.

Lemma teqb_refl a : teqb a a = true.
Proof. now apply teqb_eq. Qed.

Lemma is_end_tadd t x : is_end (tadd t x) = is_end t.
Proof. now destruct t. Qed.

Lemma tmin_cases a b : tmin a b = a \/ tmin a b = b.
Proof. unfold tmin; destruct (tltb b a); auto. Qed.

Lemma tmin_end a x : is_end (tmin a x) = true -> is_end a = true /\ is_end x = true.
Proof.
  unfold tmin; destruct (tltb x a) eqn:E; destruct a, x; simpl in *; intros; try discriminate; auto.
Qed.

Lemma tmax_end_l a x : is_end a = true -> is_end (tmax a x) = true.
Proof. unfold tmax; destruct (tltb a x) eqn:E; destruct a, x; simpl in *; intros; try discriminate; auto. Qed.

Lemma tmax_end_r a x : is_end x = true -> is_end (tmax a x) = true.
Proof. unfold tmax; destruct (tltb a x) eqn:E; destruct a, x; simpl in *; intros; try discriminate; auto. Qed.

Lemma min4_fold_In l : forall a, fold_left tmin l a = a \/ In (fold_left tmin l a) l.
Proof.
  induction l as [|x l IH]; intros a; simpl; auto.
  destruct (IH (tmin a x)) as [H|H]; auto.
  rewrite H. destruct (tmin_cases a x) as [H1|H1]; rewrite H1; auto.
Qed.

Lemma min4_In l : is_end (min4 l) = false -> In (min4 l) l.
Proof.
  unfold min4; intros H. destruct (min4_fold_In l MaxOvl) as [E|E]; auto.
  rewrite E in H; discriminate.
Qed.

Lemma min4_fold_end l : forall a, is_end (fold_left tmin l a) = true ->
  is_end a = true /\ Forall (fun t => is_end t = true) l.
Proof.
  induction l as [|x l IH]; intros a H; simpl in *; auto.
  apply IH in H. destruct H as [H1 H2]. apply tmin_end in H1. destruct H1; auto.
Qed.

Lemma max4_fold_end_acc l : forall a, is_end a = true -> is_end (fold_left tmax l a) = true.
Proof. induction l as [|x l IH]; intros a H; simpl; auto. apply IH. now apply tmax_end_l. Qed.

Lemma min4_end_max4_end l : l <> [] -> is_end (min4 l) = true -> is_end (max4 l) = true.
Proof.
  unfold min4, max4; intros Hne H. apply min4_fold_end in H. destruct H as [_ H].
  destruct l as [|x l]; [congruence|]. simpl. apply max4_fold_end_acc. apply tmax_end_r.
  now inversion H.
Qed.

(* ------------------------------------------------------------------ *)
(** * Lists: wget / wset / ntrans / upto_end *)

Lemma wset_length w : forall i v, length (wset w i v) = length w.
Proof. induction w as [|x w IH]; intros [|i] v; simpl; auto. Qed.

Lemma wget_wset_same w : forall i v, i < length w -> wget (wset w i v) i = v.
Proof.
  unfold wget; induction w as [|x w IH]; intros [|i] v H; simpl in *; try lia; auto.
  apply IH; lia.
Qed.

Lemma wget_wset_other w : forall i j v, i <> j -> wget (wset w i v) j = wget w j.
Proof.
  unfold wget; induction w as [|x w IH]; intros [|i] [|j] v H; simpl in *; try lia; auto.
Qed.

Lemma ntrans_le_length w : ntrans w <= length w.
Proof. induction w as [|t w IH]; simpl; auto. destruct (is_end t); simpl; lia. Qed.

Lemma wget_ntrans_end w : is_end (wget w (ntrans w)) = true.
Proof.
  unfold wget; induction w as [|t w IH]; simpl; auto.
  destruct (is_end t) eqn:E; simpl; auto.
Qed.

Lemma wget_lt_ntrans w : forall i, i < ntrans w -> is_end (wget w i) = false.
Proof.
  unfold wget; induction w as [|t w IH]; simpl; intros i H; [lia|].
  destruct (is_end t) eqn:E; [lia|]. destruct i; auto. apply IH; lia.
Qed.

Lemma lt_ntrans w c : c <= ntrans w -> is_end (wget w c) = false -> c < ntrans w.
Proof.
  intros H1 H2. destruct (Nat.eq_dec c (ntrans w)) as [->|]; [|lia].
  rewrite wget_ntrans_end in H2; discriminate.
Qed.

Lemma wget_in_body w : forall i, i < ntrans w -> In (wget w i) (body w).
Proof.
  unfold body, wget; induction w as [|t w IH]; simpl; intros i H; [lia|].
  destruct (is_end t) eqn:E; [lia|]. simpl. destruct i; auto. right; apply IH; lia.
Qed.

Lemma ntrans_upto_end w : ntrans (upto_end w) = ntrans w.
Proof.
  induction w as [|t w IH]; simpl; auto.
  destruct (is_end t) eqn:E; simpl; rewrite E; auto.
Qed.

Lemma wget_upto_end w : forall c, c <= ntrans w -> wget (upto_end w) c = wget w c.
Proof.
  unfold wget; induction w as [|t w IH]; simpl; intros c H; auto.
  destruct (is_end t) eqn:E.
  - assert (c = 0) by lia; subst; reflexivity.
  - destruct c; simpl; auto. apply IH; lia.
Qed.

Lemma wget_upto_end_eq w w' c : upto_end w = upto_end w' -> c <= ntrans w -> wget w' c = wget w c.
Proof.
  intros E H. rewrite <- (wget_upto_end w c H).
  rewrite <- (wget_upto_end w' c); [now rewrite E|].
  rewrite <- (ntrans_upto_end w'), <- E, ntrans_upto_end; auto.
Qed.

Lemma hd_upto_end w : wget (upto_end w) 0 = wget w 0.
Proof. destruct w as [|t w]; simpl; auto. destruct (is_end t); reflexivity. Qed.

(* ------------------------------------------------------------------ *)
(** * Operand selection *)

Definition pend_k (ws : list (list time)) (ds : list dtab) (cur : list nat) (zv : bool) (k : nat) : time :=
  tadd (wget (nth k ws []) (nth k cur 0)) (dget (nth k ds dzero) (Nat.odd (nth k cur 0)) zv).

Lemma pending_eq ws ds cur zv :
  pending ws ds cur zv = [pend_k ws ds cur zv 0; pend_k ws ds cur zv 1; pend_k ws ds cur zv 2; pend_k ws ds cur zv 3].
Proof. reflexivity. Qed.

Definition sel (ws : list (list time)) (ds : list dtab) (st : wst) : nat :=
  let pend := pending ws ds (cur4 st) (zval st) in first_eq (firstn 3 pend) (min4 pend) 0.

Lemma first_eq_spec a b c d t : In t [a; b; c; d] ->
  first_eq (firstn 3 [a; b; c; d]) t 0 < 4 /\ nth (first_eq (firstn 3 [a; b; c; d]) t 0) [a; b; c; d] MaxOvl = t.
Proof.
  intros H. simpl.
  destruct (teqb a t) eqn:Ea; [apply teqb_eq in Ea; split; [lia|auto]|].
  destruct (teqb b t) eqn:Eb; [apply teqb_eq in Eb; split; [lia|auto]|].
  destruct (teqb c t) eqn:Ec; [apply teqb_eq in Ec; split; [lia|auto]|].
  split; [lia|].
  destruct H as [H|[H|[H|[H|[]]]]]; subst; auto; rewrite teqb_refl in *; discriminate.
Qed.

Lemma sel_spec ws ds st :
  is_end (min4 (pending ws ds (cur4 st) (zval st))) = false ->
  sel ws ds st < 4 /\ pend_k ws ds (cur4 st) (zval st) (sel ws ds st) = min4 (pending ws ds (cur4 st) (zval st)).
Proof.
  intros H. apply min4_In in H. unfold sel. cbv zeta. rewrite pending_eq in *.
  destruct (first_eq_spec _ _ _ _ _ H) as [H1 H2]. split; auto.
  set (k := first_eq _ _ _) in *. clearbody k.
  destruct k as [|[|[|[|k]]]]; try lia; exact H2.
Qed.

Definition cinv (ws : list (list time)) (cur : list nat) : Prop :=
  length cur = 4 /\ forall k, k < 4 -> nth k cur 0 <= ntrans (nth k ws []).

Lemma sel_lt ws ds st : cinv ws (cur4 st) ->
  is_end (min4 (pending ws ds (cur4 st) (zval st))) = false ->
  nth (sel ws ds st) (cur4 st) 0 < ntrans (nth (sel ws ds st) ws []).
Proof.
  intros [_ Hc] H. destruct (sel_spec ws ds st H) as [Hk He].
  apply lt_ntrans; auto.
  rewrite <- He in H. unfold pend_k in H. now rewrite is_end_tadd in H.
Qed.

Lemma incr_nth_length l : forall k, length (incr_nth l k) = length l.
Proof. induction l as [|x l IH]; intros [|k]; simpl; auto. Qed.

Lemma incr_nth_same l : forall k, k < length l -> nth k (incr_nth l k) 0 = S (nth k l 0).
Proof. induction l as [|x l IH]; intros [|k] H; simpl in *; try lia; auto. apply IH; lia. Qed.

Lemma incr_nth_other l : forall k j, j <> k -> nth j (incr_nth l k) 0 = nth j l 0.
Proof. induction l as [|x l IH]; intros [|k] [|j] H; simpl in *; try lia; auto. Qed.

Lemma cinv_incr ws cur k : cinv ws cur -> k < 4 -> nth k cur 0 < ntrans (nth k ws []) ->
  cinv ws (incr_nth cur k).
Proof.
  intros [Hl Hc] Hk Hlt. split; [now rewrite incr_nth_length|].
  intros j Hj. destruct (Nat.eq_dec j k) as [->|Hne].
  - rewrite incr_nth_same by lia. lia.
  - rewrite incr_nth_other by auto. auto.
Qed.

(* ------------------------------------------------------------------ *)
(** * Field projections of [step] *)

Lemma cur4_step lut ws ds zcap st : cur4 (step lut ws ds zcap st) = incr_nth (cur4 st) (sel ws ds st).
Proof.
  unfold step, sel; cbv zeta.
  destruct (negb _); [|reflexivity].
  destruct (_ || _); [destruct (_ <? _)|]; reflexivity.
Qed.

Lemma ovf_step_mono lut ws ds zcap st : ovf st <= ovf (step lut ws ds zcap st).
Proof.
  unfold step; cbv zeta.
  destruct (negb _); [|simpl; lia].
  destruct (_ || _); [destruct (_ <? _)|]; simpl; lia.
Qed.

Lemma zarr_step_length lut ws ds zcap st : length (zarr (step lut ws ds zcap st)) = length (zarr st).
Proof.
  unfold step; cbv zeta.
  destruct (negb _); [|reflexivity].
  destruct (_ || _); [destruct (_ <? _)|]; simpl; auto using wset_length.
Qed.

Lemma cinv_step lut ws ds zcap st : cinv ws (cur4 st) ->
  is_end (min4 (pending ws ds (cur4 st) (zval st))) = false -> cinv ws (cur4 (step lut ws ds zcap st)).
Proof.
  intros Hc He. rewrite cur4_step. apply cinv_incr; auto.
  - apply (sel_spec ws ds st He).
  - now apply sel_lt.
Qed.

(* ------------------------------------------------------------------ *)
(** * Generic loop reasoning *)

Lemma loop_inv (P : wst -> Prop) lut ws ds zcap :
  (forall st, P st -> is_end (min4 (pending ws ds (cur4 st) (zval st))) = false -> P (step lut ws ds zcap st)) ->
  forall fuel st r, P st -> loop fuel lut ws ds zcap st = Some r -> P r.
Proof.
  intros Hstep. induction fuel as [|f IH]; intros st r HP H; simpl in H;
    destruct (is_end _) eqn:E; try discriminate; try (inversion H; subst; now auto).
  eapply IH; [|exact H]. auto.
Qed.

Lemma loop_end fuel lut ws ds zcap : forall st r, loop fuel lut ws ds zcap st = Some r ->
  is_end (min4 (pending ws ds (cur4 r) (zval r))) = true.
Proof.
  induction fuel as [|f IH]; intros st r H; simpl in H; destruct (is_end _) eqn:E;
    try discriminate; try (inversion H; subst; now auto).
  eauto.
Qed.

Lemma loop_ovf_mono fuel lut ws ds zcap : forall st r, loop fuel lut ws ds zcap st = Some r -> ovf st <= ovf r.
Proof.
  induction fuel as [|f IH]; intros st r H; simpl in H; destruct (is_end _) eqn:E;
    try discriminate; try (inversion H; subst; now auto).
  apply IH in H. pose proof (ovf_step_mono lut ws ds zcap st). lia.
Qed.

(** termination: the fuel only has to cover the remaining transitions *)
Definition msum (ws : list (list time)) (cur : list nat) : nat :=
  (ntrans (nth 0 ws []) - nth 0 cur 0) + (ntrans (nth 1 ws []) - nth 1 cur 0) +
  (ntrans (nth 2 ws []) - nth 2 cur 0) + (ntrans (nth 3 ws []) - nth 3 cur 0).

Lemma msum_incr ws cur k : length cur = 4 -> k < 4 -> nth k cur 0 < ntrans (nth k ws []) ->
  S (msum ws (incr_nth cur k)) = msum ws cur.
Proof.
  intros Hl Hk Hlt. unfold msum.
  destruct k as [|[|[|[|k]]]]; try lia;
  rewrite incr_nth_same by lia; rewrite !incr_nth_other by lia; lia.
Qed.

Lemma loop_terminates lut ws ds zcap : forall fuel st, cinv ws (cur4 st) -> msum ws (cur4 st) <= fuel ->
  exists r, loop fuel lut ws ds zcap st = Some r.
Proof.
  induction fuel as [|f IH]; intros st Hc Hm; simpl; destruct (is_end _) eqn:E; eauto.
  - exfalso. pose proof (sel_lt ws ds st Hc E) as Hlt. destruct (sel_spec ws ds st E) as [Hk _].
    pose proof (msum_incr ws (cur4 st) _ (proj1 Hc) Hk Hlt). lia.
  - apply IH; [now apply cinv_step|].
    rewrite cur4_step.
    pose proof (sel_lt ws ds st Hc E) as Hlt. destruct (sel_spec ws ds st E) as [Hk _].
    pose proof (msum_incr ws (cur4 st) _ (proj1 Hc) Hk Hlt). lia.
Qed.

Lemma fuel_enough ws : length ws = 4 ->
  msum ws [0; 0; 0; 0] <= S (fold_left (fun n w => n + length w) ws 0).
Proof.
  intros H. destruct ws as [|a [|b [|c [|d [|e ws]]]]]; simpl in H; try lia.
  unfold msum; simpl.
  pose proof (ntrans_le_length a); pose proof (ntrans_le_length b);
  pose proof (ntrans_le_length c); pose proof (ntrans_le_length d). lia.
Qed.

Lemma cinv_init ws : cinv ws [0; 0; 0; 0].
Proof. split; auto. intros k Hk. destruct k as [|[|[|[|k]]]]; simpl; lia. Qed.

(* ------------------------------------------------------------------ *)
(** * wave_eval as loop + finish *)

Definition st0 (lut : N) (zreg : list time) : wst :=
  {| cur4 := [0; 0; 0; 0]; inputs := 0%N; zarr := if N.odd lut then wset zreg 0 MinInf else zreg;
     zcur := if N.odd lut then 1 else 0; zval := N.odd lut; prev := MinInf; ovf := 0 |}.

Definition finish (ws : list (list time)) (ds : list dtab) (st : wst) : wres :=
  let pend := pending ws ds (cur4 st) (zval st) in
  let term := if Nat.ltb 0 (ovf st) then MaxOvl else max4 pend in
  let z := wset (zarr st) (zcur st) term in
  let first_min := match wget z 0 with MinInf => 1 | _ => 0 end in
  {| r_z := z; r_rise := Nat.div (zcur st + 1) 2 - first_min; r_fall := Nat.div (zcur st) 2; r_ovf := ovf st |}.

Definition term_of (ws : list (list time)) (ds : list dtab) (st : wst) : time :=
  if Nat.ltb 0 (ovf st) then MaxOvl else max4 (pending ws ds (cur4 st) (zval st)).

Lemma wave_eval_eq lut ws ds zreg :
  wave_eval lut ws ds zreg =
  match loop (S (fold_left (fun n w => n + length w) ws 0)) lut ws ds (length zreg) (st0 lut zreg) with
  | None => None
  | Some st => Some (finish ws ds st)
  end.
Proof. reflexivity. Qed.

Lemma term_of_end ws ds st : is_end (min4 (pending ws ds (cur4 st) (zval st))) = true ->
  is_end (term_of ws ds st) = true.
Proof.
  intros H. unfold term_of. destruct (0 <? ovf st); auto.
  apply min4_end_max4_end; auto. rewrite pending_eq. discriminate.
Qed.

Lemma wave_eval_some lut ws ds zreg : length ws = 4 -> exists r, wave_eval lut ws ds zreg = Some r.
Proof.
  intros H. rewrite wave_eval_eq.
  destruct (loop_terminates lut ws ds (length zreg) _ (st0 lut zreg) (cinv_init ws) (fuel_enough ws H)) as [r Hr].
  rewrite Hr. eauto.
Qed.

Lemma zcur_step_bound lut ws ds zcap st : 2 <= zcap -> zcur st < zcap -> zcur (step lut ws ds zcap st) < zcap.
Proof.
  intros H2 H. unfold step; cbv zeta.
  destruct (negb (eqb _ _)); [|exact H].
  destruct (_ || _); [destruct (_ <? _) eqn:E; [apply Nat.ltb_lt in E|]|]; simpl; lia.
Qed.

Lemma loop_unfold fuel lut ws ds zcap st :
  loop fuel lut ws ds zcap st =
  if is_end (min4 (pending ws ds (cur4 st) (zval st))) then Some st
  else match fuel with O => None | S f => loop f lut ws ds zcap (step lut ws ds zcap st) end.
Proof. destruct fuel; reflexivity. Qed.

(* ------------------------------------------------------------------ *)
(** * Simulation between two runs related by a monotone map on times *)

Definition lift (fz : Z -> Z) (t : time) : time := match t with Fin z => Fin (fz z) | _ => t end.

Section Sim.
Variables fz g : Z -> Z.
Hypothesis fz_lt : forall a b, (fz a <? fz b)%Z = (a <? b)%Z.
Hypothesis fz_eq : forall a b, (fz a =? fz b)%Z = (a =? b)%Z.
Hypothesis fz_add : forall z x, fz (z + x)%Z = (fz z + g x)%Z.
Hypothesis g_gap : forall c p th, (g th <? fz c - fz p)%Z = (th <? c - p)%Z.
Hypothesis g_neg : forall th, (g th <? 0)%Z = (th <? 0)%Z.
Local Notation f := (lift fz).

Lemma f_tltb a b : tltb (f a) (f b) = tltb a b.
Proof. destruct a, b; simpl; auto. Qed.
Lemma f_teqb a b : teqb (f a) (f b) = teqb a b.
Proof. destruct a, b; simpl; auto. Qed.
Lemma f_is_end t : is_end (f t) = is_end t.
Proof. destruct t; auto. Qed.
Lemma f_tadd t x : tadd (f t) (g x) = f (tadd t x).
Proof. destruct t; simpl; auto. now rewrite fz_add. Qed.
Lemma f_gap c p th : gap_gt (f c) (f p) (g th) = gap_gt c p th.
Proof. destruct c, p; simpl; auto. Qed.
Lemma f_tmin a b : tmin (f a) (f b) = f (tmin a b).
Proof. unfold tmin; rewrite f_tltb; destruct (tltb b a); auto. Qed.
Lemma f_tmax a b : tmax (f a) (f b) = f (tmax a b).
Proof. unfold tmax; rewrite f_tltb; destruct (tltb a b); auto. Qed.

Lemma min4_map l : min4 (map f l) = f (min4 l).
Proof.
  unfold min4. change MaxOvl with (f MaxOvl) at 1. generalize MaxOvl.
  induction l as [|x l IH]; intros a; simpl; auto. rewrite f_tmin. apply IH.
Qed.
Lemma max4_map l : max4 (map f l) = f (max4 l).
Proof.
  unfold max4. change MinInf with (f MinInf) at 1. generalize MinInf.
  induction l as [|x l IH]; intros a; simpl; auto. rewrite f_tmax. apply IH.
Qed.
Lemma first_eq_map l : forall t i, first_eq (map f l) (f t) i = first_eq l t i.
Proof. induction l as [|x l IH]; intros t i; simpl; auto. rewrite f_teqb, IH. reflexivity. Qed.

Variables (lut : N) (ws ws' : list (list time)) (ds ds' : list dtab) (zcap zcap' : nat).
Hypothesis Hops : forall k c, k < 4 -> c <= ntrans (nth k ws []) ->
  wget (nth k ws' []) c = f (wget (nth k ws []) c).
Hypothesis Hds : forall k i j, k < 4 -> dget (nth k ds' dzero) i j = g (dget (nth k ds dzero) i j).

Record R (st st' : wst) : Prop := {
  R_cur : cur4 st' = cur4 st;
  R_inp : inputs st' = inputs st;
  R_zcur : zcur st' = zcur st;
  R_zval : zval st' = zval st;
  R_ovf : ovf st' = ovf st;
  R_prev : 0 < zcur st -> prev st' = f (prev st);
  R_zarr : forall i, i < zcur st -> wget (zarr st') i = f (wget (zarr st) i);
  R_len : length (zarr st) = zcap;
  R_len' : length (zarr st') = zcap';
  R_cinv : cinv ws (cur4 st)
}.

Lemma pend_k_rel cur zv k : cinv ws cur -> k < 4 -> pend_k ws' ds' cur zv k = f (pend_k ws ds cur zv k).
Proof. intros [_ Hc] Hk. unfold pend_k. rewrite Hops, Hds, f_tadd; auto. Qed.

Lemma pending_rel cur zv : cinv ws cur -> pending ws' ds' cur zv = map f (pending ws ds cur zv).
Proof. intros Hc. rewrite !pending_eq. cbn [map]. rewrite !pend_k_rel by (auto; lia). reflexivity. Qed.

Lemma sel_rel st st' : R st st' -> sel ws' ds' st' = sel ws ds st.
Proof.
  intros HR. unfold sel; cbv zeta. rewrite (R_cur _ _ HR), (R_zval _ _ HR).
  rewrite (pending_rel _ _ (R_cinv _ _ HR)), min4_map, firstn_map, first_eq_map. reflexivity.
Qed.

Lemma step_sim st st' : R st st' ->
  is_end (min4 (pending ws ds (cur4 st) (zval st))) = false ->
  (zcap = zcap' \/ (zcap <= zcap' /\ ovf (step lut ws ds zcap st) = ovf st)) ->
  R (step lut ws ds zcap st) (step lut ws' ds' zcap' st').
Proof.
  intros HR He Hcap.
  pose proof (sel_rel _ _ HR) as Hsel.
  pose proof (sel_spec ws ds st He) as [Hk Hpk].
  pose proof (sel_lt ws ds st (R_cinv _ _ HR) He) as Hlt.
  pose proof (cinv_step lut ws ds zcap st (R_cinv _ _ HR) He) as Hcinv'.
  destruct HR as [Rc Ri Rz Rv Ro Rp Ra Rl Rl' Rci].
  destruct st as [cur inp za zc zv pv ov], st' as [cur' inp' za' zc' zv' pv' ov'].
  cbn [cur4 inputs zarr zcur zval prev ovf] in *. subst cur' inp' zc' zv' ov'.
  unfold step in *. cbv zeta in *. cbn [cur4 inputs zarr zcur zval prev ovf] in *.
  rewrite (pending_rel _ _ Rci), min4_map, firstn_map, first_eq_map.
  unfold sel in *. cbv zeta in *. cbn [cur4 inputs zarr zcur zval prev ovf] in *.
  set (pend := pending ws ds cur zv) in *.
  set (k := first_eq (firstn 3 pend) (min4 pend) 0) in *.
  rewrite incr_nth_same in * by (rewrite (proj1 Rci); exact Hk).
  rewrite (Hops k (S (nth k cur 0)) Hk Hlt), !(Hds k _ _ Hk), f_tadd, f_tltb.
  set (current := min4 pend) in *. set (next_t := tadd _ _) in *.
  set (thresh := dget (nth k ds dzero) _ zv) in *.
  assert (Etest : ((zc =? 0) || tltb next_t current || gap_gt (f current) pv' (g thresh)) =
                  ((zc =? 0) || tltb next_t current || gap_gt current pv thresh)).
  { destruct (zc =? 0) eqn:Ez; [reflexivity|]. apply Nat.eqb_neq in Ez.
    rewrite Rp by lia. now rewrite f_gap. }
  rewrite Etest. clear Etest.
  destruct (negb (eqb _ _)) eqn:Eflip.
  2:{ constructor; cbn [cur4 inputs zarr zcur zval prev ovf]; auto. }
  destruct (_ || _) eqn:Etest.
  - destruct (zc <? zcap - 1) eqn:Ecap.
    + assert (Ecap' : zc <? zcap' - 1 = true).
      { apply Nat.ltb_lt in Ecap. apply Nat.ltb_lt. destruct Hcap as [<-|[? _]]; lia. }
      rewrite Ecap'. apply Nat.ltb_lt in Ecap, Ecap'.
      constructor; cbn [cur4 inputs zarr zcur zval prev ovf]; auto.
      * intros i Hi. destruct (Nat.eq_dec i zc) as [->|Hne].
        -- rewrite !wget_wset_same by lia. reflexivity.
        -- rewrite !wget_wset_other by lia. apply Ra; lia.
      * now rewrite wset_length.
      * now rewrite wset_length.
    + assert (Ecap' : zc <? zcap' - 1 = false).
      { destruct Hcap as [<-|[_ Ho]]; [exact Ecap|]. cbn [ovf] in Ho. lia. }
      rewrite Ecap'.
      constructor; cbn [cur4 inputs zarr zcur zval prev ovf]; auto.
      * intros Hz. apply Ra; lia.
      * intros i Hi. apply Ra; lia.
  - constructor; cbn [cur4 inputs zarr zcur zval prev ovf]; auto.
    + intros Hz. destruct (0 <? zc - 1) eqn:E0; [|reflexivity]. apply Ra; lia.
    + intros i Hi. apply Ra; lia.
Qed.

Lemma end_rel st st' : R st st' ->
  is_end (min4 (pending ws' ds' (cur4 st') (zval st'))) = is_end (min4 (pending ws ds (cur4 st) (zval st))).
Proof.
  intros HR. rewrite (R_cur _ _ HR), (R_zval _ _ HR), (pending_rel _ _ (R_cinv _ _ HR)), min4_map.
  apply f_is_end.
Qed.

Lemma loop_sim : forall fuel fuel' st st' r r', R st st' ->
  loop fuel lut ws ds zcap st = Some r -> loop fuel' lut ws' ds' zcap' st' = Some r' ->
  (zcap = zcap' \/ (zcap <= zcap' /\ ovf r = ovf st)) -> R r r'.
Proof.
  induction fuel as [|fu IH]; intros fuel' st st' r r' HR H H' Hcap;
    rewrite loop_unfold in H, H'; rewrite (end_rel _ _ HR) in H';
    destruct (is_end _) eqn:E; try discriminate.
  - inversion H; inversion H'; subst; auto.
  - inversion H; inversion H'; subst; auto.
  - destruct fuel' as [|fu']; [discriminate|].
    eapply IH; [|exact H|exact H'|].
    + apply step_sim; auto. destruct Hcap as [Hc|[Hc Ho]]; auto. right; split; auto.
      pose proof (loop_ovf_mono _ _ _ _ _ _ _ H). pose proof (ovf_step_mono lut ws ds zcap st). lia.
    + destruct Hcap as [Hc|[Hc Ho]]; auto. right; split; auto.
      pose proof (loop_ovf_mono _ _ _ _ _ _ _ H). pose proof (ovf_step_mono lut ws ds zcap st). lia.
Qed.

Lemma wget_map l i : wget (map f l) i = f (wget l i).
Proof. unfold wget. change MaxInf with (f MaxInf) at 1. apply map_nth. Qed.

Lemma upto_end_wset_rel t : is_end t = true -> forall c z z',
  (forall i, i < c -> wget z' i = f (wget z i)) ->
  (length z' = length z \/ (c < length z /\ c < length z')) ->
  upto_end (wset z' c (f t)) = map f (upto_end (wset z c t)).
Proof.
  intros Ht. induction c as [|c IH]; intros z z' Hrel Hlen.
  - destruct z as [|x z], z' as [|x' z']; simpl in *; try lia; auto.
    rewrite f_is_end, Ht. reflexivity.
  - destruct z as [|x z], z' as [|x' z']; simpl in *; try lia; auto.
    pose proof (Hrel 0 ltac:(lia)) as H0. unfold wget in H0; simpl in H0. subst x'.
    rewrite f_is_end. destruct (is_end x); [reflexivity|]. simpl. f_equal.
    apply IH.
    + intros i Hi. apply (Hrel (S i)). lia.
    + lia.
Qed.

Lemma term_rel st st' : R st st' -> term_of ws' ds' st' = f (term_of ws ds st).
Proof.
  intros HR. unfold term_of.
  rewrite (R_cur _ _ HR), (R_zval _ _ HR), (R_ovf _ _ HR), (pending_rel _ _ (R_cinv _ _ HR)), max4_map.
  destruct (0 <? ovf st); reflexivity.
Qed.

Lemma finish_rel st st' : R st st' ->
  is_end (min4 (pending ws ds (cur4 st) (zval st))) = true ->
  (zcap' = zcap \/ (zcur st < zcap /\ zcur st < zcap')) ->
  upto_end (r_z (finish ws' ds' st')) = map f (upto_end (r_z (finish ws ds st))) /\
  r_rise (finish ws' ds' st') = r_rise (finish ws ds st) /\
  r_fall (finish ws' ds' st') = r_fall (finish ws ds st) /\
  r_ovf (finish ws' ds' st') = r_ovf (finish ws ds st).
Proof.
  intros HR He Hcap.
  assert (Hz : upto_end (wset (zarr st') (zcur st') (term_of ws' ds' st')) =
               map f (upto_end (wset (zarr st) (zcur st) (term_of ws ds st)))).
  { rewrite (term_rel _ _ HR), (R_zcur _ _ HR).
    apply upto_end_wset_rel.
    - now apply term_of_end.
    - apply (R_zarr _ _ HR).
    - rewrite (R_len _ _ HR), (R_len' _ _ HR). auto. }
  unfold finish; cbv zeta; cbn [r_z r_rise r_fall r_ovf]. fold (term_of ws ds st) (term_of ws' ds' st').
  split; [exact Hz|]. split; [|split].
  - rewrite (R_zcur _ _ HR). f_equal.
    rewrite <- (hd_upto_end (wset (zarr st') _ _)), (R_zcur _ _ HR) in *. rewrite Hz, wget_map, hd_upto_end.
    destruct (wget _ 0); reflexivity.
  - now rewrite (R_zcur _ _ HR).
  - apply (R_ovf _ _ HR).
Qed.

Lemma R_init zreg zreg' : length zreg = zcap -> length zreg' = zcap' ->
  (zcap' = zcap \/ (0 < zcap /\ 0 < zcap')) -> R (st0 lut zreg) (st0 lut zreg').
Proof.
  intros Hl Hl' Hcap. unfold st0.
  constructor; cbn [cur4 inputs zarr zcur zval prev ovf]; auto.
  - destruct (N.odd lut); [|intros; lia].
    intros i Hi. assert (i = 0) by lia; subst i.
    destruct zreg as [|x z], zreg' as [|x' z']; simpl in *; try lia; reflexivity.
  - destruct (N.odd lut); auto using wset_length. now rewrite wset_length.
  - destruct (N.odd lut); auto using wset_length. now rewrite wset_length.
  - apply cinv_init.
Qed.

Theorem sim_main zreg zreg' r : length zreg = zcap -> length zreg' = zcap' ->
  length ws = 4 -> length ws' = 4 ->
  (zcap' = zcap \/ (2 <= zcap /\ zcap <= zcap' /\ r_ovf r = 0)) ->
  wave_eval lut ws ds zreg = Some r ->
  exists r', wave_eval lut ws' ds' zreg' = Some r' /\
             upto_end (r_z r') = map f (upto_end (r_z r)) /\
             r_rise r' = r_rise r /\ r_fall r' = r_fall r /\ r_ovf r' = r_ovf r.
Proof.
  intros Hl Hl' Hw Hw' Hcap H.
  rewrite wave_eval_eq in H. rewrite wave_eval_eq. rewrite Hl in H. rewrite Hl'.
  destruct (loop _ lut ws ds zcap _) as [st|] eqn:EL; [|discriminate].
  inversion H; subst r; clear H.
  destruct (loop_terminates lut ws' ds' zcap' _ (st0 lut zreg') (cinv_init ws') (fuel_enough ws' Hw')) as [st' EL'].
  rewrite EL'. eexists; split; [reflexivity|].
  assert (HR : R st st').
  { eapply loop_sim; [|exact EL|exact EL'|].
    - apply R_init; auto. destruct Hcap as [Hc|Hc]; auto. right; lia.
    - destruct Hcap as [Hc|[H2 [Hc Ho]]]; [auto|right; split; auto]. }
  apply finish_rel; auto.
  - eapply loop_end; exact EL.
  - destruct Hcap as [Hc|[H2 [Hc Ho]]]; auto. right.
    assert (zcur st < zcap).
    { eapply (loop_inv (fun s => zcur s < zcap)); [|idtac|exact EL].
      - intros s Hs _. now apply zcur_step_bound.
      - unfold st0; simpl. destruct (N.odd lut); lia. }
    lia.
Qed.
End Sim.

(* ------------------------------------------------------------------ *)
(** * E1, E2, E4 as instances of [sim_main] *)

Definition wf_args (ws : list (list time)) (ds : list dtab) (zreg : list time) : Prop :=
  length ws = 4 /\ length ds = 4 /\ Forall wf_wave ws /\ Forall dtab_nonneg ds /\ 4 <= length zreg.

Lemma nth_map_map (h : time -> time) (ws : list (list time)) k : nth k (map (map h) ws) [] = map h (nth k ws []).
Proof. change (@nil time) with (map h []) at 1. apply map_nth. Qed.

Lemma lift_id t : lift (fun z => z) t = t.
Proof. destruct t; reflexivity. Qed.

Lemma map_lift_id l : map (lift (fun z => z)) l = l.
Proof. rewrite (map_ext _ (fun t => t) lift_id). apply map_id. Qed.

Ltac zbool := intros; apply Bool.eq_true_iff_eq; rewrite ?Z.ltb_lt, ?Z.eqb_eq.

Theorem shift_equivariant lut ws ds zreg zreg' delta r :
  length ws = 4 -> length ds = 4 -> length zreg' = length zreg ->
  wave_eval lut ws ds zreg = Some r ->
  exists r', wave_eval lut (map (map (shift delta)) ws) ds zreg' = Some r' /\
             upto_end (r_z r') = map (shift delta) (upto_end (r_z r)) /\
             r_rise r' = r_rise r /\ r_fall r' = r_fall r /\ r_ovf r' = r_ovf r.
Proof.
  intros Hw Hd Hl H.
  change (shift delta) with (lift (fun z => (z + delta)%Z)).
  apply (sim_main (fun z => (z + delta)%Z) (fun x => x)) with (ws := ws) (ds := ds) (zcap := length zreg) (zcap' := length zreg') (zreg := zreg);
    auto; try (now rewrite map_length).
  - zbool; lia.
  - zbool; lia.
  - intros; lia.
  - zbool; lia.
  - intros k c Hk _. rewrite nth_map_map. apply wget_map.
Qed.

Definition scale (k : Z) (t : time) : time := match t with Fin z => Fin (k * z) | _ => t end.
Definition dscale (k : Z) (d : dtab) : dtab :=
  {| d00 := k * d00 d; d01 := k * d01 d; d10 := k * d10 d; d11 := k * d11 d |}.

Theorem scale_equivariant lut ws ds zreg zreg' k r : (0 < k)%Z ->
  length ws = 4 -> length ds = 4 -> length zreg' = length zreg ->
  wave_eval lut ws ds zreg = Some r ->
  exists r', wave_eval lut (map (map (scale k)) ws) (map (dscale k) ds) zreg' = Some r' /\
             upto_end (r_z r') = map (scale k) (upto_end (r_z r)) /\
             r_rise r' = r_rise r /\ r_fall r' = r_fall r /\ r_ovf r' = r_ovf r.
Proof.
  intros Hk Hw Hd Hl H.
  change (scale k) with (lift (fun z => (k * z)%Z)).
  apply (sim_main (fun z => (k * z)%Z) (fun x => (k * x)%Z)) with (ws := ws) (ds := ds) (zcap := length zreg) (zcap' := length zreg') (zreg := zreg);
    auto; try (now rewrite map_length).
  - zbool; nia.
  - zbool; nia.
  - intros; lia.
  - zbool; nia.
  - zbool; nia.
  - intros j c Hj _. rewrite nth_map_map. apply wget_map.
  - intros j a b Hj.
    rewrite (nth_indep (map (dscale k) ds) dzero (dscale k dzero)) by (rewrite map_length; lia).
    rewrite map_nth. destruct a, b; reflexivity.
Qed.

Lemma Forall2_nth {A B} (P : A -> B -> Prop) l l' d d' : Forall2 P l l' -> P d d' ->
  forall k, P (nth k l d) (nth k l' d').
Proof.
  intros H Hd. induction H as [|x y l l' Hxy H IH]; intros [|k]; simpl; auto.
Qed.

(** E4.  The statement as given is FALSE for capacities below 2 (see [no_ovf_exact_original_false] below); the
    additional hypothesis [2 <= length zreg] is exactly what is needed. *)
Theorem no_ovf_exact lut ws ws' ds zreg zreg' r :
  2 <= length zreg ->
  length ws = 4 -> length ws' = 4 -> length ds = 4 ->
  Forall2 (fun w w' => upto_end w = upto_end w') ws ws' ->
  length zreg <= length zreg' ->
  wave_eval lut ws ds zreg = Some r -> r_ovf r = 0 ->
  exists r', wave_eval lut ws' ds zreg' = Some r' /\ upto_end (r_z r') = upto_end (r_z r) /\
             r_ovf r' = 0 /\ r_rise r' = r_rise r /\ r_fall r' = r_fall r.
Proof.
  intros H2 Hw Hw' Hd HF Hl H Ho.
  destruct (sim_main (fun z => z) (fun x => x)) with (lut := lut) (ws := ws) (ws' := ws') (ds := ds) (ds' := ds)
    (zcap := length zreg) (zcap' := length zreg') (zreg := zreg) (zreg' := zreg') (r := r)
    as [r' [E1 [E2 [E3 [E4 E5]]]]]; auto.
  - intros k c Hk Hc. rewrite lift_id.
    apply wget_upto_end_eq; auto.
    apply (Forall2_nth (fun w w' => upto_end w = upto_end w')); auto.
  - exists r'. rewrite map_lift_id in E2. repeat split; auto. congruence.
Qed.

Theorem no_ovf_exact_original_false :
  ~ (forall lut ws ws' ds zreg zreg' r,
      length ws = 4 -> length ws' = 4 -> length ds = 4 ->
      Forall2 (fun w w' => upto_end w = upto_end w') ws ws' ->
      length zreg <= length zreg' ->
      wave_eval lut ws ds zreg = Some r -> r_ovf r = 0 ->
      exists r', wave_eval lut ws' ds zreg' = Some r' /\ upto_end (r_z r') = upto_end (r_z r) /\
                 r_ovf r' = 0 /\ r_rise r' = r_rise r /\ r_fall r' = r_fall r).
Proof.
  intros H.
  pose (W := [[MaxInf]; [MaxInf]; [MaxInf]; [MaxInf]]).
  pose (D := [dzero; dzero; dzero; dzero]).
  destruct (H 1%N W W D [Fin 7] [Fin 7; Fin 8] {| r_z := [MinInf]; r_rise := 0; r_fall := 0; r_ovf := 0 |})
    as [r' [E1 [E2 _]]]; try reflexivity.
  - repeat constructor.
  - simpl; lia.
  - vm_compute in E1. inversion E1; subst r'. vm_compute in E2. discriminate.
Qed.

(* ------------------------------------------------------------------ *)
(** * E3: provenance of emitted times *)

Definition sumform (ws : list (list time)) (ds : list dtab) (t : Z) : Prop :=
  exists k u i j, k < 4 /\ In (Fin u) (body (nth k ws [])) /\ t = (u + dget (nth k ds dzero) i j)%Z.

Definition good (ws : list (list time)) (ds : list dtab) (x : time) : Prop :=
  is_end x = false /\ forall t, x = Fin t -> sumform ws ds t.

Lemma Forall_firstn_le {A} (P : A -> Prop) z : forall c c', Forall P (firstn c z) -> c' <= c -> Forall P (firstn c' z).
Proof.
  induction z as [|x z IH]; intros c c' H Hle.
  - rewrite firstn_nil. constructor.
  - destruct c' as [|c']; [constructor|]. destruct c as [|c]; [lia|].
    simpl in *. inversion H; subst. constructor; auto. apply (IH c); auto; lia.
Qed.

Lemma Forall_firstn_wset (P : time -> Prop) z : forall c t, Forall P (firstn c z) -> P t ->
  Forall P (firstn (S c) (wset z c t)).
Proof.
  induction z as [|x z IH]; intros c t H Ht.
  - simpl. constructor.
  - destruct c as [|c].
    + simpl. constructor; auto.
    + change (Forall P (x :: firstn (S c) (wset z c t))). simpl in H. inversion H; subst.
      constructor; auto.
Qed.

Lemma body_wset z : forall c t, Forall (fun x => is_end x = false) (firstn c z) -> is_end t = true ->
  body (wset z c t) = firstn c z.
Proof.
  unfold body. induction z as [|x z IH]; intros c t H Ht.
  - simpl. now rewrite firstn_nil.
  - destruct c as [|c]; simpl.
    + rewrite Ht. reflexivity.
    + simpl in H. inversion H as [|? ? Hx Hr]; subst. rewrite Hx. simpl. f_equal. auto.
Qed.

Section E3.
Variables (lut : N) (ws : list (list time)) (ds : list dtab) (zcap : nat).

Definition inv3 (st : wst) : Prop :=
  cinv ws (cur4 st) /\ Forall (good ws ds) (firstn (zcur st) (zarr st)).

Lemma current_good st : cinv ws (cur4 st) ->
  is_end (min4 (pending ws ds (cur4 st) (zval st))) = false ->
  good ws ds (min4 (pending ws ds (cur4 st) (zval st))).
Proof.
  intros Hc He. split; auto. intros t Ht.
  destruct (sel_spec ws ds st He) as [Hk Hp]. pose proof (sel_lt ws ds st Hc He) as Hlt.
  rewrite Ht in Hp. unfold pend_k in Hp.
  set (k := sel ws ds st) in *.
  destruct (wget (nth k ws []) (nth k (cur4 st) 0)) as [|u| |] eqn:Ew; simpl in Hp; try discriminate.
  inversion Hp; subst t.
  exists k, u, (Nat.odd (nth k (cur4 st) 0)), (zval st). repeat split; auto.
  rewrite <- Ew. now apply wget_in_body.
Qed.

Lemma step_inv3 st : inv3 st -> is_end (min4 (pending ws ds (cur4 st) (zval st))) = false ->
  inv3 (step lut ws ds zcap st).
Proof.
  intros [Hc Hg] He. split; [now apply cinv_step|].
  pose proof (current_good st Hc He) as Hcur.
  unfold step; cbv zeta.
  destruct (negb (eqb _ _)); [|exact Hg].
  destruct (_ || _); [destruct (_ <? _)|]; cbn [zarr zcur].
  - now apply Forall_firstn_wset.
  - apply (Forall_firstn_le _ _ (zcur st)); auto; lia.
  - apply (Forall_firstn_le _ _ (zcur st)); auto; lia.
Qed.
End E3.

Theorem emit_is_sum lut ws ds zreg r : wf_args ws ds zreg -> wave_eval lut ws ds zreg = Some r ->
  forall t, In (Fin t) (body (r_z r)) ->
  exists k u i j, k < 4 /\ In (Fin u) (body (nth k ws [])) /\ t = (u + dget (nth k ds dzero) i j)%Z.
Proof.
  intros _ H t Hin. rewrite wave_eval_eq in H.
  destruct (loop _ _ _ _ _ _) as [st|] eqn:EL; [|discriminate]. inversion H; subst r; clear H.
  assert (Hinv : inv3 ws ds st).
  { eapply (loop_inv (inv3 ws ds)); [|idtac|exact EL].
    - intros s Hs Hes. now apply step_inv3.
    - split; [apply cinv_init|]. unfold st0; cbn [zarr zcur].
      assert (Hm : good ws ds MinInf) by (split; [reflexivity|discriminate]).
      destruct (N.odd lut); [|rewrite firstn_O; constructor].
      destruct zreg; simpl; [constructor | constructor; [exact Hm | constructor]]. }
  destruct Hinv as [_ Hg].
  unfold finish in Hin; cbv zeta in Hin; cbn [r_z] in Hin.
  rewrite body_wset in Hin.
  - rewrite Forall_forall in Hg. destruct (Hg _ Hin) as [_ Hs]. now apply Hs.
  - eapply Forall_impl; [|exact Hg]. intros a [Ha _]; exact Ha.
  - apply (term_of_end ws ds st). eapply loop_end; exact EL.
Qed.

(* ------------------------------------------------------------------ *)
(** * E5: polarity-free delays keep the output strictly increasing *)

Ltac zb := repeat match goal with
  | H : (_ <? _)%Z = true |- _ => apply Z.ltb_lt in H
  | H : (_ <? _)%Z = false |- _ => apply Z.ltb_ge in H
  | |- (_ <? _)%Z = true => apply Z.ltb_lt
  | |- (_ <? _)%Z = false => apply Z.ltb_ge
  end.
Ltac tsolve := simpl in *; try discriminate; try reflexivity; zb; try lia.

Lemma tltb_irrefl a : tltb a a = false.
Proof. destruct a; tsolve. Qed.
Lemma tltb_asym a b : tltb a b = true -> tltb b a = false.
Proof. destruct a, b; intros; tsolve. Qed.
Lemma tle_lt p x c : tltb p x = false -> tltb p c = true -> tltb x c = true.
Proof. destruct p, x, c; intros; tsolve. Qed.
Lemma tltb_end_nonend a b : is_end a = true -> is_end b = false -> tltb a b = false.
Proof. destruct a, b; intros; tsolve. Qed.
Lemma tltb_tadd a b d : tltb (tadd a d) (tadd b d) = tltb a b.
Proof. destruct a, b; simpl; auto. apply Bool.eq_true_iff_eq; rewrite !Z.ltb_lt; lia. Qed.
Lemma gap_gt_lt c p th : (0 <= th)%Z -> gap_gt c p th = true -> tltb p c = true.
Proof. destruct c, p; intros; tsolve. Qed.

Lemma dget_polfree d i j : dtab_polfree d -> dget d i j = d00 d.
Proof. intros [H1 [H2 H3]]. destruct i, j; simpl; congruence. Qed.
Lemma dget_nonneg d i j : dtab_nonneg d -> (0 <= dget d i j)%Z.
Proof. intros [H1 [H2 [H3 H4]]]. destruct i, j; simpl; auto. Qed.

Lemma Forall_nth_default {A} (P : A -> Prop) l d k : Forall P l -> P d -> P (nth k l d).
Proof. intros H Hd. revert k. induction H; intros [|k]; simpl; auto. Qed.

Lemma next_not_before w d0 c : strictly_increasing w -> c < ntrans w ->
  tltb (tadd (wget w (S c)) d0) (tadd (wget w c) d0) = false.
Proof.
  intros Hs Hc. rewrite tltb_tadd.
  destruct (lt_dec (S c) (ntrans w)) as [Hlt|Hge].
  - apply tltb_asym. apply Hs; lia.
  - assert (S c = ntrans w) as -> by lia.
    apply tltb_end_nonend; [apply wget_ntrans_end|now apply wget_lt_ntrans].
Qed.

Lemma ntrans_wset_le z : forall c t, is_end t = true -> c < length z -> ntrans (wset z c t) <= c.
Proof.
  induction z as [|x z IH]; intros [|c] t Ht Hc; simpl in *; try lia.
  - rewrite Ht; lia.
  - destruct (is_end x); [lia|]. specialize (IH c t Ht). lia.
Qed.

Section E5.
Variables (lut : N) (ws : list (list time)) (ds : list dtab) (zcap : nat).
Hypothesis Hnn : Forall dtab_nonneg ds.
Hypothesis Hpf : Forall dtab_polfree ds.
Hypothesis Hsi : Forall strictly_increasing ws.

Definition inv5 (st : wst) : Prop :=
  length (zarr st) = zcap /\ zcur st < zcap /\
  (forall i j, i < j -> j < zcur st -> tltb (wget (zarr st) i) (wget (zarr st) j) = true) /\
  (forall i, i < zcur st -> tltb (prev st) (wget (zarr st) i) = false) /\
  cinv ws (cur4 st).

Lemma dk_polfree k : dtab_polfree (nth k ds dzero).
Proof. apply Forall_nth_default; auto. repeat split. Qed.
Lemma dk_nonneg k : dtab_nonneg (nth k ds dzero).
Proof. apply Forall_nth_default; auto. repeat split; simpl; lia. Qed.
Lemma wk_si k : strictly_increasing (nth k ws []).
Proof. apply Forall_nth_default; auto. intros i j _ H; simpl in H; lia. Qed.

Lemma step_inv5 st : inv5 st -> is_end (min4 (pending ws ds (cur4 st) (zval st))) = false ->
  inv5 (step lut ws ds zcap st).
Proof.
  intros (Hl & Hz & Hs & Hp & Hc) He.
  pose proof (cinv_step lut ws ds zcap st Hc He) as Hcinv'. rewrite cur4_step in Hcinv'.
  destruct (sel_spec ws ds st He) as [Hk Hpk]. pose proof (sel_lt ws ds st Hc He) as Hlt.
  destruct st as [cur inp za zc zv pv ov]. unfold inv5.
  cbn [cur4 inputs zarr zcur zval prev ovf] in *.
  unfold step in *. cbv zeta in *. cbn [cur4 inputs zarr zcur zval prev ovf] in *.
  unfold sel in *. cbv zeta in *. cbn [cur4 inputs zarr zcur zval prev ovf] in *.
  set (pend := pending ws ds cur zv) in *.
  set (k := first_eq (firstn 3 pend) (min4 pend) 0) in *.
  rewrite incr_nth_same in * by (rewrite (proj1 Hc); exact Hk).
  set (current := min4 pend) in *.
  rewrite !(dget_polfree _ _ _ (dk_polfree k)) in *.
  assert (Hnext : tltb (tadd (wget (nth k ws []) (S (nth k cur 0))) (d00 (nth k ds dzero))) current = false).
  { rewrite <- Hpk. unfold pend_k. rewrite (dget_polfree _ _ _ (dk_polfree k)).
    apply next_not_before; auto. apply wk_si. }
  rewrite Hnext, orb_false_r.
  destruct (negb (eqb _ _)); [|split; [|split; [|split; [|split]]]; auto; exact Hcinv'].
  destruct ((zc =? 0) || gap_gt _ _ _) eqn:Et.
  - assert (Hgt : zc = 0 \/ tltb pv current = true).
    { apply orb_true_iff in Et. destruct Et as [Et|Et]; [left; now apply Nat.eqb_eq|right].
      apply gap_gt_lt in Et; auto. pose proof (dk_nonneg k) as [H0 _]. exact H0. }
    assert (Hbelow : forall i, i < zc -> tltb (wget za i) current = true).
    { intros i Hi. destruct Hgt as [->|Hgt]; [lia|]. eapply tle_lt; [apply Hp; exact Hi|exact Hgt]. }
    destruct (zc <? zcap - 1) eqn:Ecap.
    + apply Nat.ltb_lt in Ecap. cbn [cur4 inputs zarr zcur zval prev ovf].
      split; [|split; [|split; [|split; [|exact Hcinv']]]]; auto.
      * now rewrite wset_length.
      * lia.
      * intros i j Hij Hj. destruct (Nat.eq_dec j zc) as [->|Hne].
        -- rewrite wget_wset_same by lia. rewrite wget_wset_other by lia. apply Hbelow; lia.
        -- rewrite !wget_wset_other by lia. apply Hs; lia.
      * intros i Hi. destruct (Nat.eq_dec i zc) as [->|Hne].
        -- rewrite wget_wset_same by lia. apply tltb_irrefl.
        -- rewrite wget_wset_other by lia. apply tltb_asym. apply Hbelow; lia.
    + cbn [cur4 inputs zarr zcur zval prev ovf].
      split; [|split; [|split; [|split; [|exact Hcinv']]]]; auto.
      * lia.
      * intros i j Hij Hj. apply Hs; lia.
      * intros i Hi. apply tltb_asym. apply Hs; lia.
  - apply orb_false_iff in Et. destruct Et as [Ez _]. apply Nat.eqb_neq in Ez.
    cbn [cur4 inputs zarr zcur zval prev ovf].
    split; [|split; [|split; [|split; [|exact Hcinv']]]]; auto.
    + lia.
    + intros i j Hij Hj. apply Hs; lia.
    + intros i Hi. assert (E0 : 0 <? zc - 1 = true) by (apply Nat.ltb_lt; lia). rewrite E0.
      destruct (Nat.eq_dec i (zc - 2)) as [->|Hne]; [apply tltb_irrefl|].
      apply tltb_asym. apply Hs; lia.
Qed.
End E5.

Theorem mono_polarity_free lut ws ds zreg r : wf_args ws ds zreg ->
  Forall dtab_polfree ds -> Forall strictly_increasing ws ->
  wave_eval lut ws ds zreg = Some r -> strictly_increasing (r_z r).
Proof.
  intros (Hw & Hd & Hwf & Hnn & Hcap) Hpf Hsi H. rewrite wave_eval_eq in H.
  destruct (loop _ _ _ _ _ _) as [st|] eqn:EL; [|discriminate]. inversion H; subst r; clear H.
  assert (Hinv : inv5 ws (length zreg) st).
  { eapply (loop_inv (inv5 ws (length zreg))); [|idtac|exact EL].
    - intros s Hs Hes. now apply step_inv5.
    - unfold st0, inv5; cbn [cur4 inputs zarr zcur zval prev ovf].
      split; [|split; [|split; [|split; [|apply cinv_init]]]].
      + destruct (N.odd lut); auto using wset_length.
      + destruct (N.odd lut); lia.
      + intros i j Hij Hj. destruct (N.odd lut); lia.
      + intros i Hi. destruct (N.odd lut); [|lia]. assert (i = 0) by lia; subst i.
        rewrite wget_wset_same by lia. reflexivity. }
  destruct Hinv as (Hl & Hz & Hs & _ & _).
  unfold finish; cbv zeta; cbn [r_z]. fold (term_of ws ds st).
  intros i j Hij Hj.
  pose proof (ntrans_wset_le (zarr st) (zcur st) (term_of ws ds st)
                (term_of_end ws ds st (loop_end _ _ _ _ _ _ _ EL)) ltac:(lia)) as Hn.
  rewrite !wget_wset_other by lia. apply Hs; lia.
Qed.

Print Assumptions shift_equivariant.
Print Assumptions scale_equivariant.
Print Assumptions emit_is_sum.
Print Assumptions no_ovf_exact.
Print Assumptions no_ovf_exact_original_false.
Print Assumptions mono_polarity_free.
