(** The translated source of the pure-Python CUDA launcher (Gen/LaunchSrc.v, regenerated from kyupy/__init__.py on every
    run) starts exactly the kernel instances of the hand model Model/Launch.v, in the same order, whatever the coordinates
    held before the launch. *)
From Coq Require Import List Arith Bool Lia.
From KV Require Import Model.Launch Model.LaunchSrcLib Gen.LaunchSrc Proofs.LaunchProofs.
Import ListNotations.

(** a loop whose body starts instances that do not depend on the incoming coordinates *)
Lemma py_for_trace (f : nat -> list lstate) (body : nat -> act) :
  (forall v st, fst (body v st) = f v) -> forall l st, fst (py_for l body st) = flat_map f l.
Proof.
  intros H. induction l as [|a l IH]; intros st; simpl; [reflexivity|].
  specialize (H a st). destruct (body a st) as [t1 st1]. specialize (IH st1).
  destruct (py_for l body st1) as [t2 st2]. simpl in *. now subst.
Qed.

Lemma flat_map_single {A B} (f : A -> B) l : flat_map (fun x => [f x]) l = map f l.
Proof. induction l as [|a l IH]; simpl; [reflexivity | now rewrite IH]. Qed.

Theorem launch_src_eq gx gy bx by_ st : fst (launch_src gx gy bx by_ st) = launch gx gy bx by_.
Proof.
  unfold launch_src, launch.
  apply py_for_trace. intros g_x st1. apply py_for_trace. intros g_y st2. apply py_for_trace. intros b_x st3.
  rewrite <- flat_map_single. apply py_for_trace. intros b_y st4. reflexivity.
Qed.

(** the kernels return early outside the bounds: the instances that do work *)
Definition threads_src (X Y bx by_ : nat) (st : lstate) : list (nat * nat) :=
  filter (fun p => Nat.ltb (fst p) X && Nat.ltb (snd p) Y)%bool (fst (launch_src (cdiv X bx) (cdiv Y by_) bx by_ st)).

Theorem threads_src_eq X Y bx by_ st : threads_src X Y bx by_ st = threads X Y bx by_.
Proof. unfold threads_src, threads. now rewrite launch_src_eq. Qed.

Theorem launcher_source_is_model :
  (forall gx gy bx by_ st, fst (launch_src gx gy bx by_ st) = launch gx gy bx by_) /\
  (forall X Y bx by_ st, 0 < bx -> 0 < by_ ->
     NoDup (threads_src X Y bx by_ st) /\ (forall x y, In (x, y) (threads_src X Y bx by_ st) <-> (x < X /\ y < Y))).
Proof.
  split; [exact launch_src_eq|]. intros X Y bx by_ st Hx Hy. rewrite threads_src_eq. now apply threads_cover.
Qed.

(** a concrete launch: 2 x 1 blocks of 2 x 3 threads over 3 x 3 instances, starting from the coordinates __init__ sets *)
Example launcher_source_example :
  fst (launch_src 2 1 2 3 launch_init_src) =
    [(0,0); (0,1); (0,2); (1,0); (1,1); (1,2); (2,0); (2,1); (2,2); (3,0); (3,1); (3,2)] /\
  threads_src 3 3 2 3 launch_init_src = [(0,0); (0,1); (0,2); (1,0); (1,1); (1,2); (2,0); (2,1); (2,2)].
Proof. split; reflexivity. Qed.
