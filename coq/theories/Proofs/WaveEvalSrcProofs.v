(** The timing kernel as TRANSLATED from the current source text of wave_sim._wave_eval (Gen/WaveEvalSrc.v, regenerated on
    every run by translate/gen_wave_eval.py) computes exactly what the hand-written model Model/WaveEval.v computes:
    a simulation proof (the kernel's cached a..d / current_t are [pending] / [min4] at the model's cursors, Python ints are
    the images of the model's nat / N / bool components).  All theorems about [wave_eval] thereby hold of the source. *)
From Coq Require Import List ZArith NArith Bool Arith Lia.
From KV Require Import Model.Time Model.WaveEval Model.WaveSrcPrelude Gen.WaveEvalSrc.
Import ListNotations.
Import WaveEvalSrc.
Local Open Scope list_scope.

(** what the caller of the kernel observes, in the vocabulary of the model: output region, returned pair, overflow count *)
Definition res_of (r : option (kst * (Z * Z))) : option wres :=
  match r with
  | None => None
  | Some (s, (nr, nf)) =>
      Some {| r_z := nth 0 (mem s) []; r_rise := Z.to_nat nr; r_fall := Z.to_nat nf; r_ovf := Z.to_nat (v_overflows s) |}
  end.

Definition model_fuel (ws : list (list time)) : nat := S (fold_left (fun n w => n + List.length w) ws 0).

(* ------------------------------------------------------------------ *)
(** * Python int expressions over images of model values *)

Lemma odd_of_nat n : Z.odd (Z.of_nat n) = Nat.odd n.
Proof.
  induction n as [|n IH]; [reflexivity|].
  rewrite Nat2Z.inj_succ, Z.odd_succ, Nat.odd_succ, <- Z.negb_odd, <- Nat.negb_odd, IH. reflexivity.
Qed.

Lemma land1 a : Z.land a 1 = b2z (Z.odd a).
Proof.
  change 1%Z with (Z.ones 1). rewrite Z.land_ones by lia. change (2 ^ 1)%Z with 2%Z.
  rewrite Zmod_odd. reflexivity.
Qed.

Lemma land1_nat n : Z.land (Z.of_nat n) 1 = b2z (Nat.odd n).
Proof. rewrite land1, odd_of_nat. reflexivity. Qed.

Lemma land1_N n : Z.land (Z.of_N n) 1 = b2z (N.odd n).
Proof.
  rewrite land1. f_equal. rewrite <- Z.bit0_odd, <- N.bit0_odd. apply (Z.testbit_of_N n 0).
Qed.

Lemma lxor_b2z b : Z.lxor (b2z b) 1 = b2z (negb b).
Proof. destruct b; reflexivity. Qed.

Lemma lut_bit lut i : Z.land (Z.shiftr (Z.of_N lut) (Z.of_N i)) 1 = b2z (N.testbit lut i).
Proof.
  rewrite land1. f_equal. rewrite <- Z.bit0_odd, Z.shiftr_spec by lia. rewrite Z.add_0_l. apply Z.testbit_of_N.
Qed.

Lemma lxor_of_N a b : Z.lxor (Z.of_N a) (Z.of_N b) = Z.of_N (N.lxor a b).
Proof.
  apply Z.bits_inj'. intros n Hn. rewrite Z.lxor_spec.
  rewrite <- (Z2N.id n Hn), !Z.testbit_of_N, N.lxor_spec. reflexivity.
Qed.
Lemma lxor_in0 a : Z.lxor (Z.of_N a) 1 = Z.of_N (N.lxor a (N.shiftl 1 (N.of_nat 0))).
Proof. apply (lxor_of_N a 1). Qed.
Lemma lxor_in1 a : Z.lxor (Z.of_N a) 2 = Z.of_N (N.lxor a (N.shiftl 1 (N.of_nat 1))).
Proof. apply (lxor_of_N a 2). Qed.
Lemma lxor_in2 a : Z.lxor (Z.of_N a) 4 = Z.of_N (N.lxor a (N.shiftl 1 (N.of_nat 2))).
Proof. apply (lxor_of_N a 4). Qed.
Lemma lxor_in3 a : Z.lxor (Z.of_N a) 8 = Z.of_N (N.lxor a (N.shiftl 1 (N.of_nat 3))).
Proof. apply (lxor_of_N a 8). Qed.

Lemma b2z_eqb a b : (b2z a =? b2z b)%Z = Bool.eqb a b.
Proof. destruct a, b; reflexivity. Qed.
Lemma b2z_eq1 a : (b2z a =? 1)%Z = a.
Proof. destruct a; reflexivity. Qed.

Lemma of_nat_S n : (Z.of_nat n + 1)%Z = Z.of_nat (S n).
Proof. lia. Qed.
Lemma of_nat_pred n : 1 <= n -> (Z.of_nat n - 1)%Z = Z.of_nat (n - 1).
Proof. lia. Qed.
Lemma of_nat_eqb0 n : (Z.of_nat n =? 0)%Z = Nat.eqb n 0.
Proof. destruct (Nat.eqb_spec n 0); [apply Z.eqb_eq|apply Z.eqb_neq]; lia. Qed.
Lemma of_nat_ltb a b : (Z.of_nat a <? Z.of_nat b)%Z = Nat.ltb a b.
Proof. destruct (Nat.ltb_spec a b); [apply Z.ltb_lt|apply Z.ltb_ge]; lia. Qed.
Lemma of_nat_0ltb b : (0 <? Z.of_nat b)%Z = Nat.ltb 0 b.
Proof. apply (of_nat_ltb 0 b). Qed.

(* ------------------------------------------------------------------ *)
(** * memory / delay primitives on the region list [zarr :: ws] *)

Lemma rd_S z ws k c : rd (z :: ws) (S k) (Z.of_nat c) = wget (nth k ws []) c.
Proof. unfold rd. destruct (Z.ltb_spec (Z.of_nat c) 0); [lia|]. rewrite Nat2Z.id. reflexivity. Qed.
Lemma rd_S0 z ws k : rd (z :: ws) (S k) 0 = wget (nth k ws []) 0.
Proof. reflexivity. Qed.
Lemma rd_0 z ws c : rd (z :: ws) 0 (Z.of_nat c) = wget z c.
Proof. unfold rd. destruct (Z.ltb_spec (Z.of_nat c) 0); [lia|]. rewrite Nat2Z.id. reflexivity. Qed.
Lemma rd_00 z ws : rd (z :: ws) 0 0 = wget z 0.
Proof. reflexivity. Qed.
Lemma wr_0 z ws c v : wr (z :: ws) 0 (Z.of_nat c) v = wset z c v :: ws.
Proof. unfold wr. destruct (Z.ltb_spec (Z.of_nat c) 0); [lia|]. rewrite Nat2Z.id. reflexivity. Qed.
Lemma wr_00 z ws v : wr (z :: ws) 0 0 v = wset z 0 v :: ws.
Proof. reflexivity. Qed.
Lemma dly_b2z ds k p v : dly ds (S k) (b2z p) (b2z v) = dget (nth k ds dzero) p v.
Proof. destruct p, v; reflexivity. Qed.
Lemma dly_0 ds k v : dly ds (S k) 0 (b2z v) = dget (nth k ds dzero) false v.
Proof. destruct v; reflexivity. Qed.
Lemma cap_of_0 z ws : cap_of (z :: ws) 0 = Z.of_nat (List.length z).
Proof. reflexivity. Qed.

Lemma pymin4_min4 a b c d : pymin4 a b c d = min4 [a; b; c; d].
Proof. unfold pymin4, min4. cbn [fold_left]. f_equal. f_equal. f_equal. unfold tmin. destruct a; reflexivity. Qed.
Lemma pymax4_max4 a b c d : pymax4 a b c d = max4 [a; b; c; d].
Proof. unfold pymax4, max4. cbn [fold_left]. f_equal. f_equal. f_equal. unfold tmax. destruct a; reflexivity. Qed.
Lemma is_end_tltb t : tltb t MaxInf = negb (is_end t).
Proof. destruct t; reflexivity. Qed.

#[global] Hint Rewrite of_nat_S land1_nat lxor_b2z lut_bit lxor_in0 lxor_in1 lxor_in2 lxor_in3 b2z_eqb b2z_eq1
  of_nat_eqb0 of_nat_ltb of_nat_0ltb rd_S rd_S0 rd_0 rd_00 land1_N wr_0 wr_00 dly_b2z dly_0 cap_of_0 pymin4_min4 pymax4_max4 : wsrc.
#[global] Hint Rewrite of_nat_pred using lia : wsrc.

(* ------------------------------------------------------------------ *)
(** * the simulation *)

Definition st0 (lut : N) (zreg : list time) : wst :=
  let z1 := N.odd lut in
  {| cur4 := [0; 0; 0; 0]; inputs := 0%N; zarr := if z1 then wset zreg 0 MinInf else zreg;
     zcur := if z1 then 1 else 0; zval := z1; prev := MinInf; ovf := 0 |}.

Section Sim.
  Variables (lut : N) (ws : list (list time)) (ds : list dtab) (zcap : nat).

  (** pending time of operand k at cursor c; threshold and look-ahead of the consumed operand *)
  Definition pk (k c : nat) (zv : bool) : time := tadd (wget (nth k ws []) c) (dget (nth k ds dzero) (Nat.odd c) zv).
  Definition nxt (k c : nat) (zv : bool) : time := tadd (wget (nth k ws []) c) (dget (nth k ds dzero) (negb (Nat.odd c)) (negb zv)).
  Definition thk (k c : nat) (zv : bool) : Z := dget (nth k ds dzero) (Nat.odd c) zv.

  (** [step] after the operand selection, as a function of the selected operand k, the new cursors and current_t *)
  Definition step_sel (k : nat) (cur' : list nat) (ck : nat) (current : time) (st : wst) : wst :=
    let inputs' := N.lxor (inputs st) (N.shiftl 1 (N.of_nat k)) in
    if negb (Bool.eqb (Nat.odd (zcur st)) (N.testbit lut inputs')) then
      let '(z', zc', pv', ov') :=
        if Nat.eqb (zcur st) 0 || tltb (nxt k ck (zval st)) current || gap_gt current (prev st) (thk k ck (zval st)) then
          if Nat.ltb (zcur st) (zcap - 1)
          then (wset (zarr st) (zcur st) current, S (zcur st), current, ovf st)
          else (zarr st, zcur st - 1, wget (zarr st) (zcur st - 1), S (ovf st))
        else (zarr st, zcur st - 1, (if Nat.ltb 0 (zcur st - 1) then wget (zarr st) (zcur st - 2) else MinInf), ovf st) in
      {| cur4 := cur'; inputs := inputs'; zarr := z'; zcur := zc'; zval := negb (zval st); prev := pv'; ovf := ov' |}
    else
      {| cur4 := cur'; inputs := inputs'; zarr := zarr st; zcur := zcur st; zval := zval st; prev := prev st; ovf := ovf st |}.

  Lemma step_cases ca cb cc cd inp za zc zv pv ov :
    let st := {| cur4 := [ca; cb; cc; cd]; inputs := inp; zarr := za; zcur := zc; zval := zv; prev := pv; ovf := ov |} in
    let cur := min4 [pk 0 ca zv; pk 1 cb zv; pk 2 cc zv; pk 3 cd zv] in
    step lut ws ds zcap st =
      if teqb (pk 0 ca zv) cur then step_sel 0 [S ca; cb; cc; cd] (S ca) cur st
      else if teqb (pk 1 cb zv) cur then step_sel 1 [ca; S cb; cc; cd] (S cb) cur st
      else if teqb (pk 2 cc zv) cur then step_sel 2 [ca; cb; S cc; cd] (S cc) cur st
      else step_sel 3 [ca; cb; cc; S cd] (S cd) cur st.
  Proof.
    intros st cur. unfold step. cbn [cur4 zval pending map nth st]. fold (pk 0 ca zv) (pk 1 cb zv) (pk 2 cc zv) (pk 3 cd zv).
    fold cur. cbn [firstn first_eq].
    destruct (teqb (pk 0 ca zv) cur); [reflexivity|].
    destruct (teqb (pk 1 cb zv) cur); [reflexivity|].
    destruct (teqb (pk 2 cc zv) cur); reflexivity.
  Qed.

  (** the kernel's locals as images of model-level values: cursors, output cursor / value, overflow count and toggled inputs
      are nat / bool / N; the cached pending times pa..pd, current_t, thresh, next_t, nrise, nfall are free *)
  Definition kx (za : list time) (ov ca cb cc cd zc : nat) (zv : bool) (pa pb pc pd pv cur : time) (inp : N)
             (thr : Z) (nt : time) (nr nf : Z) : kst :=
    {| mem := za :: ws; v_overflows := Z.of_nat ov; v_lut := Z.of_N lut; v_z_cap := Z.of_nat zcap;
       v_a_cur := Z.of_nat ca; v_b_cur := Z.of_nat cb; v_c_cur := Z.of_nat cc; v_d_cur := Z.of_nat cd;
       v_z_cur := Z.of_nat zc; v_z_val := b2z zv; v_a := pa; v_b := pb; v_c := pc; v_d := pd;
       v_previous_t := pv; v_current_t := cur; v_inputs := Z.of_N inp;
       v_thresh := thr; v_next_t := nt; v_nrise := nr; v_nfall := nf |}.

  (** ... when the model is in state [w]: the caches hold [pending] / [min4] *)
  Definition kof4 ca cb cc cd inp za zc zv pv ov (thr : Z) (nt : time) (nr nf : Z) : kst :=
    kx za ov ca cb cc cd zc zv (pk 0 ca zv) (pk 1 cb zv) (pk 2 cc zv) (pk 3 cd zv) pv
       (min4 [pk 0 ca zv; pk 1 cb zv; pk 2 cc zv; pk 3 cd zv]) inp thr nt nr nf.
  Definition kof (w : wst) : Z -> time -> Z -> Z -> kst :=
    kof4 (nth 0 (cur4 w) 0) (nth 1 (cur4 w) 0) (nth 2 (cur4 w) 0) (nth 3 (cur4 w) 0) (inputs w) (zarr w) (zcur w) (zval w)
         (prev w) (ovf w).

  Lemma fold_pk k c zv : tadd (wget (nth k ws []) c) (dget (nth k ds dzero) (Nat.odd c) zv) = pk k c zv.
  Proof. reflexivity. Qed.
  Lemma fold_nxt k c zv : tadd (wget (nth k ws []) c) (dget (nth k ds dzero) (negb (Nat.odd c)) (negb zv)) = nxt k c zv.
  Proof. reflexivity. Qed.
  Lemma fold_thk k c zv : dget (nth k ds dzero) (Nat.odd c) zv = thk k c zv.
  Proof. reflexivity. Qed.

  Ltac kred t :=
    eval cbv beta iota delta
        [mem v_overflows v_lut v_z_cap v_a_cur v_b_cur v_c_cur v_d_cur v_z_cur v_z_val v_a v_b v_c v_d v_previous_t
         v_current_t v_inputs v_thresh v_next_t v_nrise v_nfall
         set_mem set_v_overflows set_v_lut set_v_z_cap set_v_a_cur set_v_b_cur set_v_c_cur set_v_d_cur set_v_z_cur set_v_z_val
         set_v_a set_v_b set_v_c set_v_d set_v_previous_t set_v_current_t set_v_inputs set_v_thresh set_v_next_t set_v_nrise
         set_v_nfall] in t.

  Ltac prep :=
    repeat match goal with
           | H : (_ || _) = false |- _ => apply orb_false_elim in H; destruct H
           | H : Nat.eqb _ _ = false |- _ => apply Nat.eqb_neq in H
           | H : Nat.eqb _ _ = true |- _ => apply Nat.eqb_eq in H
           | H : Nat.ltb _ _ = false |- _ => apply Nat.ltb_ge in H
           | H : Nat.ltb _ _ = true |- _ => apply Nat.ltb_lt in H
           end.

  Ltac nrm := autorewrite with wsrc; rewrite ?fold_pk, ?fold_nxt, ?fold_thk.

  (** one statement of the translated code (goal [expected = code], the state being an explicit record): resolve the
      conditional at the head -- the expected side branches on the same normalised condition --, or evaluate the head
      assignment and substitute it.  The rest of the code is kept abstract meanwhile. *)
  Ltac stmt :=
    lazymatch goal with
    | |- ?P (let s := (let t := ?X in @?Y t) in @?R s) => change (P (let t := X in let s := Y t in R s)); cbv beta
    | |- ?P (let s := (if ?c then ?A else ?B) in @?R s) =>
        let Rn := fresh "Rn" in let An := fresh "An" in let Bn := fresh "Bn" in
        pose (Rn := R); pose (An := A); pose (Bn := B);
        let c' := kred c in
        change (P (let s := (if c' then An else Bn) in Rn s)); nrm;
        cbv iota;
        try lazymatch goal with |- _ (let s := (if ?c2 then _ else _) in _) => destruct c2 eqn:? end;
        prep; cbv iota; cbv delta [An Bn Rn]; clear An Bn Rn; cbv beta
    | |- ?P (let s := ?E in @?R s) =>
        let Rn := fresh "Rn" in pose (Rn := R);
        let E' := kred E in
        change (P (let s := E' in Rn s)); nrm;
        lazymatch goal with |- ?P2 (let s := ?E2 in _) => change (P2 (Rn E2)) end;
        cbv delta [Rn]; clear Rn; cbv beta
    | |- ?P (if ?c then ?A else ?B) =>
        let An := fresh "An" in let Bn := fresh "Bn" in
        pose (An := A); pose (Bn := B);
        let c' := kred c in
        change (P (if c' then An else Bn)); nrm;
        lazymatch goal with |- _ (if ?c2 then _ else _) => destruct c2 eqn:? end;
        prep; cbv iota; cbv delta [An Bn]; clear An Bn
    end.

  Ltac run := repeat stmt.
  Ltac leaf :=
    cbv beta iota delta
        [kx set_mem set_v_overflows set_v_lut set_v_z_cap set_v_a_cur set_v_b_cur set_v_c_cur set_v_d_cur set_v_z_cur set_v_z_val
         set_v_a set_v_b set_v_c set_v_d set_v_previous_t set_v_current_t set_v_inputs set_v_thresh set_v_next_t set_v_nrise
         set_v_nfall];
    repeat match goal with |- context [if ?c then _ else _] => destruct c eqn:?; prep end;
    nrm;
    repeat first [reflexivity | lia | progress f_equal].

  Lemma body1_eq za ov ca cb cc cd zc zv pa pb pc pd pv cur inp thr nt nr nf :
    wave_eval_body_1 ds (kx za ov ca cb cc cd zc zv pa pb pc pd pv cur inp thr nt nr nf) =
      if teqb pa cur then
        kx za ov (S ca) cb cc cd zc zv (pk 0 (S ca) zv) pb pc pd pv cur (N.lxor inp (N.shiftl 1 (N.of_nat 0)))
           (thk 0 (S ca) zv) (nxt 0 (S ca) zv) nr nf
      else if teqb pb cur then
        kx za ov ca (S cb) cc cd zc zv pa (pk 1 (S cb) zv) pc pd pv cur (N.lxor inp (N.shiftl 1 (N.of_nat 1)))
           (thk 1 (S cb) zv) (nxt 1 (S cb) zv) nr nf
      else if teqb pc cur then
        kx za ov ca cb (S cc) cd zc zv pa pb (pk 2 (S cc) zv) pd pv cur (N.lxor inp (N.shiftl 1 (N.of_nat 2)))
           (thk 2 (S cc) zv) (nxt 2 (S cc) zv) nr nf
      else
        kx za ov ca cb cc (S cd) zc zv pa pb pc (pk 3 (S cd) zv) pv cur (N.lxor inp (N.shiftl 1 (N.of_nat 3)))
           (thk 3 (S cd) zv) (nxt 3 (S cd) zv) nr nf.
  Proof.
    symmetry. cbv beta delta [wave_eval_body_1 kx]. run. all: leaf.
  Qed.

  Lemma body2_eq za ov ca cb cc cd zc zv pa pb pc pd pv cur inp thr nt nr nf :
    2 <= zcap ->
    wave_eval_body_2 ds (kx za ov ca cb cc cd zc zv pa pb pc pd pv cur inp thr nt nr nf) =
      if negb (Bool.eqb (Nat.odd zc) (N.testbit lut inp)) then
        if Nat.eqb zc 0 || tltb nt cur || gap_gt cur pv thr then
          if Nat.ltb zc (zcap - 1) then
            kx (wset za zc cur) ov ca cb cc cd (S zc) (negb zv)
               (pk 0 ca (negb zv)) (pk 1 cb (negb zv)) (pk 2 cc (negb zv)) (pk 3 cd (negb zv)) cur cur inp thr nt nr nf
          else
            kx za (S ov) ca cb cc cd (zc - 1) (negb zv)
               (pk 0 ca (negb zv)) (pk 1 cb (negb zv)) (pk 2 cc (negb zv)) (pk 3 cd (negb zv)) (wget za (zc - 1)) cur inp thr nt nr nf
        else
          kx za ov ca cb cc cd (zc - 1) (negb zv)
             (pk 0 ca (negb zv)) (pk 1 cb (negb zv)) (pk 2 cc (negb zv)) (pk 3 cd (negb zv))
             (if Nat.ltb 0 (zc - 1) then wget za (zc - 2) else MinInf) cur inp thr nt nr nf
      else kx za ov ca cb cc cd zc zv pa pb pc pd pv cur inp thr nt nr nf.
  Proof.
    intros Hcap. symmetry. cbv beta delta [wave_eval_body_2 kx]. run. all: leaf.
  Qed.

  Lemma body3_eq za ov ca cb cc cd zc zv pa pb pc pd pv cur inp thr nt nr nf :
    wave_eval_body_3 ds (kx za ov ca cb cc cd zc zv pa pb pc pd pv cur inp thr nt nr nf) =
    kx za ov ca cb cc cd zc zv pa pb pc pd pv (min4 [pa; pb; pc; pd]) inp thr nt nr nf.
  Proof. symmetry. cbv beta delta [wave_eval_body_3 kx]. run. all: leaf. Qed.

  Lemma body_sim w thr nt nr nf :
    2 <= zcap -> List.length (cur4 w) = 4 ->
    exists thr' nt', wave_eval_body ds (kof w thr nt nr nf) = kof (step lut ws ds zcap w) thr' nt' nr nf.
  Proof.
    intros Hcap Hlen. destruct w as [cur inp za zc zv pv ov]. cbn [cur4] in Hlen.
    destruct cur as [|ca [|cb [|cc [|cd [|]]]]]; try discriminate. clear Hlen.
    rewrite step_cases. cbv zeta. unfold kof at 1. cbn [cur4 inputs zarr zcur zval prev ovf nth]. unfold kof4.
    cbv beta zeta delta [wave_eval_body]. rewrite body1_eq.
    destruct (teqb (pk 0 ca zv) _); [|destruct (teqb (pk 1 cb zv) _); [|destruct (teqb (pk 2 cc zv) _)]].
    all: rewrite body2_eq by exact Hcap; unfold step_sel; cbn [cur4 inputs zarr zcur zval prev ovf].
    all: destruct (negb (Bool.eqb _ _));
      [ destruct (_ || _ || _); [destruct (Nat.ltb zc (zcap - 1))|] |].
    all: rewrite body3_eq; eexists; eexists; unfold kof, kof4; cbn [cur4 inputs zarr zcur zval prev ovf nth]; reflexivity.
  Qed.

  Lemma step_len w : List.length (cur4 (step lut ws ds zcap w)) = List.length (cur4 w).
  Proof.
    assert (Hi : forall l k, List.length (incr_nth l k) = List.length l).
    { induction l as [|x l IH]; intros [|k]; cbn; auto. }
    unfold step. destruct (negb _).
    - destruct (if Nat.eqb _ _ || _ || _ then _ else _) as [[[? ?] ?] ?]. cbn [cur4]. apply Hi.
    - cbn [cur4]. apply Hi.
  Qed.

  Lemma kof_test w thr nt nr nf :
    wave_eval_test (kof w thr nt nr nf) = negb (is_end (min4 (pending ws ds (cur4 w) (zval w)))).
  Proof. unfold wave_eval_test, kof, kof4, kx. cbn [v_current_t]. rewrite is_end_tltb. reflexivity. Qed.

  Lemma loop_sim fuel : forall w thr nt nr nf, 2 <= zcap -> List.length (cur4 w) = 4 ->
    match loop fuel lut ws ds zcap w with
    | None => wave_eval_loop fuel ds (kof w thr nt nr nf) = None
    | Some w' => List.length (cur4 w') = 4 /\ exists thr' nt', wave_eval_loop fuel ds (kof w thr nt nr nf) = Some (kof w' thr' nt' nr nf)
    end.
  Proof.
    induction fuel as [|f IH]; intros w thr nt nr nf Hcap Hlen.
    - cbn [loop wave_eval_loop]. rewrite kof_test. destruct (is_end _); cbn [negb]; [|reflexivity].
      split; [exact Hlen|]. eexists; eexists; reflexivity.
    - cbn [loop wave_eval_loop]. rewrite kof_test. destruct (is_end _); cbn [negb].
      + split; [exact Hlen|]. eexists; eexists; reflexivity.
      + destruct (body_sim w thr nt nr nf Hcap Hlen) as (thr' & nt' & E). rewrite E.
        apply IH; [exact Hcap|]. rewrite step_len. exact Hlen.
  Qed.

  Lemma epilogue_eq za ov ca cb cc cd zc zv pa pb pc pd pv cur inp thr nt nr nf :
    let z := wset za zc (if Nat.ltb 0 ov then MaxOvl else max4 [pa; pb; pc; pd]) in
    wave_eval_epilogue ds (kx za ov ca cb cc cd zc zv pa pb pc pd pv cur inp thr nt nr nf) =
    kx z ov ca cb cc cd zc zv pa pb pc pd pv cur inp thr nt
       (Z.max 0 (Z.of_nat (S zc) / 2 - b2z (teqb (wget z 0) MinInf))) (Z.of_nat zc / 2).
  Proof. intros z. unfold z. symmetry. cbv beta delta [wave_eval_epilogue kx]. run. all: leaf. Qed.
  Lemma prologue_eq zreg : zcap = List.length zreg ->
    wave_eval_prologue (Z.of_N lut) ds (init_kst (zreg :: ws)) = kof (st0 lut zreg) 0 MinInf 0 0.
  Proof.
  intros Hz.
  assert (E : kof (st0 lut zreg) 0 MinInf 0 0 =
              let z1 := N.odd lut in
              kx (if z1 then wset zreg 0 MinInf else zreg) 0 0 0 0 0 (if z1 then 1 else 0) z1
                 (pk 0 0 z1) (pk 1 0 z1) (pk 2 0 z1) (pk 3 0 z1) MinInf
                 (min4 [pk 0 0 z1; pk 1 0 z1; pk 2 0 z1; pk 3 0 z1]) 0%N 0 MinInf 0 0) by reflexivity.
  rewrite E. clear E. cbv zeta. symmetry. cbv beta delta [wave_eval_prologue init_kst kx]. rewrite Hz.
  repeat stmt.
  all: cbv beta iota delta
        [kx set_mem set_v_overflows set_v_lut set_v_z_cap set_v_a_cur set_v_b_cur set_v_c_cur set_v_d_cur set_v_z_cur set_v_z_val
         set_v_a set_v_b set_v_c set_v_d set_v_previous_t set_v_current_t set_v_inputs set_v_thresh set_v_next_t set_v_nrise
         set_v_nfall]; reflexivity.
Qed.
End Sim.

(* ------------------------------------------------------------------ *)
(** * the kernel as a whole *)

(** [wave_eval] with the number of loop iterations as a parameter ([wave_eval] itself uses [model_fuel ws]) *)
Definition wave_eval_f (fuel : nat) (lut : N) (ws : list (list time)) (ds : list dtab) (zreg : list time) : option wres :=
  match loop fuel lut ws ds (List.length zreg) (st0 lut zreg) with
  | None => None
  | Some st =>
      let pend := pending ws ds (cur4 st) (zval st) in
      let term := if Nat.ltb 0 (ovf st) then MaxOvl else max4 pend in
      let z := wset (zarr st) (zcur st) term in
      let first_min := match wget z 0 with MinInf => 1 | _ => 0 end in
      Some {| r_z := z; r_rise := Nat.div (zcur st + 1) 2 - first_min; r_fall := Nat.div (zcur st) 2; r_ovf := ovf st |}
  end.

Lemma wave_eval_is_f lut ws ds zreg : wave_eval lut ws ds zreg = wave_eval_f (model_fuel ws) lut ws ds zreg.
Proof. reflexivity. Qed.

Lemma rise_count zc t :
  Z.to_nat (Z.max 0 (Z.of_nat (S zc) / 2 - b2z (teqb t MinInf))) = Nat.div (zc + 1) 2 - match t with MinInf => 1 | _ => 0 end.
Proof.
  replace (zc + 1) with (S zc) by lia. change 2%Z with (Z.of_nat 2). rewrite <- Nat2Z.inj_div.
  destruct t; cbn [teqb b2z]; lia.
Qed.

(** for EVERY bound on the number of loop iterations the translated source and the model agree (None = bound exceeded) *)
Theorem wave_eval_src_sim fuel lut ws ds zreg : 2 <= List.length zreg ->
  res_of (wave_eval_src fuel (Z.of_N lut) ws ds zreg) = wave_eval_f fuel lut ws ds zreg.
Proof.
  intros Hcap. unfold wave_eval_src, wave_eval_f.
  rewrite (prologue_eq lut ws ds (List.length zreg) zreg eq_refl).
  pose proof (loop_sim lut ws ds (List.length zreg) fuel (st0 lut zreg) 0%Z MinInf 0%Z 0%Z Hcap eq_refl) as L.
  destruct (loop fuel lut ws ds (List.length zreg) (st0 lut zreg)) as [w|].
  - destruct L as (Hlen & thr & nt & L). rewrite L.
    destruct w as [cur inp za zc zv pv ov]. cbn [cur4] in Hlen.
    destruct cur as [|ca [|cb [|cc [|cd [|]]]]]; try discriminate.
    unfold kof, kof4. cbn [cur4 inputs zarr zcur zval prev ovf nth]. rewrite epilogue_eq.
    cbv beta zeta delta [res_of wave_eval_result kx]. cbn [mem v_nrise v_nfall v_overflows nth cur4 zval ovf zarr zcur].
    f_equal. rewrite rise_count, Nat2Z.id. change 2%Z with (Z.of_nat 2). rewrite <- Nat2Z.inj_div, Nat2Z.id. reflexivity.
  - rewrite L. reflexivity.
Qed.

(** the translated source of _wave_eval computes the hand-written model [wave_eval] -- for all LUTs, operand regions,
    delay tables and output regions of capacity >= 2 (below that the real kernel leaves its own region: z_cur - 1 < 0) *)
Theorem kernel_source_is_model lut ws ds zreg : 2 <= List.length zreg ->
  res_of (wave_eval_src (model_fuel ws) (Z.of_N lut) ws ds zreg) = wave_eval lut ws ds zreg.
Proof. intros H. rewrite wave_eval_is_f. apply wave_eval_src_sim, H. Qed.

(** the hypothesis is satisfiable on a non-trivial instance (XOR2 of two multi-transition operands, polarity-dependent
    delays, capacity 4: the output overflows) ... *)
Definition ex_ws : list (list time) := [[MinInf; Fin 3; Fin 7; MaxInf]; [Fin 2; Fin 5; Fin 9; MaxInf]; [MaxInf]; [MaxInf]].
Definition ex_ds : list dtab :=
  [ {| d00 := 1; d01 := 2; d10 := 1; d11 := 3 |}; {| d00 := 2; d01 := 2; d10 := 4; d11 := 1 |}; dzero; dzero].
Example kernel_source_example :
  res_of (wave_eval_src (model_fuel ex_ws) 6 ex_ws ex_ds (repeat MaxInf 4)) =
    Some {| r_z := [MinInf; Fin 6; MaxOvl; MaxInf]; r_rise := 0; r_fall := 1; r_ovf := 1 |} /\
  res_of (wave_eval_src (model_fuel ex_ws) 6 ex_ws ex_ds (repeat MaxInf 8)) =
    Some {| r_z := [MinInf; Fin 6; Fin 8; Fin 11; MaxInf; MaxInf; MaxInf; MaxInf]; r_rise := 1; r_fall := 2; r_ovf := 0 |}.
Proof. split; vm_compute; reflexivity. Qed.

(** ... and it is needed: with capacity 1 the source decrements z_cur below 0 (the real kernel then reads and writes
    cbuf[z_mem - 1], outside its region, and returns nfall = -1; observed on the real code), while the model's nat cursor
    saturates: the two differ.  SimOps never allocates an output region shorter than c_caps_min = 4. *)
Example kernel_source_cap1_differs :
  res_of (wave_eval_src (model_fuel ex_ws) 7 ex_ws ex_ds [MaxInf]) <> wave_eval 7 ex_ws ex_ds [MaxInf].
Proof. vm_compute. discriminate. Qed.

(* ------------------------------------------------------------------ *)
(** * wave_capture_cpu: the translated source computes Model/WaveEval.v [capture] (sd = 0) *)
Module WaveCaptureCpuSrcProofs.
Import WaveCaptureCpuSrc.

Definition cx (w : list time) (eat lst : time) (fin val ovl : bool) (acc : Z)  (t : time) : kst :=
  {| mem := [w]; v_acc := acc; v_eat := eat; v_lst := lst; v_ovl := b2z ovl; v_val := b2z val; v_final := b2z fin;  v_t := t |}.

Definition one (tcap : time) (t : time) (a : cap_acc) : cap_acc * bool :=
  if is_end t then ({| k_eat := k_eat a; k_lst := k_lst a; k_fin := k_fin a; k_val := k_val a;
                       k_ovl := match t with MaxOvl => true | _ => false end |}, true)
  else
    let a1 := {| k_eat := k_eat a; k_lst := k_lst a; k_fin := negb (k_fin a);
                 k_val := if tltb t tcap then negb (k_val a) else k_val a; k_ovl := k_ovl a |} in
    match t with
    | MinInf => (a1, false)
    | _ => ({| k_eat := tmin (k_eat a1) t; k_lst := tmax (k_lst a1) t; k_fin := k_fin a1; k_val := k_val a1; k_ovl := k_ovl a1 |}, false)
    end.

Lemma model_loop_cons tcap t r a :
  WaveEval.capture_loop (t :: r) tcap a = let (a', brk) := one tcap t a in if brk then a' else WaveEval.capture_loop r tcap a'.
Proof. unfold one. cbn [WaveEval.capture_loop]. destruct t; reflexivity. Qed.

Lemma body_eq tcap w i eat lst fin val acc  t0 :
    capture_body tcap (Z.of_nat i) (cx w eat lst fin val false acc  t0) =
  let (a', brk) := one tcap (wget w i) {| k_eat := eat; k_lst := lst; k_fin := fin; k_val := val; k_ovl := false |} in
  (cx w (k_eat a') (k_lst a') (k_fin a') (k_val a') (k_ovl a') acc  (wget w i), brk).
Proof.
  
  unfold capture_body, cx, one.
  cbv beta iota zeta delta [mem v_acc v_eat v_lst v_ovl v_val v_final v_t 
                            set_mem set_v_acc set_v_eat set_v_lst set_v_ovl set_v_val set_v_final set_v_t ].
  rewrite (rd_0 w [] i).
  destruct (wget w i) as [|z| |]; destruct fin, val; try destruct (tltb _ tcap); cbn; reflexivity.
Qed.

Lemma skipn_cons_nth (w : list time) k : k < List.length w -> skipn k w = wget w k :: skipn (S k) w.
Proof.
  revert k. induction w as [|x w IH]; intros k H; cbn [List.length] in H; [lia|].
  destruct k as [|k]; [reflexivity|]. cbn [skipn]. rewrite IH by lia. reflexivity.
Qed.

Lemma loop_eq tcap w : forall n k eat lst fin val acc  t0, k + n = List.length w ->
  exists t',
  capture_loop tcap (map Z.of_nat (seq k n)) (cx w eat lst fin val false acc  t0) =
  let a' := WaveEval.capture_loop (skipn k w) tcap {| k_eat := eat; k_lst := lst; k_fin := fin; k_val := val; k_ovl := false |} in
  cx w (k_eat a') (k_lst a') (k_fin a') (k_val a') (k_ovl a') acc  t'.
Proof.
  induction n as [|n IH]; intros k eat lst fin val acc  t0 Hk.
  - cbn [seq map capture_loop]. replace k with (List.length w) by lia. rewrite skipn_all. cbn [WaveEval.capture_loop k_eat k_lst k_fin k_val k_ovl].
     exists t0. reflexivity.
  - cbn [seq map capture_loop]. rewrite (skipn_cons_nth w k) by lia. rewrite model_loop_cons.
    pose proof (body_eq tcap w k eat lst fin val acc t0) as B. rewrite B. clear B.
    destruct (one tcap (wget w k) _) as [a' brk] eqn:E1.
    destruct brk.
    +  eexists. reflexivity.
    + assert (Ho : k_ovl a' = false).
      { unfold one in E1. destruct (wget w k); cbn in E1; inversion E1; reflexivity. }
      destruct a' as [e1 l1 f1 v1 o1]. cbn [k_ovl] in Ho. subst o1. cbn [k_eat k_lst k_fin k_val k_ovl].
      apply IH. lia.
Qed.

(** [capture] as the eight values that reach s[3..10] *)
Definition model_result (w : list time) (tcap : time) : bool * time * time * Z * Z * Z * Z * Z :=
  let (ini, a) := WaveEval.capture w tcap in
  (ini, k_eat a, k_lst a, b2z (k_fin a), b2z (k_val a), b2z (k_val a), 0%Z, b2z (k_ovl a)).

Theorem capture_source_is_model tcap w : capture_src tcap w = model_result w tcap.
Proof.
  unfold capture_src, model_result, WaveEval.capture.
  assert (P : capture_prologue tcap (init_kst [w]) = cx w MaxInf MinInf false false false 0  MinInf) by reflexivity.
  rewrite P. cbv zeta.
  assert (C : capture_count (cx w MaxInf MinInf false false false 0  MinInf) = Z.of_nat (List.length w)) by reflexivity.
  rewrite C. unfold zrange. rewrite Nat2Z.id.
  destruct (loop_eq tcap w (List.length w) 0 MaxInf MinInf false false 0%Z  MinInf eq_refl) as (t' & L).
  rewrite L. cbn [skipn]. cbv zeta.
  destruct (WaveEval.capture_loop w tcap _) as [e1 l1 f1 v1 o1].
  unfold capture_result, capture_epilogue, cx.
  cbv beta iota zeta delta [mem v_acc v_eat v_lst v_ovl v_val v_final v_t 
                            set_mem set_v_acc set_v_eat set_v_lst set_v_ovl set_v_val set_v_final set_v_t  k_eat k_lst k_fin k_val k_ovl].
  rewrite rd_00. destruct (wget w 0); reflexivity.
Qed.
End WaveCaptureCpuSrcProofs.

(* ------------------------------------------------------------------ *)
(** * wave_capture_gpu: the translated source computes Model/WaveEval.v [capture] (sd = 0) *)
Module WaveCaptureGpuSrcProofs.
Import WaveCaptureGpuSrc.

Definition cx (w : list time) (eat lst : time) (fin val ovl : bool) (acc : Z) (ti : Z) (t : time) : kst :=
  {| mem := [w]; v_acc := acc; v_eat := eat; v_lst := lst; v_ovl := b2z ovl; v_val := b2z val; v_final := b2z fin; v_tidx := ti; v_t := t |}.

Definition one (tcap : time) (t : time) (a : cap_acc) : cap_acc * bool :=
  if is_end t then ({| k_eat := k_eat a; k_lst := k_lst a; k_fin := k_fin a; k_val := k_val a;
                       k_ovl := match t with MaxOvl => true | _ => false end |}, true)
  else
    let a1 := {| k_eat := k_eat a; k_lst := k_lst a; k_fin := negb (k_fin a);
                 k_val := if tltb t tcap then negb (k_val a) else k_val a; k_ovl := k_ovl a |} in
    match t with
    | MinInf => (a1, false)
    | _ => ({| k_eat := tmin (k_eat a1) t; k_lst := tmax (k_lst a1) t; k_fin := k_fin a1; k_val := k_val a1; k_ovl := k_ovl a1 |}, false)
    end.

Lemma model_loop_cons tcap t r a :
  WaveEval.capture_loop (t :: r) tcap a = let (a', brk) := one tcap t a in if brk then a' else WaveEval.capture_loop r tcap a'.
Proof. unfold one. cbn [WaveEval.capture_loop]. destruct t; reflexivity. Qed.

Lemma body_eq tcap w i eat lst fin val acc ti0 t0 :
  exists ti,
  capture_body tcap (Z.of_nat i) (cx w eat lst fin val false acc ti0 t0) =
  let (a', brk) := one tcap (wget w i) {| k_eat := eat; k_lst := lst; k_fin := fin; k_val := val; k_ovl := false |} in
  (cx w (k_eat a') (k_lst a') (k_fin a') (k_val a') (k_ovl a') acc ti (wget w i), brk).
Proof.
  exists (Z.of_nat i).
  unfold capture_body, cx, one.
  cbv beta iota zeta delta [mem v_acc v_eat v_lst v_ovl v_val v_final v_t v_tidx
                            set_mem set_v_acc set_v_eat set_v_lst set_v_ovl set_v_val set_v_final set_v_t set_v_tidx].
  rewrite (rd_0 w [] i).
  destruct (wget w i) as [|z| |]; destruct fin, val; try destruct (tltb _ tcap); cbn; reflexivity.
Qed.

Lemma skipn_cons_nth (w : list time) k : k < List.length w -> skipn k w = wget w k :: skipn (S k) w.
Proof.
  revert k. induction w as [|x w IH]; intros k H; cbn [List.length] in H; [lia|].
  destruct k as [|k]; [reflexivity|]. cbn [skipn]. rewrite IH by lia. reflexivity.
Qed.

Lemma loop_eq tcap w : forall n k eat lst fin val acc ti0 t0, k + n = List.length w ->
  exists ti t',
  capture_loop tcap (map Z.of_nat (seq k n)) (cx w eat lst fin val false acc ti0 t0) =
  let a' := WaveEval.capture_loop (skipn k w) tcap {| k_eat := eat; k_lst := lst; k_fin := fin; k_val := val; k_ovl := false |} in
  cx w (k_eat a') (k_lst a') (k_fin a') (k_val a') (k_ovl a') acc ti t'.
Proof.
  induction n as [|n IH]; intros k eat lst fin val acc ti0 t0 Hk.
  - cbn [seq map capture_loop]. replace k with (List.length w) by lia. rewrite skipn_all. cbn [WaveEval.capture_loop k_eat k_lst k_fin k_val k_ovl].
    exists ti0. exists t0. reflexivity.
  - cbn [seq map capture_loop]. rewrite (skipn_cons_nth w k) by lia. rewrite model_loop_cons.
    destruct (body_eq tcap w k eat lst fin val acc ti0 t0) as (ti & B). rewrite B. clear B.
    destruct (one tcap (wget w k) _) as [a' brk] eqn:E1.
    destruct brk.
    + eexists. eexists. reflexivity.
    + assert (Ho : k_ovl a' = false).
      { unfold one in E1. destruct (wget w k); cbn in E1; inversion E1; reflexivity. }
      destruct a' as [e1 l1 f1 v1 o1]. cbn [k_ovl] in Ho. subst o1. cbn [k_eat k_lst k_fin k_val k_ovl].
      apply IH. lia.
Qed.

(** [capture] as the eight values that reach s[3..10] *)
Definition model_result (w : list time) (tcap : time) : bool * time * time * Z * Z * Z * Z * Z :=
  let (ini, a) := WaveEval.capture w tcap in
  (ini, k_eat a, k_lst a, b2z (k_fin a), b2z (k_val a), b2z (k_val a), 0%Z, b2z (k_ovl a)).

Theorem capture_source_is_model tcap w : capture_src tcap w = model_result w tcap.
Proof.
  unfold capture_src, model_result, WaveEval.capture.
  assert (P : capture_prologue tcap (init_kst [w]) = cx w MaxInf MinInf false false false 0 0%Z MinInf) by reflexivity.
  rewrite P. cbv zeta.
  assert (C : capture_count (cx w MaxInf MinInf false false false 0 0%Z MinInf) = Z.of_nat (List.length w)) by reflexivity.
  rewrite C. unfold zrange. rewrite Nat2Z.id.
  destruct (loop_eq tcap w (List.length w) 0 MaxInf MinInf false false 0%Z 0%Z MinInf eq_refl) as (ti & t' & L).
  rewrite L. cbn [skipn]. cbv zeta.
  destruct (WaveEval.capture_loop w tcap _) as [e1 l1 f1 v1 o1].
  unfold capture_result, capture_epilogue, cx.
  cbv beta iota zeta delta [mem v_acc v_eat v_lst v_ovl v_val v_final v_t v_tidx
                            set_mem set_v_acc set_v_eat set_v_lst set_v_ovl set_v_val set_v_final set_v_t set_v_tidx k_eat k_lst k_fin k_val k_ovl].
  rewrite rd_00. destruct (wget w 0); reflexivity.
Qed.
End WaveCaptureGpuSrcProofs.

(** both capture kernels -- the CPU function and the body of the GPU thread -- compute the same eight values from the
    same region and capture time (sd = 0) *)
Theorem capture_cpu_gpu_same tcap w : WaveCaptureCpuSrc.capture_src tcap w = WaveCaptureGpuSrc.capture_src tcap w.
Proof.
  rewrite WaveCaptureCpuSrcProofs.capture_source_is_model, WaveCaptureGpuSrcProofs.capture_source_is_model. reflexivity.
Qed.

Example capture_source_example :
  WaveCaptureCpuSrc.capture_src (Fin 6) [MinInf; Fin 3; Fin 7; Fin 9; MaxOvl; MaxInf] =
    (true, Fin 3, Fin 9, 0%Z, 0%Z, 0%Z, 0%Z, 1%Z) /\
  WaveCaptureGpuSrc.capture_src (Fin 6) [Fin 2; Fin 5; Fin 8; MaxInf] = (false, Fin 2, Fin 8, 1%Z, 0%Z, 0%Z, 0%Z, 0%Z).
Proof. split; vm_compute; reflexivity. Qed.
