(** C03 / C13: the flat waveform memory of WaveSim.c_prop ([w_c_prop]: regions addressed through c_locs / c_caps, abuf)
    refines the line-level semantics ([wexec], [wacc]) whenever the output region of every op is disjoint from the
    region of every other tracked index. *)
From Coq Require Import List ZArith NArith Bool Arith Lia.
From KV Require Import Model.Prims Model.Netlist Model.Heap Model.SimOps Model.Time Model.WaveEval Model.WaveSpec Model.WaveOps
     Model.WaveSimModel Model.WaveAcc Model.CaptureSpec
     Proofs.WaveCore Proofs.WaveEquiv Proofs.WaveCircuit Proofs.WaveCircuit2 Proofs.WaveAccProofs.
Import ListNotations.
Local Open Scope list_scope.

(* ------------------------------------------------------------------ *)
(** * Lists: [write_at] and [region] through [nth] *)

Definition overwrite : wmem -> list time -> wmem :=
  fix ow (m : wmem) (vs : list time) := match vs, m with
                                        | [], _ => m
                                        | _, [] => []
                                        | v :: vr, _ :: mr => v :: ow mr vr end.

Lemma write_at_0 m vs : write_at m 0 vs = overwrite m vs.
Proof. destruct m; reflexivity. Qed.

Lemma overwrite_length vs : forall m, length (overwrite m vs) = length m.
Proof.
  induction vs as [|v vs IH]; intros m; [destruct m; reflexivity|].
  destruct m as [|x m]; [reflexivity|]. cbn [overwrite length]. f_equal. apply IH.
Qed.

Lemma write_at_length loc : forall m vs, length (write_at m loc vs) = length m.
Proof.
  induction loc as [|loc IH]; intros m vs; [rewrite write_at_0; apply overwrite_length|].
  destruct m as [|x m]; [reflexivity|]. cbn [write_at length]. f_equal. apply IH.
Qed.

Lemma nth_overwrite vs : forall m i d,
  nth i (overwrite m vs) d = if Nat.ltb i (length vs) && Nat.ltb i (length m) then nth i vs d else nth i m d.
Proof.
  induction vs as [|v vs IH]; intros m i d.
  - destruct m; destruct i; reflexivity.
  - destruct m as [|x m].
    + cbn [overwrite length]. rewrite andb_false_r. reflexivity.
    + destruct i as [|i]; [reflexivity|]. cbn [overwrite nth length]. rewrite IH. reflexivity.
Qed.

Lemma nth_write_at loc : forall m vs i d,
  nth i (write_at m loc vs) d =
  if Nat.leb loc i && Nat.ltb i (loc + length vs) && Nat.ltb i (length m) then nth (i - loc) vs d else nth i m d.
Proof.
  induction loc as [|loc IH]; intros m vs i d.
  - rewrite write_at_0, nth_overwrite, Nat.sub_0_r. reflexivity.
  - destruct m as [|x m].
    + cbn [write_at length]. rewrite andb_false_r. reflexivity.
    + destruct i as [|i]; [reflexivity|]. cbn [write_at nth length]. rewrite IH. reflexivity.
Qed.

Lemma nth_firstn_lt {A} n : forall (l : list A) i d, nth i (firstn n l) d = if Nat.ltb i n then nth i l d else d.
Proof.
  induction n as [|n IH]; intros l i d; [destruct i; reflexivity|].
  destruct l as [|x l].
  { cbn [firstn]. replace (nth i (@nil A) d) with d by (destruct i; reflexivity). destruct (Nat.ltb i (S n)); reflexivity. }
  destruct i as [|i]; [reflexivity|]. cbn [firstn nth]. rewrite IH. reflexivity.
Qed.

Lemma nth_skipn_plus {A} n : forall (l : list A) i d, nth i (skipn n l) d = nth (n + i) l d.
Proof.
  induction n as [|n IH]; intros l i d; [reflexivity|].
  destruct l as [|x l]; [destruct i; reflexivity|]. cbn [skipn plus nth]. apply IH.
Qed.

Lemma nth_region m loc len i d : nth i (region m loc len) d = if Nat.ltb i len then nth (loc + i) m d else d.
Proof. unfold region. rewrite nth_firstn_lt, nth_skipn_plus. reflexivity. Qed.

Lemma region_length m loc len : loc + len <= length m -> length (region m loc len) = len.
Proof. intros H. unfold region. rewrite firstn_length, skipn_length. lia. Qed.

Lemma region_length_eq m m' loc len : length m' = length m -> length (region m' loc len) = length (region m loc len).
Proof. intros H. unfold region. rewrite !firstn_length, !skipn_length, H. reflexivity. Qed.

Lemma region_write_same m loc vs : loc + length vs <= length m -> region (write_at m loc vs) loc (length vs) = vs.
Proof.
  intros H. apply (nth_ext _ _ MaxInf MaxInf).
  - apply region_length. rewrite write_at_length. exact H.
  - intros i Hi. rewrite region_length in Hi by (rewrite write_at_length; exact H).
    rewrite nth_region, nth_write_at.
    destruct (Nat.ltb_spec i (length vs)); [|lia].
    destruct (Nat.leb_spec loc (loc + i)); [|lia].
    destruct (Nat.ltb_spec (loc + i) (loc + length vs)); [|lia].
    destruct (Nat.ltb_spec (loc + i) (length m)); [|lia].
    cbn [andb]. f_equal. lia.
Qed.

Lemma region_write_other m loc vs l n : l + n <= loc \/ loc + length vs <= l ->
  region (write_at m loc vs) l n = region m l n.
Proof.
  intros H. apply (nth_ext _ _ MaxInf MaxInf).
  - apply region_length_eq, write_at_length.
  - intros i Hi. rewrite !nth_region. destruct (Nat.ltb_spec i n); [|reflexivity].
    rewrite nth_write_at.
    destruct (Nat.leb_spec loc (l + i)); cbn [andb]; [|reflexivity].
    destruct (Nat.ltb_spec (l + i) (loc + length vs)); cbn [andb]; [lia|reflexivity].
Qed.

(* ------------------------------------------------------------------ *)
(** * A gate evaluation depends on its operands only up to their terminators and on the output region only through its length *)

Lemma upto_end_idem w : upto_end (upto_end w) = upto_end w.
Proof.
  induction w as [|t r IH]; [reflexivity|]. cbn [upto_end].
  destruct (is_end t) eqn:E; cbn [upto_end]; rewrite E; [reflexivity|]. rewrite IH. reflexivity.
Qed.

Lemma eval_upto lut ws ws' ds zreg zreg' r :
  length ws = 4 -> length ws' = 4 -> length ds = 4 ->
  Forall2 (fun w w' => upto_end w = upto_end w') ws ws' ->
  length zreg' = length zreg ->
  wave_eval lut ws ds zreg = Some r ->
  exists r', wave_eval lut ws' ds zreg' = Some r' /\ upto_end (r_z r') = upto_end (r_z r) /\
             r_rise r' = r_rise r /\ r_fall r' = r_fall r /\ r_ovf r' = r_ovf r.
Proof.
  intros Hw Hw' Hd HF Hl H.
  destruct (sim_main (fun z => z) (fun x => x)) with (lut := lut) (ws := ws) (ws' := ws') (ds := ds) (ds' := ds)
    (zcap := length zreg) (zcap' := length zreg') (zreg := zreg) (zreg' := zreg') (r := r)
    as [r' [E1 [E2 [E3 [E4 E5]]]]]; auto.
  - intros k c Hk Hc. rewrite lift_id.
    apply wget_upto_end_eq; auto.
    apply (Forall2_nth (fun w w' => upto_end w = upto_end w')); auto.
  - exists r'. rewrite map_lift_id in E2. repeat split; auto.
Qed.

Lemma wave_eval_length lut ws ds zreg r : wave_eval lut ws ds zreg = Some r -> length (r_z r) = length zreg.
Proof.
  rewrite WaveEquiv.wave_eval_eq. destruct (loop _ _ _ _ _ _) as [st|] eqn:EL; [|discriminate].
  intros H. inversion H; subst r; clear H. unfold finish. cbn [r_z]. rewrite WaveEquiv.wset_length.
  apply (WaveEquiv.loop_inv (fun s => length (zarr s) = length zreg)) in EL; [exact EL| |].
  - intros s Hs _. rewrite zarr_step_length. exact Hs.
  - unfold st0. cbn [zarr]. destruct (N.odd lut); [apply WaveEquiv.wset_length|reflexivity].
Qed.

(** capture reads a region only up to its terminator *)
Lemma capture_loop_upto_end w T : forall a, capture_loop (upto_end w) T a = capture_loop w T a.
Proof.
  induction w as [|t r IH]; intros a; [reflexivity|].
  cbn [upto_end]. destruct (is_end t) eqn:E.
  - cbn [capture_loop]. rewrite E. reflexivity.
  - cbn [capture_loop]. rewrite E. destruct t; rewrite IH; reflexivity.
Qed.

Lemma capture_upto_end w T : capture (upto_end w) T = capture w T.
Proof. unfold capture. rewrite hd_upto_end, capture_loop_upto_end. reflexivity. Qed.

(* ------------------------------------------------------------------ *)
(** * One op on the flat memory *)

Definition wcp_step (so : simops) (delays : list dtab) (actrl : list (Z * Z * Z))
           (st : option (wmem * list Z)) (io : nat * sop) : option (wmem * list Z) :=
  match st with
  | None => None
  | Some (m', ab) =>
      match wprop1 so delays m' (snd io) with
      | None => None
      | Some (m2, (nr, nf)) =>
          let '(ai, wr, wf) := nth (fst io) actrl ((-1)%Z, 0%Z, 0%Z) in
          Some (m2, if (0 <=? ai)%Z then addZ_at ab (Z.to_nat ai) (Z.of_nat nr * wr + Z.of_nat nf * wf)%Z else ab)
      end
  end.

Lemma w_c_prop_eq so delays actrl m ab :
  w_c_prop so delays actrl m ab =
  fold_left (wcp_step so delays actrl) (combine (seq 0 (length (so_ops so))) (so_ops so)) (Some (m, ab)).
Proof. reflexivity. Qed.

Lemma wcp_none so delays actrl l : fold_left (wcp_step so delays actrl) l None = None.
Proof. induction l as [|x l IH]; [reflexivity|exact IH]. Qed.

Section Flat.
Variable so : simops.
Variable delays : list dtab.
Variable actrl : list (Z * Z * Z).
Variable P : nat -> Prop.

Let dl := dl_of delays.
Let cp := capN so.

Lemma operand_write_same m zl k vs : locZ so k = Some zl -> length vs = capN so k -> zl + capN so k <= length m ->
  operand so (write_at m zl vs) k = vs.
Proof.
  intros Hl Hv Hin. unfold operand. rewrite Hl, <- Hv. apply region_write_same. lia.
Qed.

Lemma flat_step (e : wenv) m o m2 nr nf :
  op_ok so P (length m) o ->
  (forall k, P k -> env_of so m k = e k) ->
  wprop1 so delays m o = Some (m2, (nr, nf)) ->
  length m2 = length m /\
  (forall k, P k -> env_of so m2 k = wstep dl cp e o k) /\
  (nr, nf) = wop_counts dl cp e o.
Proof.
  intros (Po & P0 & P1 & P2 & P3 & zl & Hzl & Hin & Hdis) Hinv H.
  unfold wprop1 in H. rewrite Hzl in H.
  destruct (wave_eval _ _ _ _) as [r|] eqn:Hev; [|discriminate].
  inversion H; subst m2 nr nf; clear H.
  assert (Hzlen : length (region m zl (capN so (s_out o))) = capN so (s_out o)) by (apply region_length; exact Hin).
  destruct (eval_upto (s_lut o) (map (operand so m) [s_i0 o; s_i1 o; s_i2 o; s_i3 o]) (wsof e o)
              (map (fun k => nth k delays dzero) [s_i0 o; s_i1 o; s_i2 o; s_i3 o])
              (region m zl (capN so (s_out o))) (zof cp o) r)
    as (r' & Hr' & Hz & Hrise & Hfall & _); [reflexivity|reflexivity|reflexivity| | |exact Hev|].
  { assert (Hup : forall k, P k -> upto_end (operand so m k) = upto_end (e k)).
    { intros k Hk. rewrite <- (Hinv k Hk). unfold env_of. symmetry. apply upto_end_idem. }
    unfold wsof, idxs. cbn [map]. repeat constructor; apply Hup; assumption. }
  { unfold zof. rewrite repeat_length. symmetry. exact Hzlen. }
  assert (Hlen : length (r_z r) = capN so (s_out o)).
  { rewrite (wave_eval_length _ _ _ _ _ Hev). exact Hzlen. }
  split; [apply write_at_length|]. split.
  - intros k Hk. unfold wstep, wupd. destruct (Nat.eqb k (s_out o)) eqn:E.
    + apply Nat.eqb_eq in E. subst k. unfold env_of.
      rewrite (operand_write_same m zl (s_out o) (r_z r) Hzl Hlen Hin).
      rewrite wop_eq. change (dsof dl o) with (map (fun k => nth k delays dzero) [s_i0 o; s_i1 o; s_i2 o; s_i3 o]).
      fold cp. rewrite Hr'. symmetry. exact Hz.
    + apply Nat.eqb_neq in E. rewrite <- (Hinv k Hk). unfold env_of, operand.
      specialize (Hdis k Hk E). destruct (locZ so k) as [l|]; [|reflexivity].
      rewrite region_write_other; [reflexivity|]. rewrite Hlen. exact Hdis.
  - unfold wop_counts. rewrite wop_res_eq.
    change (dsof dl o) with (map (fun k => nth k delays dzero) [s_i0 o; s_i1 o; s_i2 o; s_i3 o]).
    fold cp. rewrite Hr', Hrise, Hfall. reflexivity.
Qed.

Lemma wprop1_some m o : op_ok so P (length m) o -> exists m2 nr nf, wprop1 so delays m o = Some (m2, (nr, nf)).
Proof.
  intros (_ & _ & _ & _ & _ & zl & Hzl & _). unfold wprop1. rewrite Hzl.
  destruct (WaveEquiv.wave_eval_some (s_lut o) (map (operand so m) [s_i0 o; s_i1 o; s_i2 o; s_i3 o])
              (map (fun k => nth k delays dzero) [s_i0 o; s_i1 o; s_i2 o; s_i3 o])
              (region m zl (capN so (s_out o))) eq_refl) as (r & Hr).
  rewrite Hr. eauto.
Qed.

Lemma wcp_step_some m ab i o m2 nr nf : wprop1 so delays m o = Some (m2, (nr, nf)) ->
  wcp_step so delays actrl (Some (m, ab)) (i, o) = Some (m2, acc_add actrl ab i (nr, nf)).
Proof.
  intros Hp. unfold wcp_step. cbn [fst snd]. rewrite Hp. unfold acc_add, actrl_at.
  destruct (nth i actrl _) as [[ai wr] wf]. reflexivity.
Qed.

Lemma wcp_step_none m ab i o : wprop1 so delays m o = None -> wcp_step so delays actrl (Some (m, ab)) (i, o) = None.
Proof. intros Hp. unfold wcp_step. cbn [fst snd]. rewrite Hp. reflexivity. Qed.

Lemma flat_gen : forall ops i (e : wenv) (m : wmem) (ab : list Z) (m' : wmem) (ab' : list Z),
  (forall o, In o ops -> op_ok so P (length m) o) ->
  (forall k, P k -> env_of so m k = e k) ->
  fold_left (wcp_step so delays actrl) (combine (seq i (length ops)) ops) (Some (m, ab)) = Some (m', ab') ->
  length m' = length m /\
  (forall k, P k -> env_of so m' k = wexec dl cp ops e k) /\
  ab' = snd (wacc_from dl cp actrl i ops e ab).
Proof.
  induction ops as [|o ops IH]; intros i e m ab m' ab' Hok Hinv H.
  - cbn in H. inversion H; subst. auto.
  - change (combine (seq i (length (o :: ops))) (o :: ops)) with ((i, o) :: combine (seq (S i) (length ops)) ops) in H.
    change (fold_left (wcp_step so delays actrl) ((i, o) :: combine (seq (S i) (length ops)) ops) (Some (m, ab)))
      with (fold_left (wcp_step so delays actrl) (combine (seq (S i) (length ops)) ops)
                      (wcp_step so delays actrl (Some (m, ab)) (i, o))) in H.
    destruct (wprop1 so delays m o) as [[m2 [nr nf]]|] eqn:Hp;
      [|rewrite (wcp_step_none m ab i o Hp), wcp_none in H; discriminate].
    rewrite (wcp_step_some m ab i o m2 nr nf Hp) in H.
    destruct (flat_step e m o m2 nr nf (Hok o (or_introl eq_refl)) Hinv Hp) as (Hlen & Hinv2 & Hcnt).
    rewrite Hcnt in H.
    apply (IH (S i) (wstep dl cp e o)) in H; [|intros o' Ho'; rewrite Hlen; apply Hok; right; exact Ho'|exact Hinv2].
    destruct H as (L & E & A).
    split; [congruence|]. split; [exact E|exact A].
Qed.

Lemma flat_total : forall ops i (m : wmem) (ab : list Z),
  (forall o, In o ops -> op_ok so P (length m) o) ->
  exists m' ab', fold_left (wcp_step so delays actrl) (combine (seq i (length ops)) ops) (Some (m, ab)) = Some (m', ab').
Proof.
  induction ops as [|o ops IH]; intros i m ab Hok; [cbn; eauto|].
  change (combine (seq i (length (o :: ops))) (o :: ops)) with ((i, o) :: combine (seq (S i) (length ops)) ops).
  change (fold_left (wcp_step so delays actrl) ((i, o) :: combine (seq (S i) (length ops)) ops) (Some (m, ab)))
    with (fold_left (wcp_step so delays actrl) (combine (seq (S i) (length ops)) ops)
                    (wcp_step so delays actrl (Some (m, ab)) (i, o))).
  destruct (wprop1_some m o (Hok o (or_introl eq_refl))) as (m2 & nr & nf & Hp).
  rewrite (wcp_step_some m ab i o m2 nr nf Hp).
  assert (Hlen : length m2 = length m).
  { unfold wprop1 in Hp. destruct (locZ so (s_out o)); [|discriminate]. destruct (wave_eval _ _ _ _); [|discriminate].
    inversion Hp; subst. apply write_at_length. }
  apply IH. intros o' Ho'. rewrite Hlen. apply Hok. right. exact Ho'.
Qed.

(** ** The flat memory refines the line-level semantics *)
Theorem flat_refines m ab :
  regions_ok so P (length m) ->
  exists m' ab', w_c_prop so delays actrl m ab = Some (m', ab') /\
    length m' = length m /\
    (forall k, P k -> upto_end (operand so m' k) = wexec dl cp (so_ops so) (env_of so m) k) /\
    ab' = wacc dl cp actrl (so_ops so) (env_of so m) ab.
Proof.
  intros Hok. rewrite w_c_prop_eq.
  destruct (flat_total (so_ops so) 0 m ab Hok) as (m' & ab' & H). exists m', ab'. split; [exact H|].
  destruct (flat_gen (so_ops so) 0 (env_of so m) m ab m' ab' Hok (fun k _ => eq_refl) H) as (L & E & A).
  split; [exact L|]. split; [exact E|exact A].
Qed.

(** indices that share location and capacity with a tracked index (the PPO slots) read the same waveform *)
Lemma operand_alias m k k' : locZ so k' = locZ so k -> capN so k' = capN so k -> operand so m k' = operand so m k.
Proof. intros Hl Hc. unfold operand. rewrite Hl, Hc. reflexivity. Qed.

(** ** c_to_s after c_prop: the PPO slot i that aliases the tracked line l0 captures the line-level waveform of l0 *)
Theorem flat_capture m ab m' ab' T i l0 zl :
  regions_ok so P (length m) ->
  w_c_prop so delays actrl m ab = Some (m', ab') ->
  i < so_slen so -> P l0 -> locZ so l0 = Some zl ->
  locZ so (n_tracked so + i) = locZ so l0 -> capN so (n_tracked so + i) = capN so l0 ->
  nth i (w_c_to_s so m' T) None = Some (six (capture (wexec dl cp (so_ops so) (env_of so m) l0) T)).
Proof.
  intros Hok H Hi Pl Hzl Hl Hc.
  destruct (flat_refines m ab Hok) as (m1 & ab1 & H1 & _ & E & _). rewrite H in H1. inversion H1; subst m1 ab1; clear H1.
  unfold w_c_to_s.
  rewrite (nth_indep _ None ((fun j => match locZ so (so_nlines so + 3 + so_slen so + j) with
                                         | None => None
                                         | Some l => let '(ini, a) := capture (region m' l (capN so (so_nlines so + 3 + so_slen so + j))) T in
                                                     Some (ini, k_eat a, k_lst a, k_fin a, k_val a, k_ovl a)
                                         end) 0))
    by (rewrite map_length, seq_length; exact Hi).
  rewrite (map_nth (fun j => match locZ so (so_nlines so + 3 + so_slen so + j) with
                              | None => None
                              | Some l => let '(ini, a) := capture (region m' l (capN so (so_nlines so + 3 + so_slen so + j))) T in
                                          Some (ini, k_eat a, k_lst a, k_fin a, k_val a, k_ovl a)
                              end) (seq 0 (so_slen so)) 0 i).
  rewrite seq_nth by exact Hi. cbn [plus].
  change (so_nlines so + 3 + so_slen so + i) with (n_tracked so + i).
  rewrite Hl, Hzl, Hc.
  rewrite <- (E l0 Pl), capture_upto_end. unfold operand. rewrite Hzl.
  unfold six. destruct (capture _ T) as (ini, a). reflexivity.
Qed.
End Flat.

(** the executable check of the memory map is sound *)
Lemma op_ok_b_sound so n memlen o : op_ok_b so n memlen o = true -> op_ok so (fun k => k < n) memlen o.
Proof.
  unfold op_ok_b, op_ok. rewrite !andb_true_iff, !Nat.ltb_lt.
  intros (((((Ho & H0) & H1) & H2) & H3) & H).
  destruct (locZ so (s_out o)) as [zl|]; [|discriminate].
  apply andb_true_iff in H. destruct H as (Hin & Hall). apply Nat.leb_le in Hin.
  repeat (split; [assumption|]). exists zl. split; [reflexivity|]. split; [exact Hin|].
  intros k Hk Hne. rewrite forallb_forall in Hall. specialize (Hall k).
  rewrite in_seq in Hall. specialize (Hall ltac:(lia)).
  apply orb_true_iff in Hall. destruct Hall as [Hall|Hall]; [apply Nat.eqb_eq in Hall; contradiction|].
  destruct (locZ so k) as [l|]; [|exact I].
  apply orb_true_iff in Hall. rewrite !Nat.leb_le in Hall. exact Hall.
Qed.

Theorem regions_ok_b_sound so n memlen : regions_ok_b so n memlen = true -> regions_ok so (fun k => k < n) memlen.
Proof.
  unfold regions_ok_b, regions_ok. rewrite forallb_forall. intros H o Ho. apply op_ok_b_sound, H, Ho.
Qed.

(* ------------------------------------------------------------------ *)
(** * Instance: the op list of Proofs/WaveCircuit.v laid out in a flat memory (10 indices, 8 entries each, line 4 only 4) *)

Module Example4.
Import Example1 Example3.
Local Open Scope Z_scope.

Definition so1 : simops :=
  {| so_ops := ops; so_level_starts := [0; 1; 2]%nat;
     so_locs := [0; 8; 16; 24; 32; 36; 44; 52; 60; 68];
     so_caps := [8; 8; 8; 8; 4; 8; 8; 8; 8; 8]%N;
     so_len := 76%N; so_stems := []; so_nlines := 7; so_slen := 0 |}.
Definition dlist : list dtab := [dl 0%nat; dl 1%nat; dl 2%nat; dl 3%nat].
Definition m0 : wmem := write_at (write_at (repeat MaxInf 76) 0 (e0 0%nat)) 8 (e0 1%nat).

Lemma so1_ok : regions_ok so1 (fun k => (k < 10)%nat) (length m0).
Proof. apply regions_ok_b_sound. vm_compute. reflexivity. Qed.

Example flat_ex :
  exists m' ab', w_c_prop so1 dlist ac m0 [0; 0] = Some (m', ab') /\
    upto_end (operand so1 m' 4%nat) = [Fin 11; Fin 21; MaxOvl] /\ ab' = [17; 9].
Proof.
  destruct (flat_refines so1 dlist ac _ m0 [0; 0] so1_ok) as (m' & ab' & H & _ & E & A).
  exists m', ab'. split; [exact H|]. split.
  - rewrite (E 4%nat) by lia. vm_compute. reflexivity.
  - rewrite A. vm_compute. reflexivity.
Qed.
End Example4.

Print Assumptions flat_refines.
Print Assumptions flat_capture.
Print Assumptions regions_ok_b_sound.
