(** C09: eliminate_1to1_forks preserves the consistency invariant. *)
From Coq Require Import List Arith Bool String Lia.
From KV Require Import Model.Circuit Model.CircuitInv Proofs.CircuitBase Proofs.CircuitProofs.
Import ListNotations.
Local Open Scope list_scope.

(** ** re-connecting the reader end of a line whose reader [n] was removed from the circuit *)
Lemma move_reader_generic : forall X c c' n l R p,
  CCoreX (n :: X) c -> ~ In n X -> ~ In n (nodes c) -> In l (lines c) -> l_rdr (lst c l) = Some n ->
  (forall q, out_at c n q = None) -> (forall q x, in_at c n q = Some x -> x = l) ->
  NX X c R -> in_at c R p = None ->
  nnext c' = nnext c -> lnext c' = lnext c -> nodes c' = nodes c -> lines c' = lines c ->
  forks c' = forks c -> cells c' = cells c ->
  (forall x, n_name (nst c' x) = n_name (nst c x)) -> (forall x, n_kind (nst c' x) = n_kind (nst c x)) ->
  (forall x, n_index (nst c' x) = n_index (nst c x)) -> (forall x, n_alive (nst c' x) = n_alive (nst c x)) ->
  (forall x, n_outs (nst c' x) = n_outs (nst c x)) ->
  (forall x, n_ins (nst c' x) = if Nat.eqb x R then gset (n_ins (nst c R)) p (Some l) else n_ins (nst c x)) ->
  (forall x, x <> l -> lst c' x = lst c x) ->
  l_drv (lst c' l) = l_drv (lst c l) -> l_dpin (lst c' l) = l_dpin (lst c l) ->
  l_index (lst c' l) = l_index (lst c l) -> l_alive (lst c' l) = l_alive (lst c l) ->
  l_rdr (lst c' l) = Some R -> l_rpin (lst c' l) = p ->
  CCoreX X c'.
Proof.
  intros X c c' n l R p HC HnX Hnn Hl Hrdr Hno Hni HR Hfree Hnnx Hlnx Hnodes Hlines Hforks Hcells
         Hname Hkind Hidx Halive Houts Hins Hlst Ld Ldp Li La Lr Lrp.
  assert (HRn : R <> n). { intros ->. destruct HR; auto. }
  assert (HNX : forall y, NX X c' y <-> NX X c y). { intros y. unfold NX. rewrite Hnodes. tauto. }
  assert (HNXn : forall y, NX X c y -> y <> n). { intros y [H|H] ->; auto. }
  assert (HNXw : forall y, NX X c y -> NX (n :: X) c y). { intros y [H|H]; [left|right; right]; auto. }
  assert (Hia : forall y q, in_at c' y q = if Nat.eqb y R && Nat.eqb q p then Some l else in_at c y q).
  { intros y q. unf. rewrite Hins. destruct (Nat.eqb_spec y R); simpl; auto. subst. rewrite nth_gset. reflexivity. }
  assert (Hoa : forall y q, out_at c' y q = out_at c y q). { intros y q. unf. rewrite Houts. reflexivity. }
  destruct (cc_line _ c HC l Hl) as [d0 [r0 [H1 [H2 [H3 [H4 [H5 H6]]]]]]].
  rewrite Hrdr in H2. injection H2 as E0. subst r0.
  constructor.
  - intros y Hy. rewrite Hnnx. apply (cc_nb _ c HC). apply HNXw. apply HNX; auto.
  - intros x Hx. rewrite Hlnx. rewrite Hlines in Hx. apply (cc_lb _ c HC); auto.
  - intros i y Hi. rewrite Halive, Hidx. rewrite Hnodes in Hi. apply (cc_nidx _ c HC); auto.
  - intros i x Hi. rewrite Hlines in Hi. destruct (Nat.eq_dec x l) as [->|Hne].
    + rewrite La, Li. apply (cc_lidx _ c HC); auto.
    + rewrite Hlst by auto. apply (cc_lidx _ c HC); auto.
  - intros x Hx. rewrite Halive. apply (cc_xdead _ c HC). right; auto.
  - rewrite Hforks. apply (cc_forks_nd _ c HC).
  - intros s m. rewrite Hforks, Hnodes. unf. rewrite Hkind, Hname. apply (cc_forks _ c HC).
  - rewrite Hcells. apply (cc_cells_nd _ c HC).
  - intros s m. rewrite Hcells, Hnodes. unf. rewrite Hkind, Hname. apply (cc_cells _ c HC).
  - intros x Hx. rewrite Hlines in Hx. destruct (Nat.eq_dec x l) as [->|Hne].
    + exists d0, R. rewrite Ld, Ldp, Lr, Lrp, !HNX. repeat split; auto.
      * destruct H3 as [H3|[H3|H3]]; [left; auto| |right; auto]. subst d0. rewrite Hno in H5. discriminate.
      * rewrite Hoa. auto.
      * rewrite Hia. rewrite !Nat.eqb_refl. reflexivity.
    + rewrite Hlst by auto.
      destruct (cc_line _ c HC x Hx) as [d1 [r1 [G1 [G2 [G3 [G4 [G5 G6]]]]]]].
      exists d1, r1. rewrite !HNX. repeat split; auto.
      * destruct G3 as [G3|[G3|G3]]; [left; auto| |right; auto]. subst d1. rewrite Hno in G5. discriminate.
      * destruct G4 as [G4|[G4|G4]]; [left; auto| |right; auto]. subst r1. apply Hni in G6. congruence.
      * rewrite Hoa. auto.
      * rewrite Hia. destruct (Nat.eqb_spec r1 R); simpl; auto. destruct (Nat.eqb_spec (l_rpin (lst c x)) p); simpl; auto.
        subst. congruence.
  - intros y q x Hy Ho. apply HNX in Hy. rewrite Hoa in Ho. rewrite Hlines.
    destruct (cc_outs _ c HC y q x (HNXw y Hy) Ho) as [B1 [B2 B3]].
    destruct (Nat.eq_dec x l) as [->|Hne].
    + rewrite Ld, Ldp. auto.
    + rewrite Hlst by auto. auto.
  - intros y q x Hy Ho. apply HNX in Hy. rewrite Hia in Ho. rewrite Hlines.
    destruct (Nat.eqb_spec y R); simpl in Ho; [destruct (Nat.eqb_spec q p); simpl in Ho|].
    + subst y q. injection Ho as <-. rewrite Lr, Lrp. auto.
    + destruct (cc_ins _ c HC y q x (HNXw y Hy) Ho) as [B1 [B2 B3]].
      assert (x <> l). { intros ->. rewrite Hrdr in B2. injection B2 as E1. apply (HNXn y Hy). auto. }
      rewrite Hlst by auto. auto.
    + destruct (cc_ins _ c HC y q x (HNXw y Hy) Ho) as [B1 [B2 B3]].
      assert (x <> l). { intros ->. rewrite Hrdr in B2. injection B2 as E1. apply (HNXn y Hy). auto. }
      rewrite Hlst by auto. auto.
Qed.

(** ** updates of objects that are not part of the circuit do not matter *)
Lemma dead_frame : forall X c c', CCoreX X c ->
  nnext c' = nnext c -> lnext c' = lnext c -> nodes c' = nodes c -> lines c' = lines c ->
  forks c' = forks c -> cells c' = cells c ->
  (forall x, NX X c x -> nst c' x = nst c x) -> (forall x, In x (lines c) -> lst c' x = lst c x) ->
  CCoreX X c'.
Proof.
  intros X c c' HC Hnnx Hlnx Hnodes Hlines Hforks Hcells Hn Hl.
  assert (HNX : forall y, NX X c' y <-> NX X c y). { intros y. unfold NX. rewrite Hnodes. tauto. }
  constructor.
  - intros y Hy. rewrite Hnnx. apply (cc_nb _ c HC). apply HNX; auto.
  - intros x Hx. rewrite Hlnx. rewrite Hlines in Hx. apply (cc_lb _ c HC); auto.
  - intros i y Hi. rewrite Hnodes in Hi. rewrite Hn. apply (cc_nidx _ c HC); auto. left. eapply nth_error_In; eauto.
  - intros i x Hi. rewrite Hlines in Hi. rewrite Hl. apply (cc_lidx _ c HC); auto. eapply nth_error_In; eauto.
  - intros x Hx. rewrite Hn by (right; auto). apply (cc_xdead _ c HC); auto.
  - rewrite Hforks. apply (cc_forks_nd _ c HC).
  - intros s m. rewrite Hforks, Hnodes. split.
    + intros H. apply (cc_forks _ c HC) in H. destruct H as [A [B C]]. unf. rewrite Hn by (left; auto). auto.
    + intros [A [B C]]. apply (cc_forks _ c HC). unf. rewrite Hn in B, C by (left; auto). auto.
  - rewrite Hcells. apply (cc_cells_nd _ c HC).
  - intros s m. rewrite Hcells, Hnodes. split.
    + intros H. apply (cc_cells _ c HC) in H. destruct H as [A [B C]]. unf. rewrite Hn by (left; auto). auto.
    + intros [A [B C]]. apply (cc_cells _ c HC). unf. rewrite Hn in B, C by (left; auto). auto.
  - intros x Hx. rewrite Hlines in Hx. rewrite Hl by auto.
    destruct (cc_line _ c HC x Hx) as [d1 [r1 [G1 [G2 [G3 [G4 [G5 G6]]]]]]].
    exists d1, r1. rewrite !HNX. unf. rewrite !Hn by auto. repeat split; auto.
  - intros y q x Hy Ho. apply HNX in Hy. unf. rewrite Hn in Ho by auto. rewrite Hlines.
    destruct (cc_outs _ c HC y q x Hy Ho) as [B1 [B2 B3]]. rewrite Hl by auto. auto.
  - intros y q x Hy Ho. apply HNX in Hy. unf. rewrite Hn in Ho by auto. rewrite Hlines.
    destruct (cc_ins _ c HC y q x Hy Ho) as [B1 [B2 B3]]. rewrite Hl by auto. auto.
Qed.

(** ** one iteration of eliminate_1to1_forks *)
Definition ElimOK (c : circ) : Prop :=
  forall m, In m (nodes c) -> is_fork (kind_of c m) = true -> in_ios c m = false -> List.length (outs_of c m) = 1 ->
  forall l tl, ins_of c m = Some l :: tl -> all_none tl = true.

Lemma in_ios_ext : forall c c' m, io c' = io c ->
  (forall x, n_name (nst c' x) = n_name (nst c x) /\ n_kind (nst c' x) = n_kind (nst c x)) -> in_ios c' m = in_ios c m.
Proof.
  intros c c' m Hio Hnk. unfold in_ios. rewrite Hio. clear Hio. induction (io c) as [|e r IH]; simpl; auto.
  rewrite IH. f_equal. destruct e as [k|]; auto. unfold node_eqb. unf.
  destruct (Hnk m) as [A B]. destruct (Hnk k) as [C D]. rewrite A, B, C, D. reflexivity.
Qed.

Lemma nth_head_only : forall (tl : list (option nat)) a b q,
  all_none tl = true -> nth q (Some a :: tl) None = Some b -> q = 0.
Proof.
  intros tl a b q Htl H. destruct q; auto. simpl in H. rewrite (proj1 (all_none_nth tl) Htl) in H. discriminate.
Qed.

Lemma elim_one_inv : forall c n, CInv c -> ElimOK c -> In n (nodes c) -> is_fork (kind_of c n) = true ->
  exists c', elim_one c n = Some c' /\ CInv c' /\ ElimOK c' /\
    (forall m, m <> n -> In m (nodes c) -> In m (nodes c') /\ kind_of c' m = kind_of c m) /\ (IoLive c -> IoLive c').
Proof.
  intros c n [HC HD] HOK Hn Hfk. unfold elim_one.
  assert (Hsame : exists c', Some c = Some c' /\ CInv c' /\ ElimOK c' /\
            (forall m, m <> n -> In m (nodes c) -> In m (nodes c') /\ kind_of c' m = kind_of c m) /\ (IoLive c -> IoLive c')).
  { exists c. split; [reflexivity|]. split; [split; auto|]. split; auto. }
  destruct (in_ios c n) eqn:Hio; auto.
  destruct (outs_of c n) as [|oo [|oo2 orest]] eqn:Ho; auto.
  (* `if len(n.ins) < 1 or n.ins[0] is None: continue`: a fork without driver is left alone *)
  destruct (ins_of c n) as [|[inl|] tl] eqn:Hins; auto.
  assert (Htl : all_none tl = true). { apply (HOK n Hn Hfk Hio) with (l := inl); auto. rewrite Ho. reflexivity. }
  assert (Hoo : exists out, oo = Some out).
  { destruct oo as [out|]. exists out; auto. exfalso. apply (HD n (or_introl Hn) Hfk 0). rewrite Ho. simpl. lia.
    unfold out_at. rewrite Ho. reflexivity. }
  destruct Hoo as [out ->]. clear Hsame.
  assert (Hout0 : out_at c n 0 = Some out) by (unfold out_at; rewrite Ho; reflexivity).
  assert (Hinl0 : in_at c n 0 = Some inl) by (unfold in_at; rewrite Hins; reflexivity).
  destruct (cc_outs [] c HC n 0 out (or_introl Hn) Hout0) as [Hout_in [Hout_d Hout_p]].
  destruct (cc_line [] c HC out Hout_in) as [d0 [R [E1 [E2 [_ [[HR|[]] [_ E6]]]]]]].
  destruct (cc_ins [] c HC n 0 inl (or_introl Hn) Hinl0) as [Hinl_in [Hinl_r Hinl_p]].
  assert (Hins_n : forall q x, in_at c n q = Some x -> x = inl).
  { intros q x Hq. unfold in_at in Hq. rewrite Hins in Hq. destruct q; simpl in Hq. congruence.
    rewrite (proj1 (all_none_nth tl) Htl) in Hq. discriminate. }
  (* step 1: n.remove() *)
  destruct (node_remove_core [] c n HC Hn) as [c1 [Hrm1 [HC1 [N1 [N2 [N3 [N4 [N5 [N6 [N7 N8]]]]]]]]]].
  rewrite Hrm1.
  assert (Ho1 : outs_of c1 n = [Some out]). { unf. destruct (N7 n) as [_ [_ [_ A]]]. rewrite A. auto. }
  assert (Hk1 : forall x, kind_of c1 x = kind_of c x). { intros x. unf. apply N7. }
  (* step 2: out_line.remove() *)
  destruct (line_remove_core [n] c1 out HC1) as [c2 [d [r [Hrm2 [Hd2 [Hr2 [HC2 [M1 [M2 [M3 [M4 [M5 [M6 [M7 [M8 [M9 [M10 [M11 M12]]]]]]]]]]]]]]]]]].
  { rewrite N3. auto. }
  { intros d' Hd Hfk' p Hp. rewrite N4 in Hd. rewrite Hout_d in Hd. injection Hd as Hd. subst d'. rewrite Ho1 in Hp. simpl in Hp.
    assert (p = 0) by lia. subst p. unfold out_at. rewrite Ho1. discriminate. }
  rewrite Hrm2. rewrite E2.
  rewrite N4 in Hd2, Hr2. rewrite Hout_d in Hd2. injection Hd2 as Hd2. subst d. rewrite E2 in Hr2. injection Hr2 as Hr2. subst r.
  assert (Hnn2 : ~ In n (nodes c2)). { rewrite M3. intros H. apply N6 in H. tauto. }
  assert (Houts2 : forall x, n_outs (nst c2 x) = if Nat.eqb x n then [] else n_outs (nst c x)).
  { intros x. rewrite M9. destruct (Nat.eqb_spec x n); auto.
    - subst. unfold outs_after_remove. rewrite Hk1, Hfk. rewrite Ho1. rewrite N4, Hout_p. reflexivity.
    - apply N7. }
  assert (Hins2 : forall x, n_ins (nst c2 x) = if Nat.eqb x R then gset (ins_of c R) (l_rpin (lst c out)) None else n_ins (nst c x)).
  { intros x. rewrite M10. rewrite N4. destruct (Nat.eqb_spec x R). unf. destruct (N7 R) as [_ [_ [A _]]]. rewrite A. auto. apply N7. }
  assert (Hnk2 : forall x, n_name (nst c2 x) = n_name (nst c x) /\ n_kind (nst c2 x) = n_kind (nst c x)).
  { intros x. destruct (M8 x) as [A [B _]]. destruct (N7 x) as [C [D _]]. rewrite A, B, C, D. auto. }
  assert (Hnodes2 : forall m, m <> n -> In m (nodes c) -> In m (nodes c2)).
  { intros m Hm Hin. rewrite M3. apply N6. auto. }
  set (p := l_rpin (lst c out)) in *.
  eexists. split; [reflexivity|].
  set (c4 := upd_node _ R _).
  assert (Hnk4 : forall x, n_name (nst c4 x) = n_name (nst c x) /\ n_kind (nst c4 x) = n_kind (nst c x)).
  { intros x. destruct (Hnk2 x) as [A B]. destruct (Hnk2 R) as [A' B']. unfold c4. unf; simpl.
    destruct (Nat.eqb_spec x R); subst; simpl; auto. }
  assert (Houts4 : forall x, n_outs (nst c4 x) = n_outs (nst c2 x)).
  { intros x. unfold c4. unf; simpl. destruct (Nat.eqb_spec x R); subst; simpl; auto. }
  assert (Hins4 : forall x, n_ins (nst c4 x) = if Nat.eqb x R then gset (n_ins (nst c2 R)) p (Some inl) else n_ins (nst c2 x)).
  { intros x. unfold c4. unf; simpl. destruct (Nat.eqb_spec x R); subst; simpl; auto. }
  assert (Hio4 : io c4 = io c). { unfold c4. simpl. rewrite M6. auto. }
  assert (Hnodes4 : nodes c4 = nodes c2) by reflexivity.
  assert (HC4 : CCoreX [] c4).
  { destruct (Nat.eq_dec inl out) as [Heq|Hneq].
    - (* the fork drives itself: everything touched afterwards is already out of the circuit *)
      subst inl. rewrite E2 in Hinl_r. inv Hinl_r.
      assert (HC2' : CCoreX [] c2).
      { apply (ccore_shrink [n] [] c2 HC2). intros y []. intros y [<-|[]]. right. split; intros q; unf.
        - rewrite Houts2. rewrite Nat.eqb_refl. destruct q; reflexivity.
        - rewrite Hins2. rewrite Nat.eqb_refl. rewrite nth_gset. destruct (Nat.eqb_spec q p); auto.
          unf. rewrite Hins. assert (Hp0 : p = 0) by (unfold p; auto). destruct q; simpl. congruence.
          apply (proj1 (all_none_nth tl) Htl). }
      apply (dead_frame [] c2 c4 HC2'); auto.
      + intros x [Hx|[]]. unfold c4. unf; simpl. destruct (Nat.eqb_spec x n); auto. subst. contradiction.
      + intros x Hx. unfold c4. unf; simpl. destruct (Nat.eqb_spec x out); auto. subst. apply M7 in Hx. tauto.
    - assert (Hrd : R <> n).
      { intros ->. apply Hneq. symmetry. apply (Hins_n (l_rpin (lst c out)) out). auto. }
      assert (Hinl2 : In inl (lines c2)). { apply M7. rewrite N3. auto. }
      destruct (M11 inl Hneq) as [L1 [L2 L3]]. rewrite N4 in L1, L2, L3.
      assert (Hrdr2 : l_rdr (lst c2 inl) = Some n) by congruence.
      assert (Hno2 : forall q, out_at c2 n q = None).
      { intros q. unf. rewrite Houts2, Nat.eqb_refl. destruct q; reflexivity. }
      assert (Hni2 : forall q x, in_at c2 n q = Some x -> x = inl).
      { intros q x Hq. unf. rewrite Hins2 in Hq. destruct (Nat.eqb_spec n R); [congruence|]. apply (Hins_n q x). auto. }
      assert (HR2 : NX [] c2 R). { left. apply Hnodes2; auto. }
      assert (Hfree2 : in_at c2 R p = None).
      { unf. rewrite Hins2, Nat.eqb_refl. rewrite nth_gset, Nat.eqb_refl. reflexivity. }
      apply (move_reader_generic [] c2 c4 n inl R p HC2 (fun H => H) Hnn2 Hinl2 Hrdr2 Hno2 Hni2 HR2 Hfree2);
        try reflexivity.
      + intros x. destruct (Hnk4 x) as [A _]. destruct (Hnk2 x) as [B _]. congruence.
      + intros x. destruct (Hnk4 x) as [_ A]. destruct (Hnk2 x) as [_ B]. congruence.
      + intros x. unfold c4. unf; simpl. destruct (Nat.eqb_spec x R); subst; simpl; auto.
      + intros x. unfold c4. unf; simpl. destruct (Nat.eqb_spec x R); subst; simpl; auto.
      + intros x. unfold c4. unf; simpl. destruct (Nat.eqb_spec x R); subst; simpl; auto.
      + intros x. unfold c4. unf; simpl. destruct (Nat.eqb_spec x R); subst; simpl; auto.
      + intros x Hx. unfold c4. unf; simpl. destruct (Nat.eqb_spec x inl); congruence.
      + unfold c4. unf; simpl. rewrite Nat.eqb_refl. reflexivity.
      + unfold c4. unf; simpl. rewrite Nat.eqb_refl. reflexivity.
      + unfold c4. unf; simpl. rewrite Nat.eqb_refl. reflexivity.
      + unfold c4. unf; simpl. rewrite Nat.eqb_refl. reflexivity.
      + unfold c4. unf; simpl. rewrite Nat.eqb_refl. reflexivity.
      + unfold c4. unf; simpl. rewrite Nat.eqb_refl. reflexivity. }
  split; [split; auto|split].
  - (* gap-free fork outputs *)
    intros m [Hm|[]] Hk q Hq. rewrite Hnodes4 in Hm.
    assert (Hmd : m <> n) by (intros ->; contradiction).
    unf. rewrite Houts4, Houts2 in *. destruct (Nat.eqb_spec m n); [congruence|].
    destruct (Hnk4 m) as [_ B]. rewrite B in Hk.
    apply (HD m); auto. left. rewrite M3 in Hm. apply N6 in Hm. tauto.
  - (* the remaining 1:1 forks still have exactly one input connection *)
    intros m Hm Hk Hio' Hlen l1 tl1 Hl1. rewrite Hnodes4 in Hm.
    assert (Hmd : m <> n) by (intros ->; contradiction).
    assert (Hmc : In m (nodes c)). { rewrite M3 in Hm. apply N6 in Hm. tauto. }
    rewrite (in_ios_ext c c4 m Hio4 Hnk4) in Hio'.
    unf. destruct (Hnk4 m) as [_ B]. rewrite B in Hk. rewrite Houts4, Houts2 in Hlen.
    destruct (Nat.eqb_spec m n); [congruence|].
    pose proof (HOK m Hmc Hk Hio' Hlen) as HOKm. unf.
    rewrite Hins4 in Hl1. destruct (Nat.eqb_spec m R).
    + subst m. rewrite Hins2 in Hl1. rewrite Nat.eqb_refl in Hl1. unf.
      (* the reader R of the removed fork is itself a 1:1 fork: its pin 0 is connected before and after *)
      assert (H0 : exists x tl0, n_ins (nst c R) = Some x :: tl0).
      { pose proof (f_equal (fun l => nth 0 l None) Hl1) as H0. cbv beta in H0. rewrite !nth_gset in H0.
        unfold in_at, ins_of in E6.
        destruct (Nat.eqb_spec 0 p) as [Hp|Hp].
        - rewrite <- Hp in E6. destruct (n_ins (nst c R)) as [|[x|] tl0]; simpl in E6; try discriminate. eauto.
        - destruct (n_ins (nst c R)) as [|[x|] tl0]; simpl in H0; try discriminate. eauto. }
      destruct H0 as [x [tl0 Hl0]].
      pose proof (HOKm x tl0 Hl0) as Htl0.
      assert (Hp0 : p = 0).
      { unfold in_at, ins_of in E6. rewrite Hl0 in E6. apply (nth_head_only tl0 x out p Htl0 E6). }
      rewrite Hl0, Hp0 in Hl1. simpl in Hl1. injection Hl1 as _ <-. exact Htl0.
    + rewrite Hins2 in Hl1. destruct (Nat.eqb_spec m R); [congruence|]. apply (HOKm l1 tl1). exact Hl1.
  - split.
    + intros m Hm Hin. split. rewrite Hnodes4. apply Hnodes2; auto. unf. apply Hnk4.
    + intros HL e He. rewrite Hio4 in He. destruct (HL e He) as [m [-> Hm]]. exists m. split; auto.
      rewrite Hnodes4. apply Hnodes2; auto. intros ->.
      assert (in_ios c n = true); [|congruence].
      unfold in_ios. apply existsb_exists. exists (Some n). split; auto.
      unfold node_eqb. rewrite !String.eqb_refl. reflexivity.
Qed.

Lemma elim_fold_inv : forall rest c, CInv c -> ElimOK c -> NoDup rest ->
  (forall m, In m rest -> In m (nodes c) /\ is_fork (kind_of c m) = true) ->
  exists c', fold_opt elim_one rest c = Some c' /\ CInv c' /\ (IoLive c -> IoLive c').
Proof.
  induction rest as [|n rest IH]; intros c HI HOK Hnd Hall; simpl.
  - exists c. auto.
  - inv Hnd. destruct (Hall n (or_introl eq_refl)) as [Hn Hfk].
    destruct (elim_one_inv c n HI HOK Hn Hfk) as [c1 [Hc1 [HI1 [HOK1 [Hkeep Hio1]]]]].
    rewrite Hc1. destruct (IH c1 HI1 HOK1) as [c' [A [B C]]]; auto.
    + intros m Hm. destruct (Hall m (or_intror Hm)) as [A B].
      assert (Hmn : m <> n) by (intros ->; auto).
      destruct (Hkeep m Hmn A) as [C D]. rewrite D. auto.
    + exists c'. auto.
Qed.

Lemma dict_values_nodup : forall (d : list (string * nat)) (name : nat -> string),
  NoDup (map fst d) -> (forall s m, In (s, m) d -> name m = s) -> NoDup (map snd d).
Proof.
  induction d as [|[k v] r IH]; intros name Hnd Hname; simpl. constructor.
  inv Hnd. constructor.
  - intros Hin. apply in_map_iff in Hin. destruct Hin as [[k' v'] [E Hin]]. simpl in E. subst v'.
    assert (name v = k') by (apply Hname; right; auto).
    assert (name v = k) by (apply Hname; left; auto).
    match goal with Hk : ~ In k (map fst r) |- _ => apply Hk end.
    apply in_map_iff. exists (k', v). split; auto. simpl. congruence.
  - apply (IH name); auto. intros s m H. apply Hname. right; auto.
Qed.

Theorem eliminate_inv : forall c, CInv c -> elim_ok_b c = true ->
  exists c', eliminate_1to1 c = Some c' /\ CInv c' /\ (IoLive c -> IoLive c').
Proof.
  intros c HI Hok. pose proof HI as [HC HD]. unfold eliminate_1to1.
  assert (Hvals : forall m, In m (map snd (forks c)) -> In m (nodes c) /\ is_fork (kind_of c m) = true).
  { intros m Hm. apply in_map_iff in Hm. destruct Hm as [[s m'] [E Hin]]. simpl in E. subst m'.
    apply (cc_forks [] c HC) in Hin. tauto. }
  apply elim_fold_inv; auto.
  - intros m Hm Hfk Hio Hlen.
    unfold elim_ok_b in Hok. rewrite forallb_forall in Hok.
    assert (Hin : In m (map snd (forks c))).
    { apply in_map_iff. exists (name_of c m, m). split; auto. apply (cc_forks [] c HC). auto. }
    specialize (Hok m Hin). rewrite Hio, Hlen in Hok. simpl in Hok.
    intros l tl Hl. rewrite Hl in Hok. exact Hok.
  - apply (dict_values_nodup (forks c) (name_of c)). apply (cc_forks_nd [] c HC).
    intros s m H. apply (cc_forks [] c HC) in H. tauto.
Qed.
