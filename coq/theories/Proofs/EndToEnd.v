(** End-to-end: the memory map published by [build] (default options: no reuse, no fork stripping).
    E1 [build_map_check]   the map passes the ownership certificate [map_check].
       CORRECTED statement: the one originally proposed (without [reads_defined]) is FALSE, see
       [CounterE1.build_map_check_as_proposed_false] (a gate of unknown kind yields no op, the line it drives gets no
       chunk, a gate reading it fails [readable]).  Added hypothesis: [reads_defined c] (every line read by an op is
       written by an op); it is also necessary ([reads_defined_necessary]) and follows from the side conditions of
       [solution_unique] ([gates_known], [gates_known_reads_defined], [build_map_check_gates]).
    E2 [end_to_end]        exactly as proposed (no extra hypothesis): flat-memory execution through the published map
       delivers at every observed PPO slot the line-level value of the line feeding the s_node.  Proved by running the
       ownership simulation directly on the two semantics ([sim_run]) since the certificate may fail;
       [end_to_end_via_cert] is the route through E1 + [map_check_sound]; [end_to_end_solution] reads the result
       against any [solution] of the netlist equations under [gates_known].
    [build_total]          [build] returns [Some _] when the capacity vector covers the line indices.
    [build_spec]           the characterisation of the published map the proofs rest on. *)
From Coq Require Import List NArith ZArith Bool Arith Lia String.
From KV Require Import Model.Prims Model.Netlist Model.NetlistWf Model.Heap Model.HeapInv Model.SimOps Model.AllocCheck Model.SimOpsCert
     Model.NetlistSem Gen.SimTables Proofs.HeapProofs Proofs.AllocProofs Proofs.TopoProofs Proofs.SemProofs Proofs.SemCompose.
Import List.
Import ListNotations.
Local Open Scope list_scope.

(* ------------------------------------------------------------------------------------------------ *)
(** * Part A: a sufficient condition for [map_check], independent of [build] *)

Definition opnds (o : sop) : list nat := [s_i0 o; s_i1 o; s_i2 o; s_i3 o].

Section Intro.
  Variable loc : nat -> option nat.
  Variable alias : nat -> nat.
  Variable Dom : nat -> Prop.
  Hypothesis inj : forall x y l, Dom x -> Dom y -> loc x = Some l -> loc y = Some l -> x = y.

  (** x is readable as itself *)
  Definition R (w : owner_map) (x : nat) : Prop := exists l, loc x = Some l /\ oget w l = Some x.
  Definition wfw (w : owner_map) : Prop := forall l y, oget w l = Some y -> Dom y /\ loc y = Some l.

  Let init_step := fun (acc : option owner_map) (x : nat) =>
    match acc, loc x with
    | Some w, Some l => match oget w l with None => Some (oset w l x) | Some _ => None end
    | _, _ => None
    end.

  Lemma own_init_gen : forall ini w,
    NoDup ini -> (forall x, In x ini -> Dom x /\ loc x <> None) ->
    wfw w -> (forall l y, oget w l = Some y -> ~ In y ini) ->
    exists w', fold_left init_step ini (Some w) = Some w' /\ wfw w' /\
               (forall x, R w x -> R w' x) /\ (forall x, In x ini -> R w' x).
  Proof.
    induction ini as [|a r IH]; intros w Hnd Hin Hw Hfresh.
    - exists w. split; [reflexivity|]. split; [exact Hw|]. split; [auto|]. intros x [].
    - inversion Hnd as [|? ? Ha Hnd']; subst.
      destruct (Hin a (or_introl eq_refl)) as [Da La].
      destruct (loc a) as [la|] eqn:Ela; [|congruence].
      assert (Eg : oget w la = None).
      { destruct (oget w la) as [y|] eqn:Eg; [|reflexivity]. exfalso.
        destruct (Hw _ _ Eg) as [Dy Ly]. pose proof (Hfresh _ _ Eg) as Hy.
        assert (a = y) by (apply (inj a y la); auto). subst y. apply Hy. left. reflexivity. }
      cbn [fold_left]. unfold init_step at 2. rewrite Ela, Eg.
      destruct (IH (oset w la a)) as (w' & Hf & Hw' & Hold & Hnew).
      + exact Hnd'.
      + intros x Hx. apply Hin. right. exact Hx.
      + intros l y Hg. rewrite oget_oset in Hg. destruct (Nat.eqb l la) eqn:El.
        * apply Nat.eqb_eq in El. injection Hg as <-. subst l. auto.
        * apply Hw. exact Hg.
      + intros l y Hg. rewrite oget_oset in Hg. destruct (Nat.eqb l la) eqn:El.
        * injection Hg as <-. exact Ha.
        * intros Hy. apply (Hfresh _ _ Hg). right. exact Hy.
      + exists w'. split; [exact Hf|]. split; [exact Hw'|]. split.
        * intros x (l & Lx & Gx). apply Hold. exists l. split; [exact Lx|].
          rewrite oget_oset. destruct (Nat.eqb l la) eqn:El; [|exact Gx].
          apply Nat.eqb_eq in El. subst l. congruence.
        * intros x [<-|Hx]; [|apply Hnew; exact Hx]. apply Hold. exists la. split; [exact Ela|].
          rewrite oget_oset, Nat.eqb_refl. reflexivity.
  Qed.

  Lemma R_readable w x : alias x = x -> R w x -> readable loc alias w x && alias_ok loc alias x = true.
  Proof.
    intros Ea (l & Lx & Gx). unfold readable, alias_ok. rewrite Ea, Lx, Gx, !Nat.eqb_refl. reflexivity.
  Qed.

  Lemma own_run_gen : forall ops w (W : nat -> Prop),
    wfw w -> (forall x, W x -> R w x) ->
    (forall o, In o ops -> Dom (s_out o) /\ alias (s_out o) = s_out o /\ loc (s_out o) <> None) ->
    (forall o x, In o ops -> In x (opnds o) -> alias x = x) ->
    (forall pre o post, ops = pre ++ o :: post -> forall x, In x (opnds o) -> W x \/ In x (map s_out pre)) ->
    exists w', own_run loc alias w ops = Some w' /\ wfw w' /\
               (forall x, R w x -> R w' x) /\ (forall o, In o ops -> R w' (s_out o)).
  Proof.
    induction ops as [|o r IH]; intros w W Hw HW Hout Hal Hdbu.
    - exists w. split; [reflexivity|]. split; [exact Hw|]. split; [auto|]. intros o [].
    - destruct (Hout o (or_introl eq_refl)) as (Do & Ao & Lo).
      destruct (loc (s_out o)) as [lo|] eqn:Elo; [|congruence].
      assert (Hrd : forall x, In x (opnds o) -> readable loc alias w x && alias_ok loc alias x = true).
      { intros x Hx. apply R_readable; [apply (Hal o x); [left; reflexivity|exact Hx]|].
        destruct (Hdbu [] o r eq_refl x Hx) as [H|[]]. apply HW. exact H. }
      assert (Hstep : forall x, R w x -> R (oset w lo (s_out o)) x).
      { intros x (l & Lx & Gx). exists l. split; [exact Lx|]. rewrite oget_oset.
        destruct (Nat.eqb l lo) eqn:El; [|exact Gx]. apply Nat.eqb_eq in El. subst l.
        destruct (Hw _ _ Gx) as [Dx _]. f_equal. apply (inj _ _ lo); auto. }
      destruct (IH (oset w lo (s_out o)) (fun x => W x \/ x = s_out o)) as (w' & Hf & Hw' & Hold & Hnew).
      + intros l y Hg. rewrite oget_oset in Hg. destruct (Nat.eqb l lo) eqn:El.
        * apply Nat.eqb_eq in El. injection Hg as <-. subst l. auto.
        * apply Hw. exact Hg.
      + intros x [Hx| ->]; [apply Hstep, HW, Hx|]. exists lo. split; [exact Elo|].
        rewrite oget_oset, Nat.eqb_refl. reflexivity.
      + intros o' Ho'. apply Hout. right. exact Ho'.
      + intros o' x Ho'. apply Hal. right. exact Ho'.
      + intros pre o' post E x Hx. destruct (Hdbu (o :: pre) o' post) with (x := x) as [H|H].
        * rewrite E. reflexivity.
        * exact Hx.
        * left. left. exact H.
        * cbn [map] in H. destruct H as [<-|H]; [left; right; reflexivity|right; exact H].
      + exists w'. split.
        * cbn [own_run]. fold (opnds o).
          assert (Ef : forallb (fun x => readable loc alias w x && alias_ok loc alias x) (opnds o) = true)
            by (apply forallb_forall; exact Hrd).
          rewrite Ef, Ao, Nat.eqb_refl, Elo. exact Hf.
        * split; [exact Hw'|]. split.
          -- intros x Hx. apply Hold, Hstep, Hx.
          -- intros o' [<-|Ho']; [|apply Hnew; exact Ho']. apply Hold. exists lo. split; [exact Elo|].
             rewrite oget_oset, Nat.eqb_refl. reflexivity.
  Qed.

  Theorem map_check_intro init final ops :
    NoDup init ->
    (forall x, In x init -> Dom x /\ alias x = x /\ loc x <> None) ->
    (forall o, In o ops -> Dom (s_out o) /\ alias (s_out o) = s_out o /\ loc (s_out o) <> None) ->
    (forall o x, In o ops -> In x (opnds o) -> alias x = x) ->
    (forall pre o post, ops = pre ++ o :: post -> forall x, In x (opnds o) -> In x init \/ In x (map s_out pre)) ->
    (forall p, In p final -> exists l, loc p = Some l /\ loc (alias p) = Some l /\
                                       (In (alias p) init \/ In (alias p) (map s_out ops))) ->
    map_check loc alias init final ops = true.
  Proof.
    intros Hnd Hini Hout Hal Hdbu Hfin. unfold map_check. apply andb_true_iff. split.
    - apply forallb_forall. intros x Hx. apply Nat.eqb_eq. apply (Hini x Hx).
    - destruct (own_init_gen init [] Hnd) as (w0 & Hf & Hw0 & _ & Hnew0).
      + intros x Hx. destruct (Hini x Hx) as (A & _ & B). auto.
      + intros l y Hg. discriminate.
      + intros l y Hg. discriminate.
      + assert (E0 : own_init loc init = Some w0) by exact Hf. rewrite E0.
        destruct (own_run_gen ops w0 (fun x => In x init) Hw0 Hnew0 Hout Hal Hdbu) as (w & Hr & Hw & Hold & Hnew).
        rewrite Hr. apply forallb_forall. intros p Hp.
        destruct (Hfin p Hp) as (l & Lp & La & Hsrc).
        assert (Rq : R w (alias p)).
        { destruct Hsrc as [H|H]; [apply Hold, Hnew0, H|].
          apply in_map_iff in H. destruct H as (o & <- & Ho). apply Hnew. exact Ho. }
        destruct Rq as (l' & Lq & Gq). rewrite La in Lq. injection Lq as <-.
        unfold readable, alias_ok. rewrite Lp, La, Gq, !Nat.eqb_refl. reflexivity.
  Qed.
End Intro.

(** ** the same simulation argument run directly on the two semantics, tolerating operands without location whose
    line-level value is the default (needed for E2 on netlists whose map does NOT pass the certificate) *)
Section Sim.
  Context {V : Type} (sem : N -> V -> V -> V -> V -> V) (dflt : V).
  Variable loc : nat -> option nat.
  Variable Dom : nat -> Prop.
  Hypothesis inj : forall x y l, Dom x -> Dom y -> loc x = Some l -> loc y = Some l -> x = y.

  Definition SimInv (W : nat -> Prop) (m : @fmem V) (e : @ienv V) : Prop :=
    forall x l, W x -> loc x = Some l -> m l = e x.

  Lemma sim_run : forall ops (W : nat -> Prop) m e,
    (forall x, W x -> Dom x /\ loc x <> None) -> SimInv W m e ->
    (forall o, In o ops -> Dom (s_out o) /\ loc (s_out o) <> None) ->
    (forall pre o post, ops = pre ++ o :: post -> forall x, In x (opnds o) ->
       (W x \/ In x (map s_out pre)) \/ (loc x = None /\ ~ In x (map s_out pre) /\ e x = dflt)) ->
    SimInv (fun x => W x \/ In x (map s_out ops)) (mexec sem dflt loc ops m) (iexec sem (fun x => x) ops e).
  Proof.
    induction ops as [|o r IH]; intros W m e HW HI Hout Hdbu.
    - intros x l [Hx|[]]. apply HI. exact Hx.
    - destruct (Hout o (or_introl eq_refl)) as (Do & Lo).
      destruct (loc (s_out o)) as [lo|] eqn:Elo; [|congruence].
      assert (Hrd : forall x, In x (opnds o) -> mread dflt loc m x = e x).
      { intros x Hx. unfold mread. destruct (Hdbu [] o r eq_refl x Hx) as [[H|[]]|(H1 & _ & H3)].
        - destruct (HW x H) as [_ Lx]. destruct (loc x) as [l|] eqn:El; [|congruence]. apply HI; assumption.
        - rewrite H1. symmetry. exact H3. }
      unfold mexec, iexec. cbn [fold_left].
      set (val := sem (s_lut o) (e (s_i0 o)) (e (s_i1 o)) (e (s_i2 o)) (e (s_i3 o))).
      assert (Em : mstep sem dflt loc m o = fupd m lo val).
      { unfold mstep. rewrite Elo. unfold val.
        rewrite (Hrd (s_i0 o)), (Hrd (s_i1 o)), (Hrd (s_i2 o)), (Hrd (s_i3 o)) by (unfold opnds; cbn [In]; tauto).
        reflexivity. }
      assert (Ee : istep sem (fun x => x) e o = iupd e (s_out o) val) by reflexivity.
      rewrite Em, Ee.
      assert (S1 : SimInv (fun x => W x \/ x = s_out o) (fupd m lo val) (iupd e (s_out o) val)).
      { intros x l Hx Lx. unfold fupd, iupd. destruct (Nat.eqb x (s_out o)) eqn:Ex.
        - apply Nat.eqb_eq in Ex. subst x. rewrite Elo in Lx. injection Lx as <-. rewrite Nat.eqb_refl. reflexivity.
        - apply Nat.eqb_neq in Ex. destruct Hx as [Hx|Hx]; [|congruence].
          destruct (Nat.eqb l lo) eqn:El.
          + apply Nat.eqb_eq in El. subst l. exfalso. apply Ex. apply (inj x (s_out o) lo); auto. apply HW. exact Hx.
          + apply HI; assumption. }
      specialize (IH (fun x => W x \/ x = s_out o) (fupd m lo val) (iupd e (s_out o) val)).
      assert (IH' : SimInv (fun x => (W x \/ x = s_out o) \/ In x (map s_out r))
                           (fold_left (mstep sem dflt loc) r (fupd m lo val))
                           (fold_left (istep sem (fun x => x)) r (iupd e (s_out o) val))).
      { apply IH.
        - intros x [Hx| ->]; [apply HW; exact Hx|]. split; [exact Do|congruence].
        - exact S1.
        - intros o' Ho'. apply Hout. right. exact Ho'.
        - intros pre o' post E x Hx. destruct (Hdbu (o :: pre) o' post) with (x := x) as [[H|H]|(H1 & H2 & H3)].
          + rewrite E. reflexivity.
          + exact Hx.
          + left. left. left. exact H.
          + cbn [map] in H. destruct H as [<-|H]; [left; left; right; reflexivity|left; right; exact H].
          + right. split; [exact H1|]. cbn [map] in H2. split; [intros H; apply H2; right; exact H|].
            unfold iupd. destruct (Nat.eqb x (s_out o)) eqn:Ex; [|exact H3].
            apply Nat.eqb_eq in Ex. exfalso. apply H2. left. symmetry. exact Ex. }
      intros x l Hx Lx. apply IH'; [|exact Lx]. cbn [map] in Hx.
      destruct Hx as [Hx|[Hx|Hx]]; [left; left; exact Hx|left; right; symmetry; exact Hx|right; exact Hx].
  Qed.
End Sim.

(* ------------------------------------------------------------------------------------------------ *)
(** * Part B: allocation without reuse: the heap only grows, locations are pairwise distinct *)

Lemma setZ_oob l : forall i v, length l <= i -> setZ l i v = l.
Proof. induction l as [|x r IH]; intros [|i] v H; simpl in *; try lia; auto. f_equal. apply IH. lia. Qed.

Lemma nth_setZ l i j v d :
  nth j (setZ l i v) d = if Nat.eqb j i && Nat.ltb i (length l) then v else nth j l d.
Proof.
  destruct (Nat.eqb j i) eqn:E; cbn [andb].
  - apply Nat.eqb_eq in E. subst j. destruct (Nat.ltb i (length l)) eqn:F.
    + apply Nat.ltb_lt in F. apply nth_setZ_eq. exact F.
    + apply Nat.ltb_ge in F. rewrite setZ_oob by exact F. reflexivity.
  - apply Nat.eqb_neq in E. apply nth_setZ_neq. exact E.
Qed.

Lemma setN_length l : forall i v, length (setN l i v) = length l.
Proof. induction l as [|x r IH]; intros [|i] v; simpl; auto. Qed.

Definition allocd (locs : list Z) (x : nat) : Prop := (0 <= nth x locs (-1))%Z.

Definition AInv (p : heap * list Z) : Prop :=
  released (fst p) = [] /\
  (forall i, allocd (snd p) i -> (nth i (snd p) (-1) < Z.of_N (cur (fst p)))%Z) /\
  (forall i j, allocd (snd p) i -> nth i (snd p) (-1)%Z = nth j (snd p) (-1)%Z -> i = j).

Definition hl (st : alloc_state) : heap * list Z := (a_heap st, a_locs st).
Definition hl_alloc (p : heap * list Z) (idx : nat) (cap : N) : heap * list Z :=
  let '(loc, h') := alloc (fst p) cap in (h', setZ (snd p) idx (Z.of_N loc)).

Lemma hl_alloc_slot cmin st idx cap : hl (alloc_slot cmin st idx cap) = hl_alloc (hl st) idx cap.
Proof. unfold alloc_slot, hl_alloc, hl. cbn [fst snd]. destruct (alloc (a_heap st) cap). reflexivity. Qed.

Lemma ok_alloc_slot cmin st idx cap : a_ok (alloc_slot cmin st idx cap) = a_ok st.
Proof. unfold alloc_slot. destruct (alloc (a_heap st) cap). reflexivity. Qed.

Lemma hl_alloc_norel p idx cap : released (fst p) = [] ->
  hl_alloc p idx cap =
  ({| chunks := insert (cur (fst p)) cap (chunks (fst p)); released := []; cur := cur (fst p) + cap;
      mx := N.max (mx (fst p)) (cur (fst p) + cap) |}, setZ (snd p) idx (Z.of_N (cur (fst p)))).
Proof. intros H. unfold hl_alloc, alloc. rewrite H. cbn. reflexivity. Qed.

Lemma hl_alloc_snd p idx cap : exists loc, snd (hl_alloc p idx cap) = setZ (snd p) idx (Z.of_N loc).
Proof. unfold hl_alloc. destruct (alloc (fst p) cap) as [loc h']. exists loc. reflexivity. Qed.

Lemma hl_alloc_new p idx cap : idx < length (snd p) -> allocd (snd (hl_alloc p idx cap)) idx.
Proof.
  intros H. destruct (hl_alloc_snd p idx cap) as [loc ->]. unfold allocd.
  rewrite nth_setZ_eq by exact H. lia.
Qed.

Section Grow.
  Variable S : nat -> Prop.
  Definition Grow (p p' : heap * list Z) : Prop :=
    length (snd p') = length (snd p) /\ (AInv p -> AInv p') /\
    (forall x, allocd (snd p) x -> allocd (snd p') x) /\
    (forall x, allocd (snd p') x -> allocd (snd p) x \/ S x).
  Definition HLStep (p p' : heap * list Z) : Prop :=
    p' = p \/ exists idx cap, (0 < cap)%N /\ S idx /\ p' = hl_alloc p idx cap.

  Lemma Grow_refl p : Grow p p.
  Proof. split; [reflexivity|]. split; [auto|]. split; auto. Qed.

  Lemma Grow_trans p q r : Grow p q -> Grow q r -> Grow p r.
  Proof.
    intros (L1 & I1 & M1 & O1) (L2 & I2 & M2 & O2). split; [congruence|]. split; [auto|]. split; [auto|].
    intros x Hx. destruct (O2 x Hx) as [H|H]; [|right; exact H]. apply O1. exact H.
  Qed.

  Lemma hl_alloc_Grow p idx cap : (0 < cap)%N -> S idx -> Grow p (hl_alloc p idx cap).
  Proof.
    intros Hc Hs. split; [|split; [|split]].
    - destruct (hl_alloc_snd p idx cap) as [loc ->]. apply setZ_length.
    - intros (Hr & Hb & Hi). rewrite hl_alloc_norel by exact Hr. unfold AInv, allocd in *. cbn [fst snd cur released].
      split; [reflexivity|]. split.
      + intros i. rewrite nth_setZ. destruct (Nat.eqb i idx && Nat.ltb idx (length (snd p))).
        * lia.
        * intros H. specialize (Hb i H). lia.
      + intros i j. rewrite !nth_setZ.
        destruct (Nat.eqb i idx && Nat.ltb idx (length (snd p))) eqn:Ei;
        destruct (Nat.eqb j idx && Nat.ltb idx (length (snd p))) eqn:Ej.
        * apply andb_true_iff in Ei, Ej. destruct Ei as [Ei _], Ej as [Ej _].
          apply Nat.eqb_eq in Ei, Ej. congruence.
        * intros _ E. exfalso. assert (H : (0 <= nth j (snd p) (-1))%Z) by lia. specialize (Hb j H). lia.
        * intros H E. exfalso. specialize (Hb i H). lia.
        * apply Hi.
    - intros x. destruct (hl_alloc_snd p idx cap) as [loc ->]. unfold allocd. rewrite nth_setZ.
      destruct (Nat.eqb x idx && Nat.ltb idx (length (snd p))); lia.
    - intros x. destruct (hl_alloc_snd p idx cap) as [loc ->]. unfold allocd. rewrite nth_setZ.
      destruct (Nat.eqb x idx && Nat.ltb idx (length (snd p))) eqn:E; [|auto].
      apply andb_true_iff in E. destruct E as [E _]. apply Nat.eqb_eq in E. subst x. auto.
  Qed.

  Lemma HLStep_Grow p p' : HLStep p p' -> Grow p p'.
  Proof. intros [->|(idx & cap & Hc & Hs & ->)]; [apply Grow_refl|apply hl_alloc_Grow; assumption]. Qed.

  Lemma fold_Grow {A} (f : alloc_state -> A -> alloc_state) : forall l,
    (forall st a, In a l -> HLStep (hl st) (hl (f st a))) ->
    forall st, Grow (hl st) (hl (fold_left f l st)).
  Proof.
    induction l as [|a r IH]; intros H st; [apply Grow_refl|]. cbn [fold_left].
    eapply Grow_trans; [apply HLStep_Grow, H; left; reflexivity|].
    apply IH. intros st' a' Ha'. apply H. right. exact Ha'.
  Qed.
End Grow.

(* ------------------------------------------------------------------------------------------------ *)
(** * Part C: the stages of [build] named *)

Definition pinref (st : alloc_state) (k : nat) : alloc_state :=
  {| a_heap := a_heap st; a_locs := a_locs st; a_caps := a_caps st; a_ref := addZ (a_ref st) k 1; a_ok := a_ok st |}.

Definition iface_step (c : netlist) (cmin : N) (stems : list Z) (ppi : nat) (st : alloc_state) (ip : nat * nat)
  : alloc_state :=
  let '(i, n) := ip in
  let nd := get_node c n in
  let sta := if Nat.ltb 0 (length (n_outs nd)) then pinref (alloc_slot cmin st (ppi + i) cmin) (ppi + i) else st in
  match n_ins nd with
  | [] => sta
  | Some l0 :: _ => pinref sta (stemmed stems l0)
  | None :: _ => sta
  end.

Definition stem_copy (stems : list Z) (lc : list Z * list N) (i : nat) : list Z * list N :=
  let s := nth i stems (-1)%Z in
  if (0 <=? s)%Z then (setZ (fst lc) i (nth (Z.to_nat s) (fst lc) (-1)%Z),
                       setN (snd lc) i (nth (Z.to_nat s) (snd lc) 0%N))
  else lc.

Definition ppo_step (c : netlist) (ppo : nat) (lc : list Z * list N * bool) (ip : nat * nat) : list Z * list N * bool :=
  let '(i, n) := ip in
  match n_ins (get_node c n) with
  | [] => lc
  | Some l0 :: _ => (setZ (fst (fst lc)) (ppo + i) (nth l0 (fst (fst lc)) (-1)%Z),
                     setN (snd (fst lc)) (ppo + i) (nth l0 (snd (fst lc)) 0%N), snd lc)
  | None :: _ => lc
  end.

Lemma in_combine_seq {A} (d : A) : forall l s i n, In (i, n) (combine (seq s (length l)) l) ->
  s <= i < s + length l /\ nth (i - s) l d = n.
Proof.
  induction l as [|a r IH]; intros s i n H; [destruct H|].
  cbn [length seq combine] in H. destruct H as [H|H].
  - injection H as <- <-. rewrite Nat.sub_diag. cbn. split; [lia|reflexivity].
  - apply IH in H. destruct H as [H1 H2]. split; [cbn [length]; lia|].
    replace (i - s) with (S (i - S s)) by lia. exact H2.
Qed.

Lemma combine_seq_in {A} (d : A) : forall l s p, p < length l ->
  In (s + p, nth p l d) (combine (seq s (length l)) l).
Proof.
  induction l as [|a r IH]; intros s p H; [cbn in H; lia|].
  cbn [length seq combine]. destruct p as [|p].
  - left. rewrite Nat.add_0_r. reflexivity.
  - right. replace (s + S p) with (S s + p) by lia. apply IH. cbn in H. lia.
Qed.

Lemma last_pos_nth x d : forall l i acc p, last_pos x l i acc = Some p ->
  acc = Some p \/ (i <= p /\ p < i + length l /\ nth (p - i) l d = x).
Proof.
  induction l as [|y r IH]; intros i acc p H; simpl in H; [auto|].
  apply IH in H. destruct H as [H|(H1 & H2 & H3)].
  - destruct (Nat.eqb x y) eqn:E; [|auto]. injection H as <-. right. apply Nat.eqb_eq in E.
    rewrite Nat.sub_diag. cbn. split; [lia|]. split; [lia|auto].
  - right. split; [lia|]. split; [cbn [length]; lia|]. replace (p - i) with (S (p - S i)) by lia. exact H3.
Qed.

Lemma NoDup_map_add a : forall s n, NoDup (map (fun i => a + i) (seq s n)).
Proof.
  intros s n. revert s. induction n as [|n IH]; intros s; cbn [seq map]; constructor; [|apply IH].
  intros H. apply in_map_iff in H. destruct H as (j & E & Hj). apply in_seq in Hj. lia.
Qed.

Lemma concat_split_levels : forall starts ops pos, starts <> [] -> concat (split_levels starts ops pos) = ops.
Proof.
  induction starts as [|p rest IH]; intros ops pos H; [congruence|].
  destruct rest as [|s rest'].
  - cbn [split_levels concat]. rewrite app_nil_r. apply firstn_all2. lia.
  - change (split_levels (p :: s :: rest') ops pos)
      with (firstn (s - pos) ops :: split_levels (s :: rest') (skipn (s - pos) ops) s).
    cbn [concat]. rewrite IH by discriminate. apply firstn_skipn.
Qed.

Definition opA (tmp : nat) (stems : list Z) (caps : list N) (cmin : N) (st : alloc_state) (o : sop) : alloc_state :=
  fst (op_alloc tmp stems caps cmin (st, []) o).

Lemma op_alloc_fst tmp stems caps cmin st fs o :
  fst (op_alloc tmp stems caps cmin (st, fs) o) = opA tmp stems caps cmin st o.
Proof.
  unfold opA, op_alloc. cbv zeta. destruct (Nat.eqb (s_out o) tmp); [reflexivity|].
  destruct (nth_error caps (s_out o)); reflexivity.
Qed.

Lemma fold_op_alloc_fst tmp stems caps cmin : forall lv st fs,
  fst (fold_left (op_alloc tmp stems caps cmin) lv (st, fs)) = fold_left (opA tmp stems caps cmin) lv st.
Proof.
  induction lv as [|o r IH]; intros st fs; [reflexivity|]. cbn [fold_left].
  destruct (op_alloc tmp stems caps cmin (st, fs) o) as [st1 fs1] eqn:E.
  rewrite IH. f_equal. rewrite <- (op_alloc_fst tmp stems caps cmin st fs o), E. reflexivity.
Qed.

Lemma level_alloc_false tmp stems caps cmin st lv :
  level_alloc tmp stems caps cmin false st lv = fold_left (opA tmp stems caps cmin) lv st.
Proof.
  unfold level_alloc. rewrite <- (fold_op_alloc_fst tmp stems caps cmin lv st []).
  destruct (fold_left (op_alloc tmp stems caps cmin) lv (st, [])). reflexivity.
Qed.

Lemma fold_level_alloc_false tmp stems caps cmin : forall lvs st,
  fold_left (level_alloc tmp stems caps cmin false) lvs st = fold_left (opA tmp stems caps cmin) (concat lvs) st.
Proof.
  induction lvs as [|lv r IH]; intros st; [reflexivity|]. cbn [fold_left concat].
  rewrite fold_left_app, IH, level_alloc_false. reflexivity.
Qed.

Lemma opA_spec tmp stems caps cmin st o :
  (s_out o = tmp /\ hl (opA tmp stems caps cmin st o) = hl st /\ a_ok (opA tmp stems caps cmin st o) = a_ok st) \/
  (s_out o <> tmp /\ nth_error caps (s_out o) = None /\ hl (opA tmp stems caps cmin st o) = hl st /\
   a_ok (opA tmp stems caps cmin st o) = false) \/
  (s_out o <> tmp /\ exists cp, nth_error caps (s_out o) = Some cp /\
   hl (opA tmp stems caps cmin st o) = hl_alloc (hl st) (s_out o) (N.max cmin cp) /\
   a_ok (opA tmp stems caps cmin st o) = a_ok st).
Proof.
  unfold opA, op_alloc. cbv zeta. destruct (Nat.eqb (s_out o) tmp) eqn:E.
  - left. apply Nat.eqb_eq in E. auto.
  - right. apply Nat.eqb_neq in E. destruct (nth_error caps (s_out o)) as [cp|] eqn:F.
    + right. split; [exact E|]. exists cp. split; [reflexivity|]. cbn [fst].
      rewrite hl_alloc_slot, ok_alloc_slot. auto.
    + left. auto.
Qed.

(** every line read by an op is written by an op (fails e.g. when a gate of unknown kind drives a read line) *)
Definition reads_defined (c : netlist) : Prop :=
  forall o x, In o (build_ops c false) -> In x (opnds o) -> x < length (c_lines c) ->
    In x (map s_out (build_ops c false)).

Lemma ppo_step_eq c ppo L C b i n :
  ppo_step c ppo (L, C, b) (i, n) =
  match n_ins (get_node c n) with
  | [] => (L, C, b)
  | Some l0 :: _ => (setZ L (ppo + i) (nth l0 L (-1)%Z), setN C (ppo + i) (nth l0 C 0%N), b)
  | None :: _ => (L, C, b)
  end.
Proof. reflexivity. Qed.

Section Build.
  Variable c : netlist.
  Variable caps : list N.
  Variable cmin : N.
  Notation nl := (length (c_lines c)).
  Notation NN := (length (c_nodes c)).
  Notation sn := (s_nodes c).
  Notation slen := (length (s_nodes c)).
  Notation ppi := (nl + 3).
  Notation ppo := (nl + 3 + slen).
  Notation len := (nl + 3 + slen + slen).
  Notation ops := (build_ops c false).
  Notation stems := (repeat (-1)%Z len).

  Definition ls0 := levelize stems ops len.
  Definition starts0 := rev (ls_starts ls0).
  Definition st0 : alloc_state :=
    {| a_heap := hinit; a_locs := repeat (-1)%Z len; a_caps := repeat 0%N len; a_ref := ls_ref ls0; a_ok := true |}.
  Definition st3 : alloc_state :=
    alloc_slot cmin (alloc_slot cmin (alloc_slot cmin st0 nl cmin) (nl + 1) cmin) (nl + 2) cmin.
  Definition st4 : alloc_state := pinref (pinref (pinref st3 nl) (nl + 1)) (nl + 2).
  Definition st5 : alloc_state := fold_left (iface_step c cmin stems ppi) (combine (seq 0 slen) sn) st4.
  Definition st6 : alloc_state :=
    fold_left (level_alloc (nl + 1) stems caps cmin false) (split_levels starts0 ops 0) st5.

  Lemma build_eq : build c caps cmin false false =
    let '(locs7, caps7) := fold_left (stem_copy stems) (seq 0 len) (a_locs st6, a_caps st6) in
    let '(locs8, caps8, ok8) := fold_left (ppo_step c ppo) (combine (seq 0 slen) sn) (locs7, caps7, true) in
    if a_ok st6 && ok8 then
      Some {| so_ops := ops; so_level_starts := starts0; so_locs := locs8; so_caps := caps8;
              so_len := mx (a_heap st6); so_stems := stems; so_nlines := nl; so_slen := slen |}
    else None.
  Proof.
    cbv beta zeta iota delta [build build_stems negb st6 st5 st4 st3 st0 starts0 ls0 pinref iface_step stem_copy ppo_step].
    reflexivity.
  Qed.


  Hypothesis WF : wf_netlist c.
  Hypothesis Hcmin : (0 < cmin)%N.

  (** the only indices that ever get a chunk *)
  Definition Sset (x : nat) : Prop :=
    x = nl \/ x = nl + 1 \/ x = nl + 2 \/ (exists i, i < slen /\ x = ppi + i) \/ (exists o, In o ops /\ x = s_out o).

  Lemma stem_copy_id : forall l lc, fold_left (stem_copy stems) l lc = lc.
  Proof.
    induction l as [|a r IH]; intros lc; [reflexivity|]. cbn [fold_left].
    replace (stem_copy stems lc a) with lc; [apply IH|].
    unfold stem_copy. rewrite nth_repeat. reflexivity.
  Qed.

  Lemma hl_pinref st k : hl (pinref st k) = hl st.
  Proof. reflexivity. Qed.

  Lemma hl_iface_step st i n : hl (iface_step c cmin stems ppi st (i, n)) =
    if Nat.ltb 0 (length (n_outs (get_node c n))) then hl_alloc (hl st) (ppi + i) cmin else hl st.
  Proof.
    unfold iface_step. cbv zeta. destruct (Nat.ltb 0 (length (n_outs (get_node c n))));
      destruct (n_ins (get_node c n)) as [|[l0|] t]; rewrite ?hl_pinref, ?hl_alloc_slot; reflexivity.
  Qed.

  Lemma ok_iface_step st ip : a_ok (iface_step c cmin stems ppi st ip) = a_ok st.
  Proof.
    destruct ip as [i n]. unfold iface_step. cbv zeta. destruct (Nat.ltb 0 (length (n_outs (get_node c n))));
      destruct (n_ins (get_node c n)) as [|[l0|] t]; cbn [pinref a_ok]; rewrite ?ok_alloc_slot; reflexivity.
  Qed.

  Lemma iface_HLStep st ip : fst ip < slen -> HLStep Sset (hl st) (hl (iface_step c cmin stems ppi st ip)).
  Proof.
    destruct ip as [i n]. cbn [fst]. intros Hi. rewrite hl_iface_step.
    destruct (Nat.ltb 0 (length (n_outs (get_node c n)))); [|left; reflexivity].
    right. exists (ppi + i), cmin. split; [exact Hcmin|]. split; [|reflexivity].
    right. right. right. left. exists i. auto.
  Qed.

  Lemma opA_HLStep st o : In o ops -> HLStep Sset (hl st) (hl (opA (nl + 1) stems caps cmin st o)).
  Proof.
    intros Ho. destruct (opA_spec (nl + 1) stems caps cmin st o) as [(_ & H & _)|[(_ & _ & H & _)|(_ & cp & _ & H & _)]].
    - left. exact H.
    - left. exact H.
    - right. exists (s_out o), (N.max cmin cp). split; [lia|]. split; [|exact H].
      right. right. right. right. exists o. auto.
  Qed.

  Definition st1 : alloc_state := alloc_slot cmin st0 nl cmin.
  Definition st2 : alloc_state := alloc_slot cmin st1 (nl + 1) cmin.

  Lemma st3_eq : st3 = alloc_slot cmin st2 (nl + 2) cmin.
  Proof. reflexivity. Qed.

  Lemma G01 : Grow Sset (hl st0) (hl st1).
  Proof. unfold st1. rewrite hl_alloc_slot. apply hl_alloc_Grow; [exact Hcmin|]. left. reflexivity. Qed.
  Lemma G12 : Grow Sset (hl st1) (hl st2).
  Proof. unfold st2. rewrite hl_alloc_slot. apply hl_alloc_Grow; [exact Hcmin|]. right. left. reflexivity. Qed.
  Lemma G23 : Grow Sset (hl st2) (hl st3).
  Proof. rewrite st3_eq, hl_alloc_slot. apply hl_alloc_Grow; [exact Hcmin|]. right. right. left. reflexivity. Qed.

  Lemma in_comb_lt ip : In ip (combine (seq 0 slen) sn) -> fst ip < slen.
  Proof. destruct ip as [i n]. intros H. apply (in_combine_seq 0) in H. cbn [fst]. lia. Qed.

  Lemma G35 : Grow Sset (hl st3) (hl st5).
  Proof.
    change (hl st3) with (hl st4). unfold st5. apply fold_Grow.
    intros st a Ha. apply iface_HLStep. apply in_comb_lt. exact Ha.
  Qed.

  Lemma starts0_ne : starts0 <> [].
  Proof.
    unfold starts0, ls0, levelize. rewrite starts_bumps. cbn [ls_starts].
    rewrite rev_app_distr. cbn [rev app]. discriminate.
  Qed.

  Lemma st6_eq : st6 = fold_left (opA (nl + 1) stems caps cmin) ops st5.
  Proof. unfold st6. rewrite fold_level_alloc_false, concat_split_levels by exact starts0_ne. reflexivity. Qed.

  Lemma G56 : Grow Sset (hl st5) (hl st6).
  Proof. rewrite st6_eq. apply fold_Grow. intros st o Ho. apply opA_HLStep. exact Ho. Qed.

  Lemma AInv0 : AInv (hl st0).
  Proof.
    unfold AInv, hl, st0, allocd. cbn [fst snd a_heap a_locs]. split; [reflexivity|].
    split; intros i; rewrite nth_repeat; lia.
  Qed.

  Lemma len0 : length (snd (hl st0)) = len.
  Proof. cbn. apply repeat_length. Qed.

  Lemma not_allocd0 x : ~ allocd (snd (hl st0)) x.
  Proof. unfold allocd. cbn. rewrite nth_repeat. lia. Qed.

  Lemma G06 : Grow Sset (hl st0) (hl st6).
  Proof.
    eapply Grow_trans; [apply G01|]. eapply Grow_trans; [apply G12|]. eapply Grow_trans; [apply G23|].
    eapply Grow_trans; [apply G35|apply G56].
  Qed.

  Lemma AInv6 : AInv (hl st6).
  Proof. apply G06, AInv0. Qed.
  Lemma len6 : length (a_locs st6) = len.
  Proof. destruct G06 as (L & _). cbn [hl snd] in L. rewrite L. apply repeat_length. Qed.
  Lemma only6 x : allocd (a_locs st6) x -> Sset x.
  Proof. destruct G06 as (_ & _ & _ & O). intros H. destruct (O x H) as [H'|H']; [|exact H']. destruct (not_allocd0 x H'). Qed.

  Lemma allocd6_zero : allocd (a_locs st6) nl.
  Proof.
    assert (G : Grow Sset (hl st1) (hl st6)).
    { eapply Grow_trans; [apply G12|]. eapply Grow_trans; [apply G23|]. eapply Grow_trans; [apply G35|apply G56]. }
    destruct G as (_ & _ & M & _). apply M. unfold st1. rewrite hl_alloc_slot. apply hl_alloc_new.
    rewrite len0. lia.
  Qed.

  Lemma allocd6_tmp : allocd (a_locs st6) (nl + 1).
  Proof.
    assert (G : Grow Sset (hl st2) (hl st6)).
    { eapply Grow_trans; [apply G23|]. eapply Grow_trans; [apply G35|apply G56]. }
    destruct G as (_ & _ & M & _). apply M. unfold st2. rewrite hl_alloc_slot. apply hl_alloc_new.
    destruct G01 as (L & _). rewrite L, len0. lia.
  Qed.

  Lemma len3 : length (a_locs st3) = len.
  Proof.
    destruct G01 as (L1 & _), G12 as (L2 & _), G23 as (L3 & _). cbn [hl snd] in *.
    rewrite L3, L2, L1. apply repeat_length.
  Qed.

  Lemma iface_fold_alloc : forall l st i n,
    In (i, n) l -> (forall ip, In ip l -> fst ip < slen) ->
    0 < length (n_outs (get_node c n)) -> ppi + i < length (a_locs st) ->
    allocd (a_locs (fold_left (iface_step c cmin stems ppi) l st)) (ppi + i).
  Proof.
    induction l as [|a r IH]; intros st i n Hin Hlt Ho Hb; [destruct Hin|]. cbn [fold_left].
    assert (Hr : forall ip, In ip r -> fst ip < slen) by (intros ip Hip; apply Hlt; right; exact Hip).
    destruct Hin as [->|Hin].
    - assert (G : Grow Sset (hl (iface_step c cmin stems ppi st (i, n)))
                             (hl (fold_left (iface_step c cmin stems ppi) r (iface_step c cmin stems ppi st (i, n))))).
      { apply fold_Grow. intros st' a Ha. apply iface_HLStep. apply Hr. exact Ha. }
      destruct G as (_ & _ & M & _). apply M. rewrite hl_iface_step.
      apply Nat.ltb_lt in Ho. rewrite Ho. apply hl_alloc_new. exact Hb.
    - apply (IH _ i n Hin Hr Ho).
      destruct (HLStep_Grow Sset _ _ (iface_HLStep st a (Hlt a (or_introl eq_refl)))) as (L & _).
      cbn [hl snd] in L. rewrite L. exact Hb.
  Qed.

  Lemma allocd6_ppi i n : In (i, n) (combine (seq 0 slen) sn) -> 0 < length (n_outs (get_node c n)) ->
    allocd (a_locs st6) (ppi + i).
  Proof.
    intros Hin Ho. destruct G56 as (_ & _ & M & _). apply M. cbn [hl snd]. unfold st5.
    apply (iface_fold_alloc _ _ i n Hin in_comb_lt Ho).
    change (a_locs st4) with (a_locs st3). rewrite len3. apply in_comb_lt in Hin. cbn [fst] in Hin. lia.
  Qed.

  Lemma opA_fold_alloc : forall l st, (forall o, In o l -> In o ops) ->
    a_ok (fold_left (opA (nl + 1) stems caps cmin) l st) = true ->
    a_ok st = true /\
    forall o, In o l -> s_out o <> nl + 1 -> s_out o < length (a_locs st) ->
      allocd (a_locs (fold_left (opA (nl + 1) stems caps cmin) l st)) (s_out o).
  Proof.
    induction l as [|o r IH]; intros st Hsub Hok; [split; [exact Hok|intros o []]|]. cbn [fold_left] in *.
    assert (Hr : forall o', In o' r -> In o' ops) by (intros o' Ho'; apply Hsub; right; exact Ho').
    destruct (IH _ Hr Hok) as [Hok1 Hall].
    pose proof (HLStep_Grow Sset _ _ (opA_HLStep st o (Hsub o (or_introl eq_refl)))) as (L & _).
    cbn [hl snd] in L.
    assert (G : Grow Sset (hl (opA (nl + 1) stems caps cmin st o))
                           (hl (fold_left (opA (nl + 1) stems caps cmin) r (opA (nl + 1) stems caps cmin st o)))).
    { apply fold_Grow. intros st' a Ha. apply opA_HLStep. apply Hr. exact Ha. }
    destruct G as (_ & _ & M & _).
    destruct (opA_spec (nl + 1) stems caps cmin st o) as [(E & _ & K)|[(_ & _ & _ & K)|(_ & cp & _ & H & K)]].
    - split; [congruence|]. intros o' [<-|Ho'] Hn Hb; [congruence|]. apply Hall; [exact Ho'|exact Hn|]. rewrite L. exact Hb.
    - congruence.
    - split; [congruence|]. intros o' [<-|Ho'] Hn Hb.
      + apply M. rewrite H. apply hl_alloc_new. exact Hb.
      + apply Hall; [exact Ho'|exact Hn|]. rewrite L. exact Hb.
  Qed.

  Lemma len5 : length (a_locs st5) = len.
  Proof. destruct G35 as (L & _). cbn [hl snd] in L. rewrite L. apply len3. Qed.

  Lemma allocd6_out o : a_ok st6 = true -> In o ops -> s_out o <> nl + 1 -> allocd (a_locs st6) (s_out o).
  Proof.
    intros Hok Ho Hn. rewrite st6_eq in *. destruct (opA_fold_alloc ops st5 (fun o H => H) Hok) as [_ H].
    apply H; [exact Ho|exact Hn|]. rewrite len5. destruct (all_outs c WF o Ho); lia.
  Qed.

  Notation all_ip := (combine (seq 0 slen) sn).

  Lemma ip_ins_lt n l0 t : n_ins (get_node c n) = Some l0 :: t -> l0 < nl.
  Proof.
    intros E. destruct (Nat.lt_ge_cases n NN) as [Hn|Hn].
    - apply (wf_in_ins c WF n l0 Hn). rewrite E, somes_cons_some. left. reflexivity.
    - unfold get_node in E. rewrite nth_overflow in E by exact Hn. discriminate.
  Qed.

  Section PPO.
    Variable L0 : list Z.
    Definition PP (L : list Z) : Prop :=
      (forall x, x < ppo -> nth x L (-1)%Z = nth x L0 (-1)%Z) /\
      (forall x, nth x L (-1)%Z = nth x L0 (-1)%Z \/
                 exists i n l0 t, In (i, n) all_ip /\ x = ppo + i /\ n_ins (get_node c n) = Some l0 :: t /\
                                  nth x L (-1)%Z = nth l0 L0 (-1)%Z).

    Lemma ppo_fold : forall l, incl l all_ip -> forall L C b, PP L ->
      PP (fst (fst (fold_left (ppo_step c ppo) l (L, C, b)))).
    Proof.
      induction l as [|[i n] r IH]; intros Hsub L C b HP; [exact HP|]. cbn [fold_left].
      assert (Hr : incl r all_ip) by (intros a Ha; apply Hsub; right; exact Ha).
      assert (Hin : In (i, n) all_ip) by (apply Hsub; left; reflexivity).
      rewrite ppo_step_eq.
      destruct (n_ins (get_node c n)) as [|[l0|] t] eqn:E; try (apply IH; assumption).
      apply IH; [exact Hr|]. destruct HP as [P1 P2].
      pose proof (ip_ins_lt n l0 t E) as Hl0. split.
      - intros x Hx. rewrite nth_setZ_neq by lia. apply P1. exact Hx.
      - intros x. rewrite nth_setZ. destruct (Nat.eqb x (ppo + i) && Nat.ltb (ppo + i) (length L)) eqn:Ec.
        + right. exists i, n, l0, t. apply andb_true_iff in Ec. destruct Ec as [Ec _]. apply Nat.eqb_eq in Ec.
          split; [exact Hin|]. split; [exact Ec|]. split; [exact E|]. apply P1. lia.
        + apply P2.
    Qed.
  End PPO.

  Definition locs8 : list Z := fst (fst (fold_left (ppo_step c ppo) all_ip (a_locs st6, a_caps st6, true))).

  Lemma PP8 : PP (a_locs st6) locs8.
  Proof.
    unfold locs8. apply ppo_fold; [apply incl_refl|]. split; [reflexivity|]. intros x. left. reflexivity.
  Qed.

  Lemma build_inv so : build c caps cmin false false = Some so ->
    a_ok st6 = true /\ so_ops so = ops /\ so_stems so = stems /\ so_nlines so = nl /\ so_slen so = slen /\
    so_locs so = locs8.
  Proof.
    rewrite build_eq, stem_copy_id. unfold locs8.
    destruct (fold_left (ppo_step c ppo) all_ip (a_locs st6, a_caps st6, true)) as [[l8 c8] ok8].
    cbn [fst]. destruct (a_ok st6); [|discriminate]. destruct ok8; [|discriminate]. cbn [andb].
    intros H. injection H as <-. cbn [so_ops so_stems so_nlines so_slen so_locs]. repeat split; reflexivity.
  Qed.

  Lemma opnd_class o x : In o ops -> In x (opnds o) ->
    x = nl \/ x < nl \/ exists n p, iface_pos c n = Some p /\ x = ppi + p /\ 0 < length (n_outs (get_node c n)).
  Proof.
    intros Ho Hx. rewrite build_ops_eq in Ho. apply in_flat_map in Ho. destruct Ho as (n & Hn & Ho).
    destruct (topo_nodup c WF) as [_ Hlt]. specialize (Hlt n Hn).
    rewrite fops_eq in Ho. destruct (iface_pos c n) as [p|] eqn:Ei.
    - apply in_iface_ops in Ho. destruct Ho as (Hout & E0 & E1 & E2 & E3).
      unfold opnds in Hx. rewrite E0, E1, E2, E3 in Hx.
      destruct Hx as [<-|[<-|[<-|[<-|[]]]]]; auto.
      right. right. exists n, p. split; [exact Ei|]. split; [reflexivity|].
      destruct (n_outs (get_node c n)); [destruct Hout|cbn; lia].
    - apply in_gate_ops in Ho. destruct Ho as [_ Ho]. destruct (Ho x Hx) as [->|E]; [auto|].
      right. left. apply (wf_in_ins c WF n x Hlt) in E. tauto.
  Qed.

  Lemma iface_in_ip n p : iface_pos c n = Some p -> In (p, n) all_ip.
  Proof.
    unfold iface_pos. destruct (port_wire (get_node c n)); [discriminate|]. intros H.
    apply (last_pos_nth n 0) in H. destruct H as [H|(_ & H1 & H2)]; [discriminate|].
    rewrite Nat.sub_0_r in H2. rewrite <- H2. apply (combine_seq_in 0 sn 0 p). lia.
  Qed.

  Section Cert.
    Variable so : simops.
    Hypothesis Hb : build c caps cmin false false = Some so.

    Let Hok : a_ok st6 = true. Proof. apply (build_inv so Hb). Qed.
    Let Eops : so_ops so = ops. Proof. apply (build_inv so Hb). Qed.
    Let Estems : so_stems so = stems. Proof. apply (build_inv so Hb). Qed.
    Let Enl : so_nlines so = nl. Proof. apply (build_inv so Hb). Qed.
    Let Eslen : so_slen so = slen. Proof. apply (build_inv so Hb). Qed.
    Let Elocs : so_locs so = locs8. Proof. apply (build_inv so Hb). Qed.

    Lemma so_ops_eq : so_ops so = ops. Proof. exact Eops. Qed.

    Lemma nth8_lt x : x < ppo -> nth x (so_locs so) (-1)%Z = nth x (a_locs st6) (-1)%Z.
    Proof. rewrite Elocs. apply PP8. Qed.

    Lemma so_loc_allocd8 x l : so_loc so x = Some l ->
      (0 <= nth x (so_locs so) (-1))%Z /\ l = Z.to_nat (nth x (so_locs so) (-1)%Z).
    Proof.
      unfold so_loc. cbv zeta. destruct (0 <=? nth x (so_locs so) (-1))%Z eqn:E; [|discriminate].
      intros H. injection H as <-. apply Z.leb_le in E. auto.
    Qed.

    Lemma allocd_so_loc x : x < ppo -> allocd (a_locs st6) x -> so_loc so x <> None.
    Proof.
      intros Hx Ha. unfold so_loc. cbv zeta. rewrite (nth8_lt x Hx). unfold allocd in Ha.
      apply Z.leb_le in Ha. rewrite Ha. discriminate.
    Qed.

    (** distinct indices below the PPO area have distinct locations *)
    Lemma so_loc_inj x y l : x < ppo -> y < ppo -> so_loc so x = Some l -> so_loc so y = Some l -> x = y.
    Proof.
      intros Hx Hy Lx Ly. apply so_loc_allocd8 in Lx, Ly. rewrite (nth8_lt x Hx) in Lx. rewrite (nth8_lt y Hy) in Ly.
      destruct Lx as [Ax Ex], Ly as [Ay Ey]. destruct AInv6 as (_ & _ & I). cbn [hl snd] in I.
      apply I; [exact Ax|]. apply Z2Nat.inj; [exact Ax|exact Ay|congruence].
    Qed.

    Lemma so_alias_lt x : x < ppo -> so_alias c so x = x.
    Proof.
      intros Hx. unfold so_alias, so_ppo. rewrite Enl, Eslen, Estems.
      destruct (Nat.leb ppo x) eqn:E; [apply Nat.leb_le in E; lia|]. apply stemmed_repeat.
    Qed.

    Lemma so_ppi_eq : so_ppi so = ppi. Proof. unfold so_ppi. rewrite Enl. reflexivity. Qed.
    Lemma so_ppo_eq : so_ppo so = ppo. Proof. unfold so_ppo. rewrite Enl, Eslen. reflexivity. Qed.

    Lemma out_lt_ppo o : In o ops -> s_out o < ppo.
    Proof. intros Ho. destruct (all_outs c WF o Ho); lia. Qed.

    Lemma opnd_lt_ppo o x : In o ops -> In x (opnds o) -> x < ppo.
    Proof.
      intros Ho Hx. destruct (opnd_class o x Ho Hx) as [->|[H|(n & p & Hi & -> & _)]]; try lia.
      apply iface_pos_lt in Hi. lia.
    Qed.

    (** an observed index is the PPO slot of an s_node whose first input pin is connected to a line l0; the slot
        stands for l0, shares its location, and l0 is written by an op *)
    Lemma final_spec p : In p (so_final so) ->
      exists i l0 t l, p = ppo + i /\ i < slen /\ n_ins (get_node c (nth i sn 0)) = Some l0 :: t /\
        so_alias c so p = l0 /\ l0 < nl /\ so_loc so p = Some l /\ so_loc so l0 = Some l /\ In l0 (map s_out ops).
    Proof.
      intros Hp. unfold so_final in Hp. rewrite Eslen, so_ppo_eq in Hp. apply filter_In in Hp.
      destruct Hp as [Hp Hf]. apply in_map_iff in Hp. destruct Hp as (i & <- & Hi). apply in_seq in Hi.
      destruct (so_loc so (ppo + i)) as [l|] eqn:El; [|discriminate].
      pose proof (so_loc_allocd8 _ _ El) as [A8 _].
      destruct PP8 as [_ P2]. rewrite <- Elocs in P2.
      destruct (P2 (ppo + i)) as [H|(i' & n & l0 & t & Hin & Ei & En & H)].
      - exfalso. rewrite H in A8. apply only6 in A8.
        destruct A8 as [A|[A|[A|[(j & Hj & A)|(o & Ho & A)]]]]; try lia.
        pose proof (out_lt_ppo o Ho). lia.
      - assert (i' = i) by lia. subst i'. apply (in_combine_seq 0) in Hin. destruct Hin as [_ Hn].
        rewrite Nat.sub_0_r in Hn. pose proof (ip_ins_lt n l0 t En) as Hl0.
        exists i, l0, t, l. split; [reflexivity|]. split; [lia|]. split; [rewrite Hn; exact En|].
        split.
        { unfold so_alias. rewrite so_ppo_eq, Estems.
          destruct (Nat.leb ppo (ppo + i)) eqn:E; [|apply Nat.leb_gt in E; lia].
          replace (ppo + i - ppo) with i by lia. rewrite Hn, En. apply stemmed_repeat. }
        split; [exact Hl0|]. split; [reflexivity|].
        assert (E8 : nth (ppo + i) (so_locs so) (-1)%Z = nth l0 (so_locs so) (-1)%Z).
        { rewrite H. symmetry. apply nth8_lt. lia. }
        split.
        + unfold so_loc in *. cbv zeta in *. rewrite <- E8. exact El.
        + rewrite H in A8. apply only6 in A8.
          destruct A8 as [A|[A|[A|[(j & Hj & A)|(o & Ho & A)]]]]; try lia.
          apply in_map_iff. exists o. split; [symmetry; exact A|exact Ho].
    Qed.

    Lemma out_loc o : In o ops -> so_loc so (s_out o) <> None.
    Proof.
      intros Ho. apply allocd_so_loc; [apply out_lt_ppo; exact Ho|].
      destruct (Nat.eq_dec (s_out o) (nl + 1)) as [E|E]; [rewrite E; apply allocd6_tmp|].
      apply allocd6_out; assumption.
    Qed.

    Lemma init_inv x : In x (so_init so) -> x < ppo /\ so_loc so x <> None.
    Proof.
      intros Hx. unfold so_init in Hx. rewrite Enl, Eslen, so_ppi_eq in Hx. destruct Hx as [<-|Hx].
      - split; [lia|]. apply allocd_so_loc; [lia|apply allocd6_zero].
      - apply filter_In in Hx. destruct Hx as [Hx Hf]. apply in_map_iff in Hx. destruct Hx as (i & <- & Hi).
        apply in_seq in Hi. split; [lia|]. destruct (so_loc so (ppi + i)); [discriminate|discriminate].
    Qed.

    Lemma init_zero : In nl (so_init so).
    Proof. unfold so_init. rewrite Enl. left. reflexivity. Qed.

    Lemma init_ppi n p : iface_pos c n = Some p -> 0 < length (n_outs (get_node c n)) -> In (ppi + p) (so_init so).
    Proof.
      intros Hi Hout. unfold so_init. rewrite Enl, Eslen, so_ppi_eq. right. apply filter_In.
      pose proof (iface_pos_lt c n p Hi) as Hp. split.
      - apply in_map_iff. exists p. split; [reflexivity|]. apply in_seq. lia.
      - destruct (so_loc so (ppi + p)) eqn:El; [reflexivity|]. exfalso.
        apply (allocd_so_loc (ppi + p)); [lia| |exact El].
        apply (allocd6_ppi p n); [apply iface_in_ip; exact Hi|exact Hout].
    Qed.

    (** a line that has a location is written by an op *)
    Lemma line_loc_written x : x < nl -> so_loc so x <> None -> In x (map s_out ops).
    Proof.
      intros Hl Hx. destruct (so_loc so x) as [l|] eqn:El; [|congruence].
      apply so_loc_allocd8 in El. destruct El as [A _]. rewrite (nth8_lt x) in A by lia. apply only6 in A.
      destruct A as [A|[A|[A|[(j & Hj & A)|(o' & Ho' & A)]]]]; try lia.
      apply in_map_iff. exists o'. auto.
    Qed.

    (** a line operand that some op writes is written by an earlier op *)
    Lemma written_before pre o post x : ops = pre ++ o :: post -> In x (opnds o) -> In x (map s_out ops) ->
      In x (map s_out pre).
    Proof.
      intros E Hx Hw. rewrite E, map_app in Hw. cbn [map] in Hw.
      destruct (core c WF pre o post E) as [_ Hc]. destruct (Hc x Hx) as (_ & N1 & N2).
      apply in_app_or in Hw. destruct Hw as [Hw|[Hw|Hw]]; [exact Hw|congruence|contradiction].
    Qed.

    Theorem build_map_check_sec : reads_defined c ->
      map_check (so_loc so) (so_alias c so) (so_init so) (so_final so) (so_ops so) = true.
    Proof.
      intros RD.
      apply (map_check_intro (so_loc so) (so_alias c so) (fun x => x < ppo)).
      - intros x y l. apply so_loc_inj.
      - (* NoDup init *)
        unfold so_init. rewrite Enl, Eslen, so_ppi_eq. constructor.
        + intros H. apply filter_In in H. destruct H as [H _]. apply in_map_iff in H.
          destruct H as (i & E & _). lia.
        + apply NoDup_filter. apply NoDup_map_add.
      - (* init indices *)
        intros x Hx. destruct (init_inv x Hx) as [H1 H2]. split; [exact H1|]. split; [apply so_alias_lt; exact H1|exact H2].
      - (* outputs *)
        rewrite Eops. intros o Ho. pose proof (out_lt_ppo o Ho) as Hlt. split; [exact Hlt|].
        split; [apply so_alias_lt; exact Hlt|apply out_loc; exact Ho].
      - (* operands are not aliased *)
        rewrite Eops. intros o x Ho Hx. apply so_alias_lt. apply (opnd_lt_ppo o x Ho Hx).
      - (* defined before use *)
        rewrite Eops. intros pre o post E x Hx.
        assert (Ho : In o ops) by (rewrite E; apply in_or_app; right; left; reflexivity).
        destruct (opnd_class o x Ho Hx) as [->|[Hl|(n & p & Hi & -> & Hout)]].
        + left. apply init_zero.
        + right. apply (written_before pre o post x E Hx). apply (RD o x Ho Hx Hl).
        + left. apply (init_ppi n p Hi Hout).
      - (* final indices *)
        intros p Hp. destruct (final_spec p Hp) as (i & l0 & t & l & _ & _ & _ & Ea & _ & Lp & Ll0 & Hw).
        exists l. rewrite Ea, Eops. auto.
    Qed.

    (** E2 without going through the certificate (no [reads_defined] needed: a line that no op writes has no
        location, reads as [zero] from memory, and is [zero] in the line-level environment) *)
    Theorem end_to_end_sec {V} (sem : N -> V -> V -> V -> V -> V) (zero : V) stim (m0 : fmem) :
      (forall x l, In x (so_init so) -> so_loc so x = Some l -> m0 l = init_env zero c stim x) ->
      forall p, In p (so_final so) ->
        mread zero (so_loc so) (mexec sem zero (so_loc so) (so_ops so) m0) p
        = iexec sem (fun x => x) ops (init_env zero c stim) (so_alias c so p).
    Proof.
      intros Hm p Hp.
      destruct (final_spec p Hp) as (i & l0 & t & l & _ & _ & _ & Ea & Hl0 & Lp & Ll0 & Hw).
      assert (S : SimInv (so_loc so) (fun x => In x (so_init so) \/ In x (map s_out ops))
                    (mexec sem zero (so_loc so) ops m0) (iexec sem (fun x => x) ops (init_env zero c stim))).
      { apply (sim_run sem zero (so_loc so) (fun x => x < ppo)).
        - intros x y k. apply so_loc_inj.
        - apply init_inv.
        - intros x k Hx Lx. apply Hm; assumption.
        - intros o Ho. split; [apply out_lt_ppo; exact Ho|apply out_loc; exact Ho].
        - intros pre o post E x Hx.
          assert (Ho : In o ops) by (rewrite E; apply in_or_app; right; left; reflexivity).
          destruct (opnd_class o x Ho Hx) as [->|[Hl|(n & q & Hi & -> & Hout)]].
          + left. left. apply init_zero.
          + destruct (in_dec Nat.eq_dec x (map s_out ops)) as [Hw'|Hw'].
            * left. right. apply (written_before pre o post x E Hx Hw').
            * right. split; [|split].
              -- destruct (so_loc so x) eqn:El; [|reflexivity]. exfalso. apply Hw'.
                 apply line_loc_written; [exact Hl|congruence].
              -- intros H. apply Hw'. rewrite E, map_app. apply in_or_app. left. exact H.
              -- unfold init_env. destruct (Nat.leb (nl + 3) x) eqn:F; [apply Nat.leb_le in F; lia|reflexivity].
          + left. left. apply (init_ppi n q Hi Hout). }
      rewrite Eops, Ea. unfold mread. rewrite Lp. apply S; [right; exact Hw|exact Ll0].
    Qed.
  End Cert.

  (** ** existence: the a_ok flags stay true when the capacity vector covers the line indices *)
  Lemma ppo_fold_snd : forall l lc, snd (fold_left (ppo_step c ppo) l lc) = snd lc.
  Proof.
    induction l as [|[i n] r IH]; intros lc; [reflexivity|]. cbn [fold_left]. rewrite IH.
    unfold ppo_step. destruct (n_ins (get_node c n)) as [|[l0|] t]; reflexivity.
  Qed.

  Lemma iface_fold_ok : forall l st, a_ok (fold_left (iface_step c cmin stems ppi) l st) = a_ok st.
  Proof. induction l as [|a r IH]; intros st; [reflexivity|]. cbn [fold_left]. rewrite IH. apply ok_iface_step. Qed.

  Lemma ok5 : a_ok st5 = true.
  Proof.
    unfold st5. rewrite iface_fold_ok. unfold st4. cbn [pinref a_ok]. unfold st3. rewrite !ok_alloc_slot. reflexivity.
  Qed.

  Lemma opA_fold_ok : forall l st, (forall o, In o l -> s_out o = nl + 1 \/ s_out o < length caps) ->
    a_ok (fold_left (opA (nl + 1) stems caps cmin) l st) = a_ok st.
  Proof.
    induction l as [|o r IH]; intros st H; [reflexivity|]. cbn [fold_left].
    rewrite IH by (intros o' Ho'; apply H; right; exact Ho').
    destruct (opA_spec (nl + 1) stems caps cmin st o) as [(_ & _ & K)|[(E & F & _)|(_ & cp & _ & _ & K)]]; try exact K.
    exfalso. apply nth_error_None in F. destruct (H o (or_introl eq_refl)); [congruence|lia].
  Qed.

  Theorem build_total_sec : nl <= length caps -> exists so, build c caps cmin false false = Some so.
  Proof.
    intros Hcaps. rewrite build_eq, stem_copy_id.
    pose proof (ppo_fold_snd all_ip (a_locs st6, a_caps st6, true)) as E8.
    destruct (fold_left (ppo_step c ppo) all_ip (a_locs st6, a_caps st6, true)) as [[l8 c8] ok8].
    cbn [snd] in E8. subst ok8.
    assert (E6 : a_ok st6 = true).
    { rewrite st6_eq, opA_fold_ok; [apply ok5|]. intros o Ho. destruct (all_outs c WF o Ho); [right; lia|left; assumption]. }
    rewrite E6. cbn [andb]. eexists. reflexivity.
  Qed.
End Build.

(* ------------------------------------------------------------------------------------------------ *)
(** * Part D: the theorems *)

(** E1 AS FIRST PROPOSED (without [reads_defined]) IS FALSE: a gate of unknown kind produces no op, so the line it
    drives never gets a chunk, and a gate reading that line reads an unallocated index. *)
Module CounterE1.
  Local Open Scope string_scope.
  (** input 0 -> FOO (unknown kind: no op) -> and -> output *)
  Definition cx : netlist :=
    {| c_nodes := [ {| n_kind := "input";  n_ins := [];       n_outs := [Some 0] |};
                    {| n_kind := "FOO";    n_ins := [Some 0]; n_outs := [Some 1] |};
                    {| n_kind := "and";    n_ins := [Some 1]; n_outs := [Some 2] |};
                    {| n_kind := "output"; n_ins := [Some 2]; n_outs := [] |} ];
       c_lines := [ {| l_drv := 0; l_dpin := 0; l_rdr := 1; l_rpin := 0 |};
                    {| l_drv := 1; l_dpin := 0; l_rdr := 2; l_rpin := 0 |};
                    {| l_drv := 2; l_dpin := 0; l_rdr := 3; l_rpin := 0 |} ];
       c_io := [0; 3] |}.

  Lemma cx_wf : wf_netlist cx.
  Proof.
    unfold wf_netlist. split; [|split].
    - intros l Hl. simpl in Hl. do 3 (destruct l as [|l]; [vm_compute; repeat split; lia|]). lia.
    - intros n k l Hn H. simpl in Hn.
      do 4 (destruct n as [|n];
            [repeat (destruct k as [|k]; simpl in H; try discriminate);
             inversion H; subst; vm_compute; repeat split; lia|]).
      lia.
    - intros n k l Hn H. simpl in Hn.
      do 4 (destruct n as [|n];
            [repeat (destruct k as [|k]; simpl in H; try discriminate);
             inversion H; subst; vm_compute; repeat split; lia|]).
      lia.
  Qed.

  Lemma cx_acyclic : comb_acyclic cx.
  Proof.
    exists (fun n => n). intros l Hl _. simpl in Hl.
    do 3 (destruct l as [|l]; [vm_compute; lia|]). lia.
  Qed.

  (** line 1 (index 1) has no location; the AND op reads it *)
  Example cx_map : match build cx (repeat 1%N 3) 1%N false false with
                   | Some so => (so_locs so, map (fun o => (s_out o, opnds o)) (so_ops so),
                                 map_check (so_loc so) (so_alias cx so) (so_init so) (so_final so) (so_ops so))
                   | None => ([], [], true)
                   end
                   = ([4; -1; 5; 0; 1; 2; 3; -1; -1; 5]%Z, [(0, [6; 3; 3; 3]); (2, [1; 3; 3; 3])], false).
  Proof. vm_compute. reflexivity. Qed.

  Theorem build_map_check_as_proposed_false :
    ~ (forall c caps cmin so,
         wf_netlist c -> comb_acyclic c -> (0 < cmin)%N -> length (c_lines c) <= length caps ->
         build c caps cmin false false = Some so ->
         map_check (so_loc so) (so_alias c so) (so_init so) (so_final so) (so_ops so) = true).
  Proof.
    intros H.
    assert (X : exists so, build cx (repeat 1%N 3) 1%N false false = Some so /\
                           map_check (so_loc so) (so_alias cx so) (so_init so) (so_final so) (so_ops so) = false).
    { vm_compute. eexists. split; reflexivity. }
    destruct X as (so & Hb & Hf).
    rewrite (H cx (repeat 1%N 3) 1%N so cx_wf cx_acyclic) in Hf; [discriminate|reflexivity|simpl; lia|exact Hb].
  Qed.

  Lemma cx_not_reads_defined : ~ reads_defined cx.
  Proof.
    intros H. specialize (H {| s_lut := 34952%N; s_out := 2; s_i0 := 1; s_i1 := 3; s_i2 := 3; s_i3 := 3 |} 1).
    vm_compute in H. destruct H as [H|[H|[]]]; try discriminate; try lia; auto.
  Qed.
End CounterE1.

(** E1, CORRECTED: one hypothesis added, [reads_defined c].  ([comb_acyclic] and the bound on [caps] are kept from the
    proposed statement; the proof does not use them.) *)
Theorem build_map_check c caps cmin so :
  wf_netlist c -> comb_acyclic c -> (0 < cmin)%N -> length (c_lines c) <= length caps ->
  reads_defined c ->
  build c caps cmin false false = Some so ->
  map_check (so_loc so) (so_alias c so) (so_init so) (so_final so) (so_ops so) = true.
Proof. intros WF _ Hc _ RD Hb. exact (build_map_check_sec c caps cmin WF Hc so Hb RD). Qed.

(** the added hypothesis is necessary: if the certificate passes, every line operand is written by an op *)
Theorem reads_defined_necessary c caps cmin so :
  wf_netlist c -> (0 < cmin)%N -> build c caps cmin false false = Some so ->
  map_check (so_loc so) (so_alias c so) (so_init so) (so_final so) (so_ops so) = true ->
  reads_defined c.
Proof.
  intros WF Hc Hb Hm o x Ho Hx Hl.
  (* an operand that no op writes and that is a line is unallocated in st6, hence unreadable *)
  destruct (in_dec Nat.eq_dec x (map s_out (build_ops c false))) as [Hin|Hnin]; [exact Hin|]. exfalso.
  unfold map_check in Hm. apply andb_true_iff in Hm. destruct Hm as [_ Hm].
  destruct (own_init (so_loc so) (so_init so)) as [w0|]; [|discriminate].
  rewrite (so_ops_eq c caps cmin so Hb) in Hm.
  apply in_split in Ho. destruct Ho as (pre & post & E). rewrite E in Hm.
  assert (G : forall pre w, own_run (so_loc so) (so_alias c so) w (pre ++ o :: post) <> None ->
              so_loc so x <> None).
  { clear - Hx. induction pre as [|a r IH]; intros w H.
    - cbn [app own_run] in H.
      destruct (forallb (fun x0 => readable (so_loc so) (so_alias c so) w x0 && alias_ok (so_loc so) (so_alias c so) x0)
                        [s_i0 o; s_i1 o; s_i2 o; s_i3 o]) eqn:F; [|cbn in H; congruence].
      rewrite forallb_forall in F. specialize (F x Hx). apply andb_true_iff in F. destruct F as [F _].
      unfold readable in F. destruct (so_loc so x); [discriminate|discriminate].
    - cbn [app own_run] in H.
      destruct (forallb _ _ && _); [|congruence]. destruct (so_loc so (s_out a)); [|congruence].
      apply (IH _ H). }
  assert (Hrun : own_run (so_loc so) (so_alias c so) w0 (pre ++ o :: post) <> None).
  { destruct (own_run (so_loc so) (so_alias c so) w0 (pre ++ o :: post)); [discriminate|discriminate]. }
  specialize (G pre w0 Hrun).
  destruct (so_loc so x) as [l|] eqn:El; [|congruence].
  apply so_loc_allocd8 in El. destruct El as [A _].
  rewrite (nth8_lt c caps cmin WF Hc so Hb x) in A by lia.
  apply (only6 c caps cmin Hc) in A.
  destruct A as [A|[A|[A|[(j & Hj & A)|(o' & Ho' & A)]]]]; try lia.
  apply Hnin. apply in_map_iff. exists o'. auto.
Qed.

(** a sufficient condition on the netlist, the one under which solutions are unique ([solution_unique]):
    gates have a known kind and drive lines from output pin 0 only, flip-flops from pins 0 and 1 only *)
Definition gates_known (c : netlist) : Prop :=
  (forall n, n < length (c_nodes c) -> iface_pos c n = None -> is_fork (get_node c n) = false ->
     select_lut kind_prefixes (n_kind (get_node c n)) (negb (is_some (pin (n_ins (get_node c n)) 2)))
                (negb (is_some (pin (n_ins (get_node c n)) 3))) <> None) /\
  (forall n, n < length (c_nodes c) -> is_dff (get_node c n) = true ->
     forall k o, 2 <= k -> pin (n_outs (get_node c n)) k = Some o -> False) /\
  (forall n, n < length (c_nodes c) -> iface_pos c n = None -> is_fork (get_node c n) = false ->
     forall k o, 1 <= k -> pin (n_outs (get_node c n)) k = Some o -> False).

Lemma all_lines_driven c : wf_netlist c -> comb_acyclic c -> gates_known c ->
  forall l, l < length (c_lines c) -> In l (map s_out (build_ops c false)).
Proof.
  intros WF AC (Hsel & Hdff & Hg1) l Hl.
  pose proof (wf_drv_lt c WF l Hl) as Hd.
  assert (Hp : pin (n_outs (get_node c (l_drv (get_line c l)))) (l_dpin (get_line c l)) = Some l).
  { apply pin_nth. destruct WF as (W1 & _). pose proof (W1 l Hl) as W. cbv zeta in W. tauto. }
  set (d := l_drv (get_line c l)) in *. set (dp := l_dpin (get_line c l)) in *.
  assert (X : exists o, In o (fops c d) /\ s_out o = l).
  { rewrite fops_eq. destruct (iface_pos c d) as [p|] eqn:Ei.
    - unfold iface_ops. cbv zeta. destruct dp as [|dp].
      + rewrite Hp. eexists. split; [apply in_or_app; left; left; reflexivity|reflexivity].
      + destruct (is_dff (get_node c d)) eqn:Ed.
        * destruct dp as [|dp].
          -- rewrite Hp. eexists. split; [apply in_or_app; right; left; reflexivity|reflexivity].
          -- exfalso. apply (Hdff d Hd Ed (S (S dp)) l); [lia|exact Hp].
        * exists (mkop (lutv "BUF1") l (length (c_lines c) + 3 + p) (length (c_lines c)) (length (c_lines c)) (length (c_lines c))).
          split; [|reflexivity]. apply in_or_app. right.
          apply (in_map (fun o0 => mkop (lutv "BUF1") o0 (length (c_lines c) + 3 + p) (length (c_lines c)) (length (c_lines c)) (length (c_lines c)))).
          destruct (n_outs (get_node c d)) as [|a t]; [unfold pin in Hp; destruct dp; discriminate|].
          rewrite pin_S in Hp. cbn [tl]. eapply pin_somes. exact Hp.
    - unfold gate_ops. cbv zeta. destruct (is_fork (get_node c d)) eqn:Ek.
      + eexists. split; [apply (in_map (fun o0 => mkop (lutv "BUF1") o0 _ _ _ _)); eapply pin_somes; exact Hp|reflexivity].
      + rewrite (unconn_eqb c WF d 2 Hd), (unconn_eqb c WF d 3 Hd). pose proof (Hsel d Hd Ei Ek) as Hs.
        destruct (select_lut kind_prefixes (n_kind (get_node c d)) _ _) as [sp|]; [|congruence].
        destruct dp as [|dp]; [|exfalso; apply (Hg1 d Hd Ei Ek (S dp) l); [lia|exact Hp]].
        eexists. split; [left; reflexivity|]. cbn [mkop s_out]. unfold pin_or. rewrite Hp. reflexivity. }
  destruct X as (o & Ho & <-). apply in_map. apply (in_build c WF AC d o Hd Ho).
Qed.

Corollary gates_known_reads_defined c : wf_netlist c -> comb_acyclic c -> gates_known c -> reads_defined c.
Proof. intros WF AC GK o x _ _ Hl. apply all_lines_driven; assumption. Qed.

Corollary build_map_check_gates c caps cmin so :
  wf_netlist c -> comb_acyclic c -> (0 < cmin)%N -> gates_known c ->
  build c caps cmin false false = Some so ->
  map_check (so_loc so) (so_alias c so) (so_init so) (so_final so) (so_ops so) = true.
Proof.
  intros WF AC Hc GK Hb. apply (build_map_check_sec c caps cmin WF Hc so Hb).
  apply gates_known_reads_defined; assumption.
Qed.

(** the characterisation of the published map used above, collected *)
Theorem build_spec c caps cmin so :
  wf_netlist c -> (0 < cmin)%N -> build c caps cmin false false = Some so ->
  let nl := length (c_lines c) in let slen := length (s_nodes c) in let ppo := nl + 3 + slen in
  so_ops so = build_ops c false /\ so_stems so = repeat (-1)%Z (ppo + slen) /\
  so_nlines so = nl /\ so_slen so = slen /\
  (* locations of distinct indices below the PPO area are distinct *)
  (forall x y l, x < ppo -> y < ppo -> so_loc so x = Some l -> so_loc so y = Some l -> x = y) /\
  (* no aliasing below the PPO area *)
  (forall x, x < ppo -> so_alias c so x = x) /\
  (* the zero slot, the scratch slot and every op output have a location; a line with a location is an op output *)
  so_loc so nl <> None /\ so_loc so (nl + 1) <> None /\
  (forall o, In o (build_ops c false) -> so_loc so (s_out o) <> None) /\
  (forall x, x < nl -> so_loc so x <> None -> In x (map s_out (build_ops c false))) /\
  (* the PPI slot of an interface node that drives something has a location *)
  (forall n p, iface_pos c n = Some p -> 0 < length (n_outs (get_node c n)) -> so_loc so (nl + 3 + p) <> None) /\
  (* an observed PPO slot shares the location of the line on the s_node's first input pin *)
  (forall p, In p (so_final so) -> exists i l0 t l, p = ppo + i /\ i < slen /\
     n_ins (get_node c (nth i (s_nodes c) 0)) = Some l0 :: t /\ so_alias c so p = l0 /\ l0 < nl /\
     so_loc so p = Some l /\ so_loc so l0 = Some l /\ In l0 (map s_out (build_ops c false))).
Proof.
  intros WF Hc Hb. cbv zeta.
  destruct (build_inv c caps cmin so Hb) as (_ & E1 & E2 & E3 & E4 & _).
  split; [exact E1|]. split; [exact E2|]. split; [exact E3|]. split; [exact E4|].
  split; [apply (so_loc_inj c caps cmin WF Hc so Hb)|].
  split; [apply (so_alias_lt c caps cmin Hc so Hb)|].
  split; [apply (init_inv c caps cmin WF Hc so Hb), (init_zero c caps cmin so Hb)|].
  split; [apply (allocd_so_loc c caps cmin WF Hc so Hb); [lia|apply (allocd6_tmp c caps cmin Hc)]|].
  split; [apply (out_loc c caps cmin WF Hc so Hb)|].
  split; [apply (line_loc_written c caps cmin WF Hc so Hb)|].
  split; [|apply (final_spec c caps cmin WF Hc so Hb)].
  intros n p Hi Ho. apply (init_inv c caps cmin WF Hc so Hb). apply (init_ppi c caps cmin WF Hc so Hb n p Hi Ho).
Qed.

(** existence *)
Theorem build_total c caps cmin :
  wf_netlist c -> (0 < cmin)%N -> length (c_lines c) <= length caps ->
  exists so, build c caps cmin false false = Some so.
Proof. intros WF Hc Hl. exact (build_total_sec c caps cmin WF Hc Hl). Qed.

(** E2 *)
Lemma iexec_alias_ext {V} (sem : N -> V -> V -> V -> V -> V) alias : forall ops (e : @ienv V),
  (forall o x, In o ops -> In x (opnds o) -> alias x = x) ->
  iexec sem alias ops e = iexec sem (fun x => x) ops e.
Proof.
  induction ops as [|o r IH]; intros e H; [reflexivity|].
  unfold iexec in *. cbn [fold_left].
  assert (E : istep sem alias e o = istep sem (fun x => x) e o).
  { assert (Ho : In o (o :: r)) by (left; reflexivity).
    unfold istep. rewrite (H o (s_i0 o) Ho), (H o (s_i1 o) Ho), (H o (s_i2 o) Ho), (H o (s_i3 o) Ho)
      by (unfold opnds; cbn [In]; tauto). reflexivity. }
  rewrite E. apply IH. intros o' x Ho'. apply H. right. exact Ho'.
Qed.

(** E2, exactly as proposed.  It does NOT need [reads_defined]: it is proved by running the ownership simulation
    directly on the two semantics ([sim_run]); a line that no op writes has no location, so memory reads return [zero],
    which is also that line's value in the line-level environment. *)
Theorem end_to_end {V} (sem : N -> V -> V -> V -> V -> V) (zero : V) c caps cmin so stim (m0 : fmem) :
  wf_netlist c -> comb_acyclic c -> (0 < cmin)%N -> length (c_lines c) <= length caps ->
  build c caps cmin false false = Some so ->
  (forall x l, In x (so_init so) -> so_loc so x = Some l -> m0 l = init_env zero c stim x) ->
  forall p, In p (so_final so) ->
    mread zero (so_loc so) (mexec sem zero (so_loc so) (so_ops so) m0) p
    = iexec sem (fun x => x) (build_ops c false) (init_env zero c stim) (so_alias c so p).
Proof. intros WF _ Hc _ Hb. exact (end_to_end_sec c caps cmin WF Hc so Hb sem zero stim m0). Qed.

(** the route through the certificate gives the same equation when [reads_defined] holds *)
Theorem end_to_end_via_cert {V} (sem : N -> V -> V -> V -> V -> V) (zero : V) c caps cmin so stim (m0 : fmem) :
  wf_netlist c -> comb_acyclic c -> (0 < cmin)%N -> length (c_lines c) <= length caps ->
  reads_defined c ->
  build c caps cmin false false = Some so ->
  (forall x l, In x (so_init so) -> so_loc so x = Some l -> m0 l = init_env zero c stim x) ->
  forall p, In p (so_final so) ->
    mread zero (so_loc so) (mexec sem zero (so_loc so) (so_ops so) m0) p
    = iexec sem (fun x => x) (build_ops c false) (init_env zero c stim) (so_alias c so p).
Proof.
  intros WF AC Hc Hl RD Hb Hm p Hp.
  pose proof (build_map_check c caps cmin so WF AC Hc Hl RD Hb) as Hk.
  rewrite (map_check_sound sem zero _ _ _ _ _ Hk (init_env zero c stim) m0 Hm p Hp).
  rewrite (so_ops_eq c caps cmin so Hb). rewrite iexec_alias_ext; [reflexivity|].
  intros o x Ho Hx. apply (so_alias_lt c caps cmin Hc so Hb). apply (opnd_lt_ppo c caps cmin WF Hc so Hb o x Ho Hx).
Qed.

(** E2 read against the specification: under [gates_known] the netlist equations have one solution on the lines, and
    the memory holds, at the PPO slot of every s_node with a connected first input pin, that solution's value of the line
    feeding the s_node *)
Theorem end_to_end_solution {V} (sem : N -> V -> V -> V -> V -> V) (zero : V) c caps cmin so stim (m0 : fmem) v :
  wf_netlist c -> comb_acyclic c -> (0 < cmin)%N -> gates_known c ->
  build c caps cmin false false = Some so ->
  (forall x l, In x (so_init so) -> so_loc so x = Some l -> m0 l = init_env zero c stim x) ->
  solution sem zero c stim v ->
  forall p, In p (so_final so) ->
    so_alias c so p < length (c_lines c) /\
    (exists t, n_ins (get_node c (nth (p - (length (c_lines c) + 3 + length (s_nodes c))) (s_nodes c) 0)) = Some (so_alias c so p) :: t) /\
    mread zero (so_loc so) (mexec sem zero (so_loc so) (so_ops so) m0) p = v (so_alias c so p).
Proof.
  intros WF AC Hc GK Hb Hm Hs p Hp.
  destruct (final_spec c caps cmin WF Hc so Hb p Hp) as (i & l0 & t & l & Ep & Hi & En & Ea & Hl0 & _).
  split; [rewrite Ea; exact Hl0|]. split.
  { exists t. rewrite Ea, Ep. replace (length (c_lines c) + 3 + length (s_nodes c) + i - (length (c_lines c) + 3 + length (s_nodes c))) with i by lia.
    exact En. }
  pose proof (end_to_end_sec c caps cmin WF Hc so Hb sem zero stim m0 Hm p Hp) as X.
  rewrite X. destruct GK as (G1 & G2 & G3).
  apply (solution_unique sem zero c stim _ v WF AC G1 G2 G3); [apply build_ops_solution; assumption|exact Hs|].
  rewrite Ea. exact Hl0.
Qed.

(* ------------------------------------------------------------------------------------------------ *)
(** * Example: the 6-node netlist of Proofs/SemProofs.v *)
Module E2EExample.
  Import SemExample.
  Example ex6_build : exists so, build ex6 (repeat 1%N 17) 1%N false false = Some so /\ simops_cert ex6 so = true.
  Proof. vm_compute. eexists. split; reflexivity. Qed.

  Example ex6_locs : option_map so_locs (build ex6 (repeat 1%N 17) 1%N false false)
    = Some [5; 8; 9; 10; 6; 7; 0; 1; 2; 3; -1; -1; 4; -1; 6; 7; 10]%Z.
  Proof. vm_compute. reflexivity. Qed.

  Lemma ex6_gates_known : gates_known ex6.
  Proof.
    unfold gates_known. split; [|split].
    - intros n Hn Hi Hf. simpl in Hn. do 6 (destruct n as [|n]; [vm_compute in Hi, Hf |- *; try discriminate|]). lia.
    - intros n Hn Hd k o Hk Ho. simpl in Hn.
      do 6 (destruct n as [|n]; [vm_compute in Hd; first [discriminate|
             do 2 (destruct k as [|k]; [lia|]); destruct k; discriminate]|]). lia.
    - intros n Hn Hi Hf k o Hk Ho. simpl in Hn.
      do 6 (destruct n as [|n]; [vm_compute in Hi, Hf; first [discriminate|
             destruct k as [|k]; [lia|]; destruct k; discriminate]|]). lia.
  Qed.

  (** the theorem instantiated (no computation of the certificate involved) *)
  Example ex6_cert_by_theorem so : build ex6 (repeat 1%N 17) 1%N false false = Some so ->
    map_check (so_loc so) (so_alias ex6 so) (so_init so) (so_final so) (so_ops so) = true.
  Proof. apply build_map_check_gates; [exact ex6_wf|exact ex6_acyclic|reflexivity|exact ex6_gates_known]. Qed.

  (** E2 instantiated: any value domain, any stimulus; the observed slots are 14, 15 (output ports) and 16 (DFF) *)
  Example ex6_end_to_end {V} (sem : N -> V -> V -> V -> V -> V) (zero : V) so stim (m0 : fmem) :
    build ex6 (repeat 1%N 17) 1%N false false = Some so ->
    (forall x l, In x (so_init so) -> so_loc so x = Some l -> m0 l = init_env zero ex6 stim x) ->
    forall p, In p (so_final so) ->
      mread zero (so_loc so) (mexec sem zero (so_loc so) (so_ops so) m0) p
      = iexec sem (fun x => x) (build_ops ex6 false) (init_env zero ex6 stim) (so_alias ex6 so p).
  Proof. intros Hb. apply (end_to_end sem zero ex6 (repeat 1%N 17) 1%N so stim m0 ex6_wf ex6_acyclic); [reflexivity|simpl; lia|exact Hb]. Qed.

  Example ex6_final : option_map (fun so => (so_init so, so_final so, map (so_alias ex6 so) (so_final so)))
                                 (build ex6 (repeat 1%N 17) 1%N false false)
    = Some ([6; 9; 12], [14; 15; 16], [4; 5; 3]).
  Proof. vm_compute. reflexivity. Qed.
End E2EExample.

Print Assumptions map_check_intro.
Print Assumptions CounterE1.build_map_check_as_proposed_false.
Print Assumptions build_map_check.
Print Assumptions reads_defined_necessary.
Print Assumptions all_lines_driven.
Print Assumptions build_map_check_gates.
Print Assumptions build_total.
Print Assumptions build_spec.
Print Assumptions end_to_end.
Print Assumptions end_to_end_via_cert.
Print Assumptions end_to_end_solution.
Print Assumptions E2EExample.ex6_build.
Print Assumptions E2EExample.ex6_cert_by_theorem.
Print Assumptions E2EExample.ex6_end_to_end.
