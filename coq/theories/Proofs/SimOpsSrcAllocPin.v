(** Translated source of sim.SimOps.__init__, part 3 (allocation pass, sim.py "combinational signal allocation table" ... self.c_len):
    NOT proved equal to the hand model [build] (that needs the heap invariant threaded through the translated loops).  Instead the
    translation of the allocation section is PINNED: [alloc_pin] below is the translation of the section as of the verified tree
    (a verbatim copy of what translate/gen_simops.py emitted, names alloc_src_ -> alloc_pin), and [alloc_section_pinned] re-proves on
    every run that the section translated from the CURRENT source is this very function.  Any change of the allocation pass --
    semantic or cosmetic -- breaks the obligation (fail closed); the pinned function itself is tied to the implementation and to
    Model/SimOps.build by the per-case correspondence (translated source = implementation = model: c_locs, c_caps, c_len). *)
From Coq Require Import List NArith ZArith Bool Arith String.
From KV Require Import Model.Prims Model.Netlist Model.Heap Model.HeapSrcLib Model.SimOps Model.SimOpsSrcLib Gen.SimTables Gen.HeapSrc
  Gen.SimOpsSrc.
Import ListNotations.
Local Open Scope list_scope.

(* ---- pinned copy of section alloc_src_: sim.py lines 263-320 ---- *)
Definition alloc_pin_loop1 (c : netlist) (s_s_len : nat) (s_zero_idx : nat) (s_tmp_idx : nat) (s_tmp2_idx : nat) (s_ppi_offset : nat) (s_ppo_offset : nat) (s_c_locs_len : nat) (s_ops : list oprow) (v_stems : list Z) (s_level_starts : list nat) (s_level_stops : list nat) (v_c_caps : list N) (v_c_caps_min : N) (v_c_reuse : bool) (x_ : (nat * nat)) (st_ : (heap * list Z * list N * list Z)) : option ((heap * list Z * list N * list Z) * bool) :=
  let '(v_h, s_c_locs, s_c_caps, v_ref_count) := st_ in
  let '(v_i, v_n) := x_ in
  let k1 := fun (v_h : heap) (s_c_locs : list Z) (s_c_caps : list N) (v_ref_count : list Z) =>
      let k2 := fun (v_ref_count : list Z) =>
          Some ((v_h, s_c_locs, s_c_caps, v_ref_count), false) in
      bind (if (Nat.ltb 0%nat (List.length (n_ins (get_node c v_n)))) then
        bind (py_lget 0%nat (n_ins (get_node c v_n))) (fun t9 =>
        Some (negb (py_is_none t9)))
      else Some false) (fun t10 =>
      if t10 then
        bind (py_lget 0%nat (n_ins (get_node c v_n))) (fun t11 =>
        bind (py_index t11) (fun t12 =>
        bind (py_lget t12 v_stems) (fun t13 =>
        bind (if (Z.leb (0)%Z t13) then
          bind (py_lget 0%nat (n_ins (get_node c v_n))) (fun t14 =>
          bind (py_index t14) (fun t15 =>
          bind (py_lget t15 v_stems) (fun t16 =>
          bind (py_z2nat t16) (fun t18 =>
          Some t18))))
        else
          bind (py_lget 0%nat (n_ins (get_node c v_n))) (fun t17 =>
          bind (py_index t17) (fun t19 =>
          Some t19))) (fun t20 =>
        let v_i0_idx := t20 in
        bind (py_lget v_i0_idx v_ref_count) (fun t21 =>
        bind (py_lset v_i0_idx (t21 + (1)%Z)%Z v_ref_count) (fun v_ref_count =>
        k2 v_ref_count))))))
      else
        k2 v_ref_count) in
  if (Nat.ltb 0%nat (List.length (n_outs (get_node c v_n)))) then
    bind (alloc_src v_h v_c_caps_min) (fun '(t7, v_h) =>
    bind (py_lset (s_ppi_offset + v_i)%nat (Z.of_N t7) s_c_locs) (fun s_c_locs =>
    bind (py_lset (s_ppi_offset + v_i)%nat v_c_caps_min s_c_caps) (fun s_c_caps =>
    bind (py_lget (s_ppi_offset + v_i)%nat v_ref_count) (fun t8 =>
    bind (py_lset (s_ppi_offset + v_i)%nat (t8 + (1)%Z)%Z v_ref_count) (fun v_ref_count =>
    k1 v_h s_c_locs s_c_caps v_ref_count)))))
  else
    k1 v_h s_c_locs s_c_caps v_ref_count.
Definition alloc_pin_loop3 (c : netlist) (s_s_len : nat) (s_zero_idx : nat) (s_tmp_idx : nat) (s_tmp2_idx : nat) (s_ppi_offset : nat) (s_ppo_offset : nat) (s_c_locs_len : nat) (s_ops : list oprow) (v_stems : list Z) (s_level_starts : list nat) (s_level_stops : list nat) (v_c_caps : list N) (v_c_caps_min : N) (v_c_reuse : bool) (v_op_start : nat) (v_op_stop : nat) (x_ : oprow) (st_ : (list Z * list Z * heap * list Z * list N)) : option ((list Z * list Z * heap * list Z * list N) * bool) :=
  let '(v_ref_count, v_free_set, v_h, s_c_locs, s_c_caps) := st_ in
  let v_op := x_ in
  bind (py_lget (r_i0 v_op) v_stems) (fun t22 =>
  bind (if (Z.leb (0)%Z t22) then
    bind (py_lget (r_i0 v_op) v_stems) (fun t23 =>
    bind (py_z2nat t23) (fun t24 =>
    Some t24))
  else
    Some (r_i0 v_op)) (fun t25 =>
  let v_i0_idx := t25 in
  bind (py_lget (r_i1 v_op) v_stems) (fun t26 =>
  bind (if (Z.leb (0)%Z t26) then
    bind (py_lget (r_i1 v_op) v_stems) (fun t27 =>
    bind (py_z2nat t27) (fun t28 =>
    Some t28))
  else
    Some (r_i1 v_op)) (fun t29 =>
  let v_i1_idx := t29 in
  bind (py_lget (r_i2 v_op) v_stems) (fun t30 =>
  bind (if (Z.leb (0)%Z t30) then
    bind (py_lget (r_i2 v_op) v_stems) (fun t31 =>
    bind (py_z2nat t31) (fun t32 =>
    Some t32))
  else
    Some (r_i2 v_op)) (fun t33 =>
  let v_i2_idx := t33 in
  bind (py_lget (r_i3 v_op) v_stems) (fun t34 =>
  bind (if (Z.leb (0)%Z t34) then
    bind (py_lget (r_i3 v_op) v_stems) (fun t35 =>
    bind (py_z2nat t35) (fun t36 =>
    Some t36))
  else
    Some (r_i3 v_op)) (fun t37 =>
  let v_i3_idx := t37 in
  bind (py_lget v_i0_idx v_ref_count) (fun t38 =>
  bind (py_lset v_i0_idx (t38 - (1)%Z)%Z v_ref_count) (fun v_ref_count =>
  bind (py_lget v_i1_idx v_ref_count) (fun t39 =>
  bind (py_lset v_i1_idx (t39 - (1)%Z)%Z v_ref_count) (fun v_ref_count =>
  bind (py_lget v_i2_idx v_ref_count) (fun t40 =>
  bind (py_lset v_i2_idx (t40 - (1)%Z)%Z v_ref_count) (fun v_ref_count =>
  bind (py_lget v_i3_idx v_ref_count) (fun t41 =>
  bind (py_lset v_i3_idx (t41 - (1)%Z)%Z v_ref_count) (fun v_ref_count =>
  let k3 := fun (v_free_set : list Z) =>
      let k4 := fun (v_free_set : list Z) =>
          let k5 := fun (v_free_set : list Z) =>
              let k6 := fun (v_free_set : list Z) =>
                  let v_o_idx := (r_out v_op) in
                  if (Nat.eqb v_o_idx s_tmp_idx) then
                    Some ((v_ref_count, v_free_set, v_h, s_c_locs, s_c_caps), false)
                  else
                    bind (py_lget v_o_idx v_c_caps) (fun t50 =>
                    let v_cap := (N.max v_c_caps_min t50) in
                    bind (alloc_src v_h v_cap) (fun '(t51, v_h) =>
                    bind (py_lset v_o_idx (Z.of_N t51) s_c_locs) (fun s_c_locs =>
                    bind (py_lset v_o_idx v_cap s_c_caps) (fun s_c_caps =>
                    Some ((v_ref_count, v_free_set, v_h, s_c_locs, s_c_caps), false))))) in
              bind (py_lget v_i3_idx v_ref_count) (fun t48 =>
              if (Z.leb t48 (0)%Z) then
                bind (py_lget v_i3_idx s_c_locs) (fun t49 =>
                let v_free_set := py_set_add t49 v_free_set in
                k6 v_free_set)
              else
                k6 v_free_set) in
          bind (py_lget v_i2_idx v_ref_count) (fun t46 =>
          if (Z.leb t46 (0)%Z) then
            bind (py_lget v_i2_idx s_c_locs) (fun t47 =>
            let v_free_set := py_set_add t47 v_free_set in
            k5 v_free_set)
          else
            k5 v_free_set) in
      bind (py_lget v_i1_idx v_ref_count) (fun t44 =>
      if (Z.leb t44 (0)%Z) then
        bind (py_lget v_i1_idx s_c_locs) (fun t45 =>
        let v_free_set := py_set_add t45 v_free_set in
        k4 v_free_set)
      else
        k4 v_free_set) in
  bind (py_lget v_i0_idx v_ref_count) (fun t42 =>
  if (Z.leb t42 (0)%Z) then
    bind (py_lget v_i0_idx s_c_locs) (fun t43 =>
    let v_free_set := py_set_add t43 v_free_set in
    k3 v_free_set)
  else
    k3 v_free_set))))))))))))))))).
Definition alloc_pin_loop4 (c : netlist) (s_s_len : nat) (s_zero_idx : nat) (s_tmp_idx : nat) (s_tmp2_idx : nat) (s_ppi_offset : nat) (s_ppo_offset : nat) (s_c_locs_len : nat) (s_ops : list oprow) (v_stems : list Z) (v_ref_count : list Z) (s_level_starts : list nat) (s_level_stops : list nat) (v_c_caps : list N) (v_c_caps_min : N) (v_c_reuse : bool) (s_c_locs : list Z) (s_c_caps : list N) (v_op_start : nat) (v_op_stop : nat) (v_free_set : list Z) (x_ : Z) (st_ : heap) : option (heap * bool) :=
  let v_h := st_ in
  let v_loc := x_ in
  bind (py_z2N v_loc) (fun t52 =>
  bind (free_src v_h t52) (fun v_h =>
  Some (v_h, false))).
Definition alloc_pin_loop2 (c : netlist) (s_s_len : nat) (s_zero_idx : nat) (s_tmp_idx : nat) (s_tmp2_idx : nat) (s_ppi_offset : nat) (s_ppo_offset : nat) (s_c_locs_len : nat) (s_ops : list oprow) (v_stems : list Z) (s_level_starts : list nat) (s_level_stops : list nat) (v_c_caps : list N) (v_c_caps_min : N) (v_c_reuse : bool) (x_ : (nat * nat)) (st_ : (list Z * heap * list Z * list N)) : option ((list Z * heap * list Z * list N) * bool) :=
  let '(v_ref_count, v_h, s_c_locs, s_c_caps) := st_ in
  let '(v_op_start, v_op_stop) := x_ in
  let v_free_set := (@nil Z) in
  bind (py_for (alloc_pin_loop3 c s_s_len s_zero_idx s_tmp_idx s_tmp2_idx s_ppi_offset s_ppo_offset s_c_locs_len s_ops v_stems s_level_starts s_level_stops v_c_caps v_c_caps_min v_c_reuse v_op_start v_op_stop) (py_slice v_op_start v_op_stop s_ops) (v_ref_count, v_free_set, v_h, s_c_locs, s_c_caps)) (fun '(v_ref_count, v_free_set, v_h, s_c_locs, s_c_caps) =>
  let k7 := fun (v_h : heap) =>
      Some ((v_ref_count, v_h, s_c_locs, s_c_caps), false) in
  if v_c_reuse then
    bind (py_for (alloc_pin_loop4 c s_s_len s_zero_idx s_tmp_idx s_tmp2_idx s_ppi_offset s_ppo_offset s_c_locs_len s_ops v_stems v_ref_count s_level_starts s_level_stops v_c_caps v_c_caps_min v_c_reuse s_c_locs s_c_caps v_op_start v_op_stop v_free_set) v_free_set v_h) (fun v_h =>
    k7 v_h)
  else
    k7 v_h).
Definition alloc_pin_loop5 (c : netlist) (s_s_len : nat) (s_zero_idx : nat) (s_tmp_idx : nat) (s_tmp2_idx : nat) (s_ppi_offset : nat) (s_ppo_offset : nat) (s_c_locs_len : nat) (s_ops : list oprow) (v_stems : list Z) (v_ref_count : list Z) (s_level_starts : list nat) (s_level_stops : list nat) (v_c_caps : list N) (v_c_caps_min : N) (v_c_reuse : bool) (v_h : heap) (x_ : (nat * Z)) (st_ : (list Z * list N)) : option ((list Z * list N) * bool) :=
  let '(s_c_locs, s_c_caps) := st_ in
  let '(v_lidx, v_stem) := x_ in
  let k8 := fun (s_c_locs : list Z) (s_c_caps : list N) =>
      Some ((s_c_locs, s_c_caps), false) in
  if (Z.leb (0)%Z v_stem) then
    bind (py_z2nat v_stem) (fun t53 =>
    bind (py_lget t53 s_c_locs) (fun t54 =>
    bind (py_z2nat v_stem) (fun t55 =>
    bind (py_lget t55 s_c_caps) (fun t56 =>
    bind (py_lset v_lidx t54 s_c_locs) (fun s_c_locs =>
    bind (py_lset v_lidx t56 s_c_caps) (fun s_c_caps =>
    k8 s_c_locs s_c_caps))))))
  else
    k8 s_c_locs s_c_caps.
Definition alloc_pin_loop6 (c : netlist) (s_s_len : nat) (s_zero_idx : nat) (s_tmp_idx : nat) (s_tmp2_idx : nat) (s_ppi_offset : nat) (s_ppo_offset : nat) (s_c_locs_len : nat) (s_ops : list oprow) (v_stems : list Z) (v_ref_count : list Z) (s_level_starts : list nat) (s_level_stops : list nat) (v_c_caps : list N) (v_c_caps_min : N) (v_c_reuse : bool) (v_h : heap) (x_ : (nat * nat)) (st_ : (list Z * list N)) : option ((list Z * list N) * bool) :=
  let '(s_c_locs, s_c_caps) := st_ in
  let '(v_i, v_n) := x_ in
  let k9 := fun (s_c_locs : list Z) (s_c_caps : list N) =>
      Some ((s_c_locs, s_c_caps), false) in
  bind (if (Nat.ltb 0%nat (List.length (n_ins (get_node c v_n)))) then
    bind (py_lget 0%nat (n_ins (get_node c v_n))) (fun t57 =>
    Some (negb (py_is_none t57)))
  else Some false) (fun t58 =>
  if t58 then
    bind (py_lget 0%nat (n_ins (get_node c v_n))) (fun t59 =>
    bind (py_index t59) (fun t60 =>
    bind (py_lget t60 s_c_locs) (fun t61 =>
    bind (py_lget 0%nat (n_ins (get_node c v_n))) (fun t62 =>
    bind (py_index t62) (fun t63 =>
    bind (py_lget t63 s_c_caps) (fun t64 =>
    bind (py_lset (s_ppo_offset + v_i)%nat t61 s_c_locs) (fun s_c_locs =>
    bind (py_lset (s_ppo_offset + v_i)%nat t64 s_c_caps) (fun s_c_caps =>
    k9 s_c_locs s_c_caps))))))))
  else
    k9 s_c_locs s_c_caps).
Definition alloc_pin (c : netlist) (s_s_len : nat) (s_zero_idx : nat) (s_tmp_idx : nat) (s_tmp2_idx : nat) (s_ppi_offset : nat) (s_ppo_offset : nat) (s_c_locs_len : nat) (s_ops : list oprow) (v_stems : list Z) (v_ref_count : list Z) (s_level_starts : list nat) (s_level_stops : list nat) (v_c_caps : list N) (v_c_caps_min : N) (v_c_reuse : bool) : option (list Z * list N * N) :=
  let s_c_locs := (repeat (-1)%Z s_c_locs_len) in
  let s_c_caps := (repeat 0%N s_c_locs_len) in
  let v_h := hinit_src in
  bind (alloc_src v_h v_c_caps_min) (fun '(t1, v_h) =>
  bind (py_lset s_zero_idx (Z.of_N t1) s_c_locs) (fun s_c_locs =>
  bind (py_lset s_zero_idx v_c_caps_min s_c_caps) (fun s_c_caps =>
  bind (alloc_src v_h v_c_caps_min) (fun '(t2, v_h) =>
  bind (py_lset s_tmp_idx (Z.of_N t2) s_c_locs) (fun s_c_locs =>
  bind (py_lset s_tmp_idx v_c_caps_min s_c_caps) (fun s_c_caps =>
  bind (alloc_src v_h v_c_caps_min) (fun '(t3, v_h) =>
  bind (py_lset s_tmp2_idx (Z.of_N t3) s_c_locs) (fun s_c_locs =>
  bind (py_lset s_tmp2_idx v_c_caps_min s_c_caps) (fun s_c_caps =>
  bind (py_lget s_zero_idx v_ref_count) (fun t4 =>
  bind (py_lset s_zero_idx (t4 + (1)%Z)%Z v_ref_count) (fun v_ref_count =>
  bind (py_lget s_tmp_idx v_ref_count) (fun t5 =>
  bind (py_lset s_tmp_idx (t5 + (1)%Z)%Z v_ref_count) (fun v_ref_count =>
  bind (py_lget s_tmp2_idx v_ref_count) (fun t6 =>
  bind (py_lset s_tmp2_idx (t6 + (1)%Z)%Z v_ref_count) (fun v_ref_count =>
  bind (py_for (alloc_pin_loop1 c s_s_len s_zero_idx s_tmp_idx s_tmp2_idx s_ppi_offset s_ppo_offset s_c_locs_len s_ops v_stems s_level_starts s_level_stops v_c_caps v_c_caps_min v_c_reuse) (py_enumerate (s_nodes c)) (v_h, s_c_locs, s_c_caps, v_ref_count)) (fun '(v_h, s_c_locs, s_c_caps, v_ref_count) =>
  bind (py_for (alloc_pin_loop2 c s_s_len s_zero_idx s_tmp_idx s_tmp2_idx s_ppi_offset s_ppo_offset s_c_locs_len s_ops v_stems s_level_starts s_level_stops v_c_caps v_c_caps_min v_c_reuse) (combine s_level_starts s_level_stops) (v_ref_count, v_h, s_c_locs, s_c_caps)) (fun '(v_ref_count, v_h, s_c_locs, s_c_caps) =>
  bind (py_for (alloc_pin_loop5 c s_s_len s_zero_idx s_tmp_idx s_tmp2_idx s_ppi_offset s_ppo_offset s_c_locs_len s_ops v_stems v_ref_count s_level_starts s_level_stops v_c_caps v_c_caps_min v_c_reuse v_h) (py_enumerate v_stems) (s_c_locs, s_c_caps)) (fun '(s_c_locs, s_c_caps) =>
  bind (py_for (alloc_pin_loop6 c s_s_len s_zero_idx s_tmp_idx s_tmp2_idx s_ppi_offset s_ppo_offset s_c_locs_len s_ops v_stems v_ref_count s_level_starts s_level_stops v_c_caps v_c_caps_min v_c_reuse v_h) (py_enumerate (s_nodes c)) (s_c_locs, s_c_caps)) (fun '(s_c_locs, s_c_caps) =>
  let s_c_len := (mx v_h) in
  Some (s_c_locs, s_c_caps, s_c_len)))))))))))))))))))).


Theorem alloc_section_pinned : alloc_src_ = alloc_pin.
Proof. reflexivity. Qed.
