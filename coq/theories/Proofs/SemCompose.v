(** Compositions on top of Proofs/SemProofs.v:
    C1 [build_levels_valid]   the greedy levelisation of the scheduler's own op list is a checked schedule;
    C2 [logic2_gate_by_gate]  2-valued reading of S1 through the primitives' Boolean functions;
    C3 [build_ops_strip_solution] (and _gen, _buf)  the op list with stripped forks, read through the stems,
       computes a solution -- provided stripped nodes are spelled exactly "__fork__" (necessary, see
       [StripCounter]) and BUF1 copies pin 0 on them. *)
From Coq Require Import List NArith ZArith Bool Arith Lia String Permutation.
From KV Require Import Model.Prims Model.Netlist Model.NetlistWf Model.Heap Model.SimOps Model.AllocCheck Model.NetlistSem
     Gen.SimTables Proofs.TopoProofs Proofs.AllocProofs Proofs.SemProofs Proofs.Dispatch.
Import List.
Import ListNotations.
Local Open Scope list_scope.

(* ------------------------------------------------------------------------------------------------ *)
(** * C1 *)

Lemma last_pos_bound x : forall l i acc p, last_pos x l i acc = Some p ->
  acc = Some p \/ (i <= p /\ p < i + length l).
Proof.
  induction l as [|y r IH]; intros i acc p H; simpl in H; [auto|].
  apply IH in H. destruct H as [H|H]; [|right; simpl; lia].
  destruct (Nat.eqb x y); [|auto]. injection H as <-. right. simpl. lia.
Qed.

Lemma iface_pos_lt c n p : iface_pos c n = Some p -> p < length (s_nodes c).
Proof.
  unfold iface_pos. destruct (port_wire (get_node c n)); [discriminate|]. intros H.
  apply last_pos_bound in H. destruct H as [H|H]; [discriminate|lia].
Qed.

Lemma build_ops_bounds c : wf_netlist c -> forall o, In o (build_ops c false) ->
  let nl := length (c_lines c) in let len := nl + 3 + 2 * length (s_nodes c) in
  s_out o < len /\ Forall (fun x => x < len) [s_i0 o; s_i1 o; s_i2 o; s_i3 o].
Proof.
  intros WF o Ho. cbv zeta. split.
  - destruct (all_outs c WF o Ho); lia.
  - rewrite build_ops_eq in Ho. apply in_flat_map in Ho. destruct Ho as (n & Hn & Ho).
    destruct (topo_nodup c WF) as [_ Hlt]. specialize (Hlt n Hn).
    rewrite fops_eq in Ho. destruct (iface_pos c n) as [p|] eqn:Ei.
    + apply iface_pos_lt in Ei. apply in_iface_ops in Ho. destruct Ho as (_ & -> & -> & -> & ->).
      repeat constructor; lia.
    + apply in_gate_ops in Ho. destruct Ho as [_ Ho]. apply Forall_forall. intros x Hx.
      destruct (Ho x Hx) as [->|E]; [lia|]. apply (wf_in_ins c WF n x Hlt) in E. lia.
Qed.

Theorem build_levels_valid c : wf_netlist c -> comb_acyclic c ->
  let nl := length (c_lines c) in let len := nl + 3 + 2 * length (s_nodes c) in
  let stems := repeat (-1)%Z len in
  sched_check (stemmed stems) (nl + 1)
    (split_levels (rev (ls_starts (levelize stems (build_ops c false) len))) (build_ops c false) 0) = true.
Proof.
  intros WF AC. cbv zeta. apply levels_valid.
  - apply build_ops_ssa; assumption.
  - intros o Ho. destruct (build_ops_bounds c WF o Ho) as [H1 H2]. split; [exact H1|].
    cbn [map]. rewrite !stemmed_repeat. exact H2.
Qed.

(* ------------------------------------------------------------------------------------------------ *)
(** * C2 *)

Lemma buf1_row a b cc d : sem_lut (lutv "BUF1") a b cc d = a.
Proof. destruct a, b, cc, d; vm_compute; reflexivity. Qed.

Lemma inv1_row a b cc d : sem_lut (lutv "INV1") a b cc d = negb a.
Proof. destruct a, b, cc, d; vm_compute; reflexivity. Qed.

Lemma lut_of_sem p sp : lut_of p = Some sp -> forall a b cc d, sem_lut sp a b cc d = prim_fn p a b cc d.
Proof.
  intros H. destruct (lut_correct p) as (l & E & F). rewrite H in E. injection E as <-. exact F.
Qed.

Theorem logic2_gate_by_gate c (stim : nat -> bool) : wf_netlist c -> comb_acyclic c ->
  let v := iexec sem_lut (fun x => x) (build_ops c false) (init_env false c stim) in
  forall n, n < length (c_nodes c) ->
    let nd := get_node c n in
    match iface_pos c n with
    | Some p => (forall o, pin (n_outs nd) 0 = Some o -> v o = stim p) /\
                (is_dff nd = true -> forall o, pin (n_outs nd) 1 = Some o -> v o = negb (stim p)) /\
                (is_dff nd = false -> forall k o, 0 < k -> pin (n_outs nd) k = Some o -> v o = stim p)
    | None => if is_fork nd then forall k o, pin (n_outs nd) k = Some o -> v o = pinv false v (n_ins nd) 0
              else forall p sp, lut_of p = Some sp ->
                     select_lut kind_prefixes (n_kind nd) (negb (is_some (pin (n_ins nd) 2))) (negb (is_some (pin (n_ins nd) 3))) = Some sp ->
                     forall o, pin (n_outs nd) 0 = Some o ->
                       v o = prim_fn p (pinv false v (n_ins nd) 0) (pinv false v (n_ins nd) 1) (pinv false v (n_ins nd) 2) (pinv false v (n_ins nd) 3)
    end.
Proof.
  intros WF AC v n Hn nd.
  pose proof (build_ops_solution sem_lut false c stim WF AC n Hn) as S. fold v in S.
  unfold node_ok in S. cbv zeta in S. fold nd in S.
  destruct (iface_pos c n) as [p|].
  - destruct S as [S0 S1]. split; [|split].
    + intros o Ho. rewrite (S0 o Ho). apply buf1_row.
    + intros Ed o Ho. rewrite Ed in S1. rewrite (S1 o Ho). apply inv1_row.
    + intros Ed k o Hk Ho. rewrite Ed in S1. rewrite (S1 k o Hk Ho). apply buf1_row.
  - destruct (is_fork nd).
    + intros k o Ho. rewrite (S k o Ho). apply buf1_row.
    + intros p sp Hp Hs o Ho. rewrite Hs in S. rewrite (S o Ho). apply lut_of_sem. exact Hp.
Qed.


(* ------------------------------------------------------------------------------------------------ *)
(** * C3: fork stripping *)

Lemma setZ_length l : forall i v, length (setZ l i v) = length l.
Proof. induction l as [|x r IH]; intros [|i] v; simpl; auto. Qed.
Lemma nth_setZ_eq l : forall i v d, i < length l -> nth i (setZ l i v) d = v.
Proof. induction l as [|x r IH]; intros [|i] v d Hi; simpl in *; try lia; auto. apply IH. lia. Qed.
Lemma nth_setZ_neq l : forall i j v d, j <> i -> nth j (setZ l i v) d = nth j l d.
Proof. induction l as [|x r IH]; intros [|i] [|j] v d Hj; simpl; try lia; auto. Qed.

Lemma fold_setZ z d : forall ols st,
  (forall ol, In ol ols -> ol < length st) ->
  let st' := fold_left (fun s ol => setZ s ol z) ols st in
  length st' = length st /\
  forall l, (In l ols -> nth l st' d = z) /\ (~ In l ols -> nth l st' d = nth l st d).
Proof.
  induction ols as [|a r IH]; intros st Hb; cbn [fold_left].
  - split; [reflexivity|]. intros l. split; [intros []|reflexivity].
  - destruct (IH (setZ st a z)) as [L H].
    { intros ol Hol. rewrite setZ_length. apply Hb. right. exact Hol. }
    split; [rewrite L; apply setZ_length|]. intros l. destruct (H l) as [H1 H2]. split.
    + intros [<-|Hl].
      * destruct (in_dec Nat.eq_dec a r) as [Hi|Hn]; [apply H1; exact Hi|].
        rewrite (proj2 (H a) Hn). apply nth_setZ_eq. apply Hb. left. reflexivity.
      * apply H1. exact Hl.
    + intros Hn. rewrite H2 by (intros Hi; apply Hn; right; exact Hi).
      apply nth_setZ_neq. intros ->. apply Hn. left. reflexivity.
Qed.

Lemma stem_walk_S f c l :
  stem_walk (S f) c l =
  if String.eqb (n_kind (get_node c (l_drv (get_line c l)))) "__fork__" then
    match pin (n_ins (get_node c (l_drv (get_line c l)))) 0 with
    | Some l' => stem_walk f c l' | None => Some l end
  else Some l.
Proof. reflexivity. Qed.

Lemma stem_walk_mono c : forall f l s, stem_walk f c l = Some s -> stem_walk (S f) c l = Some s.
Proof.
  induction f as [|f IH]; intros l s H; [discriminate|].
  rewrite stem_walk_S in H. rewrite stem_walk_S.
  destruct (String.eqb _ _); [|exact H]. destruct (pin _ 0) as [l'|]; [|exact H]. apply IH. exact H.
Qed.

Section Stems.
  Variable c : netlist.
  Hypothesis WF : wf_netlist c.
  Hypothesis AC : comb_acyclic c.
  Notation nl := (length (c_lines c)).
  Notation NN := (length (c_nodes c)).
  Notation drv l := (l_drv (get_line c l)).
  Notation rdr l := (l_rdr (get_line c l)).
  Notation T := (topo_order c).

  (** the stem a line is aliased to: only outputs of "__fork__" nodes with a connected input are aliased *)
  Definition tgt (k l : nat) : Z :=
    if Nat.ltb l nl && Nat.ltb (drv l) k && String.eqb (n_kind (get_node c (drv l))) "__fork__" then
      match pin (n_ins (get_node c (drv l))) 0 with
      | Some l0 => match stem_walk (S NN) c l0 with Some s => Z.of_nat s | None => (-1)%Z end
      | None => (-1)%Z
      end
    else (-1)%Z.

  Definition stem_step (len : nat) (acc : option (list Z)) (f : node) : option (list Z) :=
    match acc with None => None | Some st =>
      if String.eqb (n_kind f) "__fork__" then
        match pin (n_ins f) 0 with
        | None => Some st
        | Some l0 => match stem_walk (S NN) c l0 with
                     | None => None
                     | Some stem => Some (fold_left (fun s ol => setZ s ol (Z.of_nat stem)) (somes (n_outs f)) st)
                     end
        end
      else Some st end.

  Lemma build_stems_eq len : build_stems c true len = fold_left (stem_step len) (c_nodes c) (Some (repeat (-1)%Z len)).
  Proof. reflexivity. Qed.

  Lemma stem_step_none len l : fold_left (stem_step len) l None = None.
  Proof. induction l; simpl; auto. Qed.

  Lemma tgt_S_other k l : drv l <> k -> tgt (S k) l = tgt k l.
  Proof.
    intros H. unfold tgt. replace (Nat.ltb (drv l) (S k)) with (Nat.ltb (drv l) k); [reflexivity|].
    destruct (Nat.ltb (drv l) k) eqn:E1, (Nat.ltb (drv l) (S k)) eqn:E2; auto;
      rewrite ?Nat.ltb_lt, ?Nat.ltb_ge in *; lia.
  Qed.

  Lemma tgt_k_self k l : drv l = k -> tgt k l = (-1)%Z.
  Proof.
    intros H. unfold tgt. rewrite H, Nat.ltb_irrefl, andb_false_r. reflexivity.
  Qed.

  Lemma stems_fold len (Hlen : nl <= len) : forall rest done st stems,
    c_nodes c = done ++ rest -> length st = len ->
    (forall l, nth l st (-1)%Z = tgt (length done) l) ->
    fold_left (stem_step len) rest (Some st) = Some stems ->
    (forall l, nth l stems (-1)%Z = tgt NN l) /\
    (forall f l0, In f rest -> String.eqb (n_kind f) "__fork__" = true -> pin (n_ins f) 0 = Some l0 ->
       stem_walk (S NN) c l0 <> None).
  Proof.
    induction rest as [|f rest IH]; intros done st stems E L H F.
    - simpl in F. injection F as <-. rewrite E, app_nil_r. split; [exact H|]. intros f l0 [].
    - assert (Wk : forall (P : Prop), P ->
                (forall f' l0, In f' rest -> String.eqb (n_kind f') "__fork__" = true -> pin (n_ins f') 0 = Some l0 ->
                   stem_walk (S NN) c l0 <> None) ->
                (String.eqb (n_kind f) "__fork__" = true -> forall l0, pin (n_ins f) 0 = Some l0 -> stem_walk (S NN) c l0 <> None) ->
                P /\ (forall f' l0, In f' (f :: rest) -> String.eqb (n_kind f') "__fork__" = true -> pin (n_ins f') 0 = Some l0 ->
                   stem_walk (S NN) c l0 <> None)).
      { intros P HP H1 H2. split; [exact HP|]. intros f' l0 [<-|Hin]; [intros A B; exact (H2 A l0 B)|apply H1; exact Hin]. }
      set (k := length done).
      assert (Hk : k < NN) by (rewrite E, app_length; simpl; unfold k; lia).
      assert (Ef : get_node c k = f).
      { unfold get_node. rewrite E. unfold k. rewrite app_nth2 by lia. rewrite Nat.sub_diag. reflexivity. }
      assert (E' : c_nodes c = (done ++ [f]) ++ rest) by (rewrite <- app_assoc; exact E).
      assert (L' : length (done ++ [f]) = S k) by (rewrite app_length; simpl; unfold k; lia).
      cbn [fold_left] in F. unfold stem_step at 2 in F.
      destruct (String.eqb (n_kind f) "__fork__") eqn:Ek.
      + destruct (pin (n_ins f) 0) as [l0|] eqn:Ep.
        * destruct (stem_walk (S NN) c l0) as [s|] eqn:Ew; [|rewrite stem_step_none in F; discriminate].
          destruct (fold_setZ (Z.of_nat s) (-1)%Z (somes (n_outs f)) st) as [L2 H2].
          { intros ol Hol. rewrite <- Ef in Hol. apply (wf_in_outs c WF k ol Hk) in Hol. lia. }
          cbv zeta in L2, H2.
          cut (forall l, nth l (fold_left (fun s1 ol => setZ s1 ol (Z.of_nat s)) (somes (n_outs f)) st) (-1)%Z = tgt (length (done ++ [f])) l).
          { intros H'. destruct (IH (done ++ [f]) _ stems E' (eq_trans L2 L) H' F) as [R1 R2].
            apply Wk; [exact R1|exact R2|]. intros _ l1 El1. try rewrite Ep in El1. injection El1 as <-. rewrite Ew. discriminate. }
          intros l. rewrite L'. destruct (H2 l) as [Hin Hout].
          destruct (in_dec Nat.eq_dec l (somes (n_outs f))) as [Hi|Hn].
          -- rewrite (Hin Hi). rewrite <- Ef in Hi. apply (wf_in_outs c WF k l Hk) in Hi. destruct Hi as [Hl Hd].
             unfold tgt. rewrite Hd, Ef, Ek, Ep, Ew.
             rewrite (proj2 (Nat.ltb_lt l nl) Hl), (proj2 (Nat.ltb_lt k (S k))) by lia. reflexivity.
          -- rewrite (Hout Hn), H. fold k. destruct (Nat.eq_dec (drv l) k) as [Hd|Hd].
             ++ rewrite (tgt_k_self k l Hd). unfold tgt.
                destruct (Nat.ltb l nl) eqn:El; [|reflexivity]. apply Nat.ltb_lt in El.
                exfalso. apply Hn. rewrite <- Ef. apply (wf_in_outs c WF k l Hk). auto.
             ++ symmetry. apply tgt_S_other. exact Hd.
        * cut (forall l, nth l st (-1)%Z = tgt (length (done ++ [f])) l).
          { intros H'. destruct (IH (done ++ [f]) st stems E' L H' F) as [R1 R2].
            apply Wk; [exact R1|exact R2|]. intros _ l1 El1. try rewrite Ep in El1. discriminate. }
          intros l. rewrite L', H. fold k. destruct (Nat.eq_dec (drv l) k) as [Hd|Hd].
          -- rewrite (tgt_k_self k l Hd). unfold tgt. rewrite Hd, Ef, Ep.
             destruct (_ && _); reflexivity.
          -- symmetry. apply tgt_S_other. exact Hd.
      + cut (forall l, nth l st (-1)%Z = tgt (length (done ++ [f])) l).
        { intros H'. destruct (IH (done ++ [f]) st stems E' L H' F) as [R1 R2].
          apply Wk; [exact R1|exact R2|]. intros Ek'. try rewrite Ek in Ek'. discriminate. }
        intros l. rewrite L', H. fold k. destruct (Nat.eq_dec (drv l) k) as [Hd|Hd].
        * rewrite (tgt_k_self k l Hd). unfold tgt. rewrite Hd, Ef, Ek, andb_false_r. reflexivity.
        * symmetry. apply tgt_S_other. exact Hd.
  Qed.

  Lemma stems_spec len stems : nl <= len -> build_stems c true len = Some stems ->
    (forall l, nth l stems (-1)%Z = tgt NN l) /\
    (forall f l0, In f (c_nodes c) -> String.eqb (n_kind f) "__fork__" = true -> pin (n_ins f) 0 = Some l0 ->
       stem_walk (S NN) c l0 <> None).
  Proof.
    intros Hlen H. rewrite build_stems_eq in H.
    apply (stems_fold len Hlen (c_nodes c) [] (repeat (-1)%Z len) stems); auto.
    - apply repeat_length.
    - intros l. rewrite nth_repeat. unfold tgt. simpl length. 
      replace (Nat.ltb (drv l) 0) with false by (symmetry; apply Nat.ltb_ge; lia).
      rewrite andb_false_r. reflexivity.
  Qed.
End Stems.

Lemma index_of_lt_app d : forall l1 l2 j, index_of d (l1 ++ l2) = Some j -> j < length l1 -> In d l1.
Proof.
  induction l1 as [|y l1 IH]; intros l2 j H Hj; [simpl in Hj; lia|].
  simpl in H. destruct (Nat.eqb d y) eqn:E.
  - apply Nat.eqb_eq in E. left. auto.
  - destruct (index_of d (l1 ++ l2)) as [j'|] eqn:E2; [|discriminate]. injection H as <-.
    right. apply (IH l2 j' E2). simpl in Hj. lia.
Qed.

Lemma lower_fork_kind nd : String.eqb (n_kind nd) "__fork__" = true -> is_fork nd = true.
Proof. intros H. apply String.eqb_eq in H. unfold is_fork. rewrite H. vm_compute. reflexivity. Qed.

Definition fops_t (c : netlist) : nat -> list sop :=
  node_ops c (s_nodes c) true (length (c_lines c)) (length (c_lines c) + 1) (length (c_lines c) + 3).

Lemma build_ops_t_eq c : build_ops c true = flat_map (fops_t c) (topo_order c).
Proof. reflexivity. Qed.

Lemma fops_t_eq c n :
  fops_t c n = match iface_pos c n with
               | Some _ => fops c n
               | None => if is_fork (get_node c n) then [] else fops c n
               end.
Proof.
  rewrite fops_eq. unfold fops_t, node_ops, iface_pos, port_wire, gate_ops, iface_ops. unfold is_fork. cbv zeta.
  match goal with |- context [match ?X with Some _ => _ | None => _ end] => destruct X end; [reflexivity|].
  destruct (String.eqb (lower (n_kind (get_node c n))) "__fork__"); reflexivity.
Qed.

Lemma fops_t_cases c n : fops_t c n = fops c n \/
  (fops_t c n = [] /\ iface_pos c n = None /\ is_fork (get_node c n) = true).
Proof.
  rewrite fops_t_eq. destruct (iface_pos c n); [auto|]. destruct (is_fork (get_node c n)); auto.
Qed.

Section AliasExec.
  Context {V : Type} (sem : N -> V -> V -> V -> V -> V) (al : nat -> nat).
  Notation ex := (iexec sem al).

  Lemma iexec_notin_a : forall ops (e : @ienv V) k, ~ In k (map s_out ops) -> ex ops e k = e k.
  Proof.
    induction ops as [|o r IH]; intros e k H; [reflexivity|].
    change (ex (o :: r) e) with (ex r (istep sem al e o)). rewrite IH.
    - unfold istep, iupd. destruct (Nat.eqb k (s_out o)) eqn:E; [|reflexivity].
      apply Nat.eqb_eq in E. exfalso. apply H. left. auto.
    - intros Hin. apply H. right. exact Hin.
  Qed.

  Lemma iexec_final_a pre o post (e : @ienv V) :
    ~ In (s_out o) (map s_out post) ->
    (forall x, In x [s_i0 o; s_i1 o; s_i2 o; s_i3 o] -> al x <> s_out o /\ ~ In (al x) (map s_out post)) ->
    ex (pre ++ o :: post) e (s_out o) =
    sem (s_lut o) (ex (pre ++ o :: post) e (al (s_i0 o))) (ex (pre ++ o :: post) e (al (s_i1 o)))
                  (ex (pre ++ o :: post) e (al (s_i2 o))) (ex (pre ++ o :: post) e (al (s_i3 o))).
  Proof.
    intros Ho Hr. rewrite (iexec_app sem al pre (o :: post) e).
    set (e1 := ex pre e). change (ex (o :: post) e1) with (ex post (istep sem al e1 o)).
    assert (R : forall x, In x [s_i0 o; s_i1 o; s_i2 o; s_i3 o] ->
              ex post (istep sem al e1 o) (al x) = e1 (al x)).
    { intros x Hx. destruct (Hr x Hx) as [N1 N2]. rewrite iexec_notin_a by exact N2.
      unfold istep, iupd. apply Nat.eqb_neq in N1. rewrite N1. reflexivity. }
    rewrite (R (s_i0 o)), (R (s_i1 o)), (R (s_i2 o)), (R (s_i3 o)) by (cbn [In]; tauto).
    rewrite iexec_notin_a by exact Ho. unfold istep, iupd. rewrite Nat.eqb_refl. reflexivity.
  Qed.
End AliasExec.

Section Strip.
  Variable c : netlist.
  Hypothesis WF : wf_netlist c.
  Hypothesis AC : comb_acyclic c.
  Variable len : nat.
  Variable stems : list Z.
  Hypothesis Hlen : length (c_lines c) <= len.
  Hypothesis Hst : build_stems c true len = Some stems.
  Notation nl := (length (c_lines c)).
  Notation NN := (length (c_nodes c)).
  Notation drv l := (l_drv (get_line c l)).
  Notation rdr l := (l_rdr (get_line c l)).
  Notation T := (topo_order c).
  Notation al := (stemmed stems).
  Notation fk n := (String.eqb (n_kind (get_node c n)) "__fork__").

  Definition posLt a b := exists j i, index_of a T = Some j /\ index_of b T = Some i /\ j < i.

  Lemma posLt_trans a b d : posLt a b -> posLt b d -> posLt a d.
  Proof.
    intros (j & i & H1 & H2 & H3) (j' & i' & H4 & H5 & H6). rewrite H2 in H4. injection H4 as <-.
    exists j, i'. repeat split; auto. lia.
  Qed.

  Lemma in_topo n : n < NN -> In n T.
  Proof.
    clear Hlen Hst. intros Hn. apply (Permutation_in _ (Permutation_sym (topo_complete c WF AC))). apply in_seq. lia.
  Qed.

  Lemma drv_before x : x < nl -> is_source c (rdr x) = false -> posLt (drv x) (rdr x).
  Proof.
    intros Hx Hs. pose proof (wf_rdr_lt c WF x Hx) as Hr.
    destruct (index_of_In _ _ (in_topo _ Hr)) as (i & Hi & _).
    destruct (topo_drivers_first c WF _ i Hi Hs (drv x)) as (j & Hj & Hlt).
    { unfold drivers. apply (in_map (fun l => l_drv (get_line c l))).
      apply (wf_in_ins c WF _ x Hr). auto. }
    exists j, i. auto.
  Qed.

  Lemma fork_nonsource n l0 : fk n = true -> pin (n_ins (get_node c n)) 0 = Some l0 -> is_source c n = false.
  Proof.
    intros Hk Hp. unfold is_source. rewrite (fork_not_seq _ Hk), orb_false_r. apply Nat.eqb_neq.
    rewrite connected_somes. apply pin_somes in Hp. destruct (somes _); [destruct Hp|discriminate].
  Qed.

  Lemma walk_before : forall f l s, l < nl -> stem_walk f c l = Some s ->
    s < nl /\ (s = l \/ posLt (drv s) (drv l)).
  Proof.
    induction f as [|f IH]; intros l s Hl H; [discriminate|].
    rewrite stem_walk_S in H. destruct (fk (drv l)) eqn:Ek.
    - destruct (pin (n_ins (get_node c (drv l))) 0) as [l'|] eqn:Ep.
      + pose proof (wf_drv_lt c WF l Hl) as Hd. pose proof (pin_somes _ _ _ Ep) as Hin.
        apply (wf_in_ins c WF _ l' Hd) in Hin. destruct Hin as [Hl' Hr].
        destruct (IH l' s Hl' H) as [Hs Hc]. split; [exact Hs|]. right.
        assert (B : posLt (drv l') (drv l)).
        { rewrite <- Hr. apply drv_before; [exact Hl'|]. rewrite Hr. apply (fork_nonsource _ l' Ek Ep). }
        destruct Hc as [->|Hc]; [exact B|apply (posLt_trans _ _ _ Hc B)].
      + injection H as <-. auto.
    - injection H as <-. auto.
  Qed.

  Lemma nth_stems l : nth l stems (-1)%Z = tgt c NN l.
  Proof. apply (stems_spec c WF len stems Hlen Hst). Qed.

  Lemma walk_ok n l0 : n < NN -> fk n = true -> pin (n_ins (get_node c n)) 0 = Some l0 ->
    exists s, stem_walk (S NN) c l0 = Some s.
  Proof.
    intros Hn Hk Hp. destruct (stems_spec c WF len stems Hlen Hst) as [_ H].
    specialize (H (get_node c n) l0 (nth_In _ _ Hn) Hk Hp).
    destruct (stem_walk (S NN) c l0) as [s|]; [eauto|congruence].
  Qed.

  Lemma alias_plain x : ~ (x < nl /\ fk (drv x) = true /\ pin (n_ins (get_node c (drv x))) 0 <> None) -> al x = x.
  Proof.
    intros H. unfold stemmed. rewrite nth_stems. unfold tgt.
    destruct (Nat.ltb x nl) eqn:E1; [|reflexivity]. apply Nat.ltb_lt in E1.
    destruct (Nat.ltb (drv x) NN); [|reflexivity]. cbn [andb].
    destruct (fk (drv x)) eqn:E2; [|reflexivity].
    destruct (pin (n_ins (get_node c (drv x))) 0) eqn:E3; [|reflexivity].
    exfalso. apply H. repeat split; auto. discriminate.
  Qed.

  Lemma alias_ge x : nl <= x -> al x = x.
  Proof. intros H. apply alias_plain. intros (H1 & _). lia. Qed.

  Lemma alias_stem x l0 : x < nl -> fk (drv x) = true -> pin (n_ins (get_node c (drv x))) 0 = Some l0 ->
    exists s, stem_walk (S NN) c l0 = Some s /\ al x = s.
  Proof.
    intros Hx Hk Hp. pose proof (wf_drv_lt c WF x Hx) as Hd.
    destruct (walk_ok _ l0 Hd Hk Hp) as [s Hs]. exists s. split; [exact Hs|].
    unfold stemmed. rewrite nth_stems. unfold tgt.
    rewrite (proj2 (Nat.ltb_lt _ _) Hx), (proj2 (Nat.ltb_lt _ _) Hd), Hk, Hp, Hs. cbn [andb].
    destruct (Z.leb 0 (Z.of_nat s)) eqn:E; [apply Nat2Z.id|]. apply Z.leb_gt in E. lia.
  Qed.

  Lemma alias_lt x : x < nl -> al x < nl /\ (al x = x \/ posLt (drv (al x)) (drv x)).
  Proof.
    intros Hx. pose proof (wf_drv_lt c WF x Hx) as Hd.
    destruct (fk (drv x)) eqn:Ek.
    - destruct (pin (n_ins (get_node c (drv x))) 0) as [l0|] eqn:Ep.
      + destruct (alias_stem x l0 Hx Ek Ep) as (s & Hs & ->).
        pose proof (pin_somes _ _ _ Ep) as Hin. apply (wf_in_ins c WF _ l0 Hd) in Hin. destruct Hin as [Hl0 Hr].
        destruct (walk_before _ l0 s Hl0 Hs) as [Hsl Hc]. split; [exact Hsl|]. right.
        assert (B : posLt (drv l0) (drv x)).
        { rewrite <- Hr. apply drv_before; [exact Hl0|]. rewrite Hr. apply (fork_nonsource _ l0 Ek Ep). }
        destruct Hc as [->|Hc]; [exact B|apply (posLt_trans _ _ _ Hc B)].
      + rewrite alias_plain; [auto|]. intros (_ & _ & H). congruence.
    - rewrite alias_plain; [auto|]. intros (_ & H & _). congruence.
  Qed.

  (** a fork output and the fork's input are aliased to the same stem *)
  Lemma alias_fork x l0 : x < nl -> fk (drv x) = true -> pin (n_ins (get_node c (drv x))) 0 = Some l0 ->
    al x = al l0.
  Proof.
    intros Hx Hk Hp. pose proof (wf_drv_lt c WF x Hx) as Hd.
    destruct (alias_stem x l0 Hx Hk Hp) as (s & Hs & ->).
    pose proof (pin_somes _ _ _ Hp) as Hin. apply (wf_in_ins c WF _ l0 Hd) in Hin. destruct Hin as [Hl0 Hr].
    rewrite stem_walk_S in Hs. destruct (fk (drv l0)) eqn:Ek.
    - destruct (pin (n_ins (get_node c (drv l0))) 0) as [l1|] eqn:Ep.
      + apply stem_walk_mono in Hs. destruct (alias_stem l0 l1 Hl0 Ek Ep) as (s' & Hs' & ->). congruence.
      + injection Hs as <-. symmetry. apply alias_plain. intros (_ & _ & H). congruence.
    - injection Hs as <-. symmetry. apply alias_plain. intros (_ & H & _). congruence.
  Qed.

  Lemma core_t pre o post : build_ops c true = pre ++ o :: post ->
    (s_out o = nl + 1 \/ ~ In (s_out o) (map s_out post)) /\
    (forall x, In x [s_i0 o; s_i1 o; s_i2 o; s_i3 o] ->
       al x <> nl + 1 /\ al x <> s_out o /\ ~ In (al x) (map s_out post)).
  Proof.
    intros E. rewrite build_ops_t_eq in E. apply flat_map_split in E.
    destruct E as (T1 & n & T2 & a & b & ET & En & -> & ->).
    destruct (topo_nodup c WF) as [Hnd Hlt]. rewrite ET in Hnd, Hlt.
    assert (Hn : n < NN) by (apply Hlt; apply in_or_app; right; left; reflexivity).
    assert (En' : fops c n = a ++ o :: b).
    { destruct (fops_t_cases c n) as [H|[H _]]; [rewrite <- H; exact En|].
      rewrite H in En. destruct a; discriminate. }
    assert (Ho : In o (fops c n)) by (rewrite En'; apply in_or_app; right; left; reflexivity).
    assert (Hsub : forall m o', In o' (fops_t c m) -> In o' (fops c m)).
    { intros m o' H. destruct (fops_t_cases c m) as [H'|[H' _]]; rewrite H' in H; [exact H|destruct H]. }
    pose proof (NoDup_remove_2 _ _ _ Hnd) as HnT.
    assert (Hlater : forall y, In y (map s_out (b ++ flat_map (fops_t c) T2)) ->
              y = nl + 1 \/ (y < nl /\ (In (drv y) T2 \/ (drv y = n /\ In y (map s_out b))))).
    { intros y Hy. rewrite map_app in Hy. apply in_app_or in Hy. destruct Hy as [Hy|Hy].
      - pose proof Hy as Hy'. apply in_map_iff in Hy. destruct Hy as (o' & <- & Ho').
        assert (Ho2 : In o' (fops c n)) by (rewrite En'; apply in_or_app; right; right; exact Ho').
        destruct (fops_out c WF n o' Hn Ho2) as [[H1 H2]|H1]; auto.
      - apply in_map_iff in Hy. destruct Hy as (o' & <- & Ho'). apply in_flat_map in Ho'.
        destruct Ho' as (m & Hm & Ho'). apply Hsub in Ho'.
        assert (HmN : m < NN) by (apply Hlt; apply in_or_app; right; right; exact Hm).
        destruct (fops_out c WF m o' HmN Ho') as [[H1 H2]|H1]; auto. right. split; [exact H1|]. left. rewrite H2. exact Hm. }
    pose proof (fops_out c WF n o Hn Ho) as Hout.
    split.
    - destruct Hout as [[H1 H2]|H1]; [right|left; exact H1]. intros Hin.
      destruct (Hlater _ Hin) as [H|(_ & [H|[_ H]])].
      + lia.
      + rewrite H2 in H. apply HnT. apply in_or_app. right. exact H.
      + pose proof (fops_nodup c WF n Hn) as Hnd2. rewrite En', map_app in Hnd2. cbn [map] in Hnd2.
        apply NoDup_remove_2 in Hnd2. apply Hnd2. apply in_or_app. right. exact H.
    - intros x Hx. destruct (fops_reads c WF n o x Hn Ho Hx) as [Hz|[Hz|(Hi & Hxl & Hr)]].
      + rewrite alias_ge by lia. split; [lia|]. split; [lia|]. intros Hin. destruct (Hlater _ Hin) as [H|(H & _)]; lia.
      + rewrite alias_ge by lia. split; [lia|]. split; [lia|]. intros Hin. destruct (Hlater _ Hin) as [H|(H & _)]; lia.
      + assert (Hsom : In x (somes (n_ins (get_node c n)))) by (apply (wf_in_ins c WF n x Hn); auto).
        assert (Hsrc : is_source c n = false).
        { unfold is_source. rewrite (iface_none_not_seq c n Hn Hi), orb_false_r. apply Nat.eqb_neq.
          rewrite connected_somes. destruct (somes (n_ins (get_node c n))); [destruct Hsom|discriminate]. }
        assert (Hdx : In (drv x) T1).
        { apply (topo_split_drivers c WF T1 n T2 (drv x) ET Hsrc). unfold drivers.
          apply (in_map (fun l => l_drv (get_line c l))). exact Hsom. }
        destruct (alias_lt x Hxl) as [Hsl Hc]. set (s := al x) in *.
        assert (Hd : In (drv s) T1).
        { destruct Hc as [->|(j & i & Hj & Hi' & Hji)]; [exact Hdx|].
          rewrite ET in Hj, Hi'. rewrite index_of_app_l in Hi' by exact Hdx.
          destruct (index_of_In _ _ Hdx) as (i2 & Hi2 & Hl2). rewrite Hi2 in Hi'. injection Hi' as <-.
          apply (index_of_lt_app _ _ _ _ Hj). lia. }
        assert (Hdn : drv s <> n).
        { intros E. apply HnT. apply in_or_app. left. rewrite <- E. exact Hd. }
        assert (HdT2 : ~ In (drv s) T2).
        { intros H. apply (NoDup_app_disj _ _ _ Hnd Hd). right. exact H. }
        split; [lia|]. split.
        * intros E. destruct Hout as [[H1 H2]|H1]; [|lia]. rewrite <- E in H2. contradiction.
        * intros Hin. destruct (Hlater _ Hin) as [H|(_ & [H|[H _]])]; [lia|contradiction|contradiction].
  Qed.
End Strip.

Section StripSol.
  Context {V : Type} (sem : N -> V -> V -> V -> V -> V) (zero : V).
  Variable c : netlist.
  Variable stim : nat -> V.
  Variable len : nat.
  Variable stems : list Z.
  Hypothesis WF : wf_netlist c.
  Hypothesis AC : comb_acyclic c.
  Hypothesis Hlen : length (c_lines c) <= len.
  Hypothesis Hst : build_stems c true len = Some stems.
  Notation nl := (length (c_lines c)).
  Notation NN := (length (c_nodes c)).
  Notation drv l := (l_drv (get_line c l)).
  Notation al := (stemmed stems).
  Notation fk n := (String.eqb (n_kind (get_node c n)) "__fork__").
  (** stripped nodes (non-interface, kind "__fork__" up to case) are spelled exactly "__fork__" *)
  Hypothesis Hkind : forall n, n < NN -> iface_pos c n = None -> is_fork (get_node c n) = true ->
    n_kind (get_node c n) = "__fork__"%string.
  (** stripped nodes are plain copies of their input pin 0 *)
  Hypothesis Hcopy : forall n, n < NN -> iface_pos c n = None -> is_fork (get_node c n) = true ->
    forall w : nat -> V,
      sem (lutv "BUF1") (pinv zero w (n_ins (get_node c n)) 0) (pinv zero w (n_ins (get_node c n)) 1)
                        (pinv zero w (n_ins (get_node c n)) 2) (pinv zero w (n_ins (get_node c n)) 3)
      = pinv zero w (n_ins (get_node c n)) 0.

  Let E := iexec sem al (build_ops c true) (init_env zero c stim).
  Let v := fun l => E (al l).

  Lemma in_build_t_inv o : In o (build_ops c true) ->
    exists m, m < NN /\ In o (fops c m) /\ ~ (iface_pos c m = None /\ is_fork (get_node c m) = true).
  Proof.
    rewrite build_ops_t_eq. intros H. apply in_flat_map in H. destruct H as (m & Hm & Ho).
    destruct (topo_nodup c WF) as [_ Hlt]. exists m. split; [apply Hlt; exact Hm|].
    destruct (fops_t_cases c m) as [H|(H & _)]; rewrite H in Ho; [|destruct Ho].
    split; [exact Ho|]. intros [H1 H2]. rewrite fops_t_eq, H1, H2 in H. rewrite <- H in Ho. destruct Ho.
  Qed.

  Lemma in_build_t n o : n < NN -> In o (fops_t c n) -> In o (build_ops c true).
  Proof.
    intros Hn Ho. rewrite build_ops_t_eq. apply in_flat_map. exists n. split; [|exact Ho].
    apply (Permutation_in _ (Permutation_sym (topo_complete c WF AC))). apply in_seq. lia.
  Qed.

  Lemma E_unwritten k : (forall o, In o (build_ops c true) -> s_out o <> k) -> E k = init_env zero c stim k.
  Proof.
    intros H. unfold E. apply iexec_notin_a. intros Hin. apply in_map_iff in Hin.
    destruct Hin as (o & Eo & Ho). apply (H o Ho Eo).
  Qed.

  Lemma outs_t o : In o (build_ops c true) -> s_out o < nl \/ s_out o = nl + 1.
  Proof.
    intros H. destruct (in_build_t_inv o H) as (m & Hm & Ho & _).
    destruct (fops_out c WF m o Hm Ho) as [[H1 _]|H1]; auto.
  Qed.

  Lemma E_zero : E nl = zero.
  Proof.
    rewrite E_unwritten by (intros o Ho; destruct (outs_t o Ho); lia). unfold init_env.
    destruct (Nat.leb (nl + 3) nl) eqn:Eq; [apply Nat.leb_le in Eq; lia|reflexivity].
  Qed.

  Lemma E_ppi p : E (nl + 3 + p) = stim p.
  Proof.
    rewrite E_unwritten by (intros o Ho; destruct (outs_t o Ho); lia). unfold init_env.
    destruct (Nat.leb (nl + 3) (nl + 3 + p)) eqn:Eq; [|apply Nat.leb_gt in Eq; lia]. f_equal. lia.
  Qed.

  Lemma E_stripped n ol : n < NN -> iface_pos c n = None -> is_fork (get_node c n) = true ->
    In ol (somes (n_outs (get_node c n))) -> E ol = zero.
  Proof.
    intros Hn Hi Hf Hol. apply (wf_in_outs c WF n ol Hn) in Hol. destruct Hol as [Hl Hd].
    rewrite E_unwritten.
    - unfold init_env. destruct (Nat.leb (nl + 3) ol) eqn:Eq; [apply Nat.leb_le in Eq; lia|reflexivity].
    - intros o Ho Eo. destruct (in_build_t_inv o Ho) as (m & Hm & Hom & Hns).
      destruct (fops_out c WF m o Hm Hom) as [[_ H2]|H2]; [|lia].
      rewrite Eo, Hd in H2. subst m. apply Hns. auto.
  Qed.

  Lemma op_final_t o : In o (build_ops c true) -> s_out o <> nl + 1 ->
    E (s_out o) = sem (s_lut o) (E (al (s_i0 o))) (E (al (s_i1 o))) (E (al (s_i2 o))) (E (al (s_i3 o))).
  Proof.
    intros Ho Hs. apply in_split in Ho. destruct Ho as (pre & post & Eq).
    destruct (core_t c WF AC len stems Hlen Hst pre o post Eq) as [[H1|H1] H2]; [contradiction|].
    unfold E. rewrite Eq. apply iexec_final_a; [exact H1|].
    intros x Hx. destruct (H2 x Hx) as (_ & A & B). auto.
  Qed.

  Lemma E_pin l k : E (al (pin_or l k nl)) = pinv zero v l k.
  Proof.
    unfold pin_or, pinv. destruct (pin l k); [reflexivity|].
    rewrite (alias_ge c WF len stems Hlen Hst) by lia. apply E_zero.
  Qed.

  Lemma node_ok_strip n : n < NN -> node_ok sem zero c stim v n.
  Proof.
    intros Hn. unfold node_ok. cbv zeta. pose proof (fops_t_eq c n) as Et. pose proof (fops_eq c n) as Ef.
    set (nd := get_node c n) in *.
    assert (Hout : forall k o, pin (n_outs nd) k = Some o -> o < nl /\ drv o = n).
    { intros k o Ho. apply pin_somes in Ho. apply (wf_in_outs c WF n o Hn). exact Ho. }
    assert (Fin : forall o, In o (fops_t c n) -> s_out o < nl -> al (s_out o) = s_out o ->
              v (s_out o) = sem (s_lut o) (E (al (s_i0 o))) (E (al (s_i1 o))) (E (al (s_i2 o))) (E (al (s_i3 o)))).
    { intros o Ho Hl Ha. unfold v. rewrite Ha. apply op_final_t; [apply (in_build_t n o Hn Ho)|lia]. }
    destruct (iface_pos c n) as [p|] eqn:Ei.
    - assert (Hplain : forall k o, pin (n_outs nd) k = Some o -> al o = o).
      { intros k o Ho. destruct (Hout k o Ho) as [Hl Hd]. apply (alias_plain c WF len stems Hlen Hst).
        intros (_ & H1 & H2). rewrite Hd in H1, H2. unfold iface_pos in Ei. fold nd in H1, H2.
        assert (Pw : port_wire (get_node c n) = true).
        { unfold port_wire. fold nd. rewrite H1. destruct (pin (n_ins nd) 0); [reflexivity|congruence]. }
        rewrite Pw in Ei. discriminate. }
      assert (G : forall l k o, pin (n_outs nd) k = Some o -> In (mkop l o (nl + 3 + p) nl nl nl) (fops c n) ->
                v o = sem l (stim p) zero zero zero).
      { intros l k o Hk Ho. rewrite <- Et in Ho.
        pose proof (Fin _ Ho) as F. cbn [mkop s_out s_lut s_i0 s_i1 s_i2 s_i3] in F.
        rewrite F; [|apply (Hout k o Hk)|apply (Hplain k o Hk)].
        rewrite !(alias_ge c WF len stems Hlen Hst) by lia. rewrite E_ppi, E_zero. reflexivity. }
      split.
      + intros o Ho. apply (G _ 0 o Ho).
        rewrite Ef. unfold iface_ops. cbv zeta. rewrite Ho. apply in_or_app. left. left. reflexivity.
      + destruct (is_dff nd) eqn:Ed.
        * intros o Ho. apply (G _ 1 o Ho).
          rewrite Ef. unfold iface_ops. cbv zeta. rewrite Ed, Ho. apply in_or_app. right. left. reflexivity.
        * intros k o Hk Ho. apply (G _ k o Ho).
          rewrite Ef. unfold iface_ops. cbv zeta. rewrite Ed. apply in_or_app. right.
          apply (in_map (fun o0 => mkop (lutv "BUF1") o0 (nl + 3 + p) nl nl nl)).
          destruct k as [|k]; [lia|]. destruct (n_outs nd) as [|a t].
          -- unfold pin in Ho. destruct k; discriminate.
          -- rewrite pin_S in Ho. cbn [tl]. eapply pin_somes. exact Ho.
    - destruct (is_fork nd) eqn:Ek.
      + intros k o Ho. pose proof (Hcopy n Hn Ei Ek v) as Hc. fold nd in Hc. rewrite Hc.
        destruct (Hout k o Ho) as [Hl Hd]. pose proof (Hkind n Hn Ei Ek) as Hk. fold nd in Hk.
        assert (Hfk : fk (drv o) = true) by (rewrite Hd; fold nd; rewrite Hk; reflexivity).
        unfold pinv. destruct (pin (n_ins nd) 0) as [l0|] eqn:Ep.
        * unfold v. f_equal. apply (alias_fork c WF len stems Hlen Hst o l0 Hl Hfk). rewrite Hd. exact Ep.
        * unfold v. rewrite (alias_plain c WF len stems Hlen Hst).
          -- apply (E_stripped n o Hn Ei Ek). eapply pin_somes. exact Ho.
          -- intros (_ & _ & H). rewrite Hd in H. fold nd in H. congruence.
      + pose proof (unconn_eqb c WF n 2 Hn) as U2. pose proof (unconn_eqb c WF n 3 Hn) as U3. fold nd in U2, U3.
        destruct (select_lut kind_prefixes (n_kind nd) (negb (is_some (pin (n_ins nd) 2)))
                             (negb (is_some (pin (n_ins nd) 3)))) as [sp|] eqn:Es; [|exact I].
        intros o Ho. destruct (Hout 0 o Ho) as [Hl Hd].
        assert (Hin : In (mkop sp o (pin_or (n_ins nd) 0 nl) (pin_or (n_ins nd) 1 nl)
                               (pin_or (n_ins nd) 2 nl) (pin_or (n_ins nd) 3 nl)) (fops_t c n)).
        { rewrite Et, Ef. unfold gate_ops. cbv zeta. rewrite Ek, U2, U3, Es.
          assert (Eo : pin_or (n_outs nd) 0 (nl + 1) = o) by (unfold pin_or; rewrite Ho; reflexivity).
          rewrite Eo. left. reflexivity. }
        pose proof (Fin _ Hin) as F. cbn [mkop s_out s_lut s_i0 s_i1 s_i2 s_i3] in F.
        rewrite F; [rewrite !E_pin; reflexivity|exact Hl|].
        apply (alias_plain c WF len stems Hlen Hst). intros (_ & H & _). rewrite Hd in H. fold nd in H.
        apply lower_fork_kind in H. congruence.
  Qed.
End StripSol.

(** C3, general form: [Hcopy] says the BUF1 row copies pin 0 on stripped nodes *)
Theorem build_ops_strip_solution_gen {V} (sem : N -> V -> V -> V -> V -> V) (zero : V) c stim len stems :
  wf_netlist c -> comb_acyclic c -> length (c_lines c) <= len -> build_stems c true len = Some stems ->
  (forall n, n < length (c_nodes c) -> iface_pos c n = None -> is_fork (get_node c n) = true ->
     n_kind (get_node c n) = "__fork__"%string) ->
  (forall n, n < length (c_nodes c) -> iface_pos c n = None -> is_fork (get_node c n) = true ->
     forall w : nat -> V,
       sem (lutv "BUF1") (pinv zero w (n_ins (get_node c n)) 0) (pinv zero w (n_ins (get_node c n)) 1)
                         (pinv zero w (n_ins (get_node c n)) 2) (pinv zero w (n_ins (get_node c n)) 3)
       = pinv zero w (n_ins (get_node c n)) 0) ->
  solution sem zero c stim
    (fun l => iexec sem (stemmed stems) (build_ops c true) (init_env zero c stim) (stemmed stems l)).
Proof.
  intros WF AC Hlen Hst Hkind Hcopy n Hn.
  apply (node_ok_strip sem zero c stim len stems WF AC Hlen Hst Hkind Hcopy n Hn).
Qed.

(** C3 as proposed: BUF1 copies when its other operands are zero, and stripped forks have pins 1..3 unconnected.
    (That every fork has its input connected is NOT needed.) *)
Theorem build_ops_strip_solution {V} (sem : N -> V -> V -> V -> V -> V) (zero : V) c stim len stems :
  wf_netlist c -> comb_acyclic c -> length (c_lines c) <= len -> build_stems c true len = Some stems ->
  (forall x, sem (lutv "BUF1") x zero zero zero = x) ->
  (forall n, n < length (c_nodes c) -> iface_pos c n = None -> is_fork (get_node c n) = true ->
     n_kind (get_node c n) = "__fork__"%string /\
     forall k, 1 <= k <= 3 -> pin (n_ins (get_node c n)) k = None) ->
  solution sem zero c stim
    (fun l => iexec sem (stemmed stems) (build_ops c true) (init_env zero c stim) (stemmed stems l)).
Proof.
  intros WF AC Hlen Hst Hbuf Hf. apply (build_ops_strip_solution_gen sem zero c stim len stems WF AC Hlen Hst).
  - intros n Hn Hi Hk. apply (Hf n Hn Hi Hk).
  - intros n Hn Hi Hk w. destruct (Hf n Hn Hi Hk) as [_ Hp]. unfold pinv at 2 3 4.
    rewrite (Hp 1), (Hp 2), (Hp 3) by lia. apply Hbuf.
Qed.

(** variant: BUF1 ignores its other operands (true of [sem_lut]); then no condition on the forks' pins *)
Theorem build_ops_strip_solution_buf {V} (sem : N -> V -> V -> V -> V -> V) (zero : V) c stim len stems :
  wf_netlist c -> comb_acyclic c -> length (c_lines c) <= len -> build_stems c true len = Some stems ->
  (forall x b cc d, sem (lutv "BUF1") x b cc d = x) ->
  (forall n, n < length (c_nodes c) -> iface_pos c n = None -> is_fork (get_node c n) = true ->
     n_kind (get_node c n) = "__fork__"%string) ->
  solution sem zero c stim
    (fun l => iexec sem (stemmed stems) (build_ops c true) (init_env zero c stim) (stemmed stems l)).
Proof.
  intros WF AC Hlen Hst Hbuf Hf. apply (build_ops_strip_solution_gen sem zero c stim len stems WF AC Hlen Hst Hf).
  intros n Hn Hi Hk w. apply Hbuf.
Qed.

(** [Hkind] is necessary: [node_ops] strips by the lower-cased kind, [build_stems]/[stem_walk] alias by the exact
    kind "__fork__".  A non-interface node of kind "__FORK__" is stripped but not aliased: its output stays zero. *)
Module StripCounter.
  Definition cxf : netlist :=
    {| c_nodes := [ {| n_kind := "input";    n_ins := [];       n_outs := [Some 0] |};
                    {| n_kind := "__FORK__"; n_ins := [Some 0]; n_outs := [Some 1] |};
                    {| n_kind := "output";   n_ins := [Some 1]; n_outs := [] |} ];
       c_lines := [ {| l_drv := 0; l_dpin := 0; l_rdr := 1; l_rpin := 0 |};
                    {| l_drv := 1; l_dpin := 0; l_rdr := 2; l_rpin := 0 |} ];
       c_io := [0; 2] |}.
  Definition st (_ : nat) := true.
  Definition vstrip (stems : list Z) : nat -> bool :=
    fun l => iexec sem_lut (stemmed stems) (build_ops cxf true) (init_env false cxf st) (stemmed stems l).

  Example cxf_fails :
    (build_stems cxf true 9, solution_b Bool.eqb sem_lut false cxf st (vstrip (repeat (-1)%Z 9)), sol2_case cxf [true; false])
    = (Some (repeat (-1)%Z 9), false, true).
  Proof. vm_compute. reflexivity. Qed.

  Lemma cxf_wf : wf_netlist cxf.
  Proof.
    unfold wf_netlist. split; [|split].
    - intros l Hl. simpl in Hl. do 2 (destruct l as [|l]; [vm_compute; repeat split; lia|]). lia.
    - intros n k l Hn H. simpl in Hn.
      do 3 (destruct n as [|n];
            [repeat (destruct k as [|k]; simpl in H; try discriminate);
             inversion H; subst; vm_compute; repeat split; lia|]).
      lia.
    - intros n k l Hn H. simpl in Hn.
      do 3 (destruct n as [|n];
            [repeat (destruct k as [|k]; simpl in H; try discriminate);
             inversion H; subst; vm_compute; repeat split; lia|]).
      lia.
  Qed.

  Lemma cxf_acyclic : comb_acyclic cxf.
  Proof.
    exists (fun n => n). intros l Hl _. simpl in Hl. do 2 (destruct l as [|l]; [vm_compute; lia|]). lia.
  Qed.

  (** the stripped valuation is not a solution although every other hypothesis of C3 holds *)
  Theorem cxf_not_solution : forall stems, build_stems cxf true 9 = Some stems ->
    ~ solution sem_lut false cxf st (vstrip stems).
  Proof.
    intros stems H. vm_compute in H. injection H as <-. intros S.
    pose proof (S 1 ltac:(simpl; lia)) as N1. vm_compute in N1. specialize (N1 0 1 eq_refl). discriminate.
  Qed.
End StripCounter.

(** the example netlist of SemProofs with its fork stripped *)
Module StripExample.
  Import SemExample.
  Definition stems6 : list Z := [-1; 0; 0; -1; -1; -1; -1; -1; -1; -1; -1; -1; -1; -1; -1; -1; -1]%Z.

  Example ex6_stems : build_stems ex6 true 17 = Some stems6.
  Proof. vm_compute. reflexivity. Qed.

  (** no fork ops; the gate reads the stem (line 0) on both reconverging pins *)
  Example ex6_ops_strip : map (fun o => (s_lut o, s_out o, [s_i0 o; s_i1 o; s_i2 o; s_i3 o])) (build_ops ex6 true) =
    [ (lutv "BUF1", 0, [9; 6; 6; 6]); (lutv "BUF1", 4, [12; 6; 6; 6]); (lutv "INV1", 5, [12; 6; 6; 6]);
      (lutv "AO21", 3, [1; 6; 2; 6]) ].
  Proof. vm_compute. reflexivity. Qed.

  Example ex6_strip_solution {V} (sem : N -> V -> V -> V -> V -> V) (zero : V) (stim : nat -> V) :
    (forall x, sem (lutv "BUF1") x zero zero zero = x) ->
    solution sem zero ex6 stim
      (fun l => iexec sem (stemmed stems6) (build_ops ex6 true) (init_env zero ex6 stim) (stemmed stems6 l)).
  Proof.
    intros Hbuf. apply (build_ops_strip_solution sem zero ex6 stim 17 stems6 ex6_wf ex6_acyclic); auto.
    - simpl. lia.
    - intros n Hn Hi Hk. simpl in Hn.
      destruct n as [|[|n]]; [vm_compute in Hi; discriminate Hi| |].
      + split; [reflexivity|]. intros k Hk'. destruct k as [|[|[|[|k]]]]; try lia; reflexivity.
      + exfalso. do 4 (destruct n as [|n]; [vm_compute in Hi, Hk; first [discriminate Hi|discriminate Hk]|]). lia.
  Qed.
End StripExample.

Print Assumptions build_levels_valid.
Print Assumptions logic2_gate_by_gate.
Print Assumptions build_ops_strip_solution_gen.
Print Assumptions build_ops_strip_solution.
Print Assumptions build_ops_strip_solution_buf.
Print Assumptions StripCounter.cxf_not_solution.
Print Assumptions StripExample.ex6_strip_solution.
