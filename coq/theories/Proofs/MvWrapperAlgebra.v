(** C12, array layer, part 2: the element function of the wrappers is the documented algebra (and the traced kernel
    of Gen/LogicOps.v); multi-index forms of the wrapper theorems; out= corollaries; the witness for the code before 666613e. *)
From Coq Require Import List Arith Bool Lia.
From KV Require Import Model.Bits Model.Logic Gen.LogicOps Proofs.C12Proofs.
From KV Require Import Model.Encodings Model.NdArray Model.MvWrappers Proofs.EncodingsBits Proofs.NdArrayProofs Proofs.MvWrapperProofs.
Import ListNotations.
Local Open Scope list_scope.

(** * numeric codes <-> the eight values *)
Definition cnum (c : code) : nat := nat_of_bits (code_bits c).
Definition ccode (n : nat) : code := nth n all_codes Unk.
Definition nary_of (op : mvop) : nary := match op with MvOr => OpOr | MvAnd => OpAnd | MvXor => OpXor end.

Lemma cnum_ccode n : n < 8 -> cnum (ccode n) = n.
Proof. intros H. do 8 (destruct n as [|n]; [reflexivity|]). lia. Qed.

Definition elem_chk : bool :=
  forallb (fun op => forallb (fun a => forallb (fun b =>
     elem2 op a b =? cnum (spec_of (nary_of op) [ccode a; ccode b])) (seq 0 8)) (seq 0 8)) [MvOr; MvAnd; MvXor] &&
  forallb (fun a => not_s a =? cnum (spec_not (ccode a))) (seq 0 8).
Lemma elem_chk_ok : elem_chk = true.
Proof. vm_compute. reflexivity. Qed.

(** on codes the element functions ARE the documented algebra *)
Theorem elem2_algebra op a b : a < 8 -> b < 8 -> elem2 op a b = cnum (spec_of (nary_of op) [ccode a; ccode b]).
Proof.
  intros Ha Hb. pose proof elem_chk_ok as H. unfold elem_chk in H. apply andb_true_iff in H. destruct H as [H _].
  rewrite forallb_forall in H. assert (In op [MvOr; MvAnd; MvXor]) as Io by (destruct op; cbn; tauto).
  specialize (H op Io). rewrite forallb_forall in H. specialize (H a ltac:(apply in_seq; lia)).
  rewrite forallb_forall in H. specialize (H b ltac:(apply in_seq; lia)). apply Nat.eqb_eq. exact H.
Qed.

Theorem not_s_algebra a : a < 8 -> not_s a = cnum (spec_not (ccode a)).
Proof.
  intros Ha. pose proof elem_chk_ok as H. unfold elem_chk in H. apply andb_true_iff in H. destruct H as [_ H].
  rewrite forallb_forall in H. apply Nat.eqb_eq. apply H. apply in_seq. lia.
Qed.

(** ... and the value computed by the kernel program traced from the source (Gen/LogicOps.v, two operands) *)
Theorem elem2_traced op a b : a < 8 -> b < 8 ->
  exists p, nth_error (mv_of (nary_of op)) 1 = Some p /\
            nat_of_bits (run_bool p (encode_ins 3 [ccode a; ccode b])) = elem2 op a b.
Proof.
  intros Ha Hb. destruct (mv_nary_spec (nary_of op) 2 [ccode a; ccode b] ltac:(lia) eq_refl) as [p [Hp E]].
  exists p. split; [exact Hp|]. rewrite E. unfold zeros5.
  change [false; false; false; false; false] with (repeat false 5). rewrite nat_of_bits_app_false.
  symmetry. apply elem2_algebra; assumption.
Qed.

Lemma nd_get_lt x idx n : 0 < n -> Forall (fun v => v < n) (nd_data x) -> nd_get x idx < n.
Proof.
  intros Hn H. unfold nd_get. destruct (Nat.lt_ge_cases (ravel (nd_shape x) idx) (List.length (nd_data x))) as [L|L].
  - rewrite Forall_forall in H. apply H. apply nth_In. exact L.
  - rewrite nth_overflow by exact L. exact Hn.
Qed.

(** * C12_wrapper_elementwise: the result at every multi-index, for arrays of ANY shape *)
Theorem wrapper_elementwise op junk x1 x2 out r : nd_wf x1 -> nd_wf x2 ->
  mvw_bin false op junk x1 x2 out = Some r ->
  (* shape: out's, or the broadcast shape *)
  (match out with
   | Some o => nd_shape r = nd_shape o
   | None => broadcast2 (nd_shape x1) (nd_shape x2) = Some (nd_shape r)
   end) /\ nd_wf r /\
  forall idx, in_bounds (nd_shape r) idx ->
    (* element i = op (x1 at i mod shape1) (x2 at i mod shape2), right-aligned *)
    nd_get r idx = elem2 op (nd_get x1 (bidx (nd_shape x1) idx)) (nd_get x2 (bidx (nd_shape x2) idx)) /\
    (* on codes: the documented algebra *)
    (Forall (fun v => v < 8) (nd_data x1) -> Forall (fun v => v < 8) (nd_data x2) ->
     nd_get r idx = cnum (spec_of (nary_of op) [ccode (nd_get x1 (bidx (nd_shape x1) idx)); ccode (nd_get x2 (bidx (nd_shape x2) idx))])).
Proof.
  intros W1 W2 H.
  assert (exists so, nd_shape r = so /\ bc_to (nd_shape x1) so = true /\ bc_to (nd_shape x2) so = true /\
            r = tabulate so (fun k => elem2 op (bget x1 so k) (bget x2 so k)) /\
            match out with Some o => so = nd_shape o | None => broadcast2 (nd_shape x1) (nd_shape x2) = Some so end) as [so [Sr [A [B [Er Ho]]]]].
  { destruct out as [o|].
    - rewrite mvw_bin_out in H by assumption.
      destruct (bin_ok (nd_shape x1) (nd_shape x2) (nd_shape o)) eqn:E; [|discriminate]. injection H as <-.
      unfold bin_ok in E. destruct (broadcast2 (nd_shape x1) (nd_shape x2)); [|discriminate].
      apply andb_true_iff in E. destruct E as [_ E]. apply andb_true_iff in E. destruct E as [A B].
      exists (nd_shape o). repeat split; assumption.
    - rewrite mvw_bin_fresh in H by assumption.
      destruct (broadcast2 (nd_shape x1) (nd_shape x2)) as [b|] eqn:Hb; [|discriminate]. injection H as <-.
      destruct (broadcast2_bc_to _ _ _ Hb) as [A [B _]]. exists b. repeat split; assumption. }
  split; [destruct out; subst so; [exact Ho | exact Ho]|].
  split; [rewrite Er; apply tabulate_wf|].
  intros idx Bi. rewrite Sr in Bi.
  assert (nd_get r idx = elem2 op (nd_get x1 (bidx (nd_shape x1) idx)) (nd_get x2 (bidx (nd_shape x2) idx))) as G.
  { rewrite Er.
    change (nd_get (tabulate so (fun k => elem2 op (bget x1 so k) (bget x2 so k))) idx)
      with (at_ (tabulate so (fun k => elem2 op (bget x1 so k) (bget x2 so k))) (ravel so idx)).
    rewrite at_tabulate by (apply ravel_lt; exact Bi).
    rewrite (bget_bidx x1 so idx A Bi), (bget_bidx x2 so idx B Bi). reflexivity. }
  split; [exact G|]. intros C1 C2. rewrite G. apply elem2_algebra; apply nd_get_lt; (lia || assumption).
Qed.

(** * C12_wrapper_out *)
(** an out= array of the broadcast shape receives exactly what out=None returns, whatever it held before;
    an out= array of another size (or one the operands do not stretch to) raises *)
Theorem wrapper_out op junk x1 x2 o : nd_wf x1 -> nd_wf x2 ->
  (forall b, broadcast2 (nd_shape x1) (nd_shape x2) = Some b -> nd_shape o = b ->
     mvw_bin false op junk x1 x2 (Some o) = mvw_bin false op junk x1 x2 None /\ mvw_bin false op junk x1 x2 (Some o) <> None) /\
  (forall o', nd_shape o' = nd_shape o -> mvw_bin false op junk x1 x2 (Some o') = mvw_bin false op junk x1 x2 (Some o)) /\
  (forall b, broadcast2 (nd_shape x1) (nd_shape x2) = Some b -> size (nd_shape o) <> size b -> mvw_bin false op junk x1 x2 (Some o) = None) /\
  (broadcast2 (nd_shape x1) (nd_shape x2) = None -> mvw_bin false op junk x1 x2 (Some o) = None) /\
  (bc_to (nd_shape x1) (nd_shape o) = false \/ bc_to (nd_shape x2) (nd_shape o) = false -> mvw_bin false op junk x1 x2 (Some o) = None).
Proof.
  intros W1 W2. repeat split.
  - rewrite mvw_bin_out, mvw_bin_fresh by assumption. rewrite H, H0. rewrite (bin_ok_self _ _ _ H). reflexivity.
  - rewrite mvw_bin_out by assumption. rewrite H0. rewrite (bin_ok_self _ _ _ H). discriminate.
  - intros o' E. rewrite !mvw_bin_out by assumption. rewrite E. reflexivity.
  - intros b Hb Hs. rewrite mvw_bin_out by assumption. unfold bin_ok. rewrite Hb.
    destruct (size b =? size (nd_shape o)) eqn:E; [apply Nat.eqb_eq in E; lia | reflexivity].
  - intros Hb. rewrite mvw_bin_out by assumption. unfold bin_ok. rewrite Hb. reflexivity.
  - intros [E|E]; rewrite mvw_bin_out by assumption; unfold bin_ok; rewrite E;
      destruct (broadcast2 (nd_shape x1) (nd_shape x2)); try reflexivity; rewrite ?andb_false_r; reflexivity.
Qed.

(** the content np.empty delivers is not observable *)
Theorem wrapper_junk_irrelevant op j1 j2 x1 x2 out : nd_wf x1 -> nd_wf x2 ->
  mvw_bin false op j1 x1 x2 out = mvw_bin false op j2 x1 x2 out.
Proof. intros W1 W2. destruct out as [o|]; [rewrite !mvw_bin_out | rewrite !mvw_bin_fresh]; try assumption; reflexivity. Qed.

(** mv_not: same shape (or out's), element-wise the algebra's NOT *)
Theorem wrapper_not junk x out r : nd_wf x -> mvw_not junk x out = Some r ->
  nd_shape r = (match out with Some o => nd_shape o | None => nd_shape x end) /\
  forall idx, in_bounds (nd_shape r) idx ->
    nd_get r idx = not_s (nd_get x (bidx (nd_shape x) idx)) /\
    (Forall (fun v => v < 8) (nd_data x) -> nd_get r idx = cnum (spec_not (ccode (nd_get x (bidx (nd_shape x) idx))))).
Proof.
  intros W H. rewrite mvw_not_exact in H by exact W. cbn zeta in H.
  set (so := match out with Some o => nd_shape o | None => nd_shape x end) in *.
  destruct (not_ok (nd_shape x) so) eqn:E; [|discriminate]. injection H as <-. cbn [nd_shape tabulate].
  split; [reflexivity|]. intros idx Bi. unfold not_ok in E. apply andb_true_iff in E. destruct E as [A _].
  assert (nd_get (tabulate so (fun k => not_s (bget x so k))) idx = not_s (nd_get x (bidx (nd_shape x) idx))) as G.
  { change (nd_get (tabulate so (fun k => not_s (bget x so k))) idx) with (at_ (tabulate so (fun k => not_s (bget x so k))) (ravel so idx)).
    rewrite at_tabulate by (apply ravel_lt; exact Bi). rewrite (bget_bidx x so idx A Bi). reflexivity. }
  split; [exact G|]. intros C. rewrite G. apply not_s_algebra. apply nd_get_lt; (lia || assumption).
Qed.

Theorem wrapper_not_out junk x o : nd_wf x ->
  mvw_not junk x None <> None /\
  (nd_shape o = nd_shape x -> mvw_not junk x (Some o) = mvw_not junk x None) /\
  (size (nd_shape o) <> size (nd_shape x) -> mvw_not junk x (Some o) = None) /\
  (bc_to (nd_shape x) (nd_shape o) = false -> mvw_not junk x (Some o) = None).
Proof.
  intros W. rewrite !mvw_not_exact by exact W. cbn zeta. rewrite not_ok_self. repeat split.
  - discriminate.
  - intros E. rewrite E, not_ok_self. reflexivity.
  - intros E. unfold not_ok. destruct (size (nd_shape x) =? size (nd_shape o)) eqn:Z; [apply Nat.eqb_eq in Z; lia|].
    rewrite andb_false_r. reflexivity.
  - intros E. unfold not_ok. rewrite E. reflexivity.
Qed.

(** * non-vacuity and the witness for the code before the repair *)
Definition ex_a := NdA [3] [0; 1; 3].
Definition ex_b := NdA [2; 3] [3; 0; 5; 1; 2; 7].
Example wrapper_ex :
  nd_wf ex_a /\ nd_wf ex_b /\
  mvw_or (fun _ => 238) ex_a ex_b None = Some (NdA [2; 3] [3; 1; 3; 1; 1; 3]) /\
  mvw_or (fun _ => 238) ex_b ex_a None = Some (NdA [2; 3] [3; 1; 3; 1; 1; 3]) /\
  mvw_and (fun _ => 0) ex_b ex_a (Some (NdA [1; 2; 3] [9; 9; 9; 9; 9; 9])) = Some (NdA [1; 2; 3] [0; 0; 5; 0; 1; 7]) /\
  mvw_xor (fun _ => 0) ex_b ex_a (Some (NdA [3] [9; 9; 9])) = None /\
  mvw_xor (fun _ => 0) ex_b (NdA [2] [0; 1]) None = None.
Proof. repeat split. Qed.

(** the kernels before 666613e accumulated any_unknown / any_one / any_zero in place in an array of x1's shape:
    compatible operands raised as soon as x1 had to be stretched *)
Theorem wrapper_broadcast_refuted :
  broadcast2 (nd_shape ex_a) (nd_shape ex_b) = Some [2; 3] /\
  (forall op, mvw_bin true op (fun _ => 0) ex_a ex_b None = None) /\
  (forall op, mvw_bin false op (fun _ => 0) ex_a ex_b None <> None).
Proof.
  split; [reflexivity|]. split; intros op; destruct op; vm_compute; (reflexivity || discriminate).
Qed.
