(** C19 -- built-in library cells have consistent pins and datasheet Boolean functions. Statements only.
    Quantifies over all five libraries as regenerated from techlib.py on every run (about 1000 names). *)
From Coq Require Import List NArith Bool Arith String.
From KV Require Import Model.Prims Model.TechCell Model.TechlibSpec Gen.TechLibs Proofs.C19Proofs.
From KV Require Import Model.BenchText Model.TechLibText Gen.TechLibTexts Proofs.TechLibTextProofs.
Import ListNotations.

Theorem C19_pins_once : forall lib cells c, In (lib, cells) all_libs -> In c cells ->
  NoDup (t_ins c ++ t_outs c) /\ t_names c <> [] /\
  (forall o, In o (t_outs c) -> exists k a, find_gate (t_gates c) o = Some (k, a)).
Proof. exact pins_once. Qed.

Theorem C19_names_unique : forall lib cells, In (lib, cells) all_libs -> NoDup (flat_map t_names cells).
Proof. intros lib cells H. exact (names_unique lib cells H). Qed.

(* AND/OR/NAND/NOR/XOR/XNOR-n, buffers, inverters, AO/OA/AOI/OAI groupings, MUX2/MUX4, half/full adders
   (sum on S/SO, carry on CO/C1): every output pin, every input row *)
Theorem C19_cell_function : forall lib cells c, In (lib, cells) all_libs -> In c cells ->
  forall name f, In name (t_names c) -> cell_is_seq c = false -> family_of lib name = Some f ->
    List.length (t_ins c) = n_inputs f /\
    forall row, List.length row = List.length (t_ins c) -> forall o, In o (t_outs c) ->
      exists v, eval_out c row o = Some v /\ family_fn lib f row o (List.length (t_outs c)) = Some v.
Proof. exact cell_function. Qed.

(** *** from the library TEXT.  Gen/TechLibTexts.v holds the five argument strings of TechLib(...) verbatim;
    tcells_of_text (Model/TechLibText.v) transcribes TechLib.__init__: re.split(r';\s+'), name = text up to the first space,
    bench.parse of the rest (Model/BenchText.v), pins from io_nodes, brace products. *)

(* the libraries the theorems above quantify over (emitted by the translator's own Python text processing) ARE what the
   transcription computes from the library texts *)
Theorem C19_text_matches_translation :
  map fst all_texts = map fst all_libs /\
  forall lib text, In (lib, text) all_texts -> exists cells, In (lib, cells) all_libs /\ tcells_of_text text = Some cells.
Proof. exact text_matches_translation. Qed.

(* {a,b} alternatives: the names of a pattern are the joined tuples of itertools.product over its parts ... *)
Theorem C19_expand_names_product : forall pat,
  expand_names pat = map sconcat (product (name_parts pat)) /\
  List.length (expand_names pat) = fold_right Nat.mul 1 (map (@List.length string) (name_parts pat)) /\
  (forall name, In name (expand_names pat) <->
     exists t, Forall2 (fun x p => In x p) t (name_parts pat) /\ name = sconcat t).
Proof. exact expand_names_product. Qed.
(* ... in itertools.product order: the rightmost part varies fastest *)
Theorem C19_expand_names_order : forall pat p ps i j x t, name_parts pat = p :: ps ->
  nth_error p i = Some x -> nth_error (product ps) j = Some t ->
  nth_error (expand_names pat) (i * List.length (product ps) + j) = Some (x ++ sconcat t)%string.
Proof. exact expand_names_order. Qed.
(* pairwise distinct names <-> pairwise distinct alternatives: "->" always, the tuples always, "<-" when joining is injective *)
Theorem C19_names_distinct_alternatives : forall pat,
  NoDup (expand_names pat) -> Forall (@NoDup string) (name_parts pat).
Proof. exact names_distinct_alternatives. Qed.
Theorem C19_tuples_distinct_iff : forall pat,
  NoDup (product (name_parts pat)) <-> Forall (@NoDup string) (name_parts pat).
Proof. exact tuples_distinct_iff. Qed.
Theorem C19_alternatives_distinct_names : forall pat, decodable (name_parts pat) ->
  (NoDup (expand_names pat) <-> Forall (@NoDup string) (name_parts pat)).
Proof. exact alternatives_distinct_names. Qed.
Theorem C19_alternatives_distinct_names_prefix_free : forall pat, prefix_free_but_last (name_parts pat) ->
  (NoDup (expand_names pat) <-> Forall (@NoDup string) (name_parts pat)).
Proof. exact alternatives_distinct_names_prefix_free. Qed.
(* without injectivity of joining the "<-" direction fails *)
Theorem C19_names_collision_witness :
  Forall (@NoDup string) (name_parts "{a,ab}{bc,c}"%string) /\ ~ NoDup (expand_names "{a,ab}{bc,c}"%string).
Proof. exact names_collision_witness. Qed.
