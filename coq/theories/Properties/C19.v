(** C19 -- built-in library cells have consistent pins and datasheet Boolean functions. Statements only.
    Quantifies over all five libraries as regenerated from techlib.py on every run (about 1000 names). *)
From Coq Require Import List NArith Bool Arith String.
From KV Require Import Model.Prims Model.TechCell Model.TechlibSpec Gen.TechLibs Proofs.C19Proofs.
Import ListNotations.

Theorem C19_pins_once : forall lib cells c, In (lib, cells) all_libs -> In c cells ->
  NoDup (t_ins c ++ t_outs c) /\ t_names c <> [] /\
  (forall o, In o (t_outs c) -> exists k a, find_gate (t_gates c) o = Some (k, a)).
Proof. exact pins_once. Qed.

Theorem C19_names_unique : forall lib cells, In (lib, cells) all_libs -> NoDup (flat_map t_names cells).
Proof. intros lib cells H. exact (names_unique lib cells H). Qed.

(* AND/OR/NAND/NOR/XOR/XNOR-n, buffers, inverters, AO/OA/AOI/OAI groupings, MUX2/MUX4, half/full adders
   (sum on S/SO, carry on CO/C1): every output pin, every input row *)
Theorem C19_cell_function : forall lib cells c, In (lib, cells) all_libs -> In c cells ->
  forall name f, In name (t_names c) -> cell_is_seq c = false -> family_of lib name = Some f ->
    List.length (t_ins c) = n_inputs f /\
    forall row, List.length row = List.length (t_ins c) -> forall o, In o (t_outs c) ->
      exists v, eval_out c row o = Some v /\ family_fn lib f row o (List.length (t_outs c)) = Some v.
Proof. exact cell_function. Qed.
