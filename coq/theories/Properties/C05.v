(** C05 -- 8-valued logic simulation conservatively predicts timing simulation. Statements only. *)
From Coq Require Import List ZArith NArith Bool Arith String.
From KV Require Import Model.Bits Model.Logic Model.Prims Model.OpSem Model.Time Model.WaveEval Model.WaveSpec
     Proofs.Dispatch Proofs.CircuitLevel Proofs.WaveCore.
Import ListNotations.

(* per primitive: a hazard-free constant (plain 0/1) reported by the 8-valued algebra on known operands means
   the primitive's function is constant on the cube spanned by the operands that show activity *)
Theorem C05_hazard_sound_op : forall p a b c d a' b' c' d',
  known a = true -> known b = true -> known c = true -> known d = true ->
  is2 (spec_prim p a b c d) = true ->
  in_cube a a' = true -> in_cube b b' = true -> in_cube c c' = true -> in_cube d d' = true ->
  prim_fn p a' b' c' d' = fin (spec_prim p a b c d).
Proof. exact hazard_sound_op. Qed.

(* per gate evaluation: if the LUT is constant on the cube spanned by the operands that have finite
   transitions, the produced waveform has no transition at all *)
Theorem C05_no_change_no_edge : forall lut ws ds zreg r, wf_args ws ds zreg -> wave_eval lut ws ds zreg = Some r ->
  (forall vs : list bool, List.length vs = 4 ->
     (forall k, k < 4 -> has_finite (nth k ws []) = false -> nth k vs false = init_val (nth k ws [])) ->
     lut_at lut vs = lut_at lut (map init_val ws)) ->
  has_finite (r_z r) = false.
Proof. exact no_change_no_edge. Qed.

(* initial and final values: the timing simulator's per-gate init/final equal the LUT of the operands' init/final
   (C03), and the 8-valued simulation's init/final components equal 2-valued simulation of the stimulus'
   components for every op list (C02) *)
Theorem C05_init_final_wave : forall lut ws ds zreg r, wf_args ws ds zreg -> wave_eval lut ws ds zreg = Some r ->
  init_val (r_z r) = lut_at lut (map init_val ws) /\ final_val (r_z r) = lut_at lut (map final_val ws).
Proof. intros. split; [eapply wave_init | eapply wave_final]; eassumption. Qed.

Theorem C05_init_final_logic8 : forall ops (e : env code), (forall k, known (e k) = true) ->
  forall k, known (exec_ops spec_prim ops e k) = true /\
            fin (exec_ops spec_prim ops e k) = exec_ops prim_fn ops (fun j => fin (e j)) k /\
            ini (exec_ops spec_prim ops e k) = exec_ops prim_fn ops (fun j => ini (e j)) k.
Proof. exact proj8_circuit. Qed.

(** CIRCUIT LEVEL: for ANY op list (opcodes of the 33 primitives), delays >= 0, capacities >= 4: if every input waveform is
    predicted by its 8-valued code (same initial / final value; no finite transition unless the code shows activity), then so
    is every signal -- in particular wherever 8-valued logic simulation reports a plain 0/1 the waveform has no transition *)
From KV Require Import Model.SimOps Model.WaveOps.
From KV Require Proofs.WaveCircuit.
Theorem C05_logic8_predicts_wave : forall delays cap ops (e : wenv) (e8 : nat -> code),
  KV.Proofs.WaveCircuit.good_delays delays -> KV.Proofs.WaveCircuit.good_caps cap ->
  (forall o, In o ops -> prim_of (s_lut o) <> None) ->
  (forall k, KV.Proofs.WaveCircuit.predicts (e k) (e8 k)) ->
  forall k, KV.Proofs.WaveCircuit.predicts (wexec delays cap ops e k) (cexec ops e8 k).
Proof. exact KV.Proofs.WaveCircuit.logic8_predicts_wave. Qed.

(** MEMORY LEVEL, all four c_reuse x strip_forks combinations (Proofs/WaveSimGlue.v): the waveform behind every entry that the
    compared timing-simulator model captures is predicted by the 8-valued logic simulation of the netlist's op list -- in
    particular where logic simulation reports a plain 0/1 the captured waveform has no transition *)
From KV Require Import Model.Netlist Model.NetlistWf Model.WaveSimModel Model.WaveAcc Model.WaveGlue.
From KV Require Model.CycleSem Proofs.EndToEnd Proofs.ReuseStrip Proofs.LogicSimGlue Proofs.WaveSimGlue.
Theorem C05_wavesim_model_predicted : forall c caps reuse strip delays actrl abuf_len s extra tcap,
  wf_netlist c -> comb_acyclic c -> KV.Proofs.EndToEnd.gates_known c -> List.length (c_lines c) <= List.length caps ->
  KV.Proofs.WaveSimGlue.extra_ok c extra ->
  KV.Proofs.WaveSimGlue.wave_inputs_ok c (dl_of delays) (stim_wave s extra) ->
  (strip = true -> build_stems c true (KV.Proofs.LogicSimGlue.std_len c) <> None /\ KV.Proofs.ReuseStrip.forks_ok c /\
     KV.Proofs.WaveSimGlue.forks_single c /\
     KV.Proofs.WaveSimGlue.strip_side c (dl_of delays) (lcap (List.length (c_lines c)) caps)
        (wexec (dl_of delays) (lcap (List.length (c_lines c)) caps) (build_ops c false) (wenv0 c s extra))) ->
  forall e8 : nat -> code, (forall k, KV.Proofs.WaveCircuit.predicts (wenv0 c s extra k) (e8 k)) ->
  exists r, wsim_case c caps reuse strip delays actrl abuf_len s extra tcap = Some r /\
    forall p l0, KV.Model.CycleSem.snode_in c p = Some l0 ->
      exists w, nth p (w_capt r) None = Some (six (capture w tcap)) /\
                KV.Proofs.WaveCircuit.predicts w (cexec (build_ops c false) e8 l0).
Proof. exact KV.Proofs.WaveSimGlue.wavesim_model_predicted. Qed.

(** SOURCE TIE (see C03_kernel_source_is_model): the merge kernel as translated from the current text of wave_sim._wave_eval
    (Gen/WaveEvalSrc.v, regenerated on every run) computes the model [wave_eval]; hence a LUT that is constant on the cube
    spanned by the active operands makes the SOURCE store a waveform without any transition. *)
From KV Require Import Model.WaveSrcPrelude Gen.WaveEvalSrc.
From KV Require Proofs.WaveEvalSrcProofs Proofs.WaveEvalSrcCorollaries.
Theorem C05_source_no_change_no_edge : forall lut ws ds zreg s nr nf, wf_args ws ds zreg ->
  WaveEvalSrc.wave_eval_src (KV.Proofs.WaveEvalSrcProofs.model_fuel ws) (Z.of_N lut) ws ds zreg = Some (s, (nr, nf)) ->
  (forall vs : list bool, List.length vs = 4 ->
     (forall k, k < 4 -> has_finite (nth k ws []) = false -> nth k vs false = init_val (nth k ws [])) ->
     lut_at lut vs = lut_at lut (map init_val ws)) ->
  has_finite (KV.Proofs.WaveEvalSrcCorollaries.src_z s) = false.
Proof. exact KV.Proofs.WaveEvalSrcCorollaries.src_no_change_no_edge. Qed.
