(** C09 -- the circuit graph stays consistent under every edit history.  Statements only.
    Model: Model/Circuit.v (transcription of circuit.py); vocabulary: Model/CircuitInv.v
    ([CInv] = indices are list positions and listed objects are alive, name lookups resolve, every line is referenced
    exactly from the two pins it records, no pin refers to a removed line, fork outputs are gap-free;
    [pre] = well-formed use; [step] = the public edit, [None] when the Python code raises). *)
From Coq Require Import List Arith Bool String.
From KV Require Import Model.Circuit Model.CircuitInv Proofs.CircuitProofs Proofs.CircuitCopy Proofs.CircuitElim Proofs.CircuitDangling
     Proofs.CircuitHistory Proofs.CircuitStats Proofs.CircuitBool Proofs.CircuitSubst.
Import ListNotations.

Theorem C09_empty : CInv empty.
Proof. exact cinv_empty. Qed.

(* Node(), Line() with implicit or free explicit pins, Line.remove, Node.remove of a disconnected node, io_nodes[..] = n,
   get_or_add_fork, remove_dangling_nodes, eliminate_1to1_forks, copy, pickle round trip: under well-formed use the call does not raise
   and the result is consistent again *)
Theorem C09_step_inv : forall c o, CInv c -> supported o = true -> pre c o = true ->
  exists c', step c o = Some c' /\ CInv c'.
Proof. exact step_inv. Qed.

Theorem C09_step_primitive : forall c o, CInv c -> primitive o = true -> pre c o = true ->
  exists c', step c o = Some c' /\ CInv c'.
Proof. exact step_inv_primitive. Qed.

(* every finite history from the empty circuit *)
Theorem C09_history_inv : forall ops, forallb supported ops = true -> hist_pre empty ops = true ->
  exists c, run_hist ops = Some c /\ CInv c.
Proof. exact history_inv. Qed.

(* ... and every io_nodes entry stays a listed node (ports are never removed: Node.remove of a port is outside
   well-formed use, remove_dangling_nodes stops at ports, eliminate_1to1_forks skips them); hence the precondition of
   copy / pickle ([io_ok_b]) holds after every history *)
Theorem C09_step_inv_io : forall c o, CInv c -> IoLive c -> supported o = true -> pre c o = true ->
  exists c', step c o = Some c' /\ CInv c' /\ IoLive c'.
Proof. exact step_inv_io. Qed.
Theorem C09_history_inv_io : forall ops, forallb supported ops = true -> hist_pre empty ops = true ->
  exists c, run_hist ops = Some c /\ CInv c /\ IoLive c /\ io_ok_b c = true.
Proof. intros ops Hs Hp. exact (history_inv_io ops empty cinv_empty io_live_empty Hs Hp). Qed.

(* copy() and the pickle round trip return a consistent circuit with the same canonical form
   (names/kinds by index, lines as (driver index, pin, reader index, pin) by index, io list by index) *)
Theorem C09_copy : forall c, CInv c -> io_ok_b c = true ->
  exists c', copy c = Some c' /\ CInv c' /\ canon c' = canon c /\ IoLive c'.
Proof. exact copy_inv. Qed.
Theorem C09_pickle : forall c, CInv c -> io_ok_b c = true ->
  exists c', pickle_roundtrip c = Some c' /\ CInv c' /\ canon c' = canon c /\ IoLive c'.
Proof. exact pickle_inv. Qed.
Theorem C09_copy_is_pickle : forall c, CInv c -> io_ok_b c = true -> copy c = pickle_roundtrip c.
Proof. exact copy_eq_pickle. Qed.

Theorem C09_eliminate : forall c, CInv c -> elim_ok_b c = true ->
  exists c', eliminate_1to1 c = Some c' /\ CInv c' /\ (IoLive c -> IoLive c').
Proof. exact eliminate_inv. Qed.

Theorem C09_remove_dangling : forall c n, CInv c -> In n (nodes c) ->
  exists c', remove_dangling (dangling_fuel c) c n = Some c' /\ CInv c' /\ (IoLive c -> IoLive c').
Proof. exact remove_dangling_step. Qed.

(* Circuit.stats (computed from the cells / forks dicts) equals the counts over the node list, the line list and io_nodes *)
Theorem C09_stats : forall c, CInv c ->
  let s := stats c in
  s_node s = List.length (nodes c) /\ s_line s = List.length (lines c) /\ s_io s = List.length (io c) /\
  s_cell s = List.length (filter (is_cell_node c) (nodes c)) /\
  s_fork s = List.length (filter (is_fork_node c) (nodes c)) /\
  s_cell s + s_fork s = s_node s /\
  s_dff s = List.length (filter (fun n => is_cell_node c n && is_dff (kind_of c n)) (nodes c)) /\
  s_latch s = List.length (filter (fun n => is_cell_node c n && is_latch (kind_of c n)) (nodes c)) /\
  s_comb s = List.length (filter (fun n => is_cell_node c n && is_comb (kind_of c n)) (nodes c)) /\
  s_seq s = s_dff s + s_latch s /\
  (forall k, stats_kind c k = List.length (filter (fun n => is_cell_node c n && String.eqb k (kind_of c n)) (nodes c))).
Proof. exact stats_consistent. Qed.

(* the executable checker that the correspondence check evaluates on every model state is sound for CInv *)
Theorem C09_cinv_b_sound : forall c, cinv_b c = true -> CInv c.
Proof. exact cinv_b_sound. Qed.

(* substitute / resolve_tlib_cells.  Wanted, NOT proved (stretch item):
     forall c n impl, CInv c -> pre c (Substitute n impl) = true -> exists c', step c (Substitute n impl) = Some c' /\ CInv c'
   where pre = the instance is a listed cell that is not a port, the implementation is a consistent circuit with listed
   interface nodes and the asserts / dictionary lookups of the code succeed.  substitute is tied to the code by
   correspondence and its results are checked with the (sound) executable invariant on every generated history.
   The statement was FALSE for the code before commit 119be80, which ran remove_dangling_nodes for an unconnected instance
   output while later output lines were still detached ([substitute_gen false]); the theorem below holds that witness
   (instance with only output 1 connected, implementation input(A) output(Y1,Y2) Y2=INV1(A) Y1=BUF1(Y2)), and the
   current code is consistent on it. *)
Theorem C09_substitute_early_cleanup_refuted :
  exists c n impl, CInv c /\ CInv impl /\ pre c (Substitute n impl) = true /\
                   exists c', substitute_gen false c n impl = Some c' /\ ~ CInv c'.
Proof. exact substitute_early_cleanup_refuted. Qed.
Theorem C09_substitute_witness_ok : exists c', step wit_circ (Substitute 0 wit_impl) = Some c' /\ CInv c'.
Proof. exact substitute_witness_ok. Qed.

(* the hypotheses are satisfiable: a 12-step history with swap-with-last removal and a fork squeeze, and its
   continuation through eliminate_1to1_forks, copy and pickle *)
Theorem C09_example : hist_pre empty example_history = true /\ List.length example_history = 12 /\
  forallb primitive example_history = true /\ exists c, run_hist example_history = Some c /\ CInv c.
Proof. split. exact example_history_pre. split. reflexivity. split. reflexivity. exact example_history_inv. Qed.
Theorem C09_example2 : hist_pre empty example_history2 = true /\ forallb supported example_history2 = true /\
  exists c, run_hist example_history2 = Some c /\ CInv c.
Proof. split. exact example_history2_pre. split. reflexivity. exact example_history2_inv. Qed.
