(** C09 -- the circuit graph stays consistent under every edit history.  Statements only.
    Model: Model/Circuit.v (transcription of circuit.py); vocabulary: Model/CircuitInv.v
    ([CInv] = indices are list positions and listed objects are alive, name lookups resolve, every line is referenced
    exactly from the two pins it records, no pin refers to a removed line, fork outputs are gap-free;
    [pre] = well-formed use; [step] = the public edit, [None] when the Python code raises). *)
From Coq Require Import List Arith Bool String.
From KV Require Import Model.Circuit Model.CircuitInv Proofs.CircuitProofs Proofs.CircuitCopy Proofs.CircuitElim Proofs.CircuitDangling
     Proofs.CircuitHistory Proofs.CircuitStats Proofs.CircuitBool Proofs.CircuitSubst Proofs.CircuitSubstInv Proofs.CircuitResolve.
Import ListNotations.

Theorem C09_empty : CInv empty.
Proof. exact cinv_empty. Qed.

(* Node(), Line() with implicit or free explicit pins, Line.remove, Node.remove of a disconnected node, io_nodes[..] = n,
   get_or_add_fork, remove_dangling_nodes, eliminate_1to1_forks, substitute, resolve_tlib_cells, copy, pickle round trip
   ([supported] holds for all twelve operations): under well-formed use the call does not raise and the result is consistent again *)
Theorem C09_supported_all : forall o, supported o = true.
Proof. exact supported_all. Qed.
Theorem C09_step_inv : forall c o, CInv c -> supported o = true -> pre c o = true ->
  exists c', step c o = Some c' /\ CInv c'.
Proof. exact step_inv. Qed.

Theorem C09_step_primitive : forall c o, CInv c -> primitive o = true -> pre c o = true ->
  exists c', step c o = Some c' /\ CInv c'.
Proof. exact step_inv_primitive. Qed.

(* every finite history from the empty circuit *)
Theorem C09_history_inv : forall ops, forallb supported ops = true -> hist_pre empty ops = true ->
  exists c, run_hist ops = Some c /\ CInv c.
Proof. exact history_inv. Qed.

(* ... and every io_nodes entry stays a listed node (ports are never removed: Node.remove of a port is outside
   well-formed use, remove_dangling_nodes stops at ports, eliminate_1to1_forks skips them); hence the precondition of
   copy / pickle ([io_ok_b]) holds after every history *)
Theorem C09_step_inv_io : forall c o, CInv c -> IoLive c -> supported o = true -> pre c o = true ->
  exists c', step c o = Some c' /\ CInv c' /\ IoLive c'.
Proof. exact step_inv_io. Qed.
Theorem C09_history_inv_io : forall ops, forallb supported ops = true -> hist_pre empty ops = true ->
  exists c, run_hist ops = Some c /\ CInv c /\ IoLive c /\ io_ok_b c = true.
Proof. intros ops Hs Hp. exact (history_inv_io ops empty cinv_empty io_live_empty Hs Hp). Qed.

(* copy() and the pickle round trip return a consistent circuit with the same canonical form
   (names/kinds by index, lines as (driver index, pin, reader index, pin) by index, io list by index) *)
Theorem C09_copy : forall c, CInv c -> io_ok_b c = true ->
  exists c', copy c = Some c' /\ CInv c' /\ canon c' = canon c /\ IoLive c'.
Proof. exact copy_inv. Qed.
Theorem C09_pickle : forall c, CInv c -> io_ok_b c = true ->
  exists c', pickle_roundtrip c = Some c' /\ CInv c' /\ canon c' = canon c /\ IoLive c'.
Proof. exact pickle_inv. Qed.
Theorem C09_copy_is_pickle : forall c, CInv c -> io_ok_b c = true -> copy c = pickle_roundtrip c.
Proof. exact copy_eq_pickle. Qed.

(* [elim_ok_b]: a fork outside the interface with exactly one reader and a driver at pin 0 has no second input connection.  Forks
   WITHOUT driver (ins = [] or ins[0] = None: what substitute / resolve_tlib_cells leave for unconnected instance inputs) are no
   longer excluded: since the fix of D38 (`if len(n.ins) < 1 or n.ins[0] is None: continue`) the loop leaves them alone
   (witness: C10_eliminate_driverless_fork_kept; before the fix the call raised IndexError on them) *)
Theorem C09_eliminate : forall c, CInv c -> elim_ok_b c = true ->
  exists c', eliminate_1to1 c = Some c' /\ CInv c' /\ (IoLive c -> IoLive c').
Proof. exact eliminate_inv. Qed.

Theorem C09_remove_dangling : forall c n, CInv c -> In n (nodes c) ->
  exists c', remove_dangling (dangling_fuel c) c n = Some c' /\ CInv c' /\ (IoLive c -> IoLive c').
Proof. exact remove_dangling_step. Qed.

(* Circuit.stats (computed from the cells / forks dicts) equals the counts over the node list, the line list and io_nodes *)
Theorem C09_stats : forall c, CInv c ->
  let s := stats c in
  s_node s = List.length (nodes c) /\ s_line s = List.length (lines c) /\ s_io s = List.length (io c) /\
  s_cell s = List.length (filter (is_cell_node c) (nodes c)) /\
  s_fork s = List.length (filter (is_fork_node c) (nodes c)) /\
  s_cell s + s_fork s = s_node s /\
  s_dff s = List.length (filter (fun n => is_cell_node c n && is_dff (kind_of c n)) (nodes c)) /\
  s_latch s = List.length (filter (fun n => is_cell_node c n && is_latch (kind_of c n)) (nodes c)) /\
  s_comb s = List.length (filter (fun n => is_cell_node c n && is_comb (kind_of c n)) (nodes c)) /\
  s_seq s = s_dff s + s_latch s /\
  (forall k, stats_kind c k = List.length (filter (fun n => is_cell_node c n && String.eqb k (kind_of c n)) (nodes c))).
Proof. exact stats_consistent. Qed.

(* the executable checker that the correspondence check evaluates on every model state is sound for CInv *)
Theorem C09_cinv_b_sound : forall c, cinv_b c = true -> CInv c.
Proof. exact cinv_b_sound. Qed.

(* every finite history of the twelve public edits from the empty circuit, no condition on the kind of operation *)
Theorem C09_history_inv_all : forall ops, hist_pre empty ops = true ->
  exists c, run_hist ops = Some c /\ CInv c /\ IoLive c /\ io_ok_b c = true.
Proof. exact history_inv_all. Qed.

(* substitute: pre = the instance is a listed cell that is not a port, the implementation is a consistent circuit with listed
   interface nodes, has the shape [subst_shape_b] (no port listed twice, ports are forks, the designated cell is not a port, no fork
   drives a pure output port) and the asserts / dictionary lookups of the code succeed.  The proof follows the five phases of the
   code through the invariant relative to detached line ends (Proofs/CircuitWeak.v, Proofs/CircuitSubstInv.v). *)
Theorem C09_substitute : forall c n impl, CInv c -> IoLive c -> pre c (Substitute n impl) = true ->
  exists c', substitute c n impl = Some c' /\ CInv c' /\ IoLive c'.
Proof. exact substitute_inv. Qed.
Theorem C09_substitute_core : forall c node impl c',
  CInv c -> In node (nodes c) -> is_fork (kind_of c node) = false -> io_mem c node = false ->
  CInv impl -> IoLive impl -> subst_shape_b impl = true ->
  substitute c node impl = Some c' ->
  CInv c' /\ (IoLive c -> IoLive c') /\ (forall x, x <> node -> Known c x -> Known c' x).
Proof. exact substitute_core. Qed.
(* resolve_tlib_cells: every library implementation is consistent and every LIVE library instance that the loop over the node
   snapshot visits is, in the state in which it is visited, a cell that is not a port, its implementation has the shape
   [subst_shape_b] and the call does not raise ([resolve_pre_from]).  That a live snapshot node is still a listed node is proved,
   not assumed (removed nodes stay [Known]: removed and disconnected); removed instances are skipped by `n.circuit is not None` *)
Theorem C09_resolve : forall c t, CInv c -> IoLive c -> pre c (ResolveTlib t) = true ->
  exists c', resolve_tlib c t = Some c' /\ CInv c' /\ IoLive c'.
Proof. exact resolve_inv. Qed.

(* each of the four shape conditions is needed: without it substitute returns an inconsistent graph (witnesses reproduced on the
   real code): a port listed twice; a port that is a cell with an open output pin; a designated cell that is a port (the instance
   becomes a '__fork__' registered in Circuit.cells); a fork driving an unconnected pure output port (gap in the fork's outputs) *)
Theorem C09_subst_dup_port_refuted :
  CInv host_1_2 /\ IoLive host_1_2 /\ pre_without host_1_2 0 impl_dup = true /\ shape4 impl_dup = (false, true, true, true) /\
  exists c', substitute host_1_2 0 impl_dup = Some c' /\ ~ CInv c'.
Proof. exact subst_dup_port_refuted. Qed.
Theorem C09_subst_cell_port_refuted :
  CInv host_1_1 /\ IoLive host_1_1 /\ pre_without host_1_1 0 impl_cellport = true /\ shape4 impl_cellport = (true, false, true, true) /\
  exists c', substitute host_1_1 0 impl_cellport = Some c' /\ ~ CInv c'.
Proof. exact subst_cell_port_refuted. Qed.
Theorem C09_subst_designated_port_refuted :
  CInv host_1_2 /\ IoLive host_1_2 /\ pre_without host_1_2 0 impl_desig_port = true /\ shape4 impl_desig_port = (true, true, false, true) /\
  exists c', substitute host_1_2 0 impl_desig_port = Some c' /\ ~ CInv c'.
Proof. exact subst_designated_port_refuted. Qed.
Theorem C09_subst_fork_output_refuted :
  CInv host_1_1 /\ IoLive host_1_1 /\ pre_without host_1_1 0 impl_fork_out = true /\ shape4 impl_fork_out = (true, true, true, false) /\
  exists c', substitute host_1_1 0 impl_fork_out = Some c' /\ ~ CInv c'.
Proof. exact subst_fork_output_refuted. Qed.
(* the code before commit 11c77ac ([resolve_tlib_old]: no test of node.circuit) substituted a node that the clean-up of an earlier
   substitution had already removed: every instance satisfies the precondition of substitute in the INITIAL circuit, the call does
   not raise, the result contains a line driven by a node that is not in the circuit.  The code is consistent on the same input. *)
Theorem C09_resolve_removed_instance_refuted :
  CInv host_chain /\ IoLive host_chain /\
  forallb (fun kv => cinv_b (snd kv) && io_ok_b (snd kv) && subst_shape_b (snd kv)) tlib_chain = true /\
  forallb (fun n => match tlib_get (kind_of host_chain n) tlib_chain with Some impl => subst_pre_b host_chain n impl | None => true end)
          (nodes host_chain) = true /\
  exists c', resolve_tlib_old host_chain tlib_chain = Some c' /\ ~ CInv c'.
Proof. exact resolve_removed_instance_refuted. Qed.
Theorem C09_resolve_removed_instance_ok :
  pre host_chain (ResolveTlib tlib_chain) = true /\
  option_map (fun c' => (map (name_of c') (nodes c'), List.length (lines c'))) (resolve_tlib host_chain tlib_chain) = Some (["i0"], 0)%string /\
  exists c', resolve_tlib host_chain tlib_chain = Some c' /\ CInv c' /\ IoLive c'.
Proof. exact resolve_removed_instance_ok. Qed.

(* the hypotheses are satisfiable: two-output implementation, first output read internally, second output of the instance
   unconnected (the deferred clean-up removes the inverter); and a history that continues with resolve_tlib_cells *)
Theorem C09_substitute_example :
  CInv host_two /\ IoLive host_two /\ pre host_two (Substitute 0 impl_two) = true /\
  option_map (fun c' => (map (fun n => (name_of c' n, kind_of c' n)) (nodes c'), List.length (lines c')))
             (substitute host_two 0 impl_two)
  = Some ([("u", "AND2"); ("a", FORK); ("b", FORK); ("y", FORK); ("r", "BUF1"); ("u~Y", FORK)], 5)%string.
Proof. exact substitute_example. Qed.
Theorem C09_example3 : hist_pre empty example_history3 = true /\
  exists c, run_hist example_history3 = Some c /\ CInv c /\ IoLive c /\ io_ok_b c = true.
Proof. split. exact example_history3_pre. exact example_history3_inv. Qed.

(* The statement of C09_substitute was FALSE for the code before commit 119be80, which ran remove_dangling_nodes for an unconnected
   instance output while later output lines were still detached ([substitute_gen false]); the theorem below holds that witness
   (instance with only output 1 connected, implementation input(A) output(Y1,Y2) Y2=INV1(A) Y1=BUF1(Y2)), and the
   current code is consistent on it. *)
Theorem C09_substitute_early_cleanup_refuted :
  exists c n impl, CInv c /\ CInv impl /\ pre c (Substitute n impl) = true /\
                   exists c', substitute_gen false c n impl = Some c' /\ ~ CInv c'.
Proof. exact substitute_early_cleanup_refuted. Qed.
Theorem C09_substitute_witness_ok : exists c', step wit_circ (Substitute 0 wit_impl) = Some c' /\ CInv c'.
Proof. exact substitute_witness_ok. Qed.

(* the hypotheses are satisfiable: a 12-step history with swap-with-last removal and a fork squeeze, and its
   continuation through eliminate_1to1_forks, copy and pickle *)
Theorem C09_example : hist_pre empty example_history = true /\ List.length example_history = 12 /\
  forallb primitive example_history = true /\ exists c, run_hist example_history = Some c /\ CInv c.
Proof. split. exact example_history_pre. split. reflexivity. split. reflexivity. exact example_history_inv. Qed.
Theorem C09_example2 : hist_pre empty example_history2 = true /\ forallb supported example_history2 = true /\
  exists c, run_hist example_history2 = Some c /\ CInv c.
Proof. split. exact example_history2_pre. split. reflexivity. exact example_history2_inv. Qed.

From Coq Require Import ZArith.
From KV Require Import Model.CircuitPrimsSrcLib Gen.CircuitPrimsSrc Proofs.CircuitPrimsSrcProofs.
(* SOURCE TIE of the primitives every edit goes through (circuit.py: GrowingList, IndexList, Node.__init__ / remove, Line.__init__ /
   remove).  Gen/CircuitPrimsSrc.v is regenerated from the current text of circuit.py on every run by the fail-closed translator
   translate/gen_circuit_prims.py (vocabulary and what it trusts: Model/CircuitPrimsSrcLib.v); each translated function equals the
   hand-written primitive of Model/Circuit.v on EVERY state -- no invariant and no precondition is needed, the hand model follows the
   code also where it raises.  Python ints are Z in the translation; the theorems are stated for non-negative positions (Z.of_nat).
   Stores are functions, so states are compared field by field and pointwise ([ceq], no extensionality axiom); where the two sides
   are even the same term the conjunct is a plain equation. *)
Theorem C09_prims_source_is_model :
  (forall l i v, GrowingList_setitem_src l (Z.of_nat i) v = Some (gset l i v)) /\
  (forall l, GrowingList_free_index_src l = Some (Z.of_nat (free_index l))) /\
  (forall c i, IndexList_delitem_nodes_src c (Z.of_nat i) = del_node_at c i) /\
  (forall c i, IndexList_delitem_lines_src c (Z.of_nat i) = del_line_at c i) /\
  (Node_init_default_kind = FORK /\
   forall c name kind, oceq_id (Node_init_src c name kind) (add_node c name kind)) /\
  (forall c n, Node_remove_src c n = node_remove c n) /\
  (forall c d dp r rp, oceq_id (Line_init_src c (pin_arg d dp) (pin_arg r rp)) (Some (add_line c d dp r rp))) /\
  (forall c l, oceq (Line_remove_src c l) (line_remove c l)).
Proof. exact prims_source_is_model. Qed.

From KV Require Import Proofs.CircuitCeq Proofs.CircuitPrimsSrcHist.
(* [ceq] is an equivalence that the invariant and the primitive operations of the hand model respect, so the conjuncts above compose:
   one step of a primitive operation executed by the translated source ([step_source]: Node(), Line(), Line.remove, Node.remove and
   io_nodes[pos] = n run Gen/CircuitPrimsSrc.v, the composite operations run the hand model) is the step of the hand model, ... *)
Theorem C09_ceq_respected :
  (forall a b, ceq a b -> CInv a -> CInv b) /\ (forall a b, ceq a b -> IoLive a -> IoLive b) /\
  (forall a b o, prim_op o = true -> ceq a b -> oceq (step a o) (step b o)).
Proof. exact ceq_respected. Qed.
Theorem C09_prims_source_step : forall c o, oceq (step_source c o) (step c o).
Proof. exact step_source_is_model. Qed.
(* ... and every history of well-formed use of the primitive operations, EXECUTED BY THE TRANSLATED SOURCE from the empty circuit,
   does not raise and ends in a consistent graph (which is, field by field, the state of the hand model) *)
Theorem C09_prims_source_history : forall ops, forallb prim_op ops = true -> hist_pre empty ops = true ->
  exists c, run_source empty ops = Some c /\ CInv c /\ exists c', run_hist ops = Some c' /\ ceq c c'.
Proof. exact source_history_inv. Qed.
(* the hypotheses are satisfiable: the 12-step history of C09_example (swap-with-last removal, fork squeeze) on the translated source *)
Theorem C09_prims_source_example :
  forallb prim_op example_history = true /\ hist_pre empty example_history = true /\
  option_map (fun c => (nodes c, lines c, map (fun n => n_outs (nst c n)) (nodes c))) (run_source empty example_history) =
  option_map (fun c => (nodes c, lines c, map (fun n => n_outs (nst c n)) (nodes c))) (run_hist example_history) /\
  (exists c, run_source empty example_history = Some c /\ List.length (nodes c) + List.length (lines c) > 0).
Proof. exact source_history_example. Qed.

(* eliminate_1to1_forks AS TRANSLATED FROM THE SOURCE (Gen/CircuitElimSrc.v, translate/gen_circuit_elim.py; equal to the hand model
   on every state: C10_eliminate_source_is_model) does not raise inside well-formed use and keeps the graph invariant; its result is,
   field by field, the state of the hand model *)
From KV Require Import Model.CircuitPrimsSrcLib Gen.CircuitElimSrc Proofs.CircuitElimSrcExample.
Theorem C09_eliminate_source : forall c, CInv c -> elim_ok_b c = true ->
  exists c', Circuit_eliminate_1to1_forks_src c = Some c' /\ CInv c' /\ (IoLive c -> IoLive c') /\
             exists m, eliminate_1to1 c = Some m /\ ceq c' m.
Proof. exact eliminate_source_inv. Qed.

(* the pickle pair AS TRANSLATED FROM THE SOURCE (Gen/CircuitPickleSrc.v, translate/gen_circuit_pickle.py; equal to the hand model on
   every state: C10_pickle_source_is_model): unpickling the state dict of a consistent circuit does not raise, the new object's list
   attributes have the classes Circuit.__init__ creates, and it satisfies the graph invariant with the same canonical form ... *)
From KV Require Import Model.CircuitPickleSrcLib Gen.CircuitPickleSrc Proofs.CircuitPickleSrcProofs.
Theorem C09_pickle_source : forall c nm, CInv c -> io_ok_b c = true ->
  exists m c', match Circuit_getstate_src c nm with Some v => Circuit_setstate_src v | None => None end = Some (m, c') /\
               m = init_meta nm /\ CInv c' /\ canon c' = canon c /\ IoLive c'.
Proof. exact pickle_source_inv. Qed.
(* ... INCLUDING the container behaviour: removing any line of the unpickled circuit afterwards (Line.remove and the
   IndexList.__delitem__ it reaches, both translated from the source) does not raise, keeps the invariant, and every listed line is
   alive with index = position (a non-last line is replaced by the last one, which is renumbered: C10_pickle_source_example) *)
Theorem C09_unpickled_line_remove : forall c nm m c' l, CInv c -> io_ok_b c = true ->
  match Circuit_getstate_src c nm with Some v => Circuit_setstate_src v | None => None end = Some (m, c') -> In l (lines c') ->
  (m_nodes_cls m = CIndexList /\ m_lines_cls m = CIndexList /\ m_io_cls m = CGrowingList) /\
  exists c'', Line_remove_src c' l = Some c'' /\ CInv c'' /\
              forall i l2, nth_error (lines c'') i = Some l2 -> l_alive (lst c'' l2) = true /\ l_index (lst c'' l2) = i.
Proof. exact unpickled_line_remove. Qed.
