(** C08 -- signal-memory map and allocator never let live data overlap.  Statements only.
    Allocator part: proved for ALL alloc/free histories.  Map part (SimOps): see C08_map_* below and DESIGN.md. *)
From Coq Require Import List NArith Bool Arith Sorted.
From KV Require Import Model.Heap Model.HeapInv Proofs.HeapProofs.
Import ListNotations.
Local Open Scope N_scope.

Theorem C08_init : HInv hinit.
Proof. exact hinit_inv. Qed.

(* every history of well-formed use (positive sizes, only live chunks freed) keeps the invariant:
   regions tile the managed range, free regions are coalesced, released list sorted *)
Theorem C08_history_inv : forall ops h, HInv h -> well_used ops h ->
  exists h' tr, hrun ops h [] = Some (h', tr) /\ HInv h'.
Proof. exact history_inv. Qed.

Theorem C08_alloc_inv : forall h n, HInv h -> 0 < n -> HInv (snd (alloc h n)).
Proof. exact alloc_inv. Qed.
Theorem C08_free_inv : forall h loc, HInv h -> live h loc -> exists h', free h loc = Some h' /\ HInv h'.
Proof. exact free_inv. Qed.

(* the returned region is fresh: disjoint from every live region, inside the high-water mark; live regions are untouched *)
Theorem C08_alloc_fresh : forall h n, HInv h -> 0 < n ->
  let loc := fst (alloc h n) in let h' := snd (alloc h n) in
  live h' loc /\ size_of h' loc = n /\ loc + n <= mx h' /\
  (forall l, live h l -> live h' l /\ size_of h' l = size_of h l /\ (loc + n <= l \/ l + size_of h l <= loc)) /\
  (forall l, live h' l -> l = loc \/ live h l).
Proof. exact alloc_fresh. Qed.

Theorem C08_free_live : forall h loc h', HInv h -> live h loc -> free h loc = Some h' ->
  (forall l, live h' l <-> (live h l /\ l <> loc)) /\
  (forall l, live h' l -> size_of h' l = size_of h l) /\ mx h' = mx h.
Proof. exact free_live. Qed.

Theorem C08_live_disjoint : forall h a b, HInv h -> live h a -> live h b -> a <> b ->
  a + size_of h a <= b \/ b + size_of h b <= a.
Proof. exact live_disjoint. Qed.

(* max_size is the true high-water mark over the whole history *)
Theorem C08_high_water : forall ops h m h' m', HInv h -> mx h = m -> well_used ops h ->
  hrun_max ops h m = Some (h', m') -> mx h' = m' /\ HInv h'.
Proof. exact high_water. Qed.

(* the order in which a level's released set is freed is irrelevant (Python iterates a set) *)
Theorem C08_free_commute : forall h a b ha hb hab hba, HInv h -> live h a -> live h b -> a <> b ->
  free h a = Some ha -> free ha b = Some hab -> free h b = Some hb -> free hb a = Some hba -> hab = hba.
Proof. exact free_commute. Qed.

(** Map part: a memory map that passes the ownership certificate makes flat-memory execution compute, at every
    observed slot, exactly the line-level value -- no live signal is ever overwritten.  (The certificate is evaluated
    by vm_compute on the model's SimOps result for every generated circuit; that SimOps.build always produces a
    map passing it is not yet a theorem.) *)
From KV Require Import Model.SimOps Model.AllocCheck.
From KV Require Proofs.AllocProofs.
Theorem C08_map_check_sound : forall V (sem : N -> V -> V -> V -> V -> V) (dflt : V) loc alias init final ops,
  map_check loc alias init final ops = true ->
  forall (e0 : ienv) (m0 : fmem),
    (forall x l, In x init -> loc x = Some l -> m0 l = e0 x) ->
    forall p, In p final ->
      mread dflt loc (mexec sem dflt loc ops m0) p = iexec sem alias ops e0 (alias p).
Proof. intros V sem dflt. exact (KV.Proofs.AllocProofs.map_check_sound sem dflt). Qed.

(** For the default options the certificate is not needed: SimOps.build's own memory map passes it on every well-formed
    netlist whose gates are known primitives driving from their first output pin (and that side condition is necessary:
    a gate of unknown kind leaves its output line without storage, theorem reads_defined_necessary). *)
From KV Require Import Model.Netlist Model.NetlistWf Model.SimOpsCert.
From KV Require Proofs.EndToEnd.
Theorem C08_build_passes_certificate : forall c caps cmin so,
  wf_netlist c -> comb_acyclic c -> (0 < cmin)%N -> KV.Proofs.EndToEnd.gates_known c ->
  build c caps cmin false false = Some so ->
  map_check (so_loc so) (so_alias c so) (so_init so) (so_final so) (so_ops so) = true.
Proof. exact KV.Proofs.EndToEnd.build_map_check_gates. Qed.

Theorem C08_certificate_needs_reads_defined : forall c caps cmin so,
  wf_netlist c -> (0 < cmin)%N -> build c caps cmin false false = Some so ->
  map_check (so_loc so) (so_alias c so) (so_init so) (so_final so) (so_ops so) = true ->
  KV.Proofs.EndToEnd.reads_defined c.
Proof. exact KV.Proofs.EndToEnd.reads_defined_necessary. Qed.

(** ... and WITH signal-memory reuse (c_reuse=True, no fork stripping): the reference counts, the per-level free_set and the
    Heap never hand the storage of a signal that is still to be read (or that is pinned: zero, scratch, PI/PPI, PO/PPO lines)
    to another signal, for every such netlist, capacity vector and c_caps_min > 0. *)
From KV Require Proofs.ReuseProofs.
Theorem C08_build_passes_certificate_reuse : forall c caps cmin so,
  wf_netlist c -> comb_acyclic c -> (0 < cmin)%N -> KV.Proofs.EndToEnd.gates_known c ->
  build c caps cmin true false = Some so ->
  map_check (so_loc so) (so_alias c so) (so_init so) (so_final so) (so_ops so) = true.
Proof. exact KV.Proofs.ReuseProofs.build_map_check_reuse. Qed.

(* build with reuse succeeds (no release of a dead chunk, no missing capacity) whenever the capacity vector covers the lines *)
Theorem C08_build_total_reuse : forall c caps cmin,
  wf_netlist c -> comb_acyclic c -> (0 < cmin)%N -> KV.Proofs.EndToEnd.gates_known c ->
  (List.length (c_lines c) <= List.length caps)%nat ->
  exists so, build c caps cmin true false = Some so.
Proof. exact KV.Proofs.ReuseProofs.build_total_reuse. Qed.

(* the hypotheses are satisfiable on a netlist with a flip-flop, a fan-out and five levels, and reuse really happens there:
   two different non-aliased lines are stored at the same location *)
Theorem C08_reuse_nonvacuous : exists c caps cmin so,
  wf_netlist c /\ comb_acyclic c /\ (0 < cmin)%N /\ KV.Proofs.EndToEnd.gates_known c /\ build c caps cmin true false = Some so /\
  exists i j, i <> j /\ (i < List.length (c_lines c))%nat /\ (j < List.length (c_lines c))%nat /\
              so_alias c so i = i /\ so_alias c so j = j /\ so_loc so i = so_loc so j /\ so_loc so i <> None.
Proof. exact KV.Proofs.ReuseProofs.ReuseExample.reuse_nonvacuous. Qed.

(** ALL FOUR option combinations (c_reuse x strip_forks).  With strip_forks every stripped fork must be spelled "__fork__" and have
    its input connected (forks_ok; a floating fork leaves its branches without storage, like a gate of unknown kind). *)
From KV Require Proofs.ReuseStrip.
Theorem C08_build_passes_certificate_all : forall c caps cmin reuse strip so,
  wf_netlist c -> comb_acyclic c -> (0 < cmin)%N -> KV.Proofs.EndToEnd.gates_known c ->
  (strip = true -> KV.Proofs.ReuseStrip.forks_ok c) ->
  build c caps cmin reuse strip = Some so ->
  map_check (so_loc so) (so_alias c so) (so_init so) (so_final so) (so_ops so) = true.
Proof. exact KV.Proofs.ReuseStrip.build_map_check_all. Qed.

Theorem C08_build_total_all : forall c caps cmin reuse strip,
  wf_netlist c -> comb_acyclic c -> (0 < cmin)%N -> KV.Proofs.EndToEnd.gates_known c ->
  (strip = true -> KV.Proofs.ReuseStrip.forks_ok c) ->
  (List.length (c_lines c) <= List.length caps)%nat ->
  build_stems c strip (List.length (c_lines c) + 3 + List.length (s_nodes c) + List.length (s_nodes c))%nat <> None ->
  exists so, build c caps cmin reuse strip = Some so.
Proof. exact KV.Proofs.ReuseStrip.build_total_all. Qed.

Theorem C08_all_options_nonvacuous : exists c caps cmin,
  wf_netlist c /\ comb_acyclic c /\ (0 < cmin)%N /\ KV.Proofs.EndToEnd.gates_known c /\ KV.Proofs.ReuseStrip.forks_ok c /\
  forall reuse strip, exists so, build c caps cmin reuse strip = Some so.
Proof. exact KV.Proofs.ReuseStrip.AllOptionsExample.all_options_nonvacuous. Qed.

(** the netlist hypotheses of the option theorems are decidable by an executable checker that the check evaluates on every
    generated circuit (non-vacuity of C08_build_passes_certificate_all / C06_options_irrelevant on the generated population) *)
From KV Require Proofs.OptionsCheck.
Theorem C08_option_hypotheses_checkable : forall c, KV.Proofs.OptionsCheck.hyps_all_b c = true ->
  wf_netlist c /\ comb_acyclic c /\ KV.Proofs.EndToEnd.gates_known c /\ KV.Proofs.ReuseStrip.forks_ok c.
Proof. exact KV.Proofs.OptionsCheck.hyps_all_b_sound. Qed.
Print Assumptions C08_option_hypotheses_checkable.

(** Source tie (T) for the allocator: Gen/HeapSrc.v is regenerated from the text of class Heap (sim.py) on every run by
    translate/gen_heap.py (statement-by-statement, every KeyError / IndexError / negative difference an explicit [None]).
    The translated __init__ / alloc / free ARE the hand model on every state satisfying the invariant, and every history of
    well-formed use runs on the translated source to a state satisfying the invariant -- so all allocator theorems above
    (C08_alloc_fresh, C08_free_live, C08_live_disjoint, C08_high_water, C08_free_commute) speak about the code as written. *)
From KV Require Import Model.HeapSrcLib Gen.HeapSrc.
From KV Require Proofs.HeapSrcProofs.
Theorem C08_heap_source_is_model :
  hinit_src = hinit /\
  (forall h size, HInv h -> alloc_src h size = Some (alloc h size)) /\
  (forall h loc, HInv h -> live h loc -> free_src h loc = free h loc) /\
  (forall ops h, HInv h -> well_used ops h ->
     exists h' tr, hrun_src alloc_src free_src ops h [] = Some (h', tr) /\ HInv h').
Proof. exact KV.Proofs.HeapSrcProofs.heap_source_is_model. Qed.

(* the exact preconditions, without the invariant: released entries are chunk starts; the freed chunk is not yet released *)
Theorem C08_heap_source_exact : forall h,
  (forall l, In l (released h) -> KV.Model.Heap.lookup l (chunks h) <> None) ->
  (forall size, alloc_src h size = Some (alloc h size)) /\
  (forall loc, ~ In loc (released h) -> free_src h loc = free h loc).
Proof. exact KV.Proofs.HeapSrcProofs.heap_source_exact. Qed.
(* ... and they are needed: outside them the code raises KeyError where the hand model continues *)
Theorem C08_heap_source_precondition_needed :
  (let h := {| chunks := [(0, 4)]; released := [0]; cur := 4; mx := 4 |} in
   (forall l, In l (released h) -> KV.Model.Heap.lookup l (chunks h) <> None) /\ free_src h 0 = None /\ free h 0 <> None) /\
  alloc_src {| chunks := []; released := [0]; cur := 0; mx := 0 |} 1 = None.
Proof. exact (conj KV.Proofs.HeapSrcProofs.free_src_needs_live KV.Proofs.HeapSrcProofs.alloc_src_needs_rel_keys). Qed.
Theorem C08_heap_source_nonvacuous :
  let ops := [HAlloc 4; HAlloc 8; HFree 0; HAlloc 2; HFree 4] in
  HInv hinit /\ well_used ops hinit /\
  hrun_src alloc_src free_src ops hinit [] = Some ({| chunks := [(0, 2)]; released := []; cur := 2; mx := 12 |}, [0; 4; 0]).
Proof. exact KV.Proofs.HeapSrcProofs.heap_source_example. Qed.
Print Assumptions C08_heap_source_is_model.

(** ---- source tie of the scheduler (partial for the allocation pass): the WHOLE translated sim.SimOps.__init__ (Gen/SimOpsSrc.v,
    regenerated from the current source) is its allocation section [alloc_src_] -- which runs over the translated class Heap
    (Gen/HeapSrc.v) -- applied to the MODEL's op rows, stem table, reference counts and level boundaries.
    The remaining step, alloc_src_ ... = the allocation events of [build] (c_locs / c_caps / c_len), is
    C08_simops_alloc_source_is_model below (round f); the *_partial theorems are kept because they need no hypothesis on the gates. *)
From KV Require Import Model.SimOpsSrcLib Gen.SimOpsSrc.
From KV Require Proofs.SimOpsSrcLevels.
Theorem C08_simops_source_prefix_partial : forall c actrl caps cmin reuse strip stems,
  (forall n l, In (Some l) (n_outs (get_node c n)) -> (l < List.length actrl)%nat /\ (l < KV.Proofs.SimOpsSrcLevels.src_len c)%nat) ->
  (List.length (c_lines c) + 1 < List.length actrl)%nat ->
  build_stems c strip (KV.Proofs.SimOpsSrcLevels.src_len c) = Some stems -> List.length stems = KV.Proofs.SimOpsSrcLevels.src_len c ->
  Forall (KV.Proofs.SimOpsSrcLevels.op_ok (KV.Proofs.SimOpsSrcLevels.src_len c) stems) (build_ops c strip) ->
  let nl := List.length (c_lines c) in let sl := List.length (s_nodes c) in
  let ops := build_ops c strip in let rows := map (row_of_sop actrl) ops in
  let ls := levelize stems ops (KV.Proofs.SimOpsSrcLevels.src_len c) in
  let starts := rev (ls_starts ls) in let stops := tl starts ++ [List.length ops] in
  simops_src c actrl caps cmin reuse strip (S (List.length (c_nodes c)))
  = bind (alloc_src_ c sl nl (nl + 1)%nat (nl + 2)%nat (nl + 3)%nat (nl + 3 + sl)%nat (KV.Proofs.SimOpsSrcLevels.src_len c) rows stems (ls_ref ls) starts stops caps cmin reuse)
      (fun '(locs, cps, clen) => Some (rows, starts, stops, locs, cps, clen, stems)).
Proof. exact KV.Proofs.SimOpsSrcLevels.simops_source_prefix. Qed.

(** (round f: the pinned copy of the allocation section, C08_simops_alloc_section_pinned / Proofs/SimOpsSrcAllocPin.v, is replaced by the
    equality theorems C08_simops_alloc_source_is_model / C08_simops_source_is_model at the end of this file) *)

(** the same for EVERY well-formed netlist and any a_ctrl argument, without range side conditions *)
From KV Require Proofs.SimOpsSrcDomain.
Theorem C08_simops_source_prefix_wf_partial : forall c given caps cmin reuse strip stems, wf_netlist c ->
  build_stems c strip (KV.Proofs.SimOpsSrcLevels.src_len c) = Some stems ->
  let nl := List.length (c_lines c) in let sl := List.length (s_nodes c) in
  let actrl := a_ctrl_norm given (nl + 3)%nat in
  let ops := build_ops c strip in let rows := map (row_of_sop actrl) ops in
  let ls := levelize stems ops (KV.Proofs.SimOpsSrcLevels.src_len c) in
  let starts := rev (ls_starts ls) in let stops := tl starts ++ [List.length ops] in
  simops_src c actrl caps cmin reuse strip (S (List.length (c_nodes c)))
  = bind (alloc_src_ c sl nl (nl + 1)%nat (nl + 2)%nat (nl + 3)%nat (nl + 3 + sl)%nat (KV.Proofs.SimOpsSrcLevels.src_len c) rows stems (ls_ref ls) starts stops caps cmin reuse)
      (fun '(locs, cps, clen) => Some (rows, starts, stops, locs, cps, clen, stems)).
Proof. exact KV.Proofs.SimOpsSrcDomain.simops_source_prefix_wf. Qed.

(** ---- source tie of the scheduler, completed (round f): the allocation section of the CURRENT source (sim.py:263-320: three special
    slots, one slot per interface node with outputs, per level one chunk per op output through the TRANSLATED class Heap, the level's
    release set freed under c_reuse, aliases for stripped branches and PO/PPO slots, c_len), run on the model's rows / stem table /
    reference counts / level boundaries, returns exactly c_locs / c_caps / c_len of [build] -- for every well-formed, combinationally
    acyclic netlist of known gates (forks_ok when strip_forks), every capacity vector, c_caps_min > 0, all four option combinations.
    The heap invariant and "only live chunks are freed" are threaded through the translated loops by the reference-count invariant J of
    Proofs/ReuseProofs.v, so C08_heap_source_is_model applies at every alloc / free of the source. *)
From KV Require Proofs.SimOpsSrcAlloc.
Theorem C08_simops_alloc_source_is_model : forall c actrl caps cmin reuse strip stems so,
  wf_netlist c -> comb_acyclic c -> (0 < cmin)%N -> KV.Proofs.EndToEnd.gates_known c ->
  (strip = true -> KV.Proofs.ReuseStrip.forks_ok c) ->
  build_stems c strip (KV.Proofs.SimOpsSrcLevels.src_len c) = Some stems ->
  build c caps cmin reuse strip = Some so ->
  let nl := List.length (c_lines c) in let sl := List.length (s_nodes c) in
  let ops := build_ops c strip in let rows := map (row_of_sop actrl) ops in
  let ls := levelize stems ops (KV.Proofs.SimOpsSrcLevels.src_len c) in
  let starts := rev (ls_starts ls) in let stops := tl starts ++ [List.length ops] in
  alloc_src_ c sl nl (nl + 1)%nat (nl + 2)%nat (nl + 3)%nat (nl + 3 + sl)%nat (KV.Proofs.SimOpsSrcLevels.src_len c) rows stems (ls_ref ls) starts stops caps cmin reuse
  = Some (so_locs so, so_caps so, so_len so).
Proof. exact KV.Proofs.SimOpsSrcAlloc.alloc_source_is_model. Qed.

(** the WHOLE translated sim.SimOps.__init__ is [build]: op rows (with their a_ctrl columns), level_starts, level_stops, c_locs, c_caps,
    c_len and the stem table -- so C08_build_passes_certificate_all, C06_options_irrelevant_spec, C03_build_regions_all, C07_build_sched_cert
    ... speak about the constructor as written *)
Theorem C08_simops_source_is_model : forall c given caps cmin reuse strip so,
  wf_netlist c -> comb_acyclic c -> (0 < cmin)%N -> KV.Proofs.EndToEnd.gates_known c ->
  (strip = true -> KV.Proofs.ReuseStrip.forks_ok c) ->
  build c caps cmin reuse strip = Some so ->
  let actrl := a_ctrl_norm given (List.length (c_lines c) + 3)%nat in
  simops_src c actrl caps cmin reuse strip (S (List.length (c_nodes c)))
  = Some (map (row_of_sop actrl) (so_ops so), so_level_starts so, tl (so_level_starts so) ++ [List.length (so_ops so)],
          so_locs so, so_caps so, so_len so, so_stems so).
Proof. exact KV.Proofs.SimOpsSrcAlloc.simops_source_is_model. Qed.

(* the constructor as written succeeds whenever the capacity vector covers the lines (and the stem walk terminates), and the memory map
   it returns passes the ownership certificate *)
Theorem C08_simops_source_total_certified : forall c given caps cmin reuse strip,
  wf_netlist c -> comb_acyclic c -> (0 < cmin)%N -> KV.Proofs.EndToEnd.gates_known c ->
  (strip = true -> KV.Proofs.ReuseStrip.forks_ok c) ->
  (List.length (c_lines c) <= List.length caps)%nat ->
  build_stems c strip (List.length (c_lines c) + 3 + List.length (s_nodes c) + List.length (s_nodes c))%nat <> None ->
  let actrl := a_ctrl_norm given (List.length (c_lines c) + 3)%nat in
  exists so,
    simops_src c actrl caps cmin reuse strip (S (List.length (c_nodes c)))
    = Some (map (row_of_sop actrl) (so_ops so), so_level_starts so, tl (so_level_starts so) ++ [List.length (so_ops so)],
            so_locs so, so_caps so, so_len so, so_stems so) /\
    so_nlines so = List.length (c_lines c) /\ so_slen so = List.length (s_nodes c) /\
    map_check (so_loc so) (so_alias c so) (so_init so) (so_final so) (so_ops so) = true.
Proof. exact KV.Proofs.SimOpsSrcAlloc.simops_source_total_certified. Qed.

Theorem C08_simops_source_nonvacuous : exists c caps cmin,
  wf_netlist c /\ comb_acyclic c /\ (0 < cmin)%N /\ KV.Proofs.EndToEnd.gates_known c /\ KV.Proofs.ReuseStrip.forks_ok c /\
  forall reuse strip, exists so, build c caps cmin reuse strip = Some so /\
    simops_src c (a_ctrl_norm None (List.length (c_lines c) + 3)%nat) caps cmin reuse strip (S (List.length (c_nodes c)))
    = Some (map (row_of_sop (a_ctrl_norm None (List.length (c_lines c) + 3)%nat)) (so_ops so), so_level_starts so,
            tl (so_level_starts so) ++ [List.length (so_ops so)], so_locs so, so_caps so, so_len so, so_stems so).
Proof. exact KV.Proofs.SimOpsSrcAlloc.simops_source_nonvacuous. Qed.
Print Assumptions C08_simops_source_is_model.
