(** C08 -- signal-memory map and allocator never let live data overlap.  Statements only.
    Allocator part: proved for ALL alloc/free histories.  Map part (SimOps): see C08_map_* below and DESIGN.md. *)
From Coq Require Import List NArith Bool Arith Sorted.
From KV Require Import Model.Heap Model.HeapInv Proofs.HeapProofs.
Import ListNotations.
Local Open Scope N_scope.

Theorem C08_init : HInv hinit.
Proof. exact hinit_inv. Qed.

(* every history of well-formed use (positive sizes, only live chunks freed) keeps the invariant:
   regions tile the managed range, free regions are coalesced, released list sorted *)
Theorem C08_history_inv : forall ops h, HInv h -> well_used ops h ->
  exists h' tr, hrun ops h [] = Some (h', tr) /\ HInv h'.
Proof. exact history_inv. Qed.

Theorem C08_alloc_inv : forall h n, HInv h -> 0 < n -> HInv (snd (alloc h n)).
Proof. exact alloc_inv. Qed.
Theorem C08_free_inv : forall h loc, HInv h -> live h loc -> exists h', free h loc = Some h' /\ HInv h'.
Proof. exact free_inv. Qed.

(* the returned region is fresh: disjoint from every live region, inside the high-water mark; live regions are untouched *)
Theorem C08_alloc_fresh : forall h n, HInv h -> 0 < n ->
  let loc := fst (alloc h n) in let h' := snd (alloc h n) in
  live h' loc /\ size_of h' loc = n /\ loc + n <= mx h' /\
  (forall l, live h l -> live h' l /\ size_of h' l = size_of h l /\ (loc + n <= l \/ l + size_of h l <= loc)) /\
  (forall l, live h' l -> l = loc \/ live h l).
Proof. exact alloc_fresh. Qed.

Theorem C08_free_live : forall h loc h', HInv h -> live h loc -> free h loc = Some h' ->
  (forall l, live h' l <-> (live h l /\ l <> loc)) /\
  (forall l, live h' l -> size_of h' l = size_of h l) /\ mx h' = mx h.
Proof. exact free_live. Qed.

Theorem C08_live_disjoint : forall h a b, HInv h -> live h a -> live h b -> a <> b ->
  a + size_of h a <= b \/ b + size_of h b <= a.
Proof. exact live_disjoint. Qed.

(* max_size is the true high-water mark over the whole history *)
Theorem C08_high_water : forall ops h m h' m', HInv h -> mx h = m -> well_used ops h ->
  hrun_max ops h m = Some (h', m') -> mx h' = m' /\ HInv h'.
Proof. exact high_water. Qed.

(* the order in which a level's released set is freed is irrelevant (Python iterates a set) *)
Theorem C08_free_commute : forall h a b ha hb hab hba, HInv h -> live h a -> live h b -> a <> b ->
  free h a = Some ha -> free ha b = Some hab -> free h b = Some hb -> free hb a = Some hba -> hab = hba.
Proof. exact free_commute. Qed.

(** Map part: a memory map that passes the ownership certificate makes flat-memory execution compute, at every
    observed slot, exactly the line-level value -- no live signal is ever overwritten.  (The certificate is evaluated
    by vm_compute on the model's SimOps result for every generated circuit; that SimOps.build always produces a
    map passing it is not yet a theorem.) *)
From KV Require Import Model.SimOps Model.AllocCheck.
From KV Require Proofs.AllocProofs.
Theorem C08_map_check_sound : forall V (sem : N -> V -> V -> V -> V -> V) (dflt : V) loc alias init final ops,
  map_check loc alias init final ops = true ->
  forall (e0 : ienv) (m0 : fmem),
    (forall x l, In x init -> loc x = Some l -> m0 l = e0 x) ->
    forall p, In p final ->
      mread dflt loc (mexec sem dflt loc ops m0) p = iexec sem alias ops e0 (alias p).
Proof. intros V sem dflt. exact (KV.Proofs.AllocProofs.map_check_sound sem dflt). Qed.

(** For the default options the certificate is not needed: SimOps.build's own memory map passes it on every well-formed
    netlist whose gates are known primitives driving from their first output pin (and that side condition is necessary:
    a gate of unknown kind leaves its output line without storage, theorem reads_defined_necessary). *)
From KV Require Import Model.Netlist Model.NetlistWf Model.SimOpsCert.
From KV Require Proofs.EndToEnd.
Theorem C08_build_passes_certificate : forall c caps cmin so,
  wf_netlist c -> comb_acyclic c -> (0 < cmin)%N -> KV.Proofs.EndToEnd.gates_known c ->
  build c caps cmin false false = Some so ->
  map_check (so_loc so) (so_alias c so) (so_init so) (so_final so) (so_ops so) = true.
Proof. exact KV.Proofs.EndToEnd.build_map_check_gates. Qed.

Theorem C08_certificate_needs_reads_defined : forall c caps cmin so,
  wf_netlist c -> (0 < cmin)%N -> build c caps cmin false false = Some so ->
  map_check (so_loc so) (so_alias c so) (so_init so) (so_final so) (so_ops so) = true ->
  KV.Proofs.EndToEnd.reads_defined c.
Proof. exact KV.Proofs.EndToEnd.reads_defined_necessary. Qed.
