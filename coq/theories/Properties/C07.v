(** C07 -- the published level partition is a valid parallel schedule.  Statements only. *)
From Coq Require Import List NArith Bool Arith Permutation.
From KV Require Import Model.Netlist Model.SimOps Model.AllocCheck Model.Launch Proofs.AllocProofs Proofs.LaunchProofs.
Import ListNotations.

(* the greedy levelisation of SimOps yields, for EVERY op list in single-assignment topological form, a partition in
   which no op reads or overwrites an output of its own level (the scratch slot of output-less gates excepted) *)
Theorem C07_levels_valid : forall stems scratch ops len,
  ssa_topo stems scratch ops = true ->
  (forall o, In o ops -> s_out o < len /\ Forall (fun x => x < len) (map (stemmed stems) [s_i0 o; s_i1 o; s_i2 o; s_i3 o])) ->
  sched_check (stemmed stems) scratch (split_levels (rev (ls_starts (levelize stems ops len))) ops 0) = true.
Proof. exact levels_valid. Qed.

(* such a partition can be executed in ANY order inside each level: every signal except the scratch slot gets the same value *)
Theorem C07_any_order_in_level : forall V (sem : N -> V -> V -> V -> V -> V) alias scratch levels levels',
  sched_check alias scratch levels = true ->
  Forall2 (@Permutation sop) levels levels' ->
  forall (e : ienv) k, k <> scratch ->
    iexec sem alias (concat levels) e k = iexec sem alias (concat levels') e k.
Proof. intros V sem. exact (perm_level_sound sem). Qed.

(* the mock GPU launch runs every in-range (simulation, operation) thread exactly once, in some order *)
Theorem C07_threads_once : forall X Y bx by_, 0 < bx -> 0 < by_ ->
  NoDup (threads X Y bx by_) /\ (forall x y, In (x, y) (threads X Y bx by_) <-> (x < X /\ y < Y)).
Proof. exact threads_cover. Qed.

(* the scheduler's op list IS in single-assignment topological form for every well-formed netlist, so C07_levels_valid applies *)
From KV Require Import Model.NetlistWf.
From KV Require Proofs.SemProofs.
From Coq Require Import ZArith.
Theorem C07_build_ops_ssa : forall c, wf_netlist c -> comb_acyclic c ->
  ssa_topo (repeat (-1)%Z (length (c_lines c) + 3 + 2 * length (s_nodes c))) (length (c_lines c) + 1) (build_ops c false) = true.
Proof. exact KV.Proofs.SemProofs.build_ops_ssa. Qed.

(* UNCONDITIONAL: for every well-formed, combinationally acyclic netlist the level partition SimOps publishes
   (fork stripping off) is a checked schedule *)
From KV Require Proofs.SemCompose.
Theorem C07_build_levels_valid : forall c, wf_netlist c -> comb_acyclic c ->
  let nl := length (c_lines c) in let len := nl + 3 + 2 * length (s_nodes c) in
  let stems := repeat (-1)%Z len in
  sched_check (stemmed stems) (nl + 1)
    (split_levels (rev (ls_starts (levelize stems (build_ops c false) len))) (build_ops c false) 0) = true.
Proof. exact KV.Proofs.SemCompose.build_levels_valid. Qed.

(** WITH FORK STRIPPING.  [build_stems c true len] is the alias table SimOps computes (stems of fan-out branches); it is
    defined for every well-formed acyclic netlist, every line stands for the line at which the chain of "__fork__" nodes
    driving it starts, and that line's driver comes earlier in the topological order.  Read through this table the op list
    built with strip_forks=True is in single-assignment topological form, so the published levels are a checked schedule --
    for EVERY well-formed, combinationally acyclic netlist; no condition on kinds, pins or spelling is needed. *)
From KV Require Proofs.StripSchedule.
From KV Require Import Model.NetlistSem Proofs.SemCompose.
Theorem C07_build_stems_defined : forall c len, wf_netlist c -> comb_acyclic c -> exists stems, build_stems c true len = Some stems.
Proof. exact KV.Proofs.StripSchedule.build_stems_defined. Qed.

Theorem C07_stems_are_chain_heads : forall c, wf_netlist c -> comb_acyclic c -> forall len stems,
  length (c_lines c) <= len -> build_stems c true len = Some stems -> forall x,
  (x < length (c_lines c) ->
     KV.Proofs.StripSchedule.is_stem_of c (stemmed stems x) x /\ stemmed stems x < length (c_lines c) /\
     (stemmed stems x = x \/ posLt c (l_drv (get_line c (stemmed stems x))) (l_drv (get_line c x)))) /\
  (length (c_lines c) <= x -> stemmed stems x = x).
Proof. exact KV.Proofs.StripSchedule.stemmed_spec. Qed.

Theorem C07_build_ops_ssa_strip : forall c stems, wf_netlist c -> comb_acyclic c ->
  build_stems c true (length (c_lines c) + 3 + 2 * length (s_nodes c)) = Some stems ->
  ssa_topo stems (length (c_lines c) + 1) (build_ops c true) = true.
Proof. exact KV.Proofs.StripSchedule.build_ops_ssa_strip. Qed.

Theorem C07_build_levels_valid_strip : forall c stems, wf_netlist c -> comb_acyclic c ->
  let nl := length (c_lines c) in let len := nl + 3 + 2 * length (s_nodes c) in
  build_stems c true len = Some stems ->
  sched_check (stemmed stems) (nl + 1)
    (split_levels (rev (ls_starts (levelize stems (build_ops c true) len))) (build_ops c true) 0) = true.
Proof. exact KV.Proofs.StripSchedule.build_levels_valid_strip. Qed.

(* ... and this is literally the schedule half of the certificate of Model/SimOpsCert.v, for EVERY result of build: any capacities,
   c_reuse on or off, strip_forks on or off *)
From KV Require Import Model.SimOpsCert.
From Coq Require Import NArith.
Theorem C07_build_sched_cert : forall c caps cmin reuse strip so, wf_netlist c -> comb_acyclic c ->
  build c caps cmin reuse strip = Some so ->
  sched_check (stemmed (so_stems so)) (so_nlines so + 1) (split_levels (so_level_starts so) (so_ops so) 0) = true /\
  sched_check (so_alias c so) (so_nlines so + 1) (split_levels (so_level_starts so) (so_ops so) 0) = true.
Proof. exact KV.Proofs.StripSchedule.build_sched_cert. Qed.

(** Source tie (T) for the launcher (see C06_launcher_source_is_model): the loop nest translated from the current text of
    MockCuda.jit runs every in-range (simulation, operation) thread exactly once. *)
From KV Require Import Model.LaunchSrcLib Gen.LaunchSrc.
From KV Require Proofs.LaunchSrcProofs.
From Coq Require Import Bool.
Theorem C07_launcher_source_is_model :
  (forall gx gy bx by_ st, fst (launch_src gx gy bx by_ st) = launch gx gy bx by_) /\
  (forall X Y bx by_ st, 0 < bx -> 0 < by_ ->
     let run := filter (fun p => Nat.ltb (fst p) X && Nat.ltb (snd p) Y)%bool (fst (launch_src (cdiv X bx) (cdiv Y by_) bx by_ st)) in
     NoDup run /\ (forall x y, In (x, y) run <-> (x < X /\ y < Y))).
Proof. exact KV.Proofs.LaunchSrcProofs.launcher_source_is_model. Qed.
Print Assumptions C07_launcher_source_is_model.

(** ---- source tie of the scheduler: stem table and level / reference-count pass of sim.SimOps.__init__, translated from the CURRENT
    source (translate/gen_simops.py -> Gen/SimOpsSrc.v, sections stems_src / levels_src), equal the hand model (build_stems, levelize)
    on which the schedule theorems above are stated.  Side conditions = the array accesses stay in range (outside them numpy raises
    IndexError where the model's list update is silent); [op_ok] is decidable (op_ok_b) and evaluated per generated circuit. *)
From KV Require Import Model.SimOpsSrcLib Gen.SimOpsSrc.
From KV Require Proofs.SimOpsSrcProofs Proofs.SimOpsSrcLevels.
Theorem C07_simops_stems_source_is_model : forall c strip,
  (forall n l, In (Some l) (n_outs (get_node c n)) -> l < KV.Proofs.SimOpsSrcLevels.src_len c) ->
  bind (idx_src c) (fun '(sl, z, t, t2, ppi, ppo, len) =>
        stems_src c sl z t t2 ppi ppo len strip (S (List.length (c_nodes c))))
  = build_stems c strip (KV.Proofs.SimOpsSrcLevels.src_len c).
Proof. exact KV.Proofs.SimOpsSrcLevels.stems_source_is_model. Qed.

Theorem C07_simops_levels_source_is_model : forall c rows stems,
  List.length stems = KV.Proofs.SimOpsSrcLevels.src_len c ->
  Forall (KV.Proofs.SimOpsSrcLevels.op_ok (KV.Proofs.SimOpsSrcLevels.src_len c) stems) (map sop_of_row rows) ->
  let ls := levelize stems (map sop_of_row rows) (KV.Proofs.SimOpsSrcLevels.src_len c) in
  bind (idx_src c) (fun '(sl, z, t, t2, ppi, ppo, len) => levels_src c sl z t t2 ppi ppo len rows stems)
  = Some (ls_ref ls, rev (ls_starts ls), tl (rev (ls_starts ls)) ++ [List.length rows]).
Proof. exact KV.Proofs.SimOpsSrcLevels.levels_source_is_model. Qed.

Theorem C07_simops_op_ok_checkable : forall len stems o,
  KV.Proofs.SimOpsSrcLevels.op_ok_b len stems o = true -> KV.Proofs.SimOpsSrcLevels.op_ok len stems o.
Proof. exact KV.Proofs.SimOpsSrcLevels.op_ok_b_sound. Qed.

(** the hypotheses are satisfiable and the translated passes run: both fork options on a netlist with a fork, a port and a flip-flop *)
Theorem C07_simops_levels_source_nonvacuous :
  forall strip, KV.Proofs.SimOpsSrcLevels.levels_example_ok strip = true.
Proof. exact KV.Proofs.SimOpsSrcLevels.levels_source_example. Qed.

(** ... and for EVERY well-formed netlist without range side conditions (Proofs/SimOpsSrcDomain.v derives them from wf_netlist) *)
From KV Require Proofs.SimOpsSrcDomain.
Theorem C07_simops_stems_source_is_model_wf : forall c strip, wf_netlist c ->
  bind (idx_src c) (fun '(sl, z, t, t2, ppi, ppo, len) =>
        stems_src c sl z t t2 ppi ppo len strip (S (List.length (c_nodes c))))
  = build_stems c strip (KV.Proofs.SimOpsSrcLevels.src_len c).
Proof. exact KV.Proofs.SimOpsSrcDomain.stems_source_is_model_wf. Qed.

Theorem C07_simops_levels_source_is_model_wf : forall c given strip stems, wf_netlist c ->
  build_stems c strip (KV.Proofs.SimOpsSrcLevels.src_len c) = Some stems ->
  let ops := build_ops c strip in
  let rows := map (row_of_sop (a_ctrl_norm given (List.length (c_lines c) + 3))) ops in
  let ls := levelize stems ops (KV.Proofs.SimOpsSrcLevels.src_len c) in
  bind (idx_src c) (fun '(sl, z, t, t2, ppi, ppo, len) => levels_src c sl z t t2 ppi ppo len rows stems)
  = Some (ls_ref ls, rev (ls_starts ls), tl (rev (ls_starts ls)) ++ [List.length ops]).
Proof. exact KV.Proofs.SimOpsSrcDomain.levels_source_is_model_wf. Qed.
