(** C07 -- the published level partition is a valid parallel schedule.  Statements only. *)
From Coq Require Import List NArith Bool Arith Permutation.
From KV Require Import Model.Netlist Model.SimOps Model.AllocCheck Model.Launch Proofs.AllocProofs Proofs.LaunchProofs.
Import ListNotations.

(* the greedy levelisation of SimOps yields, for EVERY op list in single-assignment topological form, a partition in
   which no op reads or overwrites an output of its own level (the scratch slot of output-less gates excepted) *)
Theorem C07_levels_valid : forall stems scratch ops len,
  ssa_topo stems scratch ops = true ->
  (forall o, In o ops -> s_out o < len /\ Forall (fun x => x < len) (map (stemmed stems) [s_i0 o; s_i1 o; s_i2 o; s_i3 o])) ->
  sched_check (stemmed stems) scratch (split_levels (rev (ls_starts (levelize stems ops len))) ops 0) = true.
Proof. exact levels_valid. Qed.

(* such a partition can be executed in ANY order inside each level: every signal except the scratch slot gets the same value *)
Theorem C07_any_order_in_level : forall V (sem : N -> V -> V -> V -> V -> V) alias scratch levels levels',
  sched_check alias scratch levels = true ->
  Forall2 (@Permutation sop) levels levels' ->
  forall (e : ienv) k, k <> scratch ->
    iexec sem alias (concat levels) e k = iexec sem alias (concat levels') e k.
Proof. intros V sem. exact (perm_level_sound sem). Qed.

(* the mock GPU launch runs every in-range (simulation, operation) thread exactly once, in some order *)
Theorem C07_threads_once : forall X Y bx by_, 0 < bx -> 0 < by_ ->
  NoDup (threads X Y bx by_) /\ (forall x y, In (x, y) (threads X Y bx by_) <-> (x < X /\ y < Y)).
Proof. exact threads_cover. Qed.

(* the scheduler's op list IS in single-assignment topological form for every well-formed netlist, so C07_levels_valid applies *)
From KV Require Import Model.NetlistWf.
From KV Require Proofs.SemProofs.
From Coq Require Import ZArith.
Theorem C07_build_ops_ssa : forall c, wf_netlist c -> comb_acyclic c ->
  ssa_topo (repeat (-1)%Z (length (c_lines c) + 3 + 2 * length (s_nodes c))) (length (c_lines c) + 1) (build_ops c false) = true.
Proof. exact KV.Proofs.SemProofs.build_ops_ssa. Qed.

(* UNCONDITIONAL: for every well-formed, combinationally acyclic netlist the level partition SimOps publishes
   (fork stripping off) is a checked schedule *)
From KV Require Proofs.SemCompose.
Theorem C07_build_levels_valid : forall c, wf_netlist c -> comb_acyclic c ->
  let nl := length (c_lines c) in let len := nl + 3 + 2 * length (s_nodes c) in
  let stems := repeat (-1)%Z len in
  sched_check (stemmed stems) (nl + 1)
    (split_levels (rev (ls_starts (levelize stems (build_ops c false) len))) (build_ops c false) 0) = true.
Proof. exact KV.Proofs.SemCompose.build_levels_valid. Qed.
