(** C20 -- DEF data is extracted as written, with wildcards and via arrays expanded.  Statements only.
    Three layers, each about ALL inputs of its kind:
    * Model/DefRoute.v (DefWire.wire_points / .vias, DefNet.wires / .vias, the ROW branch of design_stmt, the collection of
      '+ ROUTED' statements): all routing statements and wire lists;
    * Model/DefElab.v (every DefTransformer callback, from the parse tree lark hands over to the DefFile containers): all trees;
    * Model/DefText.v (what lark accepts with def_file.GRAMMAR -- contextual lexer, LALR look-ahead sets -- and the tree it
      builds): all texts of code points < 256.
    The models are tied to /repo by exact correspondence on generated inputs (vcheck/props/C20.py). *)
From Coq Require Import List ZArith Bool String Arith.
From KV Require Import Model.DefRoute Model.DefSpec Proofs.DefRouteProofs.
From KV Require Import Model.DefElab Proofs.DefElabProofs.
From KV Require Import Model.DefText Model.DefTextSpec Proofs.DefTextProofs.
Import ListNotations.
Local Open Scope list_scope.

(** ** '*' inherits the previous resolved value *)
(* the loop of wire_points yields the first point followed by the structural resolution of the rest
   (and nothing when the statement has a single point, i.e. no segment) *)
Theorem C20_wildcard_resolve : forall w,
  wire_points w = match resolve_spec (w_first w) (w_rest w) with [] => [] | r => w_first w :: r end.
Proof. exact wildcard_resolve. Qed.

(* ... and that resolution is exactly: each coordinate of the k-th point is the nearest explicitly written value
   at or before k in its column, or the first point's value when the column holds only '*' so far; the optional
   extension value is the point's own *)
Theorem C20_wildcard_nearest : forall first es k q,
  nth_error (resolve_spec first es) k = Some q <->
  (k < List.length (pts_of es) /\ inherits (px first) (col_x es) k (px q) /\ inherits (py first) (col_y es) k (py q) /\
   nth_error (col_ext es) k = Some (pext q)).
Proof. exact wildcard_nearest. Qed.

(* a via sits at the last resolved wire point before it (the first point if there is none): via locations use the
   same resolution as wire points *)
Theorem C20_via_location : forall first pre nm vp post,
  let here := pxy (last (resolve_spec first pre) first) in
  via_walk (pxy first) (pre ++ EVia nm vp :: post) =
  via_walk (pxy first) pre ++ map (pair nm) (place here vp) ++ via_walk here post.
Proof. exact via_location. Qed.

(* DefWire.vias = that walk, filed per via name in file order, names in order of first use *)
Theorem C20_wire_vias_listing : forall w,
  (forall t, dd_get t (wire_vias w) = under t (wire_via_walk w)) /\
  dd_keys (wire_vias w) = first_occ (map fst (wire_via_walk w)).
Proof. exact wire_vias_listing. Qed.

(** ** DO n BY m STEP dx dy at (x, y): exactly the n*m positions (x + i dx, y + j dy), each once *)
Theorem C20_via_array_members : forall x y n m dx dy a b o,
  In (a, b, o) (expand_array x y n m dx dy) <->
  (o = "N"%string /\ exists i j, i < n /\ j < m /\ a = (x + Z.of_nat i * dx)%Z /\ b = (y + Z.of_nat j * dy)%Z).
Proof. exact via_array_members. Qed.
Theorem C20_via_array_count : forall x y n m dx dy, List.length (expand_array x y n m dx dy) = n * m.
Proof. exact via_array_count. Qed.
(* no position twice -- whenever the positions are distinct at all: a direction with more than one copy needs a non-zero step *)
Theorem C20_via_array_nodup : forall x y n m dx dy,
  n <= 1 \/ dx <> 0%Z -> m <= 1 \/ dy <> 0%Z -> NoDup (expand_array x y n m dx dy).
Proof. exact via_array_nodup. Qed.
Theorem C20_via_array_order : forall x y n m dx dy i j, i < n -> j < m ->
  nth_error (expand_array x y n m dx dy) (i * m + j) = Some ((x + Z.of_nat i * dx)%Z, (y + Z.of_nat j * dy)%Z, "N"%string).
Proof. exact via_array_order. Qed.

(** ** per-layer wires and per-type vias of a net, for any list of wires (special nets: width Some, regular: None) *)
Theorem C20_per_layer_wires : forall ws,
  (forall L, dd_get L (net_wires ws) =
             map (fun w => (w_width w, wire_points w)) (filter (fun w => String.eqb L (w_layer w) && has_segment w) ws)) /\
  dd_keys (net_wires ws) = first_occ (map w_layer (filter has_segment ws)).
Proof. exact per_layer_wires. Qed.
Theorem C20_per_type_vias : forall ws,
  (forall t, dd_get t (net_vias ws) = flat_map (fun w => under t (wire_via_walk w)) ws) /\
  dd_keys (net_vias ws) = first_occ (flat_map (fun w => first_occ (map fst (wire_via_walk w))) ws).
Proof. exact per_type_vias. Qed.
Theorem C20_listing_keys_unique : forall ws, NoDup (dd_keys (net_wires ws)) /\ NoDup (dd_keys (net_vias ws)).
Proof. exact listing_keys_unique. Qed.
(* all '+ ROUTED' statements of a net contribute, in file order; COVER / FIXED / NOSHIELD wiring does not *)
Theorem C20_routed_accumulates : forall a b, collect_routed (a ++ b) = collect_routed a ++ collect_routed b.
Proof. exact routed_accumulates. Qed.
Theorem C20_routed_only : forall kw ws rest, kw <> "routed"%string ->
  collect_routed ((kw, ws) :: rest) = collect_routed rest /\ collect_routed (("routed"%string, ws) :: rest) = ws ++ collect_routed rest.
Proof. exact routed_only. Qed.

(** ** ROW ... DO n BY m STEP dx dy: (number of sites, site step) of a horizontal / vertical row *)
Theorem C20_row_horizontal : forall n dx, (1 <= n)%Z -> (0 <= dx)%Z -> row_entry n 1 dx 0 = (n, dx).
Proof. exact row_horizontal. Qed.
Theorem C20_row_vertical : forall m dy, (1 <= m)%Z -> (0 <= dy)%Z -> row_entry 1 m 0 dy = (m, dy).
Proof. exact row_vertical. Qed.
(* the step hypothesis cannot be dropped: the code takes max(dx, dy) *)
Theorem C20_row_negative_step_refuted : exists n dx, (1 <= n)%Z /\ row_entry n 1 dx 0 <> (n, dx).
Proof. exact row_negative_step_refuted. Qed.

(** ** the transformer callbacks (Model/DefElab.v): from the parse tree lark hands over to the DefFile containers.
    [elab t = Some d]: no callback raises (only int() on a NUMBER token that is not an integer can). *)
(* every COMPONENTS / PINS / VIAS / NETS / SPECIALNETS statement of the tree is elaborated by its callback and written to the
   dictionary in statement order (a Python dict: a repeated name keeps its first position and the last data) *)
Theorem C20_tree_components : forall t d, elab t = Some d ->
  exists es, mapM elab_comp (comps_of t) = Some es /\ df_components d = pd_build es [].
Proof. exact elab_components. Qed.
Theorem C20_tree_pins : forall t d, elab t = Some d -> exists es, mapM elab_pin (pins_of t) = Some es /\ df_pins d = pd_build es [].
Proof. exact elab_pins. Qed.
Theorem C20_tree_vias : forall t d, elab t = Some d -> exists es, mapM elab_via (vias_of t) = Some es /\ df_vias d = pd_build es [].
Proof. exact elab_vias. Qed.
Theorem C20_tree_nets : forall t d, elab t = Some d -> exists es, mapM elab_net (nets_of t) = Some es /\ df_nets d = pd_build es [].
Proof. exact elab_nets. Qed.
Theorem C20_tree_specialnets : forall t d, elab t = Some d ->
  exists es, mapM elab_spnet (spnets_of t) = Some es /\ df_specialnets d = pd_build es [].
Proof. exact elab_specialnets. Qed.
(* with pairwise distinct names: none lost, none duplicated, none invented -- entry i of the dictionary is statement i *)
Theorem C20_components_exactly_once : forall t d, elab t = Some d -> NoDup (map cs_name (comps_of t)) ->
  Forall2 (fun c e => elab_comp c = Some e) (comps_of t) (df_components d).
Proof. exact components_exactly_once. Qed.
Theorem C20_pins_exactly_once : forall t d, elab t = Some d -> NoDup (map ps_name (pins_of t)) ->
  Forall2 (fun c e => elab_pin c = Some e) (pins_of t) (df_pins d).
Proof. exact pins_exactly_once. Qed.
Theorem C20_vias_exactly_once : forall t d, elab t = Some d -> NoDup (map vs_name (vias_of t)) ->
  Forall2 (fun c e => elab_via c = Some e) (vias_of t) (df_vias d).
Proof. exact vias_exactly_once. Qed.
Theorem C20_nets_exactly_once : forall t d, elab t = Some d -> NoDup (map nn_name (nets_of t)) ->
  Forall2 (fun c e => elab_net c = Some e) (nets_of t) (df_nets d).
Proof. exact nets_exactly_once. Qed.
Theorem C20_specialnets_exactly_once : forall t d, elab t = Some d -> NoDup (map sn_name (spnets_of t)) ->
  Forall2 (fun c e => elab_spnet c = Some e) (spnets_of t) (df_specialnets d).
Proof. exact specialnets_exactly_once. Qed.
(* in general (repeated names): every key once; a key holds the entry of the last statement written with it *)
Theorem C20_dict_last_wins : forall {A} (es : list (string * A)),
  NoDup (map fst (pd_build es [])) /\ forall k, pd_get k (pd_build es []) = last_with k es None.
Proof. exact @dict_last_wins. Qed.
(* ROW / TRACKS / UNITS statements: list position i is statement i (Model/DefRoute.v row_tuple / track_entry on the integers) *)
Theorem C20_rows_in_order : forall t d, elab t = Some d -> Forall2 (fun s r => s = Some r) (rows_of t) (df_rows d).
Proof. exact rows_in_order. Qed.
Theorem C20_tracks_in_order : forall t d, elab t = Some d -> Forall2 (fun s r => s = Some r) (tracks_of t) (df_tracks d).
Proof. exact tracks_in_order. Qed.
Theorem C20_units_in_order : forall t d, elab t = Some d -> Forall2 (fun s r => s = Some r) (units_of t) (df_units d).
Proof. exact units_in_order. Qed.
(* DESIGN name, VERSION, DIVIDERCHAR, BUSBITCHARS (quotes removed): the last statement of the kind; DIEAREA likewise *)
Theorem C20_header : forall t d, elab t = Some d ->
  df_design d = last_header sel_design t /\ df_version d = last_header sel_version t /\
  df_dividerchar d = last_header sel_dividerchar t /\ df_busbitchars d = last_header sel_busbitchars t.
Proof. exact elab_header. Qed.
Theorem C20_diearea : forall t d, elab t = Some d ->
  exists es, mapM oid (dieareas_of t) = Some es /\ df_diearea d = last (map Some es) None.
Proof. exact elab_diearea. Qed.
(* a point: '*' becomes None, a NUMBER its integer value; the optional third value is kept *)
Theorem C20_point_as_written : forall p r, cb_point p = Some r <->
  coord_is (tp_x p) (rp_x r) /\ coord_is (tp_y p) (rp_y r) /\
  match tp_z p with None => rp_z r = None | Some s => exists z, py_int s = Some z /\ rp_z r = Some z end.
Proof. exact point_as_written. Qed.

(** ** one net statement (regular or special; [ew] is the wire callback) *)
(* name, connection list in the order written, and under each wiring keyword exactly the wires of the statements written
   with that keyword, in order (several '+ ROUTED' statements accumulate; COVER / FIXED / NOSHIELD stay apart) *)
Theorem C20_net_as_written : forall {W} (ew : W -> option dwire) name items its k, mapM (elab_item ew) items = Some its ->
  let n := cb_net_stmt name its in
  dn_name n = name /\ dn_pins n = written_pins items /\
  mapM ew (wires_under k items) = Some (dnet_wiring (wkw_lower k) n).
Proof. exact @net_as_written. Qed.
Theorem C20_net_attr_as_written : forall {W} (ew : W -> option dwire) name items its ok, mapM (elab_item ew) items = Some its ->
  pd_get (okw_lower ok) (dn_attrs (cb_net_stmt name its)) =
  last_with (okw_lower ok) (map (fun kv => (okw_lower (fst kv), NStr (snd kv))) (written_opts items)) None.
Proof. exact @net_attr_as_written. Qed.
(* the routing statement that reaches Model/DefRoute.v is the wire as written: layer, width, first point, then points
   (with None for '*') and vias (orientation 'N' when none is written; DO..STEP as the array parameter) in order *)
Theorem C20_rwire_as_written : forall w dw r, elab_rwire w = Some dw -> route_of_dwire dw = Some r ->
  w_layer r = rw_layer w /\ w_width r = None /\
  cb_point (rw_first w) = Some (mkRP (Some (px (w_first r))) (Some (py (w_first r))) (pext (w_first r))) /\
  Forall2 relem_is (rw_rest w) (w_rest r).
Proof. exact rwire_as_written. Qed.
Theorem C20_spwire_as_written : forall w dw r, elab_spwire w = Some dw -> route_of_dwire dw = Some r ->
  w_layer r = sw_layer w /\ (exists wd, py_int (sw_width w) = Some wd /\ w_width r = Some wd) /\
  cb_point (sw_first w) = Some (mkRP (Some (px (w_first r))) (Some (py (w_first r))) (pext (w_first r))) /\
  Forall2 spelem_is (sw_rest w) (w_rest r).
Proof. exact spwire_as_written. Qed.
(* callbacks ; DefRoute: DefNet.wires / DefNet.vias of the extracted net are the per-layer / per-type listings (theorems
   above) of exactly the wires written under the net's '+ ROUTED' statements *)
Theorem C20_def_of_tree_listing : forall {W} (ew : W -> option dwire) name items its ws,
  mapM (elab_item ew) items = Some its ->
  mapM route_of_dwire (dnet_routed (cb_net_stmt name its)) = Some ws ->
  (exists dws, mapM ew (wires_under KRouted items) = Some dws /\ mapM route_of_dwire dws = Some ws) /\
  dnet_wires (cb_net_stmt name its) = Some (net_wires ws) /\ dnet_vias (cb_net_stmt name its) = Some (net_vias ws) /\
  (forall L, dd_get L (net_wires ws) =
             map (fun w => (w_width w, wire_points w)) (filter (fun w => String.eqb L (w_layer w) && has_segment w) ws)) /\
  (forall t, dd_get t (net_vias ws) = flat_map (fun w => under t (wire_via_walk w)) ws).
Proof. exact @def_of_tree_listing. Qed.

(** ** the TEXT level (Model/DefText.v: the language lark accepts with def_file.GRAMMAR and the tree it builds) *)
(* the lexer on a whole word: after any ignored text (blanks, comments that follow a blank), a word that is a whole token under
   the accept set [acc] and is followed by a blank is returned as that token; an ORIENTATION takes the blank with it *)
Theorem C20_lexer_word : forall acc g w t c0 Y, forallb ign_ok g = true -> word_tok acc w = Some t -> is_ws c0 = true ->
  next_token acc (igns_text g ++ w ++ String c0 Y) = Some (t, tok_rest t c0 Y).
Proof. exact next_token_word. Qed.
(* ignored text in front of a token is invisible to every scanner *)
Theorem C20_lexer_ignores : forall acc g w X, forallb ign_ok g = true -> first_ok w = true ->
  next_token acc (igns_text g ++ w ++ X) = next_token acc (w ++ X).
Proof. exact next_token_ignores. Qed.
(* every program of token requests -- the DEF parser is one -- reads a text as it reads the word list the text writes *)
Theorem C20_text_as_words : forall {A} (p : P A) s ws a r, Rel s ws -> runs p ws = Some (a, r) ->
  exists s', run p s = Some (a, s') /\ Rel s' r.
Proof. exact @run_sim. Qed.
(* round trip: the words of a well-formed tree are read back as the tree ... *)
Theorem C20_words_roundtrip : forall t fuel, wf_tree t = true -> t_comment t = None -> List.length (words t) < fuel ->
  runs (p_start fuel) (words t) = Some (t, []).
Proof. exact runs_words. Qed.
(* ... so ANY text that writes these words -- arbitrary ignored text between them, a blank after each -- parses to the tree *)
Theorem C20_parse_words : forall t s, wf_tree t = true -> t_comment t = None -> Rel s (words t) -> parse_def s = Some t.
Proof. exact parse_words. Qed.
Theorem C20_parse_words_comment : forall t c s, wf_tree t = true -> t_comment t = Some c -> Rel s (words t) ->
  parse_def (c ++ nl ++ s) = Some t.
Proof. exact parse_words_comment. Qed.
Theorem C20_parse_print : forall t, wf_tree t = true -> parse_def (print_def t) = Some t.
Proof. exact parse_print. Qed.
(* what well-formed means for names: no blank inside, not starting with a blank, "#" or "+"; a via of a regular wire is in
   addition not NEW, "(" or ";" (the scanner retypes these) and not an orientation word *)
Theorem C20_wf_id_iff : forall w, wf_id w = true <-> nows w = true /\ first_ok w = true /\ starts_plus w = false.
Proof. exact wf_id_iff. Qed.
Theorem C20_wf_rvia_iff : forall w, wf_rvia w = true <->
  wf_id w = true /\ orient_word w = false /\ mem_str w ["NEW"; "("; ";"]%string = false.
Proof. exact wf_rvia_iff. Qed.
(* composition: def_file.parse on the printed text / on any text writing the words = the callbacks on the tree;
   hence the statements written in the TEXT reach the DefFile exactly once, in order *)
Theorem C20_def_of_text_print : forall t, wf_tree t = true -> def_of_text (print_def t) = elab t.
Proof. exact def_of_text_print. Qed.
Theorem C20_def_of_text_words : forall t s, wf_tree t = true -> t_comment t = None -> Rel s (words t) -> def_of_text s = elab t.
Proof. exact def_of_text_words. Qed.
Theorem C20_text_components : forall t s d, wf_tree t = true -> t_comment t = None -> Rel s (words t) -> def_of_text s = Some d ->
  NoDup (map cs_name (comps_of t)) -> Forall2 (fun c e => elab_comp c = Some e) (comps_of t) (df_components d).
Proof. exact text_components. Qed.
Theorem C20_text_pins : forall t s d, wf_tree t = true -> t_comment t = None -> Rel s (words t) -> def_of_text s = Some d ->
  NoDup (map ps_name (pins_of t)) -> Forall2 (fun c e => elab_pin c = Some e) (pins_of t) (df_pins d).
Proof. exact text_pins. Qed.
Theorem C20_text_nets : forall t s d, wf_tree t = true -> t_comment t = None -> Rel s (words t) -> def_of_text s = Some d ->
  NoDup (map nn_name (nets_of t)) -> Forall2 (fun c e => elab_net c = Some e) (nets_of t) (df_nets d).
Proof. exact text_nets. Qed.
Theorem C20_text_specialnets : forall t s d, wf_tree t = true -> t_comment t = None -> Rel s (words t) -> def_of_text s = Some d ->
  NoDup (map sn_name (spnets_of t)) -> Forall2 (fun c e => elab_spnet c = Some e) (spnets_of t) (df_specialnets d).
Proof. exact text_specialnets. Qed.
Theorem C20_text_rows_tracks : forall t s d, wf_tree t = true -> t_comment t = None -> Rel s (words t) -> def_of_text s = Some d ->
  Forall2 (fun x r => x = Some r) (rows_of t) (df_rows d) /\ Forall2 (fun x r => x = Some r) (tracks_of t) (df_tracks d).
Proof. exact text_rows_tracks. Qed.

(** ** source tie (translation): the four data-extraction properties of def_file.py, translated from the CURRENT source text
    (Gen/DefRouteSrc.v, translate/gen_def_route.py) onto Python values, ARE the hand model Model/DefRoute.v the theorems above
    are stated on -- for every DefWire object that holds a routing statement of the model's domain ([wire_enc]: points = a
    fully specified first point followed by points with optional '*' / extension value and vias with None / orientation /
    DO-BY-STEP parameter; width None or anything int() reads) and every DefNet whose routed list holds such objects.
    The translated code never raises there; no further precondition. *)
From KV Require Import Model.DefRouteSrcLib Gen.DefRouteSrc Proofs.DefRouteSrcProofs.
Theorem C20_route_source_is_model :
  (forall w d, wire_enc w d ->
     DefWire_wire_points_src d = Some (PList (map enc_pt (wire_points w))) /\
     DefWire_vias_src d = Some (enc_dd enc_vplace (wire_vias w))) /\
  (forall ws n, Forall2 wire_enc ws (s_routed n) ->
     DefNet_wires_src n = Some (enc_dd enc_wseg (net_wires ws)) /\
     DefNet_vias_src n = Some (enc_dd enc_vplace (net_vias ws))).
Proof. exact route_source_is_model. Qed.
(* composed with the callbacks: on the DefNet object the transformer builds for a net ([enc_dnet]: widths as token texts) the
   translated properties return the listings callbacks ; DefRoute define, whenever those are defined *)
Theorem C20_dnet_source_is_model : forall (n : dnet) (ww : dd wseg) (vv : dd vplace),
  (dnet_wires n = Some ww -> DefNet_wires_src (enc_dnet n) = Some (enc_dd enc_wseg ww)) /\
  (dnet_vias n = Some vv -> DefNet_vias_src (enc_dnet n) = Some (enc_dd enc_vplace vv)).
Proof. exact dnet_source_is_model. Qed.
(* non-vacuity: ( 100 200 ) ( * 500 35 ) V12 ( 0 * ) V23 DO 2 BY 3 STEP 10 -20  V12 with width text "140" is in the domain,
   and the translated code computes the resolved points (explicit 0 kept, extension kept) and all 2 x 3 array members *)
Theorem C20_route_source_nonvacuous :
  wire_enc ex_wire ex_dwire /\
  DefWire_wire_points_src ex_dwire = Some (PList [PTup [PInt 100; PInt 200]; PTup [PInt 100; PInt 500; PInt 35]; PTup [PInt 0; PInt 500]]) /\
  DefWire_vias_src ex_dwire =
    Some [(PStr "V12", [PTup [PInt 100; PInt 500; PStr "N"]; PTup [PInt 0; PInt 500; PStr "N"]]);
          (PStr "V23", [PTup [PInt 0; PInt 500; PStr "N"]; PTup [PInt 0; PInt 480; PStr "N"]; PTup [PInt 0; PInt 460; PStr "N"];
                        PTup [PInt 10; PInt 500; PStr "N"]; PTup [PInt 10; PInt 480; PStr "N"]; PTup [PInt 10; PInt 460; PStr "N"]])].
Proof. exact ex_nonvacuous. Qed.

(** SOURCE TIE of the transformer callbacks: DefTransformer.pins_opt, .pins_stmt, .comp_stmt, translated statement by statement from
    the current def_file.py (Gen/DefCallbacksSrc.v, translate/gen_def_callbacks.py; DefPin(...) = the attribute stores of
    DefPin.__init__, setattr with a computed name = a store into the insertion-ordered vars() list, the side-effect comprehension
    = a loop), ARE the hand transcription Model/DefElab.v (cb_pins_opt, cb_pins_stmt, cb_comp_stmt) the callback theorems above are
    stated on.  Callbacks covered: pins_opt, pins_stmt, comp_stmt (there is no comp_opt in the code).
      pins_opt   for every argument list of the grammar (keyword token, then ID tokens / transformed points)
      pins_stmt  for every pin name and every list of (opt, val) pairs in which no attribute pair is named "placed" / "name" /
                 "points" ([pinopt_ok]: exactly the names pins_stmt / DefPin give another meaning; every value pins_opt returns
                 satisfies it); the entry goes to self.def_file.pins under pin.name
      comp_stmt  for every name / kind / point / orientation; the entry goes to self.def_file.components *)
From KV Require Import Model.DefCallbacksSrcLib Gen.DefCallbacksSrc Proofs.DefCallbacksSrcProofs.
Theorem C20_callbacks_source_is_model :
  (forall o, DefTransformer_pins_opt_src (enc_pinopt_arg o) = Some (enc_pinopt_val (cb_pins_opt o))) /\
  (forall o, pinopt_ok (cb_pins_opt o) = true) /\
  (forall name opts, forallb pinopt_ok opts = true ->
     DefTransformer_pins_stmt_src (PList (PStr name :: map enc_pinopt_val opts)) = Some (PStr name, enc_dpin (cb_pins_stmt name opts))) /\
  DefTransformer_pins_stmt_store = "pins"%string /\
  (forall name kind p orient,
     DefTransformer_comp_stmt_src (PList [PStr name; PStr kind; enc_rpoint p; PStr orient]) =
     Some (PStr (fst (cb_comp_stmt name kind p orient)), enc_dcomp (snd (cb_comp_stmt name kind p orient)))) /\
  DefTransformer_comp_stmt_store = "components"%string.
Proof. exact callbacks_source_is_model. Qed.
(* the precondition of pins_stmt is needed: an attribute pair named 'placed' is appended to pin.points by the code *)
Theorem C20_callbacks_source_precondition_needed :
  DefTransformer_pins_stmt_src (PList [PStr "p"; enc_pinopt_val (PAttr "placed" PVEmpty)]) <>
  Some (PStr "p", enc_dpin (cb_pins_stmt "p" [PAttr "placed" PVEmpty])).
Proof. exact pins_stmt_precondition_needed. Qed.
(* non-vacuity:  - VDD + NET VDD + PLACED ( 0 100 ) N + PORT + PLACED ( 500 100 ) S ;   a pin with TWO placements: both are kept, in order *)
Theorem C20_callbacks_source_nonvacuous :
  forallb pinopt_ok (map cb_pins_opt ex_pin_args) = true /\
  map DefTransformer_pins_opt_src (map enc_pinopt_arg ex_pin_args) =
    [Some (PTup [PStr "net"; PStr "VDD"]); Some (PTup [PStr "placed"; PTup [PInt 0; PInt 100; PStr "N"]]);
     Some (PTup [PStr "port"; PList []]); Some (PTup [PStr "placed"; PTup [PInt 500; PInt 100; PStr "S"]])] /\
  DefTransformer_pins_stmt_src (PList (PStr "VDD" :: map enc_pinopt_val (map cb_pins_opt ex_pin_args))) =
    Some (PStr "VDD", [("name"%string, PStr "VDD");
                       ("points"%string, PList [PTup [PInt 0; PInt 100; PStr "N"]; PTup [PInt 500; PInt 100; PStr "S"]]);
                       ("net"%string, PStr "VDD"); ("port"%string, PList [])]) /\
  dp_points (cb_pins_stmt "VDD" (map cb_pins_opt ex_pin_args)) = [(Some 0%Z, Some 100%Z, "N"%string); (Some 500%Z, Some 100%Z, "S"%string)].
Proof. exact ex_pin_two_placements. Qed.
