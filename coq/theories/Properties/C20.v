(** C20 -- DEF data is extracted as written, with wildcards and via arrays expanded.  Statements only.
    About Model/DefRoute.v (DefWire.wire_points / .vias, DefNet.wires / .vias, the ROW branch of design_stmt and the
    collection of '+ ROUTED' statements), for ALL routing statements and ALL wire lists.  The DEF grammar itself
    (text -> parsed statement) is tied by differential testing only (vcheck/props/C20.py). *)
From Coq Require Import List ZArith Bool String Arith.
From KV Require Import Model.DefRoute Model.DefSpec Proofs.DefRouteProofs.
Import ListNotations.
Local Open Scope list_scope.

(** ** '*' inherits the previous resolved value *)
(* the loop of wire_points yields the first point followed by the structural resolution of the rest
   (and nothing when the statement has a single point, i.e. no segment) *)
Theorem C20_wildcard_resolve : forall w,
  wire_points w = match resolve_spec (w_first w) (w_rest w) with [] => [] | r => w_first w :: r end.
Proof. exact wildcard_resolve. Qed.

(* ... and that resolution is exactly: each coordinate of the k-th point is the nearest explicitly written value
   at or before k in its column, or the first point's value when the column holds only '*' so far; the optional
   extension value is the point's own *)
Theorem C20_wildcard_nearest : forall first es k q,
  nth_error (resolve_spec first es) k = Some q <->
  (k < List.length (pts_of es) /\ inherits (px first) (col_x es) k (px q) /\ inherits (py first) (col_y es) k (py q) /\
   nth_error (col_ext es) k = Some (pext q)).
Proof. exact wildcard_nearest. Qed.

(* a via sits at the last resolved wire point before it (the first point if there is none): via locations use the
   same resolution as wire points *)
Theorem C20_via_location : forall first pre nm vp post,
  let here := pxy (last (resolve_spec first pre) first) in
  via_walk (pxy first) (pre ++ EVia nm vp :: post) =
  via_walk (pxy first) pre ++ map (pair nm) (place here vp) ++ via_walk here post.
Proof. exact via_location. Qed.

(* DefWire.vias = that walk, filed per via name in file order, names in order of first use *)
Theorem C20_wire_vias_listing : forall w,
  (forall t, dd_get t (wire_vias w) = under t (wire_via_walk w)) /\
  dd_keys (wire_vias w) = first_occ (map fst (wire_via_walk w)).
Proof. exact wire_vias_listing. Qed.

(** ** DO n BY m STEP dx dy at (x, y): exactly the n*m positions (x + i dx, y + j dy), each once *)
Theorem C20_via_array_members : forall x y n m dx dy a b o,
  In (a, b, o) (expand_array x y n m dx dy) <->
  (o = "N"%string /\ exists i j, i < n /\ j < m /\ a = (x + Z.of_nat i * dx)%Z /\ b = (y + Z.of_nat j * dy)%Z).
Proof. exact via_array_members. Qed.
Theorem C20_via_array_count : forall x y n m dx dy, List.length (expand_array x y n m dx dy) = n * m.
Proof. exact via_array_count. Qed.
(* no position twice -- whenever the positions are distinct at all: a direction with more than one copy needs a non-zero step *)
Theorem C20_via_array_nodup : forall x y n m dx dy,
  n <= 1 \/ dx <> 0%Z -> m <= 1 \/ dy <> 0%Z -> NoDup (expand_array x y n m dx dy).
Proof. exact via_array_nodup. Qed.
Theorem C20_via_array_order : forall x y n m dx dy i j, i < n -> j < m ->
  nth_error (expand_array x y n m dx dy) (i * m + j) = Some ((x + Z.of_nat i * dx)%Z, (y + Z.of_nat j * dy)%Z, "N"%string).
Proof. exact via_array_order. Qed.

(** ** per-layer wires and per-type vias of a net, for any list of wires (special nets: width Some, regular: None) *)
Theorem C20_per_layer_wires : forall ws,
  (forall L, dd_get L (net_wires ws) =
             map (fun w => (w_width w, wire_points w)) (filter (fun w => String.eqb L (w_layer w) && has_segment w) ws)) /\
  dd_keys (net_wires ws) = first_occ (map w_layer (filter has_segment ws)).
Proof. exact per_layer_wires. Qed.
Theorem C20_per_type_vias : forall ws,
  (forall t, dd_get t (net_vias ws) = flat_map (fun w => under t (wire_via_walk w)) ws) /\
  dd_keys (net_vias ws) = first_occ (flat_map (fun w => first_occ (map fst (wire_via_walk w))) ws).
Proof. exact per_type_vias. Qed.
Theorem C20_listing_keys_unique : forall ws, NoDup (dd_keys (net_wires ws)) /\ NoDup (dd_keys (net_vias ws)).
Proof. exact listing_keys_unique. Qed.
(* all '+ ROUTED' statements of a net contribute, in file order; COVER / FIXED / NOSHIELD wiring does not *)
Theorem C20_routed_accumulates : forall a b, collect_routed (a ++ b) = collect_routed a ++ collect_routed b.
Proof. exact routed_accumulates. Qed.
Theorem C20_routed_only : forall kw ws rest, kw <> "routed"%string ->
  collect_routed ((kw, ws) :: rest) = collect_routed rest /\ collect_routed (("routed"%string, ws) :: rest) = ws ++ collect_routed rest.
Proof. exact routed_only. Qed.

(** ** ROW ... DO n BY m STEP dx dy: (number of sites, site step) of a horizontal / vertical row *)
Theorem C20_row_horizontal : forall n dx, (1 <= n)%Z -> (0 <= dx)%Z -> row_entry n 1 dx 0 = (n, dx).
Proof. exact row_horizontal. Qed.
Theorem C20_row_vertical : forall m dy, (1 <= m)%Z -> (0 <= dy)%Z -> row_entry 1 m 0 dy = (m, dy).
Proof. exact row_vertical. Qed.
(* the step hypothesis cannot be dropped: the code takes max(dx, dy) *)
Theorem C20_row_negative_step_refuted : exists n dx, (1 <= n)%Z /\ row_entry n 1 dx 0 <> (n, dx).
Proof. exact row_negative_step_refuted. Qed.
