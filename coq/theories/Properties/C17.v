(** C17 -- graph traversals and name lookups are complete and correctly ordered. Statements only.
    Traversal part, for ALL well-formed netlists (pins may be unconnected; cut at state elements). *)
From Coq Require Import List Arith Bool Permutation.
From KV Require Import Model.Prims Model.Netlist Model.NetlistWf Proofs.TopoProofs.
Import ListNotations.

Theorem C17_topo_nodup : forall c, wf_netlist c -> NoDup (topo_order c) /\ forall n, In n (topo_order c) -> n < length (c_nodes c).
Proof. exact topo_nodup. Qed.
(* inputs and state elements first *)
Theorem C17_sources_first : forall c, wf_netlist c -> exists rest, topo_order c = topo_init c ++ rest.
Proof. exact topo_sources_first. Qed.
(* all combinational drivers before their readers *)
Theorem C17_drivers_first : forall c, wf_netlist c -> forall n i, index_of n (topo_order c) = Some i ->
  is_source c n = false -> forall d, In d (drivers c n) -> exists j, index_of d (topo_order c) = Some j /\ j < i.
Proof. exact topo_drivers_first. Qed.
(* every node exactly once -- also nodes with unconnected pins *)
Theorem C17_complete : forall c, wf_netlist c -> comb_acyclic c -> Permutation (topo_order c) (seq 0 (length (c_nodes c))).
Proof. exact topo_complete. Qed.
(* reported levels = longest combinational distance from a source *)
Theorem C17_levels : forall c, wf_netlist c -> forall n l, In (n, l) (topo_levels c) ->
  (is_source c n = true -> l = 0) /\
  (is_source c n = false -> exists ld, l = S (fold_left Nat.max ld 0) /\
       Forall2 (fun d lv => In (d, lv) (topo_levels c)) (drivers c n) ld).
Proof. exact levels_longest_path. Qed.
Theorem C17_levels_domain : forall c, map fst (topo_levels c) = topo_order c.
Proof. exact levels_domain. Qed.
(* line order covers every line once *)
Theorem C17_line_order : forall c, wf_netlist c -> comb_acyclic c -> Permutation (topo_line_order c) (seq 0 (length (c_lines c))).
Proof. exact line_order_cover. Qed.
(* reverse iteration is the mirror image: literally the forward traversal of the reversed graph *)
Theorem C17_reverse_is_mirror : forall c, rtopo_order c = topo_order (rev_netlist c).
Proof. exact rtopo_is_mirror. Qed.
Theorem C17_reverse_complete : forall c, wf_netlist c -> comb_acyclic_rev c -> Permutation (rtopo_order c) (seq 0 (length (c_nodes c))).
Proof. exact rtopo_complete. Qed.
Theorem C17_readers_first : forall c, wf_netlist c -> forall n i, index_of n (rtopo_order c) = Some i ->
  (Nat.eqb (connected (n_outs (get_node c n))) 0 || is_seq (get_node c n)) = false ->
  forall r, In r (readers c n) -> exists j, index_of r (rtopo_order c) = Some j /\ j < i.
Proof. exact rtopo_readers_first. Qed.

(** prefix lookups: every dictionary level with integer keys (bus indices) is listed in ascending NUMERIC key order --
    LSB first, not lexicographically; nested levels give nested lists (Model/Locs.v transcribes _locs) *)
From KV Require Import Model.Locs.
From KV Require Proofs.LocsProofs.
From Coq Require Import Sorted.
Theorem C17_locs_numeric_order : forall l, KV.Proofs.LocsProofs.int_keys l ->
  Sorted (fun a b => KV.Proofs.LocsProofs.nkey a <= KV.Proofs.LocsProofs.nkey b) (sort_kids l) /\ Permutation (sort_kids l) l.
Proof. exact KV.Proofs.LocsProofs.sort_kids_numeric. Qed.

(** fan-in iterator (Circuit.fanin): yields every node with a combinational path to an origin and no node without any path --
    exactly the transitive fan-in in combinational circuits.  [reaches c n o]: a path of lines from n to o;
    [comb_reaches c n o]: a path on which every node except the end point o is combinational (Model/Reach.v). *)
From KV Require Import Model.Reach.
From KV Require Proofs.FaninProofs.
(* order = restriction of reversed_topological_order; every node at most once *)
Theorem C17_fanin_order : forall c origins, wf_netlist c ->
  fanin c origins = filter (fun n => existsb (Nat.eqb n) (fanin c origins)) (rtopo_order c).
Proof. exact KV.Proofs.FaninProofs.fanin_restricts_rtopo. Qed.
Theorem C17_fanin_nodup : forall c origins, wf_netlist c -> NoDup (fanin c origins).
Proof. exact KV.Proofs.FaninProofs.fanin_nodup. Qed.
(* soundness: no node without a path to an origin *)
Theorem C17_fanin_sound : forall c origins, wf_netlist c -> forall n,
  In n (fanin c origins) -> exists o, In o origins /\ reaches c n o.
Proof. exact KV.Proofs.FaninProofs.fanin_sound. Qed.
(* completeness: every node with a combinational path to an origin *)
Theorem C17_fanin_complete_comb : forall c origins, wf_netlist c -> comb_acyclic_rev c -> forall n o,
  In o origins -> o < length (c_nodes c) -> comb_reaches c n o -> In n (fanin c origins).
Proof. exact KV.Proofs.FaninProofs.fanin_complete_comb. Qed.
(* hence: exactly the transitive fan-in when there are no state elements *)
Theorem C17_fanin_exact_comb : forall c origins, wf_netlist c -> comb_acyclic_rev c ->
  (forall n, n < length (c_nodes c) -> is_seq (get_node c n) = false) ->
  (forall o, In o origins -> o < length (c_nodes c)) ->
  forall n, In n (fanin c origins) <-> exists o, In o origins /\ reaches c n o.
Proof. exact KV.Proofs.FaninProofs.fanin_exact_comb. Qed.
(* EXACT characterisation for every netlist: n is yielded iff it is traversed and is an origin, or drives an origin, or drives
   a node that was traversed earlier and yielded *)
Theorem C17_fanin_unfold : forall c origins, wf_netlist c -> forall n,
  In n (fanin c origins) <->
  In n (rtopo_order c) /\
  (In n origins \/
   exists l, In l (somes (n_outs (get_node c n))) /\
     (In (l_rdr (get_line c l)) origins \/
      (before (rtopo_order c) (l_rdr (get_line c l)) n /\ In (l_rdr (get_line c l)) (fanin c origins)))).
Proof. exact KV.Proofs.FaninProofs.fanin_unfold. Qed.
(* at a combinational node every reader counts ... *)
Theorem C17_fanin_comb_node : forall c origins, wf_netlist c -> comb_acyclic_rev c -> forall n,
  n < length (c_nodes c) -> is_seq (get_node c n) = false ->
  (In n (fanin c origins) <->
   In n origins \/ exists l, In l (somes (n_outs (get_node c n))) /\ In (l_rdr (get_line c l)) (fanin c origins)).
Proof. exact KV.Proofs.FaninProofs.fanin_comb_node. Qed.
(* ... at a flip-flop / latch only readers that are origins, or yielded state elements with a SMALLER node index: a state element
   that feeds an origin directly is yielded (and then the logic behind it), one that feeds it through a gate is not *)
Theorem C17_fanin_seq_node : forall c origins, wf_netlist c -> comb_acyclic_rev c -> forall n,
  n < length (c_nodes c) -> is_seq (get_node c n) = true ->
  (In n (fanin c origins) <->
   In n origins \/
   exists l, In l (somes (n_outs (get_node c n))) /\
     (In (l_rdr (get_line c l)) origins \/
      (l_rdr (get_line c l) < n /\ is_seq (get_node c (l_rdr (get_line c l))) = true /\
       In (l_rdr (get_line c l)) (fanin c origins)))).
Proof. exact KV.Proofs.FaninProofs.fanin_seq_node. Qed.
(* executable test of the hypothesis comb_acyclic_rev *)
Theorem C17_acyclic_rev_b_sound : forall c, wf_netlist c -> KV.Proofs.FaninProofs.acyclic_rev_b c = true -> comb_acyclic_rev c.
Proof. exact KV.Proofs.FaninProofs.acyclic_rev_b_sound. Qed.

(** SOURCE TIE of the traversals (round 3): translate/gen_traversals.py, a fail-closed Python-ast translator, regenerates Gen/TraversalsSrc.v
    from the CURRENT text of Circuit.s_nodes, topological_order, topological_order_with_level, topological_line_order,
    reversed_topological_order and fanin on every run (a generator = the list of its yields; deque / numpy arrays = lists; every
    operation that can raise is option-valued; the while loops run on explicit fuel).  The translated functions ARE the hand models all
    theorems above are stated on -- so nodup, sources first, drivers before readers, completeness, levels, mirror image and the fan-in
    theorems hold for the code as written.  None = the Python code raised or the fuel ran out: each equation also says that the loop
    terminates within (number of nodes + 1) evaluations of its test and never raises.  Side conditions, each forced by the source:
    wf_netlist (what C09 establishes for every Circuit; outside it a line can name a node that does not exist: IndexError);
    [u32_ok]: topological_order counts the seen input lines of a node in a numpy uint32 array, whose counters wrap at 2^32 (the reversed
    traversal uses a Python list: no side condition); [i32_ok]: the levels are stored in an int32 array; origins must be nodes of the circuit. *)
From Coq Require Import ZArith.
From KV Require Import Model.TraversalsSrcLib Gen.TraversalsSrc.
From KV Require Proofs.TraversalsSrcProofs.
Theorem C17_traversals_source_is_model : forall c, wf_netlist c -> forall fuel, length (c_nodes c) < fuel ->
  s_nodes_src c = Some (s_nodes c) /\
  (u32_ok c -> topological_order_src c fuel = Some (topo_order c)) /\
  (u32_ok c -> i32_ok c -> topological_order_with_level_src c fuel = Some (map conv (topo_levels c))) /\
  (u32_ok c -> topological_line_order_src c fuel = Some (map Some (topo_line_order c))) /\
  reversed_topological_order_src c fuel = Some (rtopo_order c) /\
  (forall origins, (forall o, In o origins -> o < length (c_nodes c)) -> fanin_src c fuel origins = Some (fanin c origins)).
Proof. exact KV.Proofs.TraversalsSrcProofs.traversals_source_is_model. Qed.
(* s_nodes needs no hypothesis at all; the line order is the line-order model on whatever the translated topological_order yields *)
Theorem C17_s_nodes_source_is_model : forall c, s_nodes_src c = Some (s_nodes c).
Proof. exact KV.Proofs.TraversalsSrcProofs.s_nodes_source_is_model. Qed.
Theorem C17_line_order_source_relative : forall c fuel,
  topological_line_order_src c fuel
  = option_map (fun order => map Some (flat_map (fun n => somes (n_outs (get_node c n))) order)) (topological_order_src c fuel).
Proof. exact KV.Proofs.TraversalsSrcProofs.topological_line_order_source_relative. Qed.
(* two of the theorems above restated for the code as written *)
Theorem C17_source_complete : forall c fuel, wf_netlist c -> u32_ok c -> comb_acyclic c -> length (c_nodes c) < fuel ->
  exists order, topological_order_src c fuel = Some order /\ Permutation order (seq 0 (length (c_nodes c))).
Proof. exact KV.Proofs.TraversalsSrcProofs.topological_order_source_complete. Qed.
Theorem C17_source_reverse_is_mirror : forall c fuel, wf_netlist c -> length (c_nodes c) < fuel ->
  reversed_topological_order_src c fuel = Some (topo_order (rev_netlist c)).
Proof. exact KV.Proofs.TraversalsSrcProofs.reversed_source_is_mirror. Qed.
(* what the hypotheses exclude: a line to a node that does not exist (IndexError, the hand model lists a sixth node); one unit of fuel
   less than (number of nodes + 1); an origin that is not a node of the circuit *)
Theorem C17_traversals_source_hypotheses_needed :
  (topological_order_src KV.Proofs.TraversalsSrcProofs.SrcEx.dangling 9 = None /\ topo_order KV.Proofs.TraversalsSrcProofs.SrcEx.dangling = [0; 5]) /\
  (topological_order_src KV.Proofs.TopoProofs.Ex.ex 6 = None /\ topological_order_src KV.Proofs.TopoProofs.Ex.ex 7 = Some (topo_order KV.Proofs.TopoProofs.Ex.ex)) /\
  (fanin_src KV.Proofs.TopoProofs.Ex.ex 7 [9] = None /\ fanin KV.Proofs.TopoProofs.Ex.ex [9] = []).
Proof.
  exact (conj KV.Proofs.TraversalsSrcProofs.SrcEx.source_needs_wf
          (conj KV.Proofs.TraversalsSrcProofs.SrcEx.source_needs_fuel KV.Proofs.TraversalsSrcProofs.SrcEx.source_needs_origins)).
Qed.
(* non-vacuity: the hypotheses hold on a netlist with a fan-out stem, reconvergence, an unconnected middle pin and a flip-flop, and the
   translated loops run on it *)
Example C17_traversals_source_nonvacuous :
  wf_netlist KV.Proofs.TopoProofs.Ex.ex /\ u32_ok KV.Proofs.TopoProofs.Ex.ex /\ i32_ok KV.Proofs.TopoProofs.Ex.ex /\
  topological_order_src KV.Proofs.TopoProofs.Ex.ex 7 = Some [2; 3; 4; 5; 0; 1] /\
  topological_order_with_level_src KV.Proofs.TopoProofs.Ex.ex 7 = Some [(2, 0%Z); (3, 0%Z); (4, 1%Z); (5, 1%Z); (0, 1%Z); (1, 2%Z)] /\
  topological_line_order_src KV.Proofs.TopoProofs.Ex.ex 7 = Some [Some 0; Some 1; Some 5; Some 2; Some 3; Some 4] /\
  reversed_topological_order_src KV.Proofs.TopoProofs.Ex.ex 7 = Some [0; 3; 1; 4; 5; 2] /\
  fanin_src KV.Proofs.TopoProofs.Ex.ex 7 [1] = Some [1; 4; 5; 2] /\
  fanin_src KV.Proofs.TopoProofs.Ex.ex 7 [1] = Some (fanin KV.Proofs.TopoProofs.Ex.ex [1]) /\
  s_nodes_src KV.Proofs.TopoProofs.Ex.ex = Some [2; 0; 3].
Proof. exact KV.Proofs.TraversalsSrcProofs.SrcEx.source_example. Qed.
