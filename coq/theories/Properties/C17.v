(** C17 -- graph traversals and name lookups are complete and correctly ordered. Statements only.
    Traversal part, for ALL well-formed netlists (pins may be unconnected; cut at state elements). *)
From Coq Require Import List Arith Bool Permutation.
From KV Require Import Model.Prims Model.Netlist Model.NetlistWf Proofs.TopoProofs.
Import ListNotations.

Theorem C17_topo_nodup : forall c, wf_netlist c -> NoDup (topo_order c) /\ forall n, In n (topo_order c) -> n < length (c_nodes c).
Proof. exact topo_nodup. Qed.
(* inputs and state elements first *)
Theorem C17_sources_first : forall c, wf_netlist c -> exists rest, topo_order c = topo_init c ++ rest.
Proof. exact topo_sources_first. Qed.
(* all combinational drivers before their readers *)
Theorem C17_drivers_first : forall c, wf_netlist c -> forall n i, index_of n (topo_order c) = Some i ->
  is_source c n = false -> forall d, In d (drivers c n) -> exists j, index_of d (topo_order c) = Some j /\ j < i.
Proof. exact topo_drivers_first. Qed.
(* every node exactly once -- also nodes with unconnected pins *)
Theorem C17_complete : forall c, wf_netlist c -> comb_acyclic c -> Permutation (topo_order c) (seq 0 (length (c_nodes c))).
Proof. exact topo_complete. Qed.
(* reported levels = longest combinational distance from a source *)
Theorem C17_levels : forall c, wf_netlist c -> forall n l, In (n, l) (topo_levels c) ->
  (is_source c n = true -> l = 0) /\
  (is_source c n = false -> exists ld, l = S (fold_left Nat.max ld 0) /\
       Forall2 (fun d lv => In (d, lv) (topo_levels c)) (drivers c n) ld).
Proof. exact levels_longest_path. Qed.
Theorem C17_levels_domain : forall c, map fst (topo_levels c) = topo_order c.
Proof. exact levels_domain. Qed.
(* line order covers every line once *)
Theorem C17_line_order : forall c, wf_netlist c -> comb_acyclic c -> Permutation (topo_line_order c) (seq 0 (length (c_lines c))).
Proof. exact line_order_cover. Qed.
(* reverse iteration is the mirror image: literally the forward traversal of the reversed graph *)
Theorem C17_reverse_is_mirror : forall c, rtopo_order c = topo_order (rev_netlist c).
Proof. exact rtopo_is_mirror. Qed.
Theorem C17_reverse_complete : forall c, wf_netlist c -> comb_acyclic_rev c -> Permutation (rtopo_order c) (seq 0 (length (c_nodes c))).
Proof. exact rtopo_complete. Qed.
Theorem C17_readers_first : forall c, wf_netlist c -> forall n i, index_of n (rtopo_order c) = Some i ->
  (Nat.eqb (connected (n_outs (get_node c n))) 0 || is_seq (get_node c n)) = false ->
  forall r, In r (readers c n) -> exists j, index_of r (rtopo_order c) = Some j /\ j < i.
Proof. exact rtopo_readers_first. Qed.

(** prefix lookups: every dictionary level with integer keys (bus indices) is listed in ascending NUMERIC key order --
    LSB first, not lexicographically; nested levels give nested lists (Model/Locs.v transcribes _locs) *)
From KV Require Import Model.Locs.
From KV Require Proofs.LocsProofs.
From Coq Require Import Sorted.
Theorem C17_locs_numeric_order : forall l, KV.Proofs.LocsProofs.int_keys l ->
  Sorted (fun a b => KV.Proofs.LocsProofs.nkey a <= KV.Proofs.LocsProofs.nkey b) (sort_kids l) /\ Permutation (sort_kids l) l.
Proof. exact KV.Proofs.LocsProofs.sort_kids_numeric. Qed.
