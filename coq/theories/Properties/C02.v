(** C02 -- 4-/8-valued simulation follows the documented algebra and is X-sound. Statements only. *)
From Coq Require Import List NArith Bool Arith String.
From KV Require Import Model.Bits Model.Logic Model.Prims Model.OpSem Gen.LogicSimDispatch
     Proofs.Dispatch Proofs.CircuitLevel Proofs.BitsLift.
Import ListNotations.

(* what LogicSim.c_prop writes for each of the 33 opcodes in 8-valued mode (both with and without
   callback) is the documented composition of multi-valued operators, for all 8^4 operand values *)
Theorem C02_dispatch8_spec : forall tbl, tbl = disp8 \/ tbl = disp8_cb ->
  forall p, exists g, assoc (prim_name p) tbl = Some g /\
    forall a b c d, run_bool g (encode_ins 3 [a; b; c; d]) = code_bits (spec_prim p a b c d).
Proof. exact dispatch8_spec. Qed.

Theorem C02_dispatch4_spec : forall tbl, tbl = disp4 \/ tbl = disp4_cb ->
  forall p, exists g, assoc (prim_name p) tbl = Some g /\
    forall a b c d, is4 a = true -> is4 b = true -> is4 c = true -> is4 d = true ->
      run_bool g (encode_ins 2 [a; b; c; d]) = firstn 2 (code_bits (spec_prim p a b c d)) /\
      is4 (spec_prim p a b c d) = true.
Proof. exact dispatch4_spec. Qed.

(* per lane, for any batch size *)
Theorem C02_lanes : forall w p ins lane, (lane < w)%N ->
  map (fun x => N.testbit x lane) (run_N w p ins) = run_bool p (map (fun x => N.testbit x lane) ins).
Proof. intros. apply run_lift. assumption. Qed.

(* X-soundness for every op list (circuit) and every stimulus *)
Theorem C02_x_sound : forall ops (e : env code) (e' : env bool),
  (forall k, completes (e k) (e' k) = true) ->
  forall k, completes (exec_ops spec_prim ops e k) (exec_ops prim_fn ops e' k) = true.
Proof. exact x_sound_circuit. Qed.

(* initial and final components = 2-valued simulation of the stimulus' initial / final components *)
Theorem C02_proj8 : forall ops (e : env code), (forall k, known (e k) = true) ->
  forall k, known (exec_ops spec_prim ops e k) = true /\
            fin (exec_ops spec_prim ops e k) = exec_ops prim_fn ops (fun j => fin (e j)) k /\
            ini (exec_ops spec_prim ops e k) = exec_ops prim_fn ops (fun j => ini (e j)) k.
Proof. exact proj8_circuit. Qed.

Theorem C02_bool_is_2valued : forall ops (e : env bool) k,
  exec_ops spec_prim ops (fun j => code_of_bool (e j)) k = code_of_bool (exec_ops prim_fn ops e k).
Proof. exact bool_circuit. Qed.

(** gate by gate: for EVERY well-formed acyclic netlist and EVERY multi-valued stimulus the scheduler's op list, executed
    with the documented operator composition [spec_prim] per opcode, satisfies every node's equation -- the captured value of a
    port or state element is the composition of the documented operators along the netlist (instance of the C01 main
    theorem in the value domain [code]); with C02_dispatch8_spec / C02_dispatch4_spec this is what c_prop computes per lane *)
From KV Require Import Model.Netlist Model.NetlistWf Model.SimOps Model.AllocCheck Model.NetlistSem Model.WaveOps.
From KV Require Proofs.SemProofs.
Definition sem8_lut (l : N) (a b c d : code) : code :=
  match prim_of l with Some p => spec_prim p a b c d | None => a end.
Theorem C02_gate_by_gate : forall c (stim : nat -> code), wf_netlist c -> comb_acyclic c ->
  solution sem8_lut Zero c stim (iexec sem8_lut (fun x => x) (build_ops c false) (init_env Zero c stim)).
Proof. intros c stim. exact (KV.Proofs.SemProofs.build_ops_solution sem8_lut Zero c stim). Qed.

(** End to end for the default options in the multi-valued domain (instance of the C01 end-to-end theorem): the flat memory
    that SimOps.build lays out, after executing the scheduled ops with the documented operator composition per opcode, holds at
    every observed slot the value of the line feeding that output / state element in the netlist's gate-by-gate solution. *)
From KV Require Import Model.SimOpsCert.
From KV Require Proofs.EndToEnd.
Theorem C02_end_to_end_default : forall c caps cmin so (stim : nat -> code) (m0 : nat -> code) v,
  wf_netlist c -> comb_acyclic c -> (0 < cmin)%N -> KV.Proofs.EndToEnd.gates_known c ->
  build c caps cmin false false = Some so ->
  (forall x l, In x (so_init so) -> so_loc so x = Some l -> m0 l = init_env Zero c stim x) ->
  solution sem8_lut Zero c stim v ->
  forall p, In p (so_final so) ->
    mread Zero (so_loc so) (mexec sem8_lut Zero (so_loc so) (so_ops so) m0) p = v (so_alias c so p).
Proof. intros c caps cmin so stim m0 v H1 H2 H3 H4 H5 H6 H7 p Hp.
  exact (proj2 (proj2 (KV.Proofs.EndToEnd.end_to_end_solution sem8_lut Zero c caps cmin so stim m0 v H1 H2 H3 H4 H5 H6 H7 p Hp))). Qed.
Print Assumptions C02_end_to_end_default.

(** MODEL-LEVEL END TO END, multi-valued.  The entry point of the 4-/8-valued correspondence check ([sim_case8]: SimOps.build with
    any c_reuse / strip_forks, s_to_c, c_prop with the documented operator composition [spec_prim] per opcode, c_to_s on a list
    memory) returns, for every well-formed acyclic netlist of known gates and every stimulus, the capture of the gate-by-gate
    execution of C02_gate_by_gate: at every s_node with a data line, the value of that line in ANY solution of the node equations
    in the domain [code].  None only where SimOps raises (a stripped fork without stem).  (Proofs/LogicSimGlue.v) *)
From KV Require Import Model.LogicSimModel Model.CycleSem.
From KV Require Proofs.LogicSimGlue Proofs.ReuseStrip.
Theorem C02_logicsim_model_correct : forall c reuse strip s0 s1,
  wf_netlist c -> comb_acyclic c -> KV.Proofs.EndToEnd.gates_known c -> (strip = true -> KV.Proofs.ReuseStrip.forks_ok c) ->
  List.length s0 = List.length (s_nodes c) -> List.length s1 = List.length (s_nodes c) ->
  match sim_case8 c reuse strip s0 s1 with
  | Some r => r = capture Zero c (iexec sem8_lut (fun x => x) (build_ops c false) (init_env Zero c (fun p => nth p s0 Zero))) s1 /\
              forall v, solution sem8_lut Zero c (fun p => nth p s0 Zero) v ->
                forall p l0, snode_in c p = Some l0 -> nth p r Zero = v l0
  | None => build_stems c strip (List.length (c_lines c) + 3 + List.length (s_nodes c) + List.length (s_nodes c)) = None
  end.
Proof. exact KV.Proofs.LogicSimGlue.sim_case8_correct. Qed.

(** ---- source tie of the 4- / 8-valued evaluation loops of LogicSim.c_prop (round 3): their if / elif chains are translated from the
    CURRENT source (translate/gen_logicsim_drivers.py -> Gen/LogicSimDriversSrc.v).  For every opcode constant of sim.py the chain
    selects a branch (a sequence of bp4v_* / bp8v_* calls on the views c[o0], c[i0..i3], c[t0], c[t1]; each call means the program traced
    from logic.py, Gen/LogicOps.v, in place for `bpXv_not(c[o0], c[o0])`) that reads o0 / t0 / t1 only after it has written them and
    leaves in c[o0] exactly what the table traced by translate/gen_dispatch.py computes, on ALL 4^4 / 8^4 operand tuples -- hence the
    documented operator composition. *)
From Coq Require Import ZArith.
From KV Require Import Gen.SimTables Gen.LogicSimDispatch Model.Logic Model.OpSem.
From KV Require Import Model.WaveDrvPrelude Model.LogicSimDrvPrelude Gen.LogicSimDriversSrc.
From KV Require Proofs.LogicSimDriversProofs.
Theorem C02_logicsim_chain_agrees_trace :
  forallb (KV.Proofs.LogicSimDriversProofs.chainN_chk 2 codes4 (l_chain loop_cprop4) disp4) lut_table = true /\
  forallb (KV.Proofs.LogicSimDriversProofs.chainN_chk 2 codes4 (l_chain loop_cprop4) disp4_cb) lut_table = true /\
  forallb (KV.Proofs.LogicSimDriversProofs.chainN_chk 3 all_codes (l_chain loop_cprop8) disp8) lut_table = true /\
  forallb (KV.Proofs.LogicSimDriversProofs.chainN_chk 3 all_codes (l_chain loop_cprop8) disp8_cb) lut_table = true /\
  KV.Proofs.LogicSimDriversProofs.guards_known (l_chain loop_cprop4) = true /\ KV.Proofs.LogicSimDriversProofs.guards_known (l_chain loop_cprop8) = true.
Proof. exact (conj KV.Proofs.LogicSimDriversProofs.chain4_ok (conj KV.Proofs.LogicSimDriversProofs.chain4_cb_ok
              (conj KV.Proofs.LogicSimDriversProofs.chain8_ok (conj KV.Proofs.LogicSimDriversProofs.chain8_cb_ok
              (conj KV.Proofs.LogicSimDriversProofs.guards_4_ok KV.Proofs.LogicSimDriversProofs.guards_8_ok))))). Qed.

(* PARTIAL with respect to the intended C02_logicsim_drivers_source_is_model (translated m = 4 / m = 8 loop over the op rows = c_prop of
   Model/LogicSimModel.v with sem8): proved per branch on the names' values (register view); missing is the lifting to the list memory
   (needs: the locations of o0, t0, t1 differ from each other and from the operands' -- the memory map's guarantee, not yet a theorem --
   and equality only outside the two scratch locations) and the fold over the op list.  The whole loops are compared with the real
   c_prop on generated arrays on every run (harness/lsim_drivers_corr.py). *)
Theorem C02_logicsim_drivers_source_is_model_partial :
  (forall tbl, tbl = disp8 \/ tbl = disp8_cb -> forall l p, KV.Model.LogicSimModel.prim_of_lut l = Some p ->
     exists body, chain_find (l_chain loop_cprop8) (Z.of_N l) = Some body /\ KV.Proofs.LogicSimDriversProofs.dbu [] body = true /\
       forall a b c d, KV.Proofs.LogicSimDriversProofs.reg_exec body (KV.Proofs.LogicSimDriversProofs.opdN 3 a b c d) So0 = code_bits (spec_prim p a b c d)) /\
  (forall tbl, tbl = disp4 \/ tbl = disp4_cb -> forall l p, KV.Model.LogicSimModel.prim_of_lut l = Some p ->
     exists body, chain_find (l_chain loop_cprop4) (Z.of_N l) = Some body /\ KV.Proofs.LogicSimDriversProofs.dbu [] body = true /\
       forall a b c d, is4 a = true -> is4 b = true -> is4 c = true -> is4 d = true ->
         KV.Proofs.LogicSimDriversProofs.reg_exec body (KV.Proofs.LogicSimDriversProofs.opdN 2 a b c d) So0 = firstn 2 (code_bits (spec_prim p a b c d)) /\
         is4 (spec_prim p a b c d) = true).
Proof. exact (conj KV.Proofs.LogicSimDriversProofs.chain8_branch KV.Proofs.LogicSimDriversProofs.chain4_branch). Qed.

(** ---- the register view LIFTED to the list memory and folded over the op list (Proofs/LogicSimLoop8.v), m == 8, no callback:
    [ops_sep_b so] (decidable; evaluated for every generated circuit by the check): c_locs[tmp_idx] <> c_locs[tmp2_idx], and for every op row
    the location of o0 differs from both and all three differ from the locations of i0..i3 -- what the memory map guarantees.
    [agree8 lt0 lt1 M m]: the plane memory M shows the model memory m (three planes per location = code_bits) at every location except the
    two scratch locations.  Then the translated loop of LogicSim.c_prop (pinned skeleton, t0 / t1 read from c_locs) over the op rows of ANY
    SimOps result IS c_prop of the compared model with sem8 = the documented operator composition, outside the scratch locations.
    That ops_sep_b holds for every build() result (tmp / tmp2 allocated apart from every signal, an output never placed on a location one of
    its own operands still occupies) is derived from the allocator invariant further below (C02_logicsim_separation_build) and is also
    evaluated per generated circuit; m == 4 (needs the 4-valued sub-domain invariant) and the callback copy are not lifted. *)
From KV Require Proofs.LogicSimLoop8 Proofs.LogicSimLoop8Example.
Module LS8 := KV.Proofs.LogicSimLoop8.

(* one iteration: the statements of the selected branch executed on the LIST memory = the model's step outside the scratch locations *)
Theorem C02_logicsim_iteration_source_is_model : forall so lt0 lt1, lt0 <> lt1 -> forall o m M,
  LS8.agree8 lt0 lt1 M m -> KV.Proofs.LogicSimGlue.locs_ok so (List.length m) -> (lt0 < List.length m)%nat -> (lt1 < List.length m)%nat ->
  LS8.op_sep_b so lt0 lt1 o = true ->
  LS8.agree8 lt0 lt1
    (match chain_find (l_chain loop_cprop8) (field (l_hdr loop_cprop8) (KV.Proofs.LogicSimDriversProofs.row_of o) is_hop) with
     | Some body => fold_left (exec_stmt 3 (post_of loop_cprop8 (KV.Model.SimOps.so_locs so) (Z.of_nat lt0) (Z.of_nat lt1)
                                                    (KV.Proofs.LogicSimDriversProofs.row_of o))) body M
     | None => M
     end)
    (KV.Model.LogicSimModel.prop1 Zero KV.Model.LogicSimModel.sem8 so m o).
Proof. exact LS8.body8_model. Qed.

Theorem C02_logicsim_loop_source_is_model : forall so m M, LS8.ops_sep_b so = true -> KV.Proofs.LogicSimGlue.locs_ok so (List.length m) ->
  match KV.Model.SimOpsCert.so_loc so (KV.Model.SimOps.so_nlines so + 1), KV.Model.SimOpsCert.so_loc so (KV.Model.SimOps.so_nlines so + 2) with
  | Some lt0, Some lt1 =>
      LS8.agree8 lt0 lt1 M m ->
      LS8.agree8 lt0 lt1
        (fst (c_prop_src loop_prop_cpu loop_cprop2_cb loop_cprop4 loop_cprop8 8 (KV.Model.SimOps.so_locs so) (KV.Model.SimOps.so_nlines so)
                (Z.of_nat (KV.Model.SimOps.so_nlines so + 1)) (Z.of_nat (KV.Model.SimOps.so_nlines so + 2)) None
                (map KV.Proofs.LogicSimDriversProofs.row_of (KV.Model.SimOps.so_ops so)) M))
        (KV.Model.LogicSimModel.c_prop Zero KV.Model.LogicSimModel.sem8 so m)
  | _, _ => False
  end.
Proof. exact LS8.cprop8_source_is_model. Qed.

Theorem C02_logicsim_loop_source_nonvacuous : exists so lt0 lt1,
  KV.Model.SimOps.build KV.Proofs.ReuseProofs.ReuseExample.exR (repeat 1%N 10) 1%N true true = Some so /\ LS8.ops_sep_b so = true /\
  KV.Proofs.LogicSimGlue.locs_ok so (List.length KV.Proofs.LogicSimLoop8Example.exM8) /\
  KV.Model.SimOpsCert.so_loc so (KV.Model.SimOps.so_nlines so + 1) = Some lt0 /\ KV.Model.SimOpsCert.so_loc so (KV.Model.SimOps.so_nlines so + 2) = Some lt1 /\
  (2 <= List.length (KV.Model.SimOps.so_ops so))%nat /\
  LS8.agree8 lt0 lt1
    (fst (c_prop_src loop_prop_cpu loop_cprop2_cb loop_cprop4 loop_cprop8 8 (KV.Model.SimOps.so_locs so) (KV.Model.SimOps.so_nlines so)
            (Z.of_nat (KV.Model.SimOps.so_nlines so + 1)) (Z.of_nat (KV.Model.SimOps.so_nlines so + 2)) None
            (map KV.Proofs.LogicSimDriversProofs.row_of (KV.Model.SimOps.so_ops so)) (map LS8.emb8 KV.Proofs.LogicSimLoop8Example.exM8)))
    (KV.Model.LogicSimModel.c_prop Zero KV.Model.LogicSimModel.sem8 so KV.Proofs.LogicSimLoop8Example.exM8) /\
  KV.Model.LogicSimModel.c_prop Zero KV.Model.LogicSimModel.sem8 so KV.Proofs.LogicSimLoop8Example.exM8 <> KV.Proofs.LogicSimLoop8Example.exM8.
Proof. exact KV.Proofs.LogicSimLoop8Example.loop8_example. Qed.

(** ---- the separation condition IS a theorem for every build() result (all four option combinations) whose ops all write circuit lines
    (Proofs/LogicSimSepBuild.v; from the allocator invariant: an output is never placed on a location that a still-needed or pinned index
    occupies, and zero / tmp / tmp2 / the PPI slots are pinned pairwise apart).  A gate WITHOUT output line writes the scratch slot
    itself (o0 = tmp_idx, sim.py): there c[o0] and c[t0] are the same view and the theorem does not apply -- the only remaining gap for
    m == 8 without callback; m == 4 and the callback copies are not lifted. *)
From KV Require Proofs.LogicSimSepBuild.
Theorem C02_logicsim_separation_build : forall c caps cmin reuse strip so,
  wf_netlist c -> comb_acyclic c -> (0 < cmin)%N -> KV.Proofs.EndToEnd.gates_known c -> (strip = true -> KV.Proofs.ReuseStrip.forks_ok c) ->
  (forall o, In o (build_ops c strip) -> KV.Model.SimOps.s_out o < List.length (c_lines c)) ->
  KV.Model.SimOps.build c caps cmin reuse strip = Some so -> LS8.ops_sep_b so = true.
Proof. exact KV.Proofs.LogicSimSepBuild.build_ops_sep. Qed.

Theorem C02_logicsim_drivers_source_is_model : forall c caps cmin reuse strip so m M,
  wf_netlist c -> comb_acyclic c -> (0 < cmin)%N -> KV.Proofs.EndToEnd.gates_known c -> (strip = true -> KV.Proofs.ReuseStrip.forks_ok c) ->
  (forall o, In o (build_ops c strip) -> KV.Model.SimOps.s_out o < List.length (c_lines c)) ->
  KV.Model.SimOps.build c caps cmin reuse strip = Some so -> List.length m = N.to_nat (KV.Model.SimOps.so_len so) ->
  exists lt0 lt1, KV.Model.SimOpsCert.so_loc so (KV.Model.SimOps.so_nlines so + 1) = Some lt0 /\
    KV.Model.SimOpsCert.so_loc so (KV.Model.SimOps.so_nlines so + 2) = Some lt1 /\ lt0 <> lt1 /\
    (LS8.agree8 lt0 lt1 M m ->
     LS8.agree8 lt0 lt1
       (fst (c_prop_src loop_prop_cpu loop_cprop2_cb loop_cprop4 loop_cprop8 8 (KV.Model.SimOps.so_locs so) (KV.Model.SimOps.so_nlines so)
               (Z.of_nat (KV.Model.SimOps.so_nlines so + 1)) (Z.of_nat (KV.Model.SimOps.so_nlines so + 2)) None
               (map KV.Proofs.LogicSimDriversProofs.row_of (KV.Model.SimOps.so_ops so)) M))
       (KV.Model.LogicSimModel.c_prop Zero KV.Model.LogicSimModel.sem8 so m)).
Proof. exact KV.Proofs.LogicSimSepBuild.build_cprop8_source_is_model. Qed.

Theorem C02_logicsim_drivers_source_nonvacuous :
  wf_netlist KV.Proofs.ReuseProofs.ReuseExample.exR /\ comb_acyclic KV.Proofs.ReuseProofs.ReuseExample.exR /\
  KV.Proofs.EndToEnd.gates_known KV.Proofs.ReuseProofs.ReuseExample.exR /\ KV.Proofs.ReuseStrip.forks_ok KV.Proofs.ReuseProofs.ReuseExample.exR /\
  (forall o, In o (build_ops KV.Proofs.ReuseProofs.ReuseExample.exR true) ->
     KV.Model.SimOps.s_out o < List.length (c_lines KV.Proofs.ReuseProofs.ReuseExample.exR)) /\
  (3 <= List.length (build_ops KV.Proofs.ReuseProofs.ReuseExample.exR true)) /\
  exists so, KV.Model.SimOps.build KV.Proofs.ReuseProofs.ReuseExample.exR (repeat 1%N 10) 1%N true true = Some so.
Proof. exact KV.Proofs.LogicSimLoop8Example.build_hyps_example. Qed.

(** ---- round 3, second step (Proofs/LogicSimLoopN.v, Proofs/LogicSimSepBuildX.v): the memory-level tie made generic in the number of planes.
    (a) GATES WITHOUT OUTPUT LINE (op row s_out = tmp_idx: c[o0] and c[t0] are the same view).  [LSN.ops_sepx_b]: every op row is separated
        as before OR its output location is one of the two scratch locations.  In the second case nothing needs to be known about what the
        overlapping views compute: every statement of every branch writes c[o0], c[t0] or c[t1] (defined-before-use check of the chain), i.e.
        only scratch locations, and the model's step writes c_locs[tmp_idx] only -- outside the scratch locations both leave the memory as
        it was.  ops_sepx_b holds for EVERY build() result (C02_logicsim_separation_build_x; the hypothesis "all ops write circuit
        lines" of C02_logicsim_separation_build is gone).
    (b) m == 4.  self.c has mdim = 2 planes per location: there is NO third plane in the signal memory.  The third plane exists only in
        s[k, pos, 0:3]; s_to_c reads s[0, :, :2] (plane 2 is not looked at), c_to_s writes s[1, :, :2] (plane 2 of s[1] keeps its old
        content).  [LSN.agree4 lt0 lt1 M m]: location l of M holds firstn 2 (code_bits (nth l m Zero)); [LSN.inv4 m]: every value of the
        model memory is is4 (0, 1, X, -), on which firstn 2 o code_bits is injective; the invariant is kept by c_prop (conclusion). *)
From KV Require Proofs.LogicSimLoopN Proofs.LogicSimSepBuildX Proofs.LogicSimLoopNExample.
Module LSN := KV.Proofs.LogicSimLoopN.

Theorem C02_logicsim_separation_build_x : forall c caps cmin reuse strip so,
  wf_netlist c -> comb_acyclic c -> (0 < cmin)%N -> KV.Proofs.EndToEnd.gates_known c -> (strip = true -> KV.Proofs.ReuseStrip.forks_ok c) ->
  KV.Model.SimOps.build c caps cmin reuse strip = Some so -> LSN.ops_sepx_b so = true.
Proof. exact KV.Proofs.LogicSimSepBuildX.build_ops_sepx. Qed.

(* one iteration, m == 8, extended: separated op rows and op rows that write a scratch location *)
Theorem C02_logicsim_iteration8x_source_is_model : forall so lt0 lt1, lt0 <> lt1 -> forall o m M,
  LS8.agree8 lt0 lt1 M m -> KV.Proofs.LogicSimGlue.locs_ok so (List.length m) -> (lt0 < List.length m)%nat -> (lt1 < List.length m)%nat ->
  LSN.op_sepx_b so lt0 lt1 o = true ->
  LS8.agree8 lt0 lt1
    (match chain_find (l_chain loop_cprop8) (field (l_hdr loop_cprop8) (KV.Proofs.LogicSimDriversProofs.row_of o) is_hop) with
     | Some body => fold_left (exec_stmt 3 (post_of loop_cprop8 (KV.Model.SimOps.so_locs so) (Z.of_nat lt0) (Z.of_nat lt1)
                                                    (KV.Proofs.LogicSimDriversProofs.row_of o))) body M
     | None => M
     end)
    (KV.Model.LogicSimModel.prop1 Zero KV.Model.LogicSimModel.sem8 so m o).
Proof. exact LSN.body8x_model. Qed.

Theorem C02_logicsim_loop8x_source_is_model : forall c caps cmin reuse strip so,
  wf_netlist c -> comb_acyclic c -> (0 < cmin)%N -> KV.Proofs.EndToEnd.gates_known c -> (strip = true -> KV.Proofs.ReuseStrip.forks_ok c) ->
  KV.Model.SimOps.build c caps cmin reuse strip = Some so -> forall m, List.length m = N.to_nat (KV.Model.SimOps.so_len so) -> forall M,
  exists lt0 lt1, KV.Model.SimOpsCert.so_loc so (KV.Model.SimOps.so_nlines so + 1) = Some lt0 /\
    KV.Model.SimOpsCert.so_loc so (KV.Model.SimOps.so_nlines so + 2) = Some lt1 /\ lt0 <> lt1 /\
    (LS8.agree8 lt0 lt1 M m ->
     LS8.agree8 lt0 lt1
       (fst (c_prop_src loop_prop_cpu loop_cprop2_cb loop_cprop4 loop_cprop8 8 (KV.Model.SimOps.so_locs so) (KV.Model.SimOps.so_nlines so)
               (Z.of_nat (KV.Model.SimOps.so_nlines so + 1)) (Z.of_nat (KV.Model.SimOps.so_nlines so + 2)) None
               (map KV.Proofs.LogicSimDriversProofs.row_of (KV.Model.SimOps.so_ops so)) M))
       (KV.Model.LogicSimModel.c_prop Zero KV.Model.LogicSimModel.sem8 so m)).
Proof. exact KV.Proofs.LogicSimSepBuildX.build_cprop8_source_is_model_x. Qed.

Theorem C02_logicsim_loop4_source_is_model : forall so m M,
  LSN.ops_sepx_b so = true -> KV.Proofs.LogicSimGlue.locs_ok so (List.length m) -> LSN.inv4 m ->
  exists lt0 lt1, KV.Model.SimOpsCert.so_loc so (KV.Model.SimOps.so_nlines so + 1) = Some lt0 /\
    KV.Model.SimOpsCert.so_loc so (KV.Model.SimOps.so_nlines so + 2) = Some lt1 /\ lt0 <> lt1 /\
    (LSN.agree4 lt0 lt1 M m ->
     LSN.agree4 lt0 lt1
       (fst (c_prop_src loop_prop_cpu loop_cprop2_cb loop_cprop4 loop_cprop8 4 (KV.Model.SimOps.so_locs so) (KV.Model.SimOps.so_nlines so)
               (Z.of_nat (KV.Model.SimOps.so_nlines so + 1)) (Z.of_nat (KV.Model.SimOps.so_nlines so + 2)) None
               (map KV.Proofs.LogicSimDriversProofs.row_of (KV.Model.SimOps.so_ops so)) M))
       (KV.Model.LogicSimModel.c_prop Zero KV.Model.LogicSimModel.sem8 so m) /\
     LSN.inv4 (KV.Model.LogicSimModel.c_prop Zero KV.Model.LogicSimModel.sem8 so m)).
Proof. exact LSN.cprop4_source_is_model. Qed.

Theorem C02_logicsim_loop4_source_is_model_build : forall c caps cmin reuse strip so,
  wf_netlist c -> comb_acyclic c -> (0 < cmin)%N -> KV.Proofs.EndToEnd.gates_known c -> (strip = true -> KV.Proofs.ReuseStrip.forks_ok c) ->
  KV.Model.SimOps.build c caps cmin reuse strip = Some so -> forall m, List.length m = N.to_nat (KV.Model.SimOps.so_len so) -> forall M, LSN.inv4 m ->
  exists lt0 lt1, KV.Model.SimOpsCert.so_loc so (KV.Model.SimOps.so_nlines so + 1) = Some lt0 /\
    KV.Model.SimOpsCert.so_loc so (KV.Model.SimOps.so_nlines so + 2) = Some lt1 /\ lt0 <> lt1 /\
    (LSN.agree4 lt0 lt1 M m ->
     LSN.agree4 lt0 lt1
       (fst (c_prop_src loop_prop_cpu loop_cprop2_cb loop_cprop4 loop_cprop8 4 (KV.Model.SimOps.so_locs so) (KV.Model.SimOps.so_nlines so)
               (Z.of_nat (KV.Model.SimOps.so_nlines so + 1)) (Z.of_nat (KV.Model.SimOps.so_nlines so + 2)) None
               (map KV.Proofs.LogicSimDriversProofs.row_of (KV.Model.SimOps.so_ops so)) M))
       (KV.Model.LogicSimModel.c_prop Zero KV.Model.LogicSimModel.sem8 so m) /\
     LSN.inv4 (KV.Model.LogicSimModel.c_prop Zero KV.Model.LogicSimModel.sem8 so m)).
Proof. exact KV.Proofs.LogicSimSepBuildX.build_cprop4_source_is_model. Qed.

(* satisfiable on exD (a circuit WITH a gate without output line: the old check is false, the extended one true): m == 8 and m == 4 loops,
   and the model step changes the memory *)
Theorem C02_logicsim_loopx_source_nonvacuous : exists so lt0 lt1,
  KV.Model.SimOps.build KV.Proofs.LogicSimLoopNExample.exD (repeat 1%N 11) 1%N true false = Some so /\ LS8.ops_sep_b so = false /\ LSN.ops_sepx_b so = true /\
  (exists o, In o (KV.Model.SimOps.so_ops so) /\ KV.Model.SimOps.s_out o = KV.Model.SimOps.so_nlines so + 1) /\
  LS8.agree8 lt0 lt1
    (fst (c_prop_src loop_prop_cpu loop_cprop2_cb loop_cprop4 loop_cprop8 8 (KV.Model.SimOps.so_locs so) (KV.Model.SimOps.so_nlines so)
            (Z.of_nat (KV.Model.SimOps.so_nlines so + 1)) (Z.of_nat (KV.Model.SimOps.so_nlines so + 2)) None
            (map KV.Proofs.LogicSimDriversProofs.row_of (KV.Model.SimOps.so_ops so)) (map LS8.emb8 KV.Proofs.LogicSimLoopNExample.exM8d)))
    (KV.Model.LogicSimModel.c_prop Zero KV.Model.LogicSimModel.sem8 so KV.Proofs.LogicSimLoopNExample.exM8d) /\
  LSN.inv4 KV.Proofs.LogicSimLoopNExample.exM4d /\
  LSN.agree4 lt0 lt1
    (fst (c_prop_src loop_prop_cpu loop_cprop2_cb loop_cprop4 loop_cprop8 4 (KV.Model.SimOps.so_locs so) (KV.Model.SimOps.so_nlines so)
            (Z.of_nat (KV.Model.SimOps.so_nlines so + 1)) (Z.of_nat (KV.Model.SimOps.so_nlines so + 2)) None
            (map KV.Proofs.LogicSimDriversProofs.row_of (KV.Model.SimOps.so_ops so)) (map LSN.emb4 KV.Proofs.LogicSimLoopNExample.exM4d)))
    (KV.Model.LogicSimModel.c_prop Zero KV.Model.LogicSimModel.sem8 so KV.Proofs.LogicSimLoopNExample.exM4d) /\
  KV.Model.LogicSimModel.c_prop Zero KV.Model.LogicSimModel.sem8 so KV.Proofs.LogicSimLoopNExample.exM4d <> KV.Proofs.LogicSimLoopNExample.exM4d.
Proof. exact KV.Proofs.LogicSimLoopNExample.loopx_nonvacuous. Qed.

(** ---- end-to-end composition for m == 8 (Proofs/LogicSimRound8.v), PARTIAL with respect to the intended
      C02_logicsim_source_round_is_solution: c_to_s_src 3 (c_prop_src 8 (s_to_c_src 3 L)) from the cleared memory = capture of the unique solution.
    Proved: for every build() result with the correspondence-checked parameters of sim_case8, ANY list memory that shows the model memory after
    s_to_c from the cleared memory (outside the scratch locations) is taken by the translated loop of c_prop, inside the pinned skeleton, to a memory
    that holds at every PPO location outside the two scratch locations the three planes of what sim_case8 captures at that position -- hence
    (C02_logicsim_model_correct) of the value of the UNIQUE multi-valued solution at the observed line.  Missing: the mdim = 3 instances of the
    list-memory ties of the pinned vectorised s_to_c / c_to_s (proved for mdim = 1 only: C01_logicsim_drivers_source_is_model), and "a PPO location
    is never c_locs[tmp_idx] / c_locs[tmp2_idx]" for build() results (side conditions l <> lt0, l <> lt1; satisfiable: second theorem). *)
From KV Require Proofs.LogicSimRound8.
Theorem C02_logicsim_source_round_solution_partial : forall c reuse strip so s0 s1,
  wf_netlist c -> comb_acyclic c -> KV.Proofs.EndToEnd.gates_known c -> (strip = true -> KV.Proofs.ReuseStrip.forks_ok c) ->
  List.length s0 = List.length (s_nodes c) -> List.length s1 = List.length (s_nodes c) ->
  KV.Model.SimOps.build c (repeat 1%N (List.length (c_lines c) + 3)) 1%N reuse strip = Some so ->
  exists lt0 lt1, KV.Model.SimOpsCert.so_loc so (KV.Model.SimOps.so_nlines so + 1) = Some lt0 /\
    KV.Model.SimOpsCert.so_loc so (KV.Model.SimOps.so_nlines so + 2) = Some lt1 /\ lt0 <> lt1 /\
    forall M0, LS8.agree8 lt0 lt1 M0 (s_to_c so s0 (repeat Zero (N.to_nat (KV.Model.SimOps.so_len so)))) ->
    let M1 := fst (c_prop_src loop_prop_cpu loop_cprop2_cb loop_cprop4 loop_cprop8 8 (KV.Model.SimOps.so_locs so) (KV.Model.SimOps.so_nlines so)
                     (Z.of_nat (KV.Model.SimOps.so_nlines so + 1)) (Z.of_nat (KV.Model.SimOps.so_nlines so + 2)) None
                     (map KV.Proofs.LogicSimDriversProofs.row_of (KV.Model.SimOps.so_ops so)) M0) in
    forall p l, p < List.length (s_nodes c) -> KV.Model.SimOpsCert.so_loc so (KV.Model.SimOpsCert.so_ppo so + p) = Some l -> l <> lt0 -> l <> lt1 ->
      sim_case8 c reuse strip s0 s1 = Some (simulate Zero sem8 so s0 s1) /\
      nth l M1 (pdflt 3) = code_bits (nth p (simulate Zero sem8 so s0 s1) Zero) /\
      forall v l0, solution sem8_lut Zero c (fun q => nth q s0 Zero) v -> snode_in c p = Some l0 -> nth l M1 (pdflt 3) = code_bits (v l0).
Proof. exact KV.Proofs.LogicSimRound8.round8_reads_solution_partial. Qed.

Theorem C02_logicsim_source_round_nonvacuous : exists so lt0 lt1,
  KV.Model.SimOps.build KV.Proofs.LogicSimLoopNExample.exD (repeat 1%N (List.length (c_lines KV.Proofs.LogicSimLoopNExample.exD) + 3)) 1%N true false = Some so /\
  KV.Model.SimOpsCert.so_loc so (KV.Model.SimOps.so_nlines so + 1) = Some lt0 /\ KV.Model.SimOpsCert.so_loc so (KV.Model.SimOps.so_nlines so + 2) = Some lt1 /\
  forall p, p = 1 \/ p = 2 -> p < List.length (s_nodes KV.Proofs.LogicSimLoopNExample.exD) /\ snode_in KV.Proofs.LogicSimLoopNExample.exD p <> None /\
    exists l, KV.Model.SimOpsCert.so_loc so (KV.Model.SimOpsCert.so_ppo so + p) = Some l /\ l <> lt0 /\ l <> lt1.
Proof. exact KV.Proofs.LogicSimRound8.round8_hyps_example. Qed.
