(** C11 -- parsed Verilog and bench netlists simulate as the described netlist.  Statements only.
    Scope: the pure helpers of VerilogTransformer (ranges / bit names, sized constants, concatenation,
    declarations, port position table and io list) and the bench elaborator, transcribed in
    Model/VerilogElab.v.  The grammars (text -> tree) and passes 1..2 of VerilogTransformer.module are
    covered by the differential oracle only; the full theorem would be

      verilog_sem : forall m lib bf c, elab_verilog m lib bf = Some c ->
                    forall stim, netlist_sem (resolve lib c) stim = module_sem lib m stim. *)
From Coq Require Import List ZArith NArith Bool String Ascii.
From KV Require Import Model.VerilogElab Proofs.VerilogElabProofs Proofs.BenchProofs.
Import ListNotations.
Local Open Scope list_scope.

(* [l:r] expands to |l-r|+1 names base[l], base[l+-1], .., base[r] in declared direction; the same list is what a
   part select yields *)
Theorem C11_range_names : forall kind base l r,
  let names := decl_names {| d_kind := kind; d_base := base; d_rng := Some (vrange l (Some r)) |} in
  List.length names = Z.to_nat (Z.abs (l - r) + 1) /\
  (forall k, (k < List.length names)%nat ->
     nth k names ""%string = bitname base (if (l <=? r)%Z then l + Z.of_nat k else l - Z.of_nat k)%Z) /\
  sigsel (AName base (Some (vrange l (Some r)))) = one_or_many names.
Proof. exact range_names. Qed.
Theorem C11_range_ends : forall l r, hd 0%Z (vrange l (Some r)) = l /\ last (vrange l (Some r)) 0%Z = r.
Proof. exact range_ends. Qed.
Theorem C11_range_single : forall l, vrange l None = [l].
Proof. exact range_single. Qed.
(* distinct indices give distinct names (bases without '[') *)
Theorem C11_bitname_inj : forall b1 b2 i j, no_bracket b1 = true -> no_bracket b2 = true ->
  (0 <= i)%Z -> (0 <= j)%Z -> bitname b1 i = bitname b2 j -> b1 = b2 /\ i = j.
Proof. exact bitname_inj. Qed.
Theorem C11_bus_names_nodup : forall kind base l r, (0 <= l)%Z -> (0 <= r)%Z ->
  NoDup (decl_names {| d_kind := kind; d_base := base; d_rng := Some (vrange l (Some r)) |}).
Proof. exact bus_names_nodup. Qed.

(* w'bN / w'dN / w'hN: exactly w one-bit constants, MSB first, value N mod 2^w -- for all w and N *)
Theorem C11_sized_const : forall wstr b digits width base n,
  parse_digits 10%N wstr = Some width -> base_of b = Some base -> parse_digits base digits = Some n ->
  let bits := const_bits (N.to_nat width) n in
  List.length bits = N.to_nat width /\ bits_value bits = (n mod 2 ^ width)%N /\
  sigsel (AName (wstr ++ String quote (String b digits))%string None) = one_or_many (map bit_str bits).
Proof. exact sized_const_spec. Qed.
Theorem C11_const_bits_msb_first : forall w n k, (k < w)%nat ->
  nth k (const_bits w n) false = N.testbit n (N.of_nat (w - 1 - k)).
Proof. exact const_bits_nth. Qed.

Theorem C11_concat_flatten : forall args, concat args = flat_map sig_list args.
Proof. exact concat_flatten. Qed.

(* positions are 0..n-1 in port-list order with bus bits in declared range order; no position twice *)
Theorem C11_port_positions : forall ports m nls,
  port_name_lists ports m = Some nls -> NoDup (List.concat nls) ->
  let pos := positions_of nls in
  let flat := List.concat nls in
  Forall2 (fun p nl => exists d, dget p m = Some d /\ nl = decl_names d) ports nls /\
  (forall k n, nth_error flat k = Some n -> dget n pos = Some k) /\
  (forall n k, dget n pos = Some k -> nth_error flat k = Some n) /\
  (forall n1 n2 k, dget n1 pos = Some k -> dget n2 pos = Some k -> n1 = n2).
Proof. exact port_positions. Qed.
(* io_nodes: exactly the port bits in that order, each with the direction of its declaration, no holes *)
Theorem C11_io_order : forall ports stmts nls,
  let m := collect_decls stmts in
  port_name_lists ports m = Some nls ->
  NoDup (List.concat nls) -> NoDup (map fst (io_items m)) ->
  (forall n, In n (List.concat nls) -> In n (map fst (io_items m))) ->
  exists tbl, io_table ports stmts = Some tbl /\ List.length tbl = List.length (List.concat nls) /\
    forall k n, nth_error (List.concat nls) k = Some n ->
      exists kd, nth_error tbl k = Some (Some (n, kd)) /\ In (n, kd) (io_items m).
Proof. exact io_order. Qed.

(* bench: every assignment z = KIND(a_0, .., a_{n-1}) of a successfully elaborated description yields a cell named z of
   that kind whose k-th input pin carries a line driven by the fork (signal) named a_k and whose output drives the fork z *)
Theorem C11_bench_wiring : forall stmts c z kind args,
  elab_bench stmts = Some c -> In (BAssign z kind args) stmts -> kind <> fork_kind ->
  exists ci cell,
    nth_error (bc_nodes c) ci = Some cell /\ bn_name cell = z /\ bn_kind cell = kind /\
    List.length (bn_ins cell) = List.length args /\
    (forall k a, nth_error args k = Some a ->
       exists li l f, nth_error (bn_ins cell) k = Some (Some li) /\ nth_error (bc_lines c) li = Some l /\
                      bl_rdr l = ci /\ bl_rpin l = k /\
                      nth_error (bc_nodes c) (bl_drv l) = Some f /\ bn_kind f = fork_kind /\ bn_name f = a) /\
    (exists lo l f, nth_error (bn_outs cell) 0 = Some (Some lo) /\ nth_error (bc_lines c) lo = Some l /\
                    bl_drv l = ci /\ bl_dpin l = 0 /\
                    nth_error (bc_nodes c) (bl_rdr l) = Some f /\ bn_kind f = fork_kind /\ bn_name f = z).
Proof. exact bench_wiring. Qed.
(* a (name, namespace) pair denotes at most one node, so the cell above is THE cell named z *)
Theorem C11_bench_node_unique : forall stmts c i j n m,
  elab_bench stmts = Some c -> nth_error (bc_nodes c) i = Some n -> nth_error (bc_nodes c) j = Some m ->
  bn_name n = bn_name m -> is_fork n = is_fork m -> i = j.
Proof. exact bench_node_unique. Qed.
