(** C11 -- parsed Verilog and bench netlists simulate as the described netlist.  Statements only.
    Scope, first part: the pure helpers of VerilogTransformer (ranges / bit names, sized constants, concatenation,
    declarations, port position table and io list) and the bench elaborator, transcribed in Model/VerilogElab.v; the
    TEXT level of the bench format (lexer with lark's keyword / NAME resolution and ignore rule, LALR parser) is
    transcribed in Model/BenchText.v (theorems C11_bench_lex_render .. C11_bench_text_node_unique).
    Last part ("VerilogTransformer.module"): passes 0, 1, 1.5, 2 and the output loop of VerilogTransformer.module
    transcribed in Model/VerilogModule.v on the circuit-edit model of C09: the elaborated circuit is consistent, its
    interface is the declared port list, named pin connections are exactly the lines at the instance cells, assigns
    connect forks for every statement order, branchforks only inserts forks.
    The Verilog grammar (text -> tree) and the link from the elaborated circuit to the simulated function

      verilog_sem : forall m lib bf c, elab_module m lib bf = Some c ->
                    forall stim, netlist_sem (resolve lib c) stim = module_sem lib m stim

    remain covered by the differential oracle only. *)
From Coq Require Import List ZArith NArith Bool String Ascii.
From KV Require Import Model.VerilogElab Proofs.VerilogElabProofs Proofs.BenchProofs Model.BenchText Proofs.BenchTextProofs.
Import ListNotations.
Local Open Scope list_scope.

(* [l:r] expands to |l-r|+1 names base[l], base[l+-1], .., base[r] in declared direction; the same list is what a
   part select yields *)
Theorem C11_range_names : forall kind base l r,
  let names := decl_names {| d_kind := kind; d_base := base; d_rng := Some (vrange l (Some r)) |} in
  List.length names = Z.to_nat (Z.abs (l - r) + 1) /\
  (forall k, (k < List.length names)%nat ->
     nth k names ""%string = bitname base (if (l <=? r)%Z then l + Z.of_nat k else l - Z.of_nat k)%Z) /\
  sigsel (AName base (Some (vrange l (Some r)))) = one_or_many names.
Proof. exact range_names. Qed.
Theorem C11_range_ends : forall l r, hd 0%Z (vrange l (Some r)) = l /\ last (vrange l (Some r)) 0%Z = r.
Proof. exact range_ends. Qed.
Theorem C11_range_single : forall l, vrange l None = [l].
Proof. exact range_single. Qed.
(* distinct indices give distinct names (bases without '[') *)
Theorem C11_bitname_inj : forall b1 b2 i j, no_bracket b1 = true -> no_bracket b2 = true ->
  (0 <= i)%Z -> (0 <= j)%Z -> bitname b1 i = bitname b2 j -> b1 = b2 /\ i = j.
Proof. exact bitname_inj. Qed.
Theorem C11_bus_names_nodup : forall kind base l r, (0 <= l)%Z -> (0 <= r)%Z ->
  NoDup (decl_names {| d_kind := kind; d_base := base; d_rng := Some (vrange l (Some r)) |}).
Proof. exact bus_names_nodup. Qed.

(* w'bN / w'dN / w'hN: exactly w one-bit constants, MSB first, value N mod 2^w -- for all w and N *)
Theorem C11_sized_const : forall wstr b digits width base n,
  parse_digits 10%N wstr = Some width -> base_of b = Some base -> parse_digits base digits = Some n ->
  let bits := const_bits (N.to_nat width) n in
  List.length bits = N.to_nat width /\ bits_value bits = (n mod 2 ^ width)%N /\
  sigsel (AName (wstr ++ String quote (String b digits))%string None) = one_or_many (map bit_str bits).
Proof. exact sized_const_spec. Qed.
Theorem C11_const_bits_msb_first : forall w n k, (k < w)%nat ->
  nth k (const_bits w n) false = N.testbit n (N.of_nat (w - 1 - k)).
Proof. exact const_bits_nth. Qed.

Theorem C11_concat_flatten : forall args, concat args = flat_map sig_list args.
Proof. exact concat_flatten. Qed.

(* positions are 0..n-1 in port-list order with bus bits in declared range order; no position twice *)
Theorem C11_port_positions : forall ports m nls,
  port_name_lists ports m = Some nls -> NoDup (List.concat nls) ->
  let pos := positions_of nls in
  let flat := List.concat nls in
  Forall2 (fun p nl => exists d, dget p m = Some d /\ nl = decl_names d) ports nls /\
  (forall k n, nth_error flat k = Some n -> dget n pos = Some k) /\
  (forall n k, dget n pos = Some k -> nth_error flat k = Some n) /\
  (forall n1 n2 k, dget n1 pos = Some k -> dget n2 pos = Some k -> n1 = n2).
Proof. exact port_positions. Qed.
(* io_nodes: exactly the port bits in that order, each with the direction of its declaration, no holes *)
Theorem C11_io_order : forall ports stmts nls,
  let m := collect_decls stmts in
  port_name_lists ports m = Some nls ->
  NoDup (List.concat nls) -> NoDup (map fst (io_items m)) ->
  (forall n, In n (List.concat nls) -> In n (map fst (io_items m))) ->
  exists tbl, io_table ports stmts = Some tbl /\ List.length tbl = List.length (List.concat nls) /\
    forall k n, nth_error (List.concat nls) k = Some n ->
      exists kd, nth_error tbl k = Some (Some (n, kd)) /\ In (n, kd) (io_items m).
Proof. exact io_order. Qed.

(* bench: every assignment z = KIND(a_0, .., a_{n-1}) of a successfully elaborated description yields a cell named z of
   that kind whose k-th input pin carries a line driven by the fork (signal) named a_k and whose output drives the fork z *)
Theorem C11_bench_wiring : forall stmts c z kind args,
  elab_bench stmts = Some c -> In (BAssign z kind args) stmts -> kind <> fork_kind ->
  exists ci cell,
    nth_error (bc_nodes c) ci = Some cell /\ bn_name cell = z /\ bn_kind cell = kind /\
    List.length (bn_ins cell) = List.length args /\
    (forall k a, nth_error args k = Some a ->
       exists li l f, nth_error (bn_ins cell) k = Some (Some li) /\ nth_error (bc_lines c) li = Some l /\
                      bl_rdr l = ci /\ bl_rpin l = k /\
                      nth_error (bc_nodes c) (bl_drv l) = Some f /\ bn_kind f = fork_kind /\ bn_name f = a) /\
    (exists lo l f, nth_error (bn_outs cell) 0 = Some (Some lo) /\ nth_error (bc_lines c) lo = Some l /\
                    bl_drv l = ci /\ bl_dpin l = 0 /\
                    nth_error (bc_nodes c) (bl_rdr l) = Some f /\ bn_kind f = fork_kind /\ bn_name f = z).
Proof. exact bench_wiring. Qed.
(* a (name, namespace) pair denotes at most one node, so the cell above is THE cell named z *)
Theorem C11_bench_node_unique : forall stmts c i j n m,
  elab_bench stmts = Some c -> nth_error (bc_nodes c) i = Some n -> nth_error (bc_nodes c) j = Some m ->
  bn_name n = bn_name m -> is_fork n = is_fork m -> i = j.
Proof. exact bench_node_unique. Qed.

(** *** bench.py from TEXT (Model/BenchText.v: parse_bench = lark's contextual lexer + LALR parser on bench.GRAMMAR,
    None = lark raises; bench_of_text = parse_bench followed by BenchTransformer) *)

(* white space / comment insensitivity: a token stream written with ANY ignored text (spaces, tabs, form feeds, "\n", "\r\n",
   "#..\n" comments; a final comment without newline) before, between and after the tokens -- non-empty between two adjacent
   words -- is lexed to exactly that token stream; so the parse result is a function of the token stream *)
Theorem C11_bench_lex_render : forall s0 l t,
  forallb (fun p => tok_ok (fst p)) l = true -> seps_ok s0 l t = true -> glue_ok l = true ->
  lex (render s0 l t) = Some (map fst l).
Proof. exact lex_render. Qed.
Theorem C11_bench_parse_render : forall s0 l t,
  forallb (fun p => tok_ok (fst p)) l = true -> seps_ok s0 l t = true -> glue_ok l = true ->
  parse_bench (render s0 l t) = parse_toks (map fst l).
Proof. exact parse_render. Qed.
(* the token language: exactly the concatenations of  kw ( n , .. , n )  with kw one of INPUT input OUTPUT output, and
   z = k ( n , .. , n )  with z not exactly a keyword (k and the n may be keywords); the statements are read off in order *)
Theorem C11_bench_token_language : forall ts l,
  parse_toks ts = Some l <-> exists tss, Forall2 stmt_toks l tss /\ ts = List.concat tss.
Proof. exact parse_toks_iff. Qed.
Theorem C11_bench_keyword_assignment_rejected : forall kw k a rest, is_kw kw = true ->
  parse_toks (TWord kw :: TEq :: TWord k :: toks_params a ++ rest) = None.
Proof. exact keyword_assignment_rejected. Qed.
(* round trip: every statement list whose names are NAME tokens ([-_a-zA-Z0-9]+) and whose assigned names are not keywords *)
Theorem C11_bench_parse_print : forall l, forallb wf_stmt l = true -> parse_bench (print_bench l) = Some l.
Proof. exact parse_print. Qed.
Theorem C11_bench_any_rendering : forall stmts tss s0 l t,
  Forall2 stmt_toks stmts tss -> map fst l = List.concat tss ->
  forallb (fun p => tok_ok (fst p)) l = true -> seps_ok s0 l t = true -> glue_ok l = true ->
  parse_bench (render s0 l t) = Some stmts.
Proof. exact parse_any_rendering. Qed.

(* converse: the lexer accepts EXACTLY the renderings, the parser exactly the renderings of statement token groups *)
Theorem C11_bench_lex_iff : forall s ts, lex s = Some ts <-> rendering s ts.
Proof. exact lex_iff. Qed.
Theorem C11_bench_language : forall s l, parse_bench s = Some l <->
  exists ts tss, rendering s ts /\ Forall2 stmt_toks l tss /\ ts = List.concat tss.
Proof. exact parse_bench_iff. Qed.

(* C11_bench_wiring / C11_bench_node_unique starting from the text *)
Theorem C11_bench_text_wiring : forall text stmts c z kind args,
  parse_bench text = Some stmts -> bench_of_text text = Some c -> In (BAssign z kind args) stmts -> kind <> fork_kind ->
  exists ci cell,
    nth_error (bc_nodes c) ci = Some cell /\ bn_name cell = z /\ bn_kind cell = kind /\
    List.length (bn_ins cell) = List.length args /\
    (forall k a, nth_error args k = Some a ->
       exists li l f, nth_error (bn_ins cell) k = Some (Some li) /\ nth_error (bc_lines c) li = Some l /\
                      bl_rdr l = ci /\ bl_rpin l = k /\
                      nth_error (bc_nodes c) (bl_drv l) = Some f /\ bn_kind f = fork_kind /\ bn_name f = a) /\
    (exists lo l f, nth_error (bn_outs cell) 0 = Some (Some lo) /\ nth_error (bc_lines c) lo = Some l /\
                    bl_drv l = ci /\ bl_dpin l = 0 /\
                    nth_error (bc_nodes c) (bl_rdr l) = Some f /\ bn_kind f = fork_kind /\ bn_name f = z).
Proof. exact bench_text_wiring. Qed.
Theorem C11_bench_rendering_wiring : forall stmts tss s0 l t c z kind args,
  Forall2 stmt_toks stmts tss -> map fst l = List.concat tss ->
  forallb (fun p => tok_ok (fst p)) l = true -> seps_ok s0 l t = true -> glue_ok l = true ->
  bench_of_text (render s0 l t) = Some c -> In (BAssign z kind args) stmts -> kind <> fork_kind ->
  exists ci cell,
    nth_error (bc_nodes c) ci = Some cell /\ bn_name cell = z /\ bn_kind cell = kind /\
    List.length (bn_ins cell) = List.length args /\
    (forall k a, nth_error args k = Some a ->
       exists li l f, nth_error (bn_ins cell) k = Some (Some li) /\ nth_error (bc_lines c) li = Some l /\
                      bl_rdr l = ci /\ bl_rpin l = k /\
                      nth_error (bc_nodes c) (bl_drv l) = Some f /\ bn_kind f = fork_kind /\ bn_name f = a) /\
    (exists lo l f, nth_error (bn_outs cell) 0 = Some (Some lo) /\ nth_error (bc_lines c) lo = Some l /\
                    bl_drv l = ci /\ bl_dpin l = 0 /\
                    nth_error (bc_nodes c) (bl_rdr l) = Some f /\ bn_kind f = fork_kind /\ bn_name f = z).
Proof. exact bench_rendering_wiring. Qed.
Theorem C11_bench_text_node_unique : forall text c i j n m,
  bench_of_text text = Some c -> nth_error (bc_nodes c) i = Some n -> nth_error (bc_nodes c) j = Some m ->
  bn_name n = bn_name m -> is_fork n = is_fork m -> i = j.
Proof. exact bench_text_node_unique. Qed.

(** ** VerilogTransformer.module: passes 0, 1, 1.5, 2 and the output loop (kyupy/verilog.py:108-214), transcribed in
    Model/VerilogModule.v on top of the circuit-edit model of C09 (Model/Circuit.v).
    [elab_module m lib bf] = the Circuit that [module] returns for the tree [m] lark hands to it ([None]: it raises);
    [lib] = TechLib.cells (pin tables), [bf] = branchforks.  Hypotheses [lib_ok_b] (a pin table numbers inputs and
    outputs separately without repetition, no cell is called __fork__) and [pins_nodup_b] (the pins of an Instantiation
    are a Python dict) hold by construction of the Python objects and are evaluated on every real input by the
    correspondence check. *)
From KV Require Import Model.Circuit Model.CircuitInv Model.VerilogModule Proofs.VerilogModuleProofs Proofs.VerilogModuleExamples.

(* (a) the result is a consistent circuit graph (C09's invariant, so C09 / C10 apply to it) in which every fork has at
   most one input line; its io_nodes have no holes if the port list names distinct, directed signals *)
Theorem C11_module_consistent : forall m lib bf c, lib_ok_b lib = true -> pins_nodup_b m = true ->
  elab_module m lib bf = Some c -> CInv c /\ SingleDrv c.
Proof. exact module_consistent. Qed.
Theorem C11_module_io_live : forall m lib bf c, lib_ok_b lib = true -> pins_nodup_b m = true -> ports_ok_b m = true ->
  elab_module m lib bf = Some c -> IoLive c.
Proof. exact module_io_live. Qed.
(* ... and [ports_ok_b] cannot be dropped: module h (a, a, w); input a; wire w; endmodule  yields io_nodes = [None, a] *)
Theorem C11_module_io_hole_witness :
  module_case hole_mod [] false (Some ([("a", "input"); ("a", "__fork__")], [(0, 0, 1, 0)], [None; Some 0]))%string = true /\
  exists c, elab_module hole_mod [] false = Some c /\ CInv c /\ ~ IoLive c.
Proof. exact io_hole_witness. Qed.

(* (b) io_nodes = the bits of the declared ports in port-list order, bus bits in declared range order ([nls] = the
   names of each port, see C11_range_names), each entry the port cell of that name and direction *)
Theorem C11_module_ports : forall m lib bf c nls, lib_ok_b lib = true -> pins_nodup_b m = true ->
  elab_module m lib bf = Some c ->
  VE.port_name_lists (m_ports m) (decls_of m) = Some nls -> NoDup (List.concat nls) ->
  (forall n, In n (List.concat nls) -> In n (map fst (VE.io_items (decls_of m)))) ->
  List.length (io c) = List.length (List.concat nls) /\
  forall k name, nth_error (List.concat nls) k = Some name ->
    exists n kd, nth_error (io c) k = Some (Some n) /\ In n (nodes c) /\ name_of c n = name /\
                 kind_of c n = kind_str kd /\ dget name (cells c) = Some n /\ In (name, kd) (VE.io_items (decls_of m)).
Proof. exact module_ports. Qed.

(* (c) named pin connections.  Output side: the line at pin position pin_index(kind, p) of the instance cell is the only
   input of the fork named after the connected bit. *)
Theorem C11_module_pin_out : forall m lib bf c kind inst pins p s idx, lib_ok_b lib = true -> pins_nodup_b m = true ->
  elab_module m lib bf = Some c ->
  In (VInst kind inst pins) (m_stmts m) -> In (PName p, VE.SOne s) pins -> lib_pin lib kind (PName p) = Some (idx, true) ->
  exists n l f s', out_sig_name (decls_of m) s = Some s' /\ dget inst (cells c) = Some n /\ kind_of c n = kind /\
    out_at c n idx = Some l /\ In l (lines c) /\ l_drv (lst c l) = Some n /\ l_dpin (lst c l) = idx /\
    l_rdr (lst c l) = Some f /\ dget s' (forks c) = Some f /\ ins_of c f = [Some l].
Proof. exact module_pin_out. Qed.
(* Input side: the line at pin position pin_index(kind, p) comes from the fork the bit resolves to -- [SrcName m c f s]:
   the fork named s, or the single bit of the one-bit bus s, or for s = 1'bX the fork of a fresh constant cell of kind
   __constX__ -- and with branchforks from the 1:1 fork  <fork>~<inst>/<pin>  whose only input comes from that fork. *)
Theorem C11_module_pin_in : forall m lib bf c kind inst pins p s idx, lib_ok_b lib = true -> pins_nodup_b m = true ->
  elab_module m lib bf = Some c ->
  In (VInst kind inst pins) (m_stmts m) -> In (PName p, VE.SOne s) pins -> lib_pin lib kind (PName p) = Some (idx, false) ->
  exists n l d, dget inst (cells c) = Some n /\ kind_of c n = kind /\ in_at c n idx = Some l /\ In l (lines c) /\
    l_rdr (lst c l) = Some n /\ l_rpin (lst c l) = idx /\ l_drv (lst c l) = Some d /\ is_fork (kind_of c d) = true /\
    if bf then exists f l', dget (branch_name (name_of c f) inst p) (forks c) = Some d /\ ins_of c d = [Some l'] /\
                            In l' (lines c) /\ l_drv (lst c l') = Some f /\ l_rdr (lst c l') = Some d /\ SrcName m c f s
    else SrcName m c d s.
Proof. exact module_pin_in. Qed.
(* No spurious connections: every line into / out of an instance cell belongs to one of its named pins. *)
Theorem C11_module_pins_only : forall m lib bf c kind inst pins n l, lib_ok_b lib = true -> pins_nodup_b m = true ->
  elab_module m lib bf = Some c ->
  In (VInst kind inst pins) (m_stmts m) -> is_fork kind = false -> dget inst (cells c) = Some n -> In l (lines c) ->
  (l_rdr (lst c l) = Some n ->
     exists p s, In (PName p, VE.SOne s) pins /\ lib_pin lib kind (PName p) = Some (l_rpin (lst c l), false)) /\
  (l_drv (lst c l) = Some n ->
     exists p s s' f, In (PName p, VE.SOne s) pins /\ lib_pin lib kind (PName p) = Some (l_dpin (lst c l), true) /\
                      out_sig_name (decls_of m) s = Some s' /\ dget s' (forks c) = Some f /\ l_rdr (lst c l) = Some f).
Proof. exact module_pins_only. Qed.
(* That statement was FALSE for the code before commit afee8a5 ([elab_module_old]: the output loop overwrote `name` with
   f'{name}[0]' and then looked the CELL up under that name too, c.cells[f'{name}[0]']):
   module q (a, z); input a; output z; wire w; BUF_X1 \z[0] (.A(a), .Z(w)); BUF_X1 g2 (.A(w), .Z(z[0])); endmodule
   gave the buffer instance z[0] a line on input pin 1 that no pin connection asks for and left port z unconnected
   (first conjunct: the circuit the old code built). *)
Theorem C11_module_bit0_lookup_refuted :
  module_case_gen elab_module_old quirk_mod quirk_lib false
    (Some ([("z[0]", "BUF_X1"); ("w", "__fork__"); ("g2", "BUF_X1"); ("z[0]", "__fork__"); ("a", "input"); ("a", "__fork__");
            ("z", "output")],
           [(0, 0, 1, 0); (2, 0, 3, 0); (4, 0, 5, 0); (5, 0, 0, 0); (1, 0, 2, 0); (3, 0, 0, 1)], [Some 4; Some 6]))%string = true /\
  exists c n l, elab_module_old quirk_mod quirk_lib false = Some c /\ dget "z[0]" (cells c) = Some n /\ In l (lines c) /\
    l_rdr (lst c l) = Some n /\ l_rpin (lst c l) = 1 /\
    forall p s, In (PName p, SOne s) [(PName "A", SOne "a"); (PName "Z", SOne "w")]%string ->
                lib_pin quirk_lib "BUF_X1" (PName p) <> Some (1, false).
Proof. exact bit0_quirk_witness. Qed.
(* ... and the repaired loop on the same module: model = the circuit the current code builds; output port z (node 6) is read
   from the fork z[0] by line 5, its only input; the buffer z[0] has only the line of its pin A *)
Theorem C11_module_bit0_lookup_fixed :
  module_case quirk_mod quirk_lib false
    (Some ([("z[0]", "BUF_X1"); ("w", "__fork__"); ("g2", "BUF_X1"); ("z[0]", "__fork__"); ("a", "input"); ("a", "__fork__");
            ("z", "output")],
           [(0, 0, 1, 0); (2, 0, 3, 0); (4, 0, 5, 0); (5, 0, 0, 0); (1, 0, 2, 0); (3, 0, 6, 0)], [Some 4; Some 6]))%string = true /\
  exists c, elab_module quirk_mod quirk_lib false = Some c /\ OutPort c "z" /\
    exists f n, dget "z" (forks c) = None /\ dget "z[0]" (forks c) = Some f /\ dget "z" (cells c) = Some n /\
                ins_of c n = [Some 5] /\ l_drv (lst c 5) = Some f /\ l_rdr (lst c 5) = Some n /\
                exists b, dget "z[0]" (cells c) = Some b /\ ins_of c b = [Some 3].
Proof. exact bit0_fixed. Qed.

(* (d) continuous assigns, bit by bit and for every statement order: a line between the forks of the two bits (from the
   source, or from the target when the target was driven first), or a constant cell driving the target's fork; by
   C11_module_consistent that line is the ONLY input of the fork it enters.  A pair is skipped only when, after the
   retry loop (fix 7f5c8c9) stopped making progress, neither side names a driven signal ([Unres], in the circuit [c3]
   after pass 1.5). *)
Theorem C11_module_assign : forall m lib bf c, lib_ok_b lib = true -> pins_nodup_b m = true ->
  elab_module m lib bf = Some c ->
  exists c3 k3, elab_assigns m lib = Some (c3, k3) /\ ext c3 c /\
    forall ts, In ts (assign_pairs (decls_of m) (m_stmts m)) -> Resolved c ts \/ Unres c3 ts.
Proof. exact module_assign. Qed.
(* output ports: the port cell of output nm is read from the fork called nm, or -- a port driven through its bit 0,
   `output z` with z[0] connected (fix afee8a5) -- from the fork called nm[0] when there is no fork nm.
   [OutPort c nm] = exists fn f n l, (fn = nm \/ fn = nm[0] /\ no fork nm) /\ forks[fn] = f /\ cells[nm] = n /\ line l : f -> n *)
Theorem C11_module_outputs : forall m lib bf c nm, lib_ok_b lib = true -> pins_nodup_b m = true ->
  elab_module m lib bf = Some c ->
  In (nm, VE.KOutput) (VE.io_items (decls_of m)) ->
  dget nm (forks c) <> None \/ dget (nm ++ "[0]")%string (forks c) <> None -> OutPort c nm.
Proof. exact module_outputs. Qed.

(* a module with a bus port, concatenations, a sized constant, an assign chain written backwards and two instances:
   the model equals the real circuits (both branchforks settings) and all hypotheses above are satisfiable *)
Theorem C11_module_example : module_case ex_mod ex_lib false (Some ex_view_false) = true /\
  module_case ex_mod ex_lib true (Some ex_view_true) = true /\
  lib_ok_b ex_lib = true /\ pins_nodup_b ex_mod = true /\ ports_ok_b ex_mod = true.
Proof. exact ex_elab. Qed.
Theorem C11_module_example_theorems : forall bf, exists c, elab_module ex_mod ex_lib bf = Some c /\ CInv c /\ SingleDrv c /\ IoLive c /\
  List.length (io c) = 5 /\ PinIn ex_mod bf c "u1" "A2" "b" 1 /\ PinOut ex_mod c "u2" "Z" "y[0]" 0 /\
  (exists c3 k3, elab_assigns ex_mod ex_lib = Some (c3, k3) /\
     (Resolved c ("y[1]", "v")%string \/ Unres c3 ("y[1]", "v")%string) /\ (Resolved c ("v", "w")%string \/ Unres c3 ("v", "w")%string)).
Proof. exact ex_theorems. Qed.

(* (e) branchforks only inserts forks.  On the named view of a circuit ([nodesK]: (name, is a fork) and kind per node in
   creation order; [edges]: (driver, pin, reader, pin) per line in creation order) the two elaborations are related by
   [BfRel]: the same nodes and lines are created in the same order, except that each reader line
   fork --j--> (cell, idx) of pass 2 becomes a new fork b and the two lines fork --j--> (b, 0), b --0--> (cell, idx);
   io_nodes are the same objects.  Side condition [no_tilde_b]: no signal on a reader pin and no declared bit name
   contains '~' -- without it the statement is FALSE for the code (a signal that is called like a generated branch fork
   <fork>~<inst>/<pin> is captured by `if s not in c.forks`), see the refutation witness below. *)
From KV Require Import Proofs.VerilogBranchforks.
Theorem C11_module_branchforks : forall m lib cF cT, lib_ok_b lib = true -> pins_nodup_b m = true -> no_tilde_b m = true ->
  elab_module m lib false = Some cF -> elab_module m lib true = Some cT ->
  BfRel (nodesK cF, edges cF) (nodesK cT, edges cT) /\ io cF = io cT.
Proof. exact module_branchforks. Qed.
(* [BfRel] read as sets: every node of the plain circuit is a node of the other; every additional node is a fork that
   splits one line of the plain circuit ([split_of e b]: e = (f, j, n, idx) is replaced by (f, j, b, 0) and (b, 0, n, idx));
   every line is kept or split; every additional line is a half of such a split; #added forks = #added lines *)
Theorem C11_module_branchforks_sets : forall x y, BfRel x y ->
  (forall k, In k (fst x) -> In k (fst y)) /\
  (forall k, In k (fst y) -> In k (fst x) \/ exists b e, k = ((b, true), FORK) /\ In e (snd x) /\ split_of e b (fst y) (snd y)) /\
  (forall e, In e (snd x) -> In e (snd y) \/ exists b, split_of e b (fst y) (snd y)) /\
  (forall e, In e (snd y) -> In e (snd x) \/
     exists f j b n idx, In (f, j, n, idx) (snd x) /\ split_of (f, j, n, idx) b (fst y) (snd y) /\
                         (e = (f, j, (b, true), 0) \/ e = ((b, true), 0, n, idx))) /\
  List.length (fst y) + List.length (snd x) = List.length (fst x) + List.length (snd y).
Proof. exact bfrel_sets. Qed.
(* the example module satisfies the side condition (4 reader pins: 4 added forks and 4 added lines, cf. ex_view_true) *)
Theorem C11_module_branchforks_example : no_tilde_b ex_mod = true /\
  exists cF cT, elab_module ex_mod ex_lib false = Some cF /\ elab_module ex_mod ex_lib true = Some cT /\
    BfRel (nodesK cF, edges cF) (nodesK cT, edges cT) /\
    List.length (nodesK cT) = List.length (nodesK cF) + 4 /\ List.length (edges cT) = List.length (edges cF) + 4.
Proof. exact ex_branchforks. Qed.
(* the side condition is needed:
   module t (a, y, z); input a; output y, z; wire \a~u2/A ; BUF_X1 u2 (.A(a), .Z(y)); BUF_X1 u3 (.A(\a~u2/A ), .Z(z)); endmodule
   -- u3 reads an undriven signal without branch forks and port a with branch forks (both conjuncts: model = real Circuit). *)
Theorem C11_module_branchforks_name_clash_refuted :
  module_case tilde_mod quirk_lib false
    (Some ([("u2", "BUF_X1"); ("y", "__fork__"); ("u3", "BUF_X1"); ("z", "__fork__"); ("a", "input"); ("a", "__fork__");
            ("y", "output"); ("z", "output"); ("a~u2/A", "__fork__")],
           [(0, 0, 1, 0); (2, 0, 3, 0); (4, 0, 5, 0); (5, 0, 0, 0); (8, 0, 2, 0); (1, 0, 6, 0); (3, 0, 7, 0)],
           [Some 4; Some 6; Some 7]))%string = true /\
  module_case tilde_mod quirk_lib true
    (Some ([("u2", "BUF_X1"); ("y", "__fork__"); ("u3", "BUF_X1"); ("z", "__fork__"); ("a", "input"); ("a", "__fork__");
            ("y", "output"); ("z", "output"); ("a~u2/A", "__fork__"); ("a~u2/A~u3/A", "__fork__")],
           [(0, 0, 1, 0); (2, 0, 3, 0); (4, 0, 5, 0); (5, 0, 8, 0); (8, 0, 0, 0); (8, 1, 9, 0); (9, 0, 2, 0); (1, 0, 6, 0);
            (3, 0, 7, 0)], [Some 4; Some 6; Some 7]))%string = true.
Proof. exact branchforks_name_clash_witness. Qed.

(* the pin tables of all five libraries of techlib.py -- derived from the library source text by the translator
   (Gen/TechLibs.v, [lib_pins_of]) and compared with TechLib.cells on every run -- satisfy [lib_ok_b] *)
From KV Require Import Model.TechCell Gen.TechLibs Model.VerilogLibPins Proofs.VerilogLibPinsProofs.
Theorem C11_module_libs_ok : forallb (fun nl => lib_ok_b (lib_pins_of (snd nl))) all_libs = true.
Proof. exact all_libs_pins_ok. Qed.

(* VerilogTransformer.instantiation builds the pin dict ([mk_pins], compared with the real method on every run): its
   keys are distinct, i.e. [pins_nodup_b] holds for what the parser hands to module *)
Theorem C11_module_pin_dict : forall l, NoDup (map fst (mk_pins l)).
Proof. exact mk_pins_nodup. Qed.

(** *** verilog.py from TEXT (Model/VerilogText.v: [VT.parse_verilog] = lark's contextual lexer + LALR parser on verilog.GRAMMAR
    producing the raw tree, None = lark raises; [VT.module_args] = the child callbacks name / range / sigsel / concat / declaration /
    namedpin / instantiation, i.e. what VerilogTransformer.module receives; [VT.circuits_of_text] = verilog.parse up to the circuits).
    A rendering [VT.render l rest] writes the tokens [map snd l] each PRECEDED by ignored text ([VT.sep]: blanks, tabs, form feeds, "\n",
    "\r\n", block comments, attributes, "//" comments with their newline; at the very end of the text [VT.end_text sf tl] a last "//"
    comment [tl] without newline may follow); [VT.glue_ok]: the ignored text is well formed and what
    follows a token does not prolong it; [VT.toks_ok m ts]: each token is one the scanner of its parser state returns. *)
From KV Require Proofs.VerilogTextProofs.
Module VT := KV.Model.VerilogText.
Module VTP := KV.Proofs.VerilogTextProofs.

(* white space / comment insensitivity: EVERY such way of writing a token stream is lexed to exactly that token stream *)
Theorem C11_vtext_lex_render : forall l sf, VT.toks_ok VT.LTop (map snd l) = true -> VT.glue_ok l (VT.sep_text sf) = true -> VT.sep_ok sf = true ->
  VT.lex (VT.render l (VT.sep_text sf)) = Some (map snd l).
Proof. exact VTP.lex_render. Qed.
(* ... so the parse result is a function of the token stream, and two ways of writing the same tokens are read alike *)
Theorem C11_vtext_parse_render : forall l sf, VT.toks_ok VT.LTop (map snd l) = true -> VT.glue_ok l (VT.sep_text sf) = true -> VT.sep_ok sf = true ->
  VT.parse_verilog (VT.render l (VT.sep_text sf)) = VT.parse_toks (map snd l).
Proof. exact VTP.parse_render. Qed.
Theorem C11_vtext_ignored_irrelevant : forall l1 sf1 l2 sf2, map snd l1 = map snd l2 -> VT.toks_ok VT.LTop (map snd l1) = true ->
  VT.glue_ok l1 (VT.sep_text sf1) = true -> VT.sep_ok sf1 = true -> VT.glue_ok l2 (VT.sep_text sf2) = true -> VT.sep_ok sf2 = true ->
  VT.parse_verilog (VT.render l1 (VT.sep_text sf1)) = VT.parse_verilog (VT.render l2 (VT.sep_text sf2)).
Proof. exact VTP.ignored_irrelevant. Qed.
(* the token language: a token stream is accepted iff it is the token stream of a tree (no empty name list in a declaration, no
   empty concatenation), and then that tree is the result *)
Theorem C11_vtext_token_language : forall ts l, VT.parse_toks ts = Some l <-> ts = VT.toks_tree l /\ VT.shape_tree l = true.
Proof. exact VTP.parse_toks_iff. Qed.
(* converse: the lexer accepts EXACTLY the renderings ([VT.rendering s ts]: s = ignored text of the eight forms of [VT.ign] in front of
   every token of ts and at the end, there possibly followed by a last "//" comment without line break, every token one the scanner of its parser state returns, nothing after a token that prolongs it),
   so the language of verilog.GRAMMAR under lark is exactly: renderings of token streams of trees *)
Theorem C11_vtext_lex_iff : forall s ts, VT.lex s = Some ts <-> VT.rendering s ts.
Proof. exact VTP.lex_iff. Qed.
Theorem C11_vtext_language : forall s t, VT.parse_verilog s = Some t <-> VT.rendering s (VT.toks_tree t) /\ VT.shape_tree t = true.
Proof. exact VTP.parse_verilog_iff. Qed.
(* the token stream of a well-formed tree consists of tokens the scanners return, state by state (keywords only at statement start,
   digits only inside a range, `module` only at top level) *)
Theorem C11_vtext_tokens_of_tree : forall l, VT.wf_tree l = true -> VT.toks_ok VT.LTop (VT.toks_tree l) = true.
Proof. exact VTP.toks_ok_tree. Qed.
(* round trip: every well-formed tree, written in ANY way (arbitrary ignored text before every token and at the end), is read back *)
Theorem C11_vtext_any_rendering : forall t l sf, VT.wf_tree t = true -> map snd l = VT.toks_tree t ->
  VT.glue_ok l (VT.sep_text sf) = true -> VT.sep_ok sf = true -> VT.parse_verilog (VT.render l (VT.sep_text sf)) = Some t.
Proof. exact VTP.parse_any_rendering. Qed.
Theorem C11_vtext_parse_print : forall t, VT.wf_tree t = true -> VT.parse_verilog (VT.print_tree t) = Some t.
Proof. exact VTP.parse_print. Qed.
(* since the repair of verilog.GRAMMAR ("//" /[^\n]*/ instead of "//" /(.)*/ NEWLINE): a text may END in a line comment without line
   break -- every such way of writing a token stream is lexed to it, every such way of writing a well-formed tree is read back *)
Theorem C11_vtext_lex_render_tail : forall l sf tl, VT.toks_ok VT.LTop (map snd l) = true -> VT.glue_ok l (VT.end_text sf tl) = true ->
  VT.sep_ok sf = true -> VT.tail_ok tl = true -> VT.lex (VT.render l (VT.end_text sf tl)) = Some (map snd l).
Proof. exact VTP.lex_render_tail. Qed.
Theorem C11_vtext_eof_line_comment_accepted : forall t l sf b, VT.wf_tree t = true -> map snd l = VT.toks_tree t ->
  VT.glue_ok l (VT.sep_text sf ++ "//" ++ b)%string = true -> VT.sep_ok sf = true -> VT.no_newline b = true ->
  VT.parse_verilog (VT.render l (VT.sep_text sf ++ "//" ++ b)%string) = Some t.
Proof. exact VTP.eof_line_comment_accepted. Qed.
(* rejected: ignored text that does not end (open block comment / attribute) after ANY token list *)
Theorem C11_vtext_open_ignored_rejected : forall l rest, VT.toks_ok VT.LTop (map snd l) = true -> VT.glue_ok l rest = true ->
  VT.skip_ign rest = None -> VT.parse_verilog (VT.render l rest) = None.
Proof. exact VTP.open_ignored_rejected. Qed.
(* a netlist that ends in a line comment without line break is read (it was rejected before the repair: finding of round 3), also when
   that comment ends in a carriage return or is empty; an open block comment is rejected *)
Theorem C11_vtext_eof_comment_witness :
  (VT.parse_verilog "module m (); endmodule // end" = Some [VT.mkT "m" [] []] /\
  VT.parse_verilog ("module m (); endmodule // end" ++ VT.nl1) = Some [VT.mkT "m" [] []] /\
  VT.parse_verilog ("module m (); endmodule // end" ++ VT.chr VT.c_cr) = Some [VT.mkT "m" [] []] /\
  VT.parse_verilog "module m (); endmodule //" = Some [VT.mkT "m" [] []] /\
  VT.parse_verilog "//" = Some [] /\
  VT.parse_verilog "module m (); endmodule /* end */" = Some [VT.mkT "m" [] []] /\
  VT.parse_verilog "module m (); endmodule /* end" = None)%string.
Proof. exact VTP.eof_comment_witness. Qed.
(* lexer probes: keywords are keywords only at the beginning of a statement (`module` there is a name); `module` is a plain prefix at
   top level; upper-case keywords are names; a sized constant takes every hexadecimal digit; an escaped name keeps its terminator;
   lpar-star-rpar is not an attribute, slash-star-slash not a comment; a lone carriage return is rejected, a form feed ignored *)
Theorem C11_vtext_lexer_probes :
  (VT.parse_verilog "module input (wire); input input; module u (); endmodule" =
    Some [VT.mkT "input" ["wire"] [VT.TDecl VT.DInput None ["input"]; VT.TInst "module" "u" []]] /\
  VT.parse_verilog "modulem();endmodule" = Some [VT.mkT "m" [] []] /\
  VT.parse_verilog "module m(); inputx a; endmodule" = None /\
  VT.parse_verilog "module m(); INPUT a (); endmodule" = Some [VT.mkT "m" [] [VT.TInst "INPUT" "a" []]] /\
  VT.parse_verilog "module m(); a b(1'b0f, 2'H3x); endmodule" = None /\
  VT.parse_verilog ("module m(); a \b" ++ VT.chr VT.c_tab ++ "(\c[3] ); endmodule") =
    Some [VT.mkT "m" [] [VT.TInst "a" ("\b" ++ VT.chr VT.c_tab) [VT.TPos (VT.TSel "\c[3] " None)]]] /\
  VT.parse_verilog "module m(); a b(*)(); endmodule" = None /\ VT.parse_verilog "module m(); a b(*)*)(); endmodule" = Some [VT.mkT "m" [] [VT.TInst "a" "b" []]] /\
  VT.parse_verilog "module m(); /*/ endmodule" = None /\ VT.parse_verilog "module m(); /***/ endmodule" = Some [VT.mkT "m" [] []] /\
  VT.parse_verilog ("module m();" ++ VT.chr VT.c_cr ++ "endmodule") = None /\
  VT.parse_verilog ("module m();" ++ VT.chr VT.c_cr ++ VT.nl1 ++ VT.chr VT.c_ff ++ "endmodule") = Some [VT.mkT "m" [] []])%string.
Proof. exact VTP.lexer_probes. Qed.

(* the pin dicts built from a text have distinct keys: hypothesis [pins_nodup_b] of the C11_module_ theorems is discharged *)
Theorem C11_vtext_pin_dict : forall tm m, VT.module_args tm = Some m -> pins_nodup_b m = true.
Proof. exact VTP.module_args_nodup. Qed.
(* a connection .pn(sg) after which the same pin is not connected again is an entry of the dict of its Instantiation *)
Theorem C11_vtext_pin_entry : forall ta pn sg tb raw v, VT.omap VT.pin_cb (ta ++ VT.TNamed pn (Some sg) :: tb) = Some raw -> VT.sig_cb sg = Some v ->
  (forall pn' sg', In (VT.TNamed pn' (Some sg')) tb -> VT.name_cb pn' <> VT.name_cb pn) ->
  In (PName (VT.name_cb pn), v) (mk_pins raw).
Proof. exact VTP.text_pin_entry. Qed.
(* verilog.parse, module by module *)
Theorem C11_vtext_circuits : forall text lib bf cs, VT.circuits_of_text text lib bf = Some cs ->
  exists tms ms, VT.parse_verilog text = Some tms /\
    Forall2 (fun tm m => VT.module_args tm = Some m /\ pins_nodup_b m = true) tms ms /\
    Forall2 (fun m c => elab_module m lib bf = Some c) ms cs.
Proof. exact VTP.circuits_of_text_inv. Qed.
(* the circuits do not depend on how the netlist is written (layout, comments, attributes) *)
Theorem C11_vtext_circuits_of_rendering : forall t l sf lib bf, VT.wf_tree t = true -> map snd l = VT.toks_tree t ->
  VT.glue_ok l (VT.sep_text sf) = true -> VT.sep_ok sf = true ->
  VT.circuits_of_text (VT.render l (VT.sep_text sf)) lib bf =
  match VT.omap VT.module_args t with Some ms => VT.omap (fun m => elab_module m lib bf) ms | None => None end.
Proof. exact VTP.circuits_of_rendering. Qed.

(* the C11_module_ theorems FROM TEXT: no hypothesis about the tree is left *)
Theorem C11_text_module_consistent : forall text lib bf cs, lib_ok_b lib = true -> VT.circuits_of_text text lib bf = Some cs ->
  Forall (fun c => CInv c /\ SingleDrv c) cs.
Proof. exact VTP.text_module_consistent. Qed.
Theorem C11_text_module_ports : forall text tms tm m lib bf c, lib_ok_b lib = true -> VT.parse_verilog text = Some tms -> In tm tms ->
  VT.module_args tm = Some m -> elab_module m lib bf = Some c ->
  forall nls, VE.port_name_lists (map VT.name_cb (VT.t_params tm)) (decls_of m) = Some nls -> NoDup (List.concat nls) ->
  (forall n, In n (List.concat nls) -> In n (map fst (VE.io_items (decls_of m)))) ->
  List.length (io c) = List.length (List.concat nls) /\
  forall k name, nth_error (List.concat nls) k = Some name ->
    exists n kd, nth_error (io c) k = Some (Some n) /\ In n (nodes c) /\ name_of c n = name /\
                 kind_of c n = kind_str kd /\ dget name (cells c) = Some n /\ In (name, kd) (VE.io_items (decls_of m)).
Proof. exact VTP.text_module_ports. Qed.
(* a named pin connection as WRITTEN: .pn(sg) in the pin list of `ty nm ( .. )`, not connected again later in that list *)
Theorem C11_text_module_pin_in : forall text tms tm m lib bf c, lib_ok_b lib = true -> VT.parse_verilog text = Some tms -> In tm tms ->
  VT.module_args tm = Some m -> elab_module m lib bf = Some c ->
  forall ty nm ta pn sg tb s idx,
  In (VT.TInst ty nm (ta ++ VT.TNamed pn (Some sg) :: tb)) (VT.t_stmts tm) ->
  (forall pn' sg', In (VT.TNamed pn' (Some sg')) tb -> VT.name_cb pn' <> VT.name_cb pn) ->
  VT.sig_cb sg = Some (VE.SOne s) -> lib_pin lib (VT.name_cb ty) (PName (VT.name_cb pn)) = Some (idx, false) ->
  exists n l d, dget (VT.name_cb nm) (cells c) = Some n /\ kind_of c n = VT.name_cb ty /\ in_at c n idx = Some l /\ In l (lines c) /\
    l_rdr (lst c l) = Some n /\ l_rpin (lst c l) = idx /\ l_drv (lst c l) = Some d /\ is_fork (kind_of c d) = true /\
    if bf then exists f l', dget (branch_name (name_of c f) (VT.name_cb nm) (VT.name_cb pn)) (forks c) = Some d /\ ins_of c d = [Some l'] /\
                            In l' (lines c) /\ l_drv (lst c l') = Some f /\ l_rdr (lst c l') = Some d /\ SrcName m c f s
    else SrcName m c d s.
Proof. exact VTP.text_module_pin_in. Qed.
Theorem C11_text_module_pin_out : forall text tms tm m lib bf c, lib_ok_b lib = true -> VT.parse_verilog text = Some tms -> In tm tms ->
  VT.module_args tm = Some m -> elab_module m lib bf = Some c ->
  forall ty nm ta pn sg tb s idx,
  In (VT.TInst ty nm (ta ++ VT.TNamed pn (Some sg) :: tb)) (VT.t_stmts tm) ->
  (forall pn' sg', In (VT.TNamed pn' (Some sg')) tb -> VT.name_cb pn' <> VT.name_cb pn) ->
  VT.sig_cb sg = Some (VE.SOne s) -> lib_pin lib (VT.name_cb ty) (PName (VT.name_cb pn)) = Some (idx, true) ->
  exists n l f s', out_sig_name (decls_of m) s = Some s' /\ dget (VT.name_cb nm) (cells c) = Some n /\ kind_of c n = VT.name_cb ty /\
    out_at c n idx = Some l /\ In l (lines c) /\ l_drv (lst c l) = Some n /\ l_dpin (lst c l) = idx /\
    l_rdr (lst c l) = Some f /\ dget s' (forks c) = Some f /\ ins_of c f = [Some l].
Proof. exact VTP.text_module_pin_out. Qed.
Theorem C11_text_module_assign : forall text tms tm m lib bf c, lib_ok_b lib = true -> VT.parse_verilog text = Some tms -> In tm tms ->
  VT.module_args tm = Some m -> elab_module m lib bf = Some c ->
  exists c3 k3, elab_assigns m lib = Some (c3, k3) /\ ext c3 c /\
    forall ts, In ts (assign_pairs (decls_of m) (m_stmts m)) -> Resolved c ts \/ Unres c3 ts.
Proof. exact VTP.text_module_assign. Qed.
Theorem C11_text_module_outputs : forall text tms tm m lib bf c, lib_ok_b lib = true -> VT.parse_verilog text = Some tms -> In tm tms ->
  VT.module_args tm = Some m -> elab_module m lib bf = Some c ->
  forall nm, In (nm, VE.KOutput) (VE.io_items (decls_of m)) ->
  dget nm (forks c) <> None \/ dget (nm ++ "[0]")%string (forks c) <> None -> OutPort c nm.
Proof. exact VTP.text_module_outputs. Qed.
(* the hypotheses are satisfiable: a text with the three comment forms, an escaped port \b[0] , a bus, a sized constant and two
   instances is read, its callbacks do not raise, module builds a circuit with four io entries *)
Theorem C11_vtext_example : exists tm m c, VT.parse_verilog VTP.ex_text = Some [tm] /\ VT.wf_tree [tm] = true /\ VT.module_args tm = Some m /\
  lib_ok_b VTP.ex_lib2 = true /\ elab_module m VTP.ex_lib2 true = Some c /\ VT.circuits_of_text VTP.ex_text VTP.ex_lib2 true = Some [c] /\
  VT.t_params tm = ["a"; "\b[0] "; "y"]%string /\ m_ports m = ["a"; "b[0]"; "y"]%string /\ List.length (io c) = 4 /\ ports_ok_b m = true.
Proof. exact VTP.text_example. Qed.
