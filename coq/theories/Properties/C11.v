(** C11 -- parsed Verilog and bench netlists simulate as the described netlist.  Statements only.
    Scope: the pure helpers of VerilogTransformer (ranges / bit names, sized constants, concatenation,
    declarations, port position table and io list) and the bench elaborator, transcribed in
    Model/VerilogElab.v.  The grammars (text -> tree) and passes 1..2 of VerilogTransformer.module are
    covered by the differential oracle only -- except for the bench format, whose TEXT level (lexer with lark's keyword /
    NAME resolution and ignore rule, LALR parser) is transcribed in Model/BenchText.v (theorems C11_bench_lex_render ..
    C11_bench_text_node_unique below); the full theorem would be

      verilog_sem : forall m lib bf c, elab_verilog m lib bf = Some c ->
                    forall stim, netlist_sem (resolve lib c) stim = module_sem lib m stim. *)
From Coq Require Import List ZArith NArith Bool String Ascii.
From KV Require Import Model.VerilogElab Proofs.VerilogElabProofs Proofs.BenchProofs Model.BenchText Proofs.BenchTextProofs.
Import ListNotations.
Local Open Scope list_scope.

(* [l:r] expands to |l-r|+1 names base[l], base[l+-1], .., base[r] in declared direction; the same list is what a
   part select yields *)
Theorem C11_range_names : forall kind base l r,
  let names := decl_names {| d_kind := kind; d_base := base; d_rng := Some (vrange l (Some r)) |} in
  List.length names = Z.to_nat (Z.abs (l - r) + 1) /\
  (forall k, (k < List.length names)%nat ->
     nth k names ""%string = bitname base (if (l <=? r)%Z then l + Z.of_nat k else l - Z.of_nat k)%Z) /\
  sigsel (AName base (Some (vrange l (Some r)))) = one_or_many names.
Proof. exact range_names. Qed.
Theorem C11_range_ends : forall l r, hd 0%Z (vrange l (Some r)) = l /\ last (vrange l (Some r)) 0%Z = r.
Proof. exact range_ends. Qed.
Theorem C11_range_single : forall l, vrange l None = [l].
Proof. exact range_single. Qed.
(* distinct indices give distinct names (bases without '[') *)
Theorem C11_bitname_inj : forall b1 b2 i j, no_bracket b1 = true -> no_bracket b2 = true ->
  (0 <= i)%Z -> (0 <= j)%Z -> bitname b1 i = bitname b2 j -> b1 = b2 /\ i = j.
Proof. exact bitname_inj. Qed.
Theorem C11_bus_names_nodup : forall kind base l r, (0 <= l)%Z -> (0 <= r)%Z ->
  NoDup (decl_names {| d_kind := kind; d_base := base; d_rng := Some (vrange l (Some r)) |}).
Proof. exact bus_names_nodup. Qed.

(* w'bN / w'dN / w'hN: exactly w one-bit constants, MSB first, value N mod 2^w -- for all w and N *)
Theorem C11_sized_const : forall wstr b digits width base n,
  parse_digits 10%N wstr = Some width -> base_of b = Some base -> parse_digits base digits = Some n ->
  let bits := const_bits (N.to_nat width) n in
  List.length bits = N.to_nat width /\ bits_value bits = (n mod 2 ^ width)%N /\
  sigsel (AName (wstr ++ String quote (String b digits))%string None) = one_or_many (map bit_str bits).
Proof. exact sized_const_spec. Qed.
Theorem C11_const_bits_msb_first : forall w n k, (k < w)%nat ->
  nth k (const_bits w n) false = N.testbit n (N.of_nat (w - 1 - k)).
Proof. exact const_bits_nth. Qed.

Theorem C11_concat_flatten : forall args, concat args = flat_map sig_list args.
Proof. exact concat_flatten. Qed.

(* positions are 0..n-1 in port-list order with bus bits in declared range order; no position twice *)
Theorem C11_port_positions : forall ports m nls,
  port_name_lists ports m = Some nls -> NoDup (List.concat nls) ->
  let pos := positions_of nls in
  let flat := List.concat nls in
  Forall2 (fun p nl => exists d, dget p m = Some d /\ nl = decl_names d) ports nls /\
  (forall k n, nth_error flat k = Some n -> dget n pos = Some k) /\
  (forall n k, dget n pos = Some k -> nth_error flat k = Some n) /\
  (forall n1 n2 k, dget n1 pos = Some k -> dget n2 pos = Some k -> n1 = n2).
Proof. exact port_positions. Qed.
(* io_nodes: exactly the port bits in that order, each with the direction of its declaration, no holes *)
Theorem C11_io_order : forall ports stmts nls,
  let m := collect_decls stmts in
  port_name_lists ports m = Some nls ->
  NoDup (List.concat nls) -> NoDup (map fst (io_items m)) ->
  (forall n, In n (List.concat nls) -> In n (map fst (io_items m))) ->
  exists tbl, io_table ports stmts = Some tbl /\ List.length tbl = List.length (List.concat nls) /\
    forall k n, nth_error (List.concat nls) k = Some n ->
      exists kd, nth_error tbl k = Some (Some (n, kd)) /\ In (n, kd) (io_items m).
Proof. exact io_order. Qed.

(* bench: every assignment z = KIND(a_0, .., a_{n-1}) of a successfully elaborated description yields a cell named z of
   that kind whose k-th input pin carries a line driven by the fork (signal) named a_k and whose output drives the fork z *)
Theorem C11_bench_wiring : forall stmts c z kind args,
  elab_bench stmts = Some c -> In (BAssign z kind args) stmts -> kind <> fork_kind ->
  exists ci cell,
    nth_error (bc_nodes c) ci = Some cell /\ bn_name cell = z /\ bn_kind cell = kind /\
    List.length (bn_ins cell) = List.length args /\
    (forall k a, nth_error args k = Some a ->
       exists li l f, nth_error (bn_ins cell) k = Some (Some li) /\ nth_error (bc_lines c) li = Some l /\
                      bl_rdr l = ci /\ bl_rpin l = k /\
                      nth_error (bc_nodes c) (bl_drv l) = Some f /\ bn_kind f = fork_kind /\ bn_name f = a) /\
    (exists lo l f, nth_error (bn_outs cell) 0 = Some (Some lo) /\ nth_error (bc_lines c) lo = Some l /\
                    bl_drv l = ci /\ bl_dpin l = 0 /\
                    nth_error (bc_nodes c) (bl_rdr l) = Some f /\ bn_kind f = fork_kind /\ bn_name f = z).
Proof. exact bench_wiring. Qed.
(* a (name, namespace) pair denotes at most one node, so the cell above is THE cell named z *)
Theorem C11_bench_node_unique : forall stmts c i j n m,
  elab_bench stmts = Some c -> nth_error (bc_nodes c) i = Some n -> nth_error (bc_nodes c) j = Some m ->
  bn_name n = bn_name m -> is_fork n = is_fork m -> i = j.
Proof. exact bench_node_unique. Qed.

(** *** bench.py from TEXT (Model/BenchText.v: parse_bench = lark's contextual lexer + LALR parser on bench.GRAMMAR,
    None = lark raises; bench_of_text = parse_bench followed by BenchTransformer) *)

(* white space / comment insensitivity: a token stream written with ANY ignored text (spaces, tabs, form feeds, "\n", "\r\n",
   "#..\n" comments; a final comment without newline) before, between and after the tokens -- non-empty between two adjacent
   words -- is lexed to exactly that token stream; so the parse result is a function of the token stream *)
Theorem C11_bench_lex_render : forall s0 l t,
  forallb (fun p => tok_ok (fst p)) l = true -> seps_ok s0 l t = true -> glue_ok l = true ->
  lex (render s0 l t) = Some (map fst l).
Proof. exact lex_render. Qed.
Theorem C11_bench_parse_render : forall s0 l t,
  forallb (fun p => tok_ok (fst p)) l = true -> seps_ok s0 l t = true -> glue_ok l = true ->
  parse_bench (render s0 l t) = parse_toks (map fst l).
Proof. exact parse_render. Qed.
(* the token language: exactly the concatenations of  kw ( n , .. , n )  with kw one of INPUT input OUTPUT output, and
   z = k ( n , .. , n )  with z not exactly a keyword (k and the n may be keywords); the statements are read off in order *)
Theorem C11_bench_token_language : forall ts l,
  parse_toks ts = Some l <-> exists tss, Forall2 stmt_toks l tss /\ ts = List.concat tss.
Proof. exact parse_toks_iff. Qed.
Theorem C11_bench_keyword_assignment_rejected : forall kw k a rest, is_kw kw = true ->
  parse_toks (TWord kw :: TEq :: TWord k :: toks_params a ++ rest) = None.
Proof. exact keyword_assignment_rejected. Qed.
(* round trip: every statement list whose names are NAME tokens ([-_a-zA-Z0-9]+) and whose assigned names are not keywords *)
Theorem C11_bench_parse_print : forall l, forallb wf_stmt l = true -> parse_bench (print_bench l) = Some l.
Proof. exact parse_print. Qed.
Theorem C11_bench_any_rendering : forall stmts tss s0 l t,
  Forall2 stmt_toks stmts tss -> map fst l = List.concat tss ->
  forallb (fun p => tok_ok (fst p)) l = true -> seps_ok s0 l t = true -> glue_ok l = true ->
  parse_bench (render s0 l t) = Some stmts.
Proof. exact parse_any_rendering. Qed.

(* converse: the lexer accepts EXACTLY the renderings, the parser exactly the renderings of statement token groups *)
Theorem C11_bench_lex_iff : forall s ts, lex s = Some ts <-> rendering s ts.
Proof. exact lex_iff. Qed.
Theorem C11_bench_language : forall s l, parse_bench s = Some l <->
  exists ts tss, rendering s ts /\ Forall2 stmt_toks l tss /\ ts = List.concat tss.
Proof. exact parse_bench_iff. Qed.

(* C11_bench_wiring / C11_bench_node_unique starting from the text *)
Theorem C11_bench_text_wiring : forall text stmts c z kind args,
  parse_bench text = Some stmts -> bench_of_text text = Some c -> In (BAssign z kind args) stmts -> kind <> fork_kind ->
  exists ci cell,
    nth_error (bc_nodes c) ci = Some cell /\ bn_name cell = z /\ bn_kind cell = kind /\
    List.length (bn_ins cell) = List.length args /\
    (forall k a, nth_error args k = Some a ->
       exists li l f, nth_error (bn_ins cell) k = Some (Some li) /\ nth_error (bc_lines c) li = Some l /\
                      bl_rdr l = ci /\ bl_rpin l = k /\
                      nth_error (bc_nodes c) (bl_drv l) = Some f /\ bn_kind f = fork_kind /\ bn_name f = a) /\
    (exists lo l f, nth_error (bn_outs cell) 0 = Some (Some lo) /\ nth_error (bc_lines c) lo = Some l /\
                    bl_drv l = ci /\ bl_dpin l = 0 /\
                    nth_error (bc_nodes c) (bl_rdr l) = Some f /\ bn_kind f = fork_kind /\ bn_name f = z).
Proof. exact bench_text_wiring. Qed.
Theorem C11_bench_rendering_wiring : forall stmts tss s0 l t c z kind args,
  Forall2 stmt_toks stmts tss -> map fst l = List.concat tss ->
  forallb (fun p => tok_ok (fst p)) l = true -> seps_ok s0 l t = true -> glue_ok l = true ->
  bench_of_text (render s0 l t) = Some c -> In (BAssign z kind args) stmts -> kind <> fork_kind ->
  exists ci cell,
    nth_error (bc_nodes c) ci = Some cell /\ bn_name cell = z /\ bn_kind cell = kind /\
    List.length (bn_ins cell) = List.length args /\
    (forall k a, nth_error args k = Some a ->
       exists li l f, nth_error (bn_ins cell) k = Some (Some li) /\ nth_error (bc_lines c) li = Some l /\
                      bl_rdr l = ci /\ bl_rpin l = k /\
                      nth_error (bc_nodes c) (bl_drv l) = Some f /\ bn_kind f = fork_kind /\ bn_name f = a) /\
    (exists lo l f, nth_error (bn_outs cell) 0 = Some (Some lo) /\ nth_error (bc_lines c) lo = Some l /\
                    bl_drv l = ci /\ bl_dpin l = 0 /\
                    nth_error (bc_nodes c) (bl_rdr l) = Some f /\ bn_kind f = fork_kind /\ bn_name f = z).
Proof. exact bench_rendering_wiring. Qed.
Theorem C11_bench_text_node_unique : forall text c i j n m,
  bench_of_text text = Some c -> nth_error (bc_nodes c) i = Some n -> nth_error (bc_nodes c) j = Some m ->
  bn_name n = bn_name m -> is_fork n = is_fork m -> i = j.
Proof. exact bench_text_node_unique. Qed.
