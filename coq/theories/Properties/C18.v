(** C18 -- STIL patterns map scan data onto flip-flops by chain order and inversion.  Statements only.
    They are about Model/Stil.v, the transcription of StilFile.__init__/_maps/tests/responses/tests_loc
    (repaired code: [maps_gen true]); the grammar in front of it is tied by differential tests only.
    A chain is the list [si :: pre ++ cell :: post ++ [so]]: [pre] are the items (cells and "!" markers)
    between scan-in and the cell, [post] those between the cell and scan-out.  [ncell post] is therefore the
    number of the character (0 = first shifted) that belongs to the cell, counted from scan-out. *)
From Coq Require Import List Arith Bool String Ascii.
From KV Require Import Model.Prims Model.Logic Model.Netlist Model.Stil Model.StilSpec Proofs.StilProofs.
Import ListNotations.
Local Open Scope list_scope.

(** tests(): for ALL circuits, chains, marker placements and load strings, the cell receives character number
    [ncell post] of its chain's load string, inverted iff an odd number of markers lies between scan-in and
    the cell; unknown / unassigned characters are untouched ([load_value]) *)
Theorem C18_scan_load_position : forall groups chains c m p col key si pre cell post so L ch,
  wf_scan chains c ->
  maps_gen true groups chains c = Some m ->
  In (key, si :: pre ++ cell :: post ++ [so]) chains ->
  is_marker cell = false ->
  (forall gpi, dget groups "_pi"%string = Some gpi -> ~ In cell gpi) ->
  dget (p_load p) si = Some L ->
  String.length L = ncell (pre ++ cell :: post) ->
  String.get (ncell post) L = Some ch ->
  tests_col m (si_ports chains) p = Some col ->
  exists q, dget (intf_pos (interface c)) cell = Some q /\ q < List.length col /\
            nth q col UNASSIGNED = load_value (interpret ch) (Nat.odd (nmark pre)).
Proof. exact scan_load_position. Qed.

(** responses(): the same with the unload string of the chain's scan-out port and the markers between the
    cell and scan-out *)
Theorem C18_scan_unload_position : forall groups chains c m p col key si pre cell post so U ch,
  wf_scan chains c ->
  maps_gen true groups chains c = Some m ->
  In (key, si :: pre ++ cell :: post ++ [so]) chains ->
  is_marker cell = false ->
  dget (p_unload p) so = Some U ->
  String.length U = ncell (pre ++ cell :: post) ->
  String.get (ncell post) U = Some ch ->
  responses_col m (so_ports chains) p = Some col ->
  exists q, dget (intf_pos (interface c)) cell = Some q /\ q < List.length col /\
            nth q col UNASSIGNED = unload_value (interpret ch) (Nat.odd (nmark post)).
Proof. exact scan_unload_position. Qed.

(** primary inputs: character j of the capture call's "_pi" string goes to the interface position of the j-th
    name of the signal group "_pi" (any group order) *)
Theorem C18_pi_group_position : forall groups chains c m p col gpi s j name ch,
  NoDup (map sn_name (interface c)) ->
  maps_gen true groups chains c = Some m ->
  dget groups "_pi"%string = Some gpi -> NoDup gpi ->
  dget (p_capture p) "_pi"%string = Some s -> String.length s = List.length gpi ->
  nth_error gpi j = Some name -> String.get j s = Some ch ->
  tests_col m (si_ports chains) p = Some col ->
  exists q, dget (intf_pos (interface c)) name = Some q /\ q < List.length col /\
            nth q col UNASSIGNED = interpret ch.
Proof. exact pi_group_position. Qed.

(** primary outputs: likewise through "_po" in responses() *)
Theorem C18_po_group_position : forall groups chains c m p col gpo s j name ch,
  wf_scan chains c ->
  maps_gen true groups chains c = Some m ->
  dget groups "_po"%string = Some gpo -> NoDup gpo ->
  ~ In name (all_cells (map snd chains)) ->
  p_capture p <> [] ->
  dget (p_capture p) "_po"%string = Some s -> String.length s = List.length gpo ->
  nth_error gpo j = Some name -> String.get j s = Some ch ->
  responses_col m (so_ports chains) p = Some col ->
  exists q, dget (intf_pos (interface c)) name = Some q /\ q < List.length col /\
            nth q col UNASSIGNED = interpret ch.
Proof. exact po_group_position. Qed.

(** the arrays follow the circuit's port/state ordering: the interface list is Circuit.s_nodes, the very
    ordering Model/Netlist.s_nodes gives to LogicSim and WaveSim *)
Theorem C18_interface_is_s_nodes : forall c,
  interface c = map (fun i => nth i (sc_nodes c) dsnode) (s_nodes (netlist_of c)).
Proof. exact interface_is_s_nodes. Qed.

(** tests_loc(): at the position of a scan cell the result is mv_transition(loaded value, launch value); the
    launch value is the simulated next state [sim] when both the launch and the capture call pulse a clock
    ([nc = false]) and the loaded value itself otherwise *)
Theorem C18_loc_transition_position : forall groups chains c m p sim col nc key si pre cell post so L ch,
  wf_scan chains c ->
  maps_gen true groups chains c = Some m ->
  In (key, si :: pre ++ cell :: post ++ [so]) chains ->
  is_marker cell = false ->
  (forall gpi, dget groups "_pi"%string = Some gpi -> ~ In cell gpi) ->
  (forall gpo, dget groups "_po"%string = Some gpo -> ~ In cell gpo) ->
  dget (p_load p) si = Some L ->
  String.length L = ncell (pre ++ cell :: post) ->
  String.get (ncell post) L = Some ch ->
  no_launch_clock p = Some nc ->
  tests_loc_col m (si_ports chains) p sim = Some col ->
  exists q, dget (intf_pos (interface c)) cell = Some q /\ q < List.length col /\
    nth q col UNASSIGNED =
      mv_transition1 (load_value (interpret ch) (Nat.odd (nmark pre)))
                     (if nc then unload_value (interpret ch) (Nat.odd (nmark pre)) else nth q sim UNASSIGNED).
Proof. exact loc_transition_position. Qed.

(** tests_loc(): at a primary input the result is mv_transition(launch-call character, capture-call character) when
    the capture call pulses a clock; without such a pulse the final value is what the simulation left there *)
Theorem C18_loc_pi_transition_position : forall groups chains c m p sim col gpi j name s_init chi,
  wf_scan chains c ->
  maps_gen true groups chains c = Some m ->
  dget groups "_pi"%string = Some gpi -> NoDup gpi -> nth_error gpi j = Some name ->
  ~ In name (all_cells (map snd chains)) ->
  (forall gpo, dget groups "_po"%string = Some gpo -> ~ In name gpo) ->
  (if dhas (p_launch p) "_pi" then dget (p_launch p) "_pi"%string else dget (p_capture p) "_pi"%string) = Some s_init ->
  String.length s_init = List.length gpi -> String.get j s_init = Some chi ->
  (forall sc, dget (p_capture p) "_pi"%string = Some sc -> String.length sc = List.length gpi) ->
  tests_loc_col m (si_ports chains) p sim = Some col ->
  exists q, dget (intf_pos (interface c)) name = Some q /\ q < List.length col /\
    nth q col UNASSIGNED =
      mv_transition1 (interpret chi)
        (match dget (p_capture p) "_pi"%string with
         | Some sc => if has_P sc then nth j (mvarray sc) 0 else nth q sim UNASSIGNED
         | None => nth q sim UNASSIGNED
         end).
Proof. exact loc_pi_transition_position. Qed.

(** mv_transition = the documented table on all 8 x 8 operand pairs: 0/1/R/F from the initial value of the
    first and the final value of the second operand, unknown if either is unknown/unassigned, unassigned if both
    are unassigned *)
Theorem C18_mv_transition_spec : forall i f,
  mv_transition1 (nat_of_code i) (nat_of_code f) = nat_of_code (spec_transition i f).
Proof. exact mv_transition_spec. Qed.

(** pattern sets are the per-pattern columns in pattern order *)
Theorem C18_tests_column : forall m sis ps t i p,
  tests m sis ps = Some t -> nth_error ps i = Some p ->
  exists col, tests_col m sis p = Some col /\ nth_error t i = Some col.
Proof. exact tests_column. Qed.
Theorem C18_responses_column : forall m sos ps t i p,
  responses m sos ps = Some t -> nth_error ps i = Some p ->
  exists col, responses_col m sos p = Some col /\ nth_error t i = Some col.
Proof. exact responses_column. Qed.
Theorem C18_tests_loc_column : forall m sis ps sims t i p sim,
  tests_loc m sis ps sims = Some t -> nth_error ps i = Some p -> nth_error sims i = Some sim ->
  exists col, tests_loc_col m sis p sim = Some col /\ nth_error t i = Some col.
Proof. exact tests_loc_column. Qed.

(** the code of the pinned tree ([maps_gen false]) does NOT satisfy the load statement (witness: chain
    si -> f0 -> ! -> f1 -> f2 -> so, load "001") and builds a different interface list *)
Theorem C18_scan_load_position_v0_refuted :
  exists groups chains c m p col key si pre cell post so L ch q,
    wf_scan chains c /\ maps_gen false groups chains c = Some m /\
    In (key, si :: pre ++ cell :: post ++ [so]) chains /\ is_marker cell = false /\
    (forall gpi, dget groups "_pi"%string = Some gpi -> ~ In cell gpi) /\
    dget (p_load p) si = Some L /\ String.length L = ncell (pre ++ cell :: post) /\
    String.get (ncell post) L = Some ch /\
    tests_col m (si_ports chains) p = Some col /\
    dget (intf_pos (m_intf m)) cell = Some q /\
    nth q col UNASSIGNED <> load_value (interpret ch) (Nat.odd (nmark pre)).
Proof. exact scan_load_position_v0_refuted. Qed.
Theorem C18_interface_v0_refuted :
  exists groups chains c, wf_scan chains c /\ maps_gen true groups chains c <> None /\ maps_gen false groups chains c = None /\
    interface_v0 c <> map (fun i => nth i (sc_nodes c) dsnode) (s_nodes (netlist_of c)).
Proof. exact interface_v0_refuted. Qed.
