(** C18 -- STIL patterns map scan data onto flip-flops by chain order and inversion.  Statements only.
    They are about Model/Stil.v, the transcription of StilFile.__init__/_maps/tests/responses/tests_loc
    (repaired code: [maps_gen true]); the grammar in front of it (lark's reading of stil.GRAMMAR and the
    StilTransformer callbacks) is transcribed in Model/StilText.v: TEXT level theorems at the end of this file.
    A chain is the list [si :: pre ++ cell :: post ++ [so]]: [pre] are the items (cells and "!" markers)
    between scan-in and the cell, [post] those between the cell and scan-out.  [ncell post] is therefore the
    number of the character (0 = first shifted) that belongs to the cell, counted from scan-out. *)
From Coq Require Import List Arith Bool String Ascii.
From KV Require Import Model.Prims Model.Logic Model.Netlist Model.Stil Model.StilSpec Proofs.StilProofs Model.StilText Proofs.StilTextProofs.
Import ListNotations.
Local Open Scope list_scope.

(** tests(): for ALL circuits, chains, marker placements and load strings, the cell receives character number
    [ncell post] of its chain's load string, inverted iff an odd number of markers lies between scan-in and
    the cell; unknown / unassigned characters are untouched ([load_value]) *)
Theorem C18_scan_load_position : forall groups chains c m p col key si pre cell post so L ch,
  wf_scan chains c ->
  maps_gen true groups chains c = Some m ->
  In (key, si :: pre ++ cell :: post ++ [so]) chains ->
  is_marker cell = false ->
  (forall gpi, dget groups "_pi"%string = Some gpi -> ~ In cell gpi) ->
  dget (p_load p) si = Some L ->
  String.length L = ncell (pre ++ cell :: post) ->
  String.get (ncell post) L = Some ch ->
  tests_col m (si_ports chains) p = Some col ->
  exists q, dget (intf_pos (interface c)) cell = Some q /\ q < List.length col /\
            nth q col UNASSIGNED = load_value (interpret ch) (Nat.odd (nmark pre)).
Proof. exact scan_load_position. Qed.

(** responses(): the same with the unload string of the chain's scan-out port and the markers between the
    cell and scan-out *)
Theorem C18_scan_unload_position : forall groups chains c m p col key si pre cell post so U ch,
  wf_scan chains c ->
  maps_gen true groups chains c = Some m ->
  In (key, si :: pre ++ cell :: post ++ [so]) chains ->
  is_marker cell = false ->
  dget (p_unload p) so = Some U ->
  String.length U = ncell (pre ++ cell :: post) ->
  String.get (ncell post) U = Some ch ->
  responses_col m (so_ports chains) p = Some col ->
  exists q, dget (intf_pos (interface c)) cell = Some q /\ q < List.length col /\
            nth q col UNASSIGNED = unload_value (interpret ch) (Nat.odd (nmark post)).
Proof. exact scan_unload_position. Qed.

(** primary inputs: character j of the capture call's "_pi" string goes to the interface position of the j-th
    name of the signal group "_pi" (any group order) *)
Theorem C18_pi_group_position : forall groups chains c m p col gpi s j name ch,
  NoDup (map sn_name (interface c)) ->
  maps_gen true groups chains c = Some m ->
  dget groups "_pi"%string = Some gpi -> NoDup gpi ->
  dget (p_capture p) "_pi"%string = Some s -> String.length s = List.length gpi ->
  nth_error gpi j = Some name -> String.get j s = Some ch ->
  tests_col m (si_ports chains) p = Some col ->
  exists q, dget (intf_pos (interface c)) name = Some q /\ q < List.length col /\
            nth q col UNASSIGNED = interpret ch.
Proof. exact pi_group_position. Qed.

(** primary outputs: likewise through "_po" in responses() *)
Theorem C18_po_group_position : forall groups chains c m p col gpo s j name ch,
  wf_scan chains c ->
  maps_gen true groups chains c = Some m ->
  dget groups "_po"%string = Some gpo -> NoDup gpo ->
  ~ In name (all_cells (map snd chains)) ->
  p_capture p <> [] ->
  dget (p_capture p) "_po"%string = Some s -> String.length s = List.length gpo ->
  nth_error gpo j = Some name -> String.get j s = Some ch ->
  responses_col m (so_ports chains) p = Some col ->
  exists q, dget (intf_pos (interface c)) name = Some q /\ q < List.length col /\
            nth q col UNASSIGNED = interpret ch.
Proof. exact po_group_position. Qed.

(** the arrays follow the circuit's port/state ordering: the interface list is Circuit.s_nodes, the very
    ordering Model/Netlist.s_nodes gives to LogicSim and WaveSim *)
Theorem C18_interface_is_s_nodes : forall c,
  interface c = map (fun i => nth i (sc_nodes c) dsnode) (s_nodes (netlist_of c)).
Proof. exact interface_is_s_nodes. Qed.

(** tests_loc(): at the position of a scan cell the result is mv_transition(loaded value, launch value); the
    launch value is the simulated next state [sim] when both the launch and the capture call pulse a clock
    ([nc = false]) and the loaded value itself otherwise *)
Theorem C18_loc_transition_position : forall groups chains c m p sim col nc key si pre cell post so L ch,
  wf_scan chains c ->
  maps_gen true groups chains c = Some m ->
  In (key, si :: pre ++ cell :: post ++ [so]) chains ->
  is_marker cell = false ->
  (forall gpi, dget groups "_pi"%string = Some gpi -> ~ In cell gpi) ->
  (forall gpo, dget groups "_po"%string = Some gpo -> ~ In cell gpo) ->
  dget (p_load p) si = Some L ->
  String.length L = ncell (pre ++ cell :: post) ->
  String.get (ncell post) L = Some ch ->
  no_launch_clock p = Some nc ->
  tests_loc_col m (si_ports chains) p sim = Some col ->
  exists q, dget (intf_pos (interface c)) cell = Some q /\ q < List.length col /\
    nth q col UNASSIGNED =
      mv_transition1 (load_value (interpret ch) (Nat.odd (nmark pre)))
                     (if nc then unload_value (interpret ch) (Nat.odd (nmark pre)) else nth q sim UNASSIGNED).
Proof. exact loc_transition_position. Qed.

(** tests_loc(): at a primary input the result is mv_transition(launch-call character, capture-call character) when
    the capture call pulses a clock; without such a pulse the final value is what the simulation left there *)
Theorem C18_loc_pi_transition_position : forall groups chains c m p sim col gpi j name s_init chi,
  wf_scan chains c ->
  maps_gen true groups chains c = Some m ->
  dget groups "_pi"%string = Some gpi -> NoDup gpi -> nth_error gpi j = Some name ->
  ~ In name (all_cells (map snd chains)) ->
  (forall gpo, dget groups "_po"%string = Some gpo -> ~ In name gpo) ->
  (if dhas (p_launch p) "_pi" then dget (p_launch p) "_pi"%string else dget (p_capture p) "_pi"%string) = Some s_init ->
  String.length s_init = List.length gpi -> String.get j s_init = Some chi ->
  (forall sc, dget (p_capture p) "_pi"%string = Some sc -> String.length sc = List.length gpi) ->
  tests_loc_col m (si_ports chains) p sim = Some col ->
  exists q, dget (intf_pos (interface c)) name = Some q /\ q < List.length col /\
    nth q col UNASSIGNED =
      mv_transition1 (interpret chi)
        (match dget (p_capture p) "_pi"%string with
         | Some sc => if has_P sc then nth j (mvarray sc) 0 else nth q sim UNASSIGNED
         | None => nth q sim UNASSIGNED
         end).
Proof. exact loc_pi_transition_position. Qed.

(** mv_transition = the documented table on all 8 x 8 operand pairs: 0/1/R/F from the initial value of the
    first and the final value of the second operand, unknown if either is unknown/unassigned, unassigned if both
    are unassigned *)
Theorem C18_mv_transition_spec : forall i f,
  mv_transition1 (nat_of_code i) (nat_of_code f) = nat_of_code (spec_transition i f).
Proof. exact mv_transition_spec. Qed.

(** pattern sets are the per-pattern columns in pattern order *)
Theorem C18_tests_column : forall m sis ps t i p,
  tests m sis ps = Some t -> nth_error ps i = Some p ->
  exists col, tests_col m sis p = Some col /\ nth_error t i = Some col.
Proof. exact tests_column. Qed.
Theorem C18_responses_column : forall m sos ps t i p,
  responses m sos ps = Some t -> nth_error ps i = Some p ->
  exists col, responses_col m sos p = Some col /\ nth_error t i = Some col.
Proof. exact responses_column. Qed.
Theorem C18_tests_loc_column : forall m sis ps sims t i p sim,
  tests_loc m sis ps sims = Some t -> nth_error ps i = Some p -> nth_error sims i = Some sim ->
  exists col, tests_loc_col m sis p sim = Some col /\ nth_error t i = Some col.
Proof. exact tests_loc_column. Qed.

(** the code of the pinned tree ([maps_gen false]) does NOT satisfy the load statement (witness: chain
    si -> f0 -> ! -> f1 -> f2 -> so, load "001") and builds a different interface list *)
Theorem C18_scan_load_position_v0_refuted :
  exists groups chains c m p col key si pre cell post so L ch q,
    wf_scan chains c /\ maps_gen false groups chains c = Some m /\
    In (key, si :: pre ++ cell :: post ++ [so]) chains /\ is_marker cell = false /\
    (forall gpi, dget groups "_pi"%string = Some gpi -> ~ In cell gpi) /\
    dget (p_load p) si = Some L /\ String.length L = ncell (pre ++ cell :: post) /\
    String.get (ncell post) L = Some ch /\
    tests_col m (si_ports chains) p = Some col /\
    dget (intf_pos (m_intf m)) cell = Some q /\
    nth q col UNASSIGNED <> load_value (interpret ch) (Nat.odd (nmark pre)).
Proof. exact scan_load_position_v0_refuted. Qed.
Theorem C18_interface_v0_refuted :
  exists groups chains c, wf_scan chains c /\ maps_gen true groups chains c <> None /\ maps_gen false groups chains c = None /\
    interface_v0 c <> map (fun i => nth i (sc_nodes c) dsnode) (s_nodes (netlist_of c)).
Proof. exact interface_v0_refuted. Qed.

(* ---------------------------------------------------------------------------------------------- *)
(** TEXT level (Model/StilText.v): [parse_ast] is the transcription of what lark (contextual lexer + LALR parser) does with
    stil.GRAMMAR, [transform] of the StilTransformer callbacks and the raises of StilFile.__init__; [parse_stil text] = the arguments
    stil.parse(text) hands to StilFile(...) ([None]: it raises).  A [cfile] is a concrete syntax tree: every token with the ignored
    text in front of it (blanks, tabs, form feeds, "\n", "\r\n", "//..\n" comments), every ignored block ({ } with balanced
    inner braces, raw text, comments that swallow braces after "{" / "}") and every ignored statement; [pr_file] writes it down,
    [file_ok] are the side conditions (comment bodies without newline, names without double quote, values that are /[^;]+/ tokens
    not starting with ignored text, digits, FLOAT characters, balanced braces), [file_ast] the tree the callbacks see. *)

(** every well-formed way of writing a file is accepted, with exactly the statements it was written from *)
Theorem C18_text_parse_cst : forall f, file_ok f = true -> parse_ast (pr_file f) = Some (file_ast f).
Proof. exact parse_ast_print. Qed.
Theorem C18_text_parse_stil_cst : forall f, file_ok f = true ->
  parse_stil (pr_file f) = match transform (file_ast f) with SOk x => Some x | _ => None end.
Proof. exact parse_stil_cst. Qed.

(** ... and nothing else is: the accepted language is EXACTLY the set of well-formed concrete syntax trees (declarative
    characterisation of what the transcribed lexer + parser accept; [parse_stil] adds the transformer on the tree) *)
Theorem C18_text_language : forall s a, parse_ast s = Some a <-> exists f, file_ok f = true /\ file_ast f = a /\ s = pr_file f.
Proof. exact parse_ast_iff. Qed.
Theorem C18_text_language_stil : forall s sf, parse_stil s = Some sf <->
  exists f, file_ok f = true /\ s = pr_file f /\ transform (file_ast f) = SOk sf.
Proof. exact parse_stil_iff. Qed.
(** the ignored-block scanner accepts exactly the balanced blocks *)
Theorem C18_text_ignored_block_iff : forall s r, p_ignore s = Some r <->
  exists t b, tr_ok t = true /\ iblock_ok b = true /\ s = sep_k t (pr_iblock b r).
Proof. exact p_ignore_iff. Qed.

(** an ignored block is skipped as a whole, whatever follows it: the brace-skipping rule is sound for every balanced block *)
Theorem C18_text_ignored_block_skipped : forall t b k, tr_ok t = true -> iblock_ok b = true ->
  p_ignore (sep_k t (pr_iblock b k)) = Some k.
Proof. intros t b k Ht Hb. rewrite p_ignore_sep by exact Ht. now apply p_ignore_iblock. Qed.

(** (b) the result does not depend on the ignored text between the tokens (nor on the content of ignored blocks): two well-formed
    writings of the same statements are read alike *)
Theorem C18_text_layout_irrelevant : forall f f', file_ok f = true -> file_ok f' = true -> file_ast f = file_ast f' ->
  parse_ast (pr_file f) = parse_ast (pr_file f') /\ parse_stil (pr_file f) = parse_stil (pr_file f').
Proof. exact layout_irrelevant. Qed.

(** (b) in particular ALL ignored text between the tokens (and a final comment) can be deleted: [file_compact] writes the same tokens
    with nothing in between *)
Theorem C18_text_compact_same : forall f, file_ok f = true ->
  parse_ast (pr_file (file_compact f)) = parse_ast (pr_file f) /\ parse_stil (pr_file (file_compact f)) = parse_stil (pr_file f).
Proof. exact compact_same. Qed.

(** (c) Header, Signals, Timing, PatternBurst, PatternExec, Procedures, MacroDefs, UserKeywords blocks, labels, W, C, Macro, Ann
    statements, ScanLength / ScanInversion / ScanMasterClock statements do not affect the result: it is a function of the core of
    the tree ([ast_core] removes them all) *)
Theorem C18_text_transform_core : forall a, transform (ast_core a) = transform a.
Proof. exact transform_core. Qed.
Theorem C18_text_ignored_irrelevant : forall f f', file_ok f = true -> file_ok f' = true ->
  ast_core (file_ast f) = ast_core (file_ast f') ->
  stil_outcome (pr_file f) = stil_outcome (pr_file f') /\ parse_stil (pr_file f) = parse_stil (pr_file f').
Proof. exact ignored_irrelevant. Qed.

(** (a) round trip: StilFile arguments whose names have no double quote, whose cell names have no '.', whose group member lists are
    not empty, whose chain lists have both ports, whose parameter values are value tokens and whose dictionaries have no repeated
    key are printed to a text that is read back as themselves *)
Theorem C18_text_parse_print : forall f, wf_file f = true -> parse_stil (print_stil f) = Some f.
Proof. exact parse_print. Qed.

(** (d) what the statements of ANY accepted text mean: a ScanChain statement (name used once in the last ScanStructures block)
    becomes the chain list [ScanIn; cells with `.SI` and the hierarchy prefix removed, `!` markers; ScanOut]; a signal group is
    the last definition of its name in the last SignalGroups block; the calls are the Call statements of the last Pattern block *)
Theorem C18_text_chain_as_written : forall text ver blocks sf cs key items si so cells,
  parse_ast text = Some (ver, blocks) -> parse_stil text = Some sf ->
  last_of sel_chains blocks = Some cs -> NoDup (map fst cs) -> In (key, items) cs ->
  chain_si_of items = Some si -> chain_so_of items = Some so -> chain_cells_of items = Some cells ->
  In (key, si :: map clean_cell cells ++ [so]) (sf_chains sf).
Proof. exact chain_as_written. Qed.
Theorem C18_text_group_as_written : forall text ver blocks sf gs name,
  parse_ast text = Some (ver, blocks) -> parse_stil text = Some sf ->
  last_of sel_groups blocks = Some gs ->
  dget (groups_of sf) name = last_of (fun g => if String.eqb (fst g) name then Some (snd g) else None) gs.
Proof. exact group_as_written. Qed.
Theorem C18_text_calls_as_written : forall text ver blocks sf items,
  parse_ast text = Some (ver, blocks) -> parse_stil text = Some sf ->
  last_of sel_pattern blocks = Some items -> sf_calls sf = flat_map call_of items.
Proof. exact calls_as_written. Qed.

(** (d) the position theorems starting from the TEXT: [cells] are the cell names as written in the ScanCells statement *)
Theorem C18_text_scan_load_position : forall text ver blocks sf cs key items si so cells pre cell post c m p col L ch,
  parse_ast text = Some (ver, blocks) -> parse_stil text = Some sf ->
  last_of sel_chains blocks = Some cs -> NoDup (map fst cs) -> In (key, items) cs ->
  chain_si_of items = Some si -> chain_so_of items = Some so -> chain_cells_of items = Some cells ->
  map clean_cell cells = pre ++ cell :: post ->
  wf_scan (sf_chains sf) c ->
  maps_gen true (groups_of sf) (sf_chains sf) c = Some m ->
  is_marker cell = false ->
  (forall gpi, dget (groups_of sf) "_pi"%string = Some gpi -> ~ In cell gpi) ->
  dget (p_load p) si = Some L ->
  String.length L = ncell (pre ++ cell :: post) ->
  String.get (ncell post) L = Some ch ->
  tests_col m (si_ports (sf_chains sf)) p = Some col ->
  exists q, dget (intf_pos (interface c)) cell = Some q /\ q < List.length col /\
            nth q col UNASSIGNED = load_value (interpret ch) (Nat.odd (nmark pre)).
Proof. exact text_scan_load_position. Qed.
Theorem C18_text_scan_unload_position : forall text ver blocks sf cs key items si so cells pre cell post c m p col U ch,
  parse_ast text = Some (ver, blocks) -> parse_stil text = Some sf ->
  last_of sel_chains blocks = Some cs -> NoDup (map fst cs) -> In (key, items) cs ->
  chain_si_of items = Some si -> chain_so_of items = Some so -> chain_cells_of items = Some cells ->
  map clean_cell cells = pre ++ cell :: post ->
  wf_scan (sf_chains sf) c ->
  maps_gen true (groups_of sf) (sf_chains sf) c = Some m ->
  is_marker cell = false ->
  dget (p_unload p) so = Some U ->
  String.length U = ncell (pre ++ cell :: post) ->
  String.get (ncell post) U = Some ch ->
  responses_col m (so_ports (sf_chains sf)) p = Some col ->
  exists q, dget (intf_pos (interface c)) cell = Some q /\ q < List.length col /\
            nth q col UNASSIGNED = unload_value (interpret ch) (Nat.odd (nmark post)).
Proof. exact text_scan_unload_position. Qed.
Theorem C18_text_pi_group_position : forall text ver blocks sf gs c m p col gpi s j name ch,
  parse_ast text = Some (ver, blocks) -> parse_stil text = Some sf ->
  last_of sel_groups blocks = Some gs ->
  last_of (fun g => if String.eqb (fst g) "_pi" then Some (snd g) else None) gs = Some gpi ->
  NoDup (map sn_name (interface c)) ->
  maps_gen true (groups_of sf) (sf_chains sf) c = Some m ->
  NoDup gpi ->
  dget (p_capture p) "_pi"%string = Some s -> String.length s = List.length gpi ->
  nth_error gpi j = Some name -> String.get j s = Some ch ->
  tests_col m (si_ports (sf_chains sf)) p = Some col ->
  exists q, dget (intf_pos (interface c)) name = Some q /\ q < List.length col /\
            nth q col UNASSIGNED = interpret ch.
Proof. exact text_pi_group_position. Qed.
Theorem C18_text_po_group_position : forall text ver blocks sf gs c m p col gpo s j name ch,
  parse_ast text = Some (ver, blocks) -> parse_stil text = Some sf ->
  last_of sel_groups blocks = Some gs ->
  last_of (fun g => if String.eqb (fst g) "_po" then Some (snd g) else None) gs = Some gpo ->
  wf_scan (sf_chains sf) c ->
  maps_gen true (groups_of sf) (sf_chains sf) c = Some m ->
  NoDup gpo ->
  ~ In name (all_cells (map snd (sf_chains sf))) ->
  p_capture p <> [] ->
  dget (p_capture p) "_po"%string = Some s -> String.length s = List.length gpo ->
  nth_error gpo j = Some name -> String.get j s = Some ch ->
  responses_col m (so_ports (sf_chains sf)) p = Some col ->
  exists q, dget (intf_pos (interface c)) name = Some q /\ q < List.length col /\
            nth q col UNASSIGNED = interpret ch.
Proof. exact text_po_group_position. Qed.

(** * Source tie for StilFile._maps (stil.py): the TRANSLATED source is the hand model.
    Gen/StilMapsSrc.v is regenerated from the current text of stil.py on every run (translate/gen_stil_maps.py, fail-closed);
    [StilFile__maps_src] computes on Python values (Model/DefRouteSrcLib.v [pyv], dicts / bool locals / node objects of
    Model/StilMapsSrcLib.v), [None] = the code raised (KeyError of a group / cell name that is no interface name, of a missing
    '_pi' / '_po' group; IndexError of chain[0] on an empty chain list).  For EVERY circuit (its s_nodes = [interface c]), all
    signal groups and all scan chains whose lists are non-empty (the transformer always builds [scan_in] + cells + [scan_out]) the
    translated _maps returns exactly what [maps_gen true] (interface positions by name, _pi / _po maps, per chain the scan map
    and the scan-in / scan-out inversion vectors from the two passes over chain[1:-1]) returns, and raises exactly when the
    model yields None.  [src_view] reads logic.mvarray(list of bools) -- an uninterpreted constructor in the translation -- as
    the model does ([mv_of_bools]); [model_view] writes names / positions of the model as Python values (both injective). *)
From KV Require Import Model.DefRouteSrcLib Model.StilMapsSrcLib Gen.StilMapsSrc Proofs.StilMapsSrcProofs.
Theorem C18_maps_source_is_model : forall (groups chains : sdict (list string)) (c : scircuit),
  Forall (fun ch : list string => ch <> []) (map snd chains) ->
  option_map src_view (StilFile__maps_src (enc_stil groups chains) (enc_circ c))
  = option_map model_view (maps_gen true groups chains c).
Proof. exact maps_source_is_model. Qed.
(* non-vacuity: ports pi0 si so, flip-flops a b, ONE chain  si ! a b ! so  (an inverter directly behind the scan-in port and one
   directly in front of the scan-out port): the chain is in the domain, the translated code returns positions [b; a] = [4; 3]
   under both ports and inversion [true; true] for scan-in AND scan-out (each cell sees exactly one marker from either side),
   and so does the model *)
Theorem C18_maps_source_nonvacuous :
  Forall (fun ch : list string => ch <> []) (map snd nv_chains)
  /\ StilFile__maps_src (enc_stil nv_groups nv_chains) (enc_circ nv_circuit)
     = Some (map enc_node (interface nv_circuit), enc_nats [1; 0], enc_nats [2],
             [(PStr "si", enc_nats [4; 3]); (PStr "so", enc_nats [4; 3])],
             [(PStr "si", Mvarray [true; true]); (PStr "so", Mvarray [true; true])])
  /\ option_map maps_view (maps_gen true nv_groups nv_chains nv_circuit)
     = Some (["pi0"; "si"; "so"; "a"; "b"]%string, [1; 0], [2], [("si", [4; 3]); ("so", [4; 3])]%string,
             [("si", Arr [ONE; ONE]); ("so", Arr [ONE; ONE])]%string).
Proof. exact maps_source_nonvacuous. Qed.
