(** C06 -- results do not depend on performance options, lane position or code path. Statements only.
    Proved here: the code-path clause for the mock GPU launcher (every kernel instance inside the bounds
    runs exactly once), the irrelevance of the order in which a level's released memory is freed, and lane
    independence of the bit-parallel logic kernels.  The option clauses are decided by correspondence. *)
From Coq Require Import List NArith Arith Bool.
From KV Require Import Model.Launch Model.Bits Model.Heap Model.HeapInv Proofs.LaunchProofs Proofs.BitsLift Proofs.HeapProofs.
Import ListNotations.

Theorem C06_gpu_threads_cover : forall X Y bx by_, 0 < bx -> 0 < by_ ->
  NoDup (threads X Y bx by_) /\ (forall x y, In (x, y) (threads X Y bx by_) <-> (x < X /\ y < Y)).
Proof. exact threads_cover. Qed.

Theorem C06_lane_independent : forall w p ins lane, (lane < w)%N ->
  map (fun x => N.testbit x lane) (run_N w p ins) = run_bool p (map (fun x => N.testbit x lane) ins).
Proof. intros. apply run_lift. assumption. Qed.

Theorem C06_release_order_irrelevant : forall h a b ha hb hab hba, HInv h -> live h a -> live h b -> a <> b ->
  free h a = Some ha -> free ha b = Some hab -> free h b = Some hb -> free hb a = Some hba -> hab = hba.
Proof. exact free_commute. Qed.

(** strip_forks clause (logic level): for EVERY well-formed acyclic netlist whose gates have selectable primitives, EVERY
    stimulus and any value domain in which BUF1 is a plain copy, the schedule with forks stripped computes at every line
    exactly what the schedule with forks computes *)
From KV Require Import Model.Netlist Model.NetlistWf Model.SimOps Model.AllocCheck Model.NetlistSem Model.Prims Gen.SimTables.
From KV Require Proofs.StripInvariance.
From Coq Require Import String.
Theorem C06_strip_forks_irrelevant : forall V (sem : N -> V -> V -> V -> V -> V) (zero : V) c stim len stems,
  wf_netlist c -> comb_acyclic c -> List.length (c_lines c) <= len -> build_stems c true len = Some stems ->
  (forall x b cc d, sem (lutv "BUF1") x b cc d = x) ->
  (forall n, n < List.length (c_nodes c) -> iface_pos c n = None -> is_fork (get_node c n) = true ->
     n_kind (get_node c n) = "__fork__"%string) ->
  (forall n, n < List.length (c_nodes c) -> iface_pos c n = None -> is_fork (get_node c n) = false ->
     select_lut kind_prefixes (n_kind (get_node c n)) (negb (is_some (pin (n_ins (get_node c n)) 2)))
                (negb (is_some (pin (n_ins (get_node c n)) 3))) <> None) ->
  (forall n, n < List.length (c_nodes c) -> is_dff (get_node c n) = true -> forall k o, 2 <= k -> pin (n_outs (get_node c n)) k = Some o -> False) ->
  (forall n, n < List.length (c_nodes c) -> iface_pos c n = None -> is_fork (get_node c n) = false ->
     forall k o, 1 <= k -> pin (n_outs (get_node c n)) k = Some o -> False) ->
  forall l, l < List.length (c_lines c) ->
    iexec sem (stemmed stems) (build_ops c true) (init_env zero c stim) (stemmed stems l)
    = iexec sem (fun x => x) (build_ops c false) (init_env zero c stim) l.
Proof. intros V sem zero. exact (KV.Proofs.StripInvariance.strip_forks_irrelevant sem zero). Qed.

(** ... and so do k cycles (LogicSim.cycle at line level, Model/CycleSem.v): the assignment and result vectors after k cycles with
    forks stripped equal those without *)
From KV Require Import Model.CycleSem.
From KV Require Proofs.CycleProofs Proofs.EndToEnd.
From Coq Require Import ZArith.
Theorem C06_cycles_strip_irrelevant : forall V (sem : N -> V -> V -> V -> V -> V) (zero : V) c len stems k st,
  wf_netlist c -> comb_acyclic c -> KV.Proofs.EndToEnd.gates_known c -> List.length (c_lines c) <= len ->
  build_stems c true len = Some stems ->
  (forall x b cc d, sem (lutv "BUF1") x b cc d = x) ->
  (forall n, n < List.length (c_nodes c) -> iface_pos c n = None -> is_fork (get_node c n) = true ->
     n_kind (get_node c n) = "__fork__"%string) ->
  line_cycles_strip sem zero c stems k st = line_cycles sem zero c k st.
Proof. intros V sem zero. exact (KV.Proofs.CycleProofs.cycles_strip_irrelevant sem zero). Qed.
(** c_reuse clause (memory level): for EVERY well-formed acyclic netlist of known primitives, any value domain and op semantics,
    and initial memories holding the same stimulus at the PI/PPI slots and the zero slot of the respective map, the flat memory
    after the scheduled ops holds the same value at every observed (PO/PPO) slot whether or not signal memory is reused; the
    schedule, the aliases and the stimulus / observed slots themselves do not depend on c_reuse. *)
From KV Require Import Model.SimOpsCert.
From KV Require Proofs.EndToEnd Proofs.ReuseProofs.
Theorem C06_c_reuse_irrelevant : forall V (sem : N -> V -> V -> V -> V -> V) (dflt : V) c caps cmin so0 so1 (e : ienv) (m0 m1 : fmem),
  wf_netlist c -> comb_acyclic c -> (0 < cmin)%N -> KV.Proofs.EndToEnd.gates_known c ->
  build c caps cmin false false = Some so0 -> build c caps cmin true false = Some so1 ->
  (forall x l, In x (so_init so0) -> so_loc so0 x = Some l -> m0 l = e x) ->
  (forall x l, In x (so_init so1) -> so_loc so1 x = Some l -> m1 l = e x) ->
  forall p, In p (so_final so1) ->
    mread dflt (so_loc so1) (mexec sem dflt (so_loc so1) (so_ops so1) m1) p
    = mread dflt (so_loc so0) (mexec sem dflt (so_loc so0) (so_ops so0) m0) p.
Proof. intros V sem dflt. exact (KV.Proofs.ReuseProofs.reuse_irrelevant sem dflt). Qed.

Theorem C06_c_reuse_same_interface : forall c caps cmin so0 so1,
  wf_netlist c -> comb_acyclic c -> (0 < cmin)%N -> KV.Proofs.EndToEnd.gates_known c ->
  build c caps cmin false false = Some so0 -> build c caps cmin true false = Some so1 ->
  so_ops so1 = so_ops so0 /\ so_level_starts so1 = so_level_starts so0 /\
  (forall x, so_alias c so1 x = so_alias c so0 x) /\ so_init so1 = so_init so0 /\ so_final so1 = so_final so0.
Proof. exact KV.Proofs.ReuseProofs.reuse_same_interface. Qed.

(* with reuse the memory still delivers the line-level value of the line feeding each observed s_node *)
Theorem C06_end_to_end_reuse : forall V (sem : N -> V -> V -> V -> V -> V) (zero : V) c caps cmin so stim (m0 : fmem),
  wf_netlist c -> comb_acyclic c -> (0 < cmin)%N -> KV.Proofs.EndToEnd.gates_known c ->
  build c caps cmin true false = Some so ->
  (forall x l, In x (so_init so) -> so_loc so x = Some l -> m0 l = init_env zero c stim x) ->
  forall p, In p (so_final so) ->
    mread zero (so_loc so) (mexec sem zero (so_loc so) (so_ops so) m0) p
    = iexec sem (fun x => x) (build_ops c false) (init_env zero c stim) (so_alias c so p).
Proof. intros V sem zero. exact (KV.Proofs.ReuseProofs.end_to_end_reuse sem zero). Qed.

(** all options at once (memory level): whatever c_reuse and strip_forks are, the flat memory after the scheduled ops holds at the
    PPO slot of every observed s_node the value that the UNSTRIPPED line-level execution gives the line feeding that s_node;
    hence any two option combinations agree at every slot both observe. *)
From KV Require Proofs.ReuseStrip.
Theorem C06_options_irrelevant_spec : forall V (sem : N -> V -> V -> V -> V -> V) (zero : V) c caps cmin reuse strip so stim (m0 : fmem),
  wf_netlist c -> comb_acyclic c -> (0 < cmin)%N -> KV.Proofs.EndToEnd.gates_known c ->
  (strip = true -> KV.Proofs.ReuseStrip.forks_ok c /\ forall x b cc d, sem (lutv "BUF1") x b cc d = x) ->
  build c caps cmin reuse strip = Some so ->
  (forall x l, In x (so_init so) -> so_loc so x = Some l -> m0 l = init_env zero c stim x) ->
  forall p, In p (so_final so) ->
    exists i l0 t, p = List.length (c_lines c) + 3 + List.length (s_nodes c) + i /\ i < List.length (s_nodes c) /\
      n_ins (get_node c (nth i (s_nodes c) 0)) = Some l0 :: t /\
      mread zero (so_loc so) (mexec sem zero (so_loc so) (so_ops so) m0) p
      = iexec sem (fun x => x) (build_ops c false) (init_env zero c stim) l0.
Proof. intros V sem zero. exact (KV.Proofs.ReuseStrip.end_to_end_all sem zero). Qed.

Theorem C06_options_irrelevant : forall V (sem : N -> V -> V -> V -> V -> V) (zero : V) c caps cmin r1 s1 r2 s2 so1 so2 stim (m1 m2 : fmem),
  wf_netlist c -> comb_acyclic c -> (0 < cmin)%N -> KV.Proofs.EndToEnd.gates_known c ->
  (s1 = true \/ s2 = true -> KV.Proofs.ReuseStrip.forks_ok c /\ forall x b cc d, sem (lutv "BUF1") x b cc d = x) ->
  build c caps cmin r1 s1 = Some so1 -> build c caps cmin r2 s2 = Some so2 ->
  (forall x l, In x (so_init so1) -> so_loc so1 x = Some l -> m1 l = init_env zero c stim x) ->
  (forall x l, In x (so_init so2) -> so_loc so2 x = Some l -> m2 l = init_env zero c stim x) ->
  forall p, In p (so_final so1) -> In p (so_final so2) ->
    mread zero (so_loc so1) (mexec sem zero (so_loc so1) (so_ops so1) m1) p
    = mread zero (so_loc so2) (mexec sem zero (so_loc so2) (so_ops so2) m2) p.
Proof. intros V sem zero. exact (KV.Proofs.ReuseStrip.options_irrelevant sem zero). Qed.
(* ------------------------------------------------------------------------------------------------ *)
(** * Timing simulation: fork stripping with zero delay on fork inputs, delay-dataset selection *)
From Coq Require Import ZArith.
From KV Require Import Model.Time Model.WaveEval Model.WaveSpec Model.WaveOps Model.WaveAcc Model.WaveStripModel Model.NetlistSemGen.
From KV Require Proofs.WaveCore Proofs.WaveCircuit Proofs.WaveStrip.
Local Open Scope list_scope.

(** a zero-delay BUF1 evaluation (what an un-stripped fork is) over a well-formed, STRICTLY INCREASING waveform that has fewer
    transitions than the output region has entries stores that very waveform (terminator included), drops nothing and
    returns its transition counts *)
Theorem C06_buf_zero_delay_identity : forall w z1 z2 z3 d1 d2 d3 zreg r,
  WaveStrip.const0 z1 -> WaveStrip.const0 z2 -> WaveStrip.const0 z3 ->
  WaveCore.wf_args [w; z1; z2; z3] [dzero; d1; d2; d3] zreg ->
  strictly_increasing w -> ntrans w < List.length zreg ->
  wave_eval (lutv "BUF1") [w; z1; z2; z3] [dzero; d1; d2; d3] zreg = Some r ->
  upto_end (r_z r) = upto_end w /\ r_ovf r = 0 /\ (r_rise r, r_fall r) = edges w.
Proof. exact WaveStrip.buf1_zero_delay_identity. Qed.

(** ... with a region that is too small: the first cap-2 transitions, the last one iff the final value needs it, TMAX_OVL *)
Theorem C06_buf_zero_delay_overflow : forall w z1 z2 z3 d1 d2 d3 zreg r,
  WaveStrip.const0 z1 -> WaveStrip.const0 z2 -> WaveStrip.const0 z3 ->
  WaveCore.wf_args [w; z1; z2; z3] [dzero; d1; d2; d3] zreg ->
  strictly_increasing w -> List.length zreg <= ntrans w ->
  wave_eval (lutv "BUF1") [w; z1; z2; z3] [dzero; d1; d2; d3] zreg = Some r ->
  exists j, r_ovf r = S j /\
    ((ntrans w = List.length zreg + 2 * j /\ upto_end (r_z r) = firstn (List.length zreg - 2) w ++ [MaxOvl]) \/
     (ntrans w = List.length zreg + 2 * j + 1 /\
      upto_end (r_z r) = firstn (List.length zreg - 2) w ++ [wget w (ntrans w - 1); MaxOvl])).
Proof. exact WaveStrip.buf1_zero_delay_overflow. Qed.

(** ... and on a waveform that is NOT strictly increasing it is not the identity (known finding D26) *)
Theorem C06_buf_zero_delay_nonmonotone_refuted :
  exists w zreg r, wf_wave w /\ ntrans w < List.length zreg /\
    wave_eval (lutv "BUF1") [w; wzero; wzero; wzero] [dzero; dzero; dzero; dzero] zreg = Some r /\
    upto_end (r_z r) <> upto_end w /\ r_ovf r = 0 /\
    upto_end w = [Fin 42; Fin 8; Fin 46; MaxInf] /\ upto_end (r_z r) = [Fin 46; MaxInf].
Proof. exact WaveStrip.buf_zero_delay_nonmonotone_refuted. Qed.

(** the alias execution with the identity alias is the line-level semantics [wexec] of C03/C04/C13 *)
Theorem C06_wexec_alias_id : forall delays cap ops e, wexec_alias delays cap (fun x => x) ops e = wexec delays cap ops e.
Proof. exact WaveStrip.wexec_alias_id. Qed.

(** strip_forks clause, timing simulation: every well-formed acyclic netlist, zero delay on fork inputs, strictly increasing
    stem waveforms (in the unstripped run) that fit into the branch regions => the stripped schedule's waveform at the stem of
    every line = the unstripped schedule's waveform at that line *)
Theorem C06_wave_strip_forks_irrelevant : forall delays cap c stim len stems,
  WaveCircuit.good_delays delays -> WaveCircuit.good_caps cap -> (forall p, wf_wave (stim p)) -> (forall p, upto_end (stim p) = stim p) ->
  delays (List.length (c_lines c)) = dzero ->
  wf_netlist c -> comb_acyclic c -> List.length (c_lines c) <= len -> build_stems c true len = Some stems ->
  (forall n, n < List.length (c_nodes c) -> iface_pos c n = None -> is_fork (get_node c n) = true ->
     n_kind (get_node c n) = "__fork__"%string) ->
  (forall n, n < List.length (c_nodes c) -> iface_pos c n = None -> is_fork (get_node c n) = false ->
     select_lut kind_prefixes (n_kind (get_node c n)) (negb (is_some (pin (n_ins (get_node c n)) 2)))
                (negb (is_some (pin (n_ins (get_node c n)) 3))) <> None) ->
  (forall n, n < List.length (c_nodes c) -> is_dff (get_node c n) = true -> forall k o, 2 <= k -> pin (n_outs (get_node c n)) k = Some o -> False) ->
  (forall n, n < List.length (c_nodes c) -> iface_pos c n = None -> is_fork (get_node c n) = false ->
     forall k o, 1 <= k -> pin (n_outs (get_node c n)) k = Some o -> False) ->
  (forall n, n < List.length (c_nodes c) -> iface_pos c n = None -> is_fork (get_node c n) = true ->
     forall k, 1 <= k <= 3 -> pin (n_ins (get_node c n)) k = None) ->
  let e0 := init_env wzero c stim in
  let eu := wexec delays cap (build_ops c false) e0 in
  (forall n l0, n < List.length (c_nodes c) -> iface_pos c n = None -> is_fork (get_node c n) = true ->
     pin (n_ins (get_node c n)) 0 = Some l0 ->
     delays l0 = dzero /\ strictly_increasing (eu l0) /\
     forall k o, pin (n_outs (get_node c n)) k = Some o -> ntrans (eu l0) < cap o) ->
  forall l, l < List.length (c_lines c) ->
    wexec_alias delays cap (stemmed stems) (build_ops c true) e0 (stemmed stems l) = eu l.
Proof. exact WaveStrip.wave_strip_forks_irrelevant. Qed.

(** ... with polarity-free delays the condition on the stems follows from conditions on the inputs and the capacities *)
Theorem C06_wave_strip_forks_polfree : forall delays cap c stim len stems,
  WaveCircuit.good_delays delays -> WaveCircuit.good_caps cap -> (forall k, dtab_polfree (delays k)) ->
  (forall p, wf_wave (stim p)) -> (forall p, upto_end (stim p) = stim p) -> (forall p, strictly_increasing (stim p)) ->
  delays (List.length (c_lines c)) = dzero ->
  wf_netlist c -> comb_acyclic c -> List.length (c_lines c) <= len -> build_stems c true len = Some stems ->
  (forall n, n < List.length (c_nodes c) -> iface_pos c n = None -> is_fork (get_node c n) = true ->
     n_kind (get_node c n) = "__fork__"%string) ->
  (forall n, n < List.length (c_nodes c) -> iface_pos c n = None -> is_fork (get_node c n) = false ->
     select_lut kind_prefixes (n_kind (get_node c n)) (negb (is_some (pin (n_ins (get_node c n)) 2)))
                (negb (is_some (pin (n_ins (get_node c n)) 3))) <> None) ->
  (forall n, n < List.length (c_nodes c) -> is_dff (get_node c n) = true -> forall k o, 2 <= k -> pin (n_outs (get_node c n)) k = Some o -> False) ->
  (forall n, n < List.length (c_nodes c) -> iface_pos c n = None -> is_fork (get_node c n) = false ->
     forall k o, 1 <= k -> pin (n_outs (get_node c n)) k = Some o -> False) ->
  (forall n, n < List.length (c_nodes c) -> iface_pos c n = None -> is_fork (get_node c n) = true ->
     forall k, 1 <= k <= 3 -> pin (n_ins (get_node c n)) k = None) ->
  (forall n l0, n < List.length (c_nodes c) -> iface_pos c n = None -> is_fork (get_node c n) = true ->
     pin (n_ins (get_node c n)) 0 = Some l0 -> delays l0 = dzero) ->
  (forall n l0 k o, n < List.length (c_nodes c) -> iface_pos c n = None -> is_fork (get_node c n) = true ->
     pin (n_ins (get_node c n)) 0 = Some l0 -> pin (n_outs (get_node c n)) k = Some o -> cap l0 <= cap o) ->
  forall l, l < List.length (c_lines c) ->
    wexec_alias delays cap (stemmed stems) (build_ops c true) (init_env wzero c stim) (stemmed stems l)
    = wexec delays cap (build_ops c false) (init_env wzero c stim) l.
Proof. exact WaveStrip.wave_strip_forks_polfree. Qed.

(** ... and without the monotonicity hypothesis it is false (known finding D26) *)
Theorem C06_wave_strip_nonmonotone_refuted :
  exists delays cap c stim len stems l,
    WaveCircuit.good_delays delays /\ WaveCircuit.good_caps cap /\ (forall p, wf_wave (stim p)) /\ (forall p, upto_end (stim p) = stim p) /\
    delays (List.length (c_lines c)) = dzero /\
    wf_netlist c /\ comb_acyclic c /\ List.length (c_lines c) <= len /\ build_stems c true len = Some stems /\
    (forall n l0, n < List.length (c_nodes c) -> iface_pos c n = None -> is_fork (get_node c n) = true ->
       pin (n_ins (get_node c n)) 0 = Some l0 ->
       delays l0 = dzero /\
       forall k o, pin (n_outs (get_node c n)) k = Some o ->
         ntrans (wexec delays cap (build_ops c false) (init_env wzero c stim) l0) < cap o) /\
    l < List.length (c_lines c) /\
    wexec_alias delays cap (stemmed stems) (build_ops c true) (init_env wzero c stim) (stemmed stems l)
    <> wexec delays cap (build_ops c false) (init_env wzero c stim) l.
Proof. exact WaveStrip.wave_strip_nonmonotone_refuted. Qed.

(** dataset clause: a lane that selects its delay dataset globally (mode 0: the seed of c_prop) or per simulation (mode 1:
    simctl_int[0]) -- anew at every op evaluation, as _wave_eval does -- runs exactly as with that dataset alone *)
Theorem C06_dataset_selection : forall pick2 D cap mode seed ctl0 d ops,
  (1 < List.length D -> (mode = 0 /\ d = seed) \/ (mode = 1 /\ d = ctl0)) -> (List.length D <= 1 -> d = 0) ->
  forall e, wexec_sel pick2 D cap mode seed ctl0 ops e = wexec (dl_of (nth d D [])) cap ops e.
Proof. exact WaveStrip.dataset_selection. Qed.

Theorem C06_dataset_selection_lanes : forall pick2 D cap seed ctl ops es,
  1 < List.length D -> Forall (fun cm : nat * nat => snd cm <= 1) ctl ->
  wexec_lanes pick2 D cap seed ctl ops es
  = map (fun ce : (nat * nat) * wenv => wexec (dl_of (nth (WaveStrip.chosen seed (fst ce)) D [])) cap ops (snd ce)) (combine ctl es).
Proof. exact WaveStrip.dataset_selection_lanes. Qed.

(** timing simulation at MEMORY level: the compared model [wsim_case] captures the same six entries at every s_node under any two
    c_reuse x strip_forks combinations (zero delay on fork inputs, strictly increasing stems that fit the branch regions where
    forks are stripped; outside: C06_wave_strip_nonmonotone_refuted = known finding D26) *)
From KV Require Import Model.WaveSimModel Model.WaveGlue.
From KV Require Proofs.LogicSimGlue Proofs.WaveSimGlue.
Theorem C06_wavesim_options_irrelevant : forall c caps r1 s1 r2 s2 delays actrl1 actrl2 abuf_len s extra tcap,
  wf_netlist c -> comb_acyclic c -> KV.Proofs.EndToEnd.gates_known c -> List.length (c_lines c) <= List.length caps ->
  KV.Proofs.WaveSimGlue.extra_ok c extra ->
  let dl := dl_of delays in let cp := lcap (List.length (c_lines c)) caps in let e0 := wenv0 c s extra in
  (s1 = true \/ s2 = true -> build_stems c true (KV.Proofs.LogicSimGlue.std_len c) <> None /\ KV.Proofs.ReuseStrip.forks_ok c /\
       KV.Proofs.WaveSimGlue.forks_single c /\ KV.Proofs.WaveSimGlue.wave_inputs_ok c dl (stim_wave s extra) /\
       KV.Proofs.WaveSimGlue.strip_side c dl cp (wexec dl cp (build_ops c false) e0)) ->
  exists ra rb, wsim_case c caps r1 s1 delays actrl1 abuf_len s extra tcap = Some ra /\
                wsim_case c caps r2 s2 delays actrl2 abuf_len s extra tcap = Some rb /\ w_capt ra = w_capt rb.
Proof. exact KV.Proofs.WaveSimGlue.wavesim_options_irrelevant. Qed.

(** Source tie (T) for the launcher: Gen/LaunchSrc.v is regenerated from the text of class MockCuda (kyupy/__init__.py) on
    every run by translate/gen_launch.py (the loop nest of Launcher.__getitem__.inner as actions on the coordinates that
    cuda.grid returns; the decorator plumbing is compared with the expected syntax trees).  Whatever coordinates were left
    by an earlier launch, the translated loop nest starts exactly the instances of the hand model, in the same order; so
    every in-range instance runs exactly once in the code as written. *)
From KV Require Import Model.LaunchSrcLib Gen.LaunchSrc.
From KV Require Proofs.LaunchSrcProofs.
Theorem C06_launcher_source_is_model :
  (forall gx gy bx by_ st, fst (launch_src gx gy bx by_ st) = launch gx gy bx by_) /\
  (forall X Y bx by_ st, 0 < bx -> 0 < by_ ->
     let run := filter (fun p => Nat.ltb (fst p) X && Nat.ltb (snd p) Y)%bool (fst (launch_src (cdiv X bx) (cdiv Y by_) bx by_ st)) in
     NoDup run /\ (forall x y, In (x, y) run <-> (x < X /\ y < Y))).
Proof. exact KV.Proofs.LaunchSrcProofs.launcher_source_is_model. Qed.
Theorem C06_launcher_source_nonvacuous :
  fst (launch_src 2 1 2 3 launch_init_src) =
    [(0,0); (0,1); (0,2); (1,0); (1,1); (1,2); (2,0); (2,1); (2,2); (3,0); (3,1); (3,2)] /\
  filter (fun p => Nat.ltb (fst p) 3 && Nat.ltb (snd p) 3)%bool (fst (launch_src (cdiv 3 2) (cdiv 3 3) 2 3 launch_init_src)) =
    [(0,0); (0,1); (0,2); (1,0); (1,1); (1,2); (2,0); (2,1); (2,2)].
Proof. exact KV.Proofs.LaunchSrcProofs.launcher_source_example. Qed.
Print Assumptions C06_launcher_source_is_model.

(** CPU vs GPU KERNEL BODIES, from the source text.  Gen/WaveEvalSrc.v is regenerated on every run from wave_sim.py by
    translate/gen_wave_eval.py (fail-closed syntax-directed translation; every access to the waveform memory must be in the
    column of the kernel's own lane variable, so the generated functions see ONE lane).  wave_capture_cpu and the thread body
    of wave_capture_gpu -- restricted to sd = 0 -- are each proved equal to the model [capture] (the eight values that reach
    s[3..10]), hence to each other: the "CPU vs GPU capture" clause is a theorem about the two source texts.  The merge
    kernel _wave_eval is ONE function used by both paths (wave_eval_cpu = numba.njit(_wave_eval), _wave_eval_gpu =
    cuda.jit(_wave_eval, device=True)); its translation is proved equal to the model in C03_kernel_source_is_model. *)
From KV Require Import Model.Time Model.WaveEval Model.WaveSrcPrelude Gen.WaveEvalSrc.
From KV Require Proofs.WaveEvalSrcProofs Proofs.WaveSelectSrc.
Theorem C06_capture_cpu_source_is_model : forall tcap w,
  WaveCaptureCpuSrc.capture_src tcap w = KV.Proofs.WaveEvalSrcProofs.WaveCaptureCpuSrcProofs.model_result w tcap.
Proof. exact KV.Proofs.WaveEvalSrcProofs.WaveCaptureCpuSrcProofs.capture_source_is_model. Qed.

Theorem C06_capture_gpu_source_is_model : forall tcap w,
  WaveCaptureGpuSrc.capture_src tcap w = KV.Proofs.WaveEvalSrcProofs.WaveCaptureGpuSrcProofs.model_result w tcap.
Proof. exact KV.Proofs.WaveEvalSrcProofs.WaveCaptureGpuSrcProofs.capture_source_is_model. Qed.

Theorem C06_capture_cpu_gpu_same_source_model : forall tcap w,
  WaveCaptureCpuSrc.capture_src tcap w = WaveCaptureGpuSrc.capture_src tcap w.
Proof. exact KV.Proofs.WaveEvalSrcProofs.capture_cpu_gpu_same. Qed.

Theorem C06_capture_source_example :
  WaveCaptureCpuSrc.capture_src (Fin 6) [MinInf; Fin 3; Fin 7; Fin 9; MaxOvl; MaxInf] =
    (true, Fin 3, Fin 9, 0%Z, 0%Z, 0%Z, 0%Z, 1%Z) /\
  WaveCaptureGpuSrc.capture_src (Fin 6) [Fin 2; Fin 5; Fin 8; MaxInf] = (false, Fin 2, Fin 8, 1%Z, 0%Z, 0%Z, 0%Z, 0%Z).
Proof. exact KV.Proofs.WaveEvalSrcProofs.capture_source_example. Qed.

(** the dataset selection of the source (the `if len(delays) > 1:` prologue of _wave_eval, shape pinned by the translator) is the
    [select_idx] of the dataset theorems above, its mode-2 parameter being the source's four LCG rounds *)
Theorem C06_select_source_is_model : forall nd mode seed ctl0 zidx,
  WaveEvalSrc.select_idx_src (Z.of_nat nd) (Z.of_nat mode) (Z.of_nat seed) (Z.of_nat ctl0) (Z.of_nat zidx) =
  Z.of_nat (select_idx KV.Proofs.WaveSelectSrc.pick2_src nd mode seed ctl0 zidx).
Proof. exact KV.Proofs.WaveSelectSrc.select_idx_src_is_model. Qed.

(** DRIVER CODE OF THE TIMING SIMULATOR, from the source text (round 4).  Gen/WaveDriversSrc.v is regenerated on every run from
    wave_sim.py (and the index lists of sim.py) by translate/gen_wave_drivers.py: the GPU kernels wave_assign_gpu, ppo_to_ppi_gpu,
    wave_eval_gpu, the launch prefix / write-back of wave_capture_gpu and the loop nest of level_eval_cpu are translated statement
    by statement as the semantics of ONE instance (thread (x, y) / iteration (op_idx, sim)) on ONE lane (Model/WaveDrvPrelude.v
    [lane] = the columns c[:, l], s[:, :, l], abuf[:, l], simctl_int[:, l]); every array access must be in the column of the
    kernel's own lane variable.  The vectorised numpy statements of WaveSim.s_to_c / s_ppo_to_ppi, the loop of WaveSim.c_to_s, both
    c_prop methods, the launching methods of WaveSimCuda and the index lists of SimOps.__init__ are pinned as exact syntax trees;
    their per-lane meaning is stated in Model/WaveDrvPrelude.v (trusted). *)
From KV Require Import Model.WaveDrvPrelude Gen.WaveDriversSrc.
From KV Require Proofs.WaveLaneRun Proofs.WaveDriversProofs.

(** lane independence of the WHOLE timing simulator: whatever instance function f (every translated kernel is one) and whatever
    instance sequence, lane l afterwards = lane l's own instances, in their order, applied to lane l's initial columns; two
    simulator states that agree on lane l still agree on lane l afterwards *)
Theorem C06_kernels_lane_run : forall A (f : nat -> nat -> A -> A) ts st l,
  nth_error (run_insts f ts st) l
  = option_map (fun a => fold_left (fun a' y => f l y a') (KV.Proofs.WaveLaneRun.ys_of l ts) a) (nth_error st l).
Proof. exact (@KV.Proofs.WaveLaneRun.run_insts_lane). Qed.
Theorem C06_kernels_lane_local : forall A (f : nat -> nat -> A -> A) ts st1 st2 l,
  nth_error st1 l = nth_error st2 l -> nth_error (run_insts f ts st1) l = nth_error (run_insts f ts st2) l.
Proof. exact (@KV.Proofs.WaveLaneRun.run_insts_lane_local). Qed.

(** composition with C06_launcher_source_is_model / C06_gpu_threads_cover: a kernel whose out-of-range threads do nothing, run
    over the thread sequence of the TRANSLATED launcher, = the CPU loop nest `for y in range(Y): for l in range(X)` *)
Theorem C06_launch_is_cpu_loop : forall A (f : nat -> nat -> A -> A) X Y bx by_ st0 (st : list A),
  0 < bx -> 0 < by_ -> List.length st <= X -> (forall x y a, (X <= x \/ Y <= y) -> f x y a = a) ->
  run_insts f (fst (launch_src (cdiv X bx) (cdiv Y by_) bx by_ st0)) st = run_insts f (cpu_order (seq 0 Y) X) st.
Proof. exact (@KV.Proofs.WaveDriversProofs.launch_src_is_cpu_loop). Qed.
Theorem C06_level_order_is_cpu_order : forall op_start n_ops n_sims,
  LevelEvalCpuSrc.order_src op_start n_ops 0 n_sims = cpu_order (seq op_start n_ops) n_sims.
Proof. exact KV.Proofs.WaveDriversProofs.level_order_is_cpu_order. Qed.

(** ASSIGN (s_to_c).  One thread of wave_assign_gpu = one step of the model's s_to_c on the lane's column ... *)
Theorem C06_assign_gpu_instance_is_model : forall so nsims x y L, y < so_slen so -> x < nsims ->
  WaveAssignGpuSrc.inst_src (so_locs so) (Z.of_nat (so_nlines so + 3)) (Z.of_nat (so_slen so)) (Z.of_nat nsims) (Z.of_nat x) (Z.of_nat y) L
  = set_c L (KV.Proofs.WaveDriversProofs.assign_step so (l_c L) y (KV.Proofs.WaveDriversProofs.s_dec_gpu L y)).
Proof. exact KV.Proofs.WaveDriversProofs.assign_gpu_inst_is_model. Qed.
(** ... all threads of a lane in launch order = Model/WaveSimModel.v [w_s_to_c] ... *)
Theorem C06_assign_gpu_lane_is_model : forall so nsims x L, x < nsims ->
  fold_left (fun L' y => WaveAssignGpuSrc.inst_src (so_locs so) (Z.of_nat (so_nlines so + 3)) (Z.of_nat (so_slen so)) (Z.of_nat nsims)
                            (Z.of_nat x) (Z.of_nat y) L') (seq 0 (so_slen so)) L
  = set_c L (w_s_to_c so (map (KV.Proofs.WaveDriversProofs.s_dec_gpu L) (seq 0 (so_slen so))) (l_c L)).
Proof. exact KV.Proofs.WaveDriversProofs.assign_gpu_lane_is_model. Qed.
(** ... and WaveSimCuda.s_to_c (the kernel over the translated launcher's whole thread sequence, block (32, 16)) leaves EVERY lane as
    the three vectorised passes of WaveSim.s_to_c do -- given that the three-entry windows of the PI / PPI slots are pairwise
    disjoint (each slot is its own allocation of c_caps_min = 4 entries) and the stimulus values are read alike by `!= 0` and
    `>= 0.5` (true for 0 and 1) *)
Theorem C06_assign_cpu_gpu_same_source_model : forall so n_io st0 (st : list lane),
  n_io <= so_slen so -> KV.Proofs.WaveDriversProofs.windows_disjoint so -> Forall (KV.Proofs.WaveDriversProofs.s_bits_ok so) st ->
  let nsims := List.length st in
  run_insts (fun x y L => WaveAssignGpuSrc.inst_src (so_locs so) (Z.of_nat (so_nlines so + 3)) (Z.of_nat (so_slen so)) (Z.of_nat nsims)
                            (Z.of_nat x) (Z.of_nat y) L)
            (fst (launch_src (cdiv nsims 32) (cdiv (so_slen so) 16) 32 16 st0)) st
  = map (s_to_c_cpu (so_locs so) (Z.of_nat (so_nlines so + 3)) n_io (so_slen so)) st.
Proof. exact KV.Proofs.WaveDriversProofs.assign_launch_is_cpu. Qed.
Theorem C06_assign_hyps_example :
  KV.Proofs.WaveDriversProofs.windows_disjoint KV.Proofs.WaveDriversProofs.ex_so /\
  KV.Proofs.WaveDriversProofs.s_bits_ok KV.Proofs.WaveDriversProofs.ex_so KV.Proofs.WaveDriversProofs.ex_lane /\
  l_c (s_to_c_cpu (so_locs KV.Proofs.WaveDriversProofs.ex_so) 3 1 2 KV.Proofs.WaveDriversProofs.ex_lane) =
    [Fin 1; MaxInf; MaxInf; MaxInf; MaxInf; MaxInf; MaxInf; MaxInf; MaxInf; MaxInf; MaxInf; MaxInf;
     Fin 5; MaxInf; MaxInf; MaxInf; MinInf; Fin 7; MaxInf; MaxInf].
Proof. exact KV.Proofs.WaveDriversProofs.s_to_c_hyps_example. Qed.
(** the condition on the stimulus values is needed: -1 is a 1 for the CPU statement and a 0 for the GPU kernel *)
Theorem C06_assign_bits_needed :
  s_to_c_cpu (so_locs KV.Proofs.WaveDriversProofs.ex_so) 3 1 2 KV.Proofs.WaveDriversProofs.ex_lane_neg <>
  fold_left (fun L' y => WaveAssignGpuSrc.inst_src (so_locs KV.Proofs.WaveDriversProofs.ex_so) 3 2 1 0 (Z.of_nat y) L') (seq 0 2)
            KV.Proofs.WaveDriversProofs.ex_lane_neg.
Proof. exact KV.Proofs.WaveDriversProofs.s_to_c_bits_needed. Qed.

(** STATE TRANSFER (s_ppo_to_ppi) -- PARTIAL.  Proved: one thread of ppo_to_ppi_gpu at a position with both slots = the three stores
    of the CPU statements at that position, every other thread does nothing.  NOT proved as one theorem: that the three
    vectorised passes of WaveSim.s_ppo_to_ppi over its position list equal the per-position stores (the argument of
    C06_assign_cpu_gpu_same_source_model: stores to pairwise different places commute); and the position lists DIFFER --
    C06_state_transfer_io_position_refuted. *)
Theorem C06_state_transfer_gpu_instance_partial : forall locs t ppi ppo slen nsims x y L, (y < slen)%Z -> (x < nsims)%Z ->
  PpoToPpiGpuSrc.inst_src locs t ppi ppo slen nsims x y L =
  if ((0 <=? zrd (-1) locs (ppi + y)) && (0 <=? zrd (-1) locs (ppo + y)))%Z
  then (let L := s_wr L 0 y (s_rd L 2 y) in let L := s_wr L 1 y t in s_wr L 2 y (s_rd L 8 y)) else L.
Proof. exact KV.Proofs.WaveDriversProofs.ppo_to_ppi_gpu_inst. Qed.
Theorem C06_state_transfer_gpu_out_of_range : forall locs t ppi ppo slen nsims x y L, (slen <= y \/ nsims <= x)%Z ->
  PpoToPpiGpuSrc.inst_src locs t ppi ppo slen nsims x y L = L.
Proof. exact KV.Proofs.WaveDriversProofs.ppo_to_ppi_gpu_out_of_range. Qed.
(** FINDING (D37): at a PRIMARY-IO position that owns both a PI and a PO slot the GPU kernel transfers, the CPU method does not *)
Theorem C06_state_transfer_io_position_refuted :
  s_ppo_to_ppi_cpu (so_locs KV.Proofs.WaveDriversProofs.ex_so) 3 5 2 2 (Fin 9) KV.Proofs.WaveDriversProofs.ex_lane <>
  fold_left (fun L' y => PpoToPpiGpuSrc.inst_src (so_locs KV.Proofs.WaveDriversProofs.ex_so) (Fin 9) 3 5 2 1 0 (Z.of_nat y) L') (seq 0 2)
            KV.Proofs.WaveDriversProofs.ex_lane.
Proof. exact KV.Proofs.WaveDriversProofs.ppo_to_ppi_io_position_refuted. Qed.
Theorem C06_state_transfer_example :
  s_ppo_to_ppi_cpu (so_locs KV.Proofs.WaveDriversProofs.ex_so) 3 5 0 2 (Fin 9) KV.Proofs.WaveDriversProofs.ex_lane =
  fold_left (fun L' y => PpoToPpiGpuSrc.inst_src (so_locs KV.Proofs.WaveDriversProofs.ex_so) (Fin 9) 3 5 2 1 0 (Z.of_nat y) L') (seq 0 2)
            KV.Proofs.WaveDriversProofs.ex_lane /\
  l_s (s_ppo_to_ppi_cpu (so_locs KV.Proofs.WaveDriversProofs.ex_so) 3 5 0 2 (Fin 9) KV.Proofs.WaveDriversProofs.ex_lane) =
    KV.Proofs.WaveDriversProofs.ex_rows [Fin 1; Fin 1] [Fin 9; Fin 7] [Fin 1; Fin 0] [Fin 1; Fin 1].
Proof. exact KV.Proofs.WaveDriversProofs.ppo_to_ppi_state_position_example. Qed.

(** PROPAGATION + ACCUMULATION (c_prop).  One iteration (op_idx, sim) of level_eval_cpu and thread (x, y) of wave_eval_gpu (lane
    sim_start + x, op op_start + y) are BOTH the model step: [wprop1] (the merge kernel on the op's regions, with the dataset the
    lane selects) followed by [addZ_at] of nrise * a_wr + nfall * a_wf into abuf[a_loc] if a_loc >= 0; hence they are equal
    (`abuf[a_loc, sim] += v` = `cuda.atomic.add(abuf, (a_loc, sim), v)`).  Integer weights and unbounded accumulators: a_ctrl is
    an integer array and abuf is int32 -- float weights / int32 wrap-around are outside the model.  The output region must
    hold >= 2 entries (SimOps allocates >= 4). *)
Theorem C06_eval_cpu_instance_is_model : forall so ops D seed sim i o a L,
  nth i ops [] = KV.Proofs.WaveDriversProofs.op_row o a -> KV.Proofs.WaveDriversProofs.out_cap_ok so (l_c L) o ->
  LevelEvalCpuSrc.inst_src ops (so_locs so) (KV.Proofs.WaveDriversProofs.caps_z so) D seed sim (Z.of_nat i) L
  = KV.Proofs.WaveDriversProofs.lane_eval_step so D seed o a L.
Proof. exact KV.Proofs.WaveDriversProofs.level_eval_cpu_inst_is_model. Qed.
Theorem C06_accumulate_cpu_gpu_same_source_model : forall so ops D seed op_start n_ops sim_start n_sims x y o a L,
  x < n_sims -> y < n_ops -> nth (op_start + y) ops [] = KV.Proofs.WaveDriversProofs.op_row o a ->
  KV.Proofs.WaveDriversProofs.out_cap_ok so (l_c L) o ->
  WaveEvalGpuSrc.inst_src ops (so_locs so) (KV.Proofs.WaveDriversProofs.caps_z so) D (Z.of_nat op_start) (Z.of_nat (op_start + n_ops))
    (Z.of_nat sim_start) (Z.of_nat (sim_start + n_sims)) seed (Z.of_nat x) (Z.of_nat y) L
  = LevelEvalCpuSrc.inst_src ops (so_locs so) (KV.Proofs.WaveDriversProofs.caps_z so) D seed (Z.of_nat (sim_start + x)) (Z.of_nat (op_start + y)) L.
Proof. exact KV.Proofs.WaveDriversProofs.eval_cpu_gpu_same_inst. Qed.
Theorem C06_eval_gpu_out_of_range : forall ops locs caps D op_start op_stop sim_start sim_stop seed x y L,
  (sim_stop <= sim_start + x \/ op_stop <= op_start + y)%Z ->
  WaveEvalGpuSrc.inst_src ops locs caps D op_start op_stop sim_start sim_stop seed x y L = Some L.
Proof. exact KV.Proofs.WaveDriversProofs.eval_gpu_inst_out_of_range. Qed.
Theorem C06_eval_instance_example :
  KV.Proofs.WaveDriversProofs.out_cap_ok KV.Proofs.WaveDriversProofs.ex_so (l_c KV.Proofs.WaveDriversProofs.ex_lane) KV.Proofs.WaveDriversProofs.ex_op /\
  exists L', LevelEvalCpuSrc.inst_src [KV.Proofs.WaveDriversProofs.op_row KV.Proofs.WaveDriversProofs.ex_op (0, 3, 5)%Z]
               (so_locs KV.Proofs.WaveDriversProofs.ex_so) (KV.Proofs.WaveDriversProofs.caps_z KV.Proofs.WaveDriversProofs.ex_so)
               [[dzero; dzero; dzero]] 1 0 0 KV.Proofs.WaveDriversProofs.ex_lane = Some L' /\
             l_abuf L' = [3%Z] /\ firstn 8 (l_c L') = [Fin 1; MaxInf; MaxInf; MaxInf; Fin 1; MaxInf; MaxInf; MaxInf] /\
             WaveEvalGpuSrc.inst_src [KV.Proofs.WaveDriversProofs.op_row KV.Proofs.WaveDriversProofs.ex_op (0, 3, 5)%Z]
               (so_locs KV.Proofs.WaveDriversProofs.ex_so) (KV.Proofs.WaveDriversProofs.caps_z KV.Proofs.WaveDriversProofs.ex_so)
               [[dzero; dzero; dzero]] 0 1 0 1 1 0 0 KV.Proofs.WaveDriversProofs.ex_lane = Some L'.
Proof. exact KV.Proofs.WaveDriversProofs.eval_inst_example. Qed.

(** CAPTURE (c_to_s), sd = 0.  Thread (x, y) of wave_capture_gpu -- launch prefix, the translated capture loop, the eight stores
    s[3..10, y, vector] -- = one iteration (s_loc = y, vector) of the CPU loop (wave_capture_cpu's eight values assigned to
    s[3:, s_loc, vector]) wherever the position owns a PPO slot; elsewhere the thread does nothing and the CPU loop does not visit *)
Theorem C06_capture_writeback_cpu_gpu_same_source_model : forall so nsims tcap x y L, x < nsims ->
  (0 <= zrd (-1) (so_locs so) (Z.of_nat (so_nlines so + 3 + so_slen so) + Z.of_nat y))%Z ->
  WaveCaptureGpuDrvSrc.inst_src (so_locs so) (KV.Proofs.WaveDriversProofs.caps_z so) tcap (Z.of_nat (so_nlines so + 3 + so_slen so))
    (Z.of_nat nsims) (Z.of_nat x) (Z.of_nat y) L
  = c_to_s_cpu_inst WaveCaptureCpuSrc.capture_src (so_locs so) (KV.Proofs.WaveDriversProofs.caps_z so)
      (Z.of_nat (so_nlines so + 3 + so_slen so)) tcap (Z.of_nat y) L.
Proof. exact KV.Proofs.WaveDriversProofs.capture_cpu_gpu_same_inst. Qed.
Theorem C06_capture_gpu_no_slot : forall so nsims tcap x y L,
  (zrd (-1) (so_locs so) (Z.of_nat (so_nlines so + 3 + so_slen so) + Z.of_nat y) < 0)%Z ->
  WaveCaptureGpuDrvSrc.inst_src (so_locs so) (KV.Proofs.WaveDriversProofs.caps_z so) tcap (Z.of_nat (so_nlines so + 3 + so_slen so))
    (Z.of_nat nsims) (Z.of_nat x) (Z.of_nat y) L = L.
Proof. exact KV.Proofs.WaveDriversProofs.capture_gpu_inst_no_slot. Qed.
Theorem C06_capture_instance_example :
  l_s (WaveCaptureGpuDrvSrc.inst_src (so_locs KV.Proofs.WaveDriversProofs.ex_so) (KV.Proofs.WaveDriversProofs.caps_z KV.Proofs.WaveDriversProofs.ex_so)
         (Fin 3) 5 1 0 0
         (set_c KV.Proofs.WaveDriversProofs.ex_lane ([Fin 1; MaxInf; MaxInf; MaxInf; Fin 2; MaxInf; MaxInf; MaxInf] ++ repeat MaxInf 12)))
  = [[Fin 0; Fin 1]; [Fin 5; Fin 7]; [Fin 1; Fin 0]; [Fin 0; Fin 0]; [Fin 2; Fin 0]; [Fin 2; Fin 0]; [Fin 1; Fin 0]; [Fin 1; Fin 0];
     [Fin 1; Fin 1]; [Fin 0; Fin 0]; [Fin 0; Fin 0]].
Proof. exact KV.Proofs.WaveDriversProofs.capture_inst_example. Qed.

(** STATE TRANSFER over the WHOLE launch (round 4b; closes the gap noted at C06_state_transfer_gpu_instance_partial).
    WaveSim.s_ppo_to_ppi makes three vectorised passes over its position list (s[0,locs] = s[2,locs]; s[1,locs] = time;
    s[2,locs] = s[8,locs]); they equal the three stores of ONE position, executed position by position -- no side condition: the
    position list is a filter of a range, so the stores of different (row, position) pairs commute and every right-hand side
    is the value at the start. *)
From KV Require Proofs.WaveStateTransfer.
Theorem C06_state_transfer_cpu_is_per_position : forall c_locs ppi ppo n_io s_len t L,
  s_ppo_to_ppi_cpu c_locs ppi ppo n_io s_len t L
  = fold_left (fun L' y => let L1 := s_wr L' 0 y (s_rd L' 2 y) in let L2 := s_wr L1 1 y t in s_wr L2 2 y (s_rd L2 8 y))
              (ppo_to_ppi_locs c_locs ppi ppo n_io s_len) L.
Proof. exact KV.Proofs.WaveStateTransfer.s_ppo_to_ppi_cpu_is_per_position. Qed.
(** WaveSimCuda.s_ppo_to_ppi -- ppo_to_ppi_gpu over the thread sequence of the TRANSLATED launcher (block (32, 16), out-of-range
    threads included) -- leaves EVERY lane as WaveSim.s_ppo_to_ppi does, provided no primary-IO position (y < n_io) owns both
    a PI and a PO slot: then both twins visit exactly the state elements with both slots ... *)
Theorem C06_state_transfer_cpu_gpu_same_source_model : forall c_locs t ppi ppo n_io s_len st0 (st : list lane),
  n_io <= s_len -> KV.Proofs.WaveStateTransfer.no_io_both c_locs ppi ppo n_io ->
  let nsims := List.length st in
  run_insts (fun x y L => PpoToPpiGpuSrc.inst_src c_locs t ppi ppo (Z.of_nat s_len) (Z.of_nat nsims) (Z.of_nat x) (Z.of_nat y) L)
            (fst (launch_src (cdiv nsims 32) (cdiv s_len 16) 32 16 st0)) st
  = map (s_ppo_to_ppi_cpu c_locs ppi ppo n_io s_len t) st.
Proof. exact KV.Proofs.WaveStateTransfer.state_transfer_launch_is_cpu. Qed.
(** ... and without that condition (the stated exception C06_state_transfer_io_position_refuted) the two twins still leave the
    same s[k, y] at EVERY state-element position y >= n_io and the same c / abuf / simctl columns, on every lane: the extra
    stores of the GPU kernel touch the stimulus rows of primary-IO positions only *)
Theorem C06_state_transfer_cpu_gpu_state_positions : forall c_locs t ppi ppo n_io s_len st0 (st : list lane),
  n_io <= s_len ->
  let nsims := List.length st in
  let gpu := run_insts (fun x y L => PpoToPpiGpuSrc.inst_src c_locs t ppi ppo (Z.of_nat s_len) (Z.of_nat nsims) (Z.of_nat x) (Z.of_nat y) L)
                       (fst (launch_src (cdiv nsims 32) (cdiv s_len 16) 32 16 st0)) st in
  let cpu := map (s_ppo_to_ppi_cpu c_locs ppi ppo n_io s_len t) st in
  List.length gpu = List.length cpu /\
  forall l Lg Lc, nth_error gpu l = Some Lg -> nth_error cpu l = Some Lc ->
    l_c Lg = l_c Lc /\ l_abuf Lg = l_abuf Lc /\ l_ctl0 Lg = l_ctl0 Lc /\ l_mode Lg = l_mode Lc /\
    forall k y, n_io <= y -> s_rd Lg k (Z.of_nat y) = s_rd Lc k (Z.of_nat y).
Proof. exact KV.Proofs.WaveStateTransfer.state_transfer_launch_state_positions. Qed.
(** the hypotheses are satisfiable (two lanes, position 0 owns both slots and is a state element), and the condition is the
    one that fails in C06_state_transfer_io_position_refuted *)
Theorem C06_state_transfer_launch_example :
  KV.Proofs.WaveStateTransfer.no_io_both (so_locs KV.Proofs.WaveDriversProofs.ex_so) 3 5 0 /\
  run_insts (fun x y L => PpoToPpiGpuSrc.inst_src (so_locs KV.Proofs.WaveDriversProofs.ex_so) (Fin 9) 3 5 2 2 (Z.of_nat x) (Z.of_nat y) L)
            (fst (launch_src (cdiv 2 32) (cdiv 2 16) 32 16 launch_init_src))
            [KV.Proofs.WaveDriversProofs.ex_lane; KV.Proofs.WaveStateTransfer.ex_lane2]
  = map (s_ppo_to_ppi_cpu (so_locs KV.Proofs.WaveDriversProofs.ex_so) 3 5 0 2 (Fin 9))
        [KV.Proofs.WaveDriversProofs.ex_lane; KV.Proofs.WaveStateTransfer.ex_lane2] /\
  map l_s (map (s_ppo_to_ppi_cpu (so_locs KV.Proofs.WaveDriversProofs.ex_so) 3 5 0 2 (Fin 9))
               [KV.Proofs.WaveDriversProofs.ex_lane; KV.Proofs.WaveStateTransfer.ex_lane2])
  = [KV.Proofs.WaveDriversProofs.ex_rows [Fin 1; Fin 1] [Fin 9; Fin 7] [Fin 1; Fin 0] [Fin 1; Fin 1];
     KV.Proofs.WaveDriversProofs.ex_rows [Fin 0; Fin 1] [Fin 9; Fin 3] [Fin 0; Fin 1] [Fin 0; Fin 0]].
Proof. exact KV.Proofs.WaveStateTransfer.state_transfer_launch_example. Qed.
Theorem C06_state_transfer_io_condition_needed :
  ~ KV.Proofs.WaveStateTransfer.no_io_both (so_locs KV.Proofs.WaveDriversProofs.ex_so) 3 5 2.
Proof. exact KV.Proofs.WaveStateTransfer.no_io_both_needed. Qed.

(** WHOLE PROPAGATION, CPU = GPU as ONE theorem (round 4b; closes "instance + launch-order theorems, not composed").
    Proofs/WaveCProp.v: [gpu_c_prop] = WaveSimCuda.c_prop -- for every (op_start, op_stop) of the level list, wave_eval_gpu run over the
    thread sequence of the TRANSLATED launcher with grid _grid_dim(sims, op_stop - op_start), block (32, 16), the launcher's
    coordinate state carried from launch to launch; [cpu_c_prop] = WaveSim.c_prop -- the loop nest of level_eval_cpu per level;
    k = `sims` (propagation restricted to the first k lanes), a lane is None once a kernel call exceeded its loop bound (never:
    C03_source_total).  An in-range thread (x, y) IS the loop iteration (op_start + y, x): both call the same translated kernel
    wrapper on the same ops row -- so NO condition on capacities, tables or states is needed (the side condition out_cap_ok of
    C06_accumulate_cpu_gpu_same_source_model came from going through the model and is not needed for CPU = GPU). *)
From KV Require Proofs.WaveCProp.
Theorem C06_eval_gpu_instance_is_cpu_instance : forall ops locs caps D seed op_start op_stop k x y sim L,
  x < k -> op_start + y < op_stop ->
  WaveEvalGpuSrc.inst_src ops locs caps D (Z.of_nat op_start) (Z.of_nat op_stop) 0 (Z.of_nat k) seed (Z.of_nat x) (Z.of_nat y) L
  = LevelEvalCpuSrc.inst_src ops locs caps D seed sim (Z.of_nat (op_start + y)) L.
Proof. exact KV.Proofs.WaveCProp.eval_gpu_inst_is_cpu_inst. Qed.
Theorem C06_c_prop_cpu_gpu_same_source_model : forall ops locs caps D seed k (lv : list (nat * nat)) (st : list (option lane)) lst,
  KV.Proofs.WaveCProp.gpu_c_prop ops locs caps D seed k lv st lst = KV.Proofs.WaveCProp.cpu_c_prop ops locs caps D seed k lv st.
Proof. exact KV.Proofs.WaveCProp.c_prop_cpu_gpu_same. Qed.
(** what the loop nest does to the whole state: lane l < k sees all ops of all levels in order, the other lanes are not touched *)
Theorem C06_c_prop_lane : forall ops locs caps D seed k lv (st : list (option lane)) l,
  nth_error (KV.Proofs.WaveCProp.cpu_c_prop ops locs caps D seed k lv st) l
  = option_map (fun oL => if Nat.ltb l k
                          then fold_left (fun a i => KV.Proofs.WaveCProp.f_cpu ops locs caps D seed l i a) (KV.Proofs.WaveCProp.level_ops lv) oL
                          else oL) (nth_error st l).
Proof. exact KV.Proofs.WaveCProp.cpu_c_prop_lane. Qed.
(** the level boundaries SimOps publishes (level_stops = level_starts[1:] + [len(ops)]) cut range(len(ops)) into consecutive ranges *)
Theorem C06_level_ranges_cover : forall stems ops len,
  KV.Proofs.WaveCProp.level_ops (KV.Proofs.WaveCProp.level_ranges (rev (ls_starts (levelize stems ops len))) (List.length ops))
  = seq 0 (List.length ops).
Proof. exact KV.Proofs.WaveCProp.level_ranges_cover. Qed.
(** FOR EVERY build() RESULT (capacities >= cmin >= 2; WaveSim: cmin = 4): over the published levels both c_prop methods leave every
    lane l < k as the MODEL steps do in op order -- [lane_c_prop] = Model/WaveSimModel.v [wprop1] with the dataset the lane selects +
    accumulation, i.e. [w_c_prop] when the selection does not depend on the op (C06_c_prop_model_is_w_c_prop).  The side condition
    out_cap_ok of the instance theorems holds for every op in every intermediate state: the output regions lie inside the memory and
    hold >= cmin entries (C03_build_regions_all), and the memory length is invariant under the steps. *)
Theorem C06_c_prop_build_is_model : forall c caps cmin reuse strip so D seed actrl k (st : list (option lane)) lst,
  wf_netlist c -> comb_acyclic c -> (2 <= cmin)%N -> KV.Proofs.EndToEnd.gates_known c -> (strip = true -> KV.Proofs.ReuseStrip.forks_ok c) ->
  build c caps cmin reuse strip = Some so ->
  Forall (fun oL => forall L, oL = Some L -> List.length (l_c L) = N.to_nat (so_len so)) st ->
  let T := KV.Proofs.WaveCProp.ops_table so actrl in
  let lv := KV.Proofs.WaveCProp.level_ranges (so_level_starts so) (List.length (so_ops so)) in
  let gpu := KV.Proofs.WaveCProp.gpu_c_prop T (so_locs so) (KV.Proofs.WaveDriversProofs.caps_z so) D seed k lv st lst in
  let cpu := KV.Proofs.WaveCProp.cpu_c_prop T (so_locs so) (KV.Proofs.WaveDriversProofs.caps_z so) D seed k lv st in
  gpu = cpu /\
  forall l, nth_error cpu l
            = option_map (fun oL => if Nat.ltb l k then KV.Proofs.WaveCProp.lane_c_prop so D seed actrl oL else oL) (nth_error st l).
Proof. exact KV.Proofs.WaveCProp.c_prop_build_is_model. Qed.
Theorem C06_c_prop_model_is_w_c_prop : forall so D seed actrl delays L,
  (forall z, KV.Proofs.WaveDriversProofs.lane_sel D seed L z = delays) ->
  KV.Proofs.WaveCProp.lane_c_prop so D seed actrl (Some L)
  = option_map (fun st : wmem * list Z => set_abuf (set_c L (fst st)) (snd st)) (w_c_prop so delays actrl (l_c L) (l_abuf L)).
Proof. exact KV.Proofs.WaveCProp.lane_c_prop_is_w_c_prop. Qed.
(** non-vacuity: the fork netlist of C06_wave_strip example, strip_forks on, two lanes with different stimuli, propagation restricted
    to the first lane, launcher state left at (5, 7) by an earlier launch *)
Theorem C06_c_prop_example :
  exists so, build KV.Proofs.WaveStrip.StripWaveExample.cxw (repeat 8%N 6) 4%N true true = Some so /\
    let mk := KV.Proofs.WaveCProp.CPropExample.mk in let actrl3 := KV.Proofs.WaveCProp.CPropExample.actrl3 in
    let ss := KV.Proofs.WaveSimGlue.WaveGlueExample.ss in let ex := KV.Proofs.WaveSimGlue.WaveGlueExample.ex in
    let dls := KV.Proofs.WaveSimGlue.WaveGlueExample.dls in let ss1 := KV.Proofs.WaveCProp.CPropExample.ss1 in
    let st := [Some (mk so ss ex); Some (mk so ss1 [])] in
    let lv := KV.Proofs.WaveCProp.level_ranges (so_level_starts so) (List.length (so_ops so)) in
    let T := KV.Proofs.WaveCProp.ops_table so actrl3 in
    let gpu := KV.Proofs.WaveCProp.gpu_c_prop T (so_locs so) (KV.Proofs.WaveDriversProofs.caps_z so) [dls] 1 1 lv st (5, 7) in
    let cpu := KV.Proofs.WaveCProp.cpu_c_prop T (so_locs so) (KV.Proofs.WaveDriversProofs.caps_z so) [dls] 1 1 lv st in
    gpu = cpu /\ lv = [(0, 1); (1, 2); (2, 3)] /\
    nth_error cpu 0 = Some (KV.Proofs.WaveCProp.lane_c_prop so [dls] 1 actrl3 (Some (mk so ss ex))) /\
    nth_error cpu 1 = Some (Some (mk so ss1 [])) /\
    map (option_map l_abuf) cpu = [Some [3; 3; 3]%Z; Some [0; 0; 0]%Z] /\
    KV.Proofs.WaveCProp.lane_c_prop so [dls] 1 actrl3 (Some (mk so ss ex))
    = option_map (fun st : wmem * list Z => set_abuf (set_c (mk so ss ex) (fst st)) (snd st))
                 (w_c_prop so dls actrl3 (l_c (mk so ss ex)) (l_abuf (mk so ss ex))).
Proof. exact KV.Proofs.WaveCProp.CPropExample.cxw_c_prop. Qed.
