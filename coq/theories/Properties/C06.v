(** C06 -- results do not depend on performance options, lane position or code path. Statements only.
    Proved here: the code-path clause for the mock GPU launcher (every kernel instance inside the bounds
    runs exactly once), the irrelevance of the order in which a level's released memory is freed, and lane
    independence of the bit-parallel logic kernels.  The option clauses are decided by correspondence. *)
From Coq Require Import List NArith Arith Bool.
From KV Require Import Model.Launch Model.Bits Model.Heap Model.HeapInv Proofs.LaunchProofs Proofs.BitsLift Proofs.HeapProofs.
Import ListNotations.

Theorem C06_gpu_threads_cover : forall X Y bx by_, 0 < bx -> 0 < by_ ->
  NoDup (threads X Y bx by_) /\ (forall x y, In (x, y) (threads X Y bx by_) <-> (x < X /\ y < Y)).
Proof. exact threads_cover. Qed.

Theorem C06_lane_independent : forall w p ins lane, (lane < w)%N ->
  map (fun x => N.testbit x lane) (run_N w p ins) = run_bool p (map (fun x => N.testbit x lane) ins).
Proof. intros. apply run_lift. assumption. Qed.

Theorem C06_release_order_irrelevant : forall h a b ha hb hab hba, HInv h -> live h a -> live h b -> a <> b ->
  free h a = Some ha -> free ha b = Some hab -> free h b = Some hb -> free hb a = Some hba -> hab = hba.
Proof. exact free_commute. Qed.

(** strip_forks clause (logic level): for EVERY well-formed acyclic netlist whose gates have selectable primitives, EVERY
    stimulus and any value domain in which BUF1 is a plain copy, the schedule with forks stripped computes at every line
    exactly what the schedule with forks computes *)
From KV Require Import Model.Netlist Model.NetlistWf Model.SimOps Model.AllocCheck Model.NetlistSem Model.Prims Gen.SimTables.
From KV Require Proofs.StripInvariance.
From Coq Require Import String.
Theorem C06_strip_forks_irrelevant : forall V (sem : N -> V -> V -> V -> V -> V) (zero : V) c stim len stems,
  wf_netlist c -> comb_acyclic c -> List.length (c_lines c) <= len -> build_stems c true len = Some stems ->
  (forall x b cc d, sem (lutv "BUF1") x b cc d = x) ->
  (forall n, n < List.length (c_nodes c) -> iface_pos c n = None -> is_fork (get_node c n) = true ->
     n_kind (get_node c n) = "__fork__"%string) ->
  (forall n, n < List.length (c_nodes c) -> iface_pos c n = None -> is_fork (get_node c n) = false ->
     select_lut kind_prefixes (n_kind (get_node c n)) (negb (is_some (pin (n_ins (get_node c n)) 2)))
                (negb (is_some (pin (n_ins (get_node c n)) 3))) <> None) ->
  (forall n, n < List.length (c_nodes c) -> is_dff (get_node c n) = true -> forall k o, 2 <= k -> pin (n_outs (get_node c n)) k = Some o -> False) ->
  (forall n, n < List.length (c_nodes c) -> iface_pos c n = None -> is_fork (get_node c n) = false ->
     forall k o, 1 <= k -> pin (n_outs (get_node c n)) k = Some o -> False) ->
  forall l, l < List.length (c_lines c) ->
    iexec sem (stemmed stems) (build_ops c true) (init_env zero c stim) (stemmed stems l)
    = iexec sem (fun x => x) (build_ops c false) (init_env zero c stim) l.
Proof. intros V sem zero. exact (KV.Proofs.StripInvariance.strip_forks_irrelevant sem zero). Qed.
