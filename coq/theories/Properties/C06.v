(** C06 -- results do not depend on performance options, lane position or code path. Statements only.
    Proved here: the code-path clause for the mock GPU launcher (every kernel instance inside the bounds
    runs exactly once), the irrelevance of the order in which a level's released memory is freed, and lane
    independence of the bit-parallel logic kernels.  The option clauses are decided by correspondence. *)
From Coq Require Import List NArith Arith Bool.
From KV Require Import Model.Launch Model.Bits Model.Heap Model.HeapInv Proofs.LaunchProofs Proofs.BitsLift Proofs.HeapProofs.
Import ListNotations.

Theorem C06_gpu_threads_cover : forall X Y bx by_, 0 < bx -> 0 < by_ ->
  NoDup (threads X Y bx by_) /\ (forall x y, In (x, y) (threads X Y bx by_) <-> (x < X /\ y < Y)).
Proof. exact threads_cover. Qed.

Theorem C06_lane_independent : forall w p ins lane, (lane < w)%N ->
  map (fun x => N.testbit x lane) (run_N w p ins) = run_bool p (map (fun x => N.testbit x lane) ins).
Proof. intros. apply run_lift. assumption. Qed.

Theorem C06_release_order_irrelevant : forall h a b ha hb hab hba, HInv h -> live h a -> live h b -> a <> b ->
  free h a = Some ha -> free ha b = Some hab -> free h b = Some hb -> free hb a = Some hba -> hab = hba.
Proof. exact free_commute. Qed.

(** strip_forks clause (logic level): for EVERY well-formed acyclic netlist whose gates have selectable primitives, EVERY
    stimulus and any value domain in which BUF1 is a plain copy, the schedule with forks stripped computes at every line
    exactly what the schedule with forks computes *)
From KV Require Import Model.Netlist Model.NetlistWf Model.SimOps Model.AllocCheck Model.NetlistSem Model.Prims Gen.SimTables.
From KV Require Proofs.StripInvariance.
From Coq Require Import String.
Theorem C06_strip_forks_irrelevant : forall V (sem : N -> V -> V -> V -> V -> V) (zero : V) c stim len stems,
  wf_netlist c -> comb_acyclic c -> List.length (c_lines c) <= len -> build_stems c true len = Some stems ->
  (forall x b cc d, sem (lutv "BUF1") x b cc d = x) ->
  (forall n, n < List.length (c_nodes c) -> iface_pos c n = None -> is_fork (get_node c n) = true ->
     n_kind (get_node c n) = "__fork__"%string) ->
  (forall n, n < List.length (c_nodes c) -> iface_pos c n = None -> is_fork (get_node c n) = false ->
     select_lut kind_prefixes (n_kind (get_node c n)) (negb (is_some (pin (n_ins (get_node c n)) 2)))
                (negb (is_some (pin (n_ins (get_node c n)) 3))) <> None) ->
  (forall n, n < List.length (c_nodes c) -> is_dff (get_node c n) = true -> forall k o, 2 <= k -> pin (n_outs (get_node c n)) k = Some o -> False) ->
  (forall n, n < List.length (c_nodes c) -> iface_pos c n = None -> is_fork (get_node c n) = false ->
     forall k o, 1 <= k -> pin (n_outs (get_node c n)) k = Some o -> False) ->
  forall l, l < List.length (c_lines c) ->
    iexec sem (stemmed stems) (build_ops c true) (init_env zero c stim) (stemmed stems l)
    = iexec sem (fun x => x) (build_ops c false) (init_env zero c stim) l.
Proof. intros V sem zero. exact (KV.Proofs.StripInvariance.strip_forks_irrelevant sem zero). Qed.

(** ... and so do k cycles (LogicSim.cycle at line level, Model/CycleSem.v): the assignment and result vectors after k cycles with
    forks stripped equal those without *)
From KV Require Import Model.CycleSem.
From KV Require Proofs.CycleProofs Proofs.EndToEnd.
From Coq Require Import ZArith.
Theorem C06_cycles_strip_irrelevant : forall V (sem : N -> V -> V -> V -> V -> V) (zero : V) c len stems k st,
  wf_netlist c -> comb_acyclic c -> KV.Proofs.EndToEnd.gates_known c -> List.length (c_lines c) <= len ->
  build_stems c true len = Some stems ->
  (forall x b cc d, sem (lutv "BUF1") x b cc d = x) ->
  (forall n, n < List.length (c_nodes c) -> iface_pos c n = None -> is_fork (get_node c n) = true ->
     n_kind (get_node c n) = "__fork__"%string) ->
  line_cycles_strip sem zero c stems k st = line_cycles sem zero c k st.
Proof. intros V sem zero. exact (KV.Proofs.CycleProofs.cycles_strip_irrelevant sem zero). Qed.
(** c_reuse clause (memory level): for EVERY well-formed acyclic netlist of known primitives, any value domain and op semantics,
    and initial memories holding the same stimulus at the PI/PPI slots and the zero slot of the respective map, the flat memory
    after the scheduled ops holds the same value at every observed (PO/PPO) slot whether or not signal memory is reused; the
    schedule, the aliases and the stimulus / observed slots themselves do not depend on c_reuse. *)
From KV Require Import Model.SimOpsCert.
From KV Require Proofs.EndToEnd Proofs.ReuseProofs.
Theorem C06_c_reuse_irrelevant : forall V (sem : N -> V -> V -> V -> V -> V) (dflt : V) c caps cmin so0 so1 (e : ienv) (m0 m1 : fmem),
  wf_netlist c -> comb_acyclic c -> (0 < cmin)%N -> KV.Proofs.EndToEnd.gates_known c ->
  build c caps cmin false false = Some so0 -> build c caps cmin true false = Some so1 ->
  (forall x l, In x (so_init so0) -> so_loc so0 x = Some l -> m0 l = e x) ->
  (forall x l, In x (so_init so1) -> so_loc so1 x = Some l -> m1 l = e x) ->
  forall p, In p (so_final so1) ->
    mread dflt (so_loc so1) (mexec sem dflt (so_loc so1) (so_ops so1) m1) p
    = mread dflt (so_loc so0) (mexec sem dflt (so_loc so0) (so_ops so0) m0) p.
Proof. intros V sem dflt. exact (KV.Proofs.ReuseProofs.reuse_irrelevant sem dflt). Qed.

Theorem C06_c_reuse_same_interface : forall c caps cmin so0 so1,
  wf_netlist c -> comb_acyclic c -> (0 < cmin)%N -> KV.Proofs.EndToEnd.gates_known c ->
  build c caps cmin false false = Some so0 -> build c caps cmin true false = Some so1 ->
  so_ops so1 = so_ops so0 /\ so_level_starts so1 = so_level_starts so0 /\
  (forall x, so_alias c so1 x = so_alias c so0 x) /\ so_init so1 = so_init so0 /\ so_final so1 = so_final so0.
Proof. exact KV.Proofs.ReuseProofs.reuse_same_interface. Qed.

(* with reuse the memory still delivers the line-level value of the line feeding each observed s_node *)
Theorem C06_end_to_end_reuse : forall V (sem : N -> V -> V -> V -> V -> V) (zero : V) c caps cmin so stim (m0 : fmem),
  wf_netlist c -> comb_acyclic c -> (0 < cmin)%N -> KV.Proofs.EndToEnd.gates_known c ->
  build c caps cmin true false = Some so ->
  (forall x l, In x (so_init so) -> so_loc so x = Some l -> m0 l = init_env zero c stim x) ->
  forall p, In p (so_final so) ->
    mread zero (so_loc so) (mexec sem zero (so_loc so) (so_ops so) m0) p
    = iexec sem (fun x => x) (build_ops c false) (init_env zero c stim) (so_alias c so p).
Proof. intros V sem zero. exact (KV.Proofs.ReuseProofs.end_to_end_reuse sem zero). Qed.

(** all options at once (memory level): whatever c_reuse and strip_forks are, the flat memory after the scheduled ops holds at the
    PPO slot of every observed s_node the value that the UNSTRIPPED line-level execution gives the line feeding that s_node;
    hence any two option combinations agree at every slot both observe. *)
From KV Require Proofs.ReuseStrip.
Theorem C06_options_irrelevant_spec : forall V (sem : N -> V -> V -> V -> V -> V) (zero : V) c caps cmin reuse strip so stim (m0 : fmem),
  wf_netlist c -> comb_acyclic c -> (0 < cmin)%N -> KV.Proofs.EndToEnd.gates_known c ->
  (strip = true -> KV.Proofs.ReuseStrip.forks_ok c /\ forall x b cc d, sem (lutv "BUF1") x b cc d = x) ->
  build c caps cmin reuse strip = Some so ->
  (forall x l, In x (so_init so) -> so_loc so x = Some l -> m0 l = init_env zero c stim x) ->
  forall p, In p (so_final so) ->
    exists i l0 t, p = List.length (c_lines c) + 3 + List.length (s_nodes c) + i /\ i < List.length (s_nodes c) /\
      n_ins (get_node c (nth i (s_nodes c) 0)) = Some l0 :: t /\
      mread zero (so_loc so) (mexec sem zero (so_loc so) (so_ops so) m0) p
      = iexec sem (fun x => x) (build_ops c false) (init_env zero c stim) l0.
Proof. intros V sem zero. exact (KV.Proofs.ReuseStrip.end_to_end_all sem zero). Qed.

Theorem C06_options_irrelevant : forall V (sem : N -> V -> V -> V -> V -> V) (zero : V) c caps cmin r1 s1 r2 s2 so1 so2 stim (m1 m2 : fmem),
  wf_netlist c -> comb_acyclic c -> (0 < cmin)%N -> KV.Proofs.EndToEnd.gates_known c ->
  (s1 = true \/ s2 = true -> KV.Proofs.ReuseStrip.forks_ok c /\ forall x b cc d, sem (lutv "BUF1") x b cc d = x) ->
  build c caps cmin r1 s1 = Some so1 -> build c caps cmin r2 s2 = Some so2 ->
  (forall x l, In x (so_init so1) -> so_loc so1 x = Some l -> m1 l = init_env zero c stim x) ->
  (forall x l, In x (so_init so2) -> so_loc so2 x = Some l -> m2 l = init_env zero c stim x) ->
  forall p, In p (so_final so1) -> In p (so_final so2) ->
    mread zero (so_loc so1) (mexec sem zero (so_loc so1) (so_ops so1) m1) p
    = mread zero (so_loc so2) (mexec sem zero (so_loc so2) (so_ops so2) m2) p.
Proof. intros V sem zero. exact (KV.Proofs.ReuseStrip.options_irrelevant sem zero). Qed.
