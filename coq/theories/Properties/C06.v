(** C06 -- results do not depend on performance options, lane position or code path. Statements only.
    Proved here: the code-path clause for the mock GPU launcher (every kernel instance inside the bounds
    runs exactly once), the irrelevance of the order in which a level's released memory is freed, and lane
    independence of the bit-parallel logic kernels.  The option clauses are decided by correspondence. *)
From Coq Require Import List NArith Arith Bool.
From KV Require Import Model.Launch Model.Bits Model.Heap Model.HeapInv Proofs.LaunchProofs Proofs.BitsLift Proofs.HeapProofs.
Import ListNotations.

Theorem C06_gpu_threads_cover : forall X Y bx by_, 0 < bx -> 0 < by_ ->
  NoDup (threads X Y bx by_) /\ (forall x y, In (x, y) (threads X Y bx by_) <-> (x < X /\ y < Y)).
Proof. exact threads_cover. Qed.

Theorem C06_lane_independent : forall w p ins lane, (lane < w)%N ->
  map (fun x => N.testbit x lane) (run_N w p ins) = run_bool p (map (fun x => N.testbit x lane) ins).
Proof. intros. apply run_lift. assumption. Qed.

Theorem C06_release_order_irrelevant : forall h a b ha hb hab hba, HInv h -> live h a -> live h b -> a <> b ->
  free h a = Some ha -> free ha b = Some hab -> free h b = Some hb -> free hb a = Some hba -> hab = hba.
Proof. exact free_commute. Qed.
