(** C04 -- transitions stay inside the static-timing window and move rigidly with inputs. Statements only.
    Per gate evaluation (_wave_eval) on the exact (integer / dyadic) time grid. *)
From Coq Require Import List ZArith NArith Bool Arith.
From KV Require Import Model.Time Model.WaveEval Model.WaveSpec Proofs.WaveEquiv.
Import ListNotations.

(* every finite output time is some finite operand time plus one of that operand line's four delays: by induction
   over the op list every transition lies between the earliest and the latest arrival static timing analysis permits *)
Theorem C04_emit_is_sum : forall lut ws ds zreg r, wf_args ws ds zreg -> wave_eval lut ws ds zreg = Some r ->
  forall t, In (Fin t) (body (r_z r)) ->
  exists k u i j, k < 4 /\ In (Fin u) (body (nth k ws [])) /\ t = (u + dget (nth k ds dzero) i j)%Z.
Proof. exact emit_is_sum. Qed.

(* shifting all operand transitions by delta shifts every produced transition by exactly delta *)
Theorem C04_shift_equivariant : forall lut ws ds zreg zreg' delta r,
  length ws = 4 -> length ds = 4 -> length zreg' = length zreg ->
  wave_eval lut ws ds zreg = Some r ->
  exists r', wave_eval lut (map (map (shift delta)) ws) ds zreg' = Some r' /\
             upto_end (r_z r') = map (shift delta) (upto_end (r_z r)) /\
             r_rise r' = r_rise r /\ r_fall r' = r_fall r /\ r_ovf r' = r_ovf r.
Proof. exact shift_equivariant. Qed.

(* scaling all times and delays by a positive factor (in particular a power of two) scales the result *)
Theorem C04_scale_equivariant : forall lut ws ds zreg zreg' k r, (0 < k)%Z ->
  length ws = 4 -> length ds = 4 -> length zreg' = length zreg ->
  wave_eval lut ws ds zreg = Some r ->
  exists r', wave_eval lut (map (map (scale k)) ws) (map (dscale k) ds) zreg' = Some r' /\
             upto_end (r_z r') = map (scale k) (upto_end (r_z r)) /\
             r_rise r' = r_rise r /\ r_fall r' = r_fall r /\ r_ovf r' = r_ovf r.
Proof. exact scale_equivariant. Qed.

(* polarity-independent delays keep every waveform strictly increasing (through overflow and pulse filtering) *)
Theorem C04_mono_polarity_free : forall lut ws ds zreg r, wf_args ws ds zreg ->
  Forall dtab_polfree ds -> Forall strictly_increasing ws ->
  wave_eval lut ws ds zreg = Some r -> strictly_increasing (r_z r).
Proof. exact mono_polarity_free. Qed.

(** CIRCUIT LEVEL: every finite transition of every signal lies inside the window that static timing analysis of the
    annotated op list permits for the given input transition windows *)
From KV Require Import Model.SimOps Model.WaveOps.
From KV Require Proofs.WaveCircuit.
Theorem C04_sta_window : forall delays cap ops (e : wenv) (w0 : nat -> win),
  KV.Proofs.WaveCircuit.good_delays delays -> KV.Proofs.WaveCircuit.good_caps cap -> (forall k, wf_wave (e k)) ->
  (forall k, covers (w0 k) (e k)) ->
  forall k, covers (sta delays ops w0 k) (wexec delays cap ops e k).
Proof. exact KV.Proofs.WaveCircuit.sta_window. Qed.

(** CIRCUIT LEVEL shift / scale / monotonicity: the per-gate theorems folded over ANY op list (Proofs/WaveCircuit2.v).
    No side condition is needed for shift and scale: sentinels are fixed points of [shift] / [scale], hence constant signals
    (the zero slot, constant inputs, unused slots) are their own shift, and every gate evaluation terminates on any operands. *)
From KV Require Import Model.WaveAcc.
From KV Require Proofs.WaveCircuit2.
Theorem C04_circuit_shift : forall delays cap ops (e : wenv) delta k,
  wexec delays cap ops (fun j => map (shift delta) (e j)) k = map (shift delta) (wexec delays cap ops e k).
Proof. exact KV.Proofs.WaveCircuit2.circuit_shift. Qed.

Theorem C04_circuit_scale : forall delays cap ops (e : wenv) c k, (0 < c)%Z ->
  wexec (fun j => dscale c (delays j)) cap ops (fun j => map (scale c) (e j)) k = map (scale c) (wexec delays cap ops e k).
Proof. exact KV.Proofs.WaveCircuit2.circuit_scale. Qed.

(* the rerun form: inputs with transitions are moved, signals without a finite entry are left untouched *)
Theorem C04_circuit_shift_inputs : forall delays cap ops (e e' : wenv) delta,
  (forall j, e' j = map (shift delta) (e j) \/ (e' j = e j /\ no_fin (e j))) ->
  forall k, wexec delays cap ops e' k = map (shift delta) (wexec delays cap ops e k).
Proof. exact KV.Proofs.WaveCircuit2.circuit_shift_inputs. Qed.

Theorem C04_circuit_scale_inputs : forall delays cap ops (e e' : wenv) c, (0 < c)%Z ->
  (forall j, e' j = map (scale c) (e j) \/ (e' j = e j /\ no_fin (e j))) ->
  forall k, wexec (fun j => dscale c (delays j)) cap ops e' k = map (scale c) (wexec delays cap ops e k).
Proof. exact KV.Proofs.WaveCircuit2.circuit_scale_inputs. Qed.

(* polarity-independent delays on every line: every waveform of the circuit is strictly increasing *)
Theorem C04_circuit_mono : forall delays cap ops (e : wenv),
  KV.Proofs.WaveCircuit.good_delays delays -> KV.Proofs.WaveCircuit.good_caps cap ->
  (forall k, dtab_polfree (delays k)) -> (forall k, wf_wave (e k)) -> (forall k, strictly_increasing (e k)) ->
  forall k, strictly_increasing (wexec delays cap ops e k).
Proof. exact KV.Proofs.WaveCircuit2.circuit_mono. Qed.

(** SOURCE TIE (see C03_kernel_source_is_model): the merge kernel as translated from the current text of wave_sim._wave_eval
    (Gen/WaveEvalSrc.v, regenerated on every run) computes the model [wave_eval]; hence every finite time the SOURCE stores is a
    finite operand time plus one of that operand's four delays. *)
From KV Require Import Model.WaveSrcPrelude Gen.WaveEvalSrc.
From KV Require Proofs.WaveEvalSrcProofs Proofs.WaveEvalSrcCorollaries.
Theorem C04_kernel_source_is_model : forall lut ws ds zreg, 2 <= length zreg ->
  KV.Proofs.WaveEvalSrcProofs.res_of
    (WaveEvalSrc.wave_eval_src (KV.Proofs.WaveEvalSrcProofs.model_fuel ws) (Z.of_N lut) ws ds zreg) = wave_eval lut ws ds zreg.
Proof. exact KV.Proofs.WaveEvalSrcProofs.kernel_source_is_model. Qed.

Theorem C04_source_emit_is_sum : forall lut ws ds zreg s nr nf, wf_args ws ds zreg ->
  WaveEvalSrc.wave_eval_src (KV.Proofs.WaveEvalSrcProofs.model_fuel ws) (Z.of_N lut) ws ds zreg = Some (s, (nr, nf)) ->
  forall t, In (Fin t) (body (KV.Proofs.WaveEvalSrcCorollaries.src_z s)) ->
  exists k u i j, k < 4 /\ In (Fin u) (body (nth k ws [])) /\ t = (u + dget (nth k ds dzero) i j)%Z.
Proof. exact KV.Proofs.WaveEvalSrcCorollaries.src_emit_is_sum. Qed.
