(** C03 -- timing simulation settles to the Boolean function for any delays / capacity. Statements only.
    Per gate evaluation (_wave_eval), for ANY lookup table, ANY well-formed operand waveforms of any length,
    ANY non-negative delay tables and ANY capacity >= 4 -- including evaluations that overflow. *)
From Coq Require Import List ZArith NArith Bool Arith.
From KV Require Import Model.Time Model.WaveEval Model.WaveSpec Proofs.WaveCore.
Import ListNotations.

Theorem C03_total : forall lut ws ds zreg, wf_args ws ds zreg -> exists r, wave_eval lut ws ds zreg = Some r.
Proof. exact wave_total. Qed.

(* by transition parity the waveform ends at the LUT value of the operands' final values, overflow or not *)
Theorem C03_final : forall lut ws ds zreg r, wf_args ws ds zreg -> wave_eval lut ws ds zreg = Some r ->
  final_val (r_z r) = lut_at lut (map final_val ws).
Proof. exact wave_final. Qed.

(* it starts at the LUT value of the operands' initial values *)
Theorem C03_init : forall lut ws ds zreg r, wf_args ws ds zreg -> wave_eval lut ws ds zreg = Some r ->
  init_val (r_z r) = lut_at lut (map init_val ws).
Proof. exact wave_init. Qed.

(* the result is again a well-formed waveform within its capacity, so the facts compose along any op list *)
Theorem C03_wf : forall lut ws ds zreg r, wf_args ws ds zreg -> wave_eval lut ws ds zreg = Some r ->
  wf_wave (r_z r) /\ length (r_z r) = length zreg /\ ntrans (r_z r) < length zreg.
Proof. exact wave_wf. Qed.
