(** C03 -- timing simulation settles to the Boolean function for any delays / capacity. Statements only.
    Per gate evaluation (_wave_eval), for ANY lookup table, ANY well-formed operand waveforms of any length,
    ANY non-negative delay tables and ANY capacity >= 4 -- including evaluations that overflow. *)
From Coq Require Import List ZArith NArith Bool Arith.
From KV Require Import Model.Time Model.WaveEval Model.WaveSpec Proofs.WaveCore.
Import ListNotations.

Theorem C03_total : forall lut ws ds zreg, wf_args ws ds zreg -> exists r, wave_eval lut ws ds zreg = Some r.
Proof. exact wave_total. Qed.

(* by transition parity the waveform ends at the LUT value of the operands' final values, overflow or not *)
Theorem C03_final : forall lut ws ds zreg r, wf_args ws ds zreg -> wave_eval lut ws ds zreg = Some r ->
  final_val (r_z r) = lut_at lut (map final_val ws).
Proof. exact wave_final. Qed.

(* it starts at the LUT value of the operands' initial values *)
Theorem C03_init : forall lut ws ds zreg r, wf_args ws ds zreg -> wave_eval lut ws ds zreg = Some r ->
  init_val (r_z r) = lut_at lut (map init_val ws).
Proof. exact wave_init. Qed.

(* the result is again a well-formed waveform within its capacity, so the facts compose along any op list *)
Theorem C03_wf : forall lut ws ds zreg r, wf_args ws ds zreg -> wave_eval lut ws ds zreg = Some r ->
  wf_wave (r_z r) /\ length (r_z r) = length zreg /\ ntrans (r_z r) < length zreg.
Proof. exact wave_wf. Qed.

(** CIRCUIT LEVEL: for ANY op list, non-negative delays, capacities >= 4 and well-formed input waveforms, every signal's
    waveform is well formed, starts at the Boolean (LUT) evaluation of the inputs' initial values and ends, by transition
    parity, at the Boolean evaluation of their final values -- whether or not waveforms overflow.  (With C01_build_ops_solution
    the Boolean evaluation of SimOps' op list is the netlist's gate-by-gate function.) *)
From KV Require Import Model.SimOps Model.WaveOps.
From KV Require Proofs.WaveCircuit.
Theorem C03_circuit_settles : forall delays cap ops (e : wenv),
  KV.Proofs.WaveCircuit.good_delays delays -> KV.Proofs.WaveCircuit.good_caps cap -> (forall k, wf_wave (e k)) ->
  forall k, wf_wave (wexec delays cap ops e k) /\
            init_val (wexec delays cap ops e k) = bexec ops (fun j => init_val (e j)) k /\
            final_val (wexec delays cap ops e k) = bexec ops (fun j => final_val (e j)) k.
Proof. exact KV.Proofs.WaveCircuit.wave_circuit_settles. Qed.

(** FLAT WAVEFORM MEMORY (Proofs/WaveFlat.v): c_prop on the memory addressed through c_locs / c_caps refines the line-level
    semantics.  [regions_ok so P n]: every op reads and writes tracked indices (P), its output region lies inside the memory of
    length n and is disjoint from the region of every OTHER tracked index (what the allocator guarantees without c_reuse;
    evaluated per generated case by [regions_ok_b]).  Then c_prop is total, the region of every tracked index read up to its
    terminator is the line-level waveform, and abuf is the line-level accumulation [wacc]. *)
From KV Require Import Model.WaveSimModel Model.WaveAcc.
From KV Require Proofs.WaveFlat.
Theorem C03_flat_refines : forall so delays actrl (P : nat -> Prop) (m : wmem) ab,
  regions_ok so P (length m) ->
  exists m' ab', w_c_prop so delays actrl m ab = Some (m', ab') /\ length m' = length m /\
    (forall k, P k -> upto_end (operand so m' k) = wexec (dl_of delays) (capN so) (so_ops so) (env_of so m) k) /\
    ab' = wacc (dl_of delays) (capN so) actrl (so_ops so) (env_of so m) ab.
Proof. exact KV.Proofs.WaveFlat.flat_refines. Qed.

Theorem C03_regions_check_sound : forall so n memlen,
  regions_ok_b so n memlen = true -> regions_ok so (fun k => k < n) memlen.
Proof. exact KV.Proofs.WaveFlat.regions_ok_b_sound. Qed.
