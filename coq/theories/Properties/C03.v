(** C03 -- timing simulation settles to the Boolean function for any delays / capacity. Statements only.
    Per gate evaluation (_wave_eval), for ANY lookup table, ANY well-formed operand waveforms of any length,
    ANY non-negative delay tables and ANY capacity >= 4 -- including evaluations that overflow. *)
From Coq Require Import List ZArith NArith Bool Arith.
From KV Require Import Model.Time Model.WaveEval Model.WaveSpec Proofs.WaveCore.
Import ListNotations.

Theorem C03_total : forall lut ws ds zreg, wf_args ws ds zreg -> exists r, wave_eval lut ws ds zreg = Some r.
Proof. exact wave_total. Qed.

(* by transition parity the waveform ends at the LUT value of the operands' final values, overflow or not *)
Theorem C03_final : forall lut ws ds zreg r, wf_args ws ds zreg -> wave_eval lut ws ds zreg = Some r ->
  final_val (r_z r) = lut_at lut (map final_val ws).
Proof. exact wave_final. Qed.

(* it starts at the LUT value of the operands' initial values *)
Theorem C03_init : forall lut ws ds zreg r, wf_args ws ds zreg -> wave_eval lut ws ds zreg = Some r ->
  init_val (r_z r) = lut_at lut (map init_val ws).
Proof. exact wave_init. Qed.

(* the result is again a well-formed waveform within its capacity, so the facts compose along any op list *)
Theorem C03_wf : forall lut ws ds zreg r, wf_args ws ds zreg -> wave_eval lut ws ds zreg = Some r ->
  wf_wave (r_z r) /\ length (r_z r) = length zreg /\ ntrans (r_z r) < length zreg.
Proof. exact wave_wf. Qed.

(** CIRCUIT LEVEL: for ANY op list, non-negative delays, capacities >= 4 and well-formed input waveforms, every signal's
    waveform is well formed, starts at the Boolean (LUT) evaluation of the inputs' initial values and ends, by transition
    parity, at the Boolean evaluation of their final values -- whether or not waveforms overflow.  (With C01_build_ops_solution
    the Boolean evaluation of SimOps' op list is the netlist's gate-by-gate function.) *)
From KV Require Import Model.SimOps Model.WaveOps.
From KV Require Proofs.WaveCircuit.
Theorem C03_circuit_settles : forall delays cap ops (e : wenv),
  KV.Proofs.WaveCircuit.good_delays delays -> KV.Proofs.WaveCircuit.good_caps cap -> (forall k, wf_wave (e k)) ->
  forall k, wf_wave (wexec delays cap ops e k) /\
            init_val (wexec delays cap ops e k) = bexec ops (fun j => init_val (e j)) k /\
            final_val (wexec delays cap ops e k) = bexec ops (fun j => final_val (e j)) k.
Proof. exact KV.Proofs.WaveCircuit.wave_circuit_settles. Qed.

(** FLAT WAVEFORM MEMORY (Proofs/WaveFlat.v): c_prop on the memory addressed through c_locs / c_caps refines the line-level
    semantics.  [regions_ok so P n]: every op reads and writes tracked indices (P), its output region lies inside the memory of
    length n and is disjoint from the region of every OTHER tracked index (what the allocator guarantees without c_reuse;
    evaluated per generated case by [regions_ok_b]).  Then c_prop is total, the region of every tracked index read up to its
    terminator is the line-level waveform, and abuf is the line-level accumulation [wacc]. *)
From KV Require Import Model.WaveSimModel Model.WaveAcc.
From KV Require Proofs.WaveFlat.
Theorem C03_flat_refines : forall so delays actrl (P : nat -> Prop) (m : wmem) ab,
  regions_ok so P (length m) ->
  exists m' ab', w_c_prop so delays actrl m ab = Some (m', ab') /\ length m' = length m /\
    (forall k, P k -> upto_end (operand so m' k) = wexec (dl_of delays) (capN so) (so_ops so) (env_of so m) k) /\
    ab' = wacc (dl_of delays) (capN so) actrl (so_ops so) (env_of so m) ab.
Proof. exact KV.Proofs.WaveFlat.flat_refines. Qed.

Theorem C03_regions_check_sound : forall so n memlen,
  regions_ok_b so n memlen = true -> regions_ok so (fun k => k < n) memlen.
Proof. exact KV.Proofs.WaveFlat.regions_ok_b_sound. Qed.

(** MEMORY LEVEL, ALL FOUR c_reuse x strip_forks COMBINATIONS (Proofs/WaveRegion.v, Proofs/WaveSimGlue.v).
    The region certificate is no longer checked per case: for EVERY [build] result the allocator invariant gives that the region
    [c_locs[z], c_locs[z] + c_caps[z]) an op writes is disjoint from the region of every signal that is pinned or still read
    (last clause of [regions_spec]); capacities, aliases and bounds of the published map are as SimOps documents them. *)
From KV Require Import Model.Netlist Model.NetlistWf Model.NetlistSem Model.CycleSem Model.WaveGlue Model.WaveStripModel.
From KV Require Proofs.EndToEnd Proofs.ReuseStrip Proofs.LogicSimGlue Proofs.WaveRegion Proofs.WaveSimGlue.
Theorem C03_build_regions_all : forall c caps cmin reuse strip so,
  wf_netlist c -> comb_acyclic c -> (0 < cmin)%N -> KV.Proofs.EndToEnd.gates_known c -> (strip = true -> KV.Proofs.ReuseStrip.forks_ok c) ->
  build c caps cmin reuse strip = Some so ->
  exists stems, build_stems c strip (length (c_lines c) + 3 + length (s_nodes c) + length (s_nodes c)) = Some stems /\
    KV.Proofs.WaveRegion.regions_spec c caps cmin strip stems so.
Proof. exact KV.Proofs.WaveRegion.build_regions_all. Qed.

(* the compared model [wsim_case] is total wherever SimOps builds (and fails exactly where SimOps raises), captures at every
   s_node with a data line the waveform that the alias execution of the scheduled op list leaves at the line's stem, and its
   abuf is the accumulated activity of that execution -- whatever c_reuse and strip_forks are *)
Theorem C03_wavesim_model_alias : forall c caps reuse strip delays actrl abuf_len s extra tcap,
  wf_netlist c -> comb_acyclic c -> KV.Proofs.EndToEnd.gates_known c -> (strip = true -> KV.Proofs.ReuseStrip.forks_ok c) ->
  length (c_lines c) <= length caps -> KV.Proofs.WaveSimGlue.extra_ok c extra ->
  let dl := dl_of delays in let cp := lcap (length (c_lines c)) caps in let e0 := wenv0 c s extra in
  match build_stems c strip (KV.Proofs.LogicSimGlue.std_len c) with
  | Some stems =>
      exists r, wsim_case c caps reuse strip delays actrl abuf_len s extra tcap = Some r /\
        w_capt r = wglue_pred c (fun l => wexec_alias dl cp (stemmed stems) (build_ops c strip) e0 (stemmed stems l)) tcap /\
        w_abuf r = wacc_alias dl cp actrl (stemmed stems) (build_ops c strip) e0 (repeat 0%Z abuf_len)
  | None => wsim_case c caps reuse strip delays actrl abuf_len s extra tcap = None
  end.
Proof. exact KV.Proofs.WaveSimGlue.wavesim_model_alias. Qed.

(* END TO END: every option combination captures the UNSTRIPPED line-level waveform [wexec] over [build_ops c false] of the line
   feeding each s_node (with strip_forks: zero delay on fork inputs, strictly increasing stem waveforms that fit the branch
   regions -- outside this side condition known finding D26 refutes it, C06_wave_strip_nonmonotone_refuted) *)
Theorem C03_wavesim_model_correct : forall c caps reuse strip delays actrl abuf_len s extra tcap,
  wf_netlist c -> comb_acyclic c -> KV.Proofs.EndToEnd.gates_known c -> length (c_lines c) <= length caps ->
  KV.Proofs.WaveSimGlue.extra_ok c extra ->
  let dl := dl_of delays in let cp := lcap (length (c_lines c)) caps in let e0 := wenv0 c s extra in
  (strip = true -> build_stems c true (KV.Proofs.LogicSimGlue.std_len c) <> None /\ KV.Proofs.ReuseStrip.forks_ok c /\
                   KV.Proofs.WaveSimGlue.forks_single c /\ KV.Proofs.WaveSimGlue.wave_inputs_ok c dl (stim_wave s extra) /\
                   KV.Proofs.WaveSimGlue.strip_side c dl cp (wexec dl cp (build_ops c false) e0)) ->
  exists r, wsim_case c caps reuse strip delays actrl abuf_len s extra tcap = Some r /\
    w_capt r = wglue_pred c (wexec dl cp (build_ops c false) e0) tcap.
Proof. exact KV.Proofs.WaveSimGlue.wavesim_model_correct. Qed.

(* every hypothesis above has an executable test, evaluated on every generated case of the C03 / C05 / C13 / C06 campaigns *)
Theorem C03_wglue_hyps_check_sound : forall c caps strip delays s extra,
  KV.Proofs.WaveSimGlue.wglue_hyps_b c caps strip delays s extra = true ->
  wf_netlist c /\ comb_acyclic c /\ KV.Proofs.EndToEnd.gates_known c /\ length (c_lines c) <= length caps /\
  KV.Proofs.WaveSimGlue.extra_ok c extra /\
  (strip = true -> build_stems c true (KV.Proofs.LogicSimGlue.std_len c) <> None /\ KV.Proofs.ReuseStrip.forks_ok c /\
     KV.Proofs.WaveSimGlue.forks_single c /\ KV.Proofs.WaveSimGlue.wave_inputs_ok c (dl_of delays) (stim_wave s extra) /\
     KV.Proofs.WaveSimGlue.strip_side c (dl_of delays) (lcap (length (c_lines c)) caps)
        (wexec (dl_of delays) (lcap (length (c_lines c)) caps) (build_ops c false) (wenv0 c s extra))).
Proof. exact KV.Proofs.WaveSimGlue.wglue_hyps_b_sound. Qed.

(* settles: the captured initial / final values of every s_node with a data line are the Boolean evaluation of the netlist's
   op list on the inputs' initial / final values -- at memory level, for all option combinations, overflow or not *)
Theorem C03_wavesim_model_settles : forall c caps reuse strip delays actrl abuf_len s extra tcap,
  wf_netlist c -> comb_acyclic c -> KV.Proofs.EndToEnd.gates_known c -> length (c_lines c) <= length caps ->
  KV.Proofs.WaveSimGlue.extra_ok c extra ->
  KV.Proofs.WaveSimGlue.wave_inputs_ok c (dl_of delays) (stim_wave s extra) ->
  (strip = true -> build_stems c true (KV.Proofs.LogicSimGlue.std_len c) <> None /\ KV.Proofs.ReuseStrip.forks_ok c /\
     KV.Proofs.WaveSimGlue.forks_single c /\
     KV.Proofs.WaveSimGlue.strip_side c (dl_of delays) (lcap (length (c_lines c)) caps)
        (wexec (dl_of delays) (lcap (length (c_lines c)) caps) (build_ops c false) (wenv0 c s extra))) ->
  exists r, wsim_case c caps reuse strip delays actrl abuf_len s extra tcap = Some r /\
    forall p l0, snode_in c p = Some l0 ->
      exists ini eat lst fin val ovl, nth p (w_capt r) None = Some (ini, eat, lst, fin, val, ovl) /\
        ini = bexec (build_ops c false) (fun j => init_val (wenv0 c s extra j)) l0 /\
        fin = bexec (build_ops c false) (fun j => final_val (wenv0 c s extra j)) l0.
Proof. exact KV.Proofs.WaveSimGlue.wavesim_model_settles. Qed.

(* non-vacuity: a fork with reconverging branches and a multi-transition input satisfies every hypothesis for all four combinations *)
Theorem C03_wavesim_model_example : forall reuse strip actrl n tcap,
  exists r, wsim_case KV.Proofs.WaveStrip.StripWaveExample.cxw (repeat 8%N 6) reuse strip KV.Proofs.WaveSimGlue.WaveGlueExample.dls actrl n
                      KV.Proofs.WaveSimGlue.WaveGlueExample.ss KV.Proofs.WaveSimGlue.WaveGlueExample.ex tcap = Some r /\
    w_capt r = wglue_pred KV.Proofs.WaveStrip.StripWaveExample.cxw
                 (wexec (dl_of KV.Proofs.WaveSimGlue.WaveGlueExample.dls) (lcap 6 (repeat 8%N 6)) (build_ops KV.Proofs.WaveStrip.StripWaveExample.cxw false)
                        (wenv0 KV.Proofs.WaveStrip.StripWaveExample.cxw KV.Proofs.WaveSimGlue.WaveGlueExample.ss KV.Proofs.WaveSimGlue.WaveGlueExample.ex)) tcap.
Proof. exact KV.Proofs.WaveSimGlue.WaveGlueExample.cxw_by_theorem. Qed.

(** SOURCE TIE of the waveform merge kernel.  Gen/WaveEvalSrc.v is regenerated on every run from the CURRENT text of
    wave_sim._wave_eval by translate/gen_wave_eval.py (a fail-closed syntax-directed translator: statement by statement over one
    record of the kernel's locals, Python ints as Z, the while loop as fuel recursion, memory as the regions of the output and
    of the four operands).  [res_of] reads off what the caller observes (output region, returned (nrise, nfall), overflow
    count).  The hand-written model [wave_eval] -- the subject of every theorem above and of C04 / C05 / C13 -- is what the
    source computes, for ALL lookup tables, operand regions, delay tables and output regions of capacity >= 2 (SimOps
    allocates >= 4), and for every bound on the number of loop iterations. *)
From KV Require Import Model.WaveSrcPrelude Gen.WaveEvalSrc.
From KV Require Proofs.WaveEvalSrcProofs.
Theorem C03_kernel_source_is_model : forall lut ws ds zreg, 2 <= length zreg ->
  KV.Proofs.WaveEvalSrcProofs.res_of
    (WaveEvalSrc.wave_eval_src (KV.Proofs.WaveEvalSrcProofs.model_fuel ws) (Z.of_N lut) ws ds zreg) = wave_eval lut ws ds zreg.
Proof. exact KV.Proofs.WaveEvalSrcProofs.kernel_source_is_model. Qed.

Theorem C03_kernel_source_any_bound : forall fuel lut ws ds zreg, 2 <= length zreg ->
  KV.Proofs.WaveEvalSrcProofs.res_of (WaveEvalSrc.wave_eval_src fuel (Z.of_N lut) ws ds zreg) =
  KV.Proofs.WaveEvalSrcProofs.wave_eval_f fuel lut ws ds zreg.
Proof. exact KV.Proofs.WaveEvalSrcProofs.wave_eval_src_sim. Qed.

Theorem C03_kernel_source_example :
  KV.Proofs.WaveEvalSrcProofs.res_of
    (WaveEvalSrc.wave_eval_src (KV.Proofs.WaveEvalSrcProofs.model_fuel KV.Proofs.WaveEvalSrcProofs.ex_ws) 6
       KV.Proofs.WaveEvalSrcProofs.ex_ws KV.Proofs.WaveEvalSrcProofs.ex_ds (repeat MaxInf 4)) =
    Some {| r_z := [MinInf; Fin 6; MaxOvl; MaxInf]; r_rise := 0; r_fall := 1; r_ovf := 1 |} /\
  KV.Proofs.WaveEvalSrcProofs.res_of
    (WaveEvalSrc.wave_eval_src (KV.Proofs.WaveEvalSrcProofs.model_fuel KV.Proofs.WaveEvalSrcProofs.ex_ws) 6
       KV.Proofs.WaveEvalSrcProofs.ex_ws KV.Proofs.WaveEvalSrcProofs.ex_ds (repeat MaxInf 8)) =
    Some {| r_z := [MinInf; Fin 6; Fin 8; Fin 11; MaxInf; MaxInf; MaxInf; MaxInf]; r_rise := 1; r_fall := 2; r_ovf := 0 |}.
Proof. exact KV.Proofs.WaveEvalSrcProofs.kernel_source_example. Qed.

(* the capacity hypothesis is needed: at capacity 1 the source (like the real kernel) leaves its region *)
Theorem C03_kernel_source_cap1_differs :
  KV.Proofs.WaveEvalSrcProofs.res_of
    (WaveEvalSrc.wave_eval_src (KV.Proofs.WaveEvalSrcProofs.model_fuel KV.Proofs.WaveEvalSrcProofs.ex_ws) 7
       KV.Proofs.WaveEvalSrcProofs.ex_ws KV.Proofs.WaveEvalSrcProofs.ex_ds [MaxInf]) <>
  wave_eval 7 KV.Proofs.WaveEvalSrcProofs.ex_ws KV.Proofs.WaveEvalSrcProofs.ex_ds [MaxInf].
Proof. exact KV.Proofs.WaveEvalSrcProofs.kernel_source_cap1_differs. Qed.

(* ... hence the per-gate theorems hold of the translated source: it terminates on well-formed arguments, and what it stores
   is a well-formed waveform that starts / ends at the LUT value of the operands' initial / final values *)
From KV Require Proofs.WaveEvalSrcCorollaries.
Theorem C03_source_total : forall lut ws ds zreg, wf_args ws ds zreg ->
  exists s nr nf, WaveEvalSrc.wave_eval_src (KV.Proofs.WaveEvalSrcProofs.model_fuel ws) (Z.of_N lut) ws ds zreg = Some (s, (nr, nf)).
Proof. exact KV.Proofs.WaveEvalSrcCorollaries.src_total. Qed.

Theorem C03_source_settles : forall lut ws ds zreg s nr nf, wf_args ws ds zreg ->
  WaveEvalSrc.wave_eval_src (KV.Proofs.WaveEvalSrcProofs.model_fuel ws) (Z.of_N lut) ws ds zreg = Some (s, (nr, nf)) ->
  let z := KV.Proofs.WaveEvalSrcCorollaries.src_z s in
  wf_wave z /\ length z = length zreg /\
  init_val z = lut_at lut (map init_val ws) /\ final_val z = lut_at lut (map final_val ws).
Proof. exact KV.Proofs.WaveEvalSrcCorollaries.src_settles. Qed.

(** DRIVER CODE from the source text (Gen/WaveDriversSrc.v, translate/gen_wave_drivers.py; see Properties/C06.v): the step of the
    compared model's c_prop is what one iteration of level_eval_cpu does to the lane's columns, and [w_c_prop] is the fold of
    these steps over the op list; the model's s_to_c is what the threads of wave_assign_gpu do to a lane *)
From KV Require Import Model.WaveDrvPrelude Gen.WaveDriversSrc.
From KV Require Proofs.WaveDriversProofs.
Theorem C03_driver_eval_is_model : forall so ops D seed sim i o a L,
  nth i ops [] = KV.Proofs.WaveDriversProofs.op_row o a -> KV.Proofs.WaveDriversProofs.out_cap_ok so (l_c L) o ->
  LevelEvalCpuSrc.inst_src ops (so_locs so) (KV.Proofs.WaveDriversProofs.caps_z so) D seed sim (Z.of_nat i) L
  = match KV.Proofs.WaveDriversProofs.eval_step so (KV.Proofs.WaveDriversProofs.lane_sel D seed L (Z.of_nat (s_out o))) o a (l_c L, l_abuf L) with
    | None => None
    | Some (m2, ab2) => Some (set_abuf (set_c L m2) ab2)
    end.
Proof. exact KV.Proofs.WaveDriversProofs.level_eval_cpu_inst_is_model. Qed.
Theorem C03_driver_c_prop_is_fold : forall so delays actrl m ab, w_c_prop so delays actrl m ab =
  fold_left (fun (st : option (wmem * list Z)) (io : nat * sop) =>
               match st with None => None
               | Some st' => KV.Proofs.WaveDriversProofs.eval_step so delays (snd io) (nth (fst io) actrl ((-1)%Z, 0%Z, 0%Z)) st' end)
            (combine (seq 0 (length (so_ops so))) (so_ops so)) (Some (m, ab)).
Proof. exact KV.Proofs.WaveDriversProofs.w_c_prop_fold. Qed.
Theorem C03_driver_assign_is_model : forall so nsims x L, x < nsims ->
  fold_left (fun L' y => WaveAssignGpuSrc.inst_src (so_locs so) (Z.of_nat (so_nlines so + 3)) (Z.of_nat (so_slen so)) (Z.of_nat nsims)
                            (Z.of_nat x) (Z.of_nat y) L') (seq 0 (so_slen so)) L
  = set_c L (w_s_to_c so (map (KV.Proofs.WaveDriversProofs.s_dec_gpu L) (seq 0 (so_slen so))) (l_c L)).
Proof. exact KV.Proofs.WaveDriversProofs.assign_gpu_lane_is_model. Qed.
