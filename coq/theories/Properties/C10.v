(** C10 -- copying, pickling and eliminating 1:1 forks never change the Boolean function observed at the circuit's ports
    and state elements, nor the names (and, for copy / pickle, the order) of those ports and state elements.  Statements only.
    (substitute / resolve_tlib_cells: see the second half of the property, handled separately.)

    Model: Model/Circuit.v (transcription of circuit.py with stable object ids), [view c] = the netlist the simulators
    read off a Circuit (Model/CircuitView.v), [s_names c] = [n.name for n in c.s_nodes];
    semantics: NetlistSem.solution (gate-by-gate, any value domain) on the view, and its id-based form [csol]
    (Model/CircuitSem.v: valuation of line IDS, stimulus keyed by node ID), proved equivalent below. *)
From Coq Require Import List NArith Bool Arith String Permutation.
From KV Require Model.Netlist Model.NetlistWf Model.SimOps Model.NetlistSem.
From KV Require Import Model.Circuit Model.CircuitInv Model.CircuitView Model.CircuitSem
     Proofs.CircuitHistory Proofs.CircuitViewProofs Proofs.CircuitElimSem.
Import ListNotations.
Local Open Scope list_scope.

(** * 1. Bridge: every consistent circuit state IS a well-formed netlist, so every theorem that assumes [wf_netlist]
    (C01 / C07 / C17) applies to every circuit reachable by an edit history *)
Theorem C10_view_wf : forall c, CInv c -> IoLive c -> NetlistWf.wf_netlist (view c).
Proof. exact view_wf. Qed.
Theorem C10_history_view_wf : forall ops, forallb supported ops = true -> hist_pre empty ops = true ->
  exists c, run_hist ops = Some c /\ CInv c /\ IoLive c /\ NetlistWf.wf_netlist (view c).
Proof. exact history_view_wf. Qed.

(** * 2. copy() and the pickle round trip: same netlist up to trailing unconnected pins, same names and order of
    s_nodes, same node names by position, same set of gate-by-gate solutions in every value domain *)
Theorem C10_copy_view : forall c c', CInv c -> io_ok_b c = true -> copy c = Some c' ->
  CInv c' /\ IoLive c' /\ pin_equiv (view c') (view c) /\ s_names c' = s_names c /\
  map (name_of c') (nodes c') = map (name_of c) (nodes c).
Proof. exact copy_view. Qed.
Theorem C10_pickle_view : forall c c', CInv c -> io_ok_b c = true -> pickle_roundtrip c = Some c' ->
  CInv c' /\ IoLive c' /\ pin_equiv (view c') (view c) /\ s_names c' = s_names c /\
  map (name_of c') (nodes c') = map (name_of c) (nodes c).
Proof. exact pickle_view. Qed.
Theorem C10_pin_equiv_solution : forall V (sem : N -> V -> V -> V -> V -> V) (zero : V) a b stim v, pin_equiv a b ->
  (NetlistSem.solution sem zero a stim v <-> NetlistSem.solution sem zero b stim v).
Proof. exact pin_equiv_solution. Qed.
Theorem C10_copy_solution : forall V (sem : N -> V -> V -> V -> V -> V) (zero : V) c c' stim v,
  CInv c -> io_ok_b c = true -> copy c = Some c' ->
  (NetlistSem.solution sem zero (view c') stim v <-> NetlistSem.solution sem zero (view c) stim v).
Proof. exact copy_solution. Qed.
Theorem C10_pickle_solution : forall V (sem : N -> V -> V -> V -> V -> V) (zero : V) c c' stim v,
  CInv c -> io_ok_b c = true -> pickle_roundtrip c = Some c' ->
  (NetlistSem.solution sem zero (view c') stim v <-> NetlistSem.solution sem zero (view c) stim v).
Proof. exact pickle_solution. Qed.
(* [view c' = view c] is NOT a theorem: Line.remove leaves a trailing None in the pin list of a cell, copy() does not
   recreate it (hypotheses of the theorems above hold for this instance) *)
Theorem C10_copy_view_not_equal :
  run_hist trailing_none_history = Some tn_c /\ hist_pre empty trailing_none_history = true /\
  copy tn_c = Some tn_c' /\ view tn_c' <> view tn_c /\
  Netlist.n_outs (Netlist.get_node (view tn_c) 0) = [Some 0; None] /\
  Netlist.n_outs (Netlist.get_node (view tn_c') 0) = [Some 0].
Proof. exact copy_view_not_equal. Qed.

(** * 3. eliminate_1to1_forks *)
(* (a) the id-based semantics is the netlist semantics of the view *)
Theorem C10_csol_iff_solution : forall V (sem : N -> V -> V -> V -> V -> V) (zero : V) c, CInv c -> IoLive c ->
  forall stim v, csol sem zero c stim v <-> NetlistSem.solution sem zero (view c) (stim_by_pos c stim) (val_by_idx c v).
Proof. exact @csol_iff_solution. Qed.
Theorem C10_solution_iff_csol : forall V (sem : N -> V -> V -> V -> V -> V) (zero : V) c, CInv c -> IoLive c ->
  forall stim w, NetlistSem.solution sem zero (view c) stim w <-> csol sem zero c (stim_by_id zero c stim) (val_by_id c w).
Proof. exact @solution_iff_csol. Qed.

(* (b)+(c) in every value domain in which a buffer copies its operand: the call does not raise (C09_eliminate), io_nodes,
   all names and kinds are unchanged, only forks that are not interface nodes disappear, the set of interface nodes is
   unchanged, every solution of the circuit is (restricted to the surviving lines) a solution of the result, every solution of
   the result extends to one of the original, and both read the same value at every input pin of every surviving node --
   in particular at the inputs of the ports and state elements *)
Theorem C10_eliminate_function : forall V (sem : N -> V -> V -> V -> V -> V) (zero : V),
  (forall x a b d, sem (SimOps.lutv "BUF1") x a b d = x) ->
  forall c c', CInv c -> IoLive c -> elim_ok_b c = true -> eliminate_1to1 c = Some c' ->
  CInv c' /\ IoLive c' /\
  io c' = io c /\ (forall x, name_of c' x = name_of c x /\ kind_of c' x = kind_of c x) /\
  (forall m, In m (nodes c') -> In m (nodes c)) /\ (forall l, In l (lines c') -> In l (lines c)) /\
  (forall m, In m (nodes c) -> In m (nodes c') \/ (is_fork (kind_of c m) = true /\ ciface c m = false)) /\
  (forall m, (In m (nodes c') /\ ciface c' m = true) <-> (In m (nodes c) /\ ciface c m = true)) /\
  (forall stim v, csol sem zero c stim v ->
     csol sem zero c' stim v /\ forall m k, In m (nodes c') -> obs zero c v m k = obs zero c' v m k) /\
  (forall stim v', csol sem zero c' stim v' ->
     exists v, csol sem zero c stim v /\ (forall l, In l (lines c') -> v l = v' l) /\
               forall m k, In m (nodes c') -> obs zero c v m k = obs zero c' v' m k).
Proof. exact eliminate_function. Qed.
Theorem C10_eliminate_solution_view : forall V (sem : N -> V -> V -> V -> V -> V) (zero : V),
  (forall x a b d, sem (SimOps.lutv "BUF1") x a b d = x) ->
  forall c c', CInv c -> IoLive c -> elim_ok_b c = true -> eliminate_1to1 c = Some c' ->
  (forall stim v, NetlistSem.solution sem zero (view c) (stim_by_pos c stim) (val_by_idx c v) ->
                  NetlistSem.solution sem zero (view c') (stim_by_pos c' stim) (val_by_idx c' v)) /\
  (forall stim v', NetlistSem.solution sem zero (view c') (stim_by_pos c' stim) (val_by_idx c' v') ->
     exists v, NetlistSem.solution sem zero (view c) (stim_by_pos c stim) (val_by_idx c v) /\
               forall l, In l (lines c') -> v l = v' l).
Proof. exact eliminate_solution_view. Qed.
(* the hypothesis on the value domain holds for the 2-valued LUT interpretation of C01 *)
Theorem C10_sem_lut_buf : forall x a b d, NetlistSem.sem_lut (SimOps.lutv "BUF1") x a b d = x.
Proof. exact sem_lut_buf. Qed.

(** * 4. names and order of s_nodes under eliminate_1to1_forks: the ports keep their positions and names, the state
    elements keep their names but only as a multiset ... *)
Theorem C10_eliminate_s_names : forall c c', CInv c -> IoLive c -> elim_ok_b c = true -> eliminate_1to1 c = Some c' ->
  exists ports st st', s_names c = ports ++ st /\ s_names c' = ports ++ st' /\ Permutation st' st /\
                       List.length ports = List.length (io c) /\ ports = map (name_of c) (io_ids c).
Proof. exact eliminate_s_names. Qed.
Theorem C10_eliminate_s_names_perm : forall c c', CInv c -> IoLive c -> elim_ok_b c = true -> eliminate_1to1 c = Some c' ->
  Permutation (s_names c') (s_names c).
Proof. exact eliminate_s_names_perm. Qed.
(* ... and "nor the order of the state elements" is FALSE for the code (known finding D29): Node.remove moves the LAST node
   into the hole.  Wanted, refuted:  forall c c', CInv c -> elim_ok_b c = true -> eliminate_1to1 c = Some c' -> s_names c' = s_names c.
   Witness: nodes [i, f, d1, o, f2, d2], i -> f -> d1 -> f2 -> d2 -> o, io_nodes [i, o] (a well-formed 13-step history) *)
Theorem C10_eliminate_state_order_refuted :
  exists c c', run_hist order_history = Some c /\ hist_pre empty order_history = true /\
               CInv c /\ IoLive c /\ elim_ok_b c = true /\ eliminate_1to1 c = Some c' /\
               s_names c = ["i"; "o"; "d1"; "d2"]%string /\ s_names c' = ["i"; "o"; "d2"; "d1"]%string /\
               s_names c' <> s_names c /\ Permutation (s_names c') (s_names c).
Proof. exact eliminate_state_order_refuted. Qed.

(* a sufficient condition under which the ORDER is kept as well: every flip-flop / latch precedes, in Circuit.nodes, every fork
   that the loop removes (1:1 forks outside the interface) -- then s_nodes is unchanged as a list of node ids and of names *)
From KV Require Proofs.CircuitElimOrder.
Theorem C10_eliminate_order_kept : forall c c', CInv c -> IoLive c -> elim_ok_b c = true -> state_first c ->
  eliminate_1to1 c = Some c' -> s_node_ids c' = s_node_ids c /\ s_names c' = s_names c.
Proof. exact CircuitElimOrder.eliminate_order_kept. Qed.
Theorem C10_state_first_b_sound : forall c, state_first_b c = true -> state_first c.
Proof. exact CircuitElimOrder.state_first_b_sound. Qed.
(* ... satisfiable with forks that are removed: nodes [i, d1, o, f, f2], i -> f -> d1 -> f2 -> o *)
Theorem C10_order_kept_example :
  run_hist CircuitElimOrder.kept_history = Some CircuitElimOrder.kept_c /\ hist_pre empty CircuitElimOrder.kept_history = true /\
  CInv CircuitElimOrder.kept_c /\ IoLive CircuitElimOrder.kept_c /\ elim_ok_b CircuitElimOrder.kept_c = true /\
  state_first CircuitElimOrder.kept_c /\ eliminate_1to1 CircuitElimOrder.kept_c = Some CircuitElimOrder.kept_c' /\
  List.length (nodes CircuitElimOrder.kept_c) = 5 /\ List.length (nodes CircuitElimOrder.kept_c') = 3 /\
  s_names CircuitElimOrder.kept_c' = ["i"; "o"; "d1"]%string.
Proof. exact CircuitElimOrder.kept_example. Qed.

(** * 5. the hypotheses are satisfiable, and the bridge in action: for the witness circuit (input, two 1:1 forks, two flip-flops,
    output; given as an edit history) and EVERY stimulus, the op list SimOps schedules for its view computes a solution
    (C01_build_ops_solution applies through C10_view_wf); read by ids it is a solution of the circuit state and -- same
    valuation, same stimulus by id -- of the state after eliminate_1to1_forks *)
From KV Require Model.AllocCheck Proofs.CircuitC10Example.
Theorem C10_example_solution : forall stim : nat -> bool,
  let w := AllocCheck.iexec NetlistSem.sem_lut (fun x => x) (SimOps.build_ops (view order_c) false)
                            (NetlistSem.init_env false (view order_c) stim) in
  NetlistSem.solution NetlistSem.sem_lut false (view order_c) stim w /\
  csol NetlistSem.sem_lut false order_c (stim_by_id false order_c stim) (val_by_id order_c w) /\
  csol NetlistSem.sem_lut false order_c' (stim_by_id false order_c stim) (val_by_id order_c w).
Proof. exact CircuitC10Example.example_solution. Qed.
